import MgpuModel.C06_Lanes
/-! # C06 — translated lane bodies: the interface between one iteration of a Go lane loop and the skeleton

`translate/lanebody.go` translates the statements INSIDE the lane loop of every straight-line integer
vector handler (after the EXEC guard) literally into a Lean function `raw : Uni → RawIn → RawOut` over
`BitVec` with Go semantics (the expression translator of the scalar half, `translate/alu.go`).  Nothing
is pattern-matched: the loop variable `i` is an input, the 64-bit mask source (`vcc := state.VCC()`, an
inline `state.VCC()`, or `state.ReadOperand(inst.Src2, i)` of VOP3b / `v_cndmask_b32_e64`) is a 64-bit
input, the mask accumulator (`var vcc uint64 … vcc |= 1 << uint(i) … SetVCC(vcc)`) is a 64-bit
input/output.  That such a body is *lane-uniform* — looks only at bit `i` of the masks, changes only bit
`i` of the accumulator, and does the same thing for every `i` — is the proof obligation `LaneUniform`
(proved for every generated body in `MgpuProofs/Props/C06Body.lean`).  `goRun` is the whole handler as
Go runs it (64-bit accumulator, guard `exec&(1<<uint(i)) == 0`), `toHandler` the instance of the generic
skeleton `vexec`; `MgpuProofs/C06Body.lean` proves `goRun = vexec ∘ toHandler` for lane-uniform bodies. -/
namespace C06

/-- uniform fields of the decoded instruction a lane body may consult (the same for every lane) -/
structure Uni where
  isSdwa : Bool
  clamp : Bool
  abs : BitVec 64
  neg : BitVec 64
  omod : BitVec 64
  src0Sel : BitVec 32
  src1Sel : BitVec 32
  dstSel : BitVec 32
  dstUnused : BitVec 8
  /-- VOP3P op_sel / op_sel_hi and the SDWA / VOP3P per-source modifiers -/
  opSel : BitVec 64
  opSelHi : BitVec 64
  src0Neg : Bool
  src1Neg : Bool
  src2Neg : Bool
  src0Abs : Bool
  src1Abs : Bool
  src2Abs : Bool
  /-- `state.ReadOperand(inst.Src2, 0)` read once before the loop: the literal K of `v_madak_f32`,
      `v_fmamk_f32`, `v_fmaak_f32` (a `LiteralConstant` operand, never a VGPR) -/
  k2 : BitVec 64
  /-- `strings.HasPrefix(inst.InstName, "v_pk_")` (consulted by CDNA3 `vop3aPostprocess` only) -/
  isPk : Bool := false
deriving Repr, DecidableEq

def Uni.zero : Uni :=
  { isSdwa := false, clamp := false, abs := 0, neg := 0, omod := 0, src0Sel := 0, src1Sel := 0, dstSel := 0, dstUnused := 0
    opSel := 0, opSelHi := 0, src0Neg := false, src1Neg := false, src2Neg := false, src0Abs := false, src1Abs := false
    src2Abs := false, k2 := 0 }

/-- everything one iteration of the Go lane loop reads -/
structure RawIn where
  /-- the loop variable -/
  i : Nat
  /-- `state.ReadOperand(inst.Src0, i)` … -/
  src0 : BitVec 64
  src1 : BitVec 64
  src2 : BitVec 64
  /-- `state.ReadOperand(inst.Dst, i)` (before this lane's write) -/
  dstOld : BitVec 64
  /-- the value of `state.VCC()` when the handler started (`vcc := state.VCC()` before the loop, or an
      inline `state.VCC()`; `SetVCC` happens after the loop) -/
  vcc : BitVec 64
  /-- the mask accumulator variable on entry to this iteration -/
  acc : BitVec 64
deriving Repr, DecidableEq

/-- everything one iteration does -/
structure RawOut where
  /-- the value passed to `state.WriteOperand(inst.Dst, i, ·)` -/
  dst : Option (BitVec 64)
  /-- the mask accumulator variable at the end of this iteration -/
  acc : BitVec 64
deriving Repr, DecidableEq

/-- `var x uint64` / `x := state.VCC()` / no accumulator -/
inductive AccInit where
  | none | zero | vcc
deriving DecidableEq, Repr

/-- which 64-bit input is a lane mask of which the body may only use bit `i` -/
inductive MaskSrc where
  | none
  /-- `state.VCC()` -/
  | vcc
  /-- `state.ReadOperand(inst.Src2, i)` (an SGPR pair / VCC named by the src2 field) -/
  | src2
  /-- the accumulator variable itself (`vcc := state.VCC()` updated in place: CDNA3 `v_addc/subb`) -/
  | acc
deriving DecidableEq, Repr

/-- where the accumulator is written after the loop -/
inductive Sink where
  | none
  /-- `state.SetVCC(x)` -/
  | vcc
  /-- `state.WriteOperand(inst.SDst, 0, x)` -/
  | sdst
  /-- `state.WriteOperand(inst.Dst, 0, x)` (VOP3a compares) -/
  | dst
deriving DecidableEq, Repr

/-- the lane guard as written: `exec&(1<<uint(i)) == 0` or `!laneMasked(exec, uint(i))` -/
inductive Guard where
  | bitZero | notLaneMasked
deriving DecidableEq, Repr

/-- one translated handler -/
structure LaneHandler where
  arch : String
  name : String
  guard : Guard
  accInit : AccInit
  msrc : MaskSrc
  sink : Sink
  /-- the uniform path condition under which the handler does not `log.Panicf` (SDWA not implemented …) -/
  ok : Uni → Bool
  raw : Uni → RawIn → RawOut

/-- how a vector handler record is covered -/
inductive Cov where
  /-- lane body translated: entry `idx` of `Gen.Lane.laneHandlers` -/
  | translated (idx : Nat)
  /-- a float handler: the loop skeleton, mask reads and accumulator updates translated literally, the
      float32/float64 data path as Lean `Float32`/`Float` operations (opaque to the kernel: an uninterpreted
      function of the lane's own operand values). Lane-uniformity is proved; there is NO `c06 body`
      correspondence for these (NaN payloads, libm vs Go's math package) -/
  | translatedF (idx : Nat)
  /-- only calls other handlers with `state` (`runVADDI32` → SDWA / regular variant) -/
  | wrapper (callees : List String)
  /-- some value of type float32/float64 or a `math.*` call: no exact reference; syntactic fit + extensional test -/
  | float
  /-- LDS / `storageAccessor` / `ReadOperandBytes` / `WriteOperandBytes` (DS, FLAT; `C06Mem`) -/
  | memory
  /-- per-lane address helper with a `laneID` parameter (FLAT) -/
  | helper
  /-- per-lane operand read wrapper with a `laneID` parameter in the ALU files (`readF64`: `ReadOperand`, or the
      binary64 encoding of an inline float constant); the bodies that call it are translated with its result as
      the operand value -/
  | operandRead
  /-- a loop inside the lane loop (bit scans, byte permutes) -/
  | innerLoop
  /-- builds a slice and calls the standard library (`sort.Ints` in GCN3/CDNA3 `v_med3_i32`) -/
  | library
  /-- the documented cross-lane instruction `v_readfirstlane_b32` -/
  | crossLane
  /-- no lane loop and no operand access (`vop3aPreprocess`, `vop3aPostprocess`) -/
  | noLaneCode
  /-- no lane loop and no operand access, translated: uniform checks and at most one `SetVCC(constant)`;
      entry `idx` of `Gen.Lane.noLaneHandlers` (second deepening) -/
  | constant (idx : Nat)
deriving DecidableEq, Repr

structure CovRow where
  arch : String
  name : String
  cov : Cov
deriving DecidableEq, Repr

/-- a handler without lane loop and without operand access (`vop3aPreprocess/Postprocess`, CDNA3 `v_cmp_f_u64`) -/
structure NoLaneHandler where
  arch : String
  name : String
  /-- the uniform condition under which the handler does not `log.Panic` -/
  ok : Uni → Bool
  /-- the constant handed to `state.SetVCC`, if the handler writes VCC -/
  setVCC : Option (BitVec 64)

/-! ## The lane-local view of a body -/

/-- what a lane-local body can see: its operand values, its bit of the mask source, its bit of the accumulator -/
structure BodyIn where
  src0 : BitVec 64
  src1 : BitVec 64
  src2 : BitVec 64
  dstOld : BitVec 64
  mbit : Bool
  abit : Bool

structure BodyOut where
  dst : Option (BitVec 64)
  bit : Bool

def b2bv (b : Bool) : BitVec 64 := if b then 1#64 else 0#64

/-- `x |= 1 << i` / `x &^= 1 << i` -/
def setBit (a : BitVec 64) (i : Nat) (b : Bool) : BitVec 64 :=
  if b then a ||| (1#64 <<< i) else a &&& ~~~(1#64 <<< i)

/-- run the body as lane 0 of a wavefront whose masks hold just this lane's bits -/
def LaneHandler.embed (h : LaneHandler) (b : BodyIn) : RawIn :=
  { i := 0, src0 := b.src0, src1 := b.src1
    src2 := (match h.msrc with | .src2 => b2bv b.mbit | _ => b.src2)
    dstOld := b.dstOld, vcc := b2bv b.mbit, acc := b2bv b.abit }

/-- the lane-local function of a translated handler -/
def LaneHandler.body (h : LaneHandler) (u : Uni) (b : BodyIn) : BodyOut :=
  let o := h.raw u (h.embed b)
  { dst := o.dst, bit := o.acc.getLsbD 0 }

/-- what iteration `r.i` is allowed to depend on -/
def LaneHandler.view (h : LaneHandler) (r : RawIn) : BodyIn :=
  { src0 := r.src0, src1 := r.src1
    src2 := (match h.msrc with | .src2 => 0#64 | _ => r.src2)
    dstOld := r.dstOld
    mbit := (match h.msrc with
      | .none => false
      | .vcc => r.vcc.getLsbD r.i
      | .src2 => r.src2.getLsbD r.i
      | .acc => r.acc.getLsbD r.i)
    abit := r.acc.getLsbD r.i }

/-- **Lane-uniformity of a translated body**: iteration `i` on arbitrary 64-bit masks does what the
    lane-local body does on bit `i` of the masks, and changes the accumulator at bit `i` only. A body
    that tests `vcc&(1<<i) == 1`, shifts by `i^1`, writes `1 << (i+1)` or looks at another bit fails this. -/
def LaneUniform (h : LaneHandler) : Prop :=
  ∀ (u : Uni) (r : RawIn), r.i < 64 →
    (h.raw u r).dst = (h.body u (h.view r)).dst ∧
    (h.raw u r).acc = setBit r.acc r.i (h.body u (h.view r)).bit

/-! ## Operands (C07's business; modelled) and the instance of the skeleton -/

/-- where an operand lives -/
inductive Opnd where
  /-- `n` consecutive 32-bit registers of the lane's own VGPR row starting at `r` (`n` = 1 or 2) -/
  | vgpr (r : Nat) (n : Nat)
  /-- an SGPR / literal / inline constant / VCC: the same value for every lane -/
  | uni (v : BitVec 64)
deriving DecidableEq, Repr

structure Ops where
  src0 : Opnd
  src1 : Opnd
  src2 : Opnd
  dst : Opnd
  uni : Uni

def readOpnd (o : Opnd) (regs : Nat → Nat) : BitVec 64 :=
  match o with
  | .vgpr r n => if n ≤ 1 then BitVec.ofNat 64 (regs r % 4294967296)
                 else BitVec.ofNat 64 (regs r % 4294967296 + 4294967296 * (regs (r + 1) % 4294967296))
  | .uni v => v

def writeOpnd (o : Opnd) (v : BitVec 64) : List (Nat × Nat) :=
  match o with
  | .vgpr r n => if n ≤ 1 then [(r, v.toNat % 4294967296)]
                 else [(r, v.toNat % 4294967296), (r + 1, v.toNat / 4294967296)]
  | .uni _ => []

def LaneHandler.maskMode (h : LaneHandler) : MaskMode :=
  match h.accInit with
  | .none => .none
  | .zero => .fresh
  | .vcc => .inplace

def LaneHandler.bodyIn (h : LaneHandler) (ops : Ops) (a : LaneIn) : BodyIn :=
  { src0 := readOpnd ops.src0 a.regs, src1 := readOpnd ops.src1 a.regs
    src2 := (match h.msrc with | .src2 => 0#64 | _ => readOpnd ops.src2 a.regs)
    dstOld := readOpnd ops.dst a.regs
    mbit := (match h.msrc with | .none => false | _ => a.mbit)
    abit := (match h.accInit with | .vcc => a.mbit | _ => false) }

/-- **the translated handler as an instance of the generic skeleton** -/
def LaneHandler.toHandler (h : LaneHandler) : Handler Ops :=
  { f := fun ops a =>
      let o := h.body ops.uni (h.bodyIn ops a)
      { writes := (match o.dst with | some v => writeOpnd ops.dst v | none => [])
        bit := o.bit, loads := [], stores := [] }
    mask := h.maskMode }

/-! ## The handler as Go runs it -/

/-- the guard of lane `i` as written in the source -/
def Guard.skips (g : Guard) (exec : BitVec 64) (i : Nat) : Bool :=
  match g with
  | .bitZero => (exec &&& (1#64 <<< i)) == 0#64
  | .notLaneMasked => !(BitVec.ult 0#64 (exec &&& (1#64 <<< i)))

/-- mutable state of the Go loop: the VGPR file and the accumulator variable -/
structure GoSt where
  vgpr : Nat → Nat → Nat
  acc : BitVec 64

/-- what iteration `i` reads: `state.ReadOperand(inst.X, i)` on the current register file, `state.VCC()`,
    the accumulator variable -/
def GoSt.rawIn (g : GoSt) (ops : Ops) (vcc0 : BitVec 64) (i : Nat) : RawIn :=
  { i := i
    src0 := readOpnd ops.src0 (g.vgpr i)
    src1 := readOpnd ops.src1 (g.vgpr i)
    src2 := readOpnd ops.src2 (g.vgpr i)
    dstOld := readOpnd ops.dst (g.vgpr i)
    vcc := vcc0
    acc := g.acc }

/-- one iteration: `if guard { continue }; body` -/
def goIter (h : LaneHandler) (ops : Ops) (exec vcc0 : BitVec 64) (i : Nat) (g : GoSt) : GoSt :=
  if h.guard.skips exec i then g else
    let o := h.raw ops.uni (g.rawIn ops vcc0 i)
    { vgpr := (match o.dst with
        | some v => fun l => if l = i then writeCells (g.vgpr i) (writeOpnd ops.dst v) else g.vgpr l
        | none => g.vgpr)
      acc := o.acc }

def goLoop (h : LaneHandler) (ops : Ops) (exec vcc0 : BitVec 64) : Nat → GoSt → GoSt
  | 0, g => g
  | n + 1, g => goIter h ops exec vcc0 n (goLoop h ops exec vcc0 n g)

/-- `exec := state.EXEC(); [vcc := state.VCC()]; [var acc uint64 | acc := state.VCC()]; for i := 0; i < 64; i++ {…}`;
    returns the VGPR file and the value handed to `SetVCC` / `WriteOperand(inst.SDst, 0, ·)` -/
def goRun (h : LaneHandler) (ops : Ops) (exec vcc0 : BitVec 64) (vgpr : Nat → Nat → Nat) : GoSt :=
  goLoop h ops exec vcc0 64
    { vgpr := vgpr, acc := (match h.accInit with | .vcc => vcc0 | _ => 0#64) }

/-! ## Stand-ins for Go's float conversions and `math` functions (float handlers; never unfolded in proofs,
not executed by the correspondence) -/
namespace GoF

/-- Go `intN(f)` / `uintN(f)`: truncation toward zero; the result for NaN / out-of-range values is
    implementation specific in Go (here: saturating through int64) -/
def toInt (w : Nat) (_signed : Bool) (x : Float) : BitVec w := BitVec.ofInt w x.toInt64.toInt

def trunc (x : Float) : Float := if x < 0 then Float.ceil x else Float.floor x

def roundToEven (x : Float) : Float :=
  let r := Float.round x
  if Float.abs (x - trunc x) == 0.5 then 2 * Float.round (x / 2) else r

def min (x y : Float) : Float := if x.isNaN || y.isNaN then x + y else if x < y then x else y
def max (x y : Float) : Float := if x.isNaN || y.isNaN then x + y else if x < y then y else x

/-- `math.IsInf(f, sign)` -/
def isInf (x : Float) (sign : BitVec 64) : Bool :=
  x.isInf && (sign == 0#64 || (BitVec.slt 0#64 sign && decide (0 < x)) || (BitVec.slt sign 0#64 && decide (x < 0)))

def signbit (x : Float) : Bool := (x.toBits >>> 63) != 0

/-- `math.Inf(sign)` -/
def inf (sign : BitVec 64) : Float := if BitVec.sle 0#64 sign then Float.ofBits 0x7ff0000000000000 else Float.ofBits 0xfff0000000000000

def nan : Float := Float.ofBits 0x7ff8000000000001

/-- insertion sort of three elements, the way Go's `sort` / `slices` package sorts fewer than 12 elements
    (`insertionSortOrdered`: `for i := 1; i < 3; i++ { for j := i; j > 0 && less(d[j], d[j-1]); j-- { swap } }`) -/
def insertion3 {α} (lt : α → α → Bool) (a b c : α) : α × α × α :=
  let a1 := if lt b a then b else a
  let b1 := if lt b a then a else b
  if lt c b1 then (if lt c a1 then (c, a1, b1) else (a1, c, b1)) else (a1, b1, c)

/-- `sort.Float64s` of three elements: `less(x, y) = x < y || (isNaN(x) && !isNaN(y))` -/
def sortFloat64s3 (a b c : Float) : Float × Float × Float :=
  insertion3 (fun x y => decide (x < y) || (x.isNaN && !y.isNaN)) a b c

end GoF

/-! ## Library functions of `amd/bitops` (another package; hand-transcribed, constant bit positions) -/
namespace Go

/-- `bitops.ExtractBitsFromU64(num, lo, hi)` for `0 ≤ lo ≤ hi < 64` -/
def extractBitsU64 (n : BitVec 64) (lo hi : BitVec 64) : BitVec 64 :=
  let mask : BitVec 64 := ((1#64 <<< (hi - lo + 1#64).toNat) - 1#64) <<< lo.toNat
  (n &&& mask) >>> lo.toNat

/-- `bitops.ExtractBitsFromU32(num, lo, hi)` -/
def extractBitsU32 (n : BitVec 32) (lo hi : BitVec 64) : BitVec 32 :=
  let mask : BitVec 32 := ((1#32 <<< (hi - lo + 1#64).toNat) - 1#32) <<< lo.toNat
  (n &&& mask) >>> lo.toNat

/-- `bitops.SignExt(in, signBit)` for `0 ≤ signBit < 63` -/
def signExt (x : BitVec 64) (signBit : BitVec 64) : BitVec 64 :=
  let mask : BitVec 64 := ~~~((1#64 <<< (signBit + 1#64).toNat) - 1#64)
  let sign := (x >>> signBit.toNat) &&& 1#64
  if BitVec.ult 0#64 sign then x ||| mask else x &&& ~~~mask

/-- `sort.Ints` of three elements (Go `int` = 64-bit signed) -/
def sortInts3 (a b c : BitVec 64) : BitVec 64 × BitVec 64 × BitVec 64 :=
  GoF.insertion3 (fun x y => BitVec.slt x y) a b c

end Go

end C06
