import MgpuModel.C18_Base
/-! # C18 — n RDMA engines composed into a closed system

`Sys` = a list of nodes (GPU `i` = node `i`), each with its own copy of the tick-exact engine model
`C18.St` (driven only through `C18.step`), plus

* a **network** between the outside ports: clones leaving `RDMARequestOutside` of node `a` travel to
  `RDMADataOutside` of the node their `Dst` names, answers leaving `RDMADataOutside` of node `b` travel
  to `RDMARequestOutside` of the node their `Dst` names. The network is a bag: any message in flight
  may be delivered next (arbitrary delay and reordering, also between the same pair — more general
  than per-pair FIFO), a delivery the port refuses (incoming buffer full) leaves the message in the
  network; nothing is lost or duplicated;
* arbitrary **L1-side requesters** (`issue`: any source, any payload, at any time, refused when the
  inside port is full; `l1take`: take the next answer, at any time) and the command processor
  (`ctl`, `ctake`);
* arbitrary **L2-side responders** (`l2take`: take the next clone from `RDMADataInside`; `l2ans j d`:
  answer the `j`-th outstanding one, in any order, with any data `d`; an answered clone leaves the
  pool, so each is answered at most once; a reply the port refuses stays outstanding).

In the Go code a clone keeps its global string ID across the network, so the answer's `RspTo`
names the clone directly. The engine model numbers requests per port (`nextA`); the table `names`
of a node undoes this renumbering (local request id ↦ originating node and its clone).
Ghost fields (`namesAll`, `l2all`, `l2done`, `got`, `sent`, `ctlGot`, `outAll`, and `frm`/`k` of `NRsp`) do not
influence behaviour. -/
namespace C18
open Util

/-- a clone in flight: sent by engine `frm`, destination `c.dst` -/
structure NReq where
  frm : Nat
  c : OutReq
deriving DecidableEq, Repr, Inhabited

/-- an answer in flight to engine `dst`; `fid` = the clone it answers (`RspTo`);
    ghost: it was sent by engine `frm` for its local request `k` -/
structure NRsp where
  dst : Nat
  fid : Nat
  data : Option (List Nat)
  frm : Nat
  k : Nat
deriving DecidableEq, Repr, Inhabited

/-- at this node the request with local id `k` is the clone `c` of engine `a` -/
structure Name where
  k : Nat
  a : Nat
  c : OutReq
deriving DecidableEq, Repr, Inhabited

structure Node where
  cfg : Cfg
  s : St := {}
  /-- requests from outside that have not been answered onto the network yet -/
  names : List Name := []
  /-- L2 side: clones taken from `RDMADataInside`, not yet answered -/
  l2 : List OutReq := []
  /-- ghost: every delivery from the network (newest first) -/
  namesAll : List Name := []
  /-- ghost: every clone the L2 side received (newest first) -/
  l2all : List OutReq := []
  /-- ghost: every reply the L2 side gave: the clone and the responder's data (newest first) -/
  l2done : List (OutReq × Option (List Nat)) := []
  /-- ghost: every answer the L1 side received (newest first) -/
  got : List OutRsp := []
  /-- ghost: every request the L1 side issued and the port accepted (newest first) -/
  sent : List Req := []
  /-- ghost: every control response the command processor received (newest first) -/
  ctlGot : List CtlRsp := []
  /-- ghost: every answer the network took from this node (newest first) -/
  outAll : List NRsp := []
deriving Repr

structure Sys where
  nodes : List Node
  netQ : List NReq := []
  netR : List NRsp := []
deriving Repr

/-- first name with key `k`, and the rest -/
def takeName (k : Nat) : List Name → Option (Name × List Name)
  | [] => none
  | x :: xs =>
    if x.k = k then some (x, xs)
    else match takeName k xs with
      | none => none
      | some (g, r) => some (g, x :: r)

inductive SOp
  | issue (a src : Nat) (pl : Payload)     -- L1 side of node a delivers a request
  | ctl (a : Nat) (k : Ctl)                -- command processor → node a
  | tick (a : Nat)
  | sendQ (a : Nat)                        -- network takes the next clone of node a
  | delivQ (j : Nat)                       -- network delivers its j-th request
  | l2take (b : Nat)                       -- L2 side of node b takes the next clone
  | l2ans (b j : Nat) (d : Option (List Nat))  -- L2 side of b answers its j-th outstanding clone with d
  | sendR (b : Nat)                        -- network takes the next answer of node b
  | delivR (j : Nat)                       -- network delivers its j-th answer
  | l1take (a : Nat)                       -- L1 side of node a takes the next answer
  | ctake (a : Nat)                        -- command processor takes the next control response
deriving Repr

def setNode (y : Sys) (i : Nat) (nd : Node) : Sys := { y with nodes := y.nodes.set i nd }

def sstep (y : Sys) : SOp → Sys
  | .issue a src pl =>
    match y.nodes[a]? with
    | none => y
    | some A =>
      if A.s.io.reqIn.length < A.cfg.cap then
        setNode y a { A with s := step A.cfg A.s (.reqI src pl), sent := ⟨A.s.io.nextA, src, pl⟩ :: A.sent }
      else y
  | .ctl a k =>
    match y.nodes[a]? with
    | none => y
    | some A => setNode y a { A with s := step A.cfg A.s (.ctl k) }
  | .tick a =>
    match y.nodes[a]? with
    | none => y
    | some A => setNode y a { A with s := step A.cfg A.s .tick }
  | .sendQ a =>
    match y.nodes[a]? with
    | none => y
    | some A =>
      match A.s.io.reqOut with
      | [] => y
      | q :: _ =>
        { y with nodes := y.nodes.set a { A with s := step A.cfg A.s .takeFwdI },
                 netQ := y.netQ ++ [⟨a, q⟩] }
  | .delivQ j =>
    match y.netQ[j]? with
    | none => y
    | some m =>
      match y.nodes[m.c.dst]? with
      | none => y
      | some B =>
        if B.s.oi.reqIn.length < B.cfg.cap then
          { y with nodes := y.nodes.set m.c.dst
                     { B with s := step B.cfg B.s (Op.reqO m.frm m.c.pl),
                              names := (⟨B.s.oi.nextA, m.frm, m.c⟩ : Name) :: B.names,
                              namesAll := (⟨B.s.oi.nextA, m.frm, m.c⟩ : Name) :: B.namesAll },
                   netQ := y.netQ.eraseIdx j }
        else y
  | .l2take b =>
    match y.nodes[b]? with
    | none => y
    | some B =>
      match B.s.oi.reqOut with
      | [] => y
      | q :: _ =>
        setNode y b { B with s := step B.cfg B.s .takeFwdO, l2 := B.l2 ++ [q], l2all := q :: B.l2all }
  | .l2ans b j d =>
    match y.nodes[b]? with
    | none => y
    | some B =>
      match B.l2[j]? with
      | none => y
      | some q =>
        if B.s.oi.rspIn.length < B.cfg.cap then
          setNode y b { B with s := step B.cfg B.s (.rspO ⟨q.fid, d, false⟩), l2 := B.l2.eraseIdx j,
                               l2done := (q, d) :: B.l2done }
        else y
  | .sendR b =>
    match y.nodes[b]? with
    | none => y
    | some B =>
      match B.s.oi.rspOut with
      | [] => y
      | o :: _ =>
        match takeName o.rspTo B.names with
        | none => y
        | some (nm, rest) =>
          { y with nodes := y.nodes.set b { B with s := step B.cfg B.s .takeAnsO, names := rest,
                                                    outAll := ⟨o.dst, nm.c.fid, o.data, b, o.rspTo⟩ :: B.outAll },
                   netR := y.netR ++ [⟨o.dst, nm.c.fid, o.data, b, o.rspTo⟩] }
  | .delivR j =>
    match y.netR[j]? with
    | none => y
    | some m =>
      match y.nodes[m.dst]? with
      | none => y
      | some A =>
        if A.s.io.rspIn.length < A.cfg.cap then
          { y with nodes := y.nodes.set m.dst { A with s := step A.cfg A.s (.rspI ⟨m.fid, m.data, false⟩) },
                   netR := y.netR.eraseIdx j }
        else y
  | .l1take a =>
    match y.nodes[a]? with
    | none => y
    | some A =>
      match A.s.io.rspOut with
      | [] => y
      | o :: _ => setNode y a { A with s := step A.cfg A.s .takeAnsI, got := o :: A.got }
  | .ctake a =>
    match y.nodes[a]? with
    | none => y
    | some A =>
      match A.s.ctOut with
      | [] => y
      | x :: _ => setNode y a { A with s := step A.cfg A.s .takeCtl, ctlGot := x :: A.ctlGot }

def srun (y : Sys) (ops : List SOp) : Sys := ops.foldl sstep y

/-- node `i` of an `n`-GPU platform: the banked table has one bank per node, the node keeps
    `[i*bank, (i+1)*bank)` local -/
def nodeCfg (cap w1 w2 w3 w4 bank n isz k i : Nat) : Cfg :=
  ⟨cap, w1, w2, w3, w4, bank, n, isz, k, i * bank, (i + 1) * bank⟩

def initSys (cfgs : List Cfg) : Sys := { nodes := cfgs.map fun c => { cfg := c } }

/-! ## Line protocol: `c18 sys n= cap= w= bank= isz= k= ; op ; …` -/

def ctlRspSig : CtlRsp → String
  | .drainAck d => s!"Kd{d}"
  | .restartAck d => s!"Kr{d}"

/-- what the environment observes of one move (computed from the state before the move) -/
def sysTok (y : Sys) (o : SOp) : String :=
  let y' := sstep y o
  match o with
  | .issue a _ _ =>
    match y.nodes[a]? with
    | none => "x"
    | some A => if A.s.io.reqIn.length < A.cfg.cap then s!"+{A.s.io.nextA}" else "-"
  | .ctl a _ =>
    match y.nodes[a]? with
    | none => "x"
    | some A => if A.s.ctIn.length < A.cfg.cap then "+" else "-"
  | .tick a =>
    match y.nodes[a]?, y'.nodes[a]? with
    | some A, some A' =>
      let r := tick A.cfg A.s
      match faultOf A'.s with
      | some f => "fault:" ++ f
      | none => (if r.2 then "t1" else "t0") ++ stateSig A'.s
    | _, _ => "x"
  | .sendQ a =>
    match y.nodes[a]? with
    | none => "x"
    | some A =>
      match A.s.io.reqOut with
      | [] => "none"
      | q :: _ => s!"Q{q.fid}>{q.dst}:{plSig q.pl}"
  | .delivQ j =>
    match y.netQ[j]? with
    | none => "none"
    | some m =>
      match y.nodes[m.c.dst]? with
      | none => "nodst"
      | some B => if B.s.oi.reqIn.length < B.cfg.cap then s!"+{m.c.dst}.{B.s.oi.nextA}" else "full"
  | .l2take b =>
    match y.nodes[b]? with
    | none => "x"
    | some B =>
      match B.s.oi.reqOut with
      | [] => "none"
      | q :: _ => s!"L{q.fid}>{q.dst}:{plSig q.pl}"
  | .l2ans b j _ =>
    match y.nodes[b]? with
    | none => "x"
    | some B =>
      match B.l2[j]? with
      | none => "none"
      | some q => if B.s.oi.rspIn.length < B.cfg.cap then s!"ok{q.fid}" else "full"
  | .sendR b =>
    match y.nodes[b]? with
    | none => "x"
    | some B =>
      match B.s.oi.rspOut with
      | [] => "none"
      | o :: _ =>
        match takeName o.rspTo B.names with
        | none => "noname"
        | some (nm, _) => s!"A{o.rspTo}>{o.dst}.{nm.c.fid}:{dataSig o.data}"
  | .delivR j =>
    match y.netR[j]? with
    | none => "none"
    | some m =>
      match y.nodes[m.dst]? with
      | none => "nodst"
      | some A => if A.s.io.rspIn.length < A.cfg.cap then s!"+{m.dst}.{m.fid}" else "full"
  | .l1take a =>
    match y.nodes[a]? with
    | none => "x"
    | some A =>
      match A.s.io.rspOut with
      | [] => "none"
      | o :: _ => s!"G{o.rspTo}>{o.dst}:{dataSig o.data}"
  | .ctake a =>
    match y.nodes[a]? with
    | none => "x"
    | some A =>
      match A.s.ctOut with
      | [] => "none"
      | x :: _ => ctlRspSig x

def parseData (s : String) : Option (Option (List Nat)) :=
  if s = "w" then some none
  else if s.startsWith "d" then (hexBytes? (s.drop 1).toString).map some
  else none

def parseSOp (t : List String) : Option SOp :=
  match t with
  | "q" :: a :: src :: rest => do
      let a ← a.toNat?; let s ← src.toNat?; let pl ← parsePl rest
      pure (.issue a s pl)
  | ["cd", a, src] => do let a ← a.toNat?; let s ← src.toNat?; pure (.ctl a (.drain s))
  | ["cr", a, src] => do let a ← a.toNat?; let s ← src.toNat?; pure (.ctl a (.restart s))
  | ["t", a] => a.toNat?.map .tick
  | ["sq", a] => a.toNat?.map .sendQ
  | ["dq", j] => j.toNat?.map .delivQ
  | ["lt", b] => b.toNat?.map .l2take
  | ["la", b, j, d] => do let b ← b.toNat?; let j ← j.toNat?; let d ← parseData d; pure (.l2ans b j d)
  | ["sr", b] => b.toNat?.map .sendR
  | ["dr", j] => j.toNat?.map .delivR
  | ["g", a] => a.toNat?.map .l1take
  | ["ck", a] => a.toNat?.map .ctake
  | _ => none

def nodeFaulted (y : Sys) : Bool := y.nodes.any fun nd => faulted nd.s

def sysEnd (y : Sys) : String :=
  "E " ++ joinWith "|" (y.nodes.map fun nd =>
    s!"fi={nd.s.io.fwd.length};ai={nd.s.io.ans.length};fo={nd.s.oi.fwd.length};ao={nd.s.oi.ans.length};k={nd.s.acks.length};g={nd.got.length}") ++
  s!" nq={y.netQ.length} nr={y.netR.length}"

def sysRunOps : List SOp → Sys → List String → List String
  | [], y, out => sysEnd y :: out
  | o :: rest, y, out =>
    if nodeFaulted y then sysEnd y :: out else
    sysRunOps rest (sstep y o) (sysTok y o :: out)

def handleSys (cfg : List String) (rest : List String) : String :=
  match kvNat? cfg "n", kvNat? cfg "cap", (kv? cfg "w").bind (natList? ·), kvHex? cfg "bank",
        kvHex? cfg "isz", kvNat? cfg "k" with
  | some n, some cap, some [w1, w2, w3, w4], some bank, some isz, some k =>
    match rest.mapM fun o => parseSOp (words o) with
    | some ops =>
      let y := initSys ((List.range n).map (nodeCfg cap w1 w2 w3 w4 bank n isz k))
      joinWith " " (sysRunOps ops y []).reverse
    | none => "bad"
  | _, _, _, _, _, _ => "bad"

end C18
