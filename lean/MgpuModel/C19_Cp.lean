import MgpuModel.Util
/-! # C19 — the command processor's control path (`amd/timing/cp/ctrlMiddleware.go`)

Hand-written, tick-exact model (tie H, re-checked by the `c19 cp …` correspondence on every run) of the
part of `cp.CommandProcessor` that serves the driver's migration handshake:

* `CommandProcessor.Tick` = `tickDispatchers` (idle here), `processReqFromDriver` (only when the driver
  port holds a message: `cpMiddleware.Tick`, `ctrlMiddleware.Tick`), `processRspFromInternal` (the same
  two again). One `pass` = `cpMiddleware.Handle` (`processFlushReq` on the head of the driver port),
  `ctrlMiddleware.Handle` (the five commands of the handshake, on what is *then* the head),
  `ctrlMiddleware.HandleInternal` = `processRspFromRDMAs`, `…CUs`, `…ATs`, `…Caches`, `…TLBs`, `…PMC`.
* per command the sub-requests it fans out (RDMA engine, compute units, address translators, caches in
  the three different list orders the code uses, TLBs, page migration controller), the five
  acknowledgement counters (`uint64`, a decrement at 0 wraps), `shootDownInProcess`,
  `currShootdownRequest`, `currFlushRequest`, the answer to the driver;
* the ports are Akita buffers with capacities. `Send`s whose error the code ignores drop the message
  when the outgoing buffer is full (the counter is incremented all the same); `Send`s whose error the
  code panics on are the fault `send`; foreign message types are `never` / `type`; a regular cache flush
  completing without `currFlushRequest` is `nilderef`.

Compute units, address translators, TLBs are numbered inside their class; caches by their position in
`L1I ++ L1S ++ L1V ++ L2`. -/
namespace C19
namespace CP
open Util

/-- kind of a sub-request / acknowledgement: `flush` = drain / pipeline flush / discard transactions /
    cache flush / TLB flush / page migration, `restart` = the restart of the same class, `junk` = a
    message of a foreign type -/
inductive K
  | flush
  | restart
  | junk
deriving DecidableEq, Repr, Inhabited

/-- a message on one of the six internal ports: kind, index of the component inside its class, payload
    tag (cache flush: 1 = pause + discard + invalidate, 0 = plain; TLB flush: id of the shootdown command
    whose PID / addresses it carries; PMC: id of the migrate command whose addresses it carries) -/
structure Sub where
  k : K
  i : Nat := 0
  tag : Nat := 0
deriving DecidableEq, Repr, Inhabited

/-- what the driver sends (`FlushReq` belongs to `cpMiddleware`, it shares `numCacheACK`) -/
inductive Cmd
  | drain
  | rdmaRestart
  | shoot (id : Nat)
  | restart
  | mig (id : Nat)
  | flush (id : Nat)
  | other
deriving DecidableEq, Repr, Inhabited

/-- what the driver receives -/
inductive Ans
  | drain
  | rdmaRestart
  | shoot
  | restart
  | mig
  | flush (id : Nat)
deriving DecidableEq, Repr, Inhabited

def w64 : Nat := 18446744073709551616

/-- `n--` on a `uint64` -/
def dec (n : Nat) : Nat := if n = 0 then 18446744073709551615 else n - 1
/-- `n++` on a `uint64` -/
def inc (n : Nat) : Nat := (n + 1) % w64

structure Cp where
  nCU : Nat := 1
  nAT : Nat := 1
  nTLB : Nat := 1
  nI : Nat := 1
  nS : Nat := 1
  nV : Nat := 1
  n2 : Nat := 1
  /-- capacity of every incoming buffer -/
  capIn : Nat := 4096
  capDrv : Nat := 4096
  capRdma : Nat := 4096
  capCU : Nat := 4096
  capAT : Nat := 4096
  capCache : Nat := 4096
  capTLB : Nat := 4096
  capPMC : Nat := 4096
  drvIn : List Cmd := []
  drvOut : List Ans := []
  rdmaIn : List Sub := []
  rdmaOut : List Sub := []
  cuIn : List Sub := []
  cuOut : List Sub := []
  atIn : List Sub := []
  atOut : List Sub := []
  cacheIn : List Sub := []
  cacheOut : List Sub := []
  tlbIn : List Sub := []
  tlbOut : List Sub := []
  pmcIn : List Sub := []
  pmcOut : List Sub := []
  /-- `numCUAck`, `numAddrTranslationFlushAck`, `numAddrTranslationRestartAck`, `numTLBAck`, `numCacheACK` -/
  numCU : Nat := 0
  numATF : Nat := 0
  numATR : Nat := 0
  numTLB : Nat := 0
  numCache : Nat := 0
  /-- `shootDownInProcess`, `currShootdownRequest`, `currFlushRequest` -/
  shoot : Bool := false
  curShoot : Option Nat := none
  curFlush : Option Nat := none
  fault : Option String := none
deriving Repr, Inhabited

def Cp.nCache (s : Cp) : Nat := s.nI + s.nS + s.nV + s.n2

def seg (a n : Nat) : List Nat := (List.range n).map (· + a)

/-- `processFlushReq`: L1I, L1S, L1V, L2 -/
def Cp.ordFlush (s : Cp) : List Nat :=
  seg 0 s.nI ++ seg s.nI s.nS ++ seg (s.nI + s.nS) s.nV ++ seg (s.nI + s.nS + s.nV) s.n2
/-- `processAddressTranslatorFlushRsp`: L1S, L1V, L1I, L2 -/
def Cp.ordReset (s : Cp) : List Nat :=
  seg s.nI s.nS ++ seg (s.nI + s.nS) s.nV ++ seg 0 s.nI ++ seg (s.nI + s.nS + s.nV) s.n2
/-- `processGPURestartReq`: L2, L1I, L1S, L1V -/
def Cp.ordRestart (s : Cp) : List Nat :=
  seg (s.nI + s.nS + s.nV) s.n2 ++ seg 0 s.nI ++ seg s.nI s.nS ++ seg (s.nI + s.nS) s.nV

/-- `port.Send(m)` with the error ignored -/
def push {α : Type} (out : List α) (cap : Nat) (m : α) : List α :=
  if out.length < cap then out ++ [m] else out

/-- a loop of `Send`s with the error ignored -/
def pushAll {α : Type} (out : List α) (cap : Nat) (ms : List α) : List α := ms.foldl (fun o m => push o cap m) out

/-- `restartCache` / `flushCache`: `Send`, panic on error, `numCacheACK++` -/
def Cp.cacheStrict (s : Cp) (m : Sub) : Cp :=
  if s.fault.isSome then s
  else if s.cacheOut.length < s.capCache then { s with cacheOut := s.cacheOut ++ [m], numCache := inc s.numCache }
  else { s with fault := some "send" }

/-- `cpMiddleware.Handle`: `processFlushReq` (the other requests of `cpMiddleware` are not modelled) -/
def Cp.hFlush (s : Cp) : Cp × Bool :=
  if s.fault.isSome then (s, false) else
  match s.drvIn with
  | .flush f :: rest =>
    if s.numCache > 0 then (s, false) else
    -- repaired: the flush waits while a TLB shootdown (whose cache reset shares `numCacheACK`) is in process
    if s.shoot then (s, false) else
    let s := s.ordFlush.foldl (fun s i => s.cacheStrict ⟨.flush, i, 0⟩) s
    if s.fault.isSome then (s, true) else
    let s := { s with curFlush := some f }
    let s := if s.numCache = 0 then { s with drvOut := push s.drvOut s.capDrv (.flush f) } else s
    ({ s with drvIn := rest }, true)
  | _ => (s, false)

/-- `processFlushReq` BEFORE the repair of round R4: no guard on `shootDownInProcess` (kept for
    `flush_lost_in_shootdown_before_fix`) -/
def Cp.hFlushOld (s : Cp) : Cp × Bool :=
  if s.fault.isSome then (s, false) else
  match s.drvIn with
  | .flush f :: rest =>
    if s.numCache > 0 then (s, false) else
    let s := s.ordFlush.foldl (fun s i => s.cacheStrict ⟨.flush, i, 0⟩) s
    if s.fault.isSome then (s, true) else
    let s := { s with curFlush := some f }
    let s := if s.numCache = 0 then { s with drvOut := push s.drvOut s.capDrv (.flush f) } else s
    ({ s with drvIn := rest }, true)
  | _ => (s, false)

/-- `ctrlMiddleware.Handle` -/
def Cp.hCtrl (s : Cp) : Cp × Bool :=
  if s.fault.isSome then (s, false) else
  match s.drvIn with
  | .drain :: rest =>
    if s.rdmaOut.length < s.capRdma then ({ s with rdmaOut := s.rdmaOut ++ [⟨.flush, 0, 0⟩], drvIn := rest }, true)
    else ({ s with fault := some "send" }, true)
  | .rdmaRestart :: rest =>
    ({ s with rdmaOut := push s.rdmaOut s.capRdma ⟨.restart, 0, 0⟩, drvIn := rest }, true)
  | .shoot id :: rest =>
    if s.shoot then (s, false) else
    -- repaired: the shootdown waits while the caches still owe acknowledgements of a flush / restart
    if s.numCache > 0 then (s, false) else
    ({ s with curShoot := some id, shoot := true,
              numCU := (s.numCU + s.nCU) % w64,
              cuOut := pushAll s.cuOut s.capCU ((List.range s.nCU).map fun i => ⟨.flush, i, 0⟩),
              drvIn := rest }, true)
  | .restart :: rest =>
    let s := s.ordRestart.foldl (fun s i => s.cacheStrict ⟨.restart, i, 0⟩) s
    if s.fault.isSome then (s, true) else ({ s with drvIn := rest }, true)
  | .mig id :: rest =>
    if s.pmcOut.length < s.capPMC then ({ s with pmcOut := s.pmcOut ++ [⟨.flush, 0, id⟩], drvIn := rest }, true)
    else ({ s with fault := some "send" }, true)
  | _ => (s, false)

/-- `processRspFromRDMAs` -/
def Cp.rRdma (s : Cp) : Cp × Bool :=
  if s.fault.isSome then (s, false) else
  match s.rdmaIn with
  | [] => (s, false)
  | m :: rest =>
    match m.k with
    | .flush =>
      if s.drvOut.length < s.capDrv then ({ s with drvOut := s.drvOut ++ [.drain], rdmaIn := rest }, true)
      else ({ s with fault := some "send" }, true)
    | .restart => ({ s with drvOut := push s.drvOut s.capDrv .rdmaRestart, rdmaIn := rest }, true)
    | .junk => ({ s with fault := some "never" }, true)

/-- `processRspFromCUs` -/
def Cp.rCU (s : Cp) : Cp × Bool :=
  if s.fault.isSome then (s, false) else
  match s.cuIn with
  | [] => (s, false)
  | m :: rest =>
    match m.k with
    | .flush =>
      let n := dec s.numCU
      let s := { s with numCU := n, cuIn := rest }
      if n = 0 then
        ({ s with atOut := pushAll s.atOut s.capAT ((List.range s.nAT).map fun i => ⟨.flush, i, 0⟩),
                  numATF := (s.numATF + s.nAT) % w64 }, true)
      else (s, true)
    | .restart =>
      let n := dec s.numCU
      let s := { s with numCU := n, cuIn := rest }
      if n = 0 then ({ s with drvOut := push s.drvOut s.capDrv .restart }, true) else (s, true)
    | .junk => (s, false)

/-- `processRspFromATs`: every `*mem.ControlMsg` is an acknowledgement; which of the two counters it
    decrements depends on the counters, not on the message -/
def Cp.rAT (s : Cp) : Cp × Bool :=
  if s.fault.isSome then (s, false) else
  match s.atIn with
  | [] => (s, false)
  | m :: rest =>
    if m.k = .junk then ({ s with fault := some "type" }, true) else
    if s.numATF > 0 then
      let n := dec s.numATF
      let s := { s with numATF := n, atIn := rest }
      if n = 0 then
        ({ s with cacheOut := pushAll s.cacheOut s.capCache (s.ordReset.map fun i => ⟨.flush, i, 1⟩),
                  numCache := (s.numCache + s.nCache) % w64 }, true)
      else (s, true)
    else if s.numATR > 0 then
      let n := dec s.numATR
      let s := { s with numATR := n, atIn := rest }
      if n = 0 then
        ({ s with cuOut := pushAll s.cuOut s.capCU ((List.range s.nCU).map fun i => ⟨.restart, i, 0⟩),
                  numCU := (s.numCU + s.nCU) % w64 }, true)
      else (s, true)
    else ({ s with fault := some "never" }, true)

/-- `processRspFromCaches` -/
def Cp.rCache (s : Cp) : Cp × Bool :=
  if s.fault.isSome then (s, false) else
  match s.cacheIn with
  | [] => (s, false)
  | m :: rest =>
    match m.k with
    | .flush =>
      -- the last acknowledgement of a regular flush stays in the port while the answer does not fit into ToDriver
      -- (`numCacheACK == 1 && !shootDownInProcess && !ToDriver.CanSend()` → `return false`)
      if s.numCache = 1 && !s.shoot && !(s.drvOut.length < s.capDrv) then (s, false) else
      let n := dec s.numCache
      let s := { s with numCache := n, cacheIn := rest }
      if n = 0 then
        if s.shoot then
          ({ s with curFlush := none,
                    tlbOut := pushAll s.tlbOut s.capTLB
                      ((List.range s.nTLB).map fun i => ⟨.flush, i, s.curShoot.getD 0⟩),
                    numTLB := (s.numTLB + s.nTLB) % w64 }, true)
        else
          match s.curFlush with
          | none => ({ s with fault := some "nilderef" }, true)
          | some f => ({ s with drvOut := push s.drvOut s.capDrv (.flush f), curFlush := none }, true)
      else (s, true)
    | .restart =>
      let n := dec s.numCache
      let s := { s with numCache := n, cacheIn := rest }
      if n = 0 then
        ({ s with tlbOut := pushAll s.tlbOut s.capTLB ((List.range s.nTLB).map fun i => ⟨.restart, i, 0⟩),
                  numTLB := (s.numTLB + s.nTLB) % w64 }, true)
      else (s, true)
    | .junk => ({ s with fault := some "never" }, true)

/-- `processRspFromTLBs` -/
def Cp.rTLB (s : Cp) : Cp × Bool :=
  if s.fault.isSome then (s, false) else
  match s.tlbIn with
  | [] => (s, false)
  | m :: rest =>
    match m.k with
    | .flush =>
      let n := dec s.numTLB
      let s := { s with numTLB := n, tlbIn := rest }
      if n = 0 then ({ s with drvOut := push s.drvOut s.capDrv .shoot, shoot := false }, true) else (s, true)
    | .restart =>
      let n := dec s.numTLB
      let s := { s with numTLB := n, tlbIn := rest }
      if n = 0 then
        ({ s with atOut := pushAll s.atOut s.capAT ((List.range s.nAT).map fun i => ⟨.restart, i, 0⟩),
                  numATR := (s.numATR + s.nAT) % w64 }, true)
      else (s, true)
    | .junk => ({ s with fault := some "never" }, true)

/-- `processRspFromPMC` -/
def Cp.rPMC (s : Cp) : Cp × Bool :=
  if s.fault.isSome then (s, false) else
  match s.pmcIn with
  | [] => (s, false)
  | m :: rest =>
    if m.k = .junk then ({ s with fault := some "never" }, true) else
    if s.drvOut.length < s.capDrv then ({ s with drvOut := s.drvOut ++ [.mig], pmcIn := rest }, true)
    else ({ s with fault := some "send" }, true)

/-- the eight stages of one pass, in program order -/
def stages : List (Cp → Cp × Bool) :=
  [Cp.hFlush, Cp.hCtrl, Cp.rRdma, Cp.rCU, Cp.rAT, Cp.rCache, Cp.rTLB, Cp.rPMC]

def runStages (l : List (Cp → Cp × Bool)) (x : Cp × Bool) : Cp × Bool :=
  l.foldl (fun x f => let r := f x.1; (r.1, x.2 || r.2)) x

/-- `cpMiddleware.Tick` then `ctrlMiddleware.Tick` -/
def Cp.pass (s : Cp) : Cp × Bool := runStages stages (s, false)

/-- `CommandProcessor.Tick` (dispatchers idle, DMA port empty) -/
def Cp.tick (s : Cp) : Cp × Bool :=
  if s.fault.isSome then (s, false) else
  let a := if s.drvIn.isEmpty then (s, false) else s.pass
  let b := a.1.pass
  (b.1, a.2 || b.2)

/-! ## the environment of the correspondence: driver, RDMA engine, CUs, ATs, caches, TLBs, PMC -/

inductive Cls
  | rdma
  | cu
  | at
  | cache
  | tlb
  | pmc
deriving DecidableEq, Repr, Inhabited

def Cp.out (s : Cp) : Cls → List Sub
  | .rdma => s.rdmaOut
  | .cu => s.cuOut
  | .at => s.atOut
  | .cache => s.cacheOut
  | .tlb => s.tlbOut
  | .pmc => s.pmcOut
def Cp.setOut (s : Cp) (c : Cls) (l : List Sub) : Cp :=
  match c with
  | .rdma => { s with rdmaOut := l }
  | .cu => { s with cuOut := l }
  | .at => { s with atOut := l }
  | .cache => { s with cacheOut := l }
  | .tlb => { s with tlbOut := l }
  | .pmc => { s with pmcOut := l }
def Cp.inn (s : Cp) : Cls → List Sub
  | .rdma => s.rdmaIn
  | .cu => s.cuIn
  | .at => s.atIn
  | .cache => s.cacheIn
  | .tlb => s.tlbIn
  | .pmc => s.pmcIn
def Cp.setIn (s : Cp) (c : Cls) (l : List Sub) : Cp :=
  match c with
  | .rdma => { s with rdmaIn := l }
  | .cu => { s with cuIn := l }
  | .at => { s with atIn := l }
  | .cache => { s with cacheIn := l }
  | .tlb => { s with tlbIn := l }
  | .pmc => { s with pmcIn := l }

structure Env where
  s : Cp := {}
  /-- sub-requests taken from the outgoing buffers, not yet acknowledged -/
  pRdma : List Sub := []
  pCU : List Sub := []
  pAT : List Sub := []
  pCache : List Sub := []
  pTLB : List Sub := []
  pPMC : List Sub := []
  nShoot : Nat := 0
  nMig : Nat := 0
  nFlush : Nat := 0
deriving Repr, Inhabited

def Env.pend (e : Env) : Cls → List Sub
  | .rdma => e.pRdma
  | .cu => e.pCU
  | .at => e.pAT
  | .cache => e.pCache
  | .tlb => e.pTLB
  | .pmc => e.pPMC
def Env.setPend (e : Env) (c : Cls) (l : List Sub) : Env :=
  match c with
  | .rdma => { e with pRdma := l }
  | .cu => { e with pCU := l }
  | .at => { e with pAT := l }
  | .cache => { e with pCache := l }
  | .tlb => { e with pTLB := l }
  | .pmc => { e with pPMC := l }

inductive Op
  /-- the driver's command arrives (`D A S G M F O`) -/
  | cmd (c : Char)
  | tick
  /-- the component side takes up to `n` messages from the outgoing buffer of a class -/
  | take (c : Cls) (n : Nat)
  /-- the driver side takes up to `n` answers -/
  | takeDrv (n : Nat)
  /-- the `j`-th pending sub-request of a class is acknowledged -/
  | ack (c : Cls) (j : Nat)
  /-- a stray acknowledgement / foreign message arrives -/
  | stray (c : Cls) (k : K) (i : Nat)
deriving Repr, Inhabited

def kStr : K → String
  | .flush => "F"
  | .restart => "R"
  | .junk => "J"

def subStr (m : Sub) : String := s!"{kStr m.k}{m.i}:{m.tag}"

def ansStr : Ans → String
  | .drain => "D"
  | .rdmaRestart => "A"
  | .shoot => "S"
  | .restart => "G"
  | .mig => "M"
  | .flush f => s!"F{f}"

def Cp.sig (s : Cp) : String :=
  s!"{s.numCU},{s.numATF},{s.numATR},{s.numTLB},{s.numCache},{if s.shoot then 1 else 0}"

def Env.step (e : Env) : Op → Env × String
  | .cmd ch =>
    if e.s.drvIn.length < e.s.capIn then
      let put (c : Cmd) (e : Env) : Env × String := ({ e with s := { e.s with drvIn := e.s.drvIn ++ [c] } }, "ok")
      match ch with
      | 'D' => put .drain e
      | 'A' => put .rdmaRestart e
      | 'S' => put (.shoot e.nShoot) { e with nShoot := e.nShoot + 1 }
      | 'G' => put .restart e
      | 'M' => put (.mig e.nMig) { e with nMig := e.nMig + 1 }
      | 'F' => put (.flush e.nFlush) { e with nFlush := e.nFlush + 1 }
      | _ => put .other e
    else (e, "full")
  | .tick =>
    let r := e.s.tick
    match r.1.fault with
    | some f => ({ e with s := r.1 }, s!"fault:{f}")
    | none => ({ e with s := r.1 }, s!"t{if r.2 then 1 else 0}[{r.1.sig}]")
  | .take c n =>
    let l := e.s.out c
    let t := l.take n
    (({ e with s := e.s.setOut c (l.drop n) }).setPend c (e.pend c ++ t), "x[" ++ joinWith "," (t.map subStr) ++ "]")
  | .takeDrv n =>
    let t := e.s.drvOut.take n
    ({ e with s := { e.s with drvOut := e.s.drvOut.drop n } }, "xd[" ++ joinWith "," (t.map ansStr) ++ "]")
  | .ack c j =>
    let p := e.pend c
    match p[j % p.length]? with
    | none => (e, "none")
    | some m =>
      if (e.s.inn c).length < e.s.capIn then
        (({ e with s := e.s.setIn c (e.s.inn c ++ [(⟨m.k, m.i, 0⟩ : Sub)]) }).setPend c (p.eraseIdx (j % p.length)), "ok")
      else (e, "full")
  | .stray c k i =>
    if (e.s.inn c).length < e.s.capIn then ({ e with s := e.s.setIn c (e.s.inn c ++ [(⟨k, i, 0⟩ : Sub)]) }, "ok")
    else (e, "full")

/-! ## line protocol: `c19 cp cu= at= tlb= l1i= l1s= l1v= l2= cin= cdrv= crdma= ccu= cat= ccache= ctlb= cpmc= ; op ; …` -/

def parseCls : String → Option Cls
  | "r" => some .rdma
  | "c" => some .cu
  | "a" => some .at
  | "h" => some .cache
  | "l" => some .tlb
  | "p" => some .pmc
  | _ => none

def parseK : String → Option K
  | "F" => some .flush
  | "R" => some .restart
  | "J" => some .junk
  | _ => none

def parseOp (t : List String) : Option Op :=
  match t with
  | ["t"] => some .tick
  | ["x", c, n] => do pure (.take (← parseCls c) (← n.toNat?))
  | ["xd", n] => n.toNat?.map .takeDrv
  | ["a", c, j] => do pure (.ack (← parseCls c) (← j.toNat?))
  | ["s", c, k, i] => do pure (.stray (← parseCls c) (← parseK k) (← i.toNat?))
  | [c] => if c.length = 1 then some (.cmd (c.front)) else none
  | _ => none

def runOps (e : Env) (ops : List Op) (out : List String) : List String :=
  match ops with
  | [] => out.reverse
  | o :: rest =>
    let (e', tok) := e.step o
    if e'.s.fault.isSome then (tok :: out).reverse else runOps e' rest (tok :: out)

def handle (cfg : List String) (rest : List String) : String :=
  let g (k : String) (d : Nat) : Nat := (kvNat? cfg k).getD d
  match rest.mapM fun o => parseOp (words o) with
  | none => "bad"
  | some ops =>
    let s : Cp := { nCU := g "cu" 1, nAT := g "at" 1, nTLB := g "tlb" 1, nI := g "l1i" 1, nS := g "l1s" 1,
                    nV := g "l1v" 1, n2 := g "l2" 1, capIn := g "cin" 4096, capDrv := g "cdrv" 4096,
                    capRdma := g "crdma" 4096, capCU := g "ccu" 4096, capAT := g "cat" 4096,
                    capCache := g "ccache" 4096, capTLB := g "ctlb" 4096, capPMC := g "cpmc" 4096 }
    joinWith " " (runOps { s := s } ops [])

end CP
end C19
