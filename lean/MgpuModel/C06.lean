import MgpuModel.Util
import MgpuModel.C06_Lanes
import MgpuModel.Gen.VectorHandlers
import MgpuModel.Gen.LaneBodies
import MgpuModel.C06_Deep
/-! # C06 — what a vector handler's fact record must satisfy, and the line-protocol driver

`FitsSkeleton` is evaluated (by `decide`) on the records regenerated from the Go source on every run
(`Gen.vectorHandlers`, written by `translate/lanes.go`). It says, syntactically, that the handler is an
instance of `C06.vexec`: lane loops run `0..64` with step 1, start with the guard on bit `i` of
`exec := state.EXEC()` and never leave early; every operand access uses the loop variable as lane index;
64-bit mask results are built bit `i` at a time in a local accumulator and written back after the loop;
EXEC/VCC are not otherwise consulted; LDS and memory are touched only inside the guarded loop; nothing
but `[N]byte` staging buffers survives from one iteration to the next. -/
namespace C06
open C06Facts

/-- `for i := 0; i < 64; i++ { if exec&(1<<uint(i)) == 0 { continue } … }` without break/return -/
def loopOK (l : LoopFact) : Bool :=
  l.lo == 0 && l.hi == 64 && l.lt && l.inc && l.guard == 1 && !l.hasBreak && !l.varWritten

/-- Reads at lane index 0 of an operand that is uniform BY CONSTRUCTION (never a VGPR):
    * `v_madak_f32` / `v_fmamk_f32` / `v_fmaak_f32`: `Src2` is the 32-bit literal K the decoder stores
      in a `LiteralConstant` operand (`decodeVOP2`, cases 23/24/36/37);
    * `flatPrecomputeScalarBase`: `sAddrOperand` is built with `insts.NewSRegOperand` (the SGPR pair
      holding the scalar base of `global_*` with SADDR). -/
def uniformReads : List (String × String) :=
  [("runVMADAKF32", "Src2"), ("runVFMAMKF32", "Src2"), ("runVFMAAKF32", "Src2"),
   ("flatPrecomputeScalarBase", "sAddrOperand")]

def useOK (h : VectorHandler) (u : UseFact) : Bool :=
  -- lane `i` reads / writes lane `i`
  (u.inLoop && u.idx == .loopVar)
  -- a per-lane helper accesses the lane it was called for
  || (h.isHelper && !u.inLoop && u.idx == .param)
  -- write-back of a mask accumulator to an SGPR pair / VCC after the loop
  || (u.sink && !u.inLoop && u.idx == .lit 0 && u.call == "WriteOperand")
  -- documented uniform operand
  || (u.call == "ReadOperand" && u.idx == .lit 0 && uniformReads.contains (h.name, u.operand))

/-- a mask variable starts from zero or from VCC, is only touched at bit `i`, and is written back after
    the loop (not inside it, where the write would depend on which lanes ran before) -/
def maskOK (m : MaskVar) : Bool :=
  m.init ≤ 1 && m.updOther == 0 && m.readOther == 0 && m.sinkInLoop == 0 && !m.declaredInLoop

def callOK (h : VectorHandler) (c : CallFact) : Bool :=
  (c.laneArg == .noLane && !c.inLoop) || (c.inLoop && c.laneArg == .loopVar) || (h.isHelper && !c.inLoop && c.laneArg == .param)

def FitsSkeleton (h : VectorHandler) : Bool :=
  h.loops.all loopOK && h.uses.all (useOK h) && h.masks.all maskOK && h.calls.all (callOK h)
  && h.vccInlineOther == 0 && h.sinkOther == 0 && h.execOther == 0
  && h.setExec == 0 && h.setScc == 0 && h.setPc == 0
  && h.ldsOut == 0 && h.memOut == 0 && h.carried.isEmpty

/-- **Documented cross-lane instructions** — the only handlers allowed not to fit.
    * `v_readfirstlane_b32` (GCN3 ISA §12.x / CDNA3 ISA "VOP1": *copy one VGPR value from the lowest
      active lane to one SGPR*; if EXEC is zero lane 0 is used): reads the lane found by a scan of EXEC
      and writes a scalar register — cross-lane by definition, in both ALUs.
    The other cross-lane instructions of the ISA — `v_readlane_b32`, `v_writelane_b32`, `ds_swizzle_b32`,
    `ds_permute_b32`, `ds_bpermute_b32`, DPP modifiers (`v_mov_b32_dpp` …), `v_permlane*`, MFMA — are
    NOT implemented by either ALU (no case in the opcode switches; the decoder has no DPP path), so they
    need no entry; should one be added, its record will not fit and must be listed here with a comment. -/
def crossLaneExceptions : List VectorHandler :=
  [Gen.vh_gcn3_runVREADFIRSTLANEB32, Gen.vh_cdna3_runVREADFIRSTLANEB32]

def isException (h : VectorHandler) : Bool :=
  crossLaneExceptions.any (fun e => e.arch == h.arch && e.name == h.name)

/-- why a record does not fit (diagnostics for the check's output; also printed by the driver) -/
def whyNot (h : VectorHandler) : List String :=
  (h.loops.filter (!loopOK ·)).map (fun l => s!"loop@{l.line}: lo={l.lo} hi={l.hi} lt={l.lt} inc={l.inc} guard={l.guard} break={l.hasBreak} varWritten={l.varWritten}")
  ++ (h.uses.filter (!useOK h ·)).map (fun u => s!"{u.call}({u.operand}, {repr u.idx})@{u.line} inLoop={u.inLoop}")
  ++ (h.masks.filter (!maskOK ·)).map (fun m => s!"mask {m.name}: init={m.init} updOther={m.updOther} readOther={m.readOther} sinkInLoop={m.sinkInLoop} declaredInLoop={m.declaredInLoop}")
  ++ (h.calls.filter (!callOK h ·)).map (fun c => s!"call {c.callee}({repr c.laneArg})@{c.line} inLoop={c.inLoop}")
  ++ (if h.vccInlineOther == 0 then [] else ["state.VCC() used other than at bit i"])
  ++ (if h.sinkOther == 0 then [] else ["SetVCC of a value that is not a bitwise accumulator"])
  ++ (if h.execOther == 0 then [] else ["EXEC used outside the lane guard"])
  ++ (if h.setExec == 0 && h.setScc == 0 && h.setPc == 0 then [] else ["writes EXEC/SCC/PC"])
  ++ (if h.ldsOut == 0 && h.memOut == 0 then [] else ["LDS/memory access outside the guarded lane loop"])
  ++ (if h.carried.isEmpty then [] else [s!"carried across iterations: {h.carried}"])

def misfits : List String :=
  (Gen.vectorHandlers.filter (fun h => !isException h && !FitsSkeleton h)).map
    (fun h => s!"{h.arch}.{h.name} ({h.file}:{h.line}): {whyNot h}")

def isVectorFormat (f : String) : Bool :=
  ["vop1", "vop2", "vop3a", "vop3b", "vopc", "ds", "flat"].contains f

/-- every vector opcode-switch entry calls a method that has a fact record -/
def dispatchCovered : Bool :=
  (Gen.dispatch.filter (isVectorFormat ·.format)).all fun d =>
    match Gen.vectorHandlers[d.hidx]? with
    | some h => h.arch == d.arch && h.name == d.handler
    | none => false

/-- every `u.<callee>(state, …)` inside a vector handler resolves to a method that has a fact record -/
def callsResolved : Bool :=
  Gen.vectorHandlers.all fun h => h.calls.all fun c =>
    match Gen.vectorHandlers[c.calleeIdx]? with
    | some g => g.arch == h.arch && g.name == c.callee
    | none => false

/-- **Scalar opcodes documented to read or write EXEC implicitly** (GCN3 ISA ch. 5/12, CDNA3 ISA):
    SOP1 32..39 `s_{and,or,xor,andn2,orn2,nand,nor,xnor}_saveexec_b64` (save EXEC, then combine it with
    the source), SOPP 8/9 `s_cbranch_execz` / `s_cbranch_execnz`. Any other scalar instruction sees EXEC
    only when an operand field names it (`ReadOperand` of register 126/127), which is explicit in the
    instruction word. -/
def documentedExecUsers : List (String × Nat) :=
  [("sop1", 32), ("sop1", 33), ("sop1", 34), ("sop1", 35), ("sop1", 36), ("sop1", 37), ("sop1", 38), ("sop1", 39),
   ("sopp", 8), ("sopp", 9)]

def touchesExec (s : ScalarHandler) : Bool := s.execReads + s.execWrites != 0

def scalarIgnoresExec : Bool :=
  -- each scalar opcode whose handler calls state.EXEC()/SetEXEC is a documented one
  -- (a case without a call — s_nop, s_waitcnt — touches nothing)
  ((Gen.dispatch.filter (!isVectorFormat ·.format)).all fun d =>
    d.handler == "" ||
    match Gen.scalarHandlers[d.hidx]? with
    | some s => s.arch == d.arch && s.name == d.handler &&
        (!touchesExec s || documentedExecUsers.contains (d.format, d.op))
    | none => false)
  -- and no EXEC-touching scalar method hides outside the opcode switches
  && (Gen.scalarHandlers.all fun s => !touchesExec s ||
        match Gen.dispatch[s.didx]? with
        | some d => d.arch == s.arch && d.handler == s.name && !isVectorFormat d.format
        | none => false)

/-! ## Concrete handlers used only by the driver (FLAT) -/

def addr64 (a : LaneIn) : Nat := a.regs 0 + 4294967296 * a.regs 1

/-- `flat_store_dword v[0:1], v2` -/
def hFlatStore : Handler Unit :=
  { f := fun _ a => { writes := [], bit := false, loads := [],
                      stores := (le32 (a.regs 2)).zipIdx.map (fun (b, k) => (addr64 a + k, b)) }
    mask := .none }

/-- `flat_load_dword v2, v[0:1]` -/
def hFlatLoad : Handler Unit :=
  { f := fun _ a =>
      let ad := addr64 a
      { writes := [(2, a.mem ad + 256 * a.mem (ad + 1) + 65536 * a.mem (ad + 2) + 16777216 * a.mem (ad + 3))]
        bit := false, loads := [(ad, 4)], stores := [] }
    mask := .none }

/-! ## Driver -/

def memByte (a : Nat) : Nat := (a * 37 + 11) % 251

def hexList? (s : String) : Option (List Nat) := (s.splitOn ",").mapM Util.hexNat?

def bitsOf (x : Nat) : Nat → Bool := fun l => x.testBit l

def maskNat (m : Nat → Bool) : Nat := (List.range 64).foldl (fun acc l => if m l then acc + 2 ^ l else acc) 0

def wordAt (m : Nat → Nat) (ad : Nat) : Nat := m ad + 256 * m (ad + 1) + 65536 * m (ad + 2) + 16777216 * m (ad + 3)

def le64 (x : Nat) : List Nat := (List.range 8).map fun k => x / 2 ^ (8 * k) % 256

/-- canonical per-byte log: reads first, then writes (the harness keeps two lists), each in program order -/
def logBytes (log : List Access) : Nat × List Nat :=
  let exp := fun (w : Bool) => (log.filter (·.isWrite == w)).flatMap fun a =>
    (List.range a.len).flatMap fun j => (if w then 1 else 0) :: le64 (a.addr + j)
  let bs := exp false ++ exp true
  (bs.length / 9, bs)

def runCase (name : String) (exec vcc off : Nat) (a b : List Nat) : String :=
  let s : VState :=
    { vgpr := fun l r => if r = 0 then a.getD l 0 else if r = 1 then b.getD l 0 else if r = 2 then 0xabcd0000 + l else 0
      cin := bitsOf vcc, mout := bitsOf vcc, mem := memByte, log := [] }
  let e : BitVec 64 := BitVec.ofNat 64 exec
  let go := fun {υ : Type} (h : Handler υ) (u : υ) (kind : Nat) =>
    let r := vexec h u e s
    let d := (List.range 64).map fun l => Util.toHex (r.vgpr l 2)
    let w := (List.range 64).map fun l =>
      match kind with
      | 1 => Util.toHex (wordAt r.mem (u32 (a.getD l 0 + off)))
      | 2 => Util.toHex (wordAt r.mem (a.getD l 0 + 4294967296 * b.getD l 0))
      | _ => "0"
    -- LDS accesses are not observable in the implementation (a plain byte slice): empty log for DS ops
    let (n, bs) := if kind == 2 then logBytes r.log else (0, [])
    s!"d={",".intercalate d} m={Util.toHex (maskNat r.mout)} w={",".intercalate w} log={n}:{Util.toHex (Util.fnv bs)}"
  match name with
  | "add" => go hAdd () 0
  | "addc_fresh" => go (hAddc .fresh) () 0
  | "addc_inplace" => go (hAddc .inplace) () 0
  | "cmplt" => go hCmpLt () 0
  | "cndmask" => go hCndmask () 0
  | "dswrite" => go hDsWrite off 1
  | "dsread" => go hDsRead off 1
  | "flatstore" => go hFlatStore () 2
  | "flatload" => go hFlatLoad () 2
  | _ => "bad-handler"

/-! ## `c06 body`: one iteration of a translated lane body against the real ALU (one active lane) -/

/-- the handler a dispatch name stands for: itself, or what a wrapper selects for these instruction fields -/
def resolveLane (arch name : String) (u : Uni) : Option LaneHandler :=
  let nm := match Gen.Lane.wrappers.find? (fun w => w.1 == arch && w.2.1 == name) with
    | some w => w.2.2 u
    | none => name
  Gen.Lane.laneHandlers.find? (fun h => h.arch == arch && h.name == nm)

def keepW (w : Nat) (v : BitVec 64) : BitVec 64 := if w == 32 then (v.setWidth 32).setWidth 64 else v

/-- float results: every NaN prints as `nan` (payloads / signs of NaNs are not part of the tie) -/
def nanCanon (isF : Bool) (dw v : Nat) : String :=
  let nan32 := v / 8388608 % 256 == 255 && v % 8388608 != 0
  let nan64 := v / 4503599627370496 % 2048 == 2047 && v % 4503599627370496 != 0
  if isF && ((dw == 32 && nan32) || (dw == 64 && nan64)) then "nan" else Util.toHex v

/-- `wrap`: the line is an SDWA instruction of a VOP2 opcode: the handler runs under `emu.NewSDWAState`
    (`vop2Handler`), the operand values on the line are the raw register values -/
def bodyCaseW (wrap : Bool) (arch name : String) (kv : List String) : String :=
  let hx := fun k => (Util.kvHex? kv k).getD 0
  let bv := fun (w : Nat) k => BitVec.ofNat w (hx k)
  let u : Uni :=
    { isSdwa := hx "sdwa" != 0, clamp := hx "clamp" != 0, abs := bv 64 "abs", neg := bv 64 "neg", omod := bv 64 "omod"
      src0Sel := bv 32 "s0sel", src1Sel := bv 32 "s1sel", dstSel := bv 32 "dsel", dstUnused := bv 8 "dun"
      -- consulted by float handlers only (no body correspondence for those)
      opSel := 0, opSelHi := 0, src0Neg := false, src1Neg := false, src2Neg := false, src0Abs := false, src1Abs := false
      src2Abs := false, k2 := 0 }
  match resolveLane arch name (if wrap then u.plain else u) with
  | none => "untranslated"
  | some h0 =>
    let h := if wrap then vop2Handler h0 u else h0
    let isF := Gen.Lane.coverage.any (fun r => r.arch == h.arch && r.name == h.name && (match r.cov with | .translatedF _ => true | _ => false))
    if isF && !Gen.Lane.exactFloat.contains (h.arch, h.name) then "float-body-not-tied" else
    if !h.ok u then "fault" else
    let vcc := bv 64 "vcc"
    let r : RawIn :=
      { i := (Util.kvNat? kv "i").getD 0, src0 := bv 64 "s0", src1 := bv 64 "s1", src2 := bv 64 "s2", dstOld := bv 64 "d", vcc := vcc
        acc := (match h.accInit with | .vcc => vcc | _ => 0#64) }
    let o := h.raw u r
    let dw := hx "dw"
    let d := if dw == 0 then "-" else nanCanon isF dw (keepW dw (o.dst.getD r.dstOld)).toNat
    -- where the accumulator goes: VCC, or the SGPR pair named by inst.SDst / inst.Dst (`vcc` / `sd` / `none`)
    let target := match h.sink with
      | .none => "none"
      | .vcc => "vcc"
      | .sdst => (Util.kv? kv "mos").getD "none"
      | .dst => (Util.kv? kv "mod").getD "none"
    let vcc' := if target == "vcc" then o.acc else vcc
    let sd' := if target == "sd" then o.acc else bv 64 "sd"
    s!"d={d} vcc={Util.toHex vcc'.toNat} sd={Util.toHex sd'.toNat}"

def bodyCase (arch name : String) (kv : List String) : String := bodyCaseW false arch name kv

/-! ## `c06 gorun`: a whole translated handler (`goRun`: the loop, the guard, the 64-bit accumulator) against
the real `ALU.Run` under an arbitrary EXEC. Register layout of the case: v0:1 = src0, v2:3 = src1, v4:5 = src2
(or a uniform value), v6:7 = dst. -/

def uniOfKv (kv : List String) : Uni :=
  let hx := fun k => (Util.kvHex? kv k).getD 0
  let bv := fun (w : Nat) k => BitVec.ofNat w (hx k)
  { isSdwa := hx "sdwa" != 0, clamp := hx "clamp" != 0, abs := bv 64 "abs", neg := bv 64 "neg", omod := bv 64 "omod"
    src0Sel := bv 32 "s0sel", src1Sel := bv 32 "s1sel", dstSel := bv 32 "dsel", dstUnused := bv 8 "dun"
    opSel := 0, opSelHi := 0, src0Neg := false, src1Neg := false, src2Neg := false, src0Abs := false, src1Abs := false
    src2Abs := false, k2 := 0 }

def goRunCaseW (wrap : Bool) (arch name : String) (kv : List String) : String :=
  let hx := fun k => (Util.kvHex? kv k).getD 0
  let u := uniOfKv kv
  match resolveLane arch name (if wrap then u.plain else u) with
  | none => "untranslated"
  | some h0 =>
    let h := if wrap then vop2Handler h0 u else h0
    if !h.ok u then "fault" else
    let lst := fun k => (((Util.kv? kv k).bind hexList?).getD []).toArray
    let s0 := lst "s0"
    let s1 := lst "s1"
    let s2 := lst "s2"
    let d := lst "d"
    let lo := fun (x : Nat) => x % 4294967296
    let hi := fun (x : Nat) => x / 4294967296
    let vgpr : Nat → Nat → Nat := fun l r =>
      match r with
      | 0 => lo (s0.getD l 0) | 1 => hi (s0.getD l 0)
      | 2 => lo (s1.getD l 0) | 3 => hi (s1.getD l 0)
      | 4 => lo (s2.getD l 0) | 5 => hi (s2.getD l 0)
      | 6 => lo (d.getD l 0) | 7 => hi (d.getD l 0)
      | _ => 0
    let dw := hx "dw"
    let ops : Ops :=
      { src0 := .vgpr 0 2, src1 := .vgpr 2 2
        src2 := (if (Util.kv? kv "s2k").getD "v" == "u" then .uni (BitVec.ofNat 64 (s2.getD 0 0)) else .vgpr 4 2)
        dst := .vgpr 6 (dw / 32), uni := u }
    let vcc := BitVec.ofNat 64 (hx "vcc")
    let g := goRun h ops (BitVec.ofNat 64 (hx "exec")) vcc vgpr
    let ds := (List.range 64).map fun l =>
      Util.toHex (if dw == 64 then g.vgpr l 6 + 4294967296 * g.vgpr l 7 else g.vgpr l 6)
    let target := match h.sink with
      | .none => "none"
      | .vcc => "vcc"
      | .sdst => (Util.kv? kv "mos").getD "none"
      | .dst => (Util.kv? kv "mod").getD "none"
    let vcc' := if target == "vcc" then g.acc else vcc
    let sd' := if target == "sd" then g.acc else BitVec.ofNat 64 (hx "sd")
    s!"d={if dw == 0 then "-" else ",".intercalate ds} vcc={Util.toHex vcc'.toNat} sd={Util.toHex sd'.toNat}"

def goRunCase (arch name : String) (kv : List String) : String := goRunCaseW false arch name kv

/-- `c06 rfl <arch> exec= k=<v|u> s0=<64 values>`: `v_readfirstlane_b32` (the destination is an SGPR) -/
def rflCase (kv : List String) : String :=
  let exec := BitVec.ofNat 64 ((Util.kvHex? kv "exec").getD 0)
  let s0 := (((Util.kv? kv "s0").bind hexList?).getD []).toArray
  let vgpr : Nat → Nat → Nat := fun l r => if r == 0 then s0.getD l 0 % 4294967296 else 0
  let src : Opnd := if (Util.kv? kv "k").getD "v" == "u" then .uni (BitVec.ofNat 64 (s0.getD 0 0)) else .vgpr 0 1
  let v := goReadFirstLane src exec vgpr
  let after := goReadFirstLaneVgpr src (.uni 0#64) exec vgpr
  let same := (List.range 64).all fun l => after l 0 == vgpr l 0
  s!"sd={Util.toHex (v.toNat % 4294967296)} vsame={if same then 1 else 0}"

/-! ## `c06 mbody`: one iteration of a translated DS / FLAT body against the real ALU (one active lane).
The memory the loads see is given as a window `wb` (base address) / `win` (bytes); outside it: 0. -/

def mbodyCase (arch name : String) (kv : List String) : String :=
  match Gen.Lane.memHandlers.find? (fun h => h.arch == arch && h.name == name) with
  | none => "untranslated"
  | some h =>
    let hx := fun k => (Util.kvHex? kv k).getD 0
    let bytes := fun k => (((Util.kv? kv k).bind Util.hexBytes?).getD []).map (BitVec.ofNat 8)
    let u : MemUni :=
      { offset0 := BitVec.ofNat 32 (hx "off0"), offset1 := BitVec.ofNat 32 (hx "off1"), hasSAddr := hx "hs" != 0
        scalarBase := BitVec.ofNat 64 (hx "sb"), ldsLen := BitVec.ofNat 64 (hx "ldslen") }
    let base := hx "wb"
    let win := (bytes "win").toArray
    let mem : Nat → BitVec 8 := fun k => if base ≤ k ∧ k < base + win.size then win.getD (k - base) 0#8 else 0#8
    -- the staging array starts poisoned: the body must not let it through (`memory_bodies_uniform`)
    let r : MemRawIn :=
      { i := (Util.kvNat? kv "i").getD 0, addr := BitVec.ofNat 64 (hx "a"), data := bytes "da", data1 := bytes "d1"
        mem := mem, stage := List.replicate h.stageLen 0xaa#8 }
    let o := h.raw u r
    if o.fault then "fault" else
    let d0 := bytes "d0"
    let d := match o.dst with
      | some bs => bs ++ d0.drop bs.length
      | none => d0
    let hexOf := fun (bs : List (BitVec 8)) => Util.bytesHex (bs.map (·.toNat))
    let loads := if h.isLds then "-" else ",".intercalate (o.loads.map fun l => s!"{Util.toHex l.1}:{l.2}")
    -- effect of the stores: LDS — the window afterwards (+ how many stores fell outside it); memory — the
    -- bytes written, by address (a later store to the same address wins)
    let eff :=
      if h.isLds then
        let after := (List.range win.size).map fun k =>
          match (o.stores.reverse.find? fun st => st.1 == base + k) with
          | some st => st.2
          | none => win.getD k 0#8
        let outside := (o.stores.filter fun st => !(base ≤ st.1 ∧ st.1 < base + win.size)).length
        s!"{hexOf after}/{outside}"
      else
        let addrs := (o.stores.map (·.1)).eraseDups.toArray.qsort (· < ·)
        ",".intercalate (addrs.toList.map fun a =>
          match (o.stores.reverse.find? fun st => st.1 == a) with
          | some st => s!"{Util.toHex a}:{Util.toHexPad 2 st.2.toNat}"
          | none => "")
    s!"d={hexOf d} loads={loads} mem={eff}"

def sortStrings (l : List String) : List String := (l.toArray.qsort (· < ·)).toList

def handle (line : String) : String :=
  let toks := Util.words line
  match toks with
  | _ :: "vexec" :: name :: rest =>
    match Util.kvHex? rest "exec", Util.kvHex? rest "vcc", Util.kvNat? rest "off",
          (Util.kv? rest "a").bind hexList?, (Util.kv? rest "b").bind hexList? with
    | some exec, some vcc, some off, some a, some b => runCase name exec vcc off a b
    | _, _, _, _, _ => "bad-case"
  | _ :: "dispatch" :: arch :: format :: rest =>
    match (Util.kv? rest "rows").bind (Util.natList? ·) with
    | some rows =>
      let ops := rows.filter fun op => Gen.dispatch.any fun d => d.arch == arch && d.format == format && d.op == op
      "impl=" ++ ",".intercalate (ops.map toString)
    | none => "bad-case"
  | _ :: "handlers" :: arch :: file :: _ =>
    let names := sortStrings ((Gen.vectorHandlers.filter fun h => h.arch == arch && h.file == file).map (·.name)
      ++ ((Gen.dispatch.filter fun d => d.arch == arch && isVectorFormat d.format).map (·.format)
            |>.eraseDups |>.filterMap fun f =>
              -- the dispatcher method itself lives in the file too
              let nm := match f with
                | "vop1" => "runVOP1" | "vop2" => "runVOP2" | "vop3a" => "runVOP3A" | "vop3b" => "runVOP3B"
                | "vopc" => "runVOPC" | "ds" => "runDS" | _ => "runFlat"
              let fl := match f with
                | "vop1" => "vop1.go" | "vop2" => "vop2.go" | "vop3a" => "vop3a.go" | "vop3b" => "vop3b.go"
                | "vopc" => "vopc.go" | "ds" => "ds.go" | _ => "flat.go"
              let full := if arch == "gcn3" then (if f == "flat" then "alu_flat.go" else "alu" ++ fl) else "cdna3/" ++ fl
              if full == file then some nm else none))
    s!"n={names.length} {",".intercalate names}"
  | _ :: "body" :: arch :: name :: rest => bodyCase arch name rest
  | _ :: "gorun" :: arch :: name :: rest => goRunCase arch name rest
  | _ :: "sdwa" :: arch :: name :: rest => bodyCaseW true arch name rest
  | _ :: "sdwarun" :: arch :: name :: rest => goRunCaseW true arch name rest
  | _ :: "rfl" :: _ :: rest => rflCase rest
  | _ :: "mbody" :: arch :: name :: rest => mbodyCase arch name rest
  | _ :: "misfits" :: _ => s!"{misfits}"
  | _ => "bad-op"

end C06
