import MgpuModel.Util
/-! C03 (scalar part) — stub; replaced by the scalar-ALU module. -/
namespace C03S
def handle (_line : String) : String := "bad"
end C03S
