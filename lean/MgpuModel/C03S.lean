import MgpuModel.Util
import MgpuModel.C03S_Types
import MgpuModel.C03S_Spec
import MgpuModel.C03S_Machine
import MgpuModel.Gen.AluScalar
import MgpuModel.C03S_Hand
/-! # C03 (scalar part) — driver entry

`c03 s <arch> <hexbytes> scc= vcc= exec= pc= m0= s=<idx>:<hex>,…`
  arch = `gcn3` | `cdna3`          → post-state delta prescribed by the ISA specification
  arch = `gen.gcn3` | `gen.cdna3`  → post-state delta of the handler TRANSLATED from the Go source
                                     (translator validation; must equal the real handler) -/
namespace C03S

def specSem (d : DInst) : Option Sem :=
  (Spec.find d.fmt d.op).map fun o => ⟨o.dstW, o.src0W, o.src1W, o.f⟩

/-- the complete opcode switch of an ALU as modelled: the translated handlers
    (`Gen.<arch>.dispatch`) and, for the handlers the translator lists as hand-modelled, the
    hand-written transcriptions of `C03S_Hand.lean` -/
def gcn3Dispatch (fmt op : Nat) : Option (ScalarIn → ScalarOut) :=
  match Gen.gcn3.dispatch fmt op with
  | some f => some f
  | none => Hand.gcn3.dispatch fmt op
def cdna3Dispatch (fmt op : Nat) : Option (ScalarIn → ScalarOut) :=
  match Gen.cdna3.dispatch fmt op with
  | some f => some f
  | none => Hand.cdna3.dispatch fmt op

/-- the modelled handler of an instruction; operand widths as in the specification table (they are
    the decoder's, property C04).  A handler the translator lists as hand-modelled for which
    `C03S_Hand.lean` has no transcription falls back to the specification function itself. -/
def genSemOf (disp : Nat → Nat → Option (ScalarIn → ScalarOut)) (tab : List (Nat × Nat × String))
    (d : DInst) : Option Sem := do
  let o ← Spec.find d.fmt d.op
  match disp d.fmt d.op with
  | some f => some ⟨o.dstW, o.src0W, o.src1W, f⟩
  | none => if tab.any (fun r => r.1 == d.fmt && r.2.1 == d.op) then some ⟨o.dstW, o.src0W, o.src1W, o.f⟩ else none

def genSem (arch : String) (d : DInst) : Option Sem :=
  if arch == "gen.gcn3" then genSemOf gcn3Dispatch Gen.gcn3.table d else genSemOf cdna3Dispatch Gen.cdna3.table d

/-- a straight run of scalar instructions: each is executed on the state the previous one left
    (`none`: an instruction has no semantics / an unsupported operand) -/
def run (sem : DInst → Option Sem) : List DInst → MState → Option MState
  | [], st => some st
  | d :: ds, st =>
    match sem d with
    | none => none
    | some s =>
      match execute s d st with
      | none => none
      | some st' => run sem ds st'

def handle (line : String) : String :=
  match Util.words line with
  | _ :: _ :: arch :: hex :: rest =>
    match parseInst hex, parseState rest with
    | some d, some st =>
      let sem := if arch == "gcn3" || arch == "cdna3" then specSem d
                 else if arch == "gen.gcn3" || arch == "gen.cdna3" then genSem arch d else none
      match sem with
      | none => "nospec"
      | some sem =>
        match execute sem d st with
        | some st' => deltaStr st st'
        | none => "unsupported-operand"
    | _, _ => "bad"
  | _ => "bad"

end C03S
