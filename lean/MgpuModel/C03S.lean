import MgpuModel.Util
import MgpuModel.C03S_Types
import MgpuModel.C03S_Spec
import MgpuModel.C03S_Machine
import MgpuModel.Gen.AluScalar
/-! # C03 (scalar part) — driver entry

`c03 s <arch> <hexbytes> scc= vcc= exec= pc= m0= s=<idx>:<hex>,…`
  arch = `gcn3` | `cdna3`          → post-state delta prescribed by the ISA specification
  arch = `gen.gcn3` | `gen.cdna3`  → post-state delta of the handler TRANSLATED from the Go source
                                     (translator validation; must equal the real handler) -/
namespace C03S

def specSem (d : DInst) : Option Sem :=
  (Spec.find d.fmt d.op).map fun o => ⟨o.dstW, o.src0W, o.src1W, o.f⟩

/-- the handler translated from the Go source; operand widths as in the specification table (they
    are the decoder's, property C04).  A hand-modelled handler (`Gen.<arch>.handModelled`) has no
    translated definition: its model is the specification function itself. -/
def genSem (arch : String) (d : DInst) : Option Sem := do
  let o ← Spec.find d.fmt d.op
  let (disp, tab) := if arch == "gen.gcn3" then (Gen.gcn3.dispatch, Gen.gcn3.table) else (Gen.cdna3.dispatch, Gen.cdna3.table)
  match disp d.fmt d.op with
  | some f => some ⟨o.dstW, o.src0W, o.src1W, f⟩
  | none => if tab.any (fun r => r.1 == d.fmt && r.2.1 == d.op) then some ⟨o.dstW, o.src0W, o.src1W, o.f⟩ else none

def handle (line : String) : String :=
  match Util.words line with
  | _ :: _ :: arch :: hex :: rest =>
    match parseInst hex, parseState rest with
    | some d, some st =>
      let sem := if arch == "gcn3" || arch == "cdna3" then specSem d
                 else if arch == "gen.gcn3" || arch == "gen.cdna3" then genSem arch d else none
      match sem with
      | none => "nospec"
      | some sem =>
        match execute sem d st with
        | some st' => deltaStr st st'
        | none => "unsupported-operand"
    | _, _ => "bad"
  | _ => "bad"

end C03S
