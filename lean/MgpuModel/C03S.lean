import MgpuModel.Util
import MgpuModel.C03S_Types
import MgpuModel.C03S_Spec
import MgpuModel.C03S_Machine
/-! # C03 (scalar part) — driver entry

`c03 s <arch> <hexbytes> scc= vcc= exec= pc= m0= s=<idx>:<hex>,…`
  arch = `gcn3` | `cdna3`          → post-state delta prescribed by the ISA specification
  arch = `gen.gcn3` | `gen.cdna3`  → post-state delta of the handler TRANSLATED from the Go source
                                     (translator validation; must equal the real handler) -/
namespace C03S

def specSem (d : DInst) : Option Sem :=
  (Spec.find d.fmt d.op).map fun o => ⟨o.dstW, o.src0W, o.src1W, o.f⟩

def handle (line : String) : String :=
  match Util.words line with
  | _ :: _ :: arch :: hex :: rest =>
    match parseInst hex, parseState rest with
    | some d, some st =>
      let sem := if arch == "gcn3" || arch == "cdna3" then specSem d else none
      match sem with
      | none => "nospec"
      | some sem =>
        match execute sem d st with
        | some st' => deltaStr st st'
        | none => "unsupported-operand"
    | _, _ => "bad"
  | _ => "bad"

end C03S
