import MgpuModel.C20_Spec
/-! # C20 — an abstract Akita engine over the tick-exact model

A configuration is `(s, q)`: the model state and the multiset `q` of scheduled tick events.  Times
are NOT modelled: the engine may handle ANY element of `q` next, which covers every assignment of
frequencies to components and connections and every tie-break of the event heap.  While an event is
handled new events get scheduled (`TickLater`/`TickNow` → `Engine.Schedule`); the list `new` of those
is constrained only by what Akita guarantees (`EngStep`).  The model's `awake` flag of a component
means "a `TickLater`/`TickNow` call happened since its last `Handle` began"; the real queue may hold
more: a wake-up that arrives in the same cycle *before* the component's own tick leaves an event
pending that the model's `Handle` (clear flag, tick, set iff progress) forgets — a *spurious* tick. -/
namespace C20

/-- one engine step: the handled event and the events scheduled while it was handled -/
abbrev EStep := Ev × List Ev

/-- What Akita guarantees about one engine step in configuration `(s, q)`. -/
structure EngStep (s : Sys) (q : List Ev) (e : Ev) (new : List Ev) : Prop where
  /-- the handled event had been scheduled -/
  pending : e ∈ q
  /-- (a) `Tick` returned false: no message was sent or retrieved, nobody (not even the component
      itself) got a `TickLater`, so nothing is scheduled -/
  quiet : awakeOf (step s e) e = false → new = []
  /-- (b) a `TickScheduler` schedules at most one event per `Handle` … -/
  nodup : new.Nodup
  /-- … and only components of the platform have one -/
  inRange : ∀ x ∈ new, x ∈ allEvs s
  /-- (c) a wake-up of the model during this step (the flag of `x` is set afterwards and was clear
      before, or `x` is the ticking component itself reporting progress) is a real
      `TickLater`/`TickNow` call, and such a call returns with an event for `x` pending -/
  wake : ∀ x ∈ allEvs s, awakeOf (step s e) x = true → (x = e ∨ awakeOf s x = false) →
    x ∈ q.erase e ++ new

/-- an engine run from configuration `(s, q)`: every step obeys `EngStep` -/
def EngRun : Sys → List Ev → List EStep → Prop
  | _, _, [] => True
  | s, q, (e, new) :: rest => EngStep s q e new ∧ EngRun (step s e) (q.erase e ++ new) rest

/-- the configuration reached by a run -/
def engEnd : Sys → List Ev → List EStep → Sys × List Ev
  | s, q, [] => (s, q)
  | s, q, (e, new) :: rest => engEnd (step s e) (q.erase e ++ new) rest

/-! ## what a spurious tick may change -/

/-- two states of one layer that differ at most in the connection's round-robin pointer `rr` (and in
    the representation of `cOut`, which is read as a total map): same lists, counters, buffers, flag -/
def Level.SameButRR {α : Type} (a b : Level α) : Prop :=
  b.n = a.n ∧ b.undisp = a.undisp ∧ b.unfin = a.unfin ∧ b.free = a.free ∧ b.pOut = a.pOut ∧
  b.pIn = a.pIn ∧ b.cIn = a.cIn ∧ (∀ i, get b.cOut i = get a.cOut i) ∧ b.connAwake = a.connAwake

/-- `s'` is `s` after an invisible tick of the component of `e`: nothing changed; for a connection
    nothing but its round-robin pointer -/
def Inert (s s' : Sys) : Ev → Prop
  | .c0 => ∃ l, s' = { s with l0 := l } ∧ Level.SameButRR s.l0 l
  | .c1 g => ∃ l, s' = { s with l1 := upd s.l1 g l } ∧ Level.SameButRR (get s.l1 g) l
  | .c2 m => ∃ l, s' = { s with l2 := upd s.l2 m l } ∧ Level.SameButRR (get s.l2 m) l
  | _ => s' = s

/-! ## executable checker (what the driver runs; `engStepBad_none` ties it to `EngStep`) -/

def nodupB : List Ev → Bool
  | [] => true
  | x :: xs => !xs.contains x && nodupB xs

/-- first violated rule of a step: `p` not pending, `a` quiet, `b` duplicates, `r` range, `c` wake-up
    without event; `none` = the step obeys `EngStep` -/
def engStepBad (s : Sys) (q : List Ev) (e : Ev) (new : List Ev) : Option Char :=
  let s' := step s e
  let q' := q.erase e ++ new
  let all := allEvs s
  if !q.contains e then some 'p'
  else if !(awakeOf s' e || new.isEmpty) then some 'a'
  else if !nodupB new then some 'b'
  else if !new.all all.contains then some 'r'
  else if !all.all (fun x => !(awakeOf s' x && (x == e || !awakeOf s x)) || q'.contains x) then some 'c'
  else none

structure EAcc where
  s : Sys
  q : List Ev
  n : Nat := 0
  /-- index and rule of the first bad step -/
  bad : Option (Nat × Char) := none
  /-- ticks of components whose model flag was off -/
  spurious : Nat := 0
  /-- of those, ticks that reported progress (must be 0: `asleep_tick_inert`) -/
  missed : Nat := 0
  /-- hash of all flags after every step -/
  fl : Nat := 0

def flagsOf (s : Sys) : List Nat := (allEvs s).map (fun x => if awakeOf s x then 1 else 0)

def mixN (h : Nat) (vs : List Nat) : Nat := vs.foldl (fun h v => (h * 1000003 + v + 1) % 4294967296) h

def engReplayStep (a : EAcc) (st : EStep) : EAcc :=
  let s' := step a.s st.1
  let sp := !awakeOf a.s st.1
  { s := s', q := a.q.erase st.1 ++ st.2, n := a.n + 1,
    bad := match a.bad, engStepBad a.s a.q st.1 st.2 with
      | some b, _ => some b
      | none, some c => some (a.n, c)
      | none, none => none,
    spurious := if sp then a.spurious + 1 else a.spurious,
    missed := if sp && awakeOf s' st.1 then a.missed + 1 else a.missed,
    fl := mixN a.fl (flagsOf s') }

def engReplay (s : Sys) (q : List Ev) (steps : List EStep) : EAcc := steps.foldl engReplayStep { s := s, q := q }

/-- closed form of the potential of the initial state: every warp costs its instructions + 6, every
    block and kernel 6 more, plus 3 while the driver has unfinished kernels (`engBound_eq`) -/
def traceWeight (t : List Kernel) : Nat :=
  sum (t.map fun k => sum (k.map fun b => sum (b.map (· + 6)) + 6) + 6) + (if t.length = 0 then 0 else 3)

/-- the bound of `engine_run_bounded`: 1 + Φ(init) · (number of components and connections) -/
def engBound (G S C : Nat) (trace : List Kernel) : Nat :=
  1 + traceWeight trace * (2 + G + G + G * S + G * S + G * S * C)

/-! ## an executable engine (non-vacuity of the theorems): handle the OLDEST event (FIFO), schedule
    exactly the woken components that have no event yet -/

def fifoNew (s : Sys) (q : List Ev) (e : Ev) : List Ev :=
  (allEvs s).filter (fun x => awakeOf (step s e) x && (x == e || !awakeOf s x) && !(q.erase e).contains x)

def engFifo : Nat → Sys → List Ev → List EStep
  | 0, _, _ => []
  | _, _, [] => []
  | n + 1, s, e :: q => (e, fifoNew s (e :: q) e) :: engFifo n (step s e) ((e :: q).erase e ++ fifoNew s (e :: q) e)

end C20
