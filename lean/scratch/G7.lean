import MgpuProofs.C01CopyWave
namespace C01.Emu.Copy
open C03V
example (w : Wave) (m : Mem) (c s : Nat) :
   ({ pc := c, exec := 2 ^ s - 1, vcc := w.st.vcc, rs := w.st.rs, rv := w.st.rv, mem := get m } : View).rs 0 =
   ({ pc := c, exec := 2 ^ s - 1, vcc := w.st.vcc, s0 := w.st.rs 0, s1 := w.st.rs 1, s2 := w.st.rs 2, s3 := w.st.rs 3,
            s4 := w.st.rs 4, s5 := w.st.rs 5, s6 := w.st.rs 6, s7 := w.st.rs 7, s8 := w.st.rs 8,
            v0 := w.st.rv 0, v1 := w.st.rv 1, v2 := w.st.rv 2, v3 := w.st.rv 3, mem := get m } : T).s 0 := rfl
end C01.Emu.Copy
