import MgpuProofs.C01CopyWave
set_option linter.unusedSimpArgs false
set_option linter.unusedVariables false
set_option maxRecDepth 100000
namespace C01.Emu.Copy
open C03V

/-- `k` successive non-terminating steps -/
def stepsTo (P : Program) (base : Nat) : Nat → St → St → Prop
  | 0, st, st' => st = st'
  | k + 1, st, st' => ∃ m, step P base st = .ok (m, .next) ∧ stepsTo P base k m st'

theorem stepsTo_one {P : Program} {base : Nat} {st m : St} (h : step P base st = .ok (m, .next)) :
    stepsTo P base 1 st m := ⟨m, h, rfl⟩

theorem stepsTo_trans {P : Program} {base : Nat} {a b : Nat} {s1 s2 s3 : St}
    (h1 : stepsTo P base a s1 s2) (h2 : stepsTo P base b s2 s3) : stepsTo P base (b + a) s1 s3 := by
  induction a generalizing s1 with
  | zero => cases h1; exact h2
  | succ a ih =>
    obtain ⟨m, hm, hr⟩ := h1
    exact ⟨m, hm, ih hr⟩

theorem runWf_steps {P : Program} {base : Nat} {k : Nat} {st st' : St} (h : stepsTo P base k st st') (f : Nat) :
    runWf P base (f + k) st = runWf P base f st' := by
  induction k generalizing st with
  | zero => cases h; rfl
  | succ k ih =>
    obtain ⟨m, hm, hr⟩ := h
    show runWf P base (f + k + 1) st = _
    simp only [runWf, hm]
    exact ih hr

theorem lane_lt (n l : Nat) (h : 64 * n + 64 ≤ 2 ^ 31) (hl : l < 64) : 64 * n + l < 2 ^ 31 := by omega
theorem lane_lt32 (n l : Nat) (h : 64 * n + 64 ≤ 2 ^ 31) (hl : l < 64) : 64 * n + l < 2 ^ 32 := by omega
theorem n_lt32 (c : Cfg) (hv : c.Valid) : c.N < 2 ^ 32 := by have := hv.n31; omega

theorem testBit_mask (co : Nat → Bool) (l : Nat) : (maskUpTo co 64).testBit l = (decide (l < 64) && co l) :=
  testBit_maskUpTo co 64 l

theorem blockA (c : Cfg) (hv : c.Valid) (f0 : Nat → Nat) (himg : Img c f0) (n msk : Nat)
    (hn : 64 * n + 64 ≤ 2 ^ 31) (hmsk : msk < 18446744073709551616)
    (st : St) (t : T) (h : Tracks st t) (hpc : t.pc = c.co) (hexec : t.exec = msk)
    (hs4 : t.s4 = c.pa % 2 ^ 32) (hs5 : t.s5 = c.pa / 2 ^ 32) (hs6 : t.s6 = c.ka % 2 ^ 32)
    (hs7 : t.s7 = c.ka / 2 ^ 32) (hs8 : t.s8 = n) (hv0 : ∀ l, l < 64 → t.v0 l = l) (hag : Agree c f0 t.mem) :
    ∃ st', stepsTo P c.co 12 st st' ∧ Tracks st'
      { pc := if maskUpTo (fun l => msk.testBit l && decide (64 * n + l < c.N)) 64 &&& msk = 0 then c.co + 136 else c.co + 64,
        exec := maskUpTo (fun l => msk.testBit l && decide (64 * n + l < c.N)) 64 &&& msk,
        vcc := maskUpTo (fun l => msk.testBit l && decide (64 * n + l < c.N)) 64,
        s0 := msk % 4294967296, s1 := msk / 4294967296 % 4294967296, s2 := c.N, s3 := t.s3, s4 := t.s4, s5 := t.s5,
        s6 := t.s6, s7 := t.s7, s8 := 64 * n,
        v0 := fun l => if msk.testBit l = true then 64 * n + l else l,
        v1 := t.v1, v2 := t.v2, v3 := t.v3, mem := t.mem } := by
  have hpa : c.pa % 2 ^ 32 + c.pa / 2 ^ 32 * 2 ^ 32 + 4 = c.pa + 4 := by rw [split32]
  have hka16 : c.ka % 2 ^ 32 + c.ka / 2 ^ 32 * 2 ^ 32 + 16 = c.ka + 16 := by rw [split32]
  have hka24 : c.ka % 2 ^ 32 + c.ka / 2 ^ 32 * 2 ^ 32 + 24 = c.ka + 24 := by rw [split32]
  have hR1 : rd32 t.mem (c.pa + 4) % 2 ^ 32 % 65536 = 64 := by
    rw [mod_mod_16, agree_pa c hv f0 t.mem hag, himg.wg]
  have hR2 : rd32 t.mem (c.ka + 16) % 2 ^ 32 = c.N := by rw [agree_ka c hv f0 t.mem hag 16 (by decide), himg.n]
  have hR3 : rd32 t.mem (c.ka + 24) % 2 ^ 32 = 0 := by rw [agree_ka c hv f0 t.mem hag 24 (by decide), himg.goff]
  obtain ⟨s1, e1, h1⟩ := lift_smem1 P rfl c.co 0 0 0 4 4 (by decide) (by decide) dec0 _
    (fun st => by rw [wn0]; exact ex0 st) st t h (by rw [hpc]; rfl) (c.pa + 4) _ _ hs4 hs5 hpa hv.pa8
  simp only [T.setS_0, T.s_0, T.setS_1, T.s_1, T.setS_2, T.s_2, T.setS_3, T.s_3, T.setS_4, T.s_4, T.setS_5, T.s_5, T.setS_6, T.s_6, T.setS_7, T.s_7, T.setS_8, T.s_8, T.setV_0, T.v_0, T.setV_1, T.v_1, T.setV_2, T.v_2, T.setV_3, T.v_3, T.setPc_eq, T.setVcc_eq, T.setExec_eq, T.setMem_eq, Nat.zero_add] at h1
  obtain ⟨s2, e2, h2⟩ := lift_wait P rfl c.co 8 _ dec8 s1 _ h1 (pcadd c.co 0 8 8 rfl)
  simp only [T.setS_0, T.s_0, T.setS_1, T.s_1, T.setS_2, T.s_2, T.setS_3, T.s_3, T.setS_4, T.s_4, T.setS_5, T.s_5, T.setS_6, T.s_6, T.setS_7, T.s_7, T.setS_8, T.s_8, T.setV_0, T.v_0, T.setV_1, T.v_1, T.setV_2, T.v_2, T.setV_3, T.v_3, T.setPc_eq, T.setVcc_eq, T.setExec_eq, T.setMem_eq, Nat.zero_add] at h2
  obtain ⟨s3, e3, h3⟩ := lift_and_ffff P rfl c.co 12 dec12 s2 _ h2 (pcadd c.co 8 4 12 rfl)
  simp only [T.setS_0, T.s_0, T.setS_1, T.s_1, T.setS_2, T.s_2, T.setS_3, T.s_3, T.setS_4, T.s_4, T.setS_5, T.s_5, T.setS_6, T.s_6, T.setS_7, T.s_7, T.setS_8, T.s_8, T.setV_0, T.v_0, T.setV_1, T.v_1, T.setV_2, T.v_2, T.setV_3, T.v_3, T.setPc_eq, T.setVcc_eq, T.setExec_eq, T.setMem_eq, Nat.zero_add] at h3
  rw [hR1] at h3
  obtain ⟨s4, e4, h4⟩ := lift_mul P rfl c.co 20 8 8 0 (by decide) (by decide) (by decide) dec20 s3 _ h3 (pcadd c.co 12 8 20 rfl)
  simp only [T.setS_0, T.s_0, T.setS_1, T.s_1, T.setS_2, T.s_2, T.setS_3, T.s_3, T.setS_4, T.s_4, T.setS_5, T.s_5, T.setS_6, T.s_6, T.setS_7, T.s_7, T.setS_8, T.s_8, T.setV_0, T.v_0, T.setV_1, T.v_1, T.setV_2, T.v_2, T.setV_3, T.v_3, T.setPc_eq, T.setVcc_eq, T.setExec_eq, T.setMem_eq, Nat.zero_add] at h4
  rw [hs8, mul64 n hn] at h4
  obtain ⟨s5, e5, h5⟩ := lift_smem1 P rfl c.co 24 0 2 6 16 (by decide) (by decide) dec24 _
    (fun st => by rw [wn24]; exact ex24 st) s4 _ h4 (pcadd c.co 20 4 24 rfl) (c.ka + 16) _ _ hs6 hs7 hka16 hv.ka20
  simp only [T.setS_0, T.s_0, T.setS_1, T.s_1, T.setS_2, T.s_2, T.setS_3, T.s_3, T.setS_4, T.s_4, T.setS_5, T.s_5, T.setS_6, T.s_6, T.setS_7, T.s_7, T.setS_8, T.s_8, T.setV_0, T.v_0, T.setV_1, T.v_1, T.setV_2, T.v_2, T.setV_3, T.v_3, T.setPc_eq, T.setVcc_eq, T.setExec_eq, T.setMem_eq, Nat.zero_add] at h5
  rw [hR2] at h5
  obtain ⟨s6, e6, h6⟩ := lift_smem2 P rfl c.co 32 1 0 6 24 (by decide) (by decide) dec32 _
    (fun st => by rw [wn32]; exact ex32 st) s5 _ h5 (pcadd c.co 24 8 32 rfl) (c.ka + 24) _ _ hs6 hs7 hka24 hv.ka32
  simp only [T.setS_0, T.s_0, T.setS_1, T.s_1, T.setS_2, T.s_2, T.setS_3, T.s_3, T.setS_4, T.s_4, T.setS_5, T.s_5, T.setS_6, T.s_6, T.setS_7, T.s_7, T.setS_8, T.s_8, T.setV_0, T.v_0, T.setV_1, T.v_1, T.setV_2, T.v_2, T.setV_3, T.v_3, T.setPc_eq, T.setVcc_eq, T.setExec_eq, T.setMem_eq, Nat.zero_add] at h6
  rw [hR3] at h6
  obtain ⟨s7, e7, h7⟩ := lift_vadd P rfl c.co 40 8 0 0 (by decide) (by decide) (by decide) dec40
    (fun st => by rw [wn40]; exact ex40 st) s6 _ h6 (pcadd c.co 32 8 40 rfl)
  simp only [T.setS_0, T.s_0, T.setS_1, T.s_1, T.setS_2, T.s_2, T.setS_3, T.s_3, T.setS_4, T.s_4, T.setS_5, T.s_5, T.setS_6, T.s_6, T.setS_7, T.s_7, T.setS_8, T.s_8, T.setV_0, T.v_0, T.setV_1, T.v_1, T.setV_2, T.v_2, T.setV_3, T.v_3, T.setPc_eq, T.setVcc_eq, T.setExec_eq, T.setMem_eq, Nat.zero_add] at h7
  rw [hexec] at h7
  replace h7 := h7.congr (t' :=
    { pc := c.co + 44, exec := msk, vcc := maskUpTo (fun l => msk.testBit l && decide (64 * n % 2 ^ 32 + t.v0 l % 2 ^ 32 ≥ 2 ^ 32)) 64, s0 := 0,
      s1 := rd32 t.mem (c.ka + 24 + 4) % 2 ^ 32, s2 := c.N, s3 := t.s3, s4 := t.s4, s5 := t.s5, s6 := t.s6, s7 := t.s7,
      s8 := 64 * n, v0 := fun l => if msk.testBit l = true then 64 * n + l else l,
      v1 := t.v1, v2 := t.v2, v3 := t.v3, mem := t.mem })
    (pcadd c.co 40 4 44 rfl) rfl rfl rfl rfl rfl rfl rfl rfl rfl rfl rfl
    (by
      intro l hl
      show (if msk.testBit l = true then (64 * n % 2 ^ 32 + t.v0 l % 2 ^ 32) % 2 ^ 32 else t.v0 l) = _
      rw [hv0 l hl, add_lane n l hn hl])
    (fun _ _ => rfl) (fun _ _ => rfl) (fun _ _ => rfl) (fun _ => rfl)
  obtain ⟨s8, e8, h8⟩ := lift_wait P rfl c.co 44 _ dec44 s7 _ h7 rfl
  simp only [T.setS_0, T.s_0, T.setS_1, T.s_1, T.setS_2, T.s_2, T.setS_3, T.s_3, T.setS_4, T.s_4, T.setS_5, T.s_5, T.setS_6, T.s_6, T.setS_7, T.s_7, T.setS_8, T.s_8, T.setV_0, T.v_0, T.setV_1, T.v_1, T.setV_2, T.v_2, T.setV_3, T.v_3, T.setPc_eq, T.setVcc_eq, T.setExec_eq, T.setMem_eq, Nat.zero_add] at h8
  obtain ⟨s9, e9, h9⟩ := lift_vadd P rfl c.co 48 0 0 0 (by decide) (by decide) (by decide) dec48
    (fun st => by rw [wn48]; exact ex48 st) s8 _ h8 (pcadd c.co 44 4 48 rfl)
  simp only [T.setS_0, T.s_0, T.setS_1, T.s_1, T.setS_2, T.s_2, T.setS_3, T.s_3, T.setS_4, T.s_4, T.setS_5, T.s_5, T.setS_6, T.s_6, T.setS_7, T.s_7, T.setS_8, T.s_8, T.setV_0, T.v_0, T.setV_1, T.v_1, T.setV_2, T.v_2, T.setV_3, T.v_3, T.setPc_eq, T.setVcc_eq, T.setExec_eq, T.setMem_eq, Nat.zero_add] at h9
  replace h9 := h9.congr (t' :=
    { pc := c.co + 52, exec := msk,
      vcc := maskUpTo (fun l => msk.testBit l && decide (0 % 2 ^ 32 + (if msk.testBit l = true then 64 * n + l else l) % 2 ^ 32 ≥ 2 ^ 32)) 64, s0 := 0,
      s1 := rd32 t.mem (c.ka + 24 + 4) % 2 ^ 32, s2 := c.N, s3 := t.s3, s4 := t.s4, s5 := t.s5, s6 := t.s6, s7 := t.s7,
      s8 := 64 * n, v0 := fun l => if msk.testBit l = true then 64 * n + l else l,
      v1 := t.v1, v2 := t.v2, v3 := t.v3, mem := t.mem })
    (pcadd c.co 48 4 52 rfl) rfl rfl rfl rfl rfl rfl rfl rfl rfl rfl rfl
    (by
      intro l hl
      show (if msk.testBit l = true then (0 % 2 ^ 32 + (if msk.testBit l = true then 64 * n + l else l) % 2 ^ 32) % 2 ^ 32
        else (if msk.testBit l = true then 64 * n + l else l)) = (if msk.testBit l = true then 64 * n + l else l)
      by_cases hx : msk.testBit l = true
      · rw [if_pos hx, if_pos hx, add_zero_lane _ (lane_lt n l hn hl)]
      · rw [if_neg hx, if_neg hx])
    (fun _ _ => rfl) (fun _ _ => rfl) (fun _ _ => rfl) (fun _ => rfl)
  obtain ⟨s10, e10, h10⟩ := lift_vcmp32 P rfl c.co 52 196 2 0 (by decide) (by decide) dec52 _ eCmp
    ⟨rfl, Or.inr (Or.inr (Or.inr rfl)), rfl⟩ rfl rfl rfl rfl rfl rfl rfl rfl
    (fun a b => I.cmpI 4 (w32 a) (w32 b)) (fun x => rfl)
    (fun st => by rw [wn52]; exact ex52 st) s9 _ h9 rfl
  simp only [T.setS_0, T.s_0, T.setS_1, T.s_1, T.setS_2, T.s_2, T.setS_3, T.s_3, T.setS_4, T.s_4, T.setS_5, T.s_5, T.setS_6, T.s_6, T.setS_7, T.s_7, T.setS_8, T.s_8, T.setV_0, T.v_0, T.setV_1, T.v_1, T.setV_2, T.v_2, T.setV_3, T.v_3, T.setPc_eq, T.setVcc_eq, T.setExec_eq, T.setMem_eq, Nat.zero_add] at h10
  replace h10 := h10.congr (t' :=
    { pc := c.co + 56, exec := msk,
      vcc := maskUpTo (fun l => msk.testBit l && decide (64 * n + l < c.N)) 64, s0 := 0,
      s1 := rd32 t.mem (c.ka + 24 + 4) % 2 ^ 32, s2 := c.N, s3 := t.s3, s4 := t.s4, s5 := t.s5, s6 := t.s6, s7 := t.s7,
      s8 := 64 * n, v0 := fun l => if msk.testBit l = true then 64 * n + l else l,
      v1 := t.v1, v2 := t.v2, v3 := t.v3, mem := t.mem })
    (pcadd c.co 52 4 56 rfl) rfl
    (by
      show maskUpTo _ 64 = maskUpTo _ 64
      apply maskUpTo_congr
      intro l hl
      by_cases hx : msk.testBit l = true
      · rw [hx, Bool.true_and, Bool.true_and, if_pos rfl, Nat.mod_eq_of_lt (n_lt32 c hv), Nat.mod_eq_of_lt (lane_lt32 n l hn hl),
          cmp_gt_small _ _ hv.n31 (lane_lt n l hn hl)]
      · have hx' : msk.testBit l = false := by simpa using hx
        rw [hx', Bool.false_and, Bool.false_and])
    rfl rfl rfl rfl rfl rfl rfl rfl rfl
    (fun _ _ => rfl) (fun _ _ => rfl) (fun _ _ => rfl) (fun _ _ => rfl) (fun _ => rfl)
  obtain ⟨s11, e11, h11⟩ := lift_saveexec P rfl c.co 56 dec56 s10 _ h10 rfl (maskUpTo_lt _ 64) hmsk
  simp only [T.setS_0, T.s_0, T.setS_1, T.s_1, T.setS_2, T.s_2, T.setS_3, T.s_3, T.setS_4, T.s_4, T.setS_5, T.s_5, T.setS_6, T.s_6, T.setS_7, T.s_7, T.setS_8, T.s_8, T.setV_0, T.v_0, T.setV_1, T.v_1, T.setV_2, T.v_2, T.setV_3, T.v_3, T.setPc_eq, T.setVcc_eq, T.setExec_eq, T.setMem_eq, Nat.zero_add] at h11
  obtain ⟨s12, e12, h12⟩ := lift_execz18 P rfl c.co 60 dec60 s11 _ h11 (pcadd c.co 56 4 60 rfl)
    (Nat.lt_of_le_of_lt (Nat.and_le_right) hmsk) hv.co136
  simp only [T.setS_0, T.s_0, T.setS_1, T.s_1, T.setS_2, T.s_2, T.setS_3, T.s_3, T.setS_4, T.s_4, T.setS_5, T.s_5, T.setS_6, T.s_6, T.setS_7, T.s_7, T.setS_8, T.s_8, T.setV_0, T.v_0, T.setV_1, T.v_1, T.setV_2, T.v_2, T.setV_3, T.v_3, T.setPc_eq, T.setVcc_eq, T.setExec_eq, T.setMem_eq, Nat.zero_add] at h12
  refine ⟨s12, ?_, ?_⟩
  · exact stepsTo_trans (stepsTo_one e1) (stepsTo_trans (stepsTo_one e2) (stepsTo_trans (stepsTo_one e3)
      (stepsTo_trans (stepsTo_one e4) (stepsTo_trans (stepsTo_one e5) (stepsTo_trans (stepsTo_one e6)
      (stepsTo_trans (stepsTo_one e7) (stepsTo_trans (stepsTo_one e8) (stepsTo_trans (stepsTo_one e9)
      (stepsTo_trans (stepsTo_one e10) (stepsTo_trans (stepsTo_one e11) (stepsTo_one e12)))))))))))
  · exact h12
end C01.Emu.Copy
