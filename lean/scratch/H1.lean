import MgpuProofs.C01CopyGrid
set_option linter.unusedSimpArgs false
set_option linter.unusedVariables false
set_option maxRecDepth 100000
namespace C01.Emu.Copy
open C03V

theorem foldlM_effect {α : Type} (step : Mem → α → Except String Mem) (Ok : Mem → Prop) (pairs : α → List (Nat × Nat)) :
    ∀ (l : List α), (∀ x ∈ l, ∀ m, Ok m → ∃ m', step m x = .ok m' ∧ get m' = applyWrites (pairs x) (get m) ∧ Ok m') →
    ∀ m, Ok m → ∃ m', l.foldlM step m = .ok m' ∧ get m' = applyWrites (l.flatMap pairs) (get m) ∧ Ok m' := by
  intro l
  induction l with
  | nil => intro _ m hok; exact ⟨m, rfl, rfl, hok⟩
  | cons x xs ih =>
    intro h m hok
    obtain ⟨m1, h1, g1, ok1⟩ := h x (List.mem_cons_self ..) m hok
    obtain ⟨m2, h2, g2, ok2⟩ := ih (fun y hy => h y (List.mem_cons_of_mem _ hy)) m1 ok1
    refine ⟨m2, ?_, ?_, ok2⟩
    · rw [List.foldlM_cons, h1]
      exact h2
    · rw [g2, g1, List.flatMap_cons, applyWrites_append]

/-- size of the row of work-group `k` -/
def rowSize (G k : Nat) : Nat := min (G - k * 64) 64

theorem rowSize_ok (G k : Nat) (hG : 0 < G) (hk : k < C08.nwg G 64) :
    1 ≤ rowSize G k ∧ rowSize G k ≤ 64 ∧ 64 * k + rowSize G k ≤ G := by
  have := (C08.lt_nwg G 64 k hG (by decide)).mp hk
  unfold rowSize
  omega

/-- all byte writes of the dispatch, work-group by work-group -/
def allPairs (c : Cfg) (f0 : Nat → Nat) : List (Nat × Nat) :=
  (List.range (C08.nwg c.G 64)).flatMap fun k => wavePairs c f0 k (2 ^ rowSize c.G k - 1)

theorem wavesOf_disp (c : Cfg) (ka pk : List Nat) (k s : Nat) (h1 : 1 ≤ s) (h2 : s ≤ 64) :
    wavesOf (disp c ka pk) ⟨(k, 0, 0), (s, 1, 1)⟩ = [wave0 c ka pk k s] := by
  unfold wavesOf
  show (C08.formWfs 64 1 (C08.spawn (s, 1, 1))).map _ = _
  rw [formWfs_row s h1 h2]
  rfl

/-- the whole dispatch: the emulator succeeds and the final memory is the launch image with all the
    wavefronts' writes applied -/
theorem runE_effect (c : Cfg) (hv : c.Valid) (hG : 0 < c.G) (ka pk : List Nat) (m : Mem) (fuel : Nat)
    (himg : Img c (get (install c.pa pk (install c.ka ka m)))) :
    ∃ m', runE P (disp c ka pk) (fuel + 27) m = .ok m' ∧
      get m' = applyWrites (allPairs c (get (install c.pa pk (install c.ka ka m))))
        (get (install c.pa pk (install c.ka ka m))) := by
  generalize hm0 : install c.pa pk (install c.ka ka m) = m0 at himg ⊢
  unfold runE
  show ∃ m', (wgList (geo c.G)).foldlM _ (install c.pa pk (install c.ka ka m)) = _ ∧ _
  rw [hm0, wgList_geo c.G hG]
  obtain ⟨m', hf, hg, _⟩ := foldlM_effect
    (fun m wg => runWG P (disp c ka pk).kernelObject (fuel + 27) (fuel + 27) (wavesOf (disp c ka pk) wg) m [])
    (Ok c (get m0)) (fun wg => wavePairs c (get m0) wg.id.1 (2 ^ wg.sz.1 - 1))
    ((List.range (C08.nwg c.G 64)).map fun k => ⟨(k, 0, 0), (min (c.G - k * 64) 64, 1, 1)⟩)
    (by
      intro wg hwg mm hok
      obtain ⟨k, hk, rfl⟩ := List.mem_map.mp hwg
      have hk' := List.mem_range.mp hk
      obtain ⟨h1, h2, h3⟩ := rowSize_ok c.G k hG hk'
      show ∃ m', runWG P c.co (fuel + 27) (fuel + 26 + 1) (wavesOf (disp c ka pk) ⟨(k, 0, 0), (rowSize c.G k, 1, 1)⟩) mm [] = _ ∧ _
      rw [wavesOf_disp c ka pk k _ h1 h2]
      obtain ⟨m', hr, hg, hok'⟩ := runWG_effect P c.co (fuel + 27) (fuel + 26) (Ok c (get m0))
        (fun _ => wavePairs c (get m0) k (2 ^ rowSize c.G k - 1)) [wave0 c ka pk k (rowSize c.G k)]
        (by
          intro w hw
          rw [List.mem_singleton] at hw
          subst hw
          exact wave_spec c hv (get m0) himg ka pk k _ h1 h2 h3 fuel)
        mm [] hok
      refine ⟨m', hr, ?_, hok'⟩
      rw [hg]
      simp only [List.flatMap_cons, List.flatMap_nil, List.append_nil]
      rfl)
    m0 (fun a _ => rfl)
  refine ⟨m', hf, ?_⟩
  rw [hg, List.flatMap_map]
  rfl

end C01.Emu.Copy
