import MgpuProofs.C01CopyWave
set_option linter.unusedSimpArgs false
set_option linter.unusedVariables false
set_option maxRecDepth 100000
namespace C01.Emu.Copy
open C03V

theorem ashr_pos (g : Nat) (hg : g < 2 ^ 31) : 0 + g * 2 ^ 32 < 2 ^ 63 := by omega
theorem ashr_val (g : Nat) (hg : g < 2 ^ 31) : (0 + g * 2 ^ 32) / 2 ^ 30 = 4 * g := by omega

theorem add_lo (A x : Nat) : (A % 2 ^ 32 % 2 ^ 32 + x % 2 ^ 32 % 2 ^ 32) % 2 ^ 32 = (A + x) % 2 ^ 32 := by omega

theorem add_hi (A x : Nat) (h : A + x < 2 ^ 64) (b : Bool)
    (hb : b = decide (A % 2 ^ 32 % 2 ^ 32 + x % 2 ^ 32 % 2 ^ 32 ≥ 2 ^ 32)) :
    (A / 2 ^ 32 % 2 ^ 32 % 2 ^ 32 + x / 2 ^ 32 % 2 ^ 32 % 2 ^ 32 + b.toNat) % 2 ^ 32 = (A + x) / 2 ^ 32 := by
  by_cases hc : A % 2 ^ 32 % 2 ^ 32 + x % 2 ^ 32 % 2 ^ 32 ≥ 2 ^ 32
  · have : b = true := by rw [hb]; exact decide_eq_true hc
    subst this
    simp only [Bool.toNat_true]
    omega
  · have : b = false := by rw [hb]; exact decide_eq_false hc
    subst this
    simp only [Bool.toNat_false]
    omega

theorem carry_bit (E a : Nat) (f : Nat → Nat) (l : Nat) (hl : l < 64) (hx : E.testBit l = true) :
    (maskUpTo (fun l => E.testBit l && decide (a + f l % 2 ^ 32 ≥ 2 ^ 32)) 64).testBit l =
      decide (a + f l % 2 ^ 32 ≥ 2 ^ 32) := by
  rw [testBit_mask]
  simp only [hl, decide_true, Bool.true_and, hx]

theorem src_ok (c : Cfg) (hv : c.Valid) (g : Nat) (hg : g < c.K) : c.src + 4 * g + 4 ≤ 2 ^ 64 := by
  have := hv.srcEnd; omega
theorem dst_ok (c : Cfg) (hv : c.Valid) (g : Nat) (hg : g < c.K) : c.dst + 4 * g + 4 ≤ 2 ^ 64 := by
  have := hv.dstEnd; omega
theorem lt_of_ok (a g : Nat) (h : a + 4 * g + 4 ≤ 2 ^ 64) : a + 4 * g < 2 ^ 64 := by omega
theorem join32 (x : Nat) (h : x < 2 ^ 64) : (x % 2 ^ 32 + x / 2 ^ 32 * 2 ^ 32) % 2 ^ 64 = x := by
  rw [split32]; exact Nat.mod_eq_of_lt h

theorem blockB (c : Cfg) (hv : c.Valid) (f0 : Nat → Nat) (himg : Img c f0) (n E : Nat)
    (hn : 64 * n + 64 ≤ 2 ^ 31)
    (st : St) (t : T) (h : Tracks st t) (hpc : t.pc = c.co + 64) (hexec : t.exec = E)
    (hs6 : t.s6 = c.ka % 2 ^ 32) (hs7 : t.s7 = c.ka / 2 ^ 32)
    (hact : ∀ l, l < 64 → E.testBit l = true → t.v0 l = 64 * n + l ∧ 64 * n + l < c.K)
    (hag : Agree c f0 t.mem) :
    ∃ st' t', stepsTo P c.co 14 st st' ∧ Tracks st' t' ∧ t'.pc = c.co + 136 ∧
      t'.mem = applyWrites ((lanesOf E).flatMap fun l =>
        storePairs (c.dst + 4 * (64 * n + l)) (rd32 t.mem (c.src + 4 * (64 * n + l)) % 2 ^ 32)) t.mem := by
  have hka0 : c.ka % 2 ^ 32 + c.ka / 2 ^ 32 * 2 ^ 32 + 0 = c.ka + 0 := by rw [split32]
  have hR4 : rd32 t.mem (c.ka + 0) % 2 ^ 32 = c.src % 2 ^ 32 := by
    rw [agree_ka c hv f0 t.mem hag 0 (by decide)]; exact himg.srcLo
  have hR5 : rd32 t.mem (c.ka + 0 + 4) % 2 ^ 32 = c.src / 2 ^ 32 := by
    rw [Nat.add_assoc, agree_ka c hv f0 t.mem hag (0 + 4) (by decide)]; exact himg.srcHi
  have hR6 : rd32 t.mem (c.ka + 0 + 8) % 2 ^ 32 = c.dst % 2 ^ 32 := by
    rw [Nat.add_assoc, agree_ka c hv f0 t.mem hag (0 + 8) (by decide)]; exact himg.dstLo
  have hR7 : rd32 t.mem (c.ka + 0 + 12) % 2 ^ 32 = c.dst / 2 ^ 32 := by
    rw [Nat.add_assoc, agree_ka c hv f0 t.mem hag (0 + 12) (by decide)]; exact himg.dstHi
  obtain ⟨s1, e1, h1⟩ := lift_smem4 P rfl c.co 64 2 0 6 0 (by decide) (by decide) dec64 _
    (fun st => by rw [wn64]; exact ex64 st) st t h hpc (c.ka + 0) _ _ hs6 hs7 hka0 hv.ka16
  simp only [Nat.reduceAdd, T.setS_0, T.s_0, T.setS_1, T.s_1, T.setS_2, T.s_2, T.setS_3, T.s_3, T.setS_4, T.s_4, T.setS_5, T.s_5, T.setS_6, T.s_6, T.setS_7, T.s_7, T.setS_8, T.s_8, T.setV_0, T.v_0, T.setV_1, T.v_1, T.setV_2, T.v_2, T.setV_3, T.v_3, T.setPc_eq, T.setVcc_eq, T.setExec_eq, T.setMem_eq, Nat.zero_add] at h1
  rw [hR4, hR5, hR6, hR7, hexec] at h1
  obtain ⟨s2, e2, h2⟩ := lift_vmov P rfl c.co 72 128 1 (by decide) dec72
    (fun st => by rw [wn72]; exact ex72 st) s1 _ h1 (pcadd c.co 64 8 72 rfl) (fun _ => 0)
    (fun st' V hV _ _ l hl => by rw [src_inline st' 128 l 32 0 false (by decide) (by decide)])
  simp only [Nat.reduceAdd, T.setS_0, T.s_0, T.setS_1, T.s_1, T.setS_2, T.s_2, T.setS_3, T.s_3, T.setS_4, T.s_4, T.setS_5, T.s_5, T.setS_6, T.s_6, T.setS_7, T.s_7, T.setS_8, T.s_8, T.setV_0, T.v_0, T.setV_1, T.v_1, T.setV_2, T.v_2, T.setV_3, T.v_3, T.setPc_eq, T.setVcc_eq, T.setExec_eq, T.setMem_eq, Nat.zero_add] at h2
  obtain ⟨s3, e3, h3⟩ := lift_vmov P rfl c.co 76 256 2 (by decide) dec76
    (fun st => by rw [wn76]; exact ex76 st) s2 _ h2 (pcadd c.co 72 4 76 rfl) (fun l => t.v0 l % 2 ^ 32)
    (fun st' V hV _ hrv l hl => by
      rw [show (256 : Nat) = 256 + 0 from rfl, src_vgpr, hV.rv 0 l (by decide) hl, hrv 0 l (by decide) hl]
      simp only [T.v_0])
  simp only [Nat.reduceAdd, T.setS_0, T.s_0, T.setS_1, T.s_1, T.setS_2, T.s_2, T.setS_3, T.s_3, T.setS_4, T.s_4, T.setS_5, T.s_5, T.setS_6, T.s_6, T.setS_7, T.s_7, T.setS_8, T.s_8, T.setV_0, T.v_0, T.setV_1, T.v_1, T.setV_2, T.v_2, T.setV_3, T.v_3, T.setPc_eq, T.setVcc_eq, T.setExec_eq, T.setMem_eq, Nat.zero_add] at h3
  replace h3 := h3.congr (t' :=
    { pc := c.co + 80, exec := E, vcc := t.vcc, s0 := c.src % 2 ^ 32, s1 := c.src / 2 ^ 32, s2 := c.dst % 2 ^ 32,
      s3 := c.dst / 2 ^ 32, s4 := t.s4, s5 := t.s5, s6 := t.s6, s7 := t.s7, s8 := t.s8, v0 := t.v0,
      v1 := fun l => if E.testBit l = true then 0 else t.v1 l,
      v2 := fun l => if E.testBit l = true then 64 * n + l else t.v2 l, v3 := t.v3, mem := t.mem })
    (pcadd c.co 76 4 80 rfl) rfl rfl rfl rfl rfl rfl rfl rfl rfl rfl rfl
    (fun _ _ => rfl) (fun _ _ => rfl)
    (by
      intro l hl
      show (if E.testBit l = true then t.v0 l % 2 ^ 32 else t.v2 l) = (if E.testBit l = true then 64 * n + l else t.v2 l)
      by_cases hx : E.testBit l = true
      · rw [if_pos hx, if_pos hx, (hact l hl hx).1, Nat.mod_eq_of_lt (lane_lt32 n l hn hl)]
      · rw [if_neg hx, if_neg hx])
    (fun _ _ => rfl) (fun _ => rfl)
  obtain ⟨s4, e4, h4⟩ := lift_vashr64 P rfl c.co 80 30 1 0 (by decide) (by decide) (by decide) dec80 _ eAshr
    ⟨rfl, Or.inl rfl, rfl⟩ rfl rfl rfl rfl rfl rfl rfl rfl rfl rfl (fun x => rfl)
    (fun st => by rw [wn80]; exact ex80 st) s3 _ h3 rfl
    (by
      intro l hl hx
      simp only [Nat.reduceAdd, T.setS_0, T.s_0, T.setS_1, T.s_1, T.setS_2, T.s_2, T.setS_3, T.s_3, T.setS_4, T.s_4, T.setS_5, T.s_5, T.setS_6, T.s_6, T.setS_7, T.s_7, T.setS_8, T.s_8, T.setV_0, T.v_0, T.setV_1, T.v_1, T.setV_2, T.v_2, T.setV_3, T.v_3, T.setPc_eq, T.setVcc_eq, T.setExec_eq, T.setMem_eq, Nat.zero_add]
      rw [if_pos hx, if_pos hx]
      exact ashr_pos _ (lane_lt n l hn hl))
  simp only [Nat.reduceAdd, T.setS_0, T.s_0, T.setS_1, T.s_1, T.setS_2, T.s_2, T.setS_3, T.s_3, T.setS_4, T.s_4, T.setS_5, T.s_5, T.setS_6, T.s_6, T.setS_7, T.s_7, T.setS_8, T.s_8, T.setV_0, T.v_0, T.setV_1, T.v_1, T.setV_2, T.v_2, T.setV_3, T.v_3, T.setPc_eq, T.setVcc_eq, T.setExec_eq, T.setMem_eq, Nat.zero_add] at h4
  replace h4 := h4.congr (t' :=
    { pc := c.co + 88, exec := E, vcc := t.vcc, s0 := c.src % 2 ^ 32, s1 := c.src / 2 ^ 32, s2 := c.dst % 2 ^ 32,
      s3 := c.dst / 2 ^ 32, s4 := t.s4, s5 := t.s5, s6 := t.s6, s7 := t.s7, s8 := t.s8,
      v0 := fun l => if E.testBit l = true then 4 * (64 * n + l) % 2 ^ 32 else t.v0 l,
      v1 := fun l => if E.testBit l = true then 4 * (64 * n + l) / 2 ^ 32 % 2 ^ 32 else t.v1 l,
      v2 := fun l => if E.testBit l = true then 64 * n + l else t.v2 l, v3 := t.v3, mem := t.mem })
    (pcadd c.co 80 8 88 rfl) rfl rfl rfl rfl rfl rfl rfl rfl rfl rfl rfl
    (by
      intro l hl
      by_cases hx : E.testBit l = true
      · simp only [if_pos hx]
        rw [ashr_val _ (lane_lt n l hn hl)]
      · simp only [if_neg hx])
    (by
      intro l hl
      by_cases hx : E.testBit l = true
      · simp only [if_pos hx]
        rw [ashr_val _ (lane_lt n l hn hl)]
      · simp only [if_neg hx])
    (fun _ _ => rfl) (fun _ _ => rfl) (fun _ => rfl)
  obtain ⟨s5, e5, h5⟩ := lift_wait P rfl c.co 88 _ dec88 s4 _ h4 rfl
  simp only [Nat.reduceAdd, T.setS_0, T.s_0, T.setS_1, T.s_1, T.setS_2, T.s_2, T.setS_3, T.s_3, T.setS_4, T.s_4, T.setS_5, T.s_5, T.setS_6, T.s_6, T.setS_7, T.s_7, T.setS_8, T.s_8, T.setV_0, T.v_0, T.setV_1, T.v_1, T.setV_2, T.v_2, T.setV_3, T.v_3, T.setPc_eq, T.setVcc_eq, T.setExec_eq, T.setMem_eq, Nat.zero_add] at h5
  obtain ⟨s6, e6, h6⟩ := lift_vmov P rfl c.co 92 1 3 (by decide) dec92
    (fun st => by rw [wn92]; exact ex92 st) s5 _ h5 (pcadd c.co 88 4 92 rfl) (fun _ => c.src / 2 ^ 32 % 2 ^ 32)
    (fun st' V hV hrs _ l hl => by
      rw [src_sgpr st' 1 l 32 0 false (by decide) rfl, hV.rs 1 (by decide), hrs 1 (by decide)]
      simp only [T.s_1])
  simp only [Nat.reduceAdd, T.setS_0, T.s_0, T.setS_1, T.s_1, T.setS_2, T.s_2, T.setS_3, T.s_3, T.setS_4, T.s_4, T.setS_5, T.s_5, T.setS_6, T.s_6, T.setS_7, T.s_7, T.setS_8, T.s_8, T.setV_0, T.v_0, T.setV_1, T.v_1, T.setV_2, T.v_2, T.setV_3, T.v_3, T.setPc_eq, T.setVcc_eq, T.setExec_eq, T.setMem_eq, Nat.zero_add] at h6
  obtain ⟨s7, e7, h7⟩ := lift_vadd P rfl c.co 96 0 0 2 (by decide) (by decide) (by decide) dec96
    (fun st => by rw [wn96]; exact ex96 st) s6 _ h6 (pcadd c.co 92 4 96 rfl)
  simp only [Nat.reduceAdd, T.setS_0, T.s_0, T.setS_1, T.s_1, T.setS_2, T.s_2, T.setS_3, T.s_3, T.setS_4, T.s_4, T.setS_5, T.s_5, T.setS_6, T.s_6, T.setS_7, T.s_7, T.setS_8, T.s_8, T.setV_0, T.v_0, T.setV_1, T.v_1, T.setV_2, T.v_2, T.setV_3, T.v_3, T.setPc_eq, T.setVcc_eq, T.setExec_eq, T.setMem_eq, Nat.zero_add] at h7
  obtain ⟨s8, e8, h8⟩ := lift_vaddc P rfl c.co 100 3 1 3 (by decide) (by decide) (by decide) dec100
    (fun st => by rw [wn100]; exact ex100 st) s7 _ h7 (pcadd c.co 96 4 100 rfl)
  simp only [Nat.reduceAdd, T.setS_0, T.s_0, T.setS_1, T.s_1, T.setS_2, T.s_2, T.setS_3, T.s_3, T.setS_4, T.s_4, T.setS_5, T.s_5, T.setS_6, T.s_6, T.setS_7, T.s_7, T.setS_8, T.s_8, T.setV_0, T.v_0, T.setV_1, T.v_1, T.setV_2, T.v_2, T.setV_3, T.v_3, T.setPc_eq, T.setVcc_eq, T.setExec_eq, T.setMem_eq, Nat.zero_add] at h8
  replace h8 := h8.upd (c.co + 104)
    (fun l => if E.testBit l = true then 4 * (64 * n + l) % 2 ^ 32 else t.v0 l)
    (fun l => if E.testBit l = true then 4 * (64 * n + l) / 2 ^ 32 % 2 ^ 32 else t.v1 l)
    (fun l => if E.testBit l = true then (c.src + 4 * (64 * n + l)) % 2 ^ 32 else t.v2 l)
    (fun l => if E.testBit l = true then (c.src + 4 * (64 * n + l)) / 2 ^ 32 else t.v3 l)
    (pcadd c.co 100 4 104 rfl) (fun _ _ => rfl) (fun _ _ => rfl)
    (by
      intro l hl
      by_cases hx : E.testBit l = true
      · simp only [if_pos hx]
        rw [add_lo]
      · simp only [if_neg hx])
    (by
      intro l hl
      by_cases hx : E.testBit l = true
      · have hk := (hact l hl hx).2
        have hcb := carry_bit E (c.src % 2 ^ 32 % 2 ^ 32)
          (fun l => if E.testBit l = true then 4 * (64 * n + l) % 2 ^ 32 else t.v0 l) l hl hx
        simp only [if_pos hx] at hcb ⊢
        rw [hcb]
        exact add_hi c.src (4 * (64 * n + l)) (lt_of_ok _ _ (src_ok c hv _ hk)) _ rfl
      · simp only [if_neg hx])
  simp only [Nat.reduceAdd, T.setS_0, T.s_0, T.setS_1, T.s_1, T.setS_2, T.s_2, T.setS_3, T.s_3, T.setS_4, T.s_4, T.setS_5, T.s_5, T.setS_6, T.s_6, T.setS_7, T.s_7, T.setS_8, T.s_8, T.setV_0, T.v_0, T.setV_1, T.v_1, T.setV_2, T.v_2, T.setV_3, T.v_3, T.setPc_eq, T.setVcc_eq, T.setExec_eq, T.setMem_eq, Nat.zero_add] at h8
  obtain ⟨s9, e9, h9⟩ := lift_flat_load P rfl c.co 104 2 2 (by decide) (by decide) dec104 _
    (fun st => by rw [wn104]; exact ex104 st) s8 _ h8 rfl (fun l => c.src + 4 * (64 * n + l))
    (by
      intro l hl hx
      have hk := (hact l hl hx).2
      simp only [Nat.reduceAdd, T.setS_0, T.s_0, T.setS_1, T.s_1, T.setS_2, T.s_2, T.setS_3, T.s_3, T.setS_4, T.s_4, T.setS_5, T.s_5, T.setS_6, T.s_6, T.setS_7, T.s_7, T.setS_8, T.s_8, T.setV_0, T.v_0, T.setV_1, T.v_1, T.setV_2, T.v_2, T.setV_3, T.v_3, T.setPc_eq, T.setVcc_eq, T.setExec_eq, T.setMem_eq, Nat.zero_add, if_pos hx]
      exact ⟨join32 _ (lt_of_ok _ _ (src_ok c hv _ hk)), src_ok c hv _ hk⟩)
  simp only [Nat.reduceAdd, T.setS_0, T.s_0, T.setS_1, T.s_1, T.setS_2, T.s_2, T.setS_3, T.s_3, T.setS_4, T.s_4, T.setS_5, T.s_5, T.setS_6, T.s_6, T.setS_7, T.s_7, T.setS_8, T.s_8, T.setV_0, T.v_0, T.setV_1, T.v_1, T.setV_2, T.v_2, T.setV_3, T.v_3, T.setPc_eq, T.setVcc_eq, T.setExec_eq, T.setMem_eq, Nat.zero_add] at h9
  replace h9 := h9.upd (c.co + 112)
    (fun l => if E.testBit l = true then 4 * (64 * n + l) % 2 ^ 32 else t.v0 l)
    (fun l => if E.testBit l = true then 4 * (64 * n + l) / 2 ^ 32 % 2 ^ 32 else t.v1 l)
    (fun l => if E.testBit l = true then rd32 t.mem (c.src + 4 * (64 * n + l)) % 2 ^ 32 else t.v2 l)
    (fun l => if E.testBit l = true then (c.src + 4 * (64 * n + l)) / 2 ^ 32 else t.v3 l)
    (pcadd c.co 104 8 112 rfl) (fun _ _ => rfl) (fun _ _ => rfl)
    (by
      intro l hl
      by_cases hx : E.testBit l = true
      · simp only [if_pos hx]
      · simp only [if_neg hx])
    (fun _ _ => rfl)
  simp only [Nat.reduceAdd, T.setS_0, T.s_0, T.setS_1, T.s_1, T.setS_2, T.s_2, T.setS_3, T.s_3, T.setS_4, T.s_4, T.setS_5, T.s_5, T.setS_6, T.s_6, T.setS_7, T.s_7, T.setS_8, T.s_8, T.setV_0, T.v_0, T.setV_1, T.v_1, T.setV_2, T.v_2, T.setV_3, T.v_3, T.setPc_eq, T.setVcc_eq, T.setExec_eq, T.setMem_eq, Nat.zero_add] at h9
  obtain ⟨s10, e10, h10⟩ := lift_vmov P rfl c.co 112 3 3 (by decide) dec112
    (fun st => by rw [wn112]; exact ex112 st) s9 _ h9 rfl (fun _ => c.dst / 2 ^ 32 % 2 ^ 32)
    (fun st' V hV hrs _ l hl => by
      rw [src_sgpr st' 3 l 32 0 false (by decide) rfl, hV.rs 3 (by decide), hrs 3 (by decide)]
      simp only [T.s_3])
  simp only [Nat.reduceAdd, T.setS_0, T.s_0, T.setS_1, T.s_1, T.setS_2, T.s_2, T.setS_3, T.s_3, T.setS_4, T.s_4, T.setS_5, T.s_5, T.setS_6, T.s_6, T.setS_7, T.s_7, T.setS_8, T.s_8, T.setV_0, T.v_0, T.setV_1, T.v_1, T.setV_2, T.v_2, T.setV_3, T.v_3, T.setPc_eq, T.setVcc_eq, T.setExec_eq, T.setMem_eq, Nat.zero_add] at h10
  obtain ⟨s11, e11, h11⟩ := lift_vadd P rfl c.co 116 2 0 0 (by decide) (by decide) (by decide) dec116
    (fun st => by rw [wn116]; exact ex116 st) s10 _ h10 (pcadd c.co 112 4 116 rfl)
  simp only [Nat.reduceAdd, T.setS_0, T.s_0, T.setS_1, T.s_1, T.setS_2, T.s_2, T.setS_3, T.s_3, T.setS_4, T.s_4, T.setS_5, T.s_5, T.setS_6, T.s_6, T.setS_7, T.s_7, T.setS_8, T.s_8, T.setV_0, T.v_0, T.setV_1, T.v_1, T.setV_2, T.v_2, T.setV_3, T.v_3, T.setPc_eq, T.setVcc_eq, T.setExec_eq, T.setMem_eq, Nat.zero_add] at h11
  obtain ⟨s12, e12, h12⟩ := lift_vaddc P rfl c.co 120 3 1 1 (by decide) (by decide) (by decide) dec120
    (fun st => by rw [wn120]; exact ex120 st) s11 _ h11 (pcadd c.co 116 4 120 rfl)
  simp only [Nat.reduceAdd, T.setS_0, T.s_0, T.setS_1, T.s_1, T.setS_2, T.s_2, T.setS_3, T.s_3, T.setS_4, T.s_4, T.setS_5, T.s_5, T.setS_6, T.s_6, T.setS_7, T.s_7, T.setS_8, T.s_8, T.setV_0, T.v_0, T.setV_1, T.v_1, T.setV_2, T.v_2, T.setV_3, T.v_3, T.setPc_eq, T.setVcc_eq, T.setExec_eq, T.setMem_eq, Nat.zero_add] at h12
  replace h12 := h12.upd (c.co + 124)
    (fun l => if E.testBit l = true then (c.dst + 4 * (64 * n + l)) % 2 ^ 32 else t.v0 l)
    (fun l => if E.testBit l = true then (c.dst + 4 * (64 * n + l)) / 2 ^ 32 else t.v1 l)
    (fun l => if E.testBit l = true then rd32 t.mem (c.src + 4 * (64 * n + l)) % 2 ^ 32 else t.v2 l)
    (fun l => if E.testBit l = true then c.dst / 2 ^ 32 % 2 ^ 32 else t.v3 l)
    (pcadd c.co 120 4 124 rfl)
    (by
      intro l hl
      by_cases hx : E.testBit l = true
      · simp only [if_pos hx]
        rw [add_lo]
      · simp only [if_neg hx])
    (by
      intro l hl
      by_cases hx : E.testBit l = true
      · have hk := (hact l hl hx).2
        have hcb := carry_bit E (c.dst % 2 ^ 32 % 2 ^ 32)
          (fun l => if E.testBit l = true then 4 * (64 * n + l) % 2 ^ 32 else t.v0 l) l hl hx
        simp only [if_pos hx] at hcb ⊢
        rw [hcb]
        exact add_hi c.dst (4 * (64 * n + l)) (lt_of_ok _ _ (dst_ok c hv _ hk)) _ rfl
      · simp only [if_neg hx])
    (fun _ _ => rfl)
    (by
      intro l hl
      by_cases hx : E.testBit l = true
      · simp only [if_pos hx]
      · simp only [if_neg hx])
  simp only [Nat.reduceAdd, T.setS_0, T.s_0, T.setS_1, T.s_1, T.setS_2, T.s_2, T.setS_3, T.s_3, T.setS_4, T.s_4, T.setS_5, T.s_5, T.setS_6, T.s_6, T.setS_7, T.s_7, T.setS_8, T.s_8, T.setV_0, T.v_0, T.setV_1, T.v_1, T.setV_2, T.v_2, T.setV_3, T.v_3, T.setPc_eq, T.setVcc_eq, T.setExec_eq, T.setMem_eq, Nat.zero_add] at h12
  obtain ⟨s13, e13, h13⟩ := lift_wait P rfl c.co 124 _ dec124 s12 _ h12 rfl
  simp only [Nat.reduceAdd, T.setS_0, T.s_0, T.setS_1, T.s_1, T.setS_2, T.s_2, T.setS_3, T.s_3, T.setS_4, T.s_4, T.setS_5, T.s_5, T.setS_6, T.s_6, T.setS_7, T.s_7, T.setS_8, T.s_8, T.setV_0, T.v_0, T.setV_1, T.v_1, T.setV_2, T.v_2, T.setV_3, T.v_3, T.setPc_eq, T.setVcc_eq, T.setExec_eq, T.setMem_eq, Nat.zero_add] at h13
  obtain ⟨s14, e14, h14⟩ := lift_flat_store P rfl c.co 128 0 2 (by decide) (by decide) dec128 _
    (fun st => by rw [wn128]; exact ex128 st) s13 _ h13 (pcadd c.co 124 4 128 rfl) (fun l => c.dst + 4 * (64 * n + l))
    (by
      intro l hl hx
      have hk := (hact l hl hx).2
      simp only [Nat.reduceAdd, T.setS_0, T.s_0, T.setS_1, T.s_1, T.setS_2, T.s_2, T.setS_3, T.s_3, T.setS_4, T.s_4, T.setS_5, T.s_5, T.setS_6, T.s_6, T.setS_7, T.s_7, T.setS_8, T.s_8, T.setV_0, T.v_0, T.setV_1, T.v_1, T.setV_2, T.v_2, T.setV_3, T.v_3, T.setPc_eq, T.setVcc_eq, T.setExec_eq, T.setMem_eq, Nat.zero_add, if_pos hx]
      exact ⟨join32 _ (lt_of_ok _ _ (dst_ok c hv _ hk)), dst_ok c hv _ hk⟩)
  simp only [Nat.reduceAdd, T.setS_0, T.s_0, T.setS_1, T.s_1, T.setS_2, T.s_2, T.setS_3, T.s_3, T.setS_4, T.s_4, T.setS_5, T.s_5, T.setS_6, T.s_6, T.setS_7, T.s_7, T.setS_8, T.s_8, T.setV_0, T.v_0, T.setV_1, T.v_1, T.setV_2, T.v_2, T.setV_3, T.v_3, T.setPc_eq, T.setVcc_eq, T.setExec_eq, T.setMem_eq, Nat.zero_add] at h14
  refine ⟨s14, _, ?_, h14, pcadd c.co 128 8 136 rfl, ?_⟩
  · exact stepsTo_trans (stepsTo_one e1) (stepsTo_trans (stepsTo_one e2) (stepsTo_trans (stepsTo_one e3)
      (stepsTo_trans (stepsTo_one e4) (stepsTo_trans (stepsTo_one e5) (stepsTo_trans (stepsTo_one e6)
      (stepsTo_trans (stepsTo_one e7) (stepsTo_trans (stepsTo_one e8) (stepsTo_trans (stepsTo_one e9)
      (stepsTo_trans (stepsTo_one e10) (stepsTo_trans (stepsTo_one e11) (stepsTo_trans (stepsTo_one e12)
      (stepsTo_trans (stepsTo_one e13) (stepsTo_one e14)))))))))))))
  · show applyWrites _ t.mem = applyWrites _ t.mem
    congr 1
    apply flatMap_congr'
    intro l hl
    have hx := ((mem_lanesOf _ _).mp hl).2
    simp only [if_pos hx]
end C01.Emu.Copy
