import MgpuProofs.C01CopyWave
import MgpuProofs.Props.C08
/-! # C01 — `copyKernel` on the whole grid

The dispatch of `EnqueueMemCopyD2D` (`G` work-items, 64-wide work-groups): the work-groups the grid
builder produces (C08 `wgs_enumerate`), the single wavefront each of them forms, its initial registers
(`initWfRegs`), the per-wavefront specification (`wave_run`) packaged as a `WaveSpec`, and the fold over
the work-groups (`runWG_effect`). -/
set_option linter.unusedSimpArgs false
set_option linter.unusedVariables false
set_option maxRecDepth 100000
namespace C01.Emu.Copy
open C03V

/-- the dispatch geometry of `EnqueueMemCopyD2D`: `G` work-items, 64-wide work-groups -/
def geo (G : Nat) : C08.Geo := ⟨G, 1, 1, 64, 1, 1⟩

theorem geo_valid (G : Nat) (hG : 0 < G) : (geo G).Valid := ⟨hG, Nat.one_pos, Nat.one_pos, show 0 < 64 by omega, Nat.one_pos, Nat.one_pos⟩

theorem geo_total (G : Nat) : (geo G).total = C08.nwg G 64 := by
  simp [C08.Geo.total, C08.Geo.nx, C08.Geo.ny, C08.Geo.nz, geo, C08.nwg]

/-- the work-groups the grid builder produces (C08 `wgs_enumerate`): `(k,0,0)` with the clipped size -/
theorem wgList_geo (G : Nat) (hG : 0 < G) :
    wgList (geo G) = (List.range (C08.nwg G 64)).map fun k => ⟨(k, 0, 0), (min (G - k * 64) 64, 1, 1)⟩ := by
  unfold wgList
  have h := C08.wgs_enumerate (geo G) (geo_valid G hG) (fun _ => true) 0 ((geo G).total + 1)
  have hs : C08.skip (geo G) (fun _ => true) 0 ⟨0, 0, 0⟩ = ⟨0, 0, 0⟩ := rfl
  rw [hs] at h
  rw [h, List.drop_zero]
  have hf : (C08.allWGs (geo G)).filter (fun w => (fun _ => true) w.id) = C08.allWGs (geo G) :=
    List.filter_eq_self.mpr (fun _ _ => rfl)
  rw [hf, List.take_of_length_le (by simp [C08.allWGs])]
  unfold C08.allWGs
  rw [geo_total]
  apply List.map_congr_left
  intro k hk
  have hk' : k < C08.nwg G 64 := List.mem_range.mp hk
  have hnx : (geo G).nx = C08.nwg G 64 := rfl
  have hny : (geo G).ny = 1 := by simp [C08.Geo.ny, geo, C08.nwg]
  simp only [C08.wgAt, C08.coordOf, C08.sizesOf, hnx, hny, Nat.mod_eq_of_lt hk', Nat.div_eq_of_lt hk']
  simp [geo]

end C01.Emu.Copy
namespace C01.Emu.Copy
open C03V

theorem spawn_row (s : Nat) : C08.spawn (s, 1, 1) = (List.range s).map fun x => (x, 0, 0) := by
  simp [C08.spawn, show List.range 1 = [0] from rfl]

theorem or_next_bit (k : Nat) : (2 ^ k - 1) ||| (1 <<< k) = 2 ^ (k + 1) - 1 := by
  have hlt : 2 ^ k - 1 < 2 ^ k := by have := Nat.pow_pos (a := 2) (n := k) (by decide); omega
  have h := Nat.shiftLeft_add_eq_or_of_lt (i := k) hlt 1
  rw [Nat.or_comm, ← h, Nat.one_shiftLeft, Nat.pow_succ]
  have := Nat.pow_pos (a := 2) (n := k) (by decide)
  omega

theorem formRev_row (k : Nat) (hk : k + 1 ≤ 64) :
    C08.formWfsRev 64 1 ((List.range (k + 1)).map fun x => (x, 0, 0)) = [⟨0, 2 ^ (k + 1) - 1, k + 1⟩] := by
  induction k with
  | zero => rfl
  | succ k ih =>
    unfold C08.formWfsRev at ih ⊢
    rw [List.range_succ, List.map_append, List.foldl_append, ih (by omega)]
    simp only [List.map_cons, List.map_nil, List.foldl_cons, List.foldl_nil, C08.formStep, C08.flatId]
    have h1 : (0 * 64 * 1 + 0 * 64 + (k + 1)) = k + 1 := by omega
    have h2 : (k + 1) / 64 = 0 / 64 := by rw [Nat.div_eq_of_lt (by omega)]
    simp only [h1, h2, ne_eq, not_true_eq_false, if_false, Nat.mod_eq_of_lt (show k + 1 < 64 by omega), or_next_bit]

/-- a work-group row of `s ≤ 64` items forms one wavefront with the low `s` lanes enabled -/
theorem formWfs_row (s : Nat) (h1 : 1 ≤ s) (h2 : s ≤ 64) :
    C08.formWfs 64 1 (C08.spawn (s, 1, 1)) = [⟨0, 2 ^ s - 1, s⟩] := by
  obtain ⟨k, rfl⟩ : ∃ k, s = k + 1 := ⟨s - 1, by omega⟩
  unfold C08.formWfs
  rw [spawn_row, formRev_row k h2]
  rfl

end C01.Emu.Copy
namespace C01.Emu.Copy
open C03V

/-- the dispatch `EnqueueMemCopyD2D` creates for `copyKernel` (flags as the loader reads them from memcopy.hsaco) -/
def disp (c : Cfg) (kernarg packet : List Nat) : Dispatch :=
  { geo := geo c.G, kernelObject := c.co, entry := 0, kernargAddr := c.ka, kernarg := kernarg,
    packetAddr := c.pa, packet := packet,
    privSegBuf := true, dispatchPtr := true, queuePtr := false, kernargPtr := true, dispatchID := false,
    flatScratch := false, privSegSize := false, wgCountX := false, wgCountY := false, wgCountZ := false,
    wgIDX := true, wgIDY := false, wgIDZ := false, v5 := false, vgprWI := 0 }

theorem sgprInit_disp (c : Cfg) (ka pk : List Nat) (k : Nat) :
    sgprInit (disp c ka pk) (k, 0, 0) =
      [(4, c.pa % two32), (5, c.pa / two32 % two32), (6, c.ka % two32), (7, c.ka / two32 % two32), (8, k % two32)] := rfl

/-- the state a wavefront of work-group `k` starts in, running on memory `m` and LDS `l` -/
def wave0 (c : Cfg) (ka pk : List Nat) (k s : Nat) : Wave :=
  initWave (disp c ka pk) ⟨(k, 0, 0), (s, 1, 1)⟩ ⟨0, 2 ^ s - 1, s⟩

theorem foldl_set_size (l : List (Nat × Nat)) (a : Array Nat) :
    (l.foldl (fun a p => a.setIfInBounds p.1 p.2) a).size = a.size := by
  induction l generalizing a with
  | nil => rfl
  | cons p ps ih => rw [List.foldl_cons, ih, Array.size_setIfInBounds]

theorem initWave_ssz (D : Dispatch) (wg : C08.WG) (wf : C08.Wf) : (initWave D wg wf).st.s.size = 128 := by
  unfold initWave
  simp only [foldl_set_size, Array.size_replicate]

theorem initWave_vsz (D : Dispatch) (wg : C08.WG) (wf : C08.Wf) : (initWave D wg wf).st.v.size = 16384 := by
  unfold initWave
  simp only [Array.size_ofFn]

theorem initWave_rv0 (D : Dispatch) (wg : C08.WG) (wf : C08.Wf) (lane : Nat) (hl : lane < 64) :
    (initWave D wg wf).st.rv 0 lane = vgprInit D wf.first 0 lane := by
  unfold St.rv initWave
  simp only [Array.getD_eq_getD_getElem?, Array.getElem?_ofFn]
  have h1 : 0 * 64 + lane < 256 * 64 := by omega
  have h2 : 0 * 64 + lane < 3 * 64 := by omega
  have h3 : (0 * 64 + lane) / 64 = 0 := by omega
  have h4 : (0 * 64 + lane) % 64 = lane := by omega
  simp only [h1, dite_true, Option.getD_some, h2, if_true, h3, h4]

theorem wave0_rs (c : Cfg) (ka pk : List Nat) (k s i : Nat) :
    (wave0 c ka pk k s).st.rs i = if i = 8 then k % two32 else if i = 7 then c.ka / two32 % two32 else if i = 6 then c.ka % two32
      else if i = 5 then c.pa / two32 % two32 else if i = 4 then c.pa % two32 else 0 := by
  unfold St.rs wave0 initWave
  simp only [sgprInit_disp, List.foldl_cons, List.foldl_nil]
  rw [getD_setIfInBounds, getD_setIfInBounds, getD_setIfInBounds, getD_setIfInBounds, getD_setIfInBounds]
  simp only [Array.size_setIfInBounds, Array.size_replicate]
  by_cases h8 : i = 8
  · subst h8; simp
  by_cases h7 : i = 7
  · subst h7; simp
  by_cases h6 : i = 6
  · subst h6; simp
  by_cases h5 : i = 5
  · subst h5; simp
  by_cases h4 : i = 4
  · subst h4; simp
  have e8 : ¬ 8 = i := fun e => h8 e.symm
  have e7 : ¬ 7 = i := fun e => h7 e.symm
  have e6 : ¬ 6 = i := fun e => h6 e.symm
  have e5 : ¬ 5 = i := fun e => h5 e.symm
  have e4 : ¬ 4 = i := fun e => h4 e.symm
  simp only [h8, h7, h6, h5, h4, e8, e7, e6, e5, e4, false_and, if_false]
  rw [Array.getD_eq_getD_getElem?, Array.getElem?_replicate]
  split <;> rfl

theorem wave0_pc (c : Cfg) (ka pk : List Nat) (k s : Nat) : (wave0 c ka pk k s).st.pc = c.co := Nat.add_zero _
theorem wave0_exec (c : Cfg) (ka pk : List Nat) (k s : Nat) : (wave0 c ka pk k s).st.exec = 2 ^ s - 1 := rfl
theorem wave0_completed (c : Cfg) (ka pk : List Nat) (k s : Nat) : (wave0 c ka pk k s).completed = false := rfl

theorem wave0_rv0 (c : Cfg) (ka pk : List Nat) (k s lane : Nat) (hl : lane < 64) :
    (wave0 c ka pk k s).st.rv 0 lane = lane := by
  unfold wave0
  rw [initWave_rv0 _ _ _ lane hl]
  show (C08.laneRegs false 0 (C08.decodeId 64 1 (0 + lane))).1 = lane
  simp only [C08.laneRegs, C08.decodeId, Bool.false_eq_true, if_false]
  omega

theorem wave0_tracks (c : Cfg) (ka pk : List Nat) (k s : Nat) (m l : Mem)
    (hpa : c.pa < 2 ^ 64) (hka : c.ka < 2 ^ 64) (hk : k < 2 ^ 32) :
    ∃ t, Tracks { (wave0 c ka pk k s).st with mem := m, lds := l } t ∧ t.pc = c.co ∧ t.exec = 2 ^ s - 1 ∧
      t.s4 = c.pa % 2 ^ 32 ∧ t.s5 = c.pa / 2 ^ 32 ∧ t.s6 = c.ka % 2 ^ 32 ∧ t.s7 = c.ka / 2 ^ 32 ∧ t.s8 = k ∧
      (∀ lane, lane < 64 → t.v0 lane = lane) ∧ t.mem = get m := by
  have hpc := wave0_pc c ka pk k s
  have hexec := wave0_exec c ka pk k s
  have hssz : (wave0 c ka pk k s).st.s.size = 128 := initWave_ssz _ _ _
  have hvsz : (wave0 c ka pk k s).st.v.size = 16384 := initWave_vsz _ _ _
  have hrs := wave0_rs c ka pk k s
  have hrv0 := wave0_rv0 c ka pk k s
  generalize wave0 c ka pk k s = w at hpc hexec hssz hvsz hrs hrv0 ⊢
  refine ⟨{ pc := c.co, exec := 2 ^ s - 1, vcc := w.st.vcc, s0 := w.st.rs 0, s1 := w.st.rs 1, s2 := w.st.rs 2, s3 := w.st.rs 3,
            s4 := w.st.rs 4, s5 := w.st.rs 5, s6 := w.st.rs 6, s7 := w.st.rs 7, s8 := w.st.rs 8,
            v0 := w.st.rv 0, v1 := w.st.rv 1, v2 := w.st.rv 2, v3 := w.st.rv 3, mem := get m }, ?_, rfl, rfl, ?_, ?_, ?_, ?_, ?_, ?_, rfl⟩
  · refine ⟨{ pc := c.co, exec := 2 ^ s - 1, vcc := w.st.vcc, rs := w.st.rs, rv := w.st.rv, mem := get m },
      sorry,
      rfl, rfl, rfl, ?_, ?_, fun _ => rfl⟩
    · clear hrs hrv0 hpc hexec hssz hvsz hpa hka hk
      intro i hi
      match i, hi with
      | 0, _ => rfl | 1, _ => rfl | 2, _ => rfl | 3, _ => rfl | 4, _ => rfl | 5, _ => rfl | 6, _ => rfl | 7, _ => rfl | 8, _ => rfl
      | (n + 9), h => exact absurd h (by omega)
    · sorry
  all_goals sorry
end C01.Emu.Copy
