import MgpuProofs.C01Insts
set_option linter.unusedSimpArgs false
set_option linter.unusedVariables false
namespace C01
namespace Emu
open C03V
/-- S_LOAD_DWORD{,X2,X4} s[sd:sd+n-1], s[sb:sb+1], off -/
theorem step_smem (P : Program) (hP : P.cdna3 = false) (base k op n sd sb off : Nat) (hn0 : 0 < n) (hsd : sd + n ≤ 102) (hsb : sb ≤ 100)
    (hd : DecV ((P.code.drop k).take 8) 5 op 8) (name : String)
    (hex : ∀ st, exec false st (((P.code.drop k).take 8).take 8) =
      some (name, (List.range n).flatMap fun i => wrS32 st (sd + i) (st.memRead (sAddr st sb off + 4 * i) 4)))
    (st : St) (V : View) (h : Sees st V) (hpc : V.pc = base + k) (a : Nat)
    (ha : V.rs sb + V.rs (sb + 1) * 2 ^ 32 + off = a) (hnw : a + 4 * n ≤ 2 ^ 64) :
    ∃ st', step P base st = .ok (st', .next) ∧ Sees st'
      { V with pc := base + k + 8,
               rs := fun j => if sd ≤ j ∧ j < sd + n then rd32 V.mem (a + 4 * (j - sd)) % 2 ^ 32 else V.rs j } := by
  have hpc' : st.pc = base + k := h.pc.trans hpc
  have halt : a < 2 ^ 64 := by clear ha; omega
  have hrange : ∀ i, i < n → a + 4 * i + 4 ≤ 2 ^ 64 := by clear ha; intro i hi; omega
  refine ⟨_, step_vec P hP base k st hpc' 5 op 8 hd (by omega) name _ (hex _), ?_⟩
  generalize hst1 : ({ st with pc := base + k + 8 } : St) = st1
  have h1 : Sees st1 { V with pc := base + k + 8 } := by rw [← hst1]; exact h.setPc _
  have hA : sAddr st1 sb off = a := by
    rw [sAddr_eq st1 sb off hsb, h1.rs sb (by clear ha; omega), h1.rs (sb + 1) (by clear ha; omega)]
    show (V.rs sb + V.rs (sb + 1) * 2 ^ 32 + off) % 2 ^ 64 = a
    rw [ha]
    exact Nat.mod_eq_of_lt halt
  rw [hA]
  clear ha hA
  -- the write list, one cell per destination register
  let W : Nat → List Wr := fun i => [(Cell.s (sd + i), lo32 (rd32 V.mem (a + 4 * i)))]
  have hws : ((List.range n).flatMap fun i => wrS32 st1 (sd + i) (st1.memRead (a + 4 * i) 4)) = (List.range n).flatMap W := by
    apply flatMap_congr'
    intro i hi
    have hi' : i < n := List.mem_range.mp hi
    show wrS32 st1 (sd + i) (st1.memRead (a + 4 * i) 4) = W i
    rw [wrS32_sgpr st1 _ _ (by omega), memRead4 st1 _ (hrange i hi')]
    have : st1.rmem = V.mem := funext h1.mem
    rw [this]
  rw [hws]
  have hcell : ∀ w ∈ (List.range n).flatMap W, ∃ i, i < n ∧ w.1 = Cell.s (sd + i) := by
    intro w hw
    obtain ⟨i, hi, hwi⟩ := List.mem_flatMap.mp hw
    simp only [W, List.mem_cons, List.mem_nil_iff, or_false] at hwi
    exact ⟨i, List.mem_range.mp hi, by rw [hwi]⟩
  have blind : ∀ (p : Cell → Bool), (∀ i, p (.s i) = false) → ∀ d, sel p ((List.range n).flatMap W) d = d := by
    intro p hp d
    apply sel_none
    intro w hw
    obtain ⟨i, _, hi⟩ := hcell w hw
    rw [hi, hp]
  have hml := mem_applyWrs_of_none st1 ((List.range n).flatMap W) (by
    intro w hw
    obtain ⟨i, _, hi⟩ := hcell w hw
    rw [hi])
  refine ⟨by rw [size_s_applyWrs]; exact h1.ssz, by rw [size_v_applyWrs]; exact h1.vsz, ?_, ?_, ?_, ?_, ?_, ?_⟩
  · rw [pc_applyWrs, blind _ (fun _ => rfl)]; exact h1.pc
  · rw [exec_applyWrs, blind _ (fun _ => rfl)]; exact h1.exec
  · rw [vcc_applyWrs, blind _ (fun _ => rfl)]; exact h1.vcc
  · intro j hj
    rw [rs_applyWrs _ _ _ (by rw [h1.ssz]; exact hj)]
    by_cases hin : sd ≤ j ∧ j < sd + n
    · rw [sel_flatMap_single (isS j) W (j - sd) (List.range n) _ List.nodup_range (by
        intro i hi hne w hw
        simp only [W, List.mem_cons, List.mem_nil_iff, or_false] at hw
        rw [hw]
        simp only [isS, beq_eq_false_iff_ne, ne_eq]
        omega)]
      have hm : j - sd ∈ List.range n := List.mem_range.mpr (by omega)
      have hj' : sd + (j - sd) = j := by omega
      rw [if_pos hm]
      show sel (isS j) [(Cell.s (sd + (j - sd)), lo32 (rd32 V.mem (a + 4 * (j - sd))))] (st1.rs j) = _
      rw [hj', sel_cons, sel_nil]
      have hb : isS j (Cell.s j) = true := by simp only [isS, beq_self_eq_true]
      rw [if_pos hb]
      show _ = if sd ≤ j ∧ j < sd + n then rd32 V.mem (a + 4 * (j - sd)) % 2 ^ 32 else V.rs j
      rw [if_pos hin]
      rfl
    · rw [sel_none _ _ _ (by
        intro w hw
        obtain ⟨i, hi, hwi⟩ := hcell w hw
        rw [hwi]
        simp only [isS, beq_eq_false_iff_ne, ne_eq]
        omega)]
      simp only [hin, if_false]
      exact h1.rs j hj
  · intro r l hr hl
    rw [rv_applyWrs _ _ _ _ (by rw [h1.vsz]; omega), blind _ (fun _ => rfl)]
    exact h1.rv r l hr hl
  · intro x
    show (applyWrs st1 _).rmem x = _
    unfold St.rmem
    rw [hml.1]
    exact h1.mem x

end Emu
end C01
