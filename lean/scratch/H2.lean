import MgpuProofs.C01CopyGrid
set_option linter.unusedSimpArgs false
set_option linter.unusedVariables false
set_option maxRecDepth 100000
namespace C01.Emu.Copy
open C03V

/-- every grid point `g < G` is the item `x` of exactly the work-group row it lies in — obtained from
    the C08 partition theorem `items_cover` -/
theorem grid_point (G g : Nat) (hG : 0 < G) (hg : g < G) :
    ∃ k x, k < C08.nwg G 64 ∧ x < rowSize G k ∧ g = 64 * k + x := by
  have hperm := C08.items_cover (geo G) (geo_valid G hG)
  have hmem : ((g, 0, 0) : C08.Coord) ∈ C08.spawn ((geo G).gx, (geo G).gy, (geo G).gz) := by
    rw [C08.mem_spawn]
    exact ⟨hg, Nat.one_pos, Nat.one_pos⟩
  have hin := hperm.mem_iff.mpr hmem
  unfold C08.allItems at hin
  rw [allWGs_geo] at hin
  obtain ⟨w, hw, hit⟩ := List.mem_flatMap.mp hin
  obtain ⟨k, hk, rfl⟩ := List.mem_map.mp hw
  obtain ⟨it, hit1, hit2⟩ := List.mem_map.mp hit
  have hk' := List.mem_range.mp hk
  rw [C08.mem_spawn] at hit1
  obtain ⟨x, y, z⟩ := it
  simp only [C08.globalOf, geo, Prod.mk.injEq] at hit2
  refine ⟨k, x, hk', hit1.1, ?_⟩
  omega

theorem allPairs_mem (c : Cfg) (hG : 0 < c.G) (f0 : Nat → Nat) (p : Nat × Nat) :
    p ∈ allPairs c f0 ↔ ∃ g, g < c.K ∧ p ∈ storePairs (c.dst + 4 * g) (rd32 f0 (c.src + 4 * g) % 2 ^ 32) := by
  unfold allPairs
  constructor
  · intro h
    obtain ⟨k, hk, hp⟩ := List.mem_flatMap.mp h
    have hk' := List.mem_range.mp hk
    obtain ⟨h1, h2, h3⟩ := rowSize_ok c.G k hG hk'
    unfold wavePairs at hp
    obtain ⟨l, hl, hp'⟩ := List.mem_flatMap.mp hp
    obtain ⟨h4, h5⟩ := (mem_exec_lanes c k _ l h2).mp hl
    exact ⟨64 * k + l, by unfold Cfg.K; omega, hp'⟩
  · rintro ⟨g, hg, hp⟩
    have hgG : g < c.G := by unfold Cfg.K at hg; omega
    have hgN : g < c.N := by unfold Cfg.K at hg; omega
    obtain ⟨k, x, hk, hx, rfl⟩ := grid_point c.G g hG hgG
    obtain ⟨h1, h2, h3⟩ := rowSize_ok c.G k hG hk
    apply List.mem_flatMap.mpr
    refine ⟨k, List.mem_range.mpr hk, ?_⟩
    unfold wavePairs
    apply List.mem_flatMap.mpr
    exact ⟨x, (mem_exec_lanes c k _ x h2).mpr ⟨hx, hgN⟩, hp⟩

theorem applyWrites_consistent (ps : List (Nat × Nat)) (a v : Nat) (hall : ∀ p ∈ ps, p.1 = a → p.2 = v) :
    ∀ f, applyWrites ps f a = if (∃ p ∈ ps, p.1 = a) then v else f a := by
  induction ps with
  | nil => intro f; simp [applyWrites]
  | cons p ps ih =>
    intro f
    show applyWrites ps (fun x => if x = p.1 then p.2 else f x) a = _
    rw [ih (fun q hq => hall q (List.mem_cons_of_mem _ hq))]
    by_cases hex : ∃ q ∈ ps, q.1 = a
    · have : ∃ q ∈ p :: ps, q.1 = a := by
        obtain ⟨q, hq, e⟩ := hex
        exact ⟨q, List.mem_cons_of_mem _ hq, e⟩
      rw [if_pos hex, if_pos this]
    · rw [if_neg hex]
      by_cases hp : p.1 = a
      · have : ∃ q ∈ p :: ps, q.1 = a := ⟨p, List.mem_cons_self .., hp⟩
        rw [if_pos this]
        simp only [hp, if_true]
        exact hall p (List.mem_cons_self ..) hp
      · have : ¬ ∃ q ∈ p :: ps, q.1 = a := by
          rintro ⟨q, hq, e⟩
          rcases List.mem_cons.mp hq with rfl | hq'
          · exact hp e
          · exact hex ⟨q, hq', e⟩
        rw [if_neg this]
        have : ¬ a = p.1 := fun e => hp e.symm
        simp [this]

/-- the bytes a lane stores are the bytes it loaded -/
theorem store_bytes (b0 b1 b2 b3 D : Nat) (h0 : b0 < 256) (h1 : b1 < 256) (h2 : b2 < 256) (h3 : b3 < 256)
    (p : Nat × Nat) (hp : p ∈ storePairs D ((b0 + b1 * 2 ^ 8 + b2 * 2 ^ 16 + b3 * 2 ^ 24) % 2 ^ 32)) :
    D ≤ p.1 ∧ p.1 < D + 4 ∧
      p.2 = (if p.1 - D = 0 then b0 else if p.1 - D = 1 then b1 else if p.1 - D = 2 then b2 else b3) := by
  simp only [storePairs, List.mem_cons, List.mem_nil_iff, or_false] at hp
  rcases hp with rfl | rfl | rfl | rfl
  · refine ⟨by simp, by simp, ?_⟩
    simp only [Nat.sub_self, if_true]
    omega
  · refine ⟨by simp, by simp, ?_⟩
    simp only [Nat.add_sub_cancel_left, show ¬ (1 : Nat) = 0 by decide, if_false, if_true]
    omega
  · refine ⟨by simp, by simp, ?_⟩
    simp only [Nat.add_sub_cancel_left, show ¬ (2 : Nat) = 0 by decide, show ¬ (2 : Nat) = 1 by decide, if_false, if_true]
    omega
  · refine ⟨by simp, by simp, ?_⟩
    simp only [Nat.add_sub_cancel_left, show ¬ (3 : Nat) = 0 by decide, show ¬ (3 : Nat) = 1 by decide,
      show ¬ (3 : Nat) = 2 by decide, if_false]
    omega

end C01.Emu.Copy
