import MgpuProofs.C01Copy
import MgpuProofs.Props.C03V
set_option linter.unusedSimpArgs false
namespace C01.Emu
open C03V

theorem maskUpTo_congr (f g : Nat → Bool) (n : Nat) (h : ∀ l, l < n → f l = g l) : maskUpTo f n = maskUpTo g n := by
  induction n with
  | zero => rfl
  | succ n ih =>
    simp only [maskUpTo]
    rw [ih (fun l hl => h l (by omega)), h n (by omega)]

theorem sel_wrV32 (r l D d old : Nat) (hl : l < 64) :
    sel (isV (r * 64 + l)) (wrV D l 32 d) old = if r = D then lo32 d else old := by
  simp only [wrV, show ((32 : Nat) == 64) = false from rfl, Bool.false_eq_true, if_false, sel_cons, sel_nil, isV]
  by_cases h : r = D
  · subst h; simp
  · have : ¬ D * 64 = r * 64 := by omega
    simp [h, this]

theorem sel_wrV64 (r l D d old : Nat) (hl : l < 64) :
    sel (isV (r * 64 + l)) (wrV D l 64 d) old =
      if r = D + 1 then d / 2 ^ 32 % 2 ^ 32 else if r = D then lo32 d else old := by
  simp only [wrV, show ((64 : Nat) == 64) = true from rfl, if_true, sel_cons, sel_nil, isV]
  by_cases h1 : r = D + 1
  · subst h1
    have : ¬ D * 64 = (D + 1) * 64 := by omega
    simp [this]
  · by_cases h : r = D
    · subst h
      have : ¬ (r + 1) * 64 = r * 64 := by omega
      simp [this, h1]
    · have a : ¬ D * 64 = r * 64 := by omega
      have b : ¬ (D + 1) * 64 = r * 64 := by omega
      simp [h, h1, a, b]

namespace Copy

/-- a `Simple` vector-ALU instruction with a 32-bit destination and VCC as mask destination -/
theorem step_valu32 (base k sz ft op : Nat) (hd : DecV (win k) ft op sz) (hft : 4 < ft) (name : String)
    (e : VEnc) (hs : Simple e) (hsd : e.sdst = 106) (hw : e.op.wd = 32) (hvd : e.vdst < 256)
    (st : St) (V : View) (h : Sees st V) (hpc : V.pc = base + k)
    (hex : exec false { st with pc := base + k + sz } ((win k).take sz) =
      some (name, execVALU { st with pc := base + k + sz } e))
    (d : Nat → Nat) (co : Nat → Bool)
    (hO : ∀ l, l < 64 → laneO { st with pc := base + k + sz } e l = ⟨d l, co l⟩) :
    ∃ st', step P base st = .ok (st', .next) ∧ Sees st'
      { V with pc := base + k + sz,
               vcc := if e.op.kind == .plain then V.vcc else maskUpTo (fun l => V.exec.testBit l && co l) 64,
               rv := fun r l => if V.exec.testBit l = true ∧ (e.op.kind == .cmp) = false ∧ r = e.vdst
                                then d l % 2 ^ 32 else V.rv r l } := by
  have hpc' : st.pc = base + k := h.pc.trans hpc
  refine ⟨_, step_vec P rfl base k st hpc' ft op sz hd hft name _ hex, ?_⟩
  generalize hst1 : ({ st with pc := base + k + sz } : St) = st1 at hO ⊢
  have h1 : Sees st1 { V with pc := base + k + sz } := by rw [← hst1]; exact h.setPc _
  obtain ⟨fe, _, fpc, _, fmem, _, frs, fss, fvs, fvcc⟩ := valu_frame st1 e hs hsd
  refine ⟨by rw [fss]; exact h1.ssz, by rw [fvs]; exact h1.vsz, ?_, ?_, ?_, ?_, ?_, ?_⟩
  · rw [fpc]; exact h1.pc
  · rw [fe]; exact h1.exec
  · rw [fvcc]
    split
    · exact h1.vcc
    · apply maskUpTo_congr
      intro l hl
      simp only [laneCo, hO l hl, h1.exec]
  · intro i hi
    rw [frs i (by rw [h1.ssz]; exact hi)]; exact h1.rs i hi
  · intro r l hr hl
    have hb : r * 64 + l < st1.v.size := by rw [h1.vsz]; omega
    rw [rv_valu st1 e hs r l hl hb (by
      intro w hw'
      split at hw'
      · cases hw'
      · rw [hsd, wrMask_vcc] at hw'
        simp only [List.mem_cons, List.mem_nil_iff, or_false] at hw'
        subst hw'; rfl)]
    unfold laneW
    rw [h1.exec, hO l hl, hw]
    simp only
    by_cases hx : V.exec.testBit l = true
    · by_cases hc : (e.op.kind == Kind.cmp) = true
      · simp [hx, hc, h1.rv r l hr hl]
      · have hc' : (e.op.kind == Kind.cmp) = false := by simpa using hc
        simp only [hx, hc', Bool.not_true, Bool.false_eq_true, if_false, sel_wrV32 r l e.vdst (d l) _ hl, true_and]
        by_cases hrd : r = e.vdst
        · simp [hrd, lo32]
        · simp [hrd, h1.rv r l hr hl]
    · simp [hx, h1.rv r l hr hl]
  · intro a
    show (applyWrs st1 (execVALU st1 e)).rmem a = _
    unfold St.rmem
    rw [fmem]
    exact h1.mem a


theorem laneRd_int32 (st : St) (e : VEnc) (l code idx : Nat) (hs : e.sdwa = false) (hty : e.op.ty = Ty.int) :
    laneRd st e l code 32 idx = lo32 (st.src code l 32 e.lit false) := by
  unfold laneRd
  simp [hs, hty, applyMod, show (Ty.int == Ty.f64) = false from rfl, show (Ty.int == Ty.int) = true from rfl]

theorem laneRd_int64 (st : St) (e : VEnc) (l code idx : Nat) (hs : e.sdwa = false) (hty : e.op.ty = Ty.int) :
    laneRd st e l code 64 idx = st.src code l 64 e.lit false % 2 ^ 64 := by
  unfold laneRd
  simp [hs, hty, applyMod, show (Ty.int == Ty.f64) = false from rfl, show (Ty.int == Ty.int) = true from rfl]

theorem src_sgpr (st : St) (c l w lit : Nat) (f : Bool) (hc : c ≤ 101) (hw : w = 32) : st.src c l w lit f = st.rs c := by
  subst hw
  have : ¬ c ≥ 256 := by omega
  simp [St.src, this, hc]

theorem src_vgpr (st : St) (r l lit : Nat) (f : Bool) : st.src (256 + r) l 32 lit f = st.rv r l := by
  simp [St.src]

theorem src_vgpr64 (st : St) (r l lit : Nat) (f : Bool) :
    st.src (256 + r) l 64 lit f = st.rv r l + st.rv (r + 1) l * 2 ^ 32 := by
  simp [St.src]

theorem src_inline (st : St) (c l w lit : Nat) (f : Bool) (h1 : 128 ≤ c) (h2 : c ≤ 192) : st.src c l w lit f = c - 128 := by
  have a : ¬ c ≥ 256 := by omega
  have b : ¬ c ≤ 101 := by omega
  have c1 : ¬ c = 106 := by omega
  have c2 : ¬ c = 107 := by omega
  have c3 : ¬ c = 124 := by omega
  have c4 : ¬ c = 126 := by omega
  have c5 : ¬ c = 127 := by omega
  simp [St.src, a, b, c1, c2, c3, c4, c5, h1, h2]

/-- V_ADD_U32 vD, vcc, sS, vR (VOP2 25) -/
def eAdd (S R D : Nat) : VEnc := { op := co32 "v_add_co_u32" I.addCo, src0 := S, src1 := 256 + R, vdst := D, lit := 0 }

theorem simple_eAdd (S R D : Nat) : Simple (eAdd S R D) := ⟨rfl, Or.inr (Or.inl rfl), rfl⟩

theorem laneO_eAdd (st : St) (S R D l : Nat) (hS : S ≤ 101) :
    laneO st (eAdd S R D) l =
      ⟨(st.rs S % 2 ^ 32 + st.rv R l % 2 ^ 32) % 2 ^ 32, decide (st.rs S % 2 ^ 32 + st.rv R l % 2 ^ 32 ≥ 2 ^ 32)⟩ := by
  have m := addCo_meaning (w32 (lo32 (st.rs S))) (w32 (lo32 (st.rv R l)))
  have e1 : (w32 (lo32 (st.rs S))).toNat = st.rs S % 2 ^ 32 := by simp [w32, lo32]
  have e2 : (w32 (lo32 (st.rv R l))).toNat = st.rv R l % 2 ^ 32 := by simp [w32, lo32]
  rw [e1, e2] at m
  have ha : laneRd st (eAdd S R D) l (eAdd S R D).src0 (eAdd S R D).op.w0 0 = lo32 (st.rs S) := by
    show laneRd st (eAdd S R D) l S 32 0 = _
    rw [laneRd_int32 st _ l _ 0 rfl rfl, src_sgpr st S l 32 _ false hS rfl]
  have hb : laneRd st (eAdd S R D) l (eAdd S R D).src1 (eAdd S R D).op.w1 1 = lo32 (st.rv R l) := by
    show laneRd st (eAdd S R D) l (256 + R) 32 1 = _
    rw [laneRd_int32 st _ l _ 1 rfl rfl, src_vgpr]
  unfold laneO
  rw [ha, hb]
  show (let r := I.addCo (w32 (lo32 (st.rs S))) (w32 (lo32 (st.rv R l))); (⟨r.1.toNat, r.2⟩ : LaneOut)) = _
  simp only [m.1, m.2]
end Copy
end C01.Emu