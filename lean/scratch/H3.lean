import MgpuProofs.C01CopyGrid
set_option linter.unusedSimpArgs false
set_option linter.unusedVariables false
set_option maxRecDepth 100000
namespace C01.Emu.Copy
open C03V

instance (c : Cfg) (a : Nat) : Decidable (c.inDst a) := by unfold Cfg.inDst; infer_instance

theorem pair_spec (c : Cfg) (hG : 0 < c.G) (f0 : Nat → Nat) (hb : ∀ i, i < 4 * c.K → f0 (c.src + i) < 256)
    (p : Nat × Nat) (hp : p ∈ allPairs c f0) : c.inDst p.1 ∧ p.2 = f0 (c.src + (p.1 - c.dst)) := by
  obtain ⟨g, hg, hps⟩ := (allPairs_mem c hG f0 p).mp hp
  have h0 := hb (4 * g) (by omega)
  have h1 := hb (4 * g + 1) (by omega)
  have h2 := hb (4 * g + 2) (by omega)
  have h3 := hb (4 * g + 3) (by omega)
  rw [← Nat.add_assoc] at h1 h2 h3
  unfold rd32 at hps
  obtain ⟨k1, k2, k3⟩ := store_bytes _ _ _ _ _ h0 h1 h2 h3 p hps
  refine ⟨⟨by omega, by omega⟩, ?_⟩
  rw [k3]
  have hj : p.1 - (c.dst + 4 * g) = 0 ∨ p.1 - (c.dst + 4 * g) = 1 ∨ p.1 - (c.dst + 4 * g) = 2 ∨ p.1 - (c.dst + 4 * g) = 3 := by
    omega
  rcases hj with e | e | e | e
  · rw [if_pos e, show p.1 - c.dst = 4 * g by omega]
  · rw [if_neg (by omega), if_pos e, show p.1 - c.dst = 4 * g + 1 by omega, ← Nat.add_assoc]
  · rw [if_neg (by omega), if_neg (by omega), if_pos e, show p.1 - c.dst = 4 * g + 2 by omega, ← Nat.add_assoc]
  · rw [if_neg (by omega), if_neg (by omega), if_neg (by omega), show p.1 - c.dst = 4 * g + 3 by omega, ← Nat.add_assoc]

theorem pair_exists (c : Cfg) (hG : 0 < c.G) (f0 : Nat → Nat) (a : Nat) (ha : c.inDst a) :
    ∃ p ∈ allPairs c f0, p.1 = a := by
  obtain ⟨h1, h2⟩ := ha
  have hg : (a - c.dst) / 4 < c.K := by omega
  have hj : (a - c.dst) % 4 = 0 ∨ (a - c.dst) % 4 = 1 ∨ (a - c.dst) % 4 = 2 ∨ (a - c.dst) % 4 = 3 := by omega
  generalize hx : rd32 f0 (c.src + 4 * ((a - c.dst) / 4)) % 2 ^ 32 = x
  have hmem : ∀ q, q ∈ storePairs (c.dst + 4 * ((a - c.dst) / 4)) x → q ∈ allPairs c f0 :=
    fun q hq => (allPairs_mem c hG f0 q).mpr ⟨_, hg, by rw [hx]; exact hq⟩
  rcases hj with e | e | e | e
  · exact ⟨_, hmem (c.dst + 4 * ((a - c.dst) / 4), x % 256) (by simp [storePairs]), by simp only; omega⟩
  · exact ⟨_, hmem (c.dst + 4 * ((a - c.dst) / 4) + 1, x / 256 % 256) (by simp [storePairs]), by simp only; omega⟩
  · exact ⟨_, hmem (c.dst + 4 * ((a - c.dst) / 4) + 2, x / 65536 % 256) (by simp [storePairs]), by simp only; omega⟩
  · exact ⟨_, hmem (c.dst + 4 * ((a - c.dst) / 4) + 3, x / 16777216 % 256) (by simp [storePairs]), by simp only; omega⟩

/-- the effect of all the wavefronts' writes on the launch image -/
theorem copy_result (c : Cfg) (hG : 0 < c.G) (f0 : Nat → Nat) (hb : ∀ i, i < 4 * c.K → f0 (c.src + i) < 256) (a : Nat) :
    applyWrites (allPairs c f0) f0 a = if c.inDst a then f0 (c.src + (a - c.dst)) else f0 a := by
  by_cases ha : c.inDst a
  · rw [if_pos ha, applyWrites_consistent (allPairs c f0) a (f0 (c.src + (a - c.dst)))
      (fun p hp e => by rw [(pair_spec c hG f0 hb p hp).2, e]), if_pos (pair_exists c hG f0 a ha)]
  · rw [if_neg ha, applyWrites_not_key]
    intro p hp e
    exact ha (e ▸ (pair_spec c hG f0 hb p hp).1)

end C01.Emu.Copy
