import MgpuProofs.C01Valu
open C01.Emu C03V
namespace C01.Emu
theorem dec_t1 (buf : List Nat) (hlen : buf.length = 8) :
    C04.decode false buf = C04.decodeCore C04.lookUp false (C04.le32 buf 0) (some (C04.le32 buf 4)) := by
  unfold C04.decode C04.decodeWith
  rw [if_neg (by omega), if_pos (by omega)]
theorem dec_t2 (w0 : Nat) (w1 : Option Nat) (f : Gen.Format) (row : Gen.Row)
    (hf : C04.matchFormat w0 = some f)
    (hr : C04.lookUp f.ft (C04.extractBits w0 f.opLo f.opHi) = some row) :
    C04.decodeCore C04.lookUp false w0 w1 = C04.decodeRow false f row w0 w1 := by
  unfold C04.decodeCore
  rw [hf]
  simp only
  rw [hr]
theorem dec_t3 (w0 w1 : Nat) (f : Gen.Format) (row : Gen.Row) (hft : f.ft = 0) (hsz : f.size = 4) :
    C04.decodeRow false f row w0 (some w1) =
      match C04.decodeSOP2 { name := row.name, ft := 0, opcode := row.opcode } w0 with
      | .done i => .ok { i with size := 4 }
      | .err => .err
      | .more k => (k w1).setSize 8 := by
  unfold C04.decodeRow
  rw [hsz, hft]
  simp only [show ((4 : Nat) == 8) = false from rfl, Bool.false_eq_true, if_false]
  unfold C04.dec4
  simp only [show ((0 : Nat) == Gen.FT_SOP2) = true from rfl, if_true]
  generalize C04.decodeSOP2 _ _ = r
  cases r <;> rfl
end C01.Emu
namespace C01.Emu
theorem opndCode_setCount (o : C04.Opnd) (n : Nat) : opndCode (some (o.setCount n)) = opndCode (some o) := by
  cases o <;> rfl
theorem opndLit_setCount (o : C04.Opnd) (n : Nat) : opndLit (some (o.setCount n)) = opndLit (some o) := by
  cases o <;> rfl
theorem opndCode_setLit (o : C04.Opnd) (v : Nat) : opndCode (some (C04.setLit o v)) = opndCode (some o) := by
  cases o <;> rfl
theorem setCount_setLit (o : C04.Opnd) (n v : Nat) : (C04.setLit o v).setCount n = C04.setLit (o.setCount n) v := by
  cases o <;> rfl
theorem opndCode_ite (c : Bool) (o : C04.Opnd) (n : Nat) :
    opndCode (some (if c = true then o.setCount n else o)) = opndCode (some o) := by
  cases c <;> simp [opndCode_setCount]
theorem opndLit_ite (c : Bool) (o : C04.Opnd) (n : Nat) :
    opndLit (some (if c = true then o.setCount n else o)) = opndLit (some o) := by
  cases c <;> simp [opndLit_setCount]

theorem sop2_dinst (nm : String) (op w w1 : Nat) (s0 s1 d : C04.Opnd)
    (h0 : C04.getOperand (C04.extractBits w 0 7) = some s0)
    (h1 : C04.getOperand (C04.extractBits w 8 15) = some s1)
    (hd : C04.getOperand (C04.extractBits w 16 22) = some d) :
    ∃ i, (match C04.decodeSOP2 { name := nm, ft := 0, opcode := op } w with
          | .done i => C04.Outcome.ok { i with size := 4 }
          | .err => .err
          | .more k => (k w1).setSize 8) = .ok i ∧ i.ft = 0 ∧ i.opcode = op ∧
      i.size = (if (s0.isLit || s1.isLit) = true then 8 else 4) ∧
      toDInst i = ⟨0, op, opndCode (some d), opndCode (some s0), opndCode (some s1), 0,
        if (s0.isLit || s1.isLit) = true then
          (opndLit (some (C04.setLit s0 w1))).getD ((opndLit (some (C04.setLit s1 w1))).getD 0)
        else (opndLit (some s0)).getD ((opndLit (some s1)).getD 0)⟩ := by
  unfold C04.decodeSOP2
  rw [h0, h1, hd]
  simp only
  generalize C04.containsSub nm "64" = wide
  cases hl : (s0.isLit || s1.isLit)
  · simp only [Bool.false_eq_true, if_false]
    refine ⟨_, rfl, rfl, rfl, rfl, ?_⟩
    simp only [toDInst, opndCode_ite, opndLit_ite]
  · simp only [if_true]
    refine ⟨_, rfl, rfl, rfl, rfl, ?_⟩
    simp only [toDInst, C04.Outcome.setSize, opndCode_ite, opndLit_ite, opndCode_setLit]
    cases wide <;> simp [setCount_setLit, opndLit_setCount]
end C01.Emu
