import MgpuProofs.C01Copy
import MgpuProofs.C01Insts
set_option linter.unusedSimpArgs false
set_option maxRecDepth 100000
namespace C01.Emu.Copy
open C03V

theorem ex0 (st : St) : exec false st [0x2, 0x0, 0x2, 0xc0, 0x4, 0x0, 0x0, 0x0] =
    some ("s_load_dword", (List.range 1).flatMap fun i => wrS32 st (0 + i) (st.memRead (sAddr st 4 4 + 4 * i) 4)) := rfl
theorem ex24 (st : St) : exec false st [0x83, 0x0, 0x2, 0xc0, 0x10, 0x0, 0x0, 0x0] =
    some ("s_load_dword", (List.range 1).flatMap fun i => wrS32 st (2 + i) (st.memRead (sAddr st 6 16 + 4 * i) 4)) := rfl
theorem ex32 (st : St) : exec false st [0x3, 0x0, 0x6, 0xc0, 0x18, 0x0, 0x0, 0x0] =
    some ("s_load_dwordx2", (List.range 2).flatMap fun i => wrS32 st (0 + i) (st.memRead (sAddr st 6 24 + 4 * i) 4)) := rfl
theorem ex64 (st : St) : exec false st [0x3, 0x0, 0xa, 0xc0, 0x0, 0x0, 0x0, 0x0] =
    some ("s_load_dwordx4", (List.range 4).flatMap fun i => wrS32 st (0 + i) (st.memRead (sAddr st 6 0 + 4 * i) 4)) := rfl
theorem ex40 (st : St) : exec false st [0x8, 0x0, 0x0, 0x32] = some ("v_add_co_u32", execVALU st (eAdd 8 0 0)) := rfl
theorem ex48 (st : St) : exec false st [0x0, 0x0, 0x0, 0x32] = some ("v_add_co_u32", execVALU st (eAdd 0 0 0)) := rfl
theorem ex96 (st : St) : exec false st [0x0, 0x0, 0x4, 0x32] = some ("v_add_co_u32", execVALU st (eAdd 0 0 2)) := rfl
theorem ex116 (st : St) : exec false st [0x2, 0x0, 0x0, 0x32] = some ("v_add_co_u32", execVALU st (eAdd 2 0 0)) := rfl
theorem ex100 (st : St) : exec false st [0x3, 0x3, 0x6, 0x38] = some ("v_addc_co_u32", execVALU st (eAddc 3 1 3)) := rfl
theorem ex120 (st : St) : exec false st [0x3, 0x3, 0x2, 0x38] = some ("v_addc_co_u32", execVALU st (eAddc 3 1 1)) := rfl
theorem ex72 (st : St) : exec false st [0x80, 0x2, 0x2, 0x7e] = some ("v_mov_b32", execVALU st (eMov 128 1)) := rfl
theorem ex76 (st : St) : exec false st [0x0, 0x3, 0x4, 0x7e] = some ("v_mov_b32", execVALU st (eMov 256 2)) := rfl
theorem ex92 (st : St) : exec false st [0x1, 0x2, 0x6, 0x7e] = some ("v_mov_b32", execVALU st (eMov 1 3)) := rfl
theorem ex112 (st : St) : exec false st [0x3, 0x2, 0x6, 0x7e] = some ("v_mov_b32", execVALU st (eMov 3 3)) := rfl

def eCmp : VEnc := { op := (vopcTable 196).getD (un32 "" id), src0 := 2, src1 := 256 + 0, vdst := 0, lit := 0 }
theorem ex52 (st : St) : exec false st [0x2, 0x0, 0x88, 0x7d] = some ("v_cmp_gt_i32", execVALU st eCmp) := rfl

def eAshr : VEnc := { op := (vop3Table false 657).getD (un32 "" id), src0 := 128 + 30, src1 := 256 + 1, src2 := 0, vdst := 0 }
theorem ex80 (st : St) : exec false st [0x0, 0x0, 0x91, 0xd2, 0x9e, 0x2, 0x2, 0x0] = some ("v_ashrrev_i64", execVALU st eAshr) := rfl

theorem ex104 (st : St) : exec false st [0x0, 0x0, 0x50, 0xdc, 0x2, 0x0, 0x0, 0x2] =
    some ("load_dword", (activeLanes st).flatMap fun l => wrVN 2 l 1 (st.memRead (gAddr st 2 l) 4)) := rfl
theorem ex128 (st : St) : exec false st [0x0, 0x0, 0x70, 0xdc, 0x0, 0x2, 0x0, 0x0] =
    some ("store_dword", (activeLanes st).flatMap fun l => wrMemBytes (gAddr st 0 l) 4 (st.rvN 2 l 1)) := rfl
theorem wn0 : (win 0).take 8 = [0x2, 0x0, 0x2, 0xc0, 0x4, 0x0, 0x0, 0x0] := by decide
theorem wn24 : (win 24).take 8 = [0x83, 0x0, 0x2, 0xc0, 0x10, 0x0, 0x0, 0x0] := by decide
theorem wn32 : (win 32).take 8 = [0x3, 0x0, 0x6, 0xc0, 0x18, 0x0, 0x0, 0x0] := by decide
theorem wn64 : (win 64).take 8 = [0x3, 0x0, 0xa, 0xc0, 0x0, 0x0, 0x0, 0x0] := by decide
theorem wn40 : (win 40).take 4 = [0x8, 0x0, 0x0, 0x32] := by decide
theorem wn48 : (win 48).take 4 = [0x0, 0x0, 0x0, 0x32] := by decide
theorem wn96 : (win 96).take 4 = [0x0, 0x0, 0x4, 0x32] := by decide
theorem wn116 : (win 116).take 4 = [0x2, 0x0, 0x0, 0x32] := by decide
theorem wn100 : (win 100).take 4 = [0x3, 0x3, 0x6, 0x38] := by decide
theorem wn120 : (win 120).take 4 = [0x3, 0x3, 0x2, 0x38] := by decide
theorem wn72 : (win 72).take 4 = [0x80, 0x2, 0x2, 0x7e] := by decide
theorem wn76 : (win 76).take 4 = [0x0, 0x3, 0x4, 0x7e] := by decide
theorem wn92 : (win 92).take 4 = [0x1, 0x2, 0x6, 0x7e] := by decide
theorem wn112 : (win 112).take 4 = [0x3, 0x2, 0x6, 0x7e] := by decide
theorem wn52 : (win 52).take 4 = [0x2, 0x0, 0x88, 0x7d] := by decide
theorem wn80 : (win 80).take 8 = [0x0, 0x0, 0x91, 0xd2, 0x9e, 0x2, 0x2, 0x0] := by decide
theorem wn104 : (win 104).take 8 = [0x0, 0x0, 0x50, 0xdc, 0x2, 0x0, 0x0, 0x2] := by decide
theorem wn128 : (win 128).take 8 = [0x0, 0x0, 0x70, 0xdc, 0x0, 0x2, 0x0, 0x0] := by decide
end C01.Emu.Copy
