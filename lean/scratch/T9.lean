import MgpuProofs.C01Insts
set_option linter.unusedSimpArgs false
namespace C01.Emu
open C03V
theorem rvN2 (st : St) (r l : Nat) : st.rvN r l 2 = st.rv r l + st.rv (r + 1) l * 2 ^ 32 := by
  unfold St.rvN
  rw [show List.range 2 = [0, 1] from rfl]
  rw [List.foldl_cons, List.foldl_cons, List.foldl_nil]
  rw [Nat.add_zero, Nat.mul_zero, Nat.pow_zero, Nat.mul_one, Nat.zero_add, Nat.mul_one]
theorem rvN1 (st : St) (r l : Nat) : st.rvN r l 1 = st.rv r l := by
  unfold St.rvN
  rw [show List.range 1 = [0] from rfl]
  rw [List.foldl_cons, List.foldl_nil]
  rw [Nat.add_zero, Nat.mul_zero, Nat.pow_zero, Nat.mul_one, Nat.zero_add]

def rd32 (f : Nat → Nat) (a : Nat) : Nat := f a + f (a + 1) * 2 ^ 8 + f (a + 2) * 2 ^ 16 + f (a + 3) * 2 ^ 24

theorem memRead4 (st : St) (a : Nat) (h : a + 4 ≤ 2 ^ 64) : st.memRead a 4 = rd32 st.rmem a := by
  have h0 : (a + 0) % 2 ^ 64 = a := Nat.mod_eq_of_lt (by omega)
  have h1 : (a + 1) % 2 ^ 64 = a + 1 := Nat.mod_eq_of_lt (by omega)
  have h2 : (a + 2) % 2 ^ 64 = a + 2 := Nat.mod_eq_of_lt (by omega)
  have h3 : (a + 3) % 2 ^ 64 = a + 3 := Nat.mod_eq_of_lt (by omega)
  unfold St.memRead leNat rd32
  rw [show List.range 4 = [0, 1, 2, 3] from rfl]
  simp only [List.map_cons, List.map_nil, h0, h1, h2, h3]
  rw [show ∀ (b0 b1 b2 b3 : Nat), [b0, b1, b2, b3].zipIdx = [(b0, 0), (b1, 1), (b2, 2), (b3, 3)] from fun _ _ _ _ => rfl]
  rw [List.foldl_cons, List.foldl_cons, List.foldl_cons, List.foldl_cons, List.foldl_nil]
  show 0 + st.rmem a * 2 ^ (8 * 0) + st.rmem (a + 1) * 2 ^ (8 * 1) + st.rmem (a + 2) * 2 ^ (8 * 2) + st.rmem (a + 3) * 2 ^ (8 * 3) = _
  rw [Nat.mul_zero, Nat.pow_zero, Nat.mul_one, Nat.zero_add, Nat.mul_one]

/-- the FLAT address of a lane on GCN3: the 64-bit VGPR pair, no offset -/
def gAddr (st : St) (va l : Nat) : Nat := ((((st.rvN va l 2 : Nat) : Int) + 0) % (2 ^ 64 : Int)).toNat

theorem gAddr_eq (st : St) (va l : Nat) : gAddr st va l = (st.rv va l + st.rv (va + 1) l * 2 ^ 32) % 2 ^ 64 := by
  unfold gAddr
  rw [rvN2, Int.add_zero]
  generalize st.rv va l + st.rv (va + 1) l * 2 ^ 32 = x
  have : ((2 : Int) ^ 64) = ((2 ^ 64 : Nat) : Int) := by norm_cast
  rw [this, ← Int.natCast_emod, Int.toNat_natCast]
end C01.Emu
