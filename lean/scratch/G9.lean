import MgpuProofs.C01CopyGrid
set_option linter.unusedSimpArgs false
set_option linter.unusedVariables false
set_option maxRecDepth 100000
namespace C01.Emu.Copy
open C03V

/-- admissible memories: agree with the launch image outside the destination range -/
def Ok (c : Cfg) (f0 : Nat → Nat) (m : Mem) : Prop := Agree c f0 (get m)

theorem applyWrites_not_key (ps : List (Nat × Nat)) (f : Nat → Nat) (a : Nat) (h : ∀ p ∈ ps, p.1 ≠ a) :
    applyWrites ps f a = f a := by
  induction ps generalizing f with
  | nil => rfl
  | cons p ps ih =>
    show applyWrites ps (fun x => if x = p.1 then p.2 else f x) a = f a
    rw [ih _ (fun q hq => h q (List.mem_cons_of_mem _ hq))]
    have : ¬ a = p.1 := fun e => h p (List.mem_cons_self ..) e.symm
    simp [this]

theorem testBit_low (s l : Nat) : (2 ^ s - 1).testBit l = decide (l < s) := Nat.testBit_two_pow_sub_one s l

theorem low_mask_lt (s : Nat) (hs : s ≤ 64) : 2 ^ s - 1 < 18446744073709551616 := by
  have h1 : 2 ^ s ≤ 2 ^ 64 := Nat.pow_le_pow_right (by decide) hs
  have h2 : 0 < 2 ^ s := Nat.pow_pos (by decide)
  have h3 : (2 : Nat) ^ 64 = 18446744073709551616 := rfl
  omega

theorem storePairs_keys (a x : Nat) (p : Nat × Nat) (h : p ∈ storePairs a x) : a ≤ p.1 ∧ p.1 < a + 4 := by
  simp only [storePairs, List.mem_cons, List.mem_nil_iff, or_false] at h
  rcases h with rfl | rfl | rfl | rfl <;> (constructor <;> simp only <;> omega)

/-- lanes of the wavefront that store: enabled and in range -/
theorem mem_exec_lanes (c : Cfg) (k s l : Nat) (hs : s ≤ 64) :
    l ∈ lanesOf (execMask c k (2 ^ s - 1)) ↔ l < s ∧ 64 * k + l < c.N := by
  rw [mem_lanesOf]
  constructor
  · rintro ⟨hl, hb⟩
    rw [execMask_bit c k _ l hl, testBit_low] at hb
    simpa using hb
  · rintro ⟨h1, h2⟩
    have hl : l < 64 := by omega
    refine ⟨hl, ?_⟩
    rw [execMask_bit c k _ l hl, testBit_low]
    simp [h1, h2]

theorem wavePairs_keys (c : Cfg) (m : Nat → Nat) (k s : Nat) (hs : s ≤ 64) (hkG : 64 * k + s ≤ c.G)
    (p : Nat × Nat) (h : p ∈ wavePairs c m k (2 ^ s - 1)) : c.inDst p.1 := by
  unfold wavePairs at h
  obtain ⟨l, hl, hp⟩ := List.mem_flatMap.mp h
  obtain ⟨h1, h2⟩ := (mem_exec_lanes c k s l hs).mp hl
  obtain ⟨h3, h4⟩ := storePairs_keys _ _ p hp
  unfold Cfg.inDst Cfg.K
  constructor <;> omega

theorem wavePairs_congr (c : Cfg) (hv : c.Valid) (f0 m : Nat → Nat) (hag : Agree c f0 m) (k s : Nat) (hs : s ≤ 64)
    (hkG : 64 * k + s ≤ c.G) : wavePairs c m k (2 ^ s - 1) = wavePairs c f0 k (2 ^ s - 1) := by
  unfold wavePairs
  apply flatMap_congr'
  intro l hl
  obtain ⟨h1, h2⟩ := (mem_exec_lanes c k s l hs).mp hl
  rw [rd32_agree c f0 m hag]
  intro j hj hin
  refine hv.dSrc _ hin ⟨by omega, ?_⟩
  unfold Cfg.K
  omega

theorem fuel_bound (k s G : Nat) (h : 64 * k + s ≤ G) (hs : 1 ≤ s) (hG : G ≤ 2 ^ 31) :
    64 * k + 64 ≤ 2 ^ 31 ∧ k < 2 ^ 32 := by omega

/-- the wavefront of work-group `k` (row of `s` items) has a write description -/
theorem wave_spec (c : Cfg) (hv : c.Valid) (f0 : Nat → Nat) (himg : Img c f0) (ka pk : List Nat) (k s : Nat)
    (hs1 : 1 ≤ s) (hs64 : s ≤ 64) (hkG : 64 * k + s ≤ c.G) (fuel : Nat) :
    WaveSpec P c.co (fuel + 27) (Ok c f0) (wave0 c ka pk k s) (wavePairs c f0 k (2 ^ s - 1)) := by
  intro m l hok
  obtain ⟨hn, hk32⟩ := fuel_bound k s c.G hkG hs1 hv.g31
  obtain ⟨t, ht, hpc, hexec, h4, h5, h6, h7, h8, hv0, hmem⟩ := wave0_tracks c ka pk k s m l
    (by have := hv.paEnd; omega) (by have := hv.kaEnd; omega) hk32
  have hag : Agree c f0 t.mem := by rw [hmem]; exact hok
  obtain ⟨st', hrun, hmem'⟩ := wave_run c hv f0 himg k (2 ^ s - 1) hn (low_mask_lt s hs64)
    (by
      intro lane hl hb
      rw [testBit_low] at hb
      have : lane < s := by simpa using hb
      omega)
    _ t ht hpc hexec h4 h5 h6 h7 h8 hv0 hag fuel
  have hget : get st'.mem = applyWrites (wavePairs c f0 k (2 ^ s - 1)) (get m) := by
    funext a
    have := hmem' a
    rw [wavePairs_congr c hv f0 t.mem hag k s hs64 hkG, hmem] at this
    exact this
  refine ⟨Wave.mk { st' with mem := [], lds := [] } (Ctl.endpgm == Ctl.endpgm) (Ctl.endpgm == Ctl.barrier),
    st'.mem, st'.lds, ?_, ?_, hget, ?_⟩
  · unfold runWave
    rw [wave0_completed, hrun]
    rfl
  · rfl
  · intro a ha
    show get st'.mem a = f0 a
    rw [hget, applyWrites_not_key _ _ _ (fun p hp e => ha (by rw [← e]; exact wavePairs_keys c f0 k s hs64 hkG p hp))]
    exact hok a ha

end C01.Emu.Copy
