import MgpuProofs.C01Valu
open C01.Emu C03V

namespace C01.Emu

theorem decode_to_sop2 (buf : List Nat) (f : Gen.Format) (row : Gen.Row)
    (hlen : buf.length = 8)
    (hf : C04.matchFormat (C04.le32 buf 0) = some f) (hft : f.ft = 0) (hsz : f.size = 4)
    (hr : C04.lookUp f.ft (C04.extractBits (C04.le32 buf 0) f.opLo f.opHi) = some row) :
    C04.decode false buf =
      match C04.decodeSOP2 { name := row.name, ft := 0, opcode := row.opcode } (C04.le32 buf 0) with
      | .done i => .ok { i with size := 4 }
      | .err => .err
      | .more k => (k (C04.le32 buf 4)).setSize 8 := by
  unfold C04.decode C04.decodeWith
  rw [if_neg (by omega), if_pos (by omega)]
  unfold C04.decodeCore
  simp only [hf, hr]
  unfold C04.decodeRow
  rw [hsz, hft]
  simp only [show ((4 : Nat) == 8) = false from rfl, Bool.false_eq_true, if_false]
  unfold C04.dec4
  simp only [show ((0 : Nat) == Gen.FT_SOP2) = true from rfl, if_true]
  generalize C04.decodeSOP2 _ _ = r
  cases r <;> rfl

end C01.Emu
