import MgpuProofs.C01Valu
open C01.Emu C03V
namespace C01.Emu

theorem toM_sreg (st : St) (n : Nat) : (toM st).sreg n = st.rs n := by
  unfold toM C03S.MState.sreg
  simp only
  by_cases h : n < st.s.size
  · have : List.lookup n ((List.range st.s.size).map fun i => (i, st.rs i)) = some (st.rs n) := by
      generalize st.s.size = k at h
      induction k with
      | zero => omega
      | succ k ih =>
        rw [List.range_succ, List.map_append, List.lookup_append]
        by_cases hk : n < k
        · rw [ih hk]; rfl
        · have : n = k := by omega
          subst this
          have hn : List.lookup n ((List.range n).map fun i => (i, st.rs i)) = none := by
            rw [List.lookup_eq_none_iff]
            intro p hp
            simp only [List.mem_map, List.mem_range] at hp
            obtain ⟨i, hi, rfl⟩ := hp
            simp; omega
          rw [hn]
          simp [List.lookup]
    rw [this]; rfl
  · have : List.lookup n ((List.range st.s.size).map fun i => (i, st.rs i)) = none := by
      rw [List.lookup_eq_none_iff]
      intro p hp
      simp only [List.mem_map, List.mem_range] at hp
      obtain ⟨i, hi, rfl⟩ := hp
      simp; omega
    rw [this]
    have hn : st.s[n]? = none := by rw [Array.getElem?_eq_none_iff]; omega
    simp [St.rs, Array.getD_eq_getD_getElem?, hn]

theorem setS_sreg (m : C03S.MState) (n v k : Nat) : (m.setS n v).sreg k = if k = n then v else m.sreg k := by
  unfold C03S.MState.setS C03S.MState.sreg
  simp only [List.lookup_cons]
  by_cases h : k = n
  · subst h; simp
  · have : (k == n) = false := by simpa using h
    simp only [this, h, if_false]
    congr 1
    induction m.s with
    | nil => rfl
    | cons p ps ih =>
      obtain ⟨pk, pv⟩ := p
      simp only [List.filter_cons]
      by_cases hp : pk = n
      · have h1 : (pk != n) = false := by simp [hp]
        have h2 : (k == pk) = false := by rw [hp]; simpa using h
        simp only [h1, Bool.false_eq_true, if_false, List.lookup_cons, ih, h2]
      · have h1 : (pk != n) = true := by simp [hp]
        simp only [h1, if_true, List.lookup_cons, ih]

theorem ofM_rs (st : St) (m : C03S.MState) (i : Nat) (hi : i < st.s.size) : (ofM st m).rs i = m.sreg i := by
  simp [ofM, St.rs, Array.getD_eq_getD_getElem?, hi]

end C01.Emu
namespace C01.Emu
open C03S in
theorem sem_mul : C03S.specSem ⟨0, 36, 8, 8, 0, 0, 0⟩ = some ⟨32, 32, 32, Spec.s_mul_i32⟩ := rfl

open C03S in
example (M : MState) : execute ⟨32, 32, 32, Spec.s_mul_i32⟩ ⟨0, 36, 8, 8, 0, 0, 0⟩ M =
    some (M.setS 8 ((M.sreg 8 % 2^32) * (M.sreg 0 % 2^32) % 2^32)) := by
  simp [execute, readOpnd, writeOpnd, Spec.s_mul_i32, Spec.ret32n, Spec.lo, Spec.w32, keep, two32]
  trace_state
  sorry
end C01.Emu
