import MgpuProofs.C01Copy
set_option linter.unusedSimpArgs false
namespace C01.Emu
open C03V

theorem sees_ofM {st : St} {V : View} (h : Sees st V) (m : C03S.MState) :
    Sees (ofM st m) { pc := m.pc, exec := m.exec, vcc := m.vcc, rs := m.sreg, rv := V.rv, mem := V.mem } := by
  refine ⟨?_, h.vsz, rfl, rfl, rfl, ?_, ?_, ?_⟩
  · simp [ofM, h.ssz]
  · intro i hi
    exact ofM_rs st m i (by rw [h.ssz]; exact hi)
  · intro r l hr hl
    exact h.rv r l hr hl
  · intro a
    exact h.mem a

theorem toM_of_sees {st : St} {V : View} (h : Sees st V) :
    (toM st).vcc = V.vcc ∧ (toM st).exec = V.exec ∧ (toM st).pc = V.pc ∧ ∀ i, i < 128 → (toM st).sreg i = V.rs i :=
  ⟨h.vcc, h.exec, h.pc, fun i hi => (toM_sreg st i).trans (h.rs i hi)⟩

namespace Copy
open C03S in
theorem sem_wait (x : Nat) : C03S.specSem ⟨4, 12, 0, 0, 0, x, 0⟩ = some ⟨0, 0, 0, Spec.s_waitcnt⟩ := rfl
open C03S in
theorem exe_wait (x : Nat) (M : MState) : execute ⟨0, 0, 0, Spec.s_waitcnt⟩ ⟨4, 12, 0, 0, 0, x, 0⟩ M = some M := by
  simp [execute, Spec.s_waitcnt, Spec.nothing, ScalarOut.nothing]

/-- S_WAITCNT at offset `k` -/
theorem step_wait (base k x : Nat) (hd : DecS (win k) 4 12 4 ⟨4, 12, 0, 0, 0, x, 0⟩) (st : St) (V : View)
    (h : Sees st V) (hpc : V.pc = base + k) :
    ∃ st', step P base st = .ok (st', .next) ∧ Sees st' { V with pc := base + k + 4 } := by
  have hpc' : st.pc = base + k := h.pc.trans hpc
  refine ⟨_, step_scalar P rfl base k st hpc' 4 12 4 _ hd (by omega) (by omega) _ (sem_wait x) _ (exe_wait x _), ?_⟩
  have h1 := sees_ofM (h.setPc (base + k + 4)) (toM { st with pc := base + k + 4 })
  obtain ⟨a, b, c, d⟩ := toM_of_sees (h.setPc (base + k + 4))
  exact h1.congr c b a d (fun _ _ _ _ => rfl) (fun _ => rfl)

/-- the generic shape of a scalar step: the new state is described by the scalar machine's result -/
theorem step_scalar_view (base k ft op sz : Nat) (d : C03S.DInst) (hd : DecS (win k) ft op sz d) (hft : ft ≤ 4)
    (hnb : ¬ (ft = 4 ∧ (op = 10 ∨ op = 1))) (sem : C03S.Sem) (hsem : C03S.specSem d = some sem)
    (st : St) (V : View) (h : Sees st V) (hpc : V.pc = base + k) (m' : C03S.MState)
    (hex : C03S.execute sem d (toM { st with pc := base + k + sz }) = some m') :
    ∃ st', step P base st = .ok (st', .next) ∧
      Sees st' { pc := m'.pc, exec := m'.exec, vcc := m'.vcc, rs := m'.sreg, rv := V.rv, mem := V.mem } := by
  have hpc' : st.pc = base + k := h.pc.trans hpc
  exact ⟨_, step_scalar P rfl base k st hpc' ft op sz d hd hft hnb sem hsem m' hex,
    sees_ofM (h.setPc (base + k + sz)) m'⟩

open C03S in
theorem sem_and : C03S.specSem ⟨0, 12, 0, 0, 255, 0, 0xffff⟩ = some ⟨32, 32, 32, Spec.s_and_b32⟩ := rfl
theorem and_ffff (a : Nat) : (a % 4294967296 % 18446744073709551616 &&& 65535) % 4294967296 = a % 65536 := by
  have h := Nat.and_two_pow_sub_one_eq_mod (a % 4294967296 % 18446744073709551616) 16
  simp only [show (2 : Nat) ^ 16 - 1 = 65535 from rfl, show (2 : Nat) ^ 16 = 65536 from rfl] at h
  rw [h]
  omega

open C03S in
theorem exe_and (M : MState) : ∃ m', execute ⟨32, 32, 32, Spec.s_and_b32⟩ ⟨0, 12, 0, 0, 255, 0, 0xffff⟩ M = some m' ∧
    m'.s = (M.setS 0 (M.sreg 0 % 65536)).s ∧ m'.vcc = M.vcc ∧ m'.exec = M.exec ∧ m'.pc = M.pc := by
  simp [execute, readOpnd, writeOpnd, Spec.s_and_b32, Spec.logic32, Spec.ret32, Spec.lo, Spec.w32, Spec.bit, keep, C03S.two32, and_ffff]

open C03S in
theorem sem_mul : C03S.specSem ⟨0, 36, 8, 8, 0, 0, 0⟩ = some ⟨32, 32, 32, Spec.s_mul_i32⟩ := rfl
open C03S in
theorem exe_mul (M : MState) : execute ⟨32, 32, 32, Spec.s_mul_i32⟩ ⟨0, 36, 8, 8, 0, 0, 0⟩ M =
    some (M.setS 8 (M.sreg 8 * M.sreg 0 % 4294967296)) := by
  simp [execute, readOpnd, writeOpnd, Spec.s_mul_i32, Spec.ret32n, Spec.lo, Spec.w32, keep, C03S.two32]

open C03S in
theorem sem_saveexec : C03S.specSem ⟨2, 32, 0, 106, 0, 0, 0⟩ = some ⟨64, 64, 0, Spec.s_and_saveexec_b64⟩ := rfl
open C03S in
theorem exe_saveexec (M : MState) (hv : M.vcc < 18446744073709551616) (he : M.exec < 18446744073709551616) :
    ∃ m', execute ⟨64, 64, 0, Spec.s_and_saveexec_b64⟩ ⟨2, 32, 0, 106, 0, 0, 0⟩ M = some m' ∧
    m'.s = ((M.setS 0 (M.exec % 4294967296)).setS 1 (M.exec / 4294967296 % 4294967296)).s ∧
    m'.vcc = M.vcc ∧ m'.exec = M.vcc &&& M.exec ∧ m'.pc = M.pc := by
  simp [execute, readOpnd, writeOpnd, Spec.s_and_saveexec_b64, Spec.saveexec, Spec.bit, keep, C03S.two32]
  rw [Nat.mod_eq_of_lt hv, Nat.mod_eq_of_lt he]
  exact ⟨rfl, rfl⟩

open C03S in
theorem sem_execz : C03S.specSem ⟨4, 8, 0, 0, 0, 18, 0⟩ = some ⟨0, 0, 0, Spec.s_cbranch_execz⟩ := rfl
open C03S in
theorem exe_execz (M : MState) (he : M.exec < 18446744073709551616) (hp : M.pc + 72 < 18446744073709551616) :
    ∃ m', execute ⟨0, 0, 0, Spec.s_cbranch_execz⟩ ⟨4, 8, 0, 0, 0, 18, 0⟩ M = some m' ∧
    m'.s = M.s ∧ m'.vcc = M.vcc ∧ m'.exec = M.exec ∧ m'.pc = if M.exec = 0 then M.pc + 72 else M.pc := by
  have hz : (BitVec.ofNat 64 M.exec = 0#64) ↔ M.exec = 0 := by
    rw [BitVec.toNat_eq]
    simp [Nat.mod_eq_of_lt he]
  by_cases h0 : M.exec = 0
  · have h0' : BitVec.ofNat 64 M.exec = 0#64 := hz.mpr h0
    simp [execute, Spec.s_cbranch_execz, Spec.cbranch, Spec.retPc, Spec.target, Spec.imm64, Spec.nothing, ScalarOut.nothing, h0, h0']
    omega
  · have h0' : ¬ BitVec.ofNat 64 M.exec = 0#64 := fun e => h0 (hz.mp e)
    simp [execute, Spec.s_cbranch_execz, Spec.cbranch, Spec.retPc, Spec.target, Spec.imm64, Spec.nothing, ScalarOut.nothing, h0, h0']
end Copy
end C01.Emu
