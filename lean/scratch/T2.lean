import MgpuModel.C01_Emu
example : C04.containsSub "s_and_b32" "64" = false := by decide
example : C04.containsSub "s_and_b32" "64" = false := by rfl
example : C04.containsSub "s_and_b32" "64" = false := by simp [C04.containsSub]
example : C04.containsSub "s_and_b32" "64" = false := by decide +kernel
example : C04.containsSub "s_and_b32" "64" = false := by with_unfolding_all rfl
#print String.splitOn
