example (c : Nat) (x y : Nat) (h : x % 2^32 + x / 2^32 * 2^32 = y) : c + 8 + 4 = c + 12 := by
  clear * -
  omega
