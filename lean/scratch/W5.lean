import MgpuProofs.C01Track
namespace C01.Emu
example (t : T) (f : Nat → Nat) (a : Nat) (x : Nat) : t.setS 0 (x % 77) = {t with s0 := x % 77} := rfl
end C01.Emu
