import MgpuProofs.C01Copy
import MgpuProofs.C01Track
set_option linter.unusedSimpArgs false
set_option linter.unusedVariables false
set_option maxRecDepth 100000
namespace C01.Emu.Copy
open C03V

structure Cfg where
  co : Nat
  ka : Nat
  pa : Nat
  src : Nat
  dst : Nat
  N : Nat
  G : Nat

def Cfg.K (c : Cfg) : Nat := min c.G c.N
def Cfg.inDst (c : Cfg) (a : Nat) : Prop := c.dst ≤ a ∧ a < c.dst + 4 * c.K

structure Cfg.Valid (c : Cfg) : Prop where
  n31 : c.N < 2 ^ 31
  g31 : c.G ≤ 2 ^ 31
  srcEnd : c.src + 4 * c.K ≤ 2 ^ 64
  dstEnd : c.dst + 4 * c.K ≤ 2 ^ 64
  kaEnd : c.ka + 32 ≤ 2 ^ 64
  paEnd : c.pa + 8 ≤ 2 ^ 64
  coEnd : c.co + 140 < 2 ^ 64
  dSrc : ∀ a, c.inDst a → ¬ (c.src ≤ a ∧ a < c.src + 4 * c.K)
  dKa : ∀ a, c.inDst a → ¬ (c.ka ≤ a ∧ a < c.ka + 32)
  dPa : ∀ a, c.inDst a → ¬ (c.pa + 4 ≤ a ∧ a < c.pa + 8)

structure Img (c : Cfg) (f : Nat → Nat) : Prop where
  wg : rd32 f (c.pa + 4) % 65536 = 64
  n : rd32 f (c.ka + 16) % 2 ^ 32 = c.N
  goff : rd32 f (c.ka + 24) % 2 ^ 32 = 0
  srcLo : rd32 f c.ka % 2 ^ 32 = c.src % 2 ^ 32
  srcHi : rd32 f (c.ka + 4) % 2 ^ 32 = c.src / 2 ^ 32
  dstLo : rd32 f (c.ka + 8) % 2 ^ 32 = c.dst % 2 ^ 32
  dstHi : rd32 f (c.ka + 12) % 2 ^ 32 = c.dst / 2 ^ 32

def Agree (c : Cfg) (f0 m : Nat → Nat) : Prop := ∀ a, ¬ c.inDst a → m a = f0 a

theorem rd32_agree (c : Cfg) (f0 m : Nat → Nat) (h : Agree c f0 m) (a : Nat)
    (hout : ∀ j, j < 4 → ¬ c.inDst (a + j)) : rd32 m a = rd32 f0 a := by
  unfold rd32
  rw [h a (hout 0 (by omega)), h (a + 1) (hout 1 (by omega)), h (a + 2) (hout 2 (by omega)),
    h (a + 3) (hout 3 (by omega))]

theorem split32 (x : Nat) : x % 2 ^ 32 + x / 2 ^ 32 * 2 ^ 32 = x := by
  rw [Nat.mul_comm]; exact Nat.mod_add_div x (2 ^ 32)

theorem Cfg.Valid.pa8 {c : Cfg} (hv : c.Valid) : c.pa + 4 + 4 ≤ 2 ^ 64 := by have := hv.paEnd; omega

theorem blockA (c : Cfg) (hv : c.Valid) (f0 : Nat → Nat) (himg : Img c f0) (n msk : Nat)
    (st : St) (t : T) (h : Tracks st t) (hpc : t.pc = c.co)
    (hs4 : t.s4 = c.pa % 2 ^ 32) (hs5 : t.s5 = c.pa / 2 ^ 32) (hs6 : t.s6 = c.ka % 2 ^ 32)
    (hs7 : t.s7 = c.ka / 2 ^ 32) (hs8 : t.s8 = n) (hag : Agree c f0 t.mem) :
    True := by
  have hpa : t.s 4 + t.s (4 + 1) * 2 ^ 32 + 4 = c.pa + 4 := by
    show t.s4 + t.s5 * 2 ^ 32 + 4 = _
    rw [hs4, hs5, split32]
  obtain ⟨s1, e1, h1⟩ := lift_smem1 P rfl c.co 0 0 0 4 4 (by decide) (by decide) dec0 _
    (fun st => by rw [wn0]; exact ex0 st) st t h (by rw [hpc]; rfl) (c.pa + 4) hpa hv.pa8
  simp only [T.setS_0] at h1
  obtain ⟨s2, e2, h2⟩ := lift_wait P rfl c.co 8 _ dec8 s1 _ h1 rfl
  simp only [] at h2
  obtain ⟨s3, e3, h3⟩ := lift_and_ffff P rfl c.co 12 dec12 s2 _ h2 rfl
  simp only [] at h3
  obtain ⟨s4, e4, h4⟩ := lift_mul P rfl c.co 20 8 8 0 (by decide) (by decide) (by decide) dec20 s3 _ h3 rfl
  trivial
end C01.Emu.Copy
