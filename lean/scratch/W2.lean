example (x : Nat) (h : (fun y => y + 2 ^ 32) x = 0 + x) : True := by
  simp -simprocs only [] at h
  trace_state
  trivial
example (x : Nat) (f : Nat → Nat) : 0 + f x * 2 ^ (8 * 0) + f (x+1) * 2 ^ (8 * 1) = f x + f (x+1) * 256 := by
  simp only []
  trace_state
  sorry
