import MgpuModel.C01_Emu
open C01.Emu

def copyBytes : List Nat := [0x02,0x00,0x02,0xc0,0x04,0x00,0x00,0x00,0x7f,0x00,0x8c,0xbf,0x00,0xff,0x00,0x86,0xff,0xff,0x00,0x00,0x08,0x00,0x08,0x92]

set_option maxRecDepth 100000 in
example : (match C04.decode false ((copyBytes.drop 12).take 8) with | .ok i => (i.ft, i.opcode, i.size, i.src0, i.src1, i.dst) | _ => (99,0,0,none,none,none))
   = (0, 12, 8, some (.reg 0 (Gen.R_S0 + 0) 0), some (.lit 255 0xffff), some (.reg 0 (Gen.R_S0+0) 0)) := by decide +kernel
