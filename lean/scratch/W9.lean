import MgpuProofs.C01CopyWave
set_option linter.unusedSimpArgs false
set_option linter.unusedVariables false
set_option maxRecDepth 100000
namespace C01.Emu.Copy
open C03V

theorem runWf_end {P : Program} {base : Nat} {st st' : St} (h : step P base st = .ok (st', .endpgm)) (f : Nat) :
    runWf P base (f + 1) st = .ok (st', .endpgm) := by
  simp only [runWf, h]

theorem Tracks.rmem {st : St} {t : T} (h : Tracks st t) (a : Nat) : st.rmem a = t.mem a := by
  obtain ⟨V, hV, _, _, _, _, _, e6⟩ := h
  rw [hV.mem a, e6 a]

theorem lanesOf_zero : lanesOf 0 = [] := by
  unfold lanesOf
  rw [List.filter_eq_nil_iff]
  intro l _
  simp

/-- the lanes that pass the bounds test -/
def execMask (c : Cfg) (n msk : Nat) : Nat :=
  maskUpTo (fun l => msk.testBit l && decide (64 * n + l < c.N)) 64 &&& msk

theorem execMask_bit (c : Cfg) (n msk l : Nat) (hl : l < 64) :
    (execMask c n msk).testBit l = (msk.testBit l && decide (64 * n + l < c.N)) := by
  unfold execMask
  rw [Nat.testBit_and, testBit_mask]
  simp only [hl, decide_true, Bool.true_and]
  cases msk.testBit l <;> simp

/-- the byte writes of one wavefront -/
def wavePairs (c : Cfg) (m : Nat → Nat) (n msk : Nat) : List (Nat × Nat) :=
  (lanesOf (execMask c n msk)).flatMap fun l =>
    storePairs (c.dst + 4 * (64 * n + l)) (rd32 m (c.src + 4 * (64 * n + l)) % 2 ^ 32)

/-- one wavefront of the copy kernel, from its initial registers to `S_ENDPGM` -/
theorem wave_run (c : Cfg) (hv : c.Valid) (f0 : Nat → Nat) (himg : Img c f0) (n msk : Nat)
    (hn : 64 * n + 64 ≤ 2 ^ 31) (hmsk : msk < 18446744073709551616)
    (hmskG : ∀ l, l < 64 → msk.testBit l = true → 64 * n + l < c.G)
    (st : St) (t : T) (h : Tracks st t) (hpc : t.pc = c.co) (hexec : t.exec = msk)
    (hs4 : t.s4 = c.pa % 2 ^ 32) (hs5 : t.s5 = c.pa / 2 ^ 32) (hs6 : t.s6 = c.ka % 2 ^ 32)
    (hs7 : t.s7 = c.ka / 2 ^ 32) (hs8 : t.s8 = n) (hv0 : ∀ l, l < 64 → t.v0 l = l) (hag : Agree c f0 t.mem)
    (fuel : Nat) :
    ∃ st', runWf P c.co (fuel + 27) st = .ok (st', .endpgm) ∧
      ∀ a, st'.rmem a = applyWrites (wavePairs c t.mem n msk) t.mem a := by
  obtain ⟨sA, hstA, hA⟩ := blockA c hv f0 himg n msk hn hmsk st t h hpc hexec hs4 hs5 hs6 hs7 hs8 hv0 hag
  by_cases hE : execMask c n msk = 0
  · -- no lane in range: the branch at offset 60 goes to S_ENDPGM
    have hE' : maskUpTo (fun l => msk.testBit l && decide (64 * n + l < c.N)) 64 &&& msk = 0 := hE
    rw [if_pos hE'] at hA
    obtain ⟨sE, eE, hEnd⟩ := lift_endpgm P rfl c.co 136 dec136 sA _ hA rfl
    refine ⟨sE, ?_, ?_⟩
    · rw [show fuel + 27 = (fuel + 14 + 1) + 12 from by omega, runWf_steps hstA, runWf_end eE]
    · intro a
      rw [Tracks.rmem hEnd a]
      show t.mem a = _
      unfold wavePairs
      rw [hE, lanesOf_zero]
      rfl
  · have hE' : ¬ maskUpTo (fun l => msk.testBit l && decide (64 * n + l < c.N)) 64 &&& msk = 0 := hE
    rw [if_neg hE'] at hA
    obtain ⟨sB, tB, hstB, hB, hpcB, hmemB⟩ := blockB c hv f0 himg n (execMask c n msk) hn sA _ hA rfl rfl hs6 hs7
      (by
        intro l hl hx
        rw [execMask_bit c n msk l hl] at hx
        simp only [Bool.and_eq_true, decide_eq_true_eq] at hx
        refine ⟨?_, ?_⟩
        · show (if msk.testBit l = true then 64 * n + l else l) = _
          rw [if_pos hx.1]
        · have := hmskG l hl hx.1
          unfold Cfg.K
          omega)
      hag
    obtain ⟨sE, eE, hEnd⟩ := lift_endpgm P rfl c.co 136 dec136 sB tB hB hpcB
    refine ⟨sE, ?_, ?_⟩
    · rw [show fuel + 27 = (fuel + 1 + 14) + 12 from by omega, runWf_steps hstA, runWf_steps hstB, runWf_end eE]
    · intro a
      rw [Tracks.rmem hEnd a]
      show tB.mem a = _
      rw [hmemB]
      rfl

end C01.Emu.Copy
