import MgpuProofs.C11CpMain
/-! Two facts about every reachable state of the command processor's copy / flush path, used when the CP
is composed with the driver and the DMA engine: an answer to a copy request was produced from the DMA
side's answer to the clone made from that request (`cp_answer_has_clone`), and every answer carries an
accepted request (`cp_answers_are_requests`). -/
namespace C11

attribute [local simp] filterMap_single CpEv.isFwd CpEv.isAck CpEv.cacheIdx? CpEv.flushStart? CpEv.flushDone?
  CpEv.popped? CpEv.clone? CpEv.fwdCid? CpEv.rsp? CpEv.doneOrig? CpEv.dropped

/-- in a list whose `f`-values are its positions, an element sits at the position `f` names -/
theorem getElem?_of_map_eq_range {α} {f : α → Nat} {l : List α} (h : l.map f = List.range l.length) {x : α}
    (hx : x ∈ l) : l[f x]? = some x := by
  obtain ⟨i, hi, rfl⟩ := List.getElem_of_mem hx
  have h1 : (l.map f)[i]? = some (f l[i]) := by simp [hi]
  rw [h, List.getElem?_range hi] at h1
  have : f l[i] = i := by simpa using h1.symm
  rw [this]
  exact List.getElem?_eq_getElem hi

/-- nothing dropped: the clone ids of the clones sent are the clone ids of all forward events -/
theorem clone_cids_eq (l : List CpEv) (hnd : ∀ ev ∈ l, ev.dropped = false) :
    (l.filterMap CpEv.clone?).map (·.cid) = l.filterMap CpEv.fwdCid? := by
  induction l with
  | nil => rfl
  | cons ev l ih =>
    have ih' := ih (fun x hx => hnd x (List.mem_cons_of_mem _ hx))
    have h0 := hnd ev List.mem_cons_self
    cases ev with
    | fwd o c k b =>
      cases b with
      | true => simp [ih']
      | false => simp at h0
    | _ => simp [List.filterMap_cons, ih']

/-- clone ids are positions in the sequence of clones handed to ToDMA -/
theorem CpInvAll.clone_positions {e : CpEnv} (h : CpInvAll e) (hnd : ∀ ev ∈ e.s.log, ev.dropped = false) :
    (e.dmaSeen ++ e.s.dmaOut).map (·.cid) = List.range (e.dmaSeen ++ e.s.dmaOut).length := by
  have h1 : (e.dmaSeen ++ e.s.dmaOut).map (·.cid) = List.range e.s.nextCid := by
    rw [h.copy.clones, clone_cids_eq _ hnd, h.copy.cids]
  have h2 := congrArg List.length h1
  simp only [List.length_map, List.length_range] at h2
  rw [h1, h2]

theorem CpInvAll.answer_has_clone {e : CpEnv} (h : CpInvAll e) (hnd : ∀ ev ∈ e.s.log, ev.dropped = false)
    (m : CpMsg) (hm : m ∈ e.drained ++ e.s.drvOut) (hk : m.kind ≠ .flush) :
    ∃ c, c ∈ e.answered ∧ e.dmaSeen[c]? = some ⟨c, m.id, m.kind⟩ := by
  rw [h.rsp.rsps] at hm
  obtain ⟨ev, hev, he⟩ := List.mem_filterMap.1 hm
  cases ev with
  | done o c k b =>
    cases b with
    | false => simp at he
    | true =>
      simp only [CpEv.rsp?, Option.some.injEq] at he
      subst he
      obtain ⟨pre, post, hdec⟩ := List.append_of_mem hev
      have hfw : CpEv.fwd o c k true ∈ e.s.log := by
        rw [hdec]; exact List.mem_append_left _ (h.copy.done_pre pre post o c k true hdec).1
      have hans := h.copy.done_ans o c k true hev
      obtain ⟨cl, hcl, hcid⟩ := List.mem_map.1 (h.copy.ans_seen c hans)
      have hcl' : cl ∈ e.s.log.filterMap CpEv.clone? := by
        rw [← h.copy.clones]; exact List.mem_append_left _ hcl
      have hfw' := mem_clone_fwd hcl'
      rw [hcid] at hfw'
      obtain ⟨e1, e2, _⟩ := h.copy.fwd_cid_unique hfw' hfw
      have hce : cl = ⟨c, o, k⟩ := by cases cl; simp_all
      subst hce
      refine ⟨c, hans, ?_⟩
      have hp := getElem?_of_map_eq_range (f := CpClone.cid) (h.clone_positions hnd)
        (List.mem_append_left e.s.dmaOut hcl)
      have hlt : c < e.dmaSeen.length := by
        obtain ⟨i, hi, hx⟩ := List.getElem_of_mem hcl
        have hp' : (e.dmaSeen ++ e.s.dmaOut)[i]? = some (⟨c, o, k⟩ : CpClone) := by
          rw [List.getElem?_append_left hi, List.getElem?_eq_getElem hi, hx]
        have hi' : i < (e.dmaSeen ++ e.s.dmaOut).length := by simp; omega
        have hr := congrArg (fun l => l[i]?) (h.clone_positions hnd)
        simp only [List.getElem?_map, hp', Option.map_some, List.getElem?_range hi', Option.some.injEq] at hr
        omega
      rwa [List.getElem?_append_left hlt] at hp
  | flushDone f b =>
    cases b with
    | false => simp at he
    | true =>
      simp only [CpEv.rsp?, Option.some.injEq] at he
      subst he
      exact absurd rfl hk
  | _ => simp at he

theorem CpInvAll.answers_are_requests {e : CpEnv} (h : CpInvAll e) (m : CpMsg) (hm : m ∈ e.drained ++ e.s.drvOut) : e.sent[m.id]? = some m := by
  refine getElem?_of_map_eq_range (f := CpMsg.id) h.pop.ids ?_
  obtain ⟨r, hr, _⟩ := h.pop.popped
  rw [hr]
  refine List.mem_append_left _ ?_
  rw [h.rsp.rsps] at hm
  obtain ⟨ev, hev, he⟩ := List.mem_filterMap.1 hm
  cases ev with
  | done o c k b =>
    cases b with
    | false => simp at he
    | true =>
      simp only [CpEv.rsp?, Option.some.injEq] at he
      subst he
      obtain ⟨pre, post, hdec⟩ := List.append_of_mem hev
      have hfw : CpEv.fwd o c k true ∈ e.s.log := by
        rw [hdec]; exact List.mem_append_left _ (h.copy.done_pre pre post o c k true hdec).1
      exact List.mem_filterMap.2 ⟨_, hfw, rfl⟩
  | flushDone f b =>
    cases b with
    | false => simp at he
    | true =>
      simp only [CpEv.rsp?, Option.some.injEq] at he
      subst he
      obtain ⟨pre, post, hdec⟩ := List.append_of_mem hev
      obtain ⟨q, hq, _⟩ := h.flush.spec
      have hnd' := h.flushDone_nodup
      rw [hdec] at hq hnd'
      obtain ⟨⟨p1, p2, hp, _⟩, _⟩ := accepted_flushDone hq hnd'
      have hst : CpEv.flushStart f ∈ e.s.log := by rw [hdec, hp]; simp
      exact List.mem_filterMap.2 ⟨_, hst, rfl⟩
  | _ => simp at he

theorem reach_nodrop (n cin cdrv cdma ccache : Nat) (ops : List CpOp) :
    ∀ ev ∈ (reachCp n cin cdrv cdma ccache ops).s.log, ev.dropped = false :=
  run_nodrop ops _ (by intro ev hev; cases hev)

/-- **An answer to a copy request comes from the DMA side's answer to the clone of that request.** In
    every reachable state (every configuration, every order of environment moves), every answer `m` the
    CP has handed to ToDriver (taken by the driver or still waiting) that is not a flush answer has a
    clone id `c` such that the DMA side has answered clone `c`, and the `c`-th clone the DMA side took
    from ToDMA has id `c` and was made from request `m.id` with the same kind. -/
theorem cp_answer_has_clone (n cin cdrv cdma ccache : Nat) (ops : List CpOp) :
    let e := reachCp n cin cdrv cdma ccache ops
    ∀ m ∈ e.drained ++ e.s.drvOut, m.kind ≠ .flush →
      ∃ c, c ∈ e.answered ∧ e.dmaSeen[c]? = some ⟨c, m.id, m.kind⟩ := by
  intro e m hm hk
  exact (reach_all n cin cdrv cdma ccache ops).1.answer_has_clone (reach_nodrop n cin cdrv cdma ccache ops) m hm hk

/-- clone ids are positions: the `i`-th clone handed to ToDMA (taken by the DMA side or still waiting)
    has id `i` -/
theorem cp_clone_ids_are_positions (n cin cdrv cdma ccache : Nat) (ops : List CpOp) :
    let e := reachCp n cin cdrv cdma ccache ops
    (e.dmaSeen ++ e.s.dmaOut).map (·.cid) = List.range (e.dmaSeen ++ e.s.dmaOut).length :=
  (reach_all n cin cdrv cdma ccache ops).1.clone_positions (reach_nodrop n cin cdrv cdma ccache ops)

/-- **Every answer carries an accepted request:** in every reachable state, an answer `m` handed to
    ToDriver is the `m.id`-th request the driver port accepted — same id and same kind. -/
theorem cp_answers_are_requests (n cin cdrv cdma ccache : Nat) (ops : List CpOp) :
    let e := reachCp n cin cdrv cdma ccache ops
    ∀ m ∈ e.drained ++ e.s.drvOut, e.sent[m.id]? = some m := by
  intro e m hm
  exact (reach_all n cin cdrv cdma ccache ops).1.answers_are_requests m hm

end C11
