import MgpuProofs.C16Acc
/-! # C16 — per-access liveness: the stages of one access

Where an access is: at the top port (`a ∈ topIn`), waiting in a transaction (`InTx`), forwarded and
in flight (`InFl`), answered (`Ans`). Per stage: the rank (position in its queue, blocked-flag of the
port the stage sends to) and `StageOK`. -/
namespace C16

def InTx (s : St) (a : Acc) : Prop := ∃ t ∈ s.txs, a ∈ t.reqs
def InFl (s : St) (a : Acc) : Prop := ∃ f ∈ s.infl, f.top = a
def Ans (s : St) (a : Acc) : Prop := ∃ l ∈ s.answered, l.top = a
/-- forwarded or beyond -/
def B2 (s : St) (a : Acc) : Prop := InFl s a ∨ Ans s a
/-- accepted or beyond -/
def B1 (s : St) (a : Acc) : Prop := InTx s a ∨ B2 s a

/-! ## what each pipeline function does, case by case -/

theorem respond_nil (c : Cfg) (s : St) (h : s.botIn = []) : respond c s = (s, false) := by
  simp [respond, h]

theorem respond_none (c : Cfg) (s : St) (r : BRsp) (rest : List BRsp) (h : s.botIn = r :: rest)
    (hx : extract r.rspTo s.infl = none) :
    ∃ ev, respond c s = ({ s with botIn := rest, ev := ev }, true) := by
  simp [respond, h, hx]

theorem respond_full (c : Cfg) (s : St) (r : BRsp) (rest : List BRsp) (h : s.botIn = r :: rest)
    (f : Fwd) (l' : List Fwd) (hx : extract r.rspTo s.infl = some (f, l')) (hr : ¬ s.topOut.length < c.width) :
    respond c s = (s, false) := by
  simp [respond, h, hx, hr]

theorem respond_some (c : Cfg) (s : St) (r : BRsp) (rest : List BRsp) (h : s.botIn = r :: rest)
    (f : Fwd) (l' : List Fwd) (hx : extract r.rspTo s.infl = some (f, l')) (hr : s.topOut.length < c.width) :
    ∃ ev, respond c s = ({ s with topOut := s.topOut ++ [⟨f.top.id, r.data⟩], infl := l', botIn := rest, answered := ⟨f.top, f.breq.bid, ⟨f.top.id, r.data⟩, s.epoch⟩ :: s.answered, ev := ev }, true) := by
  simp [respond, h, hx, hr]

theorem translate_nil (c : Cfg) (s : St) (h : s.topIn = []) : translate c s = (s, false) := by
  simp [translate, h]

theorem translate_co (c : Cfg) (s : St) (a : Acc) (rest : List Acc) (h : s.topIn = a :: rest)
    (txs' : List Tx) (hc : coalesce c.lg a s.txs = some txs') :
    ∃ ev, translate c s = ({ s with txs := txs', topIn := rest, received := (a, s.epoch) :: s.received, ev := ev }, true) := by
  simp [translate, h, hc]

theorem translate_new (c : Cfg) (s : St) (a : Acc) (rest : List Acc) (h : s.topIn = a :: rest)
    (hc : coalesce c.lg a s.txs = none) (hr : s.trOut.length < c.width) :
    ∃ ev, translate c s = ({ s with trOut := s.trOut ++ [⟨s.nextT, a.pid, pageId c.lg a.vaddr⟩], txs := s.txs ++ [⟨[a], ⟨s.nextT, a.pid, pageId c.lg a.vaddr⟩, none, false⟩], nextT := s.nextT + 1, topIn := rest, received := (a, s.epoch) :: s.received, asked := ⟨s.nextT, a.pid, pageId c.lg a.vaddr⟩ :: s.asked, askedAt := (s.nextT, s.epoch) :: s.askedAt, ev := ev }, true) := by
  simp [translate, h, hc, hr]

theorem translate_full (c : Cfg) (s : St) (a : Acc) (rest : List Acc) (h : s.topIn = a :: rest)
    (hc : coalesce c.lg a s.txs = none) (hr : ¬ s.trOut.length < c.width) :
    translate c s = (s, false) := by
  simp [translate, h, hc, hr]

/-! ## stage 3: the memory's response is at the bottom port → the access is answered -/

/-- position of the first response to `bid` -/
def posB (bid : Nat) : List BRsp → Nat
  | [] => 0
  | r :: rs => if r.rspTo = bid then 0 else posB bid rs + 1

theorem posB_append (bid : Nat) : ∀ (l l' : List BRsp), (∃ r ∈ l, r.rspTo = bid) →
    posB bid (l ++ l') = posB bid l := by
  intro l
  induction l with
  | nil => intro l' h; obtain ⟨r, hr, _⟩ := h; simp at hr
  | cons x xs ih =>
    intro l' h
    by_cases hx : x.rspTo = bid
    · simp [posB, hx]
    · have : ∃ r ∈ xs, r.rspTo = bid := by
        obtain ⟨r, hr, hb⟩ := h
        rcases List.mem_cons.mp hr with rfl | hr
        · exact absurd hb hx
        · exact ⟨r, hr, hb⟩
      simp [posB, hx, ih l' this]

/-- the access is in flight as request `bid` and the response to `bid` is at the bottom port -/
def P3 (a : Acc) (bid : Nat) (s : St) : Prop :=
  (∃ f ∈ s.infl, f.top = a ∧ f.breq.bid = bid) ∧ ∃ r ∈ s.botIn, r.rspTo = bid

/-- rank: responses ahead at the bottom port, then whether the top port is full -/
def rho3 (c : Cfg) (bid : Nat) (s : St) : Nat :=
  2 * posB bid s.botIn + (if c.width ≤ s.topOut.length then 1 else 0)

/-- helpful move: the requester takes a response if the top port is full, else a tick -/
def hk3 (r : Nat) : Nat := if r % 2 = 1 then 3 else 0

theorem respond_l3 (c : Cfg) (s : St) (a : Acc) (bid : Nat) (hg : GInv c s) (hp : P3 a bid s) :
    (Ans (respond c s).1 a ∨ (P3 a bid (respond c s).1 ∧ rho3 c bid (respond c s).1 < rho3 c bid s)) ∨
    ((respond c s).1 = s ∧ c.width ≤ s.topOut.length) := by
  obtain ⟨⟨f, hf, hfa, hfb⟩, r, hr, hrb⟩ := hp
  cases hb : s.botIn with
  | nil => rw [hb] at hr; simp at hr
  | cons r0 rest =>
    cases hx : extract r0.rspTo s.infl with
    | none =>
      have hne : r0.rspTo ≠ bid := by
        intro h
        have := extract_some_of_mem r0.rspTo s.infl f hf (by rw [hfb, h])
        rw [hx] at this; simp at this
      have hr' : r ∈ rest := by
        rw [hb] at hr
        rcases List.mem_cons.mp hr with rfl | h
        · exact absurd hrb hne
        · exact h
      obtain ⟨ev, he⟩ := respond_none c s r0 rest hb hx
      left; right
      rw [he]
      refine ⟨⟨⟨f, hf, hfa, hfb⟩, r, hr', hrb⟩, ?_⟩
      simp only [rho3, hb, posB, hne, if_false]
      omega
    | some x =>
      obtain ⟨f', l'⟩ := x
      obtain ⟨hf'm, hf'b, _, _⟩ := extract_spec _ _ _ _ hx
      by_cases hroom : s.topOut.length < c.width
      · obtain ⟨ev, he⟩ := respond_some c s r0 rest hb f' l' hx hroom
        left
        rw [he]
        by_cases hne : r0.rspTo = bid
        · left
          have : f' = f := eq_of_nodup_map (fun x : Fwd => x.breq.bid) s.infl
            (show (s.infl.map (fun x : Fwd => x.breq.bid)).Nodup from hg.u.fnd) f' hf'm f hf
            (by show f'.breq.bid = f.breq.bid; rw [hf'b, hfb, hne])
          exact ⟨_, List.mem_cons_self .., by rw [this]; exact hfa⟩
        · right
          have hr' : r ∈ rest := by
            rw [hb] at hr
            rcases List.mem_cons.mp hr with rfl | h
            · exact absurd hrb hne
            · exact h
          have hfl : f ∈ l' := by
            rcases extract_keep _ _ _ _ hx f hf with h | h
            · exact h
            · exfalso; apply hne; rw [← hf'b, ← h, hfb]
          refine ⟨⟨⟨f, hfl, hfa, hfb⟩, r, hr', hrb⟩, ?_⟩
          simp only [rho3, hb, posB, hne, if_false]
          split <;> split <;> omega
      · right
        rw [respond_full c s r0 rest hb f' l' hx hroom]
        exact ⟨rfl, by omega⟩

/-- a function that leaves the in-flight list (up to additions), the bottom port's incoming and the top
    port's outgoing buffer alone respects stage 3 -/
theorem frame3 (c : Cfg) (a : Acc) (bid : Nat) (s s' : St) (h1 : ∀ f ∈ s.infl, f ∈ s'.infl)
    (h2 : s'.botIn = s.botIn) (h3 : s'.topOut = s.topOut) (h4 : ∀ l ∈ s.answered, l ∈ s'.answered) :
    Adv (P3 a bid) (fun s => Ans s a) (rho3 c bid) (· < ·) s s' := by
  refine ⟨fun ⟨l, hl, ha⟩ => ⟨l, h4 l hl, ha⟩, fun hp => Or.inr ⟨?_, Or.inr ?_⟩⟩
  · obtain ⟨⟨f, hf, hfa, hfb⟩, r, hr, hrb⟩ := hp
    exact ⟨⟨f, h1 f hf, hfa, hfb⟩, r, h2 ▸ hr, hrb⟩
  · simp only [rho3, h2, h3]

theorem nat_lt_trans3 : ∀ x y z : Nat, x < y → y < z → x < z := fun _ _ _ => Nat.lt_trans

/-! ### frames: what each function leaves alone -/

theorem parse_frame (c : Cfg) (s : St) :
    (parseTranslation c s).1.topIn = s.topIn ∧ (parseTranslation c s).1.trOut = s.trOut ∧
    (parseTranslation c s).1.botIn = s.botIn ∧ (parseTranslation c s).1.topOut = s.topOut ∧
    (parseTranslation c s).1.answered = s.answered ∧ (∀ f ∈ s.infl, f ∈ (parseTranslation c s).1.infl) := by
  unfold parseTranslation
  repeat' split
  all_goals (refine ⟨rfl, rfl, rfl, rfl, rfl, ?_⟩; intro f hf; simp [emit, hf])

theorem translate_frame (c : Cfg) (s : St) :
    (translate c s).1.infl = s.infl ∧ (translate c s).1.botIn = s.botIn ∧ (translate c s).1.topOut = s.topOut ∧
    (translate c s).1.botOut = s.botOut ∧ (translate c s).1.trIn = s.trIn ∧
    (translate c s).1.answered = s.answered := by
  unfold translate
  repeat' split
  all_goals exact ⟨rfl, rfl, rfl, rfl, rfl, rfl⟩

theorem respond_frame (c : Cfg) (s : St) :
    (respond c s).1.txs = s.txs ∧ (respond c s).1.topIn = s.topIn ∧ (respond c s).1.trIn = s.trIn ∧
    (respond c s).1.trOut = s.trOut ∧ (respond c s).1.botOut = s.botOut := by
  unfold respond
  repeat' split
  all_goals exact ⟨rfl, rfl, rfl, rfl, rfl⟩

theorem frame3' (c : Cfg) (a : Acc) (bid : Nat) (s s' : St) (h1 : ∀ f ∈ s.infl, f ∈ s'.infl)
    (h2 : ∃ l, s'.botIn = s.botIn ++ l) (h3 : s'.topOut.length ≤ s.topOut.length)
    (h4 : ∀ l ∈ s.answered, l ∈ s'.answered) :
    Adv (P3 a bid) (fun s => Ans s a) (rho3 c bid) (· < ·) s s' := by
  refine ⟨fun ⟨l, hl, ha⟩ => ⟨l, h4 l hl, ha⟩, fun hp => Or.inr ?_⟩
  obtain ⟨⟨f, hf, hfa, hfb⟩, r, hr, hrb⟩ := hp
  obtain ⟨l, hl⟩ := h2
  refine ⟨⟨⟨f, h1 f hf, hfa, hfb⟩, r, by rw [hl]; exact List.mem_append_left _ hr, hrb⟩, ?_⟩
  have hpos : posB bid s'.botIn = posB bid s.botIn := by rw [hl]; exact posB_append bid _ _ ⟨r, hr, hrb⟩
  have hle : rho3 c bid s' ≤ rho3 c bid s := by
    simp only [rho3, hpos]
    split <;> split <;> omega
  exact Nat.lt_or_eq_of_le hle

theorem stage3 (c : Cfg) (a : Acc) (bid : Nat) :
    StageOK c (P3 a bid) (fun s => Ans s a) (rho3 c bid) (· < ·) where
  tr := nat_lt_trans3
  fR := by
    intro s hg
    refine ⟨fun ⟨l, hl, ha⟩ => ⟨l, (respond_grow c s).ans l hl, ha⟩, fun hp => ?_⟩
    rcases respond_l3 c s a bid hg hp with (h | ⟨h1, h2⟩) | ⟨h, _⟩
    · exact Or.inl h
    · exact Or.inr ⟨h1, Or.inl h2⟩
    · rw [h]; exact Or.inr ⟨hp, Or.inr rfl⟩
  fP := by
    intro s _
    obtain ⟨_, _, h3, h4, h5, h6⟩ := parse_frame c s
    exact frame3' c a bid _ _ h6 ⟨[], by simp [h3]⟩ (by rw [h4]; exact Nat.le_refl _) (by rw [h5]; exact fun _ h => h)
  fT := by
    intro s _
    obtain ⟨h1, h2, h3, _, _, h6⟩ := translate_frame c s
    exact frame3' c a bid _ _ (by rw [h1]; exact fun _ h => h) ⟨[], by simp [h2]⟩
      (by rw [h3]; exact Nat.le_refl _) (by rw [h6]; exact fun _ h => h)
  env := by
    intro s o ho _ _
    apply frame3'
    all_goals (cases o <;> simp [Op.env] at ho <;> simp only [step] <;> (try split) <;> simp)

theorem kind0 (o : HOp) (h : o.kind = 0) : o = .tick := by cases o <;> simp [HOp.kind] at h; rfl
theorem kind3 (o : HOp) (h : o.kind = 3) : o = .drainTop := by cases o <;> simp [HOp.kind] at h; rfl
theorem kind4 (o : HOp) (h : o.kind = 4) : o = .drainBot := by cases o <;> simp [HOp.kind] at h; rfl
theorem kind5 (o : HOp) (h : o.kind = 5) : o = .drainTr := by cases o <;> simp [HOp.kind] at h; rfl

theorem strict3 {c : Cfg} {e : Env} (hw : 0 < c.width) (a : Acc) (bid : Nat) (w : CW) (hr : Reach c e w)
    (nc : NC w.s) (o : HOp) (_ho : o.noCtl = true) (hk : o.kind = hk3 (rho3 c bid w.s)) :
    AdvS (P3 a bid) (fun s => Ans s a) (rho3 c bid) (· < ·) w.s (hstep c e w o).s := by
  have hg := reach_ginv hr nc
  by_cases hfull : c.width ≤ w.s.topOut.length
  · have h3 : hk3 (rho3 c bid w.s) = 3 := by simp only [hk3, rho3, hfull, if_true]; split <;> omega
    have ho := kind3 o (hk.trans h3)
    subst ho
    cases hq : w.s.topOut with
    | nil => rw [hq] at hfull; simp at hfull; omega
    | cons x l =>
      have hs : (hstep c e w .drainTop).s = { w.s with topOut := l } := by simp [hstep, hq, step]
      rw [hs]
      refine ⟨fun h => h, fun hp => Or.inr ⟨hp, ?_⟩⟩
      have hb := hg.b.top
      rw [hq] at hb hfull
      simp only [List.length_cons] at hb hfull
      simp only [rho3, hq, List.length_cons]
      split <;> omega
  · have h0 : hk3 (rho3 c bid w.s) = 0 := by simp only [hk3, rho3, hfull, if_false]; split <;> omega
    have ho := kind0 o (hk.trans h0)
    subst ho
    rw [hstep_tick_s hr, tick_nc c w.s nc]
    obtain ⟨n, hn⟩ : ∃ n, c.width = n + 1 := ⟨c.width - 1, by omega⟩
    have st := stage3 c a bid
    have first : AdvS (P3 a bid) (fun s => Ans s a) (rho3 c bid) (· < ·) w.s (respond c w.s).1 := by
      refine ⟨fun ⟨l, hl, ha⟩ => ⟨l, (respond_grow c w.s).ans l hl, ha⟩, fun hp => ?_⟩
      rcases respond_l3 c w.s a bid hg hp with h | ⟨_, h⟩
      · exact h
      · omega
    have rest := (RI.trans st.tr (st.riR n (respond c w.s).1)
      (RI.trans st.tr (st.riP c.width _) (st.riT c.width _))) (respond_ginv c _ hg)
    have := first.andThen st.tr rest.2
    rw [hn]
    rw [hn] at this
    exact this

/-! ## nothing is lost on the way: `B1`, `B2` are stable -/

theorem step_frame (c : Cfg) (s : St) (o : Op) (ho : o.env = true) :
    (step c s o).txs = s.txs ∧ (step c s o).infl = s.infl ∧ (step c s o).answered = s.answered := by
  cases o <;> simp [Op.env] at ho <;> simp only [step] <;> refine ⟨?_, ?_, ?_⟩ <;> (try split) <;> first | rfl | trivial

theorem respond_b2 (c : Cfg) (s : St) (a : Acc) (h : B2 s a) : B2 (respond c s).1 a := by
  rcases h with ⟨f, hf, ha⟩ | ⟨l, hl, ha⟩
  case inr => exact Or.inr ⟨l, (respond_grow c s).ans l hl, ha⟩
  cases hb : s.botIn with
  | nil => rw [respond_nil c s hb]; exact Or.inl ⟨f, hf, ha⟩
  | cons r0 rest =>
    cases hx : extract r0.rspTo s.infl with
    | none =>
      obtain ⟨ev, he⟩ := respond_none c s r0 rest hb hx
      rw [he]; exact Or.inl ⟨f, hf, ha⟩
    | some x =>
      obtain ⟨f', l'⟩ := x
      by_cases hroom : s.topOut.length < c.width
      · obtain ⟨ev, he⟩ := respond_some c s r0 rest hb f' l' hx hroom
        rw [he]
        rcases extract_keep _ _ _ _ hx f hf with h | h
        · exact Or.inl ⟨f, h, ha⟩
        · exact Or.inr ⟨_, List.mem_cons_self .., by rw [← h]; exact ha⟩
      · rw [respond_full c s r0 rest hb f' l' hx hroom]; exact Or.inl ⟨f, hf, ha⟩

theorem parse_b2 (c : Cfg) (s : St) (a : Acc) (h : B2 s a) : B2 (parseTranslation c s).1 a := by
  obtain ⟨_, _, _, _, h5, h6⟩ := parse_frame c s
  rcases h with ⟨f, hf, ha⟩ | ⟨l, hl, ha⟩
  · exact Or.inl ⟨f, h6 f hf, ha⟩
  · exact Or.inr ⟨l, by rw [h5]; exact hl, ha⟩

theorem translate_b2 (c : Cfg) (s : St) (a : Acc) (h : B2 s a) : B2 (translate c s).1 a := by
  obtain ⟨h1, _, _, _, _, h6⟩ := translate_frame c s
  rcases h with ⟨f, hf, ha⟩ | ⟨l, hl, ha⟩
  · exact Or.inl ⟨f, by rw [h1]; exact hf, ha⟩
  · exact Or.inr ⟨l, by rw [h6]; exact hl, ha⟩

theorem step_b2 (c : Cfg) (s : St) (o : Op) (ho : o.env = true) (a : Acc) (h : B2 s a) : B2 (step c s o) a := by
  obtain ⟨_, h2, h3⟩ := step_frame c s o ho
  rcases h with ⟨f, hf, ha⟩ | ⟨l, hl, ha⟩
  · exact Or.inl ⟨f, by rw [h2]; exact hf, ha⟩
  · exact Or.inr ⟨l, by rw [h3]; exact hl, ha⟩

/-- `coalesce` keeps every transaction (same lookup, same status) and everything waiting in it -/
theorem coalesce_fwd (lg : Nat) (x : Acc) : ∀ (txs txs' : List Tx), coalesce lg x txs = some txs' →
    ∀ t ∈ txs, ∃ t' ∈ txs', t'.treq = t.treq ∧ t'.done = t.done ∧ ∀ a ∈ t.reqs, a ∈ t'.reqs := by
  intro txs
  induction txs with
  | nil => intro txs' h; simp [coalesce] at h
  | cons t0 ts ih =>
    intro txs' h t ht
    unfold coalesce at h
    split at h
    · injection h with h; subst h
      rcases List.mem_cons.mp ht with rfl | ht
      · exact ⟨_, List.mem_cons_self .., rfl, rfl, fun a ha => List.mem_append_left _ ha⟩
      · exact ⟨t, List.mem_cons_of_mem _ ht, rfl, rfl, fun a ha => ha⟩
    · cases hc : coalesce lg x ts with
      | none => rw [hc] at h; simp at h
      | some ts' =>
        rw [hc] at h; simp at h; subst h
        rcases List.mem_cons.mp ht with rfl | ht
        · exact ⟨t, List.mem_cons_self .., rfl, rfl, fun a ha => ha⟩
        · obtain ⟨t', h1, h2⟩ := ih ts' hc t ht
          exact ⟨t', List.mem_cons_of_mem _ h1, h2⟩

theorem coalesce_has (lg : Nat) (x : Acc) : ∀ (txs txs' : List Tx), coalesce lg x txs = some txs' →
    ∃ t' ∈ txs', x ∈ t'.reqs := by
  intro txs
  induction txs with
  | nil => intro txs' h; simp [coalesce] at h
  | cons t0 ts ih =>
    intro txs' h
    unfold coalesce at h
    split at h
    · injection h with h; subst h
      exact ⟨_, List.mem_cons_self .., by simp⟩
    · cases hc : coalesce lg x ts with
      | none => rw [hc] at h; simp at h
      | some ts' =>
        rw [hc] at h; simp at h; subst h
        obtain ⟨t', h1, h2⟩ := ih ts' hc
        exact ⟨t', List.mem_cons_of_mem _ h1, h2⟩

/-- `popFirst` keeps every transaction and everything waiting, except the head of the popped one -/
theorem popFirst_fwd (p : Tx → Bool) : ∀ (txs : List Tx) (t0 : Tx) (txs' : List Tx),
    popFirst p txs = some (t0, txs') → ∀ t ∈ txs, ∀ a ∈ t.reqs,
    (∃ t' ∈ txs', t'.treq = t.treq ∧ t'.done = t.done ∧ a ∈ t'.reqs) ∨ (t = t0 ∧ t0.reqs.head? = some a) := by
  intro txs
  induction txs with
  | nil => intro t0 txs' h; simp [popFirst] at h
  | cons u us ih =>
    intro t0 txs' h t ht a ha
    unfold popFirst at h
    split at h
    · simp at h
      obtain ⟨h1, h2⟩ := h
      subst h1
      rcases List.mem_cons.mp ht with rfl | ht
      · cases hr : t.reqs with
        | nil => rw [hr] at ha; simp at ha
        | cons a0 tl =>
          rw [hr] at ha
          rcases List.mem_cons.mp ha with rfl | ha
          · right; exact ⟨rfl, by simp⟩
          · left
            have hne : t.reqs.tail ≠ [] := by rw [hr]; intro h; simp at h; rw [h] at ha; simp at ha
            rw [if_neg hne] at h2
            subst h2
            exact ⟨_, List.mem_cons_self .., rfl, rfl, by simp [hr, ha]⟩
      · left
        subst h2
        split
        · exact ⟨t, ht, rfl, rfl, ha⟩
        · exact ⟨t, List.mem_cons_of_mem _ ht, rfl, rfl, ha⟩
    · cases hc : popFirst p us with
      | none => rw [hc] at h; simp at h
      | some y =>
        rw [hc] at h; simp at h
        obtain ⟨h1, h2⟩ := h
        subst h1; subst h2
        rcases List.mem_cons.mp ht with rfl | ht
        · left; exact ⟨t, List.mem_cons_self .., rfl, rfl, ha⟩
        · rcases ih y.1 y.2 (by rw [hc]) t ht a ha with ⟨t', h1, h2⟩ | h
          · left; exact ⟨t', List.mem_cons_of_mem _ h1, h2⟩
          · right; exact h

theorem popFirst_mem0 (p : Tx → Bool) : ∀ (txs : List Tx) (t0 : Tx) (txs' : List Tx),
    popFirst p txs = some (t0, txs') → t0 ∈ txs ∧ p t0 = true := by
  intro txs
  induction txs with
  | nil => intro t0 txs' h; simp [popFirst] at h
  | cons u us ih =>
    intro t0 txs' h
    unfold popFirst at h
    split at h
    · rename_i hp
      simp at h
      rw [← h.1]; exact ⟨List.mem_cons_self .., hp⟩
    · cases hc : popFirst p us with
      | none => rw [hc] at h; simp at h
      | some y =>
        rw [hc] at h; simp at h
        obtain ⟨h1, h2⟩ := ih y.1 y.2 (by rw [hc])
        rw [← h.1]; exact ⟨List.mem_cons_of_mem _ h1, h2⟩

/-- `markFirst` keeps every transaction, its lookup and what waits in it; done stays done -/
theorem markFirst_fwd (p : Tx → Bool) (pa : Nat) : ∀ (txs : List Tx), ∀ t ∈ txs,
    ∃ t' ∈ markFirst p pa txs, t'.treq = t.treq ∧ t'.reqs = t.reqs ∧ (t.done = true → t'.done = true) ∧
      (p t = false → t' = t) := by
  intro txs
  induction txs with
  | nil => intro t h; simp at h
  | cons u us ih =>
    intro t ht
    unfold markFirst
    split
    · rename_i hp
      rcases List.mem_cons.mp ht with rfl | ht
      · exact ⟨_, List.mem_cons_self .., rfl, rfl, fun _ => rfl, fun h => by rw [h] at hp; simp at hp⟩
      · exact ⟨t, List.mem_cons_of_mem _ ht, rfl, rfl, fun h => h, fun _ => rfl⟩
    · rcases List.mem_cons.mp ht with rfl | ht
      · exact ⟨t, List.mem_cons_self .., rfl, rfl, fun h => h, fun _ => rfl⟩
      · obtain ⟨t', h1, h2⟩ := ih t ht
        exact ⟨t', List.mem_cons_of_mem _ h1, h2⟩

/-! ## `parseTranslation`, case by case -/

theorem parse_specA (c : Cfg) (s : St) (t : Tx) (txs' : List Tx)
    (h : popFirst isDrainable s.txs = some (t, txs')) :
    (parseTranslation c s = (s, false) ∧ (c.width ≤ s.botOut.length ∨ t.reqs = [] ∨ t.page = none)) ∨
    ∃ a0 tl p, t.reqs = a0 :: tl ∧ t.page = some p ∧ s.botOut.length < c.width ∧
      parseTranslation c s = (emit c s a0 p txs', true) := by
  cases hr : t.reqs with
  | nil => left; exact ⟨by simp [parseTranslation, h, hr], Or.inr (Or.inl rfl)⟩
  | cons a0 tl =>
    cases hp : t.page with
    | none => left; exact ⟨by simp [parseTranslation, h, hr, hp], Or.inr (Or.inr rfl)⟩
    | some p =>
      by_cases hroom : s.botOut.length < c.width
      · right; exact ⟨a0, tl, p, rfl, rfl, hroom, by simp [parseTranslation, h, hr, hp, hroom]⟩
      · left; exact ⟨by simp [parseTranslation, h, hr, hp, hroom], Or.inl (by omega)⟩

theorem parse_specB (c : Cfg) (s : St) (h : popFirst isDrainable s.txs = none) :
    (s.trIn = [] ∧ parseTranslation c s = (s, false)) ∨
    ∃ r rest, s.trIn = r :: rest ∧
      ((popFirst (hasTid r.rspTo) (markFirst (hasTid r.rspTo) r.paddr s.txs) = none ∧
          ∃ ev, parseTranslation c s = ({ s with trIn := rest, ev := ev }, true)) ∨
       ∃ t txs', popFirst (hasTid r.rspTo) (markFirst (hasTid r.rspTo) r.paddr s.txs) = some (t, txs') ∧
         ((t.reqs = [] ∧
            parseTranslation c s = ({ s with txs := markFirst (hasTid r.rspTo) r.paddr s.txs }, false)) ∨
          ∃ a1 tl, t.reqs = a1 :: tl ∧
            ((s.botOut.length < c.width ∧ ∃ ev,
                parseTranslation c s = ({ emit c s a1 r.paddr txs' with trIn := rest, ev := ev }, true)) ∨
             (¬ s.botOut.length < c.width ∧
                parseTranslation c s = ({ s with txs := markFirst (hasTid r.rspTo) r.paddr s.txs }, false))))) := by
  cases htr : s.trIn with
  | nil => left; exact ⟨rfl, by simp [parseTranslation, h, htr]⟩
  | cons r rest =>
    right
    refine ⟨r, rest, rfl, ?_⟩
    cases hpf : popFirst (hasTid r.rspTo) (markFirst (hasTid r.rspTo) r.paddr s.txs) with
    | none => left; exact ⟨rfl, by simp [parseTranslation, h, htr, hpf]⟩
    | some y =>
      obtain ⟨t, txs'⟩ := y
      right
      refine ⟨t, txs', rfl, ?_⟩
      cases hr : t.reqs with
      | nil => left; exact ⟨rfl, by simp [parseTranslation, h, htr, hpf, hr]⟩
      | cons a1 tl =>
        right
        refine ⟨a1, tl, rfl, ?_⟩
        by_cases hroom : s.botOut.length < c.width
        · left; exact ⟨hroom, by simp [parseTranslation, h, htr, hpf, hr, hroom]⟩
        · right; exact ⟨hroom, by simp [parseTranslation, h, htr, hpf, hr, hroom]⟩

theorem intx_of_fwd {txs txs' : List Tx} {a : Acc}
    (h : ∀ t ∈ txs, ∃ t' ∈ txs', t'.treq = t.treq ∧ t'.reqs = t.reqs ∧ (t.done = true → t'.done = true) ∧
      (hasTid x t = false → t' = t))
    (ha : ∃ t ∈ txs, a ∈ t.reqs) : ∃ t ∈ txs', a ∈ t.reqs := by
  obtain ⟨t, ht, hat⟩ := ha
  obtain ⟨t', h1, _, h3, _⟩ := h t ht
  exact ⟨t', h1, by rw [h3]; exact hat⟩

theorem parse_b1 (c : Cfg) (s : St) (a : Acc) (h : B1 s a) : B1 (parseTranslation c s).1 a := by
  rcases h with ⟨t, ht, hat⟩ | h
  case inr => exact Or.inr (parse_b2 c s a h)
  cases hpf : popFirst isDrainable s.txs with
  | some y =>
    obtain ⟨t0, txs'⟩ := y
    rcases parse_specA c s t0 txs' hpf with ⟨he, _⟩ | ⟨a0, tl, p, hr, _, _, he⟩
    · rw [he]; exact Or.inl ⟨t, ht, hat⟩
    · rw [he]
      rcases popFirst_fwd _ _ _ _ hpf t ht a hat with ⟨t', h1, _, _, h4⟩ | ⟨_, h2⟩
      · exact Or.inl ⟨t', h1, h4⟩
      · rw [hr] at h2; simp at h2
        exact Or.inr (Or.inl ⟨_, by show _ ∈ s.infl ++ [_]; exact List.mem_append_right _ (List.mem_singleton.mpr rfl), h2⟩)
  | none =>
    rcases parse_specB c s hpf with ⟨_, he⟩ | ⟨r, rest, _, hcase⟩
    · rw [he]; exact Or.inl ⟨t, ht, hat⟩
    · have hm := markFirst_fwd (hasTid r.rspTo) r.paddr s.txs
      obtain ⟨tm, htm, _, htr, _⟩ := hm t ht
      have hatm : a ∈ tm.reqs := by rw [htr]; exact hat
      rcases hcase with ⟨_, ev, he⟩ | ⟨t1, txs', hp1, hc2⟩
      · rw [he]; exact Or.inl ⟨t, ht, hat⟩
      · rcases hc2 with ⟨_, he⟩ | ⟨a1, tl, hr1, hc3⟩
        · rw [he]; exact Or.inl ⟨tm, htm, hatm⟩
        · rcases hc3 with ⟨_, ev, he⟩ | ⟨_, he⟩
          · rw [he]
            rcases popFirst_fwd _ _ _ _ hp1 tm htm a hatm with ⟨t', h1, _, _, h4⟩ | ⟨_, h2⟩
            · exact Or.inl ⟨t', h1, h4⟩
            · rw [hr1] at h2; simp at h2
              exact Or.inr (Or.inl ⟨_, by show _ ∈ s.infl ++ [_]; exact List.mem_append_right _ (List.mem_singleton.mpr rfl), h2⟩)
          · rw [he]; exact Or.inl ⟨tm, htm, hatm⟩

theorem respond_b1 (c : Cfg) (s : St) (a : Acc) (h : B1 s a) : B1 (respond c s).1 a := by
  rcases h with ⟨t, ht, hat⟩ | h
  · exact Or.inl ⟨t, by rw [(respond_frame c s).1]; exact ht, hat⟩
  · exact Or.inr (respond_b2 c s a h)

theorem translate_b1 (c : Cfg) (s : St) (a : Acc) (h : B1 s a) : B1 (translate c s).1 a := by
  rcases h with ⟨t, ht, hat⟩ | h
  case inr => exact Or.inr (translate_b2 c s a h)
  cases htop : s.topIn with
  | nil => rw [translate_nil c s htop]; exact Or.inl ⟨t, ht, hat⟩
  | cons x rest =>
    cases hc : coalesce c.lg x s.txs with
    | some txs' =>
      obtain ⟨ev, he⟩ := translate_co c s x rest htop txs' hc
      rw [he]
      obtain ⟨t', h1, _, _, h4⟩ := coalesce_fwd _ _ _ _ hc t ht
      exact Or.inl ⟨t', h1, h4 a hat⟩
    | none =>
      by_cases hroom : s.trOut.length < c.width
      · obtain ⟨ev, he⟩ := translate_new c s x rest htop hc hroom
        rw [he]
        exact Or.inl ⟨t, List.mem_append_left _ ht, hat⟩
      · rw [translate_full c s x rest htop hc hroom]; exact Or.inl ⟨t, ht, hat⟩

theorem step_b1 (c : Cfg) (s : St) (o : Op) (ho : o.env = true) (a : Acc) (h : B1 s a) : B1 (step c s o) a := by
  rcases h with ⟨t, ht, hat⟩ | h
  · exact Or.inl ⟨t, by rw [(step_frame c s o ho).1]; exact ht, hat⟩
  · exact Or.inr (step_b2 c s o ho a h)

/-! ## stage 1: the access is at the top port → it is accepted -/

def posA (a : Acc) : List Acc → Nat
  | [] => 0
  | x :: xs => if x = a then 0 else posA a xs + 1

theorem posA_append (a : Acc) : ∀ (l l' : List Acc), a ∈ l → posA a (l ++ l') = posA a l := by
  intro l
  induction l with
  | nil => intro l' h; simp at h
  | cons x xs ih =>
    intro l' h
    by_cases hx : x = a
    · simp [posA, hx]
    · have : a ∈ xs := by
        rcases List.mem_cons.mp h with rfl | h
        · exact absurd rfl hx
        · exact h
      simp [posA, hx, ih l' this]

def P1 (a : Acc) (s : St) : Prop := a ∈ s.topIn

/-- rank: accesses ahead at the top port, then whether the translation port is full -/
def rho1 (c : Cfg) (a : Acc) (s : St) : Nat :=
  2 * posA a s.topIn + (if c.width ≤ s.trOut.length then 1 else 0)

/-- helpful move: the service takes a lookup if the translation port is full, else a tick -/
def hk1 (r : Nat) : Nat := if r % 2 = 1 then 5 else 0

theorem translate_l1 (c : Cfg) (s : St) (a : Acc) (hp : P1 a s) :
    (B1 (translate c s).1 a ∨ (P1 a (translate c s).1 ∧ rho1 c a (translate c s).1 < rho1 c a s)) ∨
    ((translate c s).1 = s ∧ c.width ≤ s.trOut.length) := by
  cases htop : s.topIn with
  | nil => rw [P1, htop] at hp; simp at hp
  | cons x rest =>
    have hrest : x ≠ a → a ∈ rest := by
      intro hne
      rw [P1, htop] at hp
      rcases List.mem_cons.mp hp with rfl | h
      · exact absurd rfl hne
      · exact h
    cases hc : coalesce c.lg x s.txs with
    | some txs' =>
      obtain ⟨ev, he⟩ := translate_co c s x rest htop txs' hc
      left
      rw [he]
      by_cases hx : x = a
      · left; subst hx
        obtain ⟨t', h1, h2⟩ := coalesce_has _ _ _ _ hc
        exact Or.inl ⟨t', h1, h2⟩
      · right
        refine ⟨hrest hx, ?_⟩
        simp only [rho1, htop, posA, hx, if_false]
        omega
    | none =>
      by_cases hroom : s.trOut.length < c.width
      · obtain ⟨ev, he⟩ := translate_new c s x rest htop hc hroom
        left
        rw [he]
        by_cases hx : x = a
        · left; subst hx
          exact Or.inl ⟨_, List.mem_append_right _ (List.mem_singleton.mpr rfl), by simp⟩
        · right
          refine ⟨hrest hx, ?_⟩
          simp only [rho1, htop, posA, hx, if_false]
          split <;> split <;> omega
      · right
        rw [translate_full c s x rest htop hc hroom]
        exact ⟨rfl, by omega⟩

theorem frame1 (c : Cfg) (a : Acc) (s s' : St) (h1 : ∃ l, s'.topIn = s.topIn ++ l)
    (h2 : s'.trOut.length ≤ s.trOut.length) (h3 : B1 s a → B1 s' a) :
    Adv (P1 a) (fun s => B1 s a) (rho1 c a) (· < ·) s s' := by
  refine ⟨h3, fun hp => Or.inr ?_⟩
  obtain ⟨l, hl⟩ := h1
  refine ⟨by rw [P1, hl]; exact List.mem_append_left _ hp, ?_⟩
  have hpos : posA a s'.topIn = posA a s.topIn := by rw [hl]; exact posA_append a _ _ hp
  have hle : rho1 c a s' ≤ rho1 c a s := by
    simp only [rho1, hpos]
    split <;> split <;> omega
  exact Nat.lt_or_eq_of_le hle

theorem stage1 (c : Cfg) (a : Acc) : StageOK c (P1 a) (fun s => B1 s a) (rho1 c a) (· < ·) where
  tr := nat_lt_trans3
  fR := by
    intro s _
    obtain ⟨_, h2, _, h4, _⟩ := respond_frame c s
    exact frame1 c a _ _ ⟨[], by simp [h2]⟩ (by rw [h4]; exact Nat.le_refl _) (respond_b1 c s a)
  fP := by
    intro s _
    obtain ⟨h1, h2, _⟩ := parse_frame c s
    exact frame1 c a _ _ ⟨[], by simp [h1]⟩ (by rw [h2]; exact Nat.le_refl _) (parse_b1 c s a)
  fT := by
    intro s _
    refine ⟨translate_b1 c s a, fun hp => ?_⟩
    rcases translate_l1 c s a hp with (h | ⟨h1, h2⟩) | ⟨h, _⟩
    · exact Or.inl h
    · exact Or.inr ⟨h1, Or.inl h2⟩
    · rw [h]; exact Or.inr ⟨hp, Or.inr rfl⟩
  env := by
    intro s o ho _ _
    apply frame1 c a _ _ _ _ (step_b1 c s o ho a)
    all_goals (cases o <;> simp [Op.env] at ho <;> simp only [step] <;> (try split) <;> simp)

/-! ## FIFO stage: a lookup in the translation port's outgoing buffer reaches the service -/

theorem translate_trOut (c : Cfg) (s : St) : ∃ l, (translate c s).1.trOut = s.trOut ++ l := by
  unfold translate
  repeat' split
  all_goals first | exact ⟨[], (List.append_nil _).symm⟩ | exact ⟨_, rfl⟩

theorem tick_trOut (c : Cfg) (s : St) (nc : NC s) : ∃ l, (tick c s).1.trOut = s.trOut ++ l := by
  rw [tick_nc c s nc]
  have refl : ∀ s : St, ∃ l, s.trOut = s.trOut ++ l := fun s => ⟨[], (List.append_nil _).symm⟩
  have trans : ∀ a b d : St, (∃ l, b.trOut = a.trOut ++ l) → (∃ l, d.trOut = b.trOut ++ l) →
      ∃ l, d.trOut = a.trOut ++ l := by
    intro a b d ⟨l1, h1⟩ ⟨l2, h2⟩
    exact ⟨l1 ++ l2, by rw [h2, h1, List.append_assoc]⟩
  have r1 := iter_rel (R := fun s s' => ∃ l, s'.trOut = s.trOut ++ l) refl trans
    (fun s => ⟨[], by rw [(respond_frame c s).2.2.2.1]; simp⟩) c.width s
  have r2 := iter_rel (R := fun s s' => ∃ l, s'.trOut = s.trOut ++ l) refl trans
    (fun s => ⟨[], by rw [(parse_frame c s).2.1]; simp⟩) c.width (iter (respond c) c.width s).1
  have r3 := iter_rel (R := fun s s' => ∃ l, s'.trOut = s.trOut ++ l) refl trans
    (fun s => translate_trOut c s) c.width (iter (parseTranslation c) c.width (iter (respond c) c.width s).1).1
  exact trans _ _ _ (trans _ _ _ r1 r2) r3

theorem step_trOut (c : Cfg) (s : St) (o : Op) (ho : o.env = true) (hne : o ≠ .drainTr) :
    (step c s o).trOut = s.trOut := by
  cases o <;> simp [Op.env] at ho <;> simp only [step] <;> (try split) <;> first | rfl | trivial | exact absurd rfl hne

theorem hstep_trOut {c : Cfg} {e : Env} {w : CW} (hr : Reach c e w) (nc : NC w.s) (o : HOp)
    (ho : o.noCtl = true) (hne : o ≠ .drainTr) : ∃ l, (hstep c e w o).s.trOut = w.s.trOut ++ l := by
  rcases hstep_s_cases hr o ho with h | h | ⟨op, h1, _, h, h5, _⟩ <;> rw [h]
  · exact ⟨[], (List.append_nil _).symm⟩
  · exact tick_trOut c _ nc
  · exact ⟨[], by rw [step_trOut c _ op h1 (fun hh => hne (h5 hh))]; simp⟩

theorem hstep_drainTr_cons {c : Cfg} {e : Env} {w : CW} {x : TReq} {l : List TReq} (h : w.s.trOut = x :: l) :
    (hstep c e w .drainTr).s.trOut = l ∧ (hstep c e w .drainTr).envT = w.envT ++ [x] := by
  simp [hstep, h, step]

theorem trOut_until_drain {c : Cfg} {e : Env} {w0 : CW} {sched : Nat → HOp} (h0 : Reach c e w0) (nc0 : NC w0.s)
    (hs : ∀ i, (sched i).noCtl = true) (pre : List TReq) (q : TReq) :
    ∀ d n post, sched (n + d) = .drainTr → (wrun c e w0 sched n).s.trOut = pre ++ q :: post →
      ∃ k post', n ≤ k ∧ sched k = .drainTr ∧ (wrun c e w0 sched k).s.trOut = pre ++ q :: post' := by
  intro d
  induction d with
  | zero => intro n post hd h; exact ⟨n, post, Nat.le_refl _, hd, h⟩
  | succ d ih =>
    intro n post hd h
    by_cases hn : sched n = .drainTr
    · exact ⟨n, post, Nat.le_refl _, hn, h⟩
    · obtain ⟨l, hl⟩ := hstep_trOut (wrun_reach sched h0 n) (wrun_nc h0 nc0 hs n) (sched n) (hs n) hn
      obtain ⟨k, post', h1, h2, h3⟩ := ih (n + 1) (post ++ l) (by rw [← hd]; congr 1; omega)
        (by show (hstep c e (wrun c e w0 sched n) (sched n)).s.trOut = _; rw [hl, h]; simp)
      exact ⟨k, post', by omega, h2, h3⟩

/-- every lookup in the translation port's outgoing buffer reaches the translation service, if the
    service takes a lookup from the port again and again -/
theorem trOut_reaches {c : Cfg} {e : Env} {w0 : CW} {sched : Nat → HOp} (h0 : Reach c e w0) (nc0 : NC w0.s)
    (hs : ∀ i, (sched i).noCtl = true) (fair : ∀ n, ∃ m, n ≤ m ∧ sched m = .drainTr) (q : TReq) :
    ∀ (pre : List TReq) (n : Nat) (post : List TReq), (wrun c e w0 sched n).s.trOut = pre ++ q :: post →
      ∃ m, n ≤ m ∧ q ∈ (wrun c e w0 sched m).envT := by
  intro pre
  induction pre with
  | nil =>
    intro n post h
    obtain ⟨m, hm, hd⟩ := fair n
    obtain ⟨k, post', h1, h2, h3⟩ := trOut_until_drain h0 nc0 hs [] q (m - n) n post
      (by rw [← hd]; congr 1; omega) h
    refine ⟨k + 1, by omega, ?_⟩
    show q ∈ (hstep c e (wrun c e w0 sched k) (sched k)).envT
    rw [h2, (hstep_drainTr_cons (by simpa using h3)).2]
    simp
  | cons x pre ih =>
    intro n post h
    obtain ⟨m, hm, hd⟩ := fair n
    obtain ⟨k, post', h1, h2, h3⟩ := trOut_until_drain h0 nc0 hs (x :: pre) q (m - n) n post
      (by rw [← hd]; congr 1; omega) h
    obtain ⟨m', h4, h5⟩ := ih (k + 1) post' (by
      show (hstep c e (wrun c e w0 sched k) (sched k)).s.trOut = _
      rw [h2, (hstep_drainTr_cons (by simpa using h3)).1])
    exact ⟨m', by omega, h5⟩

/-! ## FIFO stage: a translated request in the bottom port's outgoing buffer reaches the memory -/

theorem parse_botOut (c : Cfg) (s : St) : ∃ l, (parseTranslation c s).1.botOut = s.botOut ++ l := by
  unfold parseTranslation
  repeat' split
  all_goals first | exact ⟨[], (List.append_nil _).symm⟩ | exact ⟨_, rfl⟩

theorem tick_botOut (c : Cfg) (s : St) (nc : NC s) : ∃ l, (tick c s).1.botOut = s.botOut ++ l := by
  rw [tick_nc c s nc]
  have refl : ∀ s : St, ∃ l, s.botOut = s.botOut ++ l := fun s => ⟨[], (List.append_nil _).symm⟩
  have trans : ∀ a b d : St, (∃ l, b.botOut = a.botOut ++ l) → (∃ l, d.botOut = b.botOut ++ l) →
      ∃ l, d.botOut = a.botOut ++ l := by
    intro a b d ⟨l1, h1⟩ ⟨l2, h2⟩
    exact ⟨l1 ++ l2, by rw [h2, h1, List.append_assoc]⟩
  have r1 := iter_rel (R := fun s s' => ∃ l, s'.botOut = s.botOut ++ l) refl trans
    (fun s => ⟨[], by rw [(respond_frame c s).2.2.2.2]; simp⟩) c.width s
  have r2 := iter_rel (R := fun s s' => ∃ l, s'.botOut = s.botOut ++ l) refl trans
    (fun s => parse_botOut c s) c.width (iter (respond c) c.width s).1
  have r3 := iter_rel (R := fun s s' => ∃ l, s'.botOut = s.botOut ++ l) refl trans
    (fun s => ⟨[], by rw [(translate_frame c s).2.2.2.1]; simp⟩) c.width (iter (parseTranslation c) c.width (iter (respond c) c.width s).1).1
  exact trans _ _ _ (trans _ _ _ r1 r2) r3

theorem step_botOut (c : Cfg) (s : St) (o : Op) (ho : o.env = true) (hne : o ≠ .drainBot) :
    (step c s o).botOut = s.botOut := by
  cases o <;> simp [Op.env] at ho <;> simp only [step] <;> (try split) <;> first | rfl | trivial | exact absurd rfl hne

theorem hstep_botOut {c : Cfg} {e : Env} {w : CW} (hr : Reach c e w) (nc : NC w.s) (o : HOp)
    (ho : o.noCtl = true) (hne : o ≠ .drainBot) : ∃ l, (hstep c e w o).s.botOut = w.s.botOut ++ l := by
  rcases hstep_s_cases hr o ho with h | h | ⟨op, h1, _, h, _, h5⟩ <;> rw [h]
  · exact ⟨[], (List.append_nil _).symm⟩
  · exact tick_botOut c _ nc
  · exact ⟨[], by rw [step_botOut c _ op h1 (fun hh => hne (h5 hh))]; simp⟩

theorem hstep_drainBot_cons {c : Cfg} {e : Env} {w : CW} {x : BReq} {l : List BReq} (h : w.s.botOut = x :: l) :
    (hstep c e w .drainBot).s.botOut = l ∧ (hstep c e w .drainBot).envM = w.envM ++ [x] := by
  simp [hstep, h, step]

theorem botOut_until_drain {c : Cfg} {e : Env} {w0 : CW} {sched : Nat → HOp} (h0 : Reach c e w0) (nc0 : NC w0.s)
    (hs : ∀ i, (sched i).noCtl = true) (pre : List BReq) (q : BReq) :
    ∀ d n post, sched (n + d) = .drainBot → (wrun c e w0 sched n).s.botOut = pre ++ q :: post →
      ∃ k post', n ≤ k ∧ sched k = .drainBot ∧ (wrun c e w0 sched k).s.botOut = pre ++ q :: post' := by
  intro d
  induction d with
  | zero => intro n post hd h; exact ⟨n, post, Nat.le_refl _, hd, h⟩
  | succ d ih =>
    intro n post hd h
    by_cases hn : sched n = .drainBot
    · exact ⟨n, post, Nat.le_refl _, hn, h⟩
    · obtain ⟨l, hl⟩ := hstep_botOut (wrun_reach sched h0 n) (wrun_nc h0 nc0 hs n) (sched n) (hs n) hn
      obtain ⟨k, post', h1, h2, h3⟩ := ih (n + 1) (post ++ l) (by rw [← hd]; congr 1; omega)
        (by show (hstep c e (wrun c e w0 sched n) (sched n)).s.botOut = _; rw [hl, h]; simp)
      exact ⟨k, post', by omega, h2, h3⟩

/-- every translated request in the bottom port's outgoing buffer reaches the memory, if the memory
    takes a request from the port again and again -/
theorem botOut_reaches {c : Cfg} {e : Env} {w0 : CW} {sched : Nat → HOp} (h0 : Reach c e w0) (nc0 : NC w0.s)
    (hs : ∀ i, (sched i).noCtl = true) (fair : ∀ n, ∃ m, n ≤ m ∧ sched m = .drainBot) (q : BReq) :
    ∀ (pre : List BReq) (n : Nat) (post : List BReq), (wrun c e w0 sched n).s.botOut = pre ++ q :: post →
      ∃ m, n ≤ m ∧ q ∈ (wrun c e w0 sched m).envM := by
  intro pre
  induction pre with
  | nil =>
    intro n post h
    obtain ⟨m, hm, hd⟩ := fair n
    obtain ⟨k, post', h1, h2, h3⟩ := botOut_until_drain h0 nc0 hs [] q (m - n) n post
      (by rw [← hd]; congr 1; omega) h
    refine ⟨k + 1, by omega, ?_⟩
    show q ∈ (hstep c e (wrun c e w0 sched k) (sched k)).envM
    rw [h2, (hstep_drainBot_cons (by simpa using h3)).2]
    simp
  | cons x pre ih =>
    intro n post h
    obtain ⟨m, hm, hd⟩ := fair n
    obtain ⟨k, post', h1, h2, h3⟩ := botOut_until_drain h0 nc0 hs (x :: pre) q (m - n) n post
      (by rw [← hd]; congr 1; omega) h
    obtain ⟨m', h4, h5⟩ := ih (k + 1) post' (by
      show (hstep c e (wrun c e w0 sched k) (sched k)).s.botOut = _
      rw [h2, (hstep_drainBot_cons (by simpa using h3)).1])
    exact ⟨m', by omega, h5⟩

section mid
variable {β : Type} {P Q : St → Prop} {ρ : St → β} {lt : β → β → Prop}

/-- strictness of a later part of the tick: the earlier part either made it strict already or left the rank as it was -/
theorem Adv.strict_mid (htr : ∀ x y z, lt x y → lt y z → lt x z) {a b d : St}
    (h1 : Adv P Q ρ lt a b) (h2 : Adv P Q ρ lt b d) (h3 : P b → ρ b = ρ a → AdvS P Q ρ lt b d) :
    AdvS P Q ρ lt a d := by
  refine ⟨fun h => h2.1 (h1.1 h), fun hp => ?_⟩
  rcases h1.2 hp with hq | ⟨hpb, hl | he⟩
  · exact Or.inl (h2.1 hq)
  · rcases h2.2 hpb with hq | ⟨hpd, hl2 | he2⟩
    · exact Or.inl hq
    · exact Or.inr ⟨hpd, htr _ _ _ hl2 hl⟩
    · exact Or.inr ⟨hpd, by rw [he2]; exact hl⟩
  · rcases (h3 hpb he).2 hpb with hq | ⟨hpd, hl2⟩
    · exact Or.inl hq
    · exact Or.inr ⟨hpd, by rw [← he]; exact hl2⟩

end mid

theorem strict1 {c : Cfg} {e : Env} (hw : 0 < c.width) (a : Acc) (w : CW) (hr : Reach c e w)
    (nc : NC w.s) (o : HOp) (_ho : o.noCtl = true) (hk : o.kind = hk1 (rho1 c a w.s)) :
    AdvS (P1 a) (fun s => B1 s a) (rho1 c a) (· < ·) w.s (hstep c e w o).s := by
  have hg := reach_ginv hr nc
  by_cases hfull : c.width ≤ w.s.trOut.length
  · have h5 : hk1 (rho1 c a w.s) = 5 := by simp only [hk1, rho1, hfull, if_true]; split <;> omega
    have ho := kind5 o (hk.trans h5)
    subst ho
    cases hq : w.s.trOut with
    | nil => rw [hq] at hfull; simp at hfull; omega
    | cons x l =>
      have hs : (hstep c e w .drainTr).s = { w.s with trOut := l } := by simp [hstep, hq, step]
      rw [hs]
      refine ⟨fun h => h, fun hp => Or.inr ⟨hp, ?_⟩⟩
      have hb := hg.b.tr
      rw [hq] at hb hfull
      simp only [List.length_cons] at hb hfull
      simp only [rho1, hq, List.length_cons]
      split <;> omega
  · have h0 : hk1 (rho1 c a w.s) = 0 := by simp only [hk1, rho1, hfull, if_false]; split <;> omega
    have ho := kind0 o (hk.trans h0)
    subst ho
    rw [hstep_tick_s hr, tick_nc c w.s nc]
    obtain ⟨n, hn⟩ : ∃ n, c.width = n + 1 := ⟨c.width - 1, by omega⟩
    have st := stage1 c a
    have h1 := (RI.trans st.tr (st.riR c.width w.s) (st.riP c.width _)) hg
    generalize (iter (parseTranslation c) c.width (iter (respond c) c.width w.s).1).1 = mid at h1 ⊢
    refine Adv.strict_mid st.tr h1.2 ((st.riT c.width mid) h1.1).2 ?_
    intro hp heq
    have hroom : ¬ c.width ≤ mid.trOut.length := by
      intro hf
      simp only [rho1, hf, hfull, if_true, if_false] at heq
      omega
    have first : AdvS (P1 a) (fun s => B1 s a) (rho1 c a) (· < ·) mid (translate c mid).1 := by
      refine ⟨translate_b1 c _ a, fun hp => ?_⟩
      rcases translate_l1 c _ a hp with h | ⟨_, h⟩
      · exact h
      · exact absurd h hroom
    rw [hn]
    exact first.andThen st.tr ((st.riT n _) (translate_ginv c _ h1.1)).2

end C16
