import MgpuProofs.C02BarLemmas
/-! C02 (barriers) — helper lemmas, part 2: the emulator side. One pass of `runWG`'s inner loop
(`eround`: every unfinished wavefront, in order, until its next barrier, on the memory the previous one
left) equals every wavefront ALONE on the memory the pass started with, when what one wavefront may write
no other wavefront reads or writes during the phase. Also: the hypothesis "drained at the barrier"
(`drainedRun`) and the per-phase hypothesis check `phasesOK`. -/
namespace C02.Bar
open C02.Wf

theorem erun_withOwn (P : Prog) (o wo : Nat → Bool) : ∀ (n : Nat) (s : EState),
    erun (withOwn P o wo) n s = erun P n s := by
  intro n
  induction n with
  | zero => intro s; rfl
  | succ n ih =>
    intro s
    simp only [erun, estep_withOwn]
    cases estep P s with
    | none => rfl
    | some s' => exact ih s'

theorem erunSeg_erun (P : Prog) : ∀ (fuel : Nat) (s s' : EState), erunSeg P fuel s = some s' →
    s'.done = true ∧ ∃ n, erun P n s = some s' := by
  intro fuel
  induction fuel with
  | zero =>
    intro s s' h
    simp only [erunSeg] at h
    split at h
    · rename_i hd; cases h; exact ⟨hd, 0, rfl⟩
    · cases h
  | succ fuel ih =>
    intro s s' h
    simp only [erunSeg] at h
    split at h
    · rename_i hd; cases h; exact ⟨hd, 0, rfl⟩
    · cases hs : estep P s with
      | none => simp [hs] at h
      | some s1 =>
        simp only [hs] at h
        obtain ⟨hd, n, hn⟩ := ih s1 s' h
        exact ⟨hd, n + 1, by simp only [erun, hs]; exact hn⟩

/-! ## the "drained at the barrier" hypothesis -/

/-- whenever the (checked) emulator run is about to execute an `s_barrier`, nothing may still be in
    flight: the hazard state is empty (`s_waitcnt vmcnt(0) lgkmcnt(0)` — or no memory instruction at all —
    precedes every `s_barrier`). Decidable for a given program, input and bound, next to `hazardFreeRun`. -/
def drainedRun (P : Prog) (bars : Nat → Bool) : Nat → EState × HState → Bool
  | 0, _ => true
  | n + 1, x => if x.1.done then true else
    (match P.instAt x.1.pc with
      | some i => !(decide (i.kind = .endpgm) && bars x.1.pc) || (x.2.pv.isEmpty && x.2.ps.isEmpty)
      | none => true) &&
    match ehstep P x with
    | none => true
    | some y => drainedRun P bars n y

theorem drained_at (P : Prog) (bars : Nat → Bool) : ∀ (fuel : Nat) (x0 : EState × HState) (n : Nat) (x : EState × HState),
    hazardFreeRun P fuel x0 = true → drainedRun P bars fuel x0 = true → ehrun P n x0 = some x →
    x.1.done = false → ∀ i, P.instAt x.1.pc = some i → i.kind = .endpgm → bars x.1.pc = true →
    x.2.pv = [] ∧ x.2.ps = [] := by
  intro fuel
  induction fuel with
  | zero =>
    intro x0 n x h _ hr hd
    simp only [hazardFreeRun] at h
    cases n with
    | zero => simp only [ehrun] at hr; cases hr; simp [h] at hd
    | succ n =>
      simp only [ehrun] at hr
      cases hx : ehstep P x0 with
      | none => simp [hx] at hr
      | some z => have := ehstep_not_done P x0 z hx; simp [h] at this
  | succ fuel ih =>
    intro x0 n x h hdr hr hd i hi hk hb
    simp only [hazardFreeRun] at h
    simp only [drainedRun] at hdr
    cases n with
    | zero =>
      simp only [ehrun] at hr
      cases hr
      simp only [hd, Bool.false_eq_true, if_false, hi, hk, hb, decide_true, Bool.and_self, Bool.not_true,
        Bool.false_or, Bool.and_eq_true] at hdr
      exact ⟨by simpa using hdr.1.1, by simpa using hdr.1.2⟩
    | succ n =>
      simp only [ehrun] at hr
      cases hx : ehstep P x0 with
      | none => simp [hx] at hr
      | some z =>
        have hd0 := ehstep_not_done P x0 z hx
        simp only [hd0, Bool.false_eq_true, if_false, hx] at h hdr hr
        simp only [Bool.and_eq_true] at hdr
        exact ih z n x h hdr.2 hr hd i hi hk hb

/-! ## one pass of the emulator's inner loop -/

/-- what one wavefront may write no other wavefront owns (reads or writes), indexed by wavefront -/
def SepO (o wo : Nat → Nat → Bool) : Prop := ∀ i j, i ≠ j → ∀ a, wo i a = true → o j a = false

theorem eround_alone (g : WG) (fuel hfuel : Nat) (o wo : Nat → Nat → Bool) (hsep : SepO o wo) (m0 : Mem) :
    ∀ (Ps : List Prog) (ws : List EWf) (off : Nat) (m : Mem) (ws' : List EWf) (m' : Mem),
    eround g fuel Ps ws m = some (ws', m') → Ps.length = ws.length → (∀ P ∈ Ps, P.WF) →
    (∀ (j : Nat) (w : EWf), ws[j]? = some w → w.E.done = false → ∀ a, o (off + j) a = true → m a = m0 a) →
    (∀ (j : Nat) (P : Prog) (w : EWf), Ps[j]? = some P → ws[j]? = some w → w.E.done = false →
      hazardFreeRun (withOwn P (o (off + j)) (wo (off + j))) hfuel ({ w.E with mem := m0 }, {}) = true) →
    ws'.length = ws.length ∧
    (∀ a, (∀ (j : Nat) (w : EWf), ws[j]? = some w → w.E.done = false → wo (off + j) a = false) → m' a = m a) ∧
    ∀ (j : Nat) (P : Prog) (w : EWf), Ps[j]? = some P → ws[j]? = some w →
      (w.E.done = true → ws'[j]? = some w) ∧
      (w.E.done = false → ∃ (Eseq : EState) (n : Nat) (Ealone : EState) (H : HState),
        ws'[j]? = some { E := Eseq, atBar := g.bars (Eseq.trace.getLastD 0) } ∧
        ehrun (withOwn P (o (off + j)) (wo (off + j))) n ({ w.E with mem := m0 }, {}) = some (Ealone, H) ∧
        Ealone.done = true ∧ EEq (o (off + j)) Eseq Ealone ∧ ∀ a, o (off + j) a = true → m' a = Ealone.mem a) := by
  intro Ps
  induction Ps with
  | nil =>
    intro ws off m ws' m' h hlen _ _ _
    cases ws with
    | nil =>
      simp only [eround] at h
      cases h
      exact ⟨rfl, fun _ _ => rfl, fun j P w hj => by simp at hj⟩
    | cons w ws => simp at hlen
  | cons P0 Ps ih =>
    intro ws off m ws' m' h hlen hP hm hhaz
    cases ws with
    | nil => simp at hlen
    | cons w0 ws =>
      have hlen' : Ps.length = ws.length := by simpa using hlen
      have hP' : ∀ P ∈ Ps, P.WF := fun P hp => hP P (List.mem_cons_of_mem _ hp)
      have hoff : ∀ j, off + (j + 1) = off + 1 + j := fun j => by omega
      simp only [eround] at h
      split at h
      · -- the first wavefront has ended before: skipped
        rename_i hd0
        cases hr : eround g fuel Ps ws m with
        | none => simp [hr] at h
        | some r =>
          simp only [hr, Option.some.injEq] at h
          obtain ⟨rws, rmm⟩ := r
          cases h
          obtain ⟨hl, hfr, hrest⟩ := ih ws (off + 1) m rws rmm hr hlen' hP'
            (fun j w hj hd a ha => hm (j + 1) w (by simpa using hj) hd a (by rw [hoff]; exact ha))
            (fun j P w hjP hj hd => by
              have := hhaz (j + 1) P w (by simpa using hjP) (by simpa using hj) hd
              rw [hoff] at this; exact this)
          refine ⟨by simp [hl], ?_, ?_⟩
          · intro a ha
            apply hfr a
            intro j w hj hd
            have := ha (j + 1) w (by simpa using hj) hd
            rw [hoff] at this; exact this
          · intro j P w hjP hj
            cases j with
            | zero =>
              simp only [List.getElem?_cons_zero, Option.some.injEq] at hjP hj
              subst hj
              exact ⟨fun _ => rfl, fun hd => (by rw [hd0] at hd; cases hd)⟩
            | succ j =>
              simp only [List.getElem?_cons_succ] at hjP hj ⊢
              have := hrest j P w hjP hj
              rw [← hoff] at this
              exact this
      · rename_i hd0
        have hd0' : w0.E.done = false := by simpa using hd0
        cases hseg : erunSeg P0 fuel { w0.E with mem := m } with
        | none => simp [hseg] at h
        | some E' =>
          simp only [hseg] at h
          cases hr : eround g fuel Ps ws E'.mem with
          | none => simp [hr] at h
          | some r =>
            simp only [hr, Option.some.injEq] at h
            obtain ⟨rws, rmm⟩ := r
            cases h
            -- the first wavefront alone, replayed on the memory it finds
            let Q0 := withOwn P0 (o (off + 0)) (wo (off + 0))
            have hQ0 : Q0.WF := withOwn_wf (hP P0 (List.mem_cons_self ..)) _ _
            have hhaz0 := hhaz 0 P0 w0 (by simp) (by simp) hd0'
            obtain ⟨n2, y2, hr2, hd2⟩ := hfr_reaches_done (P := Q0) hfuel _ hhaz0
            have heq0 : EEq Q0.own { w0.E with mem := m0 } { w0.E with mem := m } :=
              ⟨rfl, rfl, rfl, rfl, fun a ha => (hm 0 w0 (by simp) hd0' a ha).symm⟩
            obtain ⟨Eb, hrb, heqb⟩ := ehrun_congr hQ0 n2 _ _ {} y2 heq0 hr2
            have hrb' := ehrun_erun Q0 n2 _ _ hrb
            rw [erun_withOwn] at hrb'
            obtain ⟨hdE', nE, hnE⟩ := erunSeg_erun P0 fuel _ E' hseg
            have hE : E' = Eb := erun_done_unique P0 nE n2 _ E' Eb hnE hdE' hrb' (by rw [← heqb.done]; exact hd2)
            subst hE
            have hframe0 : ∀ a, wo (off + 0) a = false → E'.mem a = m a :=
              fun a ha => ehrun_frame hQ0 n2 _ _ hrb a ha
            obtain ⟨hl, hfr, hrest⟩ := ih ws (off + 1) E'.mem rws rmm hr hlen' hP'
              (fun j w hj hd a ha => by
                rw [← hm (j + 1) w (by simpa using hj) hd a (by rw [hoff]; exact ha)]
                apply hframe0
                cases hw : wo (off + 0) a with
                | false => rfl
                | true =>
                  have := hsep (off + 0) (off + 1 + j) (by omega) a hw
                  rw [ha] at this; cases this)
              (fun j P w hjP hj hd => by
                have := hhaz (j + 1) P w (by simpa using hjP) (by simpa using hj) hd
                rw [hoff] at this; exact this)
            refine ⟨by simp [hl], ?_, ?_⟩
            · intro a ha
              show rmm a = m a
              rw [hfr a (fun j w hj hd => by
                have := ha (j + 1) w (by simpa using hj) hd
                rw [hoff] at this; exact this)]
              exact hframe0 a (ha 0 w0 (by simp) hd0')
            · intro j P w hjP hj
              cases j with
              | zero =>
                simp only [List.getElem?_cons_zero, Option.some.injEq] at hjP hj
                subst hj hjP
                refine ⟨fun hd => (by rw [hd0'] at hd; cases hd), fun _ => ?_⟩
                refine ⟨E', n2, y2.1, y2.2, by simp, hr2, hd2, heqb.symm, ?_⟩
                intro a ha
                show rmm a = y2.1.mem a
                rw [hfr a]
                · exact (heqb.mem a ha).symm
                · intro j w hj hd
                  cases hw : wo (off + 1 + j) a with
                  | false => rfl
                  | true =>
                    have := hsep (off + 1 + j) (off + 0) (by omega) a hw
                    rw [ha] at this; cases this
              | succ j =>
                simp only [List.getElem?_cons_succ] at hjP hj ⊢
                have := hrest j P w hjP hj
                rw [← hoff] at this
                exact this

/-! ## `runWG`: unrolling one round -/

theorem ecompleted_iff (ws : List EWf) :
    ecompleted ws = true ↔ ∀ (j : Nat) (w : EWf), ws[j]? = some w → w.E.done = true ∧ w.atBar = false := by
  unfold ecompleted
  rw [all_iff_getElem?]
  constructor
  · intro h j w hj; simpa using h j w hj
  · intro h j w hj; simpa using h j w hj

theorem ewgRun_of_completed (g : WG) (fuel r : Nat) (ws : List EWf) (m : Mem) (h : ecompleted ws = true) :
    ewgRun g fuel r ws m = some (ws, m) := by
  cases r <;> simp [ewgRun, h]

theorem ewgRun_unroll (g : WG) (fuel r : Nat) (ws : List EWf) (m : Mem) (res : List EWf × Mem)
    (hnc : ecompleted ws = false) (h : ewgRun g fuel r ws m = some res) :
    ∃ r' x, r = r' + 1 ∧ eround g fuel g.Ps ws m = some x ∧ ewgRun g fuel r' (eresolve x.1) x.2 = some res := by
  cases r with
  | zero => simp [ewgRun, hnc] at h
  | succ r' =>
    simp only [ewgRun, hnc, Bool.false_eq_true, if_false] at h
    cases hx : eround g fuel g.Ps ws m with
    | none => simp [hx] at h
    | some x => simp only [hx] at h; exact ⟨r', x, rfl, rfl, h⟩

theorem eresolve_getElem? (ws : List EWf) (j : Nat) :
    (eresolve ws)[j]? = (ws[j]?).map fun w =>
      if w.atBar then { E := { w.E with done := false }, atBar := false } else w := by
  unfold eresolve
  rw [List.getElem?_map]

end C02.Bar
