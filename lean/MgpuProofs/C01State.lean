import MgpuModel.C01_Emu
/-! # C01 — reading a wavefront state after the writes of one instruction were committed

`applyWrs st ws` commits the cell writes `C03V.exec` returns.  Every accessor the ISA specification
reads the state through (`rs`, `rv`, `vcc`, `exec`, `scc`, `pc`, `m0`, `rmem`, `rlds`) of the new state
is a fold over the write list (`sel`): the last write to the cell, or the old value. -/
namespace C01
namespace Emu
open C03V (St Wr Cell)

/-- last value written to a cell satisfying `p`, or `d` -/
def sel (p : Cell → Bool) (ws : List Wr) (d : Nat) : Nat :=
  ws.foldl (fun acc w => if p w.1 then w.2 else acc) d

@[simp] theorem sel_nil (p : Cell → Bool) (d : Nat) : sel p [] d = d := rfl
theorem sel_cons (p : Cell → Bool) (w : Wr) (ws : List Wr) (d : Nat) :
    sel p (w :: ws) d = sel p ws (if p w.1 then w.2 else d) := rfl
theorem sel_append (p : Cell → Bool) (a b : List Wr) (d : Nat) : sel p (a ++ b) d = sel p b (sel p a d) := by
  simp [sel, List.foldl_append]

theorem sel_none (p : Cell → Bool) (ws : List Wr) (d : Nat) (h : ∀ w ∈ ws, p w.1 = false) : sel p ws d = d := by
  induction ws generalizing d with
  | nil => rfl
  | cons w ws ih =>
    rw [sel_cons, h w (List.mem_cons_self ..)]
    exact ih d (fun x hx => h x (List.mem_cons_of_mem _ hx))

/-- writes grouped by lane: only the group of lane `l` can touch a cell selected by `p` -/
theorem sel_flatMap_single (p : Cell → Bool) (W : Nat → List Wr) (l : Nat) :
    ∀ (lanes : List Nat) (d : Nat), lanes.Nodup → (∀ l' ∈ lanes, l' ≠ l → ∀ w ∈ W l', p w.1 = false) →
      sel p (lanes.flatMap W) d = if l ∈ lanes then sel p (W l) d else d := by
  intro lanes
  induction lanes with
  | nil => intro d _ _; rfl
  | cons x xs ih =>
    intro d hn h
    simp only [List.nodup_cons] at hn
    rw [List.flatMap_cons, sel_append]
    by_cases hx : x = l
    · subst hx
      have hnot : x ∉ xs := hn.1
      rw [ih _ hn.2 (fun l' hl' hne => h l' (List.mem_cons_of_mem _ hl') hne)]
      simp [hnot]
    · rw [sel_none p (W x) d (h x (List.mem_cons_self ..) hx)]
      rw [ih _ hn.2 (fun l' hl' hne => h l' (List.mem_cons_of_mem _ hl') hne)]
      have : (l ∈ x :: xs) ↔ l ∈ xs := by
        simp only [List.mem_cons]
        constructor
        · rintro (e | e)
          · exact absurd e.symm hx
          · exact e
        · exact Or.inr
      by_cases hm : l ∈ xs
      · simp [hm]
      · have : l ∉ x :: xs := fun e => hm (this.mp e)
        simp [hm, this]

/-! ## cell predicates -/
def isS (i : Nat) : Cell → Bool
  | .s j => j == i
  | _ => false
def isV (k : Nat) : Cell → Bool
  | .v r l => r * 64 + l == k
  | _ => false
def isVcc : Cell → Bool
  | .vcc => true
  | _ => false
def isExec : Cell → Bool
  | .exec => true
  | _ => false
def isScc : Cell → Bool
  | .scc => true
  | _ => false
def isPc : Cell → Bool
  | .pc => true
  | _ => false
def isM0 : Cell → Bool
  | .m0 => true
  | _ => false
def isMem (a : Nat) : Cell → Bool
  | .mem b => b == a
  | _ => false
def isLds (a : Nat) : Cell → Bool
  | .lds b => b == a
  | _ => false

/-! ## one write -/

theorem getD_setIfInBounds (a : Array Nat) (j i x : Nat) :
    (a.setIfInBounds j x).getD i 0 = if j = i ∧ j < a.size then x else a.getD i 0 := by
  simp only [Array.getD_eq_getD_getElem?, Array.getElem?_setIfInBounds]
  by_cases h : j = i
  · subst h
    by_cases hb : j < a.size
    · simp [hb]
    · simp only [hb, and_false, if_false, if_true]
      have : a[j]? = none := by simp; omega
      simp [this]
  · simp [h]

theorem lookup_cons (a b : Nat) (m : List (Nat × Nat)) (x : Nat) :
    C03V.lookup ((a, b) :: m) x = if a = x then b else C03V.lookup m x := by
  unfold C03V.lookup
  simp only [List.find?_cons]
  by_cases h : a = x
  · subst h; simp
  · have : (a == x) = false := by simpa using h
    simp [this, h]

theorem size_s_applyWr (st : St) (w : Wr) : (applyWr st w).s.size = st.s.size := by
  unfold applyWr; split <;> simp
theorem size_v_applyWr (st : St) (w : Wr) : (applyWr st w).v.size = st.v.size := by
  unfold applyWr; split <;> simp

theorem size_s_applyWrs (st : St) (ws : List Wr) : (applyWrs st ws).s.size = st.s.size := by
  induction ws generalizing st with
  | nil => rfl
  | cons w ws ih => simp only [applyWrs, List.foldl_cons] at ih ⊢; rw [ih, size_s_applyWr]
theorem size_v_applyWrs (st : St) (ws : List Wr) : (applyWrs st ws).v.size = st.v.size := by
  induction ws generalizing st with
  | nil => rfl
  | cons w ws ih => simp only [applyWrs, List.foldl_cons] at ih ⊢; rw [ih, size_v_applyWr]

theorem rs_applyWr (st : St) (w : Wr) (i : Nat) (hi : i < st.s.size) :
    (applyWr st w).rs i = if isS i w.1 then w.2 else st.rs i := by
  obtain ⟨c, x⟩ := w
  cases c <;> simp only [applyWr, St.rs, isS, getD_setIfInBounds, Bool.false_eq_true, if_false]
  rename_i j
  by_cases h : j = i
  · subst h; simp [hi]
  · simp [h]

theorem rv_applyWr (st : St) (w : Wr) (r l : Nat) (hi : r * 64 + l < st.v.size) :
    (applyWr st w).rv r l = if isV (r * 64 + l) w.1 then w.2 else st.rv r l := by
  obtain ⟨c, x⟩ := w
  cases c <;> simp only [applyWr, St.rv, isV, getD_setIfInBounds, Bool.false_eq_true, if_false]
  rename_i r' l'
  by_cases h : r' * 64 + l' = r * 64 + l
  · have hb : r' * 64 + l' < st.v.size := by omega
    simp [h, hi]
  · simp [h]

theorem vcc_applyWr (st : St) (w : Wr) : (applyWr st w).vcc = if isVcc w.1 then w.2 else st.vcc := by
  obtain ⟨c, x⟩ := w
  cases c <;> simp [applyWr, isVcc]
theorem exec_applyWr (st : St) (w : Wr) : (applyWr st w).exec = if isExec w.1 then w.2 else st.exec := by
  obtain ⟨c, x⟩ := w
  cases c <;> simp [applyWr, isExec]
theorem scc_applyWr (st : St) (w : Wr) : (applyWr st w).scc = if isScc w.1 then w.2 else st.scc := by
  obtain ⟨c, x⟩ := w
  cases c <;> simp [applyWr, isScc]
theorem pc_applyWr (st : St) (w : Wr) : (applyWr st w).pc = if isPc w.1 then w.2 else st.pc := by
  obtain ⟨c, x⟩ := w
  cases c <;> simp [applyWr, isPc]
theorem m0_applyWr (st : St) (w : Wr) : (applyWr st w).m0 = if isM0 w.1 then w.2 else st.m0 := by
  obtain ⟨c, x⟩ := w
  cases c <;> simp [applyWr, isM0]
theorem rmem_applyWr (st : St) (w : Wr) (a : Nat) :
    (applyWr st w).rmem a = if isMem a w.1 then w.2 else st.rmem a := by
  obtain ⟨c, x⟩ := w
  cases c <;> simp only [applyWr, St.rmem, isMem, lookup_cons, Bool.false_eq_true, if_false]
  rename_i b
  by_cases h : b = a
  · subst h; simp
  · simp [h]
theorem rlds_applyWr (st : St) (w : Wr) (a : Nat) :
    (applyWr st w).rlds a = if isLds a w.1 then w.2 else st.rlds a := by
  obtain ⟨c, x⟩ := w
  cases c <;> simp only [applyWr, St.rlds, isLds, lookup_cons, Bool.false_eq_true, if_false]
  rename_i b
  by_cases h : b = a
  · subst h; simp
  · simp [h]

/-! ## a write list -/

theorem applyWrs_cons (st : St) (w : Wr) (ws : List Wr) : applyWrs st (w :: ws) = applyWrs (applyWr st w) ws := rfl

theorem rs_applyWrs (st : St) (ws : List Wr) (i : Nat) (hi : i < st.s.size) :
    (applyWrs st ws).rs i = sel (isS i) ws (st.rs i) := by
  induction ws generalizing st with
  | nil => rfl
  | cons w ws ih => rw [applyWrs_cons, ih _ (by rw [size_s_applyWr]; exact hi), rs_applyWr st w i hi, sel_cons]

theorem rv_applyWrs (st : St) (ws : List Wr) (r l : Nat) (hi : r * 64 + l < st.v.size) :
    (applyWrs st ws).rv r l = sel (isV (r * 64 + l)) ws (st.rv r l) := by
  induction ws generalizing st with
  | nil => rfl
  | cons w ws ih => rw [applyWrs_cons, ih _ (by rw [size_v_applyWr]; exact hi), rv_applyWr st w r l hi, sel_cons]

theorem vcc_applyWrs (st : St) (ws : List Wr) : (applyWrs st ws).vcc = sel isVcc ws st.vcc := by
  induction ws generalizing st with
  | nil => rfl
  | cons w ws ih => rw [applyWrs_cons, ih, vcc_applyWr, sel_cons]
theorem exec_applyWrs (st : St) (ws : List Wr) : (applyWrs st ws).exec = sel isExec ws st.exec := by
  induction ws generalizing st with
  | nil => rfl
  | cons w ws ih => rw [applyWrs_cons, ih, exec_applyWr, sel_cons]
theorem scc_applyWrs (st : St) (ws : List Wr) : (applyWrs st ws).scc = sel isScc ws st.scc := by
  induction ws generalizing st with
  | nil => rfl
  | cons w ws ih => rw [applyWrs_cons, ih, scc_applyWr, sel_cons]
theorem pc_applyWrs (st : St) (ws : List Wr) : (applyWrs st ws).pc = sel isPc ws st.pc := by
  induction ws generalizing st with
  | nil => rfl
  | cons w ws ih => rw [applyWrs_cons, ih, pc_applyWr, sel_cons]
theorem m0_applyWrs (st : St) (ws : List Wr) : (applyWrs st ws).m0 = sel isM0 ws st.m0 := by
  induction ws generalizing st with
  | nil => rfl
  | cons w ws ih => rw [applyWrs_cons, ih, m0_applyWr, sel_cons]
theorem rmem_applyWrs (st : St) (ws : List Wr) (a : Nat) :
    (applyWrs st ws).rmem a = sel (isMem a) ws (st.rmem a) := by
  induction ws generalizing st with
  | nil => rfl
  | cons w ws ih => rw [applyWrs_cons, ih, rmem_applyWr, sel_cons]
theorem rlds_applyWrs (st : St) (ws : List Wr) (a : Nat) :
    (applyWrs st ws).rlds a = sel (isLds a) ws (st.rlds a) := by
  induction ws generalizing st with
  | nil => rfl
  | cons w ws ih => rw [applyWrs_cons, ih, rlds_applyWr, sel_cons]

/-- a write list without memory cells leaves the memory list itself untouched -/
theorem mem_applyWrs_of_none (st : St) (ws : List Wr)
    (h : ∀ w ∈ ws, (match w.1 with | .mem _ => false | .lds _ => false | _ => true) = true) :
    (applyWrs st ws).mem = st.mem ∧ (applyWrs st ws).lds = st.lds := by
  induction ws generalizing st with
  | nil => exact ⟨rfl, rfl⟩
  | cons w ws ih =>
    rw [applyWrs_cons]
    have hw := h w (List.mem_cons_self ..)
    obtain ⟨h1, h2⟩ := ih (applyWr st w) (fun x hx => h x (List.mem_cons_of_mem _ hx))
    rw [h1, h2]
    obtain ⟨c, x⟩ := w
    cases c <;> simp_all [applyWr]

end Emu
end C01
