import MgpuProofs.C11SysInv
/-! # C11 helper: links between the driver and the command processor in the closed copy system (K1, K5) -/
namespace C11

/-! ## the driver's tick never invents an answer -/

theorem mqStartAll_ans : ∀ (qs : List MqQueue) (s : Mq) (qi : Nat),
    (mqStartAll s qi qs).1.answered = s.answered ∧ (mqStartAll s qi qs).1.portIn = s.portIn
  | [], _, _ => ⟨rfl, rfl⟩
  | q :: rest, s, qi => by
    have ih := mqStartAll_ans rest (s.start qi q).1 (qi + 1)
    have h1 : (s.start qi q).1.answered = s.answered ∧ (s.start qi q).1.portIn = s.portIn := by
      rcases s.start_cases qi q with ⟨_, e⟩ | ⟨c, r, _, _, _, e⟩ | ⟨c, r, _, _, _, e⟩ <;> rw [e] <;> exact ⟨rfl, rfl⟩
    exact ⟨ih.1.trans h1.1, ih.2.trans h1.2⟩

theorem Mq.tick_ans_sub (s : Mq) : ∀ x ∈ s.tick.1.answered ++ s.tick.1.portIn, x ∈ s.answered ++ s.portIn := by
  have ha : s.sendToGPUs.1.answered = s.answered ∧ s.sendToGPUs.1.portIn = s.portIn := by
    rcases s.sendToGPUs_cases with ⟨e, _⟩ | ⟨r, rest, _, _, e⟩ <;> rw [e] <;> exact ⟨rfl, rfl⟩
  have hb : s.sendToGPUs.1.delay.1.answered = s.answered ∧ s.sendToGPUs.1.delay.1.portIn = s.portIn := by
    rcases s.sendToGPUs.1.delay_cases with ⟨_, e⟩ | ⟨_, e⟩ | ⟨_, e⟩ <;> rw [e] <;> exact ha
  have hc : ∀ x ∈ s.sendToGPUs.1.delay.1.response.1.answered ++ s.sendToGPUs.1.delay.1.response.1.portIn,
      x ∈ s.answered ++ s.portIn := by
    intro x hx
    rcases s.sendToGPUs.1.delay.1.response_cases with ⟨_, e⟩ | ⟨id, rest, _, _, e⟩ | ⟨id, rest, qs, c, hp, _, e⟩
    · rw [e, hb.1, hb.2] at hx; exact hx
    · rw [e] at hx
      change x ∈ s.sendToGPUs.1.delay.1.answered ++ s.sendToGPUs.1.delay.1.portIn at hx
      rw [hb.1, hb.2] at hx; exact hx
    · rw [e] at hx
      change x ∈ (s.sendToGPUs.1.delay.1.answered ++ [id]) ++ rest at hx
      rw [hb.1] at hx
      rw [← hb.2, hp]
      simp only [List.mem_append, List.mem_cons, List.mem_nil_iff, or_false] at hx ⊢
      rcases hx with (h | h) | h
      · exact .inl h
      · exact .inr (.inl h)
      · exact .inr (.inr h)
  unfold Mq.tick
  split
  · exact fun x hx => hx
  · simp only
    split
    · exact hc
    · intro x hx
      have hd := mqStartAll_ans s.sendToGPUs.1.delay.1.response.1.queues s.sendToGPUs.1.delay.1.response.1 0
      change x ∈ (mqStartAll _ 0 _).1.answered ++ (mqStartAll _ 0 _).1.portIn at hx
      rw [hd.1, hd.2] at hx
      exact hc x hx

/-! ## component frames -/

theorem CpEnv.step_sent_frame (e : CpEnv) (op : CpOp) (h : ∀ k, op ≠ .req k) : (e.step op).1.sent = e.sent := by
  cases op with
  | req k => exact absurd rfl (h k)
  | _ =>
    simp only [CpEnv.step]
    repeat' (first
      | rfl
      | split)

theorem CpEnv.step_drained_frame (e : CpEnv) (op : CpOp) (h : ∀ k, op ≠ .takeDrv k) :
    (e.step op).1.drained = e.drained := by
  cases op with
  | takeDrv k => exact absurd rfl (h k)
  | _ =>
    simp only [CpEnv.step]
    repeat' (first
      | rfl
      | split)

theorem MqEnv.step_seen_frame (e : MqEnv) (op : MqOp) (h : ∀ k, op ≠ .take k) : (e.step op).1.seen = e.seen := by
  cases op with
  | take k => exact absurd rfl (h k)
  | _ =>
    simp only [MqEnv.step]
    repeat' (first
      | rfl
      | split)

/-- answers waiting in or processed from the driver's GPU port: only `tick` and `rsp` touch them -/
theorem MqEnv.step_ans_frame (e : MqEnv) (op : MqOp) (h1 : op ≠ .tick) (h2 : ∀ j, op ≠ .rsp j) :
    (e.step op).1.s.answered = e.s.answered ∧ (e.step op).1.s.portIn = e.s.portIn := by
  cases op with
  | tick => exact absurd rfl h1
  | rsp j => exact absurd rfl (h2 j)
  | _ =>
    simp only [MqEnv.step]
    repeat' (first
      | exact trivial
      | rfl
      | constructor
      | split)

/-! ## K1: the requests delivered to the command processor are the requests taken from the driver's port -/

structure Sys.CmdInv (s : Sys) : Prop where
  len : s.cp.sent.length = s.mq.seen.length
  sent : ∀ (i : Nat) (r : MqReq), s.mq.seen[i]? = some r → s.cp.sent[i]? = some ({ id := i, kind := mqKindToCp r.kind } : CpMsg)
  /-- K5: every answer the driver holds or has processed was delivered by the command processor for
      the request at the position the answer names -/
  fed : ∀ x ∈ s.mq.s.answered ++ s.mq.s.portIn, ∃ m ∈ s.cp.drained, ∃ (rq : MqReq), s.mq.seen[m.id]? = some rq ∧ rq.id = x

theorem Sys.CmdInv.init (c : SysCfg) : (Sys.init c).CmdInv := by
  refine ⟨rfl, fun i r h => (by simp [Sys.init, MqEnv.init] at h), fun x hx => ?_⟩
  simp [Sys.init, MqEnv.init] at hx

theorem Sys.CmdInv.mono {s s' : Sys} (h : s.CmdInv) (e1 : s'.cp.sent = s.cp.sent) (e2 : s'.mq.seen = s.mq.seen)
    (e3 : s'.cp.drained = s.cp.drained)
    (e4 : ∀ x ∈ s'.mq.s.answered ++ s'.mq.s.portIn, x ∈ s.mq.s.answered ++ s.mq.s.portIn) : s'.CmdInv := by
  refine ⟨by rw [e1, e2]; exact h.len, by rw [e1, e2]; exact h.sent, ?_⟩
  intro x hx
  rw [e2, e3]; exact h.fed x (e4 x hx)

theorem Sys.CmdInv.step {s : Sys} (h : s.CmdInv) (op : SysOp) : (s.step op).1.CmdInv := by
  have same : ∀ {a b : List Nat}, ∀ x ∈ a ++ b, x ∈ a ++ b := fun x hx => hx
  cases op with
  | enq q h2d addr len salt =>
    simp only [Sys.step]
    split
    · exact h
    · split
      · have f := MqEnv.step_ans_frame s.mq (.enq q ⟨if h2d then .h2d else .d2h, (‹List (Nat × Nat × Nat)›).length,
          needFlushing s.bufs addr len⟩) (by intro hk; cases hk) (by intro j hk; cases hk)
        refine h.mono rfl (MqEnv.step_seen_frame _ _ (by intro k hk; cases hk)) rfl ?_
        intro x hx; rw [f.1, f.2] at hx; exact hx
      · exact h
  | drvTick =>
    refine h.mono rfl rfl rfl ?_
    exact Mq.tick_ans_sub s.mq.s
  | toCp =>
    simp only [Sys.step]
    split
    · exact h
    · rename_i r rest hpo
      split
      · rename_i hroom
        have hseen : (s.mq.step (.take 1)).1.seen = s.mq.seen ++ [r] := by simp [MqEnv.step, hpo]
        have hsent : (s.cp.step (.req (mqKindToCp r.kind))).1.sent = s.cp.sent ++ [⟨s.cp.sent.length, mqKindToCp r.kind⟩] := by
          simp [CpEnv.step, hroom]
        have hdr : (s.cp.step (.req (mqKindToCp r.kind))).1.drained = s.cp.drained := by
          simp only [CpEnv.step]; split <;> rfl
        have hans : (s.mq.step (.take 1)).1.s.answered = s.mq.s.answered ∧ (s.mq.step (.take 1)).1.s.portIn = s.mq.s.portIn :=
          ⟨rfl, rfl⟩
        refine ⟨?_, ?_, ?_⟩
        · show (s.cp.step _).1.sent.length = (s.mq.step _).1.seen.length
          rw [hseen, hsent, List.length_append, List.length_append, h.len]; rfl
        · intro i r' hr'
          change (s.mq.step (.take 1)).1.seen[i]? = some r' at hr'
          show (s.cp.step _).1.sent[i]? = _
          rw [hseen] at hr'
          rw [hsent]
          by_cases hi : i < s.mq.seen.length
          · rw [List.getElem?_append_left hi] at hr'
            exact getElem?_append_some (h.sent i r' hr') _
          · rw [List.getElem?_append_right (by omega)] at hr'
            have hi0 : i - s.mq.seen.length = 0 := by
              apply Decidable.byContradiction; intro hne
              rw [List.getElem?_eq_none (by simp; omega)] at hr'; cases hr'
            rw [hi0] at hr'
            simp only [List.getElem?_cons_zero, Option.some.injEq] at hr'
            subst hr'
            have : i = s.cp.sent.length := by rw [h.len]; omega
            rw [this, List.getElem?_append_right (Nat.le_refl _)]; simp
        · intro x hx
          change x ∈ (s.mq.step (.take 1)).1.s.answered ++ (s.mq.step (.take 1)).1.s.portIn at hx
          rw [hans.1, hans.2] at hx
          obtain ⟨m, hm, rq, h1, h2⟩ := h.fed x hx
          refine ⟨m, by show m ∈ (s.cp.step _).1.drained; rw [hdr]; exact hm, rq, ?_, h2⟩
          show (s.mq.step (.take 1)).1.seen[m.id]? = some rq
          rw [hseen]; exact getElem?_append_some h1 _
      · exact h
  | cpTick =>
    exact h.mono (CpEnv.step_sent_frame _ _ (by intro k hk; cases hk)) rfl
      (CpEnv.step_drained_frame _ _ (by intro k hk; cases hk)) same
  | cacheTake k =>
    exact h.mono (CpEnv.step_sent_frame _ _ (by intro k hk; cases hk)) rfl
      (CpEnv.step_drained_frame _ _ (by intro k hk; cases hk)) same
  | cacheAck j =>
    simp only [Sys.step]
    repeat' (first
      | exact h
      | exact h.mono (CpEnv.step_sent_frame _ _ (by intro k hk; cases hk)) rfl
          (CpEnv.step_drained_frame _ _ (by intro k hk; cases hk)) same
      | split)
  | toDma =>
    simp only [Sys.step]
    repeat' (first
      | exact h
      | exact h.mono (CpEnv.step_sent_frame _ _ (by intro k hk; cases hk)) rfl
          (CpEnv.step_drained_frame _ _ (by intro k hk; cases hk)) same
      | split)
  | dmaTick => exact h.mono rfl rfl rfl same
  | memTake k => exact h.mono rfl rfl rfl same
  | memDo j =>
    simp only [Sys.step]
    repeat' (first
      | exact h
      | exact h.mono rfl rfl rfl same
      | split)
  | dmaOut => exact h.mono rfl rfl rfl same
  | toCpRsp =>
    simp only [Sys.step]
    repeat' (first
      | exact h
      | exact h.mono (CpEnv.step_sent_frame _ _ (by intro k hk; cases hk)) rfl
          (CpEnv.step_drained_frame _ _ (by intro k hk; cases hk)) same
      | split)
  | toDrv =>
    simp only [Sys.step]
    split
    · exact h
    · rename_i m rest hdo
      split
      · exact h
      · rename_i rq hrq
        split
        · exact h
        · rename_i j hj
          obtain ⟨x, hx, hpx⟩ := findIdx?_spec _ _ _ hj
          have hxid : x.id = rq.id := by simpa using hpx
          have hjlt : j < s.mq.outstanding.length := by
            apply Decidable.byContradiction; intro hn
            rw [List.getElem?_eq_none (by omega)] at hx; cases hx
          have hdr : (s.cp.step (.takeDrv 1)).1.drained = s.cp.drained ++ [m] := by
            simp [CpEnv.step, hdo]
          have hsent : (s.cp.step (.takeDrv 1)).1.sent = s.cp.sent := rfl
          have hmq : (s.mq.step (.rsp j)).1.seen = s.mq.seen ∧ (s.mq.step (.rsp j)).1.s.answered = s.mq.s.answered ∧
              (s.mq.step (.rsp j)).1.s.portIn = s.mq.s.portIn ++ [x.id] := by
            cases ho : s.mq.outstanding with
            | nil => rw [ho] at hjlt; cases hjlt
            | cons y ys =>
              rw [ho] at hx hjlt
              have hm' : j % (ys.length + 1) = j := Nat.mod_eq_of_lt hjlt
              simp [MqEnv.step, ho, hm', hx]
          refine ⟨?_, ?_, ?_⟩
          · show (s.cp.step _).1.sent.length = (s.mq.step _).1.seen.length
            rw [hsent, hmq.1]; exact h.len
          · intro i r' hr'
            change (s.mq.step (.rsp j)).1.seen[i]? = some r' at hr'
            show (s.cp.step _).1.sent[i]? = _
            rw [hmq.1] at hr'; rw [hsent]; exact h.sent i r' hr'
          · intro y hy
            change y ∈ (s.mq.step (.rsp j)).1.s.answered ++ (s.mq.step (.rsp j)).1.s.portIn at hy
            rw [hmq.2.1, hmq.2.2, ← List.append_assoc] at hy
            show ∃ m' ∈ (s.cp.step _).1.drained, ∃ rq', (s.mq.step (.rsp j)).1.seen[m'.id]? = some rq' ∧ rq'.id = y
            rw [hdr, hmq.1]
            rcases List.mem_append.1 hy with hy | hy
            · obtain ⟨m', hm', rq', g1, g2⟩ := h.fed y hy
              exact ⟨m', List.mem_append_left _ hm', rq', g1, g2⟩
            · simp only [List.mem_singleton] at hy
              subst hy
              exact ⟨m, List.mem_append_right _ (List.mem_singleton.2 rfl), rq, hrq, hxid.symm⟩
  | kwrite i a v => exact h.mono rfl rfl rfl same

theorem Sys.CmdInv.run : ∀ (ops : List SysOp) {s : Sys}, s.CmdInv → (s.run ops).CmdInv
  | [], _, h => h
  | op :: rest, _, h => Sys.CmdInv.run rest (h.step op)

end C11
