import MgpuProofs.C09CUEmu
/-! # C09, emulation compute unit — `processMapWGReq` and `runEmulation` keep the bookkeeping
invariant (any event order); the time invariant `ETime` of a time-ordered engine -/
namespace C09.CUSide

/-! ## bookkeeping: Tick and emulation event, fired at any time -/

/-- `processMapWGReq` takes request `id` -/
theorem ncore_takeReq {s : Emu} (h : NCore s) (id : Nat) (rest : List Nat) (hin : s.inbuf = id :: rest) :
    NCore { s with inbuf := rest, queue := s.queue ++ [id], wfs := s.wfs ++ [id], got := s.got ++ [id] } := by
  have hidin : id ∈ s.inbuf := by rw [hin]; simp
  have hg : id ∉ s.got := h.in_fresh id hidin
  have hnd := h.in_nd
  rw [hin] at hnd
  have hnd' := List.nodup_cons.mp hnd
  have hw : id ∉ s.wfs := fun hc => hg (h.wfs_got id hc)
  have hf : id ∉ s.finished := fun hc => hg (h.fin_got id hc)
  have hs : id ∉ flat s := fun hc => hg (h.sent_got id hc)
  have hwid : ∀ p ∈ s.wgcs, p.2 ≠ id := fun p hp hc => hg (hc ▸ h.wid_got p hp)
  refine ⟨nodup_snoc h.got_nd hg, hnd'.2, ?_, ?_, ?_, ?_, ?_, ?_, ?_, nodup_snoc h.wfs_nd hw, h.fin_nd,
    h.sent_nd, ?_, ?_, h.fin_sent, ?_, ?_⟩
  · intro x hx hc'
    rcases mem_snoc.mp hc' with hc' | hc'
    · exact h.in_fresh x (by rw [hin]; exact List.mem_cons_of_mem _ hx) hc'
    · subst hc'; exact hnd'.1 hx
  · intro x hx
    rcases mem_snoc.mp hx with hx | hx
    · exact mem_snoc.mpr (Or.inl (h.q_wfs x hx))
    · exact mem_snoc.mpr (Or.inr hx)
  · intro x hx
    rcases mem_snoc.mp hx with hx | hx
    · exact h.q_wid x hx
    · subst hx
      intro hc'
      obtain ⟨p, hp, hp2⟩ := List.mem_map.mp hc'
      exact hwid p hp hp2
  · intro x hx
    rcases mem_snoc.mp hx with hx | hx
    · exact mem_snoc.mpr (Or.inl (h.wfs_got x hx))
    · exact mem_snoc.mpr (Or.inr hx)
  · intro x hx; exact mem_snoc.mpr (Or.inl (h.fin_got x hx))
  · intro x hx; exact mem_snoc.mpr (Or.inl (h.sent_got x hx))
  · intro p hp; exact mem_snoc.mpr (Or.inl (h.wid_got p hp))
  · intro x hx
    rcases mem_snoc.mp hx with hx | hx
    · exact h.wfs_fin x hx
    · subst hx; exact hf
  · intro x hx
    rcases mem_snoc.mp hx with hx | hx
    · exact h.wfs_sent x hx
    · subst hx; exact hs
  · intro x hx
    rcases mem_snoc.mp hx with hx | hx
    · rcases h.wfs_cov x hx with h1 | h1
      · exact Or.inl (mem_snoc.mpr (Or.inl h1))
      · exact Or.inr h1
    · exact Or.inl (mem_snoc.mpr (Or.inr hx))
  · intro x hx
    rcases mem_snoc.mp hx with hx | hx
    · rcases h.got_cov x hx with h1 | h1 | h1
      · exact Or.inl (mem_snoc.mpr (Or.inl h1))
      · exact Or.inr (Or.inl h1)
      · exact Or.inr (Or.inr h1)
    · exact Or.inl (mem_snoc.mpr (Or.inr hx))

theorem ninv_procMap {s : Emu} (h : NInv s) : NInv (procMap s) := by
  unfold procMap
  split
  · exact h
  · rename_i id rest hin
    have hw : id ∉ s.wfs := fun hc => h.core.in_fresh id (by rw [hin]; simp) (h.core.wfs_got id hc)
    have hins : ins id s.wfs = s.wfs ++ [id] := by simp [ins, hw]
    have h1 := ncore_takeReq h.core id rest hin
    have key : ∀ s' : Emu, s'.inbuf = rest → s'.queue = s.queue ++ [id] → s'.wfs = s.wfs ++ [id] →
        s'.finished = s.finished → s'.wgcs = s.wgcs → s'.sent = s.sent → s'.got = s.got ++ [id] → NInv s' := by
      intro s' e1 e2 e3 e4 e5 e6 e7
      refine ⟨ncore_frame h1 e1 e2 e3 e4 e5 e6 e7, ?_⟩
      intro _
      left
      rw [e3]
      simp
    dsimp only
    by_cases hc : s.nextTick ≤ s.now
    · simp only [hc, if_true, hins]
      exact key _ rfl rfl rfl rfl rfl rfl rfl
    · simp only [hc, if_false, hins]
      exact key _ rfl rfl rfl rfl rfl rfl rfl

/-- a Tick (`processMapWGReq`) fires, at any time -/
theorem ninv_fireTick {s : Emu} (h : NInv s) (t : Nat) : NInv (fireTick s t) := by
  have h2 : NInv { s with ticks := s.ticks.erase t, now := t } := ninv_frame h rfl rfl rfl rfl rfl rfl rfl
  exact ninv_procMap h2

theorem foldl_ins_of_subset : ∀ (q w : List Nat), (∀ x ∈ q, x ∈ w) → q.foldl (fun w id => ins id w) w = w
  | [], _, _ => rfl
  | a :: q, w, hs => by
    have ha : a ∈ w := hs a (by simp)
    rw [List.foldl_cons]
    have : ins a w = w := by simp [ins, ha]
    rw [this]
    exact foldl_ins_of_subset q w (fun x hx => hs x (List.mem_cons_of_mem _ hx))

/-- an emulation event runs every queued work-group, at any time -/
theorem ninv_runEmu {s : Emu} (h : NInv s) : NInv (runEmu s) := by
  have c := h.core
  unfold runEmu
  rw [foldl_ins_of_subset s.queue s.wfs c.q_wfs]
  have hnew : ∀ p ∈ s.queue.map (fun id => (s.now + 1, id)), p.2 ∈ s.queue := by
    intro p hp
    obtain ⟨x, hx, rfl⟩ := List.mem_map.mp hp
    exact hx
  refine ⟨⟨c.got_nd, c.in_nd, c.in_fresh, ?_, ?_, c.wfs_got, c.fin_got, c.sent_got, ?_, c.wfs_nd, c.fin_nd,
    c.sent_nd, c.wfs_fin, c.wfs_sent, c.fin_sent, ?_, c.got_cov⟩, ?_⟩
  · intro x hx; cases hx
  · intro x hx; cases hx
  · intro p hp
    rcases List.mem_append.mp hp with hp | hp
    · exact c.wid_got p hp
    · exact c.wfs_got _ (c.q_wfs _ (hnew p hp))
  · intro x hx
    right
    show x ∈ (s.wgcs ++ s.queue.map (fun id => (s.now + 1, id))).map (·.2)
    rw [List.map_append, List.mem_append]
    rcases c.wfs_cov x hx with h1 | h1
    · right; exact List.mem_map.mpr ⟨(s.now + 1, x), List.mem_map.mpr ⟨x, h1, rfl⟩, rfl⟩
    · left; exact h1
  · intro hf
    rcases h.fin_cov hf with h1 | h1
    · exact Or.inl h1
    · right
      show s.wgcs ++ s.queue.map (fun id => (s.now + 1, id)) ≠ []
      intro hc
      exact h1 (List.append_eq_nil_iff.mp hc).1

theorem ninv_fireEmu {s : Emu} (h : NInv s) (t : Nat) : NInv (fireEmu s t) := by
  have h2 : NInv { s with emus := s.emus.erase t, now := t } := ninv_frame h rfl rfl rfl rfl rfl rfl rfl
  exact ninv_runEmu h2

/-! ## time: what a time-ordered engine (any tie-break) adds -/

structure ETime (s : Emu) : Prop where
  P_pos : 0 < s.P
  t_tick : ∀ t ∈ s.ticks, s.now ≤ t
  t_emu : ∀ t ∈ s.emus, s.now ≤ t
  t_wgc : ∀ p ∈ s.wgcs, s.now ≤ p.1
  q_emu : s.queue ≠ [] → s.emus ≠ []
  nt_emu : s.now < s.nextTick → s.nextTick ∈ s.emus

theorem etime_init (P incap outcap : Nat) (hP : 0 < P) : ETime (einit P incap outcap) := by
  constructor <;> simp [einit, hP]

/-- `ETime` reads the clock, `nextTick`, the queue and the event lists; ticks and completion events
    may be added as long as they are not in the past -/
theorem etime_frame {s s' : Emu} (h : ETime s) (hP : s'.P = s.P) (hnow : s'.now = s.now)
    (hnt : s'.nextTick = s.nextTick) (hq : s'.queue = s.queue) (he : s'.emus = s.emus)
    (ht : ∀ t ∈ s'.ticks, s.now ≤ t) (hwg : ∀ p ∈ s'.wgcs, s.now ≤ p.1) : ETime s' := by
  cases s; cases s'
  simp only at hP hnow hnt hq he ht hwg
  subst hP hnow hnt hq he
  exact ⟨h.P_pos, ht, h.t_emu, hwg, h.q_emu, h.nt_emu⟩

theorem etime_tickLater {s : Emu} (h : ETime s) : ETime (tickLater s) := by
  have key : ∀ t ∈ s.ticks ++ [s.now + 1], s.now ≤ t := by
    intro t ht
    rcases mem_snoc.mp ht with ht | ht
    · exact h.t_tick t ht
    · omega
  unfold tickLater
  dsimp only
  split
  · split
    · exact h
    · exact etime_frame h rfl rfl rfl rfl rfl key h.t_wgc
  · exact etime_frame h rfl rfl rfl rfl rfl key h.t_wgc

theorem etime_fill {s : Emu} (h : ETime s) : ETime (fill s).1 := by
  unfold fill
  split
  · exact h
  · exact etime_frame h rfl rfl rfl rfl rfl h.t_tick h.t_wgc

theorem etime_take {s : Emu} (h : ETime s) : ETime (take s).1 := by
  unfold take
  split
  · exact h
  · have h' : ETime { s with out := ‹List (List Nat)› } := etime_frame h rfl rfl rfl rfl rfl h.t_tick h.t_wgc
    dsimp only
    split
    · exact etime_tickLater h'
    · exact h'

theorem etime_deliver {s : Emu} (h : ETime s) (id : Nat) : ETime (deliver s id).1 := by
  unfold deliver
  split
  · exact h
  · have h' : ETime { s with inbuf := s.inbuf ++ [id] } := etime_frame h rfl rfl rfl rfl rfl h.t_tick h.t_wgc
    dsimp only
    split
    · exact etime_tickLater h'
    · exact h'

theorem minOK_iff (s : Emu) (t : Nat) : minOK s t = true ↔
    (∀ x ∈ s.ticks, t ≤ x) ∧ (∀ x ∈ s.emus, t ≤ x) ∧ (∀ p ∈ s.wgcs, t ≤ p.1) := by
  simp [minOK, and_assoc]

/-- the clock advances to a time no pending event precedes -/
theorem etime_advance {s : Emu} (h : ETime s) (t : Nat) (hm : minOK s t = true) (hle : s.now ≤ t) :
    ETime { s with now := t } := by
  obtain ⟨m1, m2, m3⟩ := (minOK_iff s t).mp hm
  refine ⟨h.P_pos, m1, m2, m3, h.q_emu, ?_⟩
  intro hlt
  apply h.nt_emu
  show s.now < s.nextTick
  have : t < s.nextTick := hlt
  omega

theorem ceilP_dvd (P n : Nat) : P ∣ ceilP P n := ⟨(n + P - 1) / P, Nat.mul_comm _ _⟩

theorem le_ceilP (P n : Nat) (hP : 0 < P) : n ≤ ceilP P n := by
  unfold ceilP
  have h1 := Nat.div_add_mod (n + P - 1) P
  have h2 := Nat.mod_lt (n + P - 1) hP
  have h3 : (n + P - 1) / P * P = P * ((n + P - 1) / P) := Nat.mul_comm _ _
  omega

/-- `processMapWGReq` at ANY time, whole seconds included: when `nextTick <= now` the emulation
    event is scheduled for `Ceil(now) >= now` — possibly `now` itself, which a time-ordered engine
    still fires after the current event -/
theorem etime_procMap {s : Emu} (h : ETime s) : ETime (procMap s) := by
  unfold procMap
  split
  · exact h
  · rename_i id rest hin
    dsimp only
    by_cases hc : s.nextTick ≤ s.now
    · simp only [hc, if_true]
      refine ⟨h.P_pos, h.t_tick, ?_, h.t_wgc, ?_, ?_⟩
      · intro e he
        rcases mem_snoc.mp he with he | he
        · exact h.t_emu e he
        · rw [he]; exact le_ceilP _ _ h.P_pos
      · intro _ hc'
        exact absurd hc' (by simp)
      · intro _
        exact mem_snoc.mpr (Or.inr rfl)
    · simp only [hc, if_false]
      have hlt : s.now < s.nextTick := by omega
      exact ⟨h.P_pos, h.t_tick, h.t_emu, h.t_wgc, fun _ => List.ne_nil_of_mem (h.nt_emu hlt), fun _ => h.nt_emu hlt⟩

theorem etime_fireTick {s : Emu} (h : ETime s) (t : Nat) (hok : Legal s (.tick t)) : ETime (fireTick s t) := by
  obtain ⟨hmem, hm⟩ := hok
  have h1 := etime_advance h t hm (h.t_tick t hmem)
  have h2 : ETime { s with ticks := s.ticks.erase t, now := t } :=
    etime_frame h1 rfl rfl rfl rfl rfl (fun x hx => h1.t_tick x (List.mem_of_mem_erase hx)) h1.t_wgc
  exact etime_procMap h2

theorem etime_fireEmu {s : Emu} (h : ETime s) (t : Nat) (hok : Legal s (.emu t)) : ETime (fireEmu s t) := by
  obtain ⟨hmem, hm⟩ := hok
  have h1 := etime_advance h t hm (h.t_emu t hmem)
  show ETime (runEmu { s with emus := s.emus.erase t, now := t })
  unfold runEmu
  refine ⟨h.P_pos, h1.t_tick, ?_, ?_, fun hc => absurd rfl hc, ?_⟩
  · intro e he; exact h1.t_emu e (List.mem_of_mem_erase he)
  · intro p hp
    rcases List.mem_append.mp hp with hp | hp
    · exact h1.t_wgc p hp
    · obtain ⟨x, _, rfl⟩ := List.mem_map.mp hp
      show t ≤ t + 1
      omega
  · intro hlt
    have hlt' : t < s.nextTick := hlt
    have hne : s.nextTick ≠ t := by omega
    have := h1.nt_emu hlt
    exact (List.mem_erase_of_ne hne).mpr this

end C09.CUSide
