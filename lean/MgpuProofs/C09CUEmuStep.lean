import MgpuProofs.C09CUEmu
/-! # C09, emulation compute unit — the event handlers keep the invariant -/
namespace C09.CUSide

theorem minOK_iff (s : Emu) (t : Nat) : minOK s t = true ↔
    (∀ x ∈ s.ticks, t ≤ x) ∧ (∀ x ∈ s.emus, t ≤ x) ∧ (∀ p ∈ s.wgcs, t ≤ p.1) := by
  simp [minOK, and_assoc]

/-- the clock advances to a time no pending event precedes -/
theorem einv_advance {s : Emu} (h : EInv s) (t : Nat) (hm : minOK s t = true) (hle : s.now ≤ t) :
    EInv { s with now := t } := by
  obtain ⟨m1, m2, m3⟩ := (minOK_iff s t).mp hm
  exact ⟨h.P_pos, m1, m2, m3, h.got_nd, h.in_nd, h.in_fresh, h.q_wfs, h.wfs_got, h.fin_got,
    h.sent_got, h.wid_got, h.q_nd, h.wfs_nd, h.fin_nd, h.wid_nd, h.sent_nd, h.wfs_fin, h.wfs_sent,
    h.fin_sent, h.q_wid, h.wgc_ok, h.wfs_cov, h.q_emu,
    (by
      intro hlt
      apply h.nt_emu
      show s.now < s.nextTick
      have : t < s.nextTick := hlt
      omega),
    h.fin_cov, h.got_cov, h.emu_sec,
    (by
      intro p hp hnw
      have := h.r_soon p hp hnw
      show p.1 ≤ t + 1
      omega),
    h.r_first, h.r_emu, h.r_one⟩

theorem ceilP_dvd (P n : Nat) : P ∣ ceilP P n := ⟨(n + P - 1) / P, Nat.mul_comm _ _⟩

theorem le_ceilP (P n : Nat) (hP : 0 < P) : n ≤ ceilP P n := by
  unfold ceilP
  have h1 := Nat.div_add_mod (n + P - 1) P
  have h2 := Nat.mod_lt (n + P - 1) hP
  have h3 : (n + P - 1) / P * P = P * ((n + P - 1) / P) := Nat.mul_comm _ _
  omega

theorem lt_ceilP (P n : Nat) (hP : 0 < P) (hnd : ¬ P ∣ n) : n < ceilP P n := by
  have h1 := le_ceilP P n hP
  have h2 := ceilP_dvd P n
  rcases Nat.lt_or_ge n (ceilP P n) with h | h
  · exact h
  · have : ceilP P n = n := by omega
    rw [this] at h2
    exact absurd h2 hnd

/-- `processMapWGReq` takes request `id` (not at a whole second) -/
theorem einv_take_req {s : Emu} (h : EInv s) (id : Nat) (rest : List Nat) (hin : s.inbuf = id :: rest)
    (hH : ¬ s.P ∣ s.now) (N' : Nat) (E' : List Nat)
    (ha : ∀ e ∈ E', e ∈ s.emus ∨ e = ceilP s.P s.now) (hc : E' ≠ []) (hd : s.now < N' → N' ∈ E') :
    EInv { s with inbuf := rest, nextTick := N', emus := E', queue := s.queue ++ [id],
                  wfs := s.wfs ++ [id], got := s.got ++ [id] } := by
  have hidin : id ∈ s.inbuf := by rw [hin]; simp
  have hg : id ∉ s.got := h.in_fresh id hidin
  have hnd := h.in_nd
  rw [hin] at hnd
  have hnd' := List.nodup_cons.mp hnd
  have hw : id ∉ s.wfs := fun hc => hg (h.wfs_got id hc)
  have hq : id ∉ s.queue := fun hc => hw (h.q_wfs id hc)
  have hf : id ∉ s.finished := fun hc => hg (h.fin_got id hc)
  have hs : id ∉ flat s := fun hc => hg (h.sent_got id hc)
  have hwid : ∀ p ∈ s.wgcs, p.2 ≠ id := fun p hp hc => hg (hc ▸ h.wid_got p hp)
  have hnotw : ∀ p ∈ s.wgcs, p.2 ∉ s.wfs ++ [id] → p.2 ∉ s.wfs := fun p _ hn hc => hn (List.mem_append_left _ hc)
  refine ⟨h.P_pos, h.t_tick, ?_, h.t_wgc, ?_, hnd'.2, ?_, ?_, ?_, ?_, ?_, ?_, ?_, ?_, h.fin_nd, h.wid_nd,
    h.sent_nd, ?_, ?_, h.fin_sent, ?_, ?_, ?_, fun _ => hc, hd, ?_, ?_, ?_, ?_, ?_, ?_, ?_⟩
  · intro e he
    rcases ha e he with he | he
    · exact h.t_emu e he
    · rw [he]; exact le_ceilP _ _ h.P_pos
  · show (s.got ++ [id]).Nodup
    rw [List.nodup_append]
    exact ⟨h.got_nd, by simp, by intro a ha' b hb hab; simp at hb; subst hab; subst hb; exact hg ha'⟩
  · intro x hx
    show x ∉ s.got ++ [id]
    intro hc'
    rcases List.mem_append.mp hc' with hc' | hc'
    · exact h.in_fresh x (by rw [hin]; exact List.mem_cons_of_mem _ hx) hc'
    · simp at hc'; subst hc'; exact hnd'.1 hx
  · intro x hx
    show x ∈ s.wfs ++ [id]
    rcases List.mem_append.mp hx with hx | hx
    · exact List.mem_append_left _ (h.q_wfs x hx)
    · exact List.mem_append_right _ hx
  · intro x hx
    show x ∈ s.got ++ [id]
    rcases List.mem_append.mp hx with hx | hx
    · exact List.mem_append_left _ (h.wfs_got x hx)
    · exact List.mem_append_right _ hx
  · intro x hx; exact List.mem_append_left _ (h.fin_got x hx)
  · intro x hx; exact List.mem_append_left _ (h.sent_got x hx)
  · intro p hp; exact List.mem_append_left _ (h.wid_got p hp)
  · show (s.queue ++ [id]).Nodup
    rw [List.nodup_append]
    exact ⟨h.q_nd, by simp, by intro a ha' b hb hab; simp at hb; subst hab; subst hb; exact hq ha'⟩
  · show (s.wfs ++ [id]).Nodup
    rw [List.nodup_append]
    exact ⟨h.wfs_nd, by simp, by intro a ha' b hb hab; simp at hb; subst hab; subst hb; exact hw ha'⟩
  · intro x hx
    rcases List.mem_append.mp hx with hx | hx
    · exact h.wfs_fin x hx
    · simp at hx; subst hx; exact hf
  · intro x hx
    rcases List.mem_append.mp hx with hx | hx
    · exact h.wfs_sent x hx
    · simp at hx; subst hx; exact hs
  · intro x hx
    rcases List.mem_append.mp hx with hx | hx
    · exact h.q_wid x hx
    · simp at hx; subst hx
      intro hc'
      obtain ⟨p, hp, hp2⟩ := List.mem_map.mp hc'
      exact hwid p hp hp2
  · intro p hp
    refine ⟨(h.wgc_ok p hp).1, ?_⟩
    rcases (h.wgc_ok p hp).2 with h1 | h1
    · exact Or.inl (List.mem_append_left _ h1)
    · exact Or.inr h1
  · intro x hx
    rcases List.mem_append.mp hx with hx | hx
    · rcases h.wfs_cov x hx with h1 | h1
      · exact Or.inl (List.mem_append_left _ h1)
      · exact Or.inr h1
    · exact Or.inl (List.mem_append_right _ hx)
  · intro _; left; simp
  · intro x hx
    rcases List.mem_append.mp hx with hx | hx
    · rcases h.got_cov x hx with h1 | h1 | h1
      · exact Or.inl (List.mem_append_left _ h1)
      · exact Or.inr (Or.inl h1)
      · exact Or.inr (Or.inr h1)
    · exact Or.inl (List.mem_append_right _ hx)
  · intro e he
    rcases ha e he with he | he
    · exact h.emu_sec e he
    · rw [he]; exact ceilP_dvd _ _
  · intro p hp hn; exact h.r_soon p hp (hnotw p hp hn)
  · intro p hp hn q hq' hqw
    refine h.r_first p hp (hnotw p hp hn) q hq' ?_
    rcases List.mem_append.mp hqw with hqw | hqw
    · exact hqw
    · simp at hqw; exact absurd hqw (hwid q hq')
  · intro p hp hn _ e he
    have h1 := h.r_soon p hp (hnotw p hp hn)
    show p.1 ≤ e
    rcases ha e he with he | he
    · have h2 := h.t_emu e he
      have h3 := h.emu_sec e he
      have : e ≠ s.now := fun hc' => hH (hc' ▸ h3)
      omega
    · have := lt_ceilP s.P s.now h.P_pos hH
      omega
  · intro p hp hn q hq' hqn; exact h.r_one p hp (hnotw p hp hn) q hq' (hnotw q hq' hqn)

theorem einv_procMap {s : Emu} (h : EInv s) (hH : s.inbuf ≠ [] → ¬ s.P ∣ s.now) : EInv (procMap s) := by
  unfold procMap
  split
  · exact h
  · rename_i id rest hin
    have hH' := hH (by rw [hin]; simp)
    have hw : id ∉ s.wfs := fun hc => h.in_fresh id (by rw [hin]; simp) (h.wfs_got id hc)
    have hins : ins id s.wfs = s.wfs ++ [id] := by simp [ins, hw]
    dsimp only
    by_cases hc : s.nextTick ≤ s.now
    · simp only [hc, if_true, hins]
      exact einv_take_req h id rest hin hH' (ceilP s.P s.now) (s.emus ++ [ceilP s.P s.now])
        (by intro e he; rcases List.mem_append.mp he with he | he
            · exact Or.inl he
            · simp at he; exact Or.inr he)
        (by simp) (by intro _; simp)
    · simp only [hc, if_false, hins]
      have hlt : s.now < s.nextTick := by omega
      exact einv_take_req h id rest hin hH' s.nextTick s.emus (fun e he => Or.inl he)
        (List.ne_nil_of_mem (h.nt_emu hlt)) (fun _ => h.nt_emu hlt)

/-- a Tick (`processMapWGReq`) fires -/
theorem einv_fireTick {s : Emu} (h : EInv s) (t : Nat) (hok : EOk s (.tick t)) : EInv (fireTick s t) := by
  obtain ⟨⟨hmem, hm⟩, hH⟩ := hok
  have hle : s.now ≤ t := h.t_tick t hmem
  have h1 := einv_advance h t hm hle
  have h2 : EInv { s with ticks := s.ticks.erase t, now := t } :=
    einv_frame h1 rfl rfl rfl rfl rfl rfl rfl rfl rfl rfl rfl
      (fun x hx => h1.t_tick x (List.mem_of_mem_erase hx))
  exact einv_procMap h2 hH

theorem foldl_ins_of_subset : ∀ (q w : List Nat), (∀ x ∈ q, x ∈ w) → q.foldl (fun w id => ins id w) w = w
  | [], _, _ => rfl
  | a :: q, w, hs => by
    have ha : a ∈ w := hs a (by simp)
    rw [List.foldl_cons]
    have : ins a w = w := by simp [ins, ha]
    rw [this]
    exact foldl_ins_of_subset q w (fun x hx => hs x (List.mem_cons_of_mem _ hx))

/-- the emulation event at the current time runs every queued work-group -/
theorem einv_runEmu {s : Emu} (h : EInv s) (hmem : s.now ∈ s.emus) :
    EInv (runEmu { s with emus := s.emus.erase s.now }) := by
  unfold runEmu
  dsimp only
  rw [foldl_ins_of_subset s.queue s.wfs h.q_wfs]
  have hnew : ∀ p ∈ s.queue.map (fun id => (s.now + 1, id)), p.1 = s.now + 1 ∧ p.2 ∈ s.queue := by
    intro p hp
    obtain ⟨x, hx, rfl⟩ := List.mem_map.mp hp
    exact ⟨rfl, hx⟩
  have hretry : ∀ p ∈ s.wgcs ++ s.queue.map (fun id => (s.now + 1, id)), p.2 ∉ s.wfs → p ∈ s.wgcs := by
    intro p hp hn
    rcases List.mem_append.mp hp with hp | hp
    · exact hp
    · exact absurd (h.q_wfs _ (hnew p hp).2) hn
  refine ⟨h.P_pos, h.t_tick, ?_, ?_, h.got_nd, h.in_nd, h.in_fresh, ?_, h.wfs_got, h.fin_got, h.sent_got,
    ?_, List.nodup_nil, h.wfs_nd, h.fin_nd, ?_, h.sent_nd, h.wfs_fin, h.wfs_sent, h.fin_sent, ?_, ?_, ?_,
    fun hc => absurd rfl hc, ?_, ?_, h.got_cov, ?_, ?_, ?_, ?_, ?_⟩
  · intro e he; exact h.t_emu e (List.mem_of_mem_erase he)
  · intro p hp
    rcases List.mem_append.mp hp with hp | hp
    · exact h.t_wgc p hp
    · have := (hnew p hp).1
      show s.now ≤ p.1
      omega
  · intro x hx; cases hx
  · intro p hp
    rcases List.mem_append.mp hp with hp | hp
    · exact h.wid_got p hp
    · exact h.wfs_got _ (h.q_wfs _ (hnew p hp).2)
  · show ((s.wgcs ++ s.queue.map (fun id => (s.now + 1, id))).map (·.2)).Nodup
    rw [List.map_append, List.map_map]
    have : (List.map ((fun x => x.2) ∘ fun id => (s.now + 1, id)) s.queue) = s.queue := by
      simp [Function.comp_def]
    rw [this, List.nodup_append]
    refine ⟨h.wid_nd, h.q_nd, ?_⟩
    intro a ha b hb hab
    subst hab
    exact h.q_wid a hb ha
  · intro x hx; cases hx
  · intro p hp
    rcases List.mem_append.mp hp with hp | hp
    · exact h.wgc_ok p hp
    · have hw := h.q_wfs _ (hnew p hp).2
      exact ⟨h.wfs_sent _ hw, Or.inl hw⟩
  · intro x hx
    right
    show x ∈ (s.wgcs ++ s.queue.map (fun id => (s.now + 1, id))).map (·.2)
    rw [List.map_append, List.mem_append]
    rcases h.wfs_cov x hx with h1 | h1
    · right; exact List.mem_map.mpr ⟨(s.now + 1, x), List.mem_map.mpr ⟨x, h1, rfl⟩, rfl⟩
    · left; exact h1
  · intro hlt
    have := h.nt_emu hlt
    have hne : s.nextTick ≠ s.now := by
      have : s.now < s.nextTick := hlt
      omega
    exact (List.mem_erase_of_ne hne).mpr this
  · intro hf
    rcases h.fin_cov hf with h1 | ⟨p, hp, hpn⟩
    · exact Or.inl h1
    · exact Or.inr ⟨p, List.mem_append_left _ hp, hpn⟩
  · intro e he; exact h.emu_sec e (List.mem_of_mem_erase he)
  · intro p hp hn; exact h.r_soon p (hretry p hp hn) hn
  · intro p hp hn q hq hqw
    have hp' := hretry p hp hn
    rcases List.mem_append.mp hq with hq | hq
    · exact h.r_first p hp' hn q hq hqw
    · have hq' := hnew q hq
      have hne : s.queue ≠ [] := List.ne_nil_of_mem hq'.2
      have := h.r_emu p hp' hn hne s.now hmem
      show p.1 < q.1
      omega
  · intro p hp hn hc; exact absurd rfl hc
  · intro p hp hn q hq hqn
    exact h.r_one p (hretry p hp hn) hn q (hretry q hq hqn) hqn

theorem einv_fireEmu {s : Emu} (h : EInv s) (t : Nat) (hok : EOk s (.emu t)) : EInv (fireEmu s t) := by
  obtain ⟨hmem, hm⟩ := hok
  have hle : s.now ≤ t := h.t_emu t hmem
  have h1 := einv_advance h t hm hle
  exact einv_runEmu h1 hmem

end C09.CUSide
