import MgpuProofs.C07DispInit
set_option linter.unusedVariables false
set_option linter.unusedSimpArgs false
/-! # C07 helper lemmas: the emulator's `initWfRegs` as a sequence of operand writes; the state of a wavefront the emulation compute unit creates -/
namespace C07
open Gen

/-! ## a run of one store, keeping the state -/

/-- the store after a sequence of accesses -/
def EmuRF.runSt (e : EmuRF) : List Op → EmuRF
  | [] => e
  | o :: ops => EmuRF.runSt (e.step o).1 ops

theorem EmuRF.runSt_append (l1 l2 : List Op) : ∀ e : EmuRF, e.runSt (l1 ++ l2) = (e.runSt l1).runSt l2 := by
  induction l1 with
  | nil => intro e; rfl
  | cons o l1 ih => intro e; simp only [List.cons_append, EmuRF.runSt]; exact ih _

/-- accesses of wavefront 0 only: its store after the run depends on its store before alone -/
theorem EmuG.exec_single_state (ops : List Op) : ∀ es : EmuG,
    (es.exec (ops.map fun o => (0, o))).1 0 = (es 0).runSt ops := by
  induction ops with
  | nil => intro es; rfl
  | cons o ops ih =>
    intro es
    simp only [List.map_cons, EmuG.exec, EmuRF.runSt]
    rw [ih]
    simp [EmuG.step]

/-! ## one SGPR write is one `PutUintNN` -/

theorem emu_step_s (e : EmuRF) (i rc lane : Nat) (data : List UInt8) (hs : e.Sized)
    (h : i + cnt rc ≤ 102) (hd : data.length = 4 * cnt rc) :
    (e.step (.wb ⟨.s i, rc, lane⟩ data)).1 = { e with sfile := wr e.sfile (i * 4) data } := by
  have hc := cnt_pos rc
  have hi : i < 102 := by omega
  obtain ⟨hs1, hs2⟩ := hs
  simp only [EmuRF.step, EmuRF.writeOperandBytes, Kind.reg, EmuRF.writeReg,
    numBytes_of4 _ rc (byteSize_s i hi), isSReg_s i hi, regIndex_s i hi, ↓reduceIte]
  rw [if_pos (by omega), take_len data _ hd]

/-- the scalar part: `putAll` is the run of the SGPR operand writes -/
theorem putAll_run (l : List (Nat × Nat × Nat)) : ∀ e : EmuRF, e.Sized →
    (∀ x ∈ l, (Op.wb ⟨.s x.1, x.2.1, 0⟩ (toLE (4 * x.2.1) x.2.2)).Ok 102 256) →
    (EmuRF.putAll e.sfile l).2 = none ∧
    e.runSt (l.map fun x => Op.wb ⟨.s x.1, x.2.1, 0⟩ (toLE (4 * x.2.1) x.2.2)) =
      { e with sfile := (EmuRF.putAll e.sfile l).1 } ∧
    (e.runSt (l.map fun x => Op.wb ⟨.s x.1, x.2.1, 0⟩ (toLE (4 * x.2.1) x.2.2))).Sized := by
  induction l with
  | nil => intro e hs _; exact ⟨rfl, rfl, hs⟩
  | cons x l ih =>
    intro e hs hok
    obtain ⟨idx, rc, v⟩ := x
    have hx := hok (idx, rc, v) (by simp)
    obtain ⟨⟨h1, h2⟩, hd⟩ := hx
    simp only at h2
    rw [width_s, toLE_length] at hd
    simp only at h1 h2 hd
    have hrc : cnt rc = rc := by omega
    have hstep := emu_step_s e idx rc 0 (toLE (4 * rc) v) hs h2 (by rw [toLE_length, hrc])
    have hs' := (emu_step_refines e (Op.wb ⟨.s idx, rc, 0⟩ (toLE (4 * rc) v)) hs
      (hok (idx, rc, v) (by simp))).2.2
    obtain ⟨i1, i2, i3⟩ := ih _ hs' (fun y hy => hok y (by simp [hy]))
    have hsz : idx * 4 + 4 * rc ≤ e.sfile.size := by rw [hs.1]; omega
    simp only [List.map_cons, EmuRF.runSt, EmuRF.putAll]
    rw [if_pos hsz]
    rw [hstep] at i1 i2 i3 ⊢
    exact ⟨i1, i2, i3⟩

/-! ## the vector part is literally a run of `WriteReg` -/

theorem writeAllV_run (l : List (Acc × List UInt8)) : ∀ e : EmuRF, e.Sized →
    (∀ p ∈ l, (Op.wb p.1 p.2).Ok 102 256) →
    e.writeAllV (l.map fun p => (p.1.k.reg, p.1.rc, p.1.lane, p.2)) =
      (e.runSt (l.map fun p => Op.wb p.1 p.2), none) := by
  induction l with
  | nil => intro e _ _; rfl
  | cons p l ih =>
    intro e hs hok
    obtain ⟨ha, hd⟩ := hok p (by simp)
    obtain ⟨w1, _, w3⟩ := emu_writeReg e p.1 p.2 hs ha hd
    have := ih (e.writeReg p.1.k.reg p.1.rc p.1.lane p.2).1 w3 (fun q hq => hok q (by simp [hq]))
    simp only [List.map_cons, EmuRF.writeAllV, EmuRF.runSt, EmuRF.step, EmuRF.writeOperandBytes]
    generalize hr : e.writeReg p.1.k.reg p.1.rc p.1.lane p.2 = r at w1 this
    obtain ⟨r1, r2⟩ := r
    simp only at w1
    subst w1
    exact this

/-- the vector accesses of a dispatch -/
def vAccs (d : DispInfo) : List (Acc × List UInt8) :=
  (List.range 64).flatMap fun lane => (laneInits d lane).map fun x => (⟨.v x.1, 1, lane⟩, toLE 4 x.2)

theorem emu_vgprWrites_eq (d : DispInfo) :
    vgprWrites d = (vAccs d).map fun p => (p.1.k.reg, p.1.rc, p.1.lane, p.2) := by
  simp only [vgprWrites, vAccs, List.map_flatMap, List.map_map]
  rfl

theorem emu_initOps_eq (d : DispInfo) :
    initOps d = (sgprInits d).map (fun x => Op.wb ⟨.s x.1, x.2.1, 0⟩ (toLE (4 * x.2.1) x.2.2)) ++
      (vAccs d).map fun p => Op.wb p.1 p.2 := by
  simp only [initOps, vAccs, List.map_flatMap, List.map_map]
  rfl

/-- `initWfRegs` as a run of the store -/
theorem emu_init_run (e : EmuRF) (d : DispInfo) (hs : e.Sized) (hfit : AbiFits d 102 256) :
    e.initWfRegs d = (({ e with exec := d.exec } : EmuRF).runSt (initOps d), none) := by
  have hok := abiFits_ok d 102 256 hfit
  rw [emu_initOps_eq] at hok ⊢
  have hs0 : ({ e with exec := d.exec } : EmuRF).Sized := hs
  obtain ⟨p1, p2, p3⟩ := putAll_run (sgprInits d) { e with exec := d.exec } hs0
    (fun x hx => hok _ (List.mem_append_left _ (List.mem_map_of_mem hx)))
  have hv := writeAllV_run (vAccs d) _ p3
    (fun p hp => hok _ (List.mem_append_right _ (List.mem_map_of_mem (f := fun p => Op.wb p.1 p.2) hp)))
  rw [EmuRF.runSt_append, ← hv, p2, ← emu_vgprWrites_eq]
  simp only [EmuRF.initWfRegs]
  simp only at p1
  rw [p1]

/-- **T3** the emulator's `initWfRegs`: `SetEXEC(InitExecMask)` followed by the same operand writes -/
theorem emu_init_is_init_sequence (e : EmuRF) (d : DispInfo) (hs : e.Sized) (hfit : AbiFits d 102 256) :
    e.initWfRegs d =
      ((EmuG.exec (fun _ => { e with exec := d.exec }) ((initOps d).map fun o => (0, o))).1 0, none) := by
  rw [EmuG.exec_single_state, emu_init_run e d hs hfit]

/-! ## the new wavefront -/

theorem get_replicate_zero (n p : Nat) : get (Array.replicate n 0) p = 0 := by
  simp [get, Array.getD_eq_getD_getElem?, Array.getElem?_replicate]
  split <;> rfl

theorem fresh_sized : EmuRF.fresh.Sized := ⟨by simp [EmuRF.fresh], by simp [EmuRF.fresh]⟩

/-- the abstract map of a new wavefront's store before the ABI registers are written -/
theorem fresh_cell (x : UInt64) (id : CellId) :
    (absE { EmuRF.fresh with exec := x }).toMap id =
      (match id with
       | .execLo => lo32 x
       | .execHi => hi32 x
       | _ => 0) := by
  cases id with
  | s i => exact winCells_zero _ _ _ (fun p _ _ => get_replicate_zero _ p) i
  | v l i =>
    show laneCells _ 0 256 l i = 0
    simp only [laneCells]
    split
    · exact winCells_zero _ _ _ (fun p _ _ => get_replicate_zero _ p) i
    · rfl
  | vccLo => rfl
  | vccHi => show hi32 0 = 0; decide
  | execLo => rfl
  | execHi => rfl
  | scc => rfl
  | m0 => rfl

/-- **T5** a wavefront the emulation compute unit creates holds `freshMap` of its dispatch -/
theorem emu_fresh_map (d : DispInfo) (hfit : AbiFits d 102 256) :
    (emuFresh d).2 = none ∧ (emuFresh d).1.Sized ∧ MapAgree 102 256 (absE (emuFresh d).1).toMap (freshMap d) := by
  have hinit := emu_init_is_init_sequence EmuRF.fresh d fresh_sized hfit
  have hs0 : ∀ j : Nat, ((fun _ => { EmuRF.fresh with exec := d.exec } : EmuG) j).Sized := fun _ => fresh_sized
  have hok : ∀ p ∈ (initOps d).map (fun o => ((0 : Nat), o)), p.2.Ok 102 256 := by
    intro p hp
    obtain ⟨o, ho, rfl⟩ := List.mem_map.mp hp
    exact abiFits_ok d 102 256 hfit o ho
  obtain ⟨_, r2, r3⟩ := emu_exec_refines _ _ hs0 hok
  unfold emuFresh
  rw [hinit]
  refine ⟨rfl, r3 0, fun id _ => ?_⟩
  have h1 := congrFun (congrFun r2 0) id
  simp only [absEG] at h1
  simp only at h1 ⊢
  rw [h1, gmap_last_write]
  exact congrArg (fun z => (lastWrite 0 id ((initOps d).map fun o => (0, o))).getD z) (fresh_cell d.exec id)

/-- the stores `initWfs` creates for a mapped work-group do not depend on the compute unit's history -/
theorem emu_mapWG_fresh (cu : EmuCU) (key : Nat) (ds : List DispInfo) :
    (cu.mapWG key ds).getLast? = some (key, ds.map fun d => (emuFresh d).1) ∧
    (cu.mapWG key ds).take cu.length = cu := by
  unfold EmuCU.mapWG
  exact ⟨by simp, by simp⟩

end C07
