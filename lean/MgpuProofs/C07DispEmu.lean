import MgpuProofs.C07DispInit
set_option linter.unusedVariables false
set_option linter.unusedSimpArgs false
/-! # C07 helper lemmas: the emulator's `initWfRegs` as a sequence of operand writes; the state of a wavefront the emulation compute unit creates -/
namespace C07
open Gen

/-- **T3** the emulator's `initWfRegs`: `SetEXEC(InitExecMask)` followed by the same operand writes -/
theorem emu_init_is_init_sequence (e : EmuRF) (d : DispInfo) (hs : e.Sized) (hfit : AbiFits d 102 256) :
    e.initWfRegs d =
      ((EmuG.exec (fun _ => { e with exec := d.exec }) ((initOps d).map fun o => (0, o))).1 0, none) := by
  sorry

/-- **T5** a wavefront the emulation compute unit creates holds `freshMap` of its dispatch -/
theorem emu_fresh_map (d : DispInfo) (hfit : AbiFits d 102 256) :
    (emuFresh d).2 = none ∧ (emuFresh d).1.Sized ∧ MapAgree 102 256 (absE (emuFresh d).1).toMap (freshMap d) := by
  sorry

end C07
