import MgpuModel.Gen.LaneBodies
/-! # C06 — lemmas about translated lane bodies: bit tests at the loop variable, accumulator updates, `goRun = vexec` -/
namespace C06
open Gen.Lane

theorem ofNat_toNat_lt {i : Nat} (h : i < 64) : (BitVec.ofNat 64 i).toNat = i := by
  simp [BitVec.toNat_ofNat]; omega

theorem ofNat32_toNat_lt {i : Nat} (h : i < 64) : (BitVec.setWidth 32 (BitVec.ofNat 64 i)).toNat = i := by
  simp [BitVec.toNat_ofNat]; omega

theorem one_shl_getLsbD (i j : Nat) : (1#64 <<< i).getLsbD j = (decide (j = i) && decide (j < 64)) := by
  simp only [BitVec.getLsbD_shiftLeft]
  by_cases h : j = i
  · subst h; by_cases h2 : j < 64 <;> simp [h2]
  · by_cases h2 : j < i
    · simp [h2, h]
    · have : j - i ≠ 0 := by omega
      simp [h2, h, BitVec.getLsbD_one, this]

theorem and_one_shl_eq (x : BitVec 64) (i : Nat) (hi : i < 64) :
    x &&& (1#64 <<< i) = if x.getLsbD i then 1#64 <<< i else 0#64 := by
  apply BitVec.eq_of_getLsbD_eq
  intro j hj
  by_cases hx : x.getLsbD i
  · simp only [hx, if_true, BitVec.getLsbD_and, one_shl_getLsbD]
    by_cases h : j = i
    · subst h; simp [hx, hj]
    · simp [h]
  · simp only [hx, BitVec.getLsbD_and, one_shl_getLsbD]
    by_cases h : j = i
    · subst h; simp [hx]
    · simp [h]

theorem one_shl_ne_zero (i : Nat) (hi : i < 64) : (1#64 <<< i) ≠ 0#64 := by
  intro h
  have := congrArg (fun v => v.getLsbD i) h
  simp [hi] at this

/-- `x & (1<<i) != 0` -/
theorem test_ne (x : BitVec 64) (i : Nat) (hi : i < 64) : ((x &&& (1#64 <<< i)) != 0#64) = x.getLsbD i := by
  rw [and_one_shl_eq x i hi]
  by_cases hx : x.getLsbD i <;> simp [hx, one_shl_ne_zero i hi]

theorem test_eq (x : BitVec 64) (i : Nat) (hi : i < 64) : ((x &&& (1#64 <<< i)) == 0#64) = !x.getLsbD i := by
  rw [and_one_shl_eq x i hi]
  by_cases hx : x.getLsbD i <;> simp [hx, one_shl_ne_zero i hi]

theorem test_gt (x : BitVec 64) (i : Nat) (hi : i < 64) : BitVec.ult 0#64 (x &&& (1#64 <<< i)) = x.getLsbD i := by
  rw [and_one_shl_eq x i hi]
  by_cases hx : x.getLsbD i
  · simp only [hx, if_true]
    have := one_shl_ne_zero i hi
    simp only [BitVec.ult, BitVec.toNat_ofNat, Nat.zero_mod, decide_eq_true_eq]
    apply Nat.pos_of_ne_zero
    intro h0
    exact this (BitVec.eq_of_toNat_eq (by simpa using h0))
  · simp [hx, BitVec.ult]

theorem val_and_shr (x : BitVec 64) (i : Nat) (hi : i < 64) : (x &&& (1#64 <<< i)) >>> i = b2bv (x.getLsbD i) := by
  apply BitVec.eq_of_getLsbD_eq
  intro j hj
  simp only [BitVec.getLsbD_ushiftRight, BitVec.getLsbD_and, one_shl_getLsbD, b2bv]
  by_cases hx : x.getLsbD i <;> by_cases h0 : j = 0
  · subst h0; simp [hx, hi]
  · simp [hx, BitVec.getLsbD_one, h0]
  · subst h0; simp [hx]
  · simp [hx]
    intro _ hj0
    exact absurd hj0 h0

theorem val_shr_and (x : BitVec 64) (i : Nat) (_hi : i < 64) : (x >>> i) &&& 1#64 = b2bv (x.getLsbD i) := by
  apply BitVec.eq_of_getLsbD_eq
  intro j hj
  simp only [BitVec.getLsbD_ushiftRight, BitVec.getLsbD_and, b2bv]
  by_cases hx : x.getLsbD i <;> by_cases h0 : j = 0
  · subst h0; simp [hx]
  · simp [hx, BitVec.getLsbD_one, h0]
  · subst h0; simp [hx]
  · simp [hx, BitVec.getLsbD_one, h0]


/-! setBit -/
theorem setBit_getLsbD (a : BitVec 64) (i j : Nat) (b : Bool) (hi : i < 64) :
    (setBit a i b).getLsbD j = if j = i then b else a.getLsbD j := by
  unfold setBit
  cases b
  · simp only [Bool.false_eq_true, if_false, BitVec.getLsbD_and, BitVec.getLsbD_not, one_shl_getLsbD]
    by_cases h : j = i
    · subst h; simp [hi]
    · by_cases h3 : j < 64
      · simp [h, h3]
      · have := BitVec.getLsbD_of_ge a j (by omega)
        simp [this, h]
  · simp only [if_true, BitVec.getLsbD_or, one_shl_getLsbD]
    by_cases h : j = i
    · subst h; simp [hi]
    · simp [h]

theorem setBit_self (a : BitVec 64) (i : Nat) (hi : i < 64) : setBit a i (a.getLsbD i) = a := by
  apply BitVec.eq_of_getLsbD_eq
  intro j _
  rw [setBit_getLsbD _ _ _ _ hi]
  by_cases h : j = i
  · subst h; simp
  · simp [h]

theorem or_one_shl (a : BitVec 64) (i : Nat) : a ||| (1#64 <<< i) = setBit a i true := by simp [setBit]
theorem and_not_one_shl (a : BitVec 64) (i : Nat) : a &&& ~~~(1#64 <<< i) = setBit a i false := by simp [setBit]
theorem or_zero_shl (a : BitVec 64) (i : Nat) : a ||| (0#64 <<< i) = a := by simp

theorem b2bv_getLsbD_zero (b : Bool) : (b2bv b).getLsbD 0 = b := by cases b <;> simp [b2bv]

theorem setBit_b2bv_zero (c b : Bool) : (setBit (b2bv c) 0 b).getLsbD 0 = b := by
  rw [setBit_getLsbD _ _ _ _ (by omega)]; simp

theorem dst_ite (c : Prop) [Decidable c] (a b : RawOut) : (if c then a else b).dst = if c then a.dst else b.dst := by split <;> rfl
theorem acc_ite (c : Prop) [Decidable c] (a b : RawOut) : (if c then a else b).acc = if c then a.acc else b.acc := by split <;> rfl
theorem getLsbD_ite (c : Prop) [Decidable c] (a b : BitVec 64) (j : Nat) :
    (if c then a else b).getLsbD j = if c then a.getLsbD j else b.getLsbD j := by split <;> rfl
theorem setBit_ite (c : Prop) [Decidable c] (a : BitVec 64) (i : Nat) (x y : Bool) :
    setBit a i (if c then x else y) = if c then setBit a i x else setBit a i y := by split <;> rfl

/-! ## the guard as written = "EXEC bit clear" -/

theorem Guard.skips_eq (g : Guard) (exec : BitVec 64) (i : Nat) (hi : i < 64) :
    g.skips exec i = !exec.getLsbD i := by
  cases g
  · exact test_eq exec i hi
  · simp only [Guard.skips, test_gt exec i hi]

/-! ## `goRun` (the handler as Go runs it, 64-bit accumulator) refines `vexec` of the lane-local body -/

/-- the hypotheses that tie the 64-bit Go values to the per-lane bits of the abstract state -/
structure MaskTie (h : LaneHandler) (ops : Ops) (vcc0 : BitVec 64) (s : VState) : Prop where
  /-- `state.VCC()` is the mask source -/
  vcc : h.msrc = .vcc → ∀ l, l < 64 → s.cin l = vcc0.getLsbD l
  /-- the operand named by src2 is the mask source: a uniform 64-bit value (SGPR pair / VCC) -/
  src2 : h.msrc = .src2 → h.accInit ≠ .vcc ∧ ∃ m, ops.src2 = .uni m ∧ ∀ l, l < 64 → s.cin l = m.getLsbD l
  /-- the accumulator read as a source is the in-place one -/
  acc : h.msrc = .acc → h.accInit = .vcc
  /-- `x := state.VCC()` accumulators start from the register the result goes to -/
  inplace : h.accInit = .vcc → ∀ l, s.mout l = vcc0.getLsbD l

/-- relation between the Go loop state and the abstract loop state after `n` iterations -/
structure Sim (h : LaneHandler) (acc0 : BitVec 64) (s0 : VState) (n : Nat) (g : GoSt) (s : VState) : Prop where
  vgpr : g.vgpr = s.vgpr
  cin : s.cin = s0.cin
  mem : s.mem = s0.mem
  log : s.log = s0.log
  /-- bits the loop has not reached yet are the initial ones -/
  rest : ∀ l, n ≤ l → g.acc.getLsbD l = acc0.getLsbD l
  /-- the accumulator variable is the abstract mask result, bit by bit -/
  mout : h.accInit ≠ .none → ∀ l, g.acc.getLsbD l = s.mout l

theorem log_append_accesses_nil (lg : List Access) (i : Nat) (o : LaneOut) (hl : o.loads = []) (hs : o.stores = []) :
    lg ++ accesses i o = lg := by simp [accesses, hl, hs]

theorem goLoop_sim (h : LaneHandler) (hu : LaneUniform h) (ops : Ops) (exec vcc0 : BitVec 64) (s : VState)
    (tie : MaskTie h ops vcc0 s) (n : Nat) (hn : n ≤ 64) :
    let acc0 : BitVec 64 := (match h.accInit with | .vcc => vcc0 | _ => 0#64)
    Sim h acc0 (prologue h.toHandler s) n
      (goLoop h ops exec vcc0 n { vgpr := s.vgpr, acc := acc0 })
      (seqLoop h.toHandler ops (fun i => exec.getLsbD i) n (prologue h.toHandler s)) := by
  intro acc0
  induction n with
  | zero =>
    refine ⟨?_, rfl, rfl, rfl, fun _ _ => rfl, ?_⟩
    · simp [goLoop, seqLoop, prologue]; cases h.toHandler.mask <;> rfl
    · intro hne l
      simp only [goLoop, seqLoop]
      cases hk : h.accInit with
      | none => exact absurd hk hne
      | zero =>
        have : h.toHandler.mask = .fresh := by simp [LaneHandler.toHandler, LaneHandler.maskMode, hk]
        simp [acc0, hk, prologue, this]
      | vcc =>
        have : h.toHandler.mask = .inplace := by simp [LaneHandler.toHandler, LaneHandler.maskMode, hk]
        simp [acc0, hk, prologue, this, tie.inplace hk l]
  | succ n ih =>
    have hlt : n < 64 := by omega
    have ih := ih (by omega)
    simp only [goLoop, seqLoop]
    generalize hg : goLoop h ops exec vcc0 n { vgpr := s.vgpr, acc := acc0 } = g at ih
    generalize hs' : seqLoop h.toHandler ops (fun i => exec.getLsbD i) n (prologue h.toHandler s) = t at ih
    simp only [goIter, Guard.skips_eq _ _ _ hlt]
    by_cases he : exec.getLsbD n = true
    · simp only [he, Bool.not_true, Bool.false_eq_true, ↓reduceIte]
      -- the view of iteration `n` is what the abstract body is given
      have hprol_cin : (prologue h.toHandler s).cin = s.cin := by
        simp only [prologue]; cases h.toHandler.mask <;> rfl
      have hview : h.view (g.rawIn ops vcc0 n) = h.bodyIn ops (laneIn h.toHandler t n) := by
        have hmk : h.toHandler.mask = h.maskMode := rfl
        have hab : g.acc.getLsbD n = (match h.accInit with | .vcc => t.mout n | _ => false) := by
          cases hk : h.accInit with
          | none => simp only []; rw [ih.rest n (Nat.le_refl _)]; simp [acc0, hk]
          | zero => simp only []; rw [ih.rest n (Nat.le_refl _)]; simp [acc0, hk]
          | vcc => simp only []; exact ih.mout (by simp [hk]) n
        simp only [LaneHandler.view, GoSt.rawIn, LaneHandler.bodyIn, laneIn, ih.vgpr, hmk, LaneHandler.maskMode]
        cases hm : h.msrc with
        | none =>
          cases hk : h.accInit <;> simp only [hk] at hab <;> simp [hab]
        | vcc =>
          have hc := tie.vcc hm n hlt
          cases hk : h.accInit with
          | none => simp only [hk] at hab; simp [hab, ih.cin, hprol_cin, hc]
          | zero => simp only [hk] at hab; simp [hab, ih.cin, hprol_cin, hc]
          | vcc =>
            simp only [hk] at hab
            have h1 := ih.rest n (Nat.le_refl _)
            simp only [acc0, hk] at h1
            simp [← hab, h1]
        | src2 =>
          obtain ⟨hnv, m, hm2, hc⟩ := tie.src2 hm
          have hc := hc n hlt
          cases hk : h.accInit with
          | none => simp only [hk] at hab; simp [hab, ih.cin, hprol_cin, hc, hm2, readOpnd]
          | zero => simp only [hk] at hab; simp [hab, ih.cin, hprol_cin, hc, hm2, readOpnd]
          | vcc => exact absurd hk hnv
        | acc =>
          have hk := tie.acc hm
          simp only [hk] at hab
          simp [hk, ← hab]
      obtain ⟨hd, ha⟩ := hu ops.uni (g.rawIn ops vcc0 n) hlt
      rw [hview] at hd ha
      have ha : (h.raw ops.uni (g.rawIn ops vcc0 n)).acc
          = setBit g.acc n (h.body ops.uni (h.bodyIn ops (laneIn h.toHandler t n))).bit := ha
      have hlo : laneOut h.toHandler ops t n =
          { writes := (match (h.body ops.uni (h.bodyIn ops (laneIn h.toHandler t n))).dst with
                        | some v => writeOpnd ops.dst v | none => [])
            bit := (h.body ops.uni (h.bodyIn ops (laneIn h.toHandler t n))).bit, loads := [], stores := [] } := rfl
      refine ⟨?_, ?_, ?_, ?_, ?_, ?_⟩
      · -- registers
        simp only [stepLane, hlo, hd, ← ih.vgpr]
        cases hdd : (h.body ops.uni (h.bodyIn ops (laneIn h.toHandler t n))).dst with
        | none =>
          funext l
          by_cases hl : l = n
          · subst hl; simp [writeCells]
          · simp [hl]
        | some v => rfl
      · simp only [stepLane]; exact ih.cin
      · simp only [stepLane, hlo, applyStores, List.foldl_nil]; exact ih.mem
      · simp only [stepLane, hlo, accesses, List.map_nil, List.append_nil]; exact ih.log
      · intro l hl
        simp only [ha]
        rw [setBit_getLsbD _ _ _ _ hlt]
        have : l ≠ n := by omega
        simp only [this, if_false]
        exact ih.rest l (by omega)
      · intro hne l
        simp only [ha]
        rw [setBit_getLsbD _ _ _ _ hlt]
        have hmk : h.toHandler.mask = h.maskMode := rfl
        simp only [stepLane, hlo, hmk, LaneHandler.maskMode]
        cases hk : h.accInit with
        | none => exact absurd hk hne
        | zero => simp only []; by_cases hl : l = n <;> simp [hl, ih.mout hne l]
        | vcc => simp only []; by_cases hl : l = n <;> simp [hl, ih.mout hne l]
    · have he' : exec.getLsbD n = false := by simpa using he
      simp only [he', Bool.not_false, ↓reduceIte, Bool.false_eq_true]
      exact ⟨ih.vgpr, ih.cin, ih.mem, ih.log, fun l hl => ih.rest l (by omega), ih.mout⟩

/-- the lane-local body does not look at the src2 operand when src2 is the mask source -/
theorem seqLoop_src2_irrel (h : LaneHandler) (ops : Ops) (m' : BitVec 64) (e : Nat → Bool) (n : Nat) (s0 : VState) :
    seqLoop h.toHandler { ops with src2 := (match h.msrc with | .src2 => .uni m' | _ => ops.src2) } e n s0
      = seqLoop h.toHandler ops e n s0 := by
  have : h.toHandler.f { ops with src2 := (match h.msrc with | .src2 => .uni m' | _ => ops.src2) } = h.toHandler.f ops := by
    funext a
    simp only [LaneHandler.toHandler, LaneHandler.bodyIn]
    cases hk : h.msrc <;> simp
  induction n with
  | zero => rfl
  | succ n ih => simp only [seqLoop, ih, stepLane, laneOut, this]


/-- the abstract state a translated handler runs on: the VGPR file, bit `l` of the mask source value,
    bit `l` of the register the accumulator starts from -/
def absState (vgpr : Nat → Nat → Nat) (m vcc0 : BitVec 64) : VState :=
  { vgpr := vgpr, cin := fun l => m.getLsbD l, mout := fun l => vcc0.getLsbD l, mem := fun _ => 0, log := [] }

/-- `m` is the 64-bit value the handler uses as lane-mask source -/
def IsMaskSource (h : LaneHandler) (ops : Ops) (vcc0 m : BitVec 64) : Prop :=
  (h.msrc = .vcc → m = vcc0) ∧ (h.msrc = .src2 → ops.src2 = .uni m)

theorem maskTie_of_tags (h : LaneHandler) (ops : Ops) (vgpr : Nat → Nat → Nat) (vcc0 m : BitVec 64)
    (hv : h.msrc = .vcc → m = vcc0) (h2s : h.msrc = .src2 → ops.src2 = .uni m)
    (t1 : h.msrc = .src2 → h.accInit ≠ .vcc) (t2 : h.msrc = .acc → h.accInit = .vcc) :
    MaskTie h ops vcc0 (absState vgpr m vcc0) := by
  refine ⟨?_, ?_, t2, ?_⟩
  · intro hv' l _; simp [absState, hv hv']
  · intro h2; exact ⟨t1 h2, m, h2s h2, fun l _ => rfl⟩
  · intro _ l; rfl

end C06
