import MgpuProofs.C09Fair
import MgpuProofs.C09Fit4
/-! # C09 — pool residents are tied to placed / in-flight work-groups; mask shapes never change

`TI S cp`: the mask shapes of the pool are `S` (as at registration), and — while no fault occurred —
every work-group resident on CU `c` is the placed-but-unsent work-group (`currWG`) or an in-flight
`MapWGReq` of some dispatcher, for that CU. This file: the resource-level facts and the dispatch half
of `Tick`. -/
namespace C09

/-- what becomes resident by one `ReserveResourceForWG` call (no invariant needed) -/
theorem reserve_resident (cu : CU) (key : Nat) (d : Dem) :
    ∀ e ∈ (reserve cu key d).2.resident, e ∈ cu.resident ∨
      (e.1 = key ∧ ∃ locs, (reserve cu key d).1 = .ok locs) := by
  intro e he
  unfold reserve at he ⊢
  cases hs : (sgprLoop (units d.s sGran) d.nwf cu.smask).1 with
  | none => simp only [hs, clearTemp] at he; exact Or.inl he
  | some soffs =>
    simp only [hs] at he ⊢
    cases hl : (cu.lmask.nextRegion (units d.l lGran) stFree).1 with
    | none => simp only [hl, clearTemp] at he; exact Or.inl he
    | some loff =>
      simp only [hl] at he ⊢
      cases hm : (matchLoop (units d.v vGran) cu.wfFree d.nwf
          { vmasks := cu.vmasks, next := cu.nextSIMD, used := cu.wfFree.map (fun _ => 0) }).1 with
      | none => simp only [hm, clearTemp] at he; exact Or.inl he
      | some ps =>
        simp only [hm] at he ⊢
        split at he
        · exact Or.inl he
        · rename_i hany
          simp only [hany, Bool.false_eq_true, if_false]
          rcases List.mem_append.1 he with h | h
          · exact Or.inl h
          · simp only [List.mem_singleton] at h
            subst h
            exact Or.inr ⟨rfl, _, rfl⟩

theorem getD_set_cu (pool : List CU) (c : Nat) (cu' : CU) (k : Nat) :
    (pool.set c cu').getD k default = if k = c ∧ c < pool.length then cu' else pool.getD k default := by
  simp only [List.getD_eq_getElem?_getD, List.getElem?_set]
  by_cases e : c = k
  · subst e
    by_cases h : c < pool.length
    · simp [h]
    · simp [h, List.getElem?_eq_none (by omega : pool.length ≤ c)]
  · have : ¬ k = c := fun h => e h.symm
    simp [e, this]

theorem shapes_set (pool : List CU) (c : Nat) (cu' : CU)
    (h : cu'.shapes = (pool.getD c default).shapes) : (pool.set c cu').map CU.shapes = pool.map CU.shapes := by
  apply List.ext_getElem?
  intro i
  simp only [List.getElem?_map, List.getElem?_set]
  by_cases e : c = i
  · subst e
    by_cases hk : c < pool.length
    · simp [hk, h, List.getD_eq_getElem?_getD]
    · simp [hk]
  · simp [e]

/-- one pass of `Next` over the CUs: shapes kept, residents only grow by the placed group -/
theorem tryCUs_res (key : Nat) (d : Dem) : ∀ (cs : List Nat) (pool : List CU),
    (tryCUs key d cs pool).2.length = pool.length ∧
    (tryCUs key d cs pool).2.map CU.shapes = pool.map CU.shapes ∧
    ∀ c, ∀ e ∈ ((tryCUs key d cs pool).2.getD c default).resident,
      e ∈ (pool.getD c default).resident ∨ (e.1 = key ∧ ∃ locs, (tryCUs key d cs pool).1 = .placed c locs) := by
  intro cs
  induction cs with
  | nil => intro pool; exact ⟨rfl, rfl, fun c e he => Or.inl he⟩
  | cons c0 cs ih =>
    intro pool
    have hsh := reserve_shapes (pool.getD c0 default) key d
    have hres := reserve_resident (pool.getD c0 default) key d
    rcases hr : reserve (pool.getD c0 default) key d with ⟨res, cu1⟩
    rw [hr] at hsh hres
    simp only at hsh hres
    cases res with
    | ok locs =>
      simp only [tryCUs, hr]
      refine ⟨by simp, shapes_set _ _ _ hsh, ?_⟩
      intro c e he
      rw [getD_set_cu] at he
      split at he
      · rename_i hc
        rcases hres e he with h | ⟨h, _⟩
        · left; rw [hc.1]; exact h
        · right; exact ⟨h, locs, by rw [hc.1]⟩
      · exact Or.inl he
    | twice =>
      simp only [tryCUs, hr]
      refine ⟨by simp, shapes_set _ _ _ hsh, ?_⟩
      intro c e he
      rw [getD_set_cu] at he
      split at he
      · rename_i hc
        rcases hres e he with h | ⟨_, _, h⟩
        · left; rw [hc.1]; exact h
        · cases h
      · exact Or.inl he
    | no =>
      simp only [tryCUs, hr]
      obtain ⟨i1, i2, i3⟩ := ih (pool.set c0 cu1)
      refine ⟨by rw [i1]; simp, by rw [i2]; exact shapes_set _ _ _ hsh, ?_⟩
      intro c e he
      rcases i3 c e he with h | h
      · rw [getD_set_cu] at h
        split at h
        · rename_i hc
          rcases hres e h with h' | ⟨_, _, h'⟩
          · left; rw [hc.1]; exact h'
          · cases h'
        · exact Or.inl h
      · exact Or.inr h

/-- `algorithm.Next`: pool shapes kept; a new resident is the work-group just placed; a fault can only
    appear -/
theorem algNext_res (cp : CP) (i : Nat) :
    (algNext cp i).1.pool.map CU.shapes = cp.pool.map CU.shapes ∧
    (algNext cp i).1.pool.length = cp.pool.length ∧
    ((algNext cp i).1.fault = none → cp.fault = none) ∧
    ∀ c, ∀ e ∈ ((algNext cp i).1.pool.getD c default).resident,
      e ∈ (cp.pool.getD c default).resident ∨
      ∃ dl, (algNext cp i).2 = some dl ∧ dl.cu = c ∧ dl.key = e.1 := by
  cases hak : (cp.disp i).alg.kern with
  | none =>
    rw [algNext_kern_none cp i hak]
    exact ⟨rfl, rfl, fun h => h, fun c e he => Or.inl he⟩
  | some k =>
    unfold algNext
    simp only [hak]
    cases hc : (cp.disp i).alg.currWG with
    | none =>
      simp only []
      obtain ⟨t1, t2, t3⟩ := tryCUs_res cp.nextKey (k.dem (cp.disp i).alg.pos)
        (cuOrder cp.cfg.greedy cp.pool.length (cp.disp i).alg.nextCU) cp.pool
      rcases ht : tryCUs cp.nextKey (k.dem (cp.disp i).alg.pos)
        (cuOrder cp.cfg.greedy cp.pool.length (cp.disp i).alg.nextCU) cp.pool with ⟨r, pool'⟩
      rw [ht] at t1 t2 t3
      simp only at t1 t2 t3
      cases r with
      | placed c locs =>
        refine ⟨t2, t1, fun h => h, ?_⟩
        intro c' e he
        rcases t3 c' e he with h | ⟨h1, locs', h2⟩
        · exact Or.inl h
        · injection h2 with h3 h4
          exact Or.inr ⟨_, rfl, h3, h1.symm⟩
      | none =>
        refine ⟨t2, t1, fun h => h, ?_⟩
        intro c' e he
        rcases t3 c' e he with h | ⟨_, _, h2⟩
        · exact Or.inl h
        · cases h2
      | fault =>
        refine ⟨t2, t1, (by intro h; cases h), ?_⟩
        intro c' e he
        rcases t3 c' e he with h | ⟨_, _, h2⟩
        · exact Or.inl h
        · cases h2
    | some w =>
      simp only []
      obtain ⟨t1, t2, t3⟩ := tryCUs_res w.1 (k.dem w.2)
        (cuOrder cp.cfg.greedy cp.pool.length (cp.disp i).alg.nextCU) cp.pool
      rcases ht : tryCUs w.1 (k.dem w.2)
        (cuOrder cp.cfg.greedy cp.pool.length (cp.disp i).alg.nextCU) cp.pool with ⟨r, pool'⟩
      rw [ht] at t1 t2 t3
      simp only at t1 t2 t3
      cases r with
      | placed c locs =>
        refine ⟨t2, t1, fun h => h, ?_⟩
        intro c' e he
        rcases t3 c' e he with h | ⟨h1, locs', h2⟩
        · exact Or.inl h
        · injection h2 with h3 h4
          exact Or.inr ⟨_, rfl, h3, h1.symm⟩
      | none =>
        refine ⟨t2, t1, fun h => h, ?_⟩
        intro c' e he
        rcases t3 c' e he with h | ⟨_, _, h2⟩
        · exact Or.inl h
        · cases h2
      | fault =>
        refine ⟨t2, t1, (by intro h; cases h), ?_⟩
        intro c' e he
        rcases t3 c' e he with h | ⟨_, _, h2⟩
        · exact Or.inl h
        · cases h2

/-- `FreeResourcesForWG` removes exactly the entries of that work-group -/
theorem free_resident_iff (cu : CU) (key : Nat) (cu' : CU) (h : free cu key = some cu') :
    ∀ e, e ∈ cu'.resident ↔ (e ∈ cu.resident ∧ e.1 ≠ key) := by
  unfold free at h
  split at h
  · cases h
  · rename_i k d locs _
    injection h with h
    subst h
    intro e
    simp only
    rw [(foldl_freeLoc d locs cu).1]
    simp [List.mem_filter]

/-! ## the invariant -/

/-- work-group `dl` is placed-but-unsent or in flight at dispatcher `j` -/
def Holds (cp : CP) (j : Nat) (dl : DLoc) : Prop :=
  (∃ r, (r, dl) ∈ (cp.disp j).inflight) ∨ (cp.disp j).currWG = some dl

structure TI (S : List (Option Nat × List (Option Nat) × Option Nat)) (cp : CP) : Prop where
  /-- the mask shapes of the pool are those of the registered CUs -/
  shapes : cp.pool.map CU.shapes = S
  /-- every resident work-group is held by a dispatcher, for that CU -/
  tied : cp.fault = none → ∀ c, ∀ e ∈ (cp.pool.getD c default).resident,
    ∃ j dl, dl.cu = c ∧ dl.key = e.1 ∧ Holds cp j dl

/-- a step that keeps the pool and what every dispatcher holds -/
theorem TI_frame {S} (cp cp' : CP) (h : TI S cp) (hp : cp'.pool = cp.pool)
    (hf : cp'.fault = none → cp.fault = none)
    (hd : ∀ j, (cp'.disp j).inflight = (cp.disp j).inflight ∧ (cp'.disp j).currWG = (cp.disp j).currWG) :
    TI S cp' := by
  refine ⟨by rw [hp]; exact h.shapes, ?_⟩
  intro hf' c e he
  rw [hp] at he
  obtain ⟨j, dl, h1, h2, h3⟩ := h.tied (hf hf') c e he
  refine ⟨j, dl, h1, h2, ?_⟩
  unfold Holds at h3 ⊢
  rw [(hd j).1, (hd j).2]; exact h3

theorem setDisp_holds (cp : CP) (i : Nat) (d : Disp) (hi : d.inflight = (cp.disp i).inflight)
    (hc : d.currWG = (cp.disp i).currWG) :
    ∀ j, ((cp.setDisp i d).disp j).inflight = (cp.disp j).inflight ∧
      ((cp.setDisp i d).disp j).currWG = (cp.disp j).currWG := by
  intro j
  rw [disp_setDisp]
  split
  · rename_i h; obtain ⟨rfl, _⟩ := h; exact ⟨hi, hc⟩
  · exact ⟨rfl, rfl⟩

/-- first half of `dispatchNextWG` -/
theorem pre_TI {S} (cp : CP) (i : Nat) (h : TI S cp) : TI S (pre cp i).1 := by
  cases hcw : (cp.disp i).currWG with
  | some dl => rw [pre_some cp i dl hcw]; exact h
  | none =>
    by_cases hn : (cp.disp i).alg.hasNext = true
    · rw [pre_none_yes cp i hcw hn]
      have hi : i < cp.disps.length := by
        by_cases hi : i < cp.disps.length
        · exact hi
        · rw [disp_oob cp i hi] at hn; simp [default, Alg.hasNext, Alg.numWG] at hn
      obtain ⟨a', hdj, _, _, hlen, _⟩ := algNext_shape cp i
      obtain ⟨r1, _, r3, r4⟩ := algNext_res cp i
      have hdisp : ∀ j, (((algNext cp i).1.setDisp i
          { (algNext cp i).1.disp i with currWG := (algNext cp i).2 }).disp j) =
          if i = j then { cp.disp i with alg := a', currWG := (algNext cp i).2 } else cp.disp j := by
        intro j
        rw [disp_setDisp, hlen]
        by_cases e : i = j
        · subst e; simp only [hi, and_self, if_true]; rw [hdj i]; simp [hi]
        · have : ¬ (i = j ∧ i < cp.disps.length) := fun x => e x.1
          simp only [this, if_false, e]; rw [hdj j]; simp [this]
      refine ⟨by show (algNext cp i).1.pool.map CU.shapes = S; rw [r1]; exact h.shapes, ?_⟩
      intro hf c e he
      have hf0 : cp.fault = none := r3 hf
      rcases r4 c e he with hold | ⟨dl, hdl, hc, hk⟩
      · obtain ⟨j, dl, h1, h2, h3⟩ := h.tied hf0 c e hold
        refine ⟨j, dl, h1, h2, ?_⟩
        unfold Holds at h3 ⊢
        rw [hdisp j]
        by_cases e' : i = j
        · subst e'
          simp only [if_true]
          rcases h3 with h3 | h3
          · exact Or.inl h3
          · rw [hcw] at h3; cases h3
        · simp only [e', if_false]; exact h3
      · refine ⟨i, dl, hc, hk, Or.inr ?_⟩
        rw [hdisp i]; simp only [if_true]; exact hdl
    · rw [pre_none_no cp i hcw hn]; exact h

theorem tail_pool1 (cp1 : CP) (i : Nat) (cur : Option DLoc) : (tailF cp1 i cur).1.pool = cp1.pool := by
  unfold tailF
  cases cur with
  | none => rfl
  | some dl =>
    simp only []
    by_cases hf : cp1.fault.isSome = true
    · simp [hf]
    · by_cases hr : cp1.cuRoom = 0
      · simp [hf, hr]
      · by_cases hb : dl.locs.length > 16
        · simp only [hf, hr, hb, if_true, if_false]; rfl
        · simp only [hf, hr, hb, if_false]; rfl

theorem tail_fault (cp1 : CP) (i : Nat) (cur : Option DLoc) :
    (tailF cp1 i cur).1.fault = none → cp1.fault = none := by
  unfold tailF
  cases cur with
  | none => exact fun h => h
  | some dl =>
    simp only []
    by_cases hf : cp1.fault.isSome = true
    · simp [hf]
    · have hnone : cp1.fault = none := by cases hx : cp1.fault <;> simp_all
      intro _; exact hnone

theorem tail_pool (cp1 : CP) (i : Nat) (cur : Option DLoc) :
    (tailF cp1 i cur).1.pool = cp1.pool ∧ ((tailF cp1 i cur).1.fault = none → cp1.fault = none) :=
  ⟨tail_pool1 cp1 i cur, tail_fault cp1 i cur⟩

/-- second half of `dispatchNextWG`: the placed work-group becomes in flight -/
theorem tail_TI {S} (cp1 : CP) (i : Nat) (cur : Option DLoc) (hcur : (cp1.disp i).currWG = cur)
    (h : TI S cp1) : TI S (tailF cp1 i cur).1 := by
  obtain ⟨s1, s2⟩ := tail_spec cp1 i cur
  obtain ⟨p1, p2⟩ := tail_pool cp1 i cur
  cases hb : (tailF cp1 i cur).2 with
  | false => rw [s1 hb]; exact h
  | true =>
    obtain ⟨dl, rfl, _, _, hdj⟩ := s2 hb
    have hi : i < cp1.disps.length := by
      by_cases hi : i < cp1.disps.length
      · exact hi
      · rw [disp_oob cp1 i hi] at hcur; cases hcur
    refine ⟨by rw [p1]; exact h.shapes, ?_⟩
    intro hf c e he
    rw [p1] at he
    obtain ⟨j, dl', h1, h2, h3⟩ := h.tied (p2 hf) c e he
    refine ⟨j, dl', h1, h2, ?_⟩
    unfold Holds at h3 ⊢
    rw [hdj j]
    by_cases e' : i = j
    · subst e'
      simp only [hi, and_self, if_true]
      rcases h3 with ⟨r, h3⟩ | h3
      · exact Or.inl ⟨r, List.mem_cons_of_mem _ h3⟩
      · rw [hcur] at h3
        injection h3 with h3; subst h3
        exact Or.inl ⟨_, List.mem_cons_self⟩
    · have : ¬ (i = j ∧ i < cp1.disps.length) := fun x => e' x.1
      simp only [this, if_false]; exact h3

theorem dispatchNextWG_TI {S} (cp : CP) (i : Nat) (hdc : DCI cp) (h : TI S cp) :
    TI S (dispatchNextWG cp i).1 := by
  rw [dispatchNextWG_eq]
  obtain ⟨_, h2, _⟩ := pre_spec cp i hdc
  exact tail_TI _ i _ h2 (pre_TI cp i h)

theorem dispatchLoop_TI {S} (i : Nat) : ∀ (n : Nat) (cp : CP), DCI cp → TI S cp →
    TI S (dispatchLoop i n cp).1 := by
  intro n
  induction n with
  | zero => intro cp _ h; exact h
  | succ n ih =>
    intro cp hdc h
    have h1 := dispatchNextWG_TI cp i hdc h
    have d1 := dispatchNextWG_DCI cp i hdc
    simp only [dispatchLoop]
    by_cases hc : (!(dispatchNextWG cp i).2 || decide (((dispatchNextWG cp i).1.disp i).cycleLeft > 0)
        || (dispatchNextWG cp i).1.fault.isSome) = true
    · simp only [hc, if_true]; exact h1
    · simp only [hc]; exact ih _ d1 h1

end C09
