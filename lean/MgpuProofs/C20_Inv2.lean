import MgpuProofs.C20_InvDefs
/-! # C20 — `Inv2` (the wake-up discipline) is an inductive invariant of the repaired code -/
namespace C20

variable {α : Type}

/-! ## `LInv2` split into its parent part, its per-child part and its connection part -/

/-- connection clause of `LInv2` -/
def LConn (l : Level α) (n : Nat) : Prop :=
  l.connAwake = true ∨ ∀ p, p ≤ n → portBlocked l p

/-- the two clauses of `LInv2` that talk about the parent -/
def LPar (l : Level α) (pa : Bool) : Prop :=
  (l.pIn ≠ [] → pa = true) ∧ (l.undisp ≠ [] → l.free ≠ [] → pa = true ∨ cap ≤ l.pOut.length)

/-- the two clauses of `LInv2` that talk about child `j` -/
def LChi (l : Level α) (j : Nat) (a : Bool) (f : Nat) : Prop :=
  (get l.cIn j ≠ [] → a = true) ∧ (0 < f → a = true ∨ cap ≤ get l.cOut j)

theorem linv2_mk {l : Level α} {n : Nat} {pa : Bool} {ca : Nat → Bool} {cf : Nat → Nat}
    (hp : LPar l pa) (hc : ∀ j, j < n → LChi l j (ca j) (cf j)) (hn : LConn l n) :
    LInv2 l n pa ca cf :=
  ⟨hp.1, fun j hj => (hc j hj).1, hn, hp.2, fun j hj => (hc j hj).2⟩

theorem LInv2.par {l : Level α} {n : Nat} {pa : Bool} {ca : Nat → Bool} {cf : Nat → Nat}
    (h : LInv2 l n pa ca cf) : LPar l pa := ⟨h.parIn, h.disp⟩

theorem LInv2.chi {l : Level α} {n : Nat} {pa : Bool} {ca : Nat → Bool} {cf : Nat → Nat}
    (h : LInv2 l n pa ca cf) (j : Nat) (hj : j < n) : LChi l j (ca j) (cf j) :=
  ⟨h.chiIn j hj, h.chiFin j hj⟩

theorem LInv2.lconn {l : Level α} {n : Nat} {pa : Bool} {ca : Nat → Bool} {cf : Nat → Nat}
    (h : LInv2 l n pa ca cf) : LConn l n := h.conn

/-! ### frame lemmas -/

theorem LPar.frame {l l' : Level α} {pa pa' : Bool} (h : LPar l pa) (hpa : pa = true → pa' = true)
    (h1 : l'.pIn = l.pIn) (h2 : l'.undisp = l.undisp) (h3 : l'.free = l.free)
    (h4 : l'.pOut = l.pOut) : LPar l' pa' := by
  refine ⟨fun hx => hpa (h.1 (h1 ▸ hx)), fun hu hf => ?_⟩
  rw [h2] at hu; rw [h3] at hf; rw [h4]
  exact (h.2 hu hf).imp hpa id

theorem LChi.frame {l l' : Level α} {j : Nat} {a a' : Bool} {f f' : Nat} (h : LChi l j a f)
    (ha : a = true → a' = true) (hf : f' = f)
    (h1 : get l'.cIn j = get l.cIn j) (h2 : get l'.cOut j = get l.cOut j) : LChi l' j a' f' := by
  refine ⟨fun hx => ha (h.1 (h1 ▸ hx)), fun hx => ?_⟩
  rw [hf] at hx; rw [h2]
  exact (h.2 hx).imp ha id

theorem LConn.frame {l l' : Level α} {n : Nat} (h : LConn l n)
    (h1 : l'.pOut = l.pOut) (h2 : l'.pIn = l.pIn) (h3 : l'.cIn = l.cIn)
    (h4 : ∀ i, get l'.cOut i = get l.cOut i)
    (hc : l.connAwake = true → l'.connAwake = true) : LConn l' n := by
  have hs : SameBufs l' l := ⟨h1.symm, h2.symm, h3.symm, fun i => (h4 i).symm⟩
  rcases h with h | h
  · exact Or.inl (hc h)
  · exact Or.inr fun p hp => portBlocked_same hs p (h p hp)

/-- `LInv2` only gets easier when the parent / the children are more awake -/
theorem LInv2.mono {l : Level α} {n : Nat} {pa pa' : Bool} {ca ca' : Nat → Bool} {cf cf' : Nat → Nat}
    (h : LInv2 l n pa ca cf) (hpa : pa = true → pa' = true)
    (hca : ∀ j, j < n → ca j = true → ca' j = true) (hcf : ∀ j, j < n → cf' j = cf j) :
    LInv2 l n pa' ca' cf' :=
  linv2_mk (h.par.frame hpa rfl rfl rfl rfl)
    (fun j hj => (h.chi j hj).frame (hca j hj) (hcf j hj) rfl rfl) h.lconn

/-! ## the parent's operations -/

theorem dispatch_fields (l : Level α) :
    l.dispatch.1.pIn = l.pIn ∧ l.dispatch.1.cIn = l.cIn ∧ l.dispatch.1.cOut = l.cOut ∧
    l.dispatch.1.n = l.n := by
  unfold Level.dispatch
  split
  · unfold Level.send
    by_cases hc : cap ≤ l.pOut.length
    · rw [if_pos hc]; exact ⟨rfl, rfl, rfl, rfl⟩
    · rw [if_neg hc]; exact ⟨rfl, rfl, rfl, rfl⟩
  · exact ⟨rfl, rfl, rfl, rfl⟩

theorem dispatch_false (l : Level α) (h : l.dispatch.2 = false) :
    l.dispatch.1 = l ∧ (l.undisp = [] ∨ l.free = [] ∨ cap ≤ l.pOut.length) := by
  unfold Level.dispatch at h ⊢
  split
  · rename_i f fs u us hf hu
    unfold Level.send at h ⊢
    by_cases hc : cap ≤ l.pOut.length
    · rw [if_pos hc]
      exact ⟨rfl, Or.inr (Or.inr hc)⟩
    · simp [hf, hu, hc] at h
  · rename_i hne
    refine ⟨rfl, ?_⟩
    cases hu : l.undisp with
    | nil => exact Or.inl rfl
    | cons u us =>
      cases hf : l.free with
      | nil => exact Or.inr (Or.inl rfl)
      | cons f fs => exact absurd hu (fun hu => hne f fs u us hf hu)

theorem LConn_dispatch {l : Level α} {n : Nat} (h : LConn l n) : LConn l.dispatch.1 n := by
  unfold Level.dispatch
  split
  · rename_i f fs u us hf hu
    unfold Level.send
    by_cases hc : cap ≤ l.pOut.length
    · rw [if_pos hc]; exact h
    · rw [if_neg hc]
      rcases h with h | h
      · left; simp [h]
      · cases hp : l.pOut with
        | nil => left; simp
        | cons x xs =>
          right
          intro p hpn
          have hb := h p hpn
          cases p with
          | zero =>
            intro j' u' rest' e
            simp only [List.cons_append, List.cons.injEq] at e
            obtain ⟨e1, _⟩ := e
            subst e1
            exact hb j' u' xs hp
          | succ k => exact hb
  · exact h

theorem LConn_addWork {l : Level α} {n : Nat} (h : LConn l n) (us : List α) (k : Nat) :
    LConn { l with undisp := l.undisp ++ us, unfin := l.unfin + k } n :=
  h.frame rfl rfl rfl (fun _ => rfl) id

theorem procUp_fields (l : Level α) :
    l.procUp.1.cIn = l.cIn ∧ l.procUp.1.cOut = l.cOut ∧ l.procUp.1.n = l.n ∧
    l.procUp.1.pOut = l.pOut ∧ l.procUp.1.undisp = l.undisp := by
  unfold Level.procUp
  split <;> exact ⟨rfl, rfl, rfl, rfl, rfl⟩

theorem procUp_false (l : Level α) (h : l.procUp.2.1 = false) : l.procUp.1 = l := by
  unfold Level.procUp at h ⊢
  split
  · rfl
  · rename_i j rest hp
    simp [hp] at h

theorem procUp_pIn (l : Level α) (h : l.procUp.1.pIn ≠ []) : l.procUp.2.1 = true := by
  unfold Level.procUp at h ⊢
  split
  · rename_i hp; simp [hp] at h
  · rfl

theorem LConn_procUp {l : Level α} {n : Nat} (h : LConn l n) : LConn l.procUp.1 n := by
  unfold Level.procUp
  split
  · exact h
  · rename_i j rest hp
    rcases h with h | h
    · left; simp [h]
    · by_cases hw : cap ≤ rest.length + 1
      · left; simp [hw]
      · right
        intro p hpn
        have hb := h p hpn
        cases p with
        | zero => exact hb
        | succ k =>
          simp only [portBlocked, hp, List.length_cons] at hb ⊢
          rcases hb with hb | hb
          · exact Or.inl hb
          · exact absurd hb hw

/-- the parent side of `LInv2` after the parent's own tick (dispatch, maybe receive work, process one
    completion), with `pa'` ≥ the progress it reports; needs nothing about the state before -/
theorem LPar_parentTick (l l2 : Level α) (took pa' : Bool)
    (e2 : l2.free = l.dispatch.1.free)
    (e3 : l2.pOut = l.dispatch.1.pOut) (e4 : took = false → l2.undisp = l.dispatch.1.undisp)
    (hpa : (l.dispatch.2 || took || l2.procUp.2.1) = true → pa' = true) :
    LPar l2.procUp.1 pa' := by
  constructor
  · intro hx
    apply hpa
    simp [procUp_pIn l2 hx]
  · intro hu hf
    by_cases hp : (l.dispatch.2 || took || l2.procUp.2.1) = true
    · exact Or.inl (hpa hp)
    · right
      simp only [Bool.or_eq_true, not_or, Bool.not_eq_true] at hp
      obtain ⟨⟨hd, ht⟩, hpu⟩ := hp
      have hl2 := procUp_false l2 hpu
      rw [hl2] at hu hf ⊢
      obtain ⟨hdl, hdd⟩ := dispatch_false l hd
      rw [e4 ht, hdl] at hu
      rw [e2, hdl] at hf
      rw [e3, hdl]
      rcases hdd with hdd | hdd | hdd
      · exact absurd hdd hu
      · exact absurd hdd hf
      · exact hdd

theorem LInv2_parentTick {l : Level α} {n : Nat} {pa : Bool} {ca : Nat → Bool} {cf : Nat → Nat}
    (h : LInv2 l n pa ca cf) (l2 : Level α) (took pa' : Bool)
    (e1 : l2.pIn = l.dispatch.1.pIn) (e2 : l2.free = l.dispatch.1.free)
    (e3 : l2.pOut = l.dispatch.1.pOut) (e4 : took = false → l2.undisp = l.dispatch.1.undisp)
    (e5 : l2.cIn = l.dispatch.1.cIn) (e6 : l2.cOut = l.dispatch.1.cOut)
    (e7 : l2.connAwake = l.dispatch.1.connAwake)
    (hpa : (l.dispatch.2 || took || l2.procUp.2.1) = true → pa' = true) :
    LInv2 l2.procUp.1 n pa' ca cf := by
  obtain ⟨d1, d2, d3, _⟩ := dispatch_fields l
  obtain ⟨p1, p2, _, _, _⟩ := procUp_fields l2
  refine linv2_mk (LPar_parentTick l l2 took pa' e2 e3 e4 hpa) ?_ ?_
  · intro j hj
    refine (h.chi j hj).frame id rfl ?_ ?_
    · rw [p1, e5, d2]
    · rw [p2, e6, d3]
  · apply LConn_procUp
    refine (LConn_dispatch h.lconn).frame e3 e1 e5 (fun i => by rw [e6]) ?_
    rw [e7]; exact id

/-! ## the children's operations -/

/-- `report…`: send one completion if there is one -/
def report (l : Level α) (j fin : Nat) : Level α × Nat × Bool :=
  if fin = 0 then (l, fin, false)
  else match l.childSend j with
    | none => (l, fin, false)
    | some l' => (l', fin - 1, true)

theorem childSend_some {l l' : Level α} {j : Nat} (h : l.childSend j = some l') :
    get l.cOut j < cap ∧
    l' = { l with cOut := upd l.cOut j (get l.cOut j + 1), connAwake := l.connAwake || get l.cOut j == 0 } := by
  unfold Level.childSend at h
  simp only at h
  split at h
  · cases h
  · rename_i hc
    cases h
    exact ⟨Nat.not_le.1 hc, rfl⟩

theorem childSend_none {l : Level α} {j : Nat} (h : l.childSend j = none) : cap ≤ get l.cOut j := by
  unfold Level.childSend at h
  simp only at h
  split at h
  · assumption
  · cases h

theorem report_fields (l : Level α) (j fin : Nat) :
    (report l j fin).1.pIn = l.pIn ∧ (report l j fin).1.undisp = l.undisp ∧
    (report l j fin).1.free = l.free ∧ (report l j fin).1.pOut = l.pOut ∧
    (report l j fin).1.cIn = l.cIn ∧ (report l j fin).1.n = l.n ∧
    ∀ k, k ≠ j → get (report l j fin).1.cOut k = get l.cOut k := by
  unfold report
  split
  · exact ⟨rfl, rfl, rfl, rfl, rfl, rfl, fun _ _ => rfl⟩
  · split
    · exact ⟨rfl, rfl, rfl, rfl, rfl, rfl, fun _ _ => rfl⟩
    · rename_i l' hs
      obtain ⟨_, e⟩ := childSend_some hs
      subst e
      exact ⟨rfl, rfl, rfl, rfl, rfl, rfl, fun k hk => get_upd_ne _ _ _ _ hk⟩

theorem report_false (l : Level α) (j fin : Nat) (h : (report l j fin).2.2 = false) :
    (report l j fin).1 = l ∧ (report l j fin).2.1 = fin ∧ (fin = 0 ∨ cap ≤ get l.cOut j) := by
  unfold report at h ⊢
  split
  · rename_i h0; exact ⟨rfl, rfl, Or.inl h0⟩
  · split
    · rename_i hs; exact ⟨rfl, rfl, Or.inr (childSend_none hs)⟩
    · rename_i h0 _ l' hs
      simp [h0, hs] at h

theorem LConn_report {l : Level α} {n : Nat} (h : LConn l n) (j fin : Nat) :
    LConn (report l j fin).1 n := by
  unfold report
  split
  · exact h
  · split
    · exact h
    · rename_i l' hs
      obtain ⟨_, e⟩ := childSend_some hs
      subst e
      rcases h with h | h
      · left; simp [h]
      · by_cases hc : get l.cOut j = 0
        · left; simp [hc]
        · right
          intro p hpn
          have hb := h p hpn
          cases p with
          | zero => exact hb
          | succ k =>
            simp only [portBlocked, get_upd] at hb ⊢
            rcases hb with hb | hb
            · by_cases hk : k = j
              · subst hk; exact absurd hb hc
              · left; rw [if_neg hk]; exact hb
            · exact Or.inr hb

theorem childTake_none {l : Level α} {j : Nat} (h : l.childTake j = none) : get l.cIn j = [] := by
  unfold Level.childTake at h
  split at h
  · assumption
  · cases h

theorem childTake_some {l l' : Level α} {j : Nat} {u : α} {wf : Bool}
    (h : l.childTake j = some (u, l', wf)) :
    ∃ rest, get l.cIn j = u :: rest ∧ wf = decide (cap ≤ rest.length + 1) ∧
      l' = { l with cIn := upd l.cIn j rest, connAwake := l.connAwake || wf } := by
  unfold Level.childTake at h
  split at h
  · cases h
  · rename_i u0 rest hc
    simp only [Option.some.injEq, Prod.mk.injEq] at h
    obtain ⟨h1, h2, h3⟩ := h
    subst h1 h3
    exact ⟨rest, hc, rfl, h2.symm⟩

theorem childTake_fields {l l' : Level α} {j : Nat} {u : α} {wf : Bool}
    (h : l.childTake j = some (u, l', wf)) :
    l'.pIn = l.pIn ∧ l'.undisp = l.undisp ∧ l'.free = l.free ∧ l'.pOut = l.pOut ∧
    l'.cOut = l.cOut ∧ l'.n = l.n ∧ ∀ k, k ≠ j → get l'.cIn k = get l.cIn k := by
  obtain ⟨rest, _, _, e⟩ := childTake_some h
  subst e
  exact ⟨rfl, rfl, rfl, rfl, rfl, rfl, fun k hk => get_upd_ne _ _ _ _ hk⟩

theorem LConn_childTake {l l' : Level α} {n j : Nat} {u : α} {wf : Bool}
    (ht : l.childTake j = some (u, l', wf)) (h : LConn l n) : LConn l' n := by
  obtain ⟨rest, hc, hwf, e⟩ := childTake_some ht
  subst e
  rcases h with h | h
  · left; simp [h]
  · by_cases hw : cap ≤ rest.length + 1
    · left; simp [hwf, hw]
    · right
      intro p hpn
      have hb := h p hpn
      cases p with
      | zero =>
        intro j' u' rest' e
        have hb' := hb j' u' rest' e
        show cap ≤ (get (upd l.cIn j rest) j').length
        rw [get_upd]
        split
        · rename_i hj
          subst hj
          rw [hc] at hb'
          exact absurd hb' hw
        · exact hb'
      | succ k => exact hb

/-- the level after child `j`'s own tick when its incoming buffer was empty -/
theorem LInv2_child_none {l : Level α} {n : Nat} {pa : Bool} {ca : Nat → Bool} {cf : Nat → Nat}
    (h : LInv2 l n pa ca cf) (j fin : Nat) (ca' : Nat → Bool) (cf' : Nat → Nat)
    (ht : (report l j fin).1.childTake j = none)
    (hca : ∀ k, k ≠ j → ca k = true → ca' k = true) (hcf : ∀ k, k ≠ j → cf' k = cf k)
    (ha : (report l j fin).2.2 = true → ca' j = true)
    (hf : ca' j = false → cf' j = (report l j fin).2.1) :
    LInv2 (report l j fin).1 n pa ca' cf' := by
  obtain ⟨r1, r2, r3, r4, r5, _, r7⟩ := report_fields l j fin
  refine linv2_mk (h.par.frame id r1 r2 r3 r4) ?_ (LConn_report h.lconn j fin)
  intro k hk
  by_cases hkj : k = j
  · subst hkj
    constructor
    · intro hx; exact absurd (childTake_none ht) hx
    · intro hpos
      cases hb : ca' k with
      | true => exact Or.inl rfl
      | false =>
        right
        have hr : (report l k fin).2.2 = false := by
          cases hr : (report l k fin).2.2 with
          | false => rfl
          | true => rw [ha hr] at hb; cases hb
        obtain ⟨e1, e2, e3⟩ := report_false l k fin hr
        rw [e1]
        rw [hf hb, e2] at hpos
        rcases e3 with e3 | e3
        · omega
        · exact e3
  · refine (h.chi k hk).frame (hca k hkj) (hcf k hkj) ?_ (r7 k hkj)
    rw [r5]

/-- the level after child `j`'s own tick when it took a unit from its incoming buffer -/
theorem LInv2_child_some {l l' : Level α} {n : Nat} {pa : Bool} {ca : Nat → Bool} {cf : Nat → Nat}
    (h : LInv2 l n pa ca cf) (j fin : Nat) (ca' : Nat → Bool) (cf' : Nat → Nat) {u : α} {wf : Bool}
    (ht : (report l j fin).1.childTake j = some (u, l', wf))
    (hca : ∀ k, k ≠ j → ca k = true → ca' k = true) (hcf : ∀ k, k ≠ j → cf' k = cf k)
    (ha : ca' j = true) :
    LInv2 l' n pa ca' cf' := by
  obtain ⟨r1, r2, r3, r4, r5, _, r7⟩ := report_fields l j fin
  obtain ⟨t1, t2, t3, t4, t5, _, t7⟩ := childTake_fields ht
  refine linv2_mk (h.par.frame id (t1.trans r1) (t2.trans r2) (t3.trans r3) (t4.trans r4)) ?_
    (LConn_childTake ht (LConn_report h.lconn j fin))
  intro k hk
  by_cases hkj : k = j
  · subst hkj
    exact ⟨fun _ => ha, fun _ => Or.inl ha⟩
  · refine (h.chi k hk).frame (hca k hkj) (hcf k hkj) ?_ ?_
    · rw [t7 k hkj, r5]
    · rw [t5]; exact r7 k hkj

/-- both cases of a child's own tick at once; `l'` = level afterwards, `took` = it took a unit -/
theorem LInv2_childTick {l : Level α} {n : Nat} {pa : Bool} {ca : Nat → Bool} {cf : Nat → Nat}
    (h : LInv2 l n pa ca cf) (j fin : Nat) (ca' : Nat → Bool) (cf' : Nat → Nat)
    (r : Level α × Nat × Bool) (hr : r = report l j fin)
    (l' : Level α) (took : Bool)
    (hn : r.1.childTake j = none → l' = r.1 ∧ took = false)
    (hs : ∀ u l'' wf, r.1.childTake j = some (u, l'', wf) → l' = l'' ∧ took = true)
    (hca : ∀ k, k ≠ j → ca k = true → ca' k = true) (hcf : ∀ k, k ≠ j → cf' k = cf k)
    (ha : (r.2.2 || took) = true → ca' j = true)
    (hf : ca' j = false → cf' j = r.2.1) :
    LInv2 l' n pa ca' cf' := by
  subst hr
  cases ht : (report l j fin).1.childTake j with
  | none =>
    obtain ⟨e1, e2⟩ := hn ht
    subst e1 e2
    exact LInv2_child_none h j fin ca' cf' ht hca hcf (fun hx => ha (by simp [hx])) hf
  | some x =>
    obtain ⟨u, l'', wf⟩ := x
    obtain ⟨e1, e2⟩ := hs u l'' wf ht
    subst e1 e2
    exact LInv2_child_some h j fin ca' cf' ht hca hcf (ha (by simp))

/-! ## the connection's tick -/

theorem LConn_connTick (l : Level α) {n : Nat} (hn : n ≤ l.n) : LConn l.connTick.l n := by
  cases hc : l.connTick.l.connAwake with
  | true => exact Or.inl hc
  | false =>
    right
    obtain ⟨⟨s1, s2, s3, s4⟩, hb⟩ := connTick_noprogress l hc
    intro p hp
    exact portBlocked_same (a := l.connTick.l) (b := l)
      ⟨s1.symm, s2.symm, s3.symm, fun i => (s4 i).symm⟩ p (hb p (Nat.le_trans hp hn))

theorem LPar_connTick {l : Level α} {pa pa' : Bool} (h : LPar l pa) (hpa : pa = true → pa' = true)
    (hw : l.connTick.wakePar = true → pa' = true) : LPar l.connTick.l pa' := by
  obtain ⟨_, f2, _, f4⟩ := connTick_parent_fields l
  constructor
  · intro hx
    rcases connTick_wake_parent l hx with h1 | h1
    · exact hpa (h.1 h1)
    · exact hw h1
  · intro hu hf
    rw [f2] at hu; rw [f4] at hf
    rcases h.2 hu hf with h1 | h1
    · exact Or.inl (hpa h1)
    · by_cases hlt : l.connTick.l.pOut.length < cap
      · exact Or.inl (hw (connTick_unblock_parent l h1 hlt))
      · exact Or.inr (Nat.not_lt.1 hlt)

theorem LChi_connTick {l : Level α} {j : Nat} {a a' : Bool} {f : Nat} (h : LChi l j a f)
    (ha : a = true → a' = true) (hw : j ∈ l.connTick.wakeChi → a' = true) :
    LChi l.connTick.l j a' f := by
  constructor
  · intro hx
    rcases connTick_wake_child l j hx with h1 | h1
    · exact ha (h.1 h1)
    · exact hw h1
  · intro hpos
    rcases h.2 hpos with h1 | h1
    · exact Or.inl (ha h1)
    · by_cases hlt : get l.connTick.l.cOut j < cap
      · exact Or.inl (hw (connTick_unblock_child l j h1 hlt))
      · exact Or.inr (Nat.not_lt.1 hlt)

theorem LInv2_connTick {l : Level α} {n : Nat} {pa pa' : Bool} {ca ca' : Nat → Bool}
    {cf cf' : Nat → Nat} (h : LInv2 l n pa ca cf) (hn : n ≤ l.n)
    (hpa : pa = true → pa' = true) (hwp : l.connTick.wakePar = true → pa' = true)
    (hca : ∀ j, j < n → ca j = true → ca' j = true)
    (hwc : ∀ j, j < n → j ∈ l.connTick.wakeChi → ca' j = true)
    (hcf : ∀ j, j < n → cf' j = cf j) :
    LInv2 l.connTick.l n pa' ca' cf' := by
  refine linv2_mk (LPar_connTick h.par hpa hwp) ?_ (LConn_connTick l hn)
  intro j hj
  have := LChi_connTick (h.chi j hj) (hca j hj) (hwc j hj)
  rw [hcf j hj]
  exact this

/-! ## system level: waking components keeps `Inv2` -/

/-- `b` is `a` with some more components awake -/
structure Wake (a b : Sys) : Prop where
  G : b.G = a.G
  S : b.S = a.S
  C : b.C = a.C
  l0 : b.l0 = a.l0
  l1 : b.l1 = a.l1
  l2 : b.l2 = a.l2
  dA : a.dAwake = true → b.dAwake = true
  gA : ∀ k, (get a.gpus k).awake = true → (get b.gpus k).awake = true
  gF : ∀ k, (get b.gpus k).fin = (get a.gpus k).fin
  mA : ∀ k, (get a.sms k).awake = true → (get b.sms k).awake = true
  mF : ∀ k, (get b.sms k).fin = (get a.sms k).fin
  uA : ∀ k, (get a.subs k).awake = true → (get b.subs k).awake = true
  uF : ∀ k, (get b.subs k).fin = (get a.subs k).fin
  uR : ∀ k, (get b.subs k).rem = (get a.subs k).rem

theorem Wake.refl (a : Sys) : Wake a a :=
  ⟨rfl, rfl, rfl, rfl, rfl, rfl, id, fun _ => id, fun _ => rfl, fun _ => id, fun _ => rfl,
   fun _ => id, fun _ => rfl, fun _ => rfl⟩

theorem Wake.trans {a b c : Sys} (h1 : Wake a b) (h2 : Wake b c) : Wake a c :=
  ⟨h2.G.trans h1.G, h2.S.trans h1.S, h2.C.trans h1.C, h2.l0.trans h1.l0, h2.l1.trans h1.l1,
   h2.l2.trans h1.l2, fun h => h2.dA (h1.dA h), fun k h => h2.gA k (h1.gA k h),
   fun k => (h2.gF k).trans (h1.gF k), fun k h => h2.mA k (h1.mA k h),
   fun k => (h2.mF k).trans (h1.mF k), fun k h => h2.uA k (h1.uA k h),
   fun k => (h2.uF k).trans (h1.uF k), fun k => (h2.uR k).trans (h1.uR k)⟩

theorem wake_wakeGpu (s : Sys) (g : Nat) : Wake s (wakeGpu s g) := by
  refine ⟨rfl, rfl, rfl, rfl, rfl, rfl, id, ?_, ?_, fun _ => id, fun _ => rfl, fun _ => id,
    fun _ => rfl, fun _ => rfl⟩
  · intro k hk
    rw [wakeGpu_awake, hk]; rfl
  · intro k
    simp only [wakeGpu, get_upd]
    split
    · rename_i e; subst e; rfl
    · rfl

theorem wake_wakeSm (s : Sys) (g : Nat) : Wake s (wakeSm s g) := by
  refine ⟨rfl, rfl, rfl, rfl, rfl, rfl, id, fun _ => id, fun _ => rfl, ?_, ?_, fun _ => id,
    fun _ => rfl, fun _ => rfl⟩
  · intro k hk
    rw [wakeSm_awake, hk]; rfl
  · intro k
    simp only [wakeSm, get_upd]
    split
    · rename_i e; subst e; rfl
    · rfl

theorem wake_wakeSub (s : Sys) (g : Nat) : Wake s (wakeSub s g) := by
  refine ⟨rfl, rfl, rfl, rfl, rfl, rfl, id, fun _ => id, fun _ => rfl, fun _ => id, fun _ => rfl,
    ?_, ?_, ?_⟩
  · intro k hk
    rw [wakeSub_awake, hk]; rfl
  · intro k
    simp only [wakeSub, get_upd]
    split
    · rename_i e; subst e; rfl
    · rfl
  · intro k
    simp only [wakeSub, get_upd]
    split
    · rename_i e; subst e; rfl
    · rfl

theorem Wake.wakeGpu {a b : Sys} (h : Wake a b) (g : Nat) : Wake a (wakeGpu b g) :=
  h.trans (wake_wakeGpu b g)
theorem Wake.wakeSm {a b : Sys} (h : Wake a b) (g : Nat) : Wake a (wakeSm b g) :=
  h.trans (wake_wakeSm b g)
theorem Wake.wakeSub {a b : Sys} (h : Wake a b) (g : Nat) : Wake a (wakeSub b g) :=
  h.trans (wake_wakeSub b g)

theorem Wake.wakeMany {a b : Sys} (wake : Sys → Nat → Sys) (hw : ∀ s k, Wake s (wake s k))
    (f : Nat → Nat) (h : Wake a b) (ks : List Nat) : Wake a (C20.wakeMany wake f b ks) := by
  induction ks generalizing b with
  | nil => exact h
  | cons k ks ih => exact ih (h.trans (hw b (f k)))

theorem Wake.manyGpu {a b : Sys} (f : Nat → Nat) (h : Wake a b) (ks : List Nat) :
    Wake a (C20.wakeMany C20.wakeGpu f b ks) := Wake.wakeMany _ wake_wakeGpu f h ks
theorem Wake.manySm {a b : Sys} (f : Nat → Nat) (h : Wake a b) (ks : List Nat) :
    Wake a (C20.wakeMany C20.wakeSm f b ks) := Wake.wakeMany _ wake_wakeSm f h ks
theorem Wake.manySub {a b : Sys} (f : Nat → Nat) (h : Wake a b) (ks : List Nat) :
    Wake a (C20.wakeMany C20.wakeSub f b ks) := Wake.wakeMany _ wake_wakeSub f h ks

theorem Wake.ite {a b c : Sys} (p : Prop) [Decidable p] (hb : Wake a b) (hc : Wake a c) :
    Wake a (if p then b else c) := by
  split <;> assumption

theorem Wake.setD {a b : Sys} (h : Wake a b) : Wake a { b with dAwake := true } :=
  h.trans ⟨rfl, rfl, rfl, rfl, rfl, rfl, fun _ => rfl, fun _ => id, fun _ => rfl, fun _ => id,
    fun _ => rfl, fun _ => id, fun _ => rfl, fun _ => rfl⟩

theorem Wake.w0 {a b : Sys} (hw : Wake a b)
    (h : LInv2 a.l0 a.G a.dAwake (fun g => (get a.gpus g).awake) (fun g => (get a.gpus g).fin)) :
    LInv2 b.l0 b.G b.dAwake (fun g => (get b.gpus g).awake) (fun g => (get b.gpus g).fin) := by
  rw [hw.l0, hw.G]
  exact h.mono hw.dA (fun j _ => hw.gA j) (fun j _ => hw.gF j)

theorem Wake.w1 {a b : Sys} (hw : Wake a b) (g : Nat)
    (h : LInv2 (get a.l1 g) a.S (get a.gpus g).awake
      (fun k => (get a.sms (g * a.S + k)).awake) (fun k => (get a.sms (g * a.S + k)).fin)) :
    LInv2 (get b.l1 g) b.S (get b.gpus g).awake
      (fun k => (get b.sms (g * b.S + k)).awake) (fun k => (get b.sms (g * b.S + k)).fin) := by
  rw [hw.l1, hw.S]
  exact h.mono (hw.gA g) (fun j _ => hw.mA _) (fun j _ => hw.mF _)

theorem Wake.w2 {a b : Sys} (hw : Wake a b) (m : Nat)
    (h : LInv2 (get a.l2 m) a.C (get a.sms m).awake
      (fun j => (get a.subs (m * a.C + j)).awake) (fun j => (get a.subs (m * a.C + j)).fin)) :
    LInv2 (get b.l2 m) b.C (get b.sms m).awake
      (fun j => (get b.subs (m * b.C + j)).awake) (fun j => (get b.subs (m * b.C + j)).fin) := by
  rw [hw.l2, hw.C]
  exact h.mono (hw.mA m) (fun j _ => hw.uA _) (fun j _ => hw.uF _)

theorem Wake.run {a b : Sys} (hw : Wake a b) (u : Nat)
    (h : 0 < (get a.subs u).rem → (get a.subs u).awake = true) :
    0 < (get b.subs u).rem → (get b.subs u).awake = true := by
  rw [hw.uR]
  exact fun hx => hw.uA u (h hx)

theorem Inv2.wake {a b : Sys} (h : Inv2 a) (hw : Wake a b) : Inv2 b := by
  refine ⟨hw.w0 h.w0, fun g hg => hw.w1 g (h.w1 g ?_), fun m hm => hw.w2 m (h.w2 m ?_),
    fun u hu => hw.run u (h.run u ?_)⟩
  · rw [hw.G] at hg; exact hg
  · rw [hw.G, hw.S] at hm; exact hm
  · rw [hw.G, hw.S, hw.C] at hu; exact hu

/-! ## replacing one component and the levels it touches -/

theorem idx_eq (m S : Nat) : m / S * S + m % S = m := by
  rw [Nat.mul_comm]; exact Nat.div_add_mod m S

theorem idx_ne (m S k : Nat) (h : k ≠ m % S) : m / S * S + k ≠ m := by
  intro e
  have := idx_eq m S
  omega

theorem inv2_updDrv (s : Sys) (h : Inv2 s) (l0' : Level Kernel) (dA' : Bool)
    (h0 : LInv2 l0' s.G dA' (fun g => (get s.gpus g).awake) (fun g => (get s.gpus g).fin)) :
    Inv2 { s with l0 := l0', dAwake := dA' } :=
  ⟨h0, h.w1, h.w2, h.run⟩

theorem inv2_updGpu (s : Sys) (h : Inv2 s) (g : Nat) (l0' : Level Kernel) (l1' : Level Block)
    (gp' : Gpu)
    (h0 : LInv2 l0' s.G s.dAwake (fun k => (get (upd s.gpus g gp') k).awake)
      (fun k => (get (upd s.gpus g gp') k).fin))
    (h1 : LInv2 l1' s.S gp'.awake (fun k => (get s.sms (g * s.S + k)).awake)
      (fun k => (get s.sms (g * s.S + k)).fin)) :
    Inv2 { s with l0 := l0', l1 := upd s.l1 g l1', gpus := upd s.gpus g gp' } := by
  refine ⟨h0, ?_, h.w2, h.run⟩
  intro g' hg'
  show LInv2 (get (upd s.l1 g l1') g') s.S (get (upd s.gpus g gp') g').awake _ _
  by_cases e : g' = g
  · subst e
    rw [get_upd_self, get_upd_self]; exact h1
  · rw [get_upd_ne _ _ _ _ e, get_upd_ne _ _ _ _ e]; exact h.w1 g' hg'

theorem inv2_updSm (s : Sys) (h : Inv2 s) (m : Nat) (lg' : Level Block) (l2' : Level Warp)
    (sm' : Smx)
    (h1 : LInv2 lg' s.S (get s.gpus (m / s.S)).awake
      (fun k => (get (upd s.sms m sm') (m / s.S * s.S + k)).awake)
      (fun k => (get (upd s.sms m sm') (m / s.S * s.S + k)).fin))
    (h2 : LInv2 l2' s.C sm'.awake (fun j => (get s.subs (m * s.C + j)).awake)
      (fun j => (get s.subs (m * s.C + j)).fin)) :
    Inv2 { s with l1 := upd s.l1 (m / s.S) lg', l2 := upd s.l2 m l2', sms := upd s.sms m sm' } := by
  refine ⟨h.w0, ?_, ?_, h.run⟩
  · intro g' hg'
    show LInv2 (get (upd s.l1 (m / s.S) lg') g') s.S (get s.gpus g').awake
      (fun k => (get (upd s.sms m sm') (g' * s.S + k)).awake)
      (fun k => (get (upd s.sms m sm') (g' * s.S + k)).fin)
    by_cases e : g' = m / s.S
    · subst e
      rw [get_upd_self]; exact h1
    · rw [get_upd_ne _ _ _ _ e]
      have hne : ∀ k, k < s.S → g' * s.S + k ≠ m := fun k hk e' => e ((sub_index hk).1 e').1
      refine (h.w1 g' hg').mono id ?_ ?_
      · intro k hk hx
        simpa only [get_upd_ne _ _ _ _ (hne k hk)] using hx
      · intro k hk
        simp only [get_upd_ne _ _ _ _ (hne k hk)]
  · intro m' hm'
    show LInv2 (get (upd s.l2 m l2') m') s.C (get (upd s.sms m sm') m').awake _ _
    by_cases e : m' = m
    · subst e
      rw [get_upd_self, get_upd_self]; exact h2
    · rw [get_upd_ne _ _ _ _ e, get_upd_ne _ _ _ _ e]; exact h.w2 m' hm'

theorem inv2_updSub (s : Sys) (h : Inv2 s) (u : Nat) (l2' : Level Warp) (sc' : Sub)
    (h2 : LInv2 l2' s.C (get s.sms (u / s.C)).awake
      (fun j => (get (upd s.subs u sc') (u / s.C * s.C + j)).awake)
      (fun j => (get (upd s.subs u sc') (u / s.C * s.C + j)).fin))
    (hr : 0 < sc'.rem → sc'.awake = true) :
    Inv2 { s with l2 := upd s.l2 (u / s.C) l2', subs := upd s.subs u sc' } := by
  refine ⟨h.w0, h.w1, ?_, ?_⟩
  · intro m' hm'
    show LInv2 (get (upd s.l2 (u / s.C) l2') m') s.C (get s.sms m').awake
      (fun j => (get (upd s.subs u sc') (m' * s.C + j)).awake)
      (fun j => (get (upd s.subs u sc') (m' * s.C + j)).fin)
    by_cases e : m' = u / s.C
    · subst e
      rw [get_upd_self]; exact h2
    · rw [get_upd_ne _ _ _ _ e]
      have hne : ∀ k, k < s.C → m' * s.C + k ≠ u := fun k hk e' => e ((sub_index hk).1 e').1
      refine (h.w2 m' hm').mono id ?_ ?_
      · intro k hk hx
        simpa only [get_upd_ne _ _ _ _ (hne k hk)] using hx
      · intro k hk
        simp only [get_upd_ne _ _ _ _ (hne k hk)]
  · intro u' hu'
    show 0 < (get (upd s.subs u sc') u').rem → (get (upd s.subs u sc') u').awake = true
    by_cases e : u' = u
    · subst e
      rw [get_upd_self]; exact hr
    · rw [get_upd_ne _ _ _ _ e]; exact h.run u' hu'

/-! ## the component ticks -/

theorem inv2_tickDriver (s : Sys) (h : Inv2 s) : Inv2 (tickDriver s) := by
  unfold tickDriver
  extract_lets d p s1
  refine Inv2.wake (a := s1) ?_ ?W
  case W =>
    apply Wake.ite
    · exact Wake.manyGpu _ (Wake.refl _) _
    · exact Wake.refl _
  refine inv2_updDrv s h p.1 _ ?_
  refine LInv2_parentTick h.w0 d.1 false _ rfl rfl rfl (fun _ => rfl) rfl rfl rfl ?_
  intro hx
  simpa using hx

theorem inv2_tickGpu (s : Sys) (g : Nat) (hl : s.legacy = false) (hg : g < s.G) (h : Inv2 s) :
    Inv2 (tickGpu s g) := by
  unfold tickGpu
  extract_lets gp r d p2 d1 t p fin s1 s2
  refine Inv2.wake (a := s1) ?_ ?W
  case W =>
    apply Wake.ite
    · apply Wake.manySm
      apply Wake.ite
      · apply Wake.manyGpu; apply Wake.setD; exact Wake.refl _
      · exact Wake.refl _
    · apply Wake.ite
      · apply Wake.manyGpu; apply Wake.setD; exact Wake.refl _
      · exact Wake.refl _
  have hp2 : p2 = d.2 := by simp only [p2, hl]; rfl
  have et : t.2.1.pIn = d.1.pIn ∧ t.2.1.free = d.1.free ∧ t.2.1.pOut = d.1.pOut ∧
      (t.2.2.2.1 = false → t.2.1.undisp = d.1.undisp) ∧ t.2.1.cIn = d.1.cIn ∧
      t.2.1.cOut = d.1.cOut ∧ t.2.1.connAwake = d.1.connAwake ∧
      (t.2.2.2.1 = false → t.2.2.1 = r.2.1) := by
    simp only [t]
    split
    · exact ⟨rfl, rfl, rfl, fun _ => rfl, rfl, rfl, rfl, fun _ => rfl⟩
    · refine ⟨rfl, rfl, rfl, ?_, rfl, rfl, rfl, ?_⟩ <;> intro hx <;> simp at hx
  obtain ⟨e1, e2, e3, e4, e5, e6, e7, e8⟩ := et
  have hr : r = report s.l0 g gp.fin := by
    simp only [r, report]
    split
    · rfl
    · cases hc : s.l0.childSend g <;> rfl
  have hn : r.1.childTake g = none → t.1 = r.1 ∧ t.2.2.2.1 = false := by
    intro hc; simp [t, hc]
  have hs : ∀ u l'' wf, r.1.childTake g = some (u, l'', wf) → t.1 = l'' ∧ t.2.2.2.1 = true := by
    intro u l'' wf hc; simp [t, hc]
  refine inv2_updGpu s h g t.1 p.1 _ ?h0 ?h1
  case h1 =>
    refine LInv2_parentTick (h.w1 g hg) t.2.1 t.2.2.2.1 _ e1 e2 e3 e4 e5 e6 e7 ?_
    intro hx
    show (r.2.2 || p2 || t.2.2.2.1 || p.2.1) = true
    rw [hp2]
    simp only [Bool.or_eq_true] at hx ⊢
    rcases hx with (hx | hx) | hx
    · exact Or.inl (Or.inl (Or.inr hx))
    · exact Or.inl (Or.inr hx)
    · exact Or.inr hx
  case h0 =>
    refine LInv2_childTick h.w0 g gp.fin _ _ r hr t.1 t.2.2.2.1 hn hs ?_ ?_ ?_ ?_
    · intro k hk hx
      simpa only [get_upd_ne _ _ _ _ hk] using hx
    · intro k hk
      simp only [get_upd_ne _ _ _ _ hk]
    · intro hx
      simp only [get_upd_self]
      show (r.2.2 || p2 || t.2.2.2.1 || p.2.1) = true
      have hx' : (r.2.2 || t.2.2.2.1) = true := hx
      simp only [Bool.or_eq_true] at hx' ⊢
      rcases hx' with hx' | hx'
      · exact Or.inl (Or.inl (Or.inl hx'))
      · exact Or.inl (Or.inr hx')
    · intro hx
      simp only [get_upd_self] at hx ⊢
      have hx' : (r.2.2 || p2 || t.2.2.2.1 || p.2.1) = false := hx
      simp only [Bool.or_eq_false_iff] at hx'
      obtain ⟨⟨_, hk⟩, hpp⟩ := hx'
      show fin = r.2.1
      simp only [fin, hpp]
      exact e8 hk

theorem inv2_tickSm (s : Sys) (m : Nat) (hl : s.legacy = false) (hm : m < s.G * s.S) (h : Inv2 s) :
    Inv2 (tickSm s m) := by
  unfold tickSm
  extract_lets g j sm lg r d p2 d1 t p fin s1 s2
  have hS : 0 < s.S := by
    rcases Nat.eq_zero_or_pos s.S with h0 | h0
    · rw [h0] at hm; omega
    · exact h0
  have hg : g < s.G := (Nat.div_lt_iff_lt_mul hS).2 hm
  refine Inv2.wake (a := s1) ?_ ?W
  case W =>
    apply Wake.ite
    · apply Wake.manySub
      apply Wake.ite
      · apply Wake.manySm; apply Wake.wakeGpu; exact Wake.refl _
      · exact Wake.refl _
    · apply Wake.ite
      · apply Wake.manySm; apply Wake.wakeGpu; exact Wake.refl _
      · exact Wake.refl _
  have hp2 : p2 = d.2 := by simp only [p2, hl]; rfl
  have et : t.2.1.pIn = d.1.pIn ∧ t.2.1.free = d.1.free ∧ t.2.1.pOut = d.1.pOut ∧
      (t.2.2.2.2.1 = false → t.2.1.undisp = d.1.undisp) ∧ t.2.1.cIn = d.1.cIn ∧
      t.2.1.cOut = d.1.cOut ∧ t.2.1.connAwake = d.1.connAwake ∧
      (t.2.2.2.2.1 = false → t.2.2.1 = r.2.1) := by
    simp only [t]
    split
    · exact ⟨rfl, rfl, rfl, fun _ => rfl, rfl, rfl, rfl, fun _ => rfl⟩
    · refine ⟨rfl, rfl, rfl, ?_, rfl, rfl, rfl, ?_⟩ <;> intro hx <;> simp at hx
  obtain ⟨e1, e2, e3, e4, e5, e6, e7, e8⟩ := et
  have hr : r = report lg j sm.fin := by
    simp only [r, report]
    split
    · rfl
    · cases hc : lg.childSend j <;> rfl
  have hn : r.1.childTake j = none → t.1 = r.1 ∧ t.2.2.2.2.1 = false := by
    intro hc; simp [t, hc]
  have hs : ∀ u l'' wf, r.1.childTake j = some (u, l'', wf) → t.1 = l'' ∧ t.2.2.2.2.1 = true := by
    intro u l'' wf hc; simp [t, hc]
  have hidx : m / s.S * s.S + j = m := idx_eq m s.S
  refine inv2_updSm s h m t.1 p.1 _ ?h1 ?h2
  case h2 =>
    refine LInv2_parentTick (h.w2 m hm) t.2.1 t.2.2.2.2.1 _ e1 e2 e3 e4 e5 e6 e7 ?_
    intro hx
    show (r.2.2 || p2 || t.2.2.2.2.1 || p.2.1) = true
    rw [hp2]
    simp only [Bool.or_eq_true] at hx ⊢
    rcases hx with (hx | hx) | hx
    · exact Or.inl (Or.inl (Or.inr hx))
    · exact Or.inl (Or.inr hx)
    · exact Or.inr hx
  case h1 =>
    refine LInv2_childTick (h.w1 g hg) j sm.fin _ _ r hr t.1 t.2.2.2.2.1 hn hs ?_ ?_ ?_ ?_
    · intro k hk hx
      simpa only [get_upd_ne _ _ _ _ (idx_ne m s.S k hk)] using hx
    · intro k hk
      simp only [get_upd_ne _ _ _ _ (idx_ne m s.S k hk)]
      rfl
    · intro hx
      simp only [hidx, get_upd_self]
      show (r.2.2 || p2 || t.2.2.2.2.1 || p.2.1) = true
      have hx' : (r.2.2 || t.2.2.2.2.1) = true := hx
      simp only [Bool.or_eq_true] at hx' ⊢
      rcases hx' with hx' | hx'
      · exact Or.inl (Or.inl (Or.inl hx'))
      · exact Or.inl (Or.inr hx')
    · intro hx
      simp only [hidx, get_upd_self] at hx ⊢
      have hx' : (r.2.2 || p2 || t.2.2.2.2.1 || p.2.1) = false := hx
      simp only [Bool.or_eq_false_iff] at hx'
      obtain ⟨⟨_, hk⟩, hpp⟩ := hx'
      show fin = r.2.1
      simp only [fin, hpp]
      exact e8 hk

theorem inv2_tickSub (s : Sys) (u : Nat) (hu : u < s.G * s.S * s.C) (h : Inv2 s) :
    Inv2 (tickSub s u) := by
  unfold tickSub
  extract_lets m j sc lm r q
  have hC : 0 < s.C := by
    rcases Nat.eq_zero_or_pos s.C with h0 | h0
    · rw [h0] at hu; omega
    · exact h0
  have hm : m < s.G * s.S := (Nat.div_lt_iff_lt_mul hC).2 hu
  have hr : r = report lm j sc.fin := by
    simp only [r, report]
    split
    · rfl
    · cases hc : lm.childSend j <;> rfl
  have hq : (q.2.2 = false → q.2.1 = r.2.1) ∧ (0 < q.1 → q.2.2 = true) := by
    simp only [q]
    split
    · rename_i h0
      exact ⟨fun _ => rfl, fun hx => by simp only [h0] at hx; omega⟩
    · exact ⟨fun hx => by simp at hx, fun _ => rfl⟩
  have hidx : u / s.C * s.C + j = u := idx_eq u s.C
  split
  · rename_i ht
    refine inv2_updSub s h u r.1 _ ?_ ?_
    · refine LInv2_childTick (h.w2 m hm) j sc.fin _ _ r hr r.1 false (fun _ => ⟨rfl, rfl⟩)
        (fun u' l'' wf hc => by rw [ht] at hc; cases hc) ?_ ?_ ?_ ?_
      · intro k hk hx
        simpa only [get_upd_ne _ _ _ _ (idx_ne u s.C k hk)] using hx
      · intro k hk
        simp only [get_upd_ne _ _ _ _ (idx_ne u s.C k hk)]
        rfl
      · intro hx
        simp only [hidx, get_upd_self]
        simp only [Bool.or_false] at hx
        simp [hx]
      · intro hx
        simp only [hidx, get_upd_self] at hx ⊢
        simp only [Bool.or_eq_false_iff] at hx
        exact hq.1 hx.2
    · intro hx
      have := hq.2 hx
      simp [this]
  · rename_i n lm' wf ht
    dsimp only
    refine Inv2.wake (a := ?A0) ?_ ?W
    case W =>
      apply Wake.ite
      · apply Wake.manySub; apply Wake.wakeSm; exact Wake.refl _
      · exact Wake.refl _
    refine inv2_updSub s h u lm' _ ?_ (fun _ => rfl)
    refine LInv2_childTick (h.w2 m hm) j sc.fin _ _ r hr lm' true
      (fun hc => by rw [ht] at hc; cases hc)
      (fun u' l'' wf' hc => by rw [ht] at hc; cases hc; exact ⟨rfl, rfl⟩) ?_ ?_ ?_ ?_
    · intro k hk hx
      simpa only [get_upd_ne _ _ _ _ (idx_ne u s.C k hk)] using hx
    · intro k hk
      simp only [get_upd_ne _ _ _ _ (idx_ne u s.C k hk)]
      rfl
    · intro _
      simp only [hidx, get_upd_self]
    · intro hx
      simp only [hidx, get_upd_self] at hx
      cases hx

/-! ## the levels keep their number of children -/

structure NInv (s : Sys) : Prop where
  n0 : s.l0.n = s.G
  n1 : ∀ g, g < s.G → (get s.l1 g).n = s.S
  n2 : ∀ m, m < s.G * s.S → (get s.l2 m).n = s.C

theorem NInv.of_inv1 {s : Sys} (h : Inv1 s) : NInv s :=
  ⟨h.lv0.hn, fun g hg => (h.lv1 g hg).hn, fun m hm => (h.lv2 m hm).hn⟩

theorem NInv.of_eq {a b : Sys} (h : NInv a) (hG : b.G = a.G) (hS : b.S = a.S) (hC : b.C = a.C)
    (h0 : b.l0.n = a.l0.n) (h1 : ∀ g, (get b.l1 g).n = (get a.l1 g).n)
    (h2 : ∀ m, (get b.l2 m).n = (get a.l2 m).n) : NInv b := by
  refine ⟨?_, ?_, ?_⟩
  · rw [h0, hG]; exact h.n0
  · intro g hg; rw [h1, hS]; rw [hG] at hg; exact h.n1 g hg
  · intro m hm; rw [h2, hC]; rw [hG, hS] at hm; exact h.n2 m hm

theorem NInv.wake {a b : Sys} (h : NInv a) (hw : Wake a b) : NInv b :=
  h.of_eq hw.G hw.S hw.C (by rw [hw.l0]) (fun g => by rw [hw.l1]) (fun m => by rw [hw.l2])

theorem get_upd_n {β : Type} (ls : List (Level β)) (i : Nat) (x : Level β)
    (hx : x.n = (get ls i).n) (k : Nat) : (get (upd ls i x) k).n = (get ls k).n := by
  rw [get_upd]
  split
  · rename_i e; subst e; exact hx
  · rfl

/-! ## the connection ticks -/

theorem inv2_tickConn0 (s : Sys) (hn : NInv s) (h : Inv2 s) : Inv2 (tickConn0 s) := by
  unfold tickConn0
  extract_lets o s1
  have hw : Wake s1 (wakeMany wakeGpu id s1 o.wakeChi) := Wake.manyGpu _ (Wake.refl _) _
  refine ⟨?_, fun g hg => hw.w1 g (h.w1 g (by rw [hw.G] at hg; exact hg)),
    fun m hm => hw.w2 m (h.w2 m (by rw [hw.G, hw.S] at hm; exact hm)),
    fun u hu => hw.run u (h.run u (by rw [hw.G, hw.S, hw.C] at hu; exact hu))⟩
  rw [hw.l0, hw.G]
  refine LInv2_connTick h.w0 (by rw [hn.n0]; exact Nat.le_refl _) ?_ ?_ ?_ ?_ ?_
  · intro hx
    apply hw.dA
    show (s.dAwake || o.wakePar) = true
    simp [hx]
  · intro hx
    apply hw.dA
    show (s.dAwake || o.wakePar) = true
    have hx' : o.wakePar = true := hx
    simp [hx']
  · exact fun j _ => hw.gA j
  · intro j _ hmem
    rw [wakeMany_wakeGpu_awake]
    simp only [Bool.or_eq_true, List.any_eq_true, decide_eq_true_eq]
    exact Or.inr ⟨j, hmem, rfl⟩
  · exact fun j _ => hw.gF j

theorem inv2_tickConn1 (s : Sys) (g : Nat) (hg : g < s.G) (hn : NInv s) (h : Inv2 s) :
    Inv2 (tickConn1 s g) := by
  unfold tickConn1
  extract_lets o s1 s2
  have hw2 : Wake s1 s2 := by
    apply Wake.ite
    · exact (Wake.refl _).wakeGpu g
    · exact Wake.refl _
  have hw3 : Wake s2 (wakeMany wakeSm (fun k => g * s.S + k) s2 o.wakeChi) :=
    Wake.manySm _ (Wake.refl _) _
  have hw : Wake s1 (wakeMany wakeSm (fun k => g * s.S + k) s2 o.wakeChi) := hw2.trans hw3
  refine ⟨hw.w0 h.w0, ?_,
    fun m hm => hw.w2 m (h.w2 m (by rw [hw.G, hw.S] at hm; exact hm)),
    fun u hu => hw.run u (h.run u (by rw [hw.G, hw.S, hw.C] at hu; exact hu))⟩
  intro g' hg'
  rw [hw.G] at hg'
  by_cases e : g' = g
  · subst e
    rw [hw.l1, hw.S]
    show LInv2 (get (upd s.l1 g' o.l) g') s.S _ _ _
    rw [get_upd_self]
    refine LInv2_connTick (h.w1 g' hg) (by rw [hn.n1 g' hg]; exact Nat.le_refl _) ?_ ?_ ?_ ?_ ?_
    · exact hw.gA g'
    · intro hx
      apply hw3.gA
      have hx' : o.wakePar = true := hx
      simp only [s2, hx', if_true]
      rw [wakeGpu_awake]
      simp
    · exact fun j _ => hw.mA _
    · intro j _ hmem
      rw [wakeMany_wakeSm_awake]
      simp only [Bool.or_eq_true, List.any_eq_true, decide_eq_true_eq]
      exact Or.inr ⟨j, hmem, rfl⟩
    · exact fun j _ => hw.mF _
  · refine hw.w1 g' ?_
    show LInv2 (get (upd s.l1 g o.l) g') s.S _ _ _
    rw [get_upd_ne _ _ _ _ e]
    exact h.w1 g' hg'

theorem inv2_tickConn2 (s : Sys) (m : Nat) (hm : m < s.G * s.S) (hn : NInv s) (h : Inv2 s) :
    Inv2 (tickConn2 s m) := by
  unfold tickConn2
  extract_lets o s1 s2
  have hw2 : Wake s1 s2 := by
    apply Wake.ite
    · exact (Wake.refl _).wakeSm m
    · exact Wake.refl _
  have hw3 : Wake s2 (wakeMany wakeSub (fun k => m * s.C + k) s2 o.wakeChi) :=
    Wake.manySub _ (Wake.refl _) _
  have hw : Wake s1 (wakeMany wakeSub (fun k => m * s.C + k) s2 o.wakeChi) := hw2.trans hw3
  refine ⟨hw.w0 h.w0, fun g hg => hw.w1 g (h.w1 g (by rw [hw.G] at hg; exact hg)), ?_,
    fun u hu => hw.run u (h.run u (by rw [hw.G, hw.S, hw.C] at hu; exact hu))⟩
  intro m' hm'
  rw [hw.G, hw.S] at hm'
  by_cases e : m' = m
  · subst e
    rw [hw.l2, hw.C]
    show LInv2 (get (upd s.l2 m' o.l) m') s.C _ _ _
    rw [get_upd_self]
    refine LInv2_connTick (h.w2 m' hm) (by rw [hn.n2 m' hm]; exact Nat.le_refl _) ?_ ?_ ?_ ?_ ?_
    · exact hw.mA m'
    · intro hx
      apply hw3.mA
      have hx' : o.wakePar = true := hx
      simp only [s2, hx', if_true]
      rw [wakeSm_awake]
      simp
    · exact fun j _ => hw.uA _
    · intro j _ hmem
      rw [wakeMany_wakeSub_awake]
      simp only [Bool.or_eq_true, List.any_eq_true, decide_eq_true_eq]
      exact Or.inr ⟨j, hmem, rfl⟩
    · exact fun j _ => hw.uF _
  · refine hw.w2 m' ?_
    show LInv2 (get (upd s.l2 m o.l) m') s.C _ _ _
    rw [get_upd_ne _ _ _ _ e]
    exact h.w2 m' hm'

/-! ## `NInv` is inductive -/

theorem ninv_tickDriver (s : Sys) (h : NInv s) : NInv (tickDriver s) := by
  unfold tickDriver
  extract_lets d p s1
  refine NInv.wake (a := s1) ?_ ?W
  case W =>
    apply Wake.ite
    · exact Wake.manyGpu _ (Wake.refl _) _
    · exact Wake.refl _
  exact h.of_eq rfl rfl rfl ((procUp_fields _).2.2.1.trans (dispatch_fields _).2.2.2)
    (fun _ => rfl) (fun _ => rfl)

theorem ninv_tickGpu (s : Sys) (g : Nat) (h : NInv s) : NInv (tickGpu s g) := by
  unfold tickGpu
  extract_lets gp r d p2 d1 t p fin s1 s2
  refine NInv.wake (a := s1) ?_ ?W
  case W =>
    apply Wake.ite
    · apply Wake.manySm
      apply Wake.ite
      · apply Wake.manyGpu; apply Wake.setD; exact Wake.refl _
      · exact Wake.refl _
    · apply Wake.ite
      · apply Wake.manyGpu; apply Wake.setD; exact Wake.refl _
      · exact Wake.refl _
  have hr : r = report s.l0 g gp.fin := by
    simp only [r, report]
    split
    · rfl
    · cases hc : s.l0.childSend g <;> rfl
  have hrn : r.1.n = s.l0.n := by rw [hr]; exact (report_fields _ _ _).2.2.2.2.2.1
  have hn1 : t.1.n = s.l0.n ∧ t.2.1.n = d.1.n := by
    simp only [t]
    split
    · exact ⟨hrn, rfl⟩
    · rename_i k l0' wf hc
      exact ⟨(childTake_fields hc).2.2.2.2.2.1.trans hrn, rfl⟩
  refine h.of_eq rfl rfl rfl hn1.1 (get_upd_n _ _ _ ?_) (fun _ => rfl)
  exact (procUp_fields t.2.1).2.2.1.trans (hn1.2.trans (dispatch_fields _).2.2.2)

theorem ninv_tickSm (s : Sys) (m : Nat) (h : NInv s) : NInv (tickSm s m) := by
  unfold tickSm
  extract_lets g j sm lg r d p2 d1 t p fin s1 s2
  refine NInv.wake (a := s1) ?_ ?W
  case W =>
    apply Wake.ite
    · apply Wake.manySub
      apply Wake.ite
      · apply Wake.manySm; apply Wake.wakeGpu; exact Wake.refl _
      · exact Wake.refl _
    · apply Wake.ite
      · apply Wake.manySm; apply Wake.wakeGpu; exact Wake.refl _
      · exact Wake.refl _
  have hr : r = report lg j sm.fin := by
    simp only [r, report]
    split
    · rfl
    · cases hc : lg.childSend j <;> rfl
  have hrn : r.1.n = lg.n := by rw [hr]; exact (report_fields _ _ _).2.2.2.2.2.1
  have hn1 : t.1.n = lg.n ∧ t.2.1.n = d.1.n := by
    simp only [t]
    split
    · exact ⟨hrn, rfl⟩
    · rename_i k l0' wf hc
      exact ⟨(childTake_fields hc).2.2.2.2.2.1.trans hrn, rfl⟩
  refine h.of_eq rfl rfl rfl rfl (get_upd_n _ _ _ hn1.1) (get_upd_n _ _ _ ?_)
  exact (procUp_fields t.2.1).2.2.1.trans (hn1.2.trans (dispatch_fields _).2.2.2)

theorem ninv_tickSub (s : Sys) (u : Nat) (h : NInv s) : NInv (tickSub s u) := by
  unfold tickSub
  extract_lets m j sc lm r q
  have hr : r = report lm j sc.fin := by
    simp only [r, report]
    split
    · rfl
    · cases hc : lm.childSend j <;> rfl
  have hrn : r.1.n = lm.n := by rw [hr]; exact (report_fields _ _ _).2.2.2.2.2.1
  split
  · exact h.of_eq rfl rfl rfl rfl (fun _ => rfl) (get_upd_n _ _ _ hrn)
  · rename_i n lm' wf ht
    dsimp only
    refine NInv.wake (a := ?A0) ?_ ?W
    case W =>
      apply Wake.ite
      · apply Wake.manySub; apply Wake.wakeSm; exact Wake.refl _
      · exact Wake.refl _
    exact h.of_eq rfl rfl rfl rfl (fun _ => rfl)
      (get_upd_n _ _ _ ((childTake_fields ht).2.2.2.2.2.1.trans hrn))

theorem ninv_tickConn0 (s : Sys) (h : NInv s) : NInv (tickConn0 s) := by
  unfold tickConn0
  extract_lets o s1
  refine NInv.wake (a := s1) ?_ (Wake.manyGpu _ (Wake.refl _) _)
  exact h.of_eq rfl rfl rfl (connTick_parent_fields _).1 (fun _ => rfl) (fun _ => rfl)

theorem ninv_tickConn1 (s : Sys) (g : Nat) (h : NInv s) : NInv (tickConn1 s g) := by
  unfold tickConn1
  extract_lets o s1 s2
  refine NInv.wake (a := s1) ?_ ?W
  case W =>
    apply Wake.manySm
    apply Wake.ite
    · exact (Wake.refl _).wakeGpu g
    · exact Wake.refl _
  exact h.of_eq rfl rfl rfl rfl (get_upd_n _ _ _ (connTick_parent_fields _).1) (fun _ => rfl)

theorem ninv_tickConn2 (s : Sys) (m : Nat) (h : NInv s) : NInv (tickConn2 s m) := by
  unfold tickConn2
  extract_lets o s1 s2
  refine NInv.wake (a := s1) ?_ ?W
  case W =>
    apply Wake.manySub
    apply Wake.ite
    · exact (Wake.refl _).wakeSm m
    · exact Wake.refl _
  exact h.of_eq rfl rfl rfl rfl (fun _ => rfl) (get_upd_n _ _ _ (connTick_parent_fields _).1)

theorem ninv_step (s : Sys) (e : Ev) (h : NInv s) : NInv (step s e) := by
  cases e with
  | drv => exact ninv_tickDriver s h
  | gpu g => exact ninv_tickGpu s g h
  | sm m => exact ninv_tickSm s m h
  | sub u => exact ninv_tickSub s u h
  | c0 => exact ninv_tickConn0 s h
  | c1 g => exact ninv_tickConn1 s g h
  | c2 m => exact ninv_tickConn2 s m h

theorem ninv_init (legacy : Bool) (G S C : Nat) (trace : List Kernel) :
    NInv (init legacy G S C trace) := by
  refine ⟨rfl, ?_, ?_⟩
  · intro g hg
    have hg' : g < G := hg
    show (get (List.replicate G (mkLevel S : Level Block)) g).n = S
    rw [get_replicate _ _ _ hg']; rfl
  · intro m hm
    have hm' : m < G * S := hm
    show (get (List.replicate (G * S) (mkLevel C : Level Warp)) m).n = C
    rw [get_replicate _ _ _ hm']; rfl

theorem ninv_run (s : Sys) (evs : List Ev) (h : NInv s) : NInv (run s evs) := by
  induction evs generalizing s with
  | nil => exact h
  | cons e evs ih => exact ih (step s e) (ninv_step s e h)

/-! ## the main theorems -/

/-- a level with empty buffers -/
theorem LInv2_fresh (l : Level α) (n : Nat) (pa : Bool) (ca : Nat → Bool) (cf : Nat → Nat)
    (h1 : l.pIn = []) (h2 : l.cIn = []) (h3 : l.cOut = []) (h4 : l.pOut = [])
    (hpa : l.undisp ≠ [] → pa = true) (hcf : ∀ j, j < n → cf j = 0) : LInv2 l n pa ca cf := by
  refine ⟨fun hx => absurd h1 hx, ?_, Or.inr ?_, fun hu _ => Or.inl (hpa hu), ?_⟩
  · intro j _ hx
    rw [h2, get_nil] at hx
    exact absurd rfl hx
  · intro p _
    cases p with
    | zero =>
      intro j u rest e
      rw [h4] at e; cases e
    | succ k =>
      left
      rw [h3, get_nil]; rfl
  · intro j hj hx
    rw [hcf j hj] at hx
    omega

theorem inv2_init (G S C : Nat) (trace : List Kernel) : Inv2 (init false G S C trace) := by
  refine ⟨?_, ?_, ?_, ?_⟩
  · refine LInv2_fresh _ _ _ _ _ rfl rfl rfl rfl (fun _ => rfl) ?_
    intro j _
    show (get (List.replicate G (default : Gpu)) j).fin = 0
    rw [get_replicate_default]; rfl
  · intro g hg
    have hg' : g < G := hg
    show LInv2 (get (List.replicate G (mkLevel S : Level Block)) g) S _ _ _
    rw [get_replicate _ _ _ hg']
    refine LInv2_fresh _ _ _ _ _ rfl rfl rfl rfl (fun hx => absurd rfl hx) ?_
    intro j _
    show (get (List.replicate (G * S) (default : Smx)) (g * S + j)).fin = 0
    rw [get_replicate_default]; rfl
  · intro m hm
    have hm' : m < G * S := hm
    show LInv2 (get (List.replicate (G * S) (mkLevel C : Level Warp)) m) C _ _ _
    rw [get_replicate _ _ _ hm']
    refine LInv2_fresh _ _ _ _ _ rfl rfl rfl rfl (fun hx => absurd rfl hx) ?_
    intro j _
    show (get (List.replicate (G * S * C) (default : Sub)) (m * C + j)).fin = 0
    rw [get_replicate_default]; rfl
  · intro u _ hx
    have : (get (List.replicate (G * S * C) (default : Sub)) u).rem = 0 := by
      rw [get_replicate_default]; rfl
    have hx' : 0 < (get (List.replicate (G * S * C) (default : Sub)) u).rem := hx
    omega

/-- **`Inv2` is preserved by every in-range event of the repaired code** (`NInv`: the levels have the
    right number of children; it is itself inductive, see `ninv_step`, and follows from `Inv1`) -/
theorem inv2_step (s : Sys) (e : Ev) (hl : s.legacy = false) (he : e.InRange s.G s.S s.C)
    (hn : NInv s) : Inv2 s → Inv2 (step s e) := by
  intro h
  cases e with
  | drv => exact inv2_tickDriver s h
  | gpu g => exact inv2_tickGpu s g hl he h
  | sm m => exact inv2_tickSm s m hl he h
  | sub u => exact inv2_tickSub s u he h
  | c0 => exact inv2_tickConn0 s hn h
  | c1 g => exact inv2_tickConn1 s g he hn h
  | c2 m => exact inv2_tickConn2 s m he hn h

theorem inv2_run_of (s : Sys) (evs : List Ev) (hl : s.legacy = false)
    (he : ∀ e ∈ evs, e.InRange s.G s.S s.C) (hn : NInv s) (h : Inv2 s) : Inv2 (run s evs) := by
  induction evs generalizing s with
  | nil => exact h
  | cons e evs ih =>
    have hs := shape_step s e
    refine ih (step s e) (hs.legacy.trans hl) ?_ (ninv_step s e hn)
      (inv2_step s e hl (he e (List.mem_cons_self ..)) hn h)
    intro e' he'
    rw [hs.G, hs.S, hs.C]
    exact he e' (List.mem_cons_of_mem _ he')

/-- **`Inv2` holds along every in-range event sequence of the repaired code** -/
theorem inv2_run (G S C : Nat) (trace : List Kernel) (evs : List Ev)
    (he : ∀ e ∈ evs, e.InRange G S C) : Inv2 (run (init false G S C trace) evs) :=
  inv2_run_of _ evs rfl he (ninv_init false G S C trace) (inv2_init G S C trace)

end C20
