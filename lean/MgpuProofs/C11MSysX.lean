import MgpuProofs.C11MSys
/-! # C11 helper: several-GPU closed system — the lanes ghost records vs. the one driver (`MSys.XInv`) -/
namespace C11

theorem MqEnv.step_rsp_of (e : MqEnv) (j : Nat) (x : MqReq) (h : e.outstanding[j]? = some x) :
    (e.step (.rsp j)).1.s.portIn = e.s.portIn ++ [x.id] ∧ (e.step (.rsp j)).1.s.answered = e.s.answered := by
  have hlt : j < e.outstanding.length := by
    apply Decidable.byContradiction; intro hn
    rw [List.getElem?_eq_none (by omega)] at h; cases h
  cases ho : e.outstanding with
  | nil => rw [ho] at hlt; simp at hlt
  | cons a b =>
    have h' : (a :: b)[j % (a :: b).length]? = some x := by
      rw [← ho, Nat.mod_eq_of_lt hlt]; exact h
    simp only [MqEnv.step, ho, h']
    refine ⟨?_, ?_⟩ <;> simp

/-- a move other than the driver's tick never removes an answer from the port -/
theorem MqEnv.step_in_mono (e : MqEnv) (op : MqOp) (h : op ≠ .tick) :
    ∀ x ∈ e.s.answered ++ e.s.portIn, x ∈ (e.step op).1.s.answered ++ (e.step op).1.s.portIn := by
  intro x hx
  cases op with
  | tick => exact absurd rfl h
  | enq q c =>
    obtain ⟨h1, h2⟩ := e.step_ans_frame (.enq q c) (by simp) (by simp)
    rw [h1, h2]; exact hx
  | take k =>
    obtain ⟨h1, h2⟩ := e.step_ans_frame (.take k) (by simp) (by simp)
    rw [h1, h2]; exact hx
  | rsp j =>
    simp only [MqEnv.step]
    split
    · exact hx
    · split
      · exact hx
      · simp only [List.mem_append] at hx ⊢
        rcases hx with hx | hx
        · exact .inl hx
        · exact .inr (.inl hx)

/-- how a move of the one-GPU system changes its `mq` component -/
theorem Sys.step_mq_cases (s : Sys) (op : SysOp) :
    (s.step op).1.mq = s.mq ∨ ∃ x, (s.step op).1.mq = (s.mq.step x).1 ∧ (op ≠ .drvTick → x ≠ .tick) ∧
      (op ≠ .toCp → ∀ k, x ≠ .take k) := by
  cases op <;> simp only [Sys.step] <;>
    repeat' (first
      | exact Or.inl rfl
      | exact Or.inl trivial
      | exact Or.inr ⟨_, rfl, by simp, by simp⟩
      | split)

theorem Sys.step_stub (s : Sys) (op : SysOp) (h1 : op ≠ .drvTick) :
    (op ≠ .toCp → (s.step op).1.mq.seen = s.mq.seen) ∧
    ∀ x ∈ s.mq.s.answered ++ s.mq.s.portIn, x ∈ (s.step op).1.mq.s.answered ++ (s.step op).1.mq.s.portIn := by
  rcases s.step_mq_cases op with e | ⟨x, e, e1, e2⟩
  · rw [e]; exact ⟨fun _ => rfl, fun x hx => hx⟩
  · rw [e]
    exact ⟨fun h => s.mq.step_seen_frame x (e2 h), s.mq.step_in_mono x (e1 h1)⟩

theorem Sys.load_toCp (l : Sys) (r : MqReq) (h : l.cp.s.drvIn.length < l.cp.s.capIn) :
    ((l.load r).step .toCp).1.mq.seen = l.mq.seen ++ [r] ∧
    ∀ x ∈ l.mq.s.answered ++ l.mq.s.portIn,
      x ∈ ((l.load r).step .toCp).1.mq.s.answered ++ ((l.load r).step .toCp).1.mq.s.portIn := by
  have h' : (l.load r).cp.s.drvIn.length < (l.load r).cp.s.capIn := h
  refine ⟨?_, ?_⟩
  · simp only [Sys.step, Sys.load] at h' ⊢
    simp only [h', if_true, MqEnv.step]
    simp
  · exact ((l.load r).step_stub .toCp (by simp)).2

theorem Sys.toDrv_fed (l : Sys) (m : CpMsg) (rest : List CpMsg) (rq : MqReq) (j : Nat) (hd : l.cp.s.drvOut = m :: rest)
    (hr : l.reqOfCp m.id = some rq) (hf : findIdx? (fun (x : MqReq) => x.id == rq.id) l.mq.outstanding = some j) :
    rq.id ∈ (l.step .toDrv).1.mq.s.answered ++ (l.step .toDrv).1.mq.s.portIn := by
  obtain ⟨x, hx, hp⟩ := findIdx?_spec _ _ _ hf
  have hid : x.id = rq.id := by simpa using hp
  simp only [Sys.step, hd, hr, hf]
  rw [(l.mq.step_rsp_of j x hx).1, hid]
  simp

/-! ## what the lanes record is what the one driver handed out and got back -/

structure MSys.XInv (s : MSys) : Prop where
  /-- a request that reached a GPU was taken from the driver's port -/
  sub : ∀ l ∈ s.lanes, ∀ rq ∈ l.mq.seen, rq ∈ s.mq.seen
  /-- every answer the driver holds or has processed was given back by one of the GPUs -/
  fed : ∀ x ∈ s.mq.s.answered ++ s.mq.s.portIn, ∃ l ∈ s.lanes, x ∈ l.mq.s.answered ++ l.mq.s.portIn

theorem MSys.XInv.init (c : MCfg) : (MSys.init c).XInv := by
  refine ⟨fun l hl rq hr => ?_, fun x hx => ?_⟩
  · have := List.eq_of_mem_replicate hl
    subst this
    simp [Sys.init, MqEnv.init] at hr
  · simp [MSys.init, MqEnv.init] at hx

theorem exists_mem_set {P : Sys → Prop} {lanes : List Sys} {g : Nat} {l l' : Sys} (hl : lanes[g]? = some l)
    (hmono : P l → P l') : (∃ l0 ∈ lanes, P l0) → ∃ l0 ∈ lanes.set g l', P l0 := by
  rintro ⟨l0, hm, hp⟩
  obtain ⟨i, hi⟩ := List.mem_iff_getElem?.1 hm
  have hg : g < lanes.length := by
    apply Decidable.byContradiction; intro hn
    rw [List.getElem?_eq_none (by omega)] at hl; cases hl
  by_cases hig : i = g
  · subst hig
    rw [hl] at hi; cases hi
    exact ⟨l', List.mem_iff_getElem?.2 ⟨i, by simp [hg]⟩, hmono hp⟩
  · refine ⟨l0, List.mem_iff_getElem?.2 ⟨i, ?_⟩, hp⟩
    rw [List.getElem?_set]; simp [Ne.symm hig, hi]

theorem mem_set_self {lanes : List Sys} {g : Nat} {l l' : Sys} (hl : lanes[g]? = some l) : l' ∈ lanes.set g l' := by
  have hg : g < lanes.length := by
    apply Decidable.byContradiction; intro hn
    rw [List.getElem?_eq_none (by omega)] at hl; cases hl
  exact List.mem_iff_getElem?.2 ⟨g, by simp [hg]⟩

theorem MSys.XInv.step {s : MSys} (h : s.XInv) (op : MOp) : (s.step op).1.XInv := by
  cases op with
  | enq q h2d addr len salt =>
    simp only [MSys.step]
    split
    · exact h
    · split
      · obtain ⟨a1, a2⟩ := s.mq.step_ans_frame (.enq q _) (by simp) (by simp)
        refine ⟨?_, ?_⟩
        · intro l hl rq hr
          obtain ⟨l0, hl0, rfl⟩ := List.mem_map.1 hl
          simp only
          rw [s.mq.step_seen_frame (.enq q _) (by simp)]
          rw [(l0.step_stub _ (by simp)).1 (by simp)] at hr
          exact h.sub l0 hl0 rq hr
        · intro x hx
          simp only at hx
          rw [a1, a2] at hx
          obtain ⟨l0, hl0, hx0⟩ := h.fed x hx
          exact ⟨_, List.mem_map.2 ⟨l0, hl0, rfl⟩, (l0.step_stub _ (by simp)).2 x hx0⟩
      · exact h
  | drvTick =>
    refine ⟨fun l hl rq hr => ?_, fun x hx => ?_⟩
    · show rq ∈ (s.mq.step .tick).1.seen
      rw [s.mq.step_seen_frame .tick (by simp)]
      exact h.sub l hl rq hr
    · exact h.fed x (Mq.tick_ans_sub s.mq.s x hx)
  | toCp =>
    simp only [MSys.step]
    split
    · exact h
    · rename_i r rest hpo
      split
      · exact h
      · rename_i l hl
        split
        · rename_i hroom
          obtain ⟨b1, b2⟩ := l.load_toCp r hroom
          obtain ⟨a1, a2⟩ := s.mq.step_ans_frame (.take 1) (by simp) (by simp)
          have hseen : (s.mq.step (.take 1)).1.seen = s.mq.seen ++ [r] := by
            simp [MqEnv.step, hpo]
          refine ⟨?_, ?_⟩
          · intro l0 hl0 rq hr
            simp only at hl0 ⊢
            rw [hseen]
            rcases List.mem_or_eq_of_mem_set hl0 with hm | hm
            · exact List.mem_append_left _ (h.sub l0 hm rq hr)
            · rw [hm, b1] at hr
              rcases List.mem_append.1 hr with hr | hr
              · exact List.mem_append_left _ (h.sub l (List.mem_of_getElem? hl) rq hr)
              · exact List.mem_append_right _ hr
          · intro x hx
            simp only at hx ⊢
            rw [a1, a2] at hx
            exact exists_mem_set hl (b2 x) (h.fed x hx)
        · exact h
  | gpu g op =>
    simp only [MSys.step]
    split
    · rename_i hloc
      split
      · exact h
      · rename_i l hl
        have hnt : op ≠ .drvTick := by intro e; subst e; simp [SysOp.isLocal] at hloc
        have hnc : op ≠ .toCp := by intro e; subst e; simp [SysOp.isLocal] at hloc
        obtain ⟨b1, b2⟩ := l.step_stub op hnt
        refine ⟨?_, ?_⟩
        · intro l0 hl0 rq hr
          simp only at hl0 ⊢
          rcases List.mem_or_eq_of_mem_set hl0 with hm | hm
          · exact h.sub l0 hm rq hr
          · rw [hm, b1 hnc] at hr
            exact h.sub l (List.mem_of_getElem? hl) rq hr
        · intro x hx
          exact exists_mem_set hl (b2 x) (h.fed x hx)
    · exact h
  | toDrv g =>
    simp only [MSys.step]
    split
    · exact h
    · rename_i l hl
      split
      · exact h
      · rename_i m rest hd
        split
        · exact h
        · rename_i rq hrq
          split
          · rename_i j j' hj hj'
            obtain ⟨b1, b2⟩ := l.step_stub .toDrv (by simp)
            obtain ⟨y, hy, hp⟩ := findIdx?_spec _ _ _ hj
            have hid : y.id = rq.id := by simpa using hp
            obtain ⟨c1, c2⟩ := s.mq.step_rsp_of j y hy
            refine ⟨?_, ?_⟩
            · intro l0 hl0 r0 hr
              simp only at hl0 ⊢
              rw [s.mq.step_seen_frame (.rsp j) (by simp)]
              rcases List.mem_or_eq_of_mem_set hl0 with hm | hm
              · exact h.sub l0 hm r0 hr
              · rw [hm, b1 (by simp)] at hr
                exact h.sub l (List.mem_of_getElem? hl) r0 hr
            · intro x hx
              simp only at hx ⊢
              rw [c1, c2, ← List.append_assoc] at hx
              rcases List.mem_append.1 hx with hx | hx
              · exact exists_mem_set hl (b2 x) (h.fed x hx)
              · simp only [List.mem_singleton] at hx
                rw [hx, hid]
                exact ⟨_, mem_set_self hl, l.toDrv_fed m rest rq j' hd hrq hj'⟩
          · exact h

theorem MSys.XInv.run : ∀ (ops : List MOp) {s : MSys}, s.XInv → (s.run ops).XInv
  | [], _, h => h
  | op :: rest, _, h => MSys.XInv.run rest (h.step op)

end C11
