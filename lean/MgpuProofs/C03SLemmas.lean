import MgpuModel.C03S
/-! Helper lemmas and the conformance tactic for the scalar-ALU theorems of C03. -/
namespace C03S
open C03S

/-- handler `h` dispatched for (format, opcode) has, for every input, exactly the architectural
    effect the ISA function `spec` prescribes (`dstW` = width of the destination register) -/
def ConformsTo (disp : Nat → Nat → Option (ScalarIn → ScalarOut)) (fmt op dstW : Nat)
    (spec : ScalarIn → ScalarOut) : Prop :=
  ∃ h, disp fmt op = some h ∧ ∀ i : ScalarIn, (h i).norm dstW = spec i

/-- the same for opcodes that read SCC: for every input whose SCC is a bit -/
def ConformsScc (disp : Nat → Nat → Option (ScalarIn → ScalarOut)) (fmt op dstW : Nat)
    (spec : ScalarIn → ScalarOut) : Prop :=
  ∃ h, disp fmt op = some h ∧ ∀ i : ScalarIn, i.sccOk → (h i).norm dstW = spec i

theorem ult_iff {n} (a b : BitVec n) : BitVec.ult a b = true ↔ a < b := by
  simp [BitVec.lt_def, BitVec.ult]

theorem ule_iff {n} (a b : BitVec n) : BitVec.ule a b = true ↔ a ≤ b := by
  simp [BitVec.le_def, BitVec.ule]

theorem and_mask (k : Nat) (x : BitVec 64) (m : Nat) (hm : m % 2 ^ 64 = 2 ^ k - 1) (hk : k ≤ 64) :
    (x &&& BitVec.ofNat 64 m).toNat = x.toNat % 2 ^ k := by
  simp only [BitVec.toNat_and, BitVec.toNat_ofNat]
  rw [hm, Nat.and_two_pow_sub_one_eq_mod]

theorem and_mask32 (x : BitVec 64) : x &&& 4294967295#64 = (x.setWidth 32).setWidth 64 := by
  apply BitVec.eq_of_toNat_eq
  rw [and_mask 32 x _ (by decide) (by decide)]
  simp only [BitVec.toNat_setWidth]
  omega

theorem and_mask16 (x : BitVec 64) : x &&& 65535#64 = (x.setWidth 16).setWidth 64 := by
  apply BitVec.eq_of_toNat_eq
  rw [and_mask 16 x _ (by decide) (by decide)]
  simp only [BitVec.toNat_setWidth]
  omega

theorem nat_and_31 (n : Nat) : n &&& 31 = n % 32 := Nat.and_two_pow_sub_one_eq_mod n 5
theorem nat_and_63 (n : Nat) : n &&& 63 = n % 64 := Nat.and_two_pow_sub_one_eq_mod n 6
theorem mod256_32 (n : Nat) : n % 256 % 32 = n % 32 := Nat.mod_mod_of_dvd n (by decide)
theorem mod256_64 (n : Nat) : n % 256 % 64 = n % 64 := Nat.mod_mod_of_dvd n (by decide)
theorem mod2p64_32 (n : Nat) : n % 18446744073709551616 % 32 = n % 32 := Nat.mod_mod_of_dvd n (by decide)
theorem mod2p64_64 (n : Nat) : n % 18446744073709551616 % 64 = n % 64 := Nat.mod_mod_of_dvd n (by decide)
theorem mod2p32_32 (n : Nat) : n % 4294967296 % 32 = n % 32 := Nat.mod_mod_of_dvd n (by decide)

/-- zero test of a zero-extended value -/
theorem w64_beq_zero (x : BitVec 32) : (BitVec.setWidth 64 x == 0#64) = (x == 0#32) := by
  apply Bool.eq_iff_iff.mpr
  simp only [beq_iff_eq]
  constructor
  · intro h
    apply BitVec.eq_of_toNat_eq
    have := congrArg BitVec.toNat h
    simp only [BitVec.toNat_setWidth, BitVec.toNat_ofNat] at this
    simp only [BitVec.toNat_ofNat]
    omega
  · intro h; subst h; rfl

theorem w64_bne_zero (x : BitVec 32) : (BitVec.setWidth 64 x != 0#64) = (x != 0#32) := by
  simp only [bne, w64_beq_zero]

theorem toInt32 (a : BitVec 32) :
    a.toInt = if a.toNat < 2147483648 then (a.toNat : Int) else (a.toNat : Int) - 4294967296 := by
  rw [BitVec.toInt_eq_toNat_cond]; split <;> split <;> first | rfl | omega

theorem slt_iff' {n} (a b : BitVec n) : BitVec.slt a b = true ↔ a.toInt < b.toInt := by
  simp [BitVec.slt]

/-- the sign test the GCN3 handler uses for s_add_i32 is signed overflow of the exact sum -/
theorem ovf_add (a b : BitVec 32) :
    ((BitVec.slt 0#32 b && BitVec.slt (a + b) a) || (BitVec.slt b 0#32 && BitVec.slt a (a + b))) = Spec.addOvf a b := by
  have hs : (a + b).toNat = (a.toNat + b.toNat) % 4294967296 := by simp [BitVec.toNat_add]
  have ha := a.isLt
  have hb := b.isLt
  apply Bool.eq_iff_iff.mpr
  simp only [Spec.addOvf, Bool.or_eq_true, Bool.and_eq_true, slt_iff', decide_eq_true_eq, toInt32, hs, BitVec.toNat_ofNat]
  split <;> split <;> split <;> omega

theorem ovf_sub (a b : BitVec 32) :
    ((BitVec.slt 0#32 b && BitVec.slt a (a - b)) || (BitVec.slt b 0#32 && BitVec.slt (a - b) a)) = Spec.subOvf a b := by
  have hs : (a - b).toNat = (a.toNat + (4294967296 - b.toNat)) % 4294967296 := by simp [BitVec.toNat_sub]; omega
  have ha := a.isLt
  have hb := b.isLt
  apply Bool.eq_iff_iff.mpr
  simp only [Spec.subOvf, Bool.or_eq_true, Bool.and_eq_true, slt_iff', decide_eq_true_eq, toInt32, hs, BitVec.toNat_ofNat]
  split <;> split <;> split <;> omega

/-- both ALUs dispatch (format, opcode) to handlers with the same architectural effect on EVERY input -/
def AgreeOn (dg dc : Nat → Nat → Option (ScalarIn → ScalarOut)) (fmt op dstW : Nat) : Prop :=
  ∃ g c, dg fmt op = some g ∧ dc fmt op = some c ∧ ∀ i : ScalarIn, (g i).norm dstW = (c i).norm dstW

def Agree (fmt op dstW : Nat) : Prop := AgreeOn Gen.gcn3.dispatch Gen.cdna3.dispatch fmt op dstW

/-- the same on every input whose SCC is a bit (opcodes that read SCC) -/
def AgreeScc (fmt op dstW : Nat) : Prop :=
  ∃ g c, Gen.gcn3.dispatch fmt op = some g ∧ Gen.cdna3.dispatch fmt op = some c ∧
    ∀ i : ScalarIn, i.sccOk → (g i).norm dstW = (c i).norm dstW

theorem agree_of_conforms {dg dc : Nat → Nat → Option (ScalarIn → ScalarOut)} {fmt op w : Nat} {spec : ScalarIn → ScalarOut}
    (h1 : ConformsTo dg fmt op w spec) (h2 : ConformsTo dc fmt op w spec) :
    AgreeOn dg dc fmt op w := by
  obtain ⟨g, hg, hg'⟩ := h1
  obtain ⟨c, hc, hc'⟩ := h2
  exact ⟨g, c, hg, hc, fun i => (hg' i).trans (hc' i).symm⟩

theorem agree_of_conformsScc {fmt op w : Nat} {spec : ScalarIn → ScalarOut}
    (h1 : ConformsScc Gen.gcn3.dispatch fmt op w spec) (h2 : ConformsScc Gen.cdna3.dispatch fmt op w spec) :
    AgreeScc fmt op w := by
  obtain ⟨g, hg, hg'⟩ := h1
  obtain ⟨c, hc, hc'⟩ := h2
  exact ⟨g, c, hg, hc, fun i hi => (hg' i hi).trans (hc' i hi).symm⟩

macro "conform" h:ident s:ident : tactic => `(tactic| (
  intro i
  simp only [$h:ident, $s:ident, Spec.lo, and_mask32, and_mask16, Spec.logic32, Spec.logic64, Spec.cmp, Spec.saveexec, Spec.cbranch, Spec.target, Spec.imm32, Spec.imm64, Spec.cin, w64_bne_zero]
  (repeat' split) <;> simp [ScalarOut.norm, ScalarOut.nothing, Spec.nothing, keep, Spec.ret32, Spec.ret32n, Spec.ret64, Spec.ret64n, Spec.retScc, Spec.retPc, Spec.w32, Spec.bit, ult_iff, ule_iff, nat_and_31, nat_and_63, mod256_32, mod256_64, mod2p64_32, mod2p64_64, mod2p32_32] at * <;> bv_omega))

macro "conformS" h:ident s:ident : tactic => `(tactic| (
  intro i hs
  rcases hs with hs | hs <;> simp only [hs, $h:ident, $s:ident, Spec.lo, and_mask32, and_mask16, Spec.logic32, Spec.logic64, Spec.cmp, Spec.saveexec, Spec.cbranch, Spec.target, Spec.imm32, Spec.imm64, Spec.cin, w64_bne_zero] <;>
  (repeat' split) <;> simp [ScalarOut.norm, ScalarOut.nothing, Spec.nothing, keep, Spec.ret32, Spec.ret32n, Spec.ret64, Spec.ret64n, Spec.retScc, Spec.retPc, Spec.w32, Spec.bit, ult_iff, ule_iff, nat_and_31, nat_and_63, mod256_32, mod256_64, mod2p64_32, mod2p64_64, mod2p32_32] at * <;> bv_omega))

end C03S
