import MgpuModel.C11Mq
/-! Specification-side definitions for the multi-queue copy model (`MgpuModel/C11Mq.lean`), used by the
statements in `Props/C11Mq.lean`. -/
namespace C11

/-- state after an arbitrary list of environment moves, arbitrary configuration -/
def reachMq (nGpus cycH2D cycD2H nQueues : Nat) (warm : Bool) (ops : List MqOp) : MqEnv :=
  (MqEnv.init nGpus cycH2D cycD2H nQueues warm).run ops

/-- ids of the requests that are somewhere between creation and the processing of their answer:
    in the delay line, in `requestsToSend`, in the GPU port, at the GPU side, or answered and waiting
    in the GPU port -/
def MqEnv.inFlight (e : MqEnv) : List Nat :=
  (e.s.awaiting ++ e.s.toSend ++ e.s.portOut ++ e.outstanding).map (·.id) ++ e.s.portIn

/-- number of requests a command needs: its page pieces, plus one flush request per GPU -/
def mqWant (nGpus : Nat) (c : MqCmd) : Nat := c.pieces + (if c.flush then nGpus else 0)

/-- what the requests of a command must look like, in creation order: (kind, index) -/
def mqWantReqs (nGpus : Nat) (c : MqCmd) : List (MqKind × Nat) :=
  (if c.flush then (List.range nGpus).map fun g => (MqKind.flush, g) else []) ++
  (List.range c.pieces).map fun p => (c.kind, p)

/-- the commands enqueued on queue `qi`, in order -/
def MqEnv.enqOf (e : MqEnv) (qi : Nat) : List MqCmd := (e.enq.filter (·.1 = qi)).map (·.2)

/-- the requests created for the `seq`-th command of queue `qi`, in creation order -/
def MqEnv.reqsOf (e : MqEnv) (qi seq : Nat) : List MqReq :=
  e.s.created.filter fun r => r.q = qi ∧ r.seq = seq

/-- one service round of the GPU side: take everything from the port and answer everything -/
def MqEnv.serveOps (e : MqEnv) : List MqOp :=
  .take e.s.portOut.length :: List.replicate (e.outstanding.length + e.s.portOut.length) (.rsp 0)

/-- the GPU side serves everything, then the driver ticks -/
def MqEnv.round (e : MqEnv) : MqEnv := ((e.run e.serveOps).step .tick).1

def MqEnv.rounds : Nat → MqEnv → MqEnv
  | 0, e => e
  | k + 1, e => MqEnv.rounds k e.round

/-- the same for the driver before the repair (`Mq.tickOld`: a command without any request leaves its
    queue running) -/
def reachMqOld (nGpus cycH2D cycD2H nQueues : Nat) (warm : Bool) (ops : List MqOp) : MqEnv :=
  (MqEnv.init nGpus cycH2D cycD2H nQueues warm).runOld ops

/-- a service round around the driver before the repair (`serveOps` holds no tick, so `run` and
    `runOld` agree on it) -/
def MqEnv.roundOld (e : MqEnv) : MqEnv := ((e.run e.serveOps).stepOld .tick).1

def MqEnv.roundsOld : Nat → MqEnv → MqEnv
  | 0, e => e
  | k + 1, e => MqEnv.roundsOld k e.roundOld

/-- every queue is empty -/
def MqEnv.allDone (e : MqEnv) : Prop := ∀ q ∈ e.s.queues, q.cmds = []

/-- commands of a queue that have not been started -/
def MqQueue.waiting (q : MqQueue) : List MqCmd := if q.running then q.cmds.tail else q.cmds

/-- a bound on the number of rounds until every queue is empty: every command not yet started
    costs `K + 4·(its requests)` with `K = max(cycH2D, cycD2H) + 2`, the running timer costs its
    remaining cycles + 1, a request costs 4 / 3 / 2 / 1 in the delay line / send list / at the GPU /
    answered -/
def MqEnv.potential (e : MqEnv) : Nat :=
  ((e.s.queues.map fun q => (q.waiting.map fun c => (max e.s.cycH2D e.s.cycD2H + 2) + 4 * mqWant e.s.nGpus c).sum).sum) +
  (if 0 ≤ e.s.cyclesLeft then e.s.cyclesLeft.toNat + 1 else 0) +
  4 * e.s.awaiting.length + 3 * e.s.toSend.length + 2 * (e.s.portOut.length + e.outstanding.length) +
  e.s.portIn.length

end C11
