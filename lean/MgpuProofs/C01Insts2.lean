import MgpuProofs.C01Insts
/-! # C01 — more instruction classes (second deepening)

View-level step lemmas needed by the shipped kernels `ReLUForward` and `mul`, in the style of
`C01Insts.lean`: `S_AND_B32 sD, sA, 0xffff` for any register pair, `S_CBRANCH_EXECZ` with the two
offsets these kernels use, a VOP2 float instruction (`V_MUL_F32`, `V_MAX_F32`), and the signed
compare `≥`. -/
set_option linter.unusedSimpArgs false
set_option linter.unusedVariables false
namespace C01
namespace Emu
open C03V

/-! ## S_AND_B32 sD, sA, 0xffff -/
open C03S in
theorem sem_and2 (D A : Nat) : C03S.specSem ⟨0, 12, D, A, 255, 0, 0xffff⟩ = some ⟨32, 32, 32, Spec.s_and_b32⟩ := rfl

open C03S in
theorem exe_and2 (D A : Nat) (hD : D ≤ 101) (hA : A ≤ 101) (M : MState) :
    ∃ m', execute ⟨32, 32, 32, Spec.s_and_b32⟩ ⟨0, 12, D, A, 255, 0, 0xffff⟩ M = some m' ∧
    m'.s = (M.setS D (M.sreg A % 65536)).s ∧ m'.vcc = M.vcc ∧ m'.exec = M.exec ∧ m'.pc = M.pc := by
  rw [Iface.execute_eq _ _ _ _ (Iface.fetch_sop2 32 32 12 D A 255 0 0xffff M _ _
    (Iface.read_sgpr32 M A _ hA) (Iface.read_lit M 32 _))]
  rw [Iface.commit_sgpr32 0 12 D A 255 0 0xffff (Or.inl rfl) hD M _ _ rfl]
  refine ⟨_, rfl, ?_, ?_, ?_, ?_⟩
  · rw [Iface.commitSpecial_s]
    simp [Iface.scalarIn, Spec.lo, Spec.w32, and_ffff]
  · rw [Iface.commitSpecial_vcc]; rfl
  · rw [Iface.commitSpecial_exec]; rfl
  · rw [Iface.commitSpecial_pc]; rfl

theorem step_sand_lit16 (P : Program) (hP : P.cdna3 = false) (base k D A : Nat) (hD : D ≤ 101) (hA : A ≤ 101)
    (hd : DecS ((P.code.drop k).take 8) 0 12 8 ⟨0, 12, D, A, 255, 0, 0xffff⟩) (st : St) (V : View)
    (h : Sees st V) (hpc : V.pc = base + k) :
    ∃ st', step P base st = .ok (st', .next) ∧
      Sees st' { V with pc := base + k + 8, rs := fun i => if i = D then V.rs A % 65536 else V.rs i } := by
  obtain ⟨m', he, hs', hvcc, hexec, hpc2⟩ := exe_and2 D A hD hA (toM { st with pc := base + k + 8 })
  obtain ⟨st', hs, hv⟩ := step_scalar_view P hP base k 0 12 8 _ hd (by omega) (by omega) _ (sem_and2 D A) st V h hpc m' he
  obtain ⟨a, b, c, d⟩ := toM_of_sees (h.setPc (base + k + 8))
  refine ⟨st', hs, hv.congr (hpc2.trans c) (hexec.trans b) (hvcc.trans a) ?_ (fun _ _ _ _ => rfl) (fun _ => rfl)⟩
  intro i hi
  show m'.sreg i = _
  rw [sreg_of_s _ m' hs', setS_sreg, d A (by omega)]
  by_cases hi0 : i = D
  · simp [hi0]
  · simp only [hi0, if_false]; exact d i hi

/-! ## S_CBRANCH_EXECZ 19 / 25 -/
open C03S in
theorem exe_execz19 (M : MState) (he : M.exec < 18446744073709551616) (hp : M.pc + 76 < 18446744073709551616) :
    ∃ m', execute ⟨0, 0, 0, Spec.s_cbranch_execz⟩ ⟨4, 8, 0, 0, 0, 19, 0⟩ M = some m' ∧
    m'.s = M.s ∧ m'.vcc = M.vcc ∧ m'.exec = M.exec ∧ m'.pc = if M.exec = 0 then M.pc + 76 else M.pc := by
  have hz : (BitVec.ofNat 64 M.exec = 0#64) ↔ M.exec = 0 := by
    rw [BitVec.toNat_eq]
    simp [Nat.mod_eq_of_lt he]
  rw [Iface.execute_eq _ _ _ _ (Iface.fetch_sopp 0 0 8 0 0 0 19 0 M)]
  show ∃ m', commit 0 ⟨4, 8, 0, 0, 0, 19, 0⟩ M (Spec.s_cbranch_execz (Iface.scalarIn M 0 0 0 19)) = some m' ∧ _
  by_cases h0 : M.exec = 0
  · have h0' : BitVec.ofNat 64 M.exec = 0#64 := hz.mpr h0
    have ho : (Spec.s_cbranch_execz (Iface.scalarIn M 0 0 0 19)) = Spec.retPc (BitVec.ofNat 64 M.pc + 76#64) := by
      simp [Spec.s_cbranch_execz, Spec.cbranch, Iface.scalarIn, h0', Spec.target, Spec.imm64]
    rw [ho, Iface.commit_nodst _ _ _ _ rfl]
    refine ⟨_, rfl, Iface.commitSpecial_s _ _, ?_, ?_, ?_⟩
    · rw [Iface.commitSpecial_vcc]; rfl
    · rw [Iface.commitSpecial_exec]; rfl
    · rw [Iface.commitSpecial_pc, if_pos h0]
      simp [Spec.retPc, BitVec.toNat_add]
      omega
  · have h0' : ¬ BitVec.ofNat 64 M.exec = 0#64 := fun e => h0 (hz.mp e)
    have ho : (Spec.s_cbranch_execz (Iface.scalarIn M 0 0 0 19)) = Spec.nothing := by
      simp [Spec.s_cbranch_execz, Spec.cbranch, Iface.scalarIn, h0']
    rw [ho, Iface.commit_nodst _ _ _ _ rfl]
    refine ⟨_, rfl, Iface.commitSpecial_s _ _, ?_, ?_, ?_⟩
    · rw [Iface.commitSpecial_vcc]; rfl
    · rw [Iface.commitSpecial_exec]; rfl
    · rw [Iface.commitSpecial_pc, if_neg h0]; rfl

open C03S in
theorem exe_execz25 (M : MState) (he : M.exec < 18446744073709551616) (hp : M.pc + 100 < 18446744073709551616) :
    ∃ m', execute ⟨0, 0, 0, Spec.s_cbranch_execz⟩ ⟨4, 8, 0, 0, 0, 25, 0⟩ M = some m' ∧
    m'.s = M.s ∧ m'.vcc = M.vcc ∧ m'.exec = M.exec ∧ m'.pc = if M.exec = 0 then M.pc + 100 else M.pc := by
  have hz : (BitVec.ofNat 64 M.exec = 0#64) ↔ M.exec = 0 := by
    rw [BitVec.toNat_eq]
    simp [Nat.mod_eq_of_lt he]
  rw [Iface.execute_eq _ _ _ _ (Iface.fetch_sopp 0 0 8 0 0 0 25 0 M)]
  show ∃ m', commit 0 ⟨4, 8, 0, 0, 0, 25, 0⟩ M (Spec.s_cbranch_execz (Iface.scalarIn M 0 0 0 25)) = some m' ∧ _
  by_cases h0 : M.exec = 0
  · have h0' : BitVec.ofNat 64 M.exec = 0#64 := hz.mpr h0
    have ho : (Spec.s_cbranch_execz (Iface.scalarIn M 0 0 0 25)) = Spec.retPc (BitVec.ofNat 64 M.pc + 100#64) := by
      simp [Spec.s_cbranch_execz, Spec.cbranch, Iface.scalarIn, h0', Spec.target, Spec.imm64]
    rw [ho, Iface.commit_nodst _ _ _ _ rfl]
    refine ⟨_, rfl, Iface.commitSpecial_s _ _, ?_, ?_, ?_⟩
    · rw [Iface.commitSpecial_vcc]; rfl
    · rw [Iface.commitSpecial_exec]; rfl
    · rw [Iface.commitSpecial_pc, if_pos h0]
      simp [Spec.retPc, BitVec.toNat_add]
      omega
  · have h0' : ¬ BitVec.ofNat 64 M.exec = 0#64 := fun e => h0 (hz.mp e)
    have ho : (Spec.s_cbranch_execz (Iface.scalarIn M 0 0 0 25)) = Spec.nothing := by
      simp [Spec.s_cbranch_execz, Spec.cbranch, Iface.scalarIn, h0']
    rw [ho, Iface.commit_nodst _ _ _ _ rfl]
    refine ⟨_, rfl, Iface.commitSpecial_s _ _, ?_, ?_, ?_⟩
    · rw [Iface.commitSpecial_vcc]; rfl
    · rw [Iface.commitSpecial_exec]; rfl
    · rw [Iface.commitSpecial_pc, if_neg h0]; rfl

/-- S_CBRANCH_EXECZ 19 -/
theorem step_execz19 (P : Program) (hP : P.cdna3 = false) (base k : Nat)
    (hd : DecS ((P.code.drop k).take 8) 4 8 4 ⟨4, 8, 0, 0, 0, 19, 0⟩) (st : St) (V : View)
    (h : Sees st V) (hpc : V.pc = base + k) (hexec : V.exec < 18446744073709551616)
    (hb : base + k + 80 < 18446744073709551616) :
    ∃ st', step P base st = .ok (st', .next) ∧
      Sees st' { V with pc := if V.exec = 0 then base + k + 80 else base + k + 4 } := by
  obtain ⟨a, b, c, d⟩ := toM_of_sees (h.setPc (base + k + 4))
  obtain ⟨m', he, hs', hvcc2, hexec2, hpc2⟩ := exe_execz19 (toM { st with pc := base + k + 4 })
    (by rw [b]; exact hexec) (by rw [c]; show base + k + 4 + 76 < _; omega)
  obtain ⟨st', hs, hv⟩ := step_scalar_view P hP base k 4 8 4 _ hd (by omega) (by omega) _ (sem_execz 19) st V h hpc m' he
  refine ⟨st', hs, hv.congr ?_ (hexec2.trans b) (hvcc2.trans a) ?_ (fun _ _ _ _ => rfl) (fun _ => rfl)⟩
  · show m'.pc = _
    rw [hpc2, b, c]
  · intro i hi
    show m'.sreg i = _
    rw [sreg_of_s _ m' hs']
    exact d i hi

/-- S_CBRANCH_EXECZ 25 -/
theorem step_execz25 (P : Program) (hP : P.cdna3 = false) (base k : Nat)
    (hd : DecS ((P.code.drop k).take 8) 4 8 4 ⟨4, 8, 0, 0, 0, 25, 0⟩) (st : St) (V : View)
    (h : Sees st V) (hpc : V.pc = base + k) (hexec : V.exec < 18446744073709551616)
    (hb : base + k + 104 < 18446744073709551616) :
    ∃ st', step P base st = .ok (st', .next) ∧
      Sees st' { V with pc := if V.exec = 0 then base + k + 104 else base + k + 4 } := by
  obtain ⟨a, b, c, d⟩ := toM_of_sees (h.setPc (base + k + 4))
  obtain ⟨m', he, hs', hvcc2, hexec2, hpc2⟩ := exe_execz25 (toM { st with pc := base + k + 4 })
    (by rw [b]; exact hexec) (by rw [c]; show base + k + 4 + 100 < _; omega)
  obtain ⟨st', hs, hv⟩ := step_scalar_view P hP base k 4 8 4 _ hd (by omega) (by omega) _ (sem_execz 25) st V h hpc m' he
  refine ⟨st', hs, hv.congr ?_ (hexec2.trans b) (hvcc2.trans a) ?_ (fun _ _ _ _ => rfl) (fun _ => rfl)⟩
  · show m'.pc = _
    rw [hpc2, b, c]
  · intro i hi
    show m'.sreg i = _
    rw [sreg_of_s _ m' hs']
    exact d i hi

/-! ## VOP2 float instructions -/

theorem laneRd_f32 (st : St) (e : VEnc) (l code idx : Nat) (hs : e.sdwa = false) (hty : e.op.ty = Ty.f32)
    (habs : e.abs = 0) (hneg : e.neg = 0) :
    laneRd st e l code 32 idx = lo32 (st.src code l 32 e.lit false) := by
  unfold laneRd
  have hb : ∀ i, bit 0 i = false := by
    intro i; simp [bit]
  simp [hs, hty, habs, hneg, applyMod, hb, show (Ty.f32 == Ty.f64) = false from rfl, show (Ty.f32 == Ty.int) = false from rfl]

/-- a 4-byte VOP2 float instruction `vD = g(src0, vR)`; `val0` is what the first source reads -/
theorem step_vbinf32 (P : Program) (hP : P.cdna3 = false) (base k op R D : Nat) (hR : R < 256)
    (hd : DecV ((P.code.drop k).take 8) 6 op 4) (name : String) (e : VEnc)
    (hs : Simple e) (hk : e.op.kind = .plain) (hsd : e.sdst = 106) (hwd : e.op.wd = 32) (hty : e.op.ty = .f32)
    (hw0 : e.op.w0 = 32) (hw1 : e.op.w1 = 32) (hn : e.op.nsrc = 2) (habs : e.abs = 0) (hneg : e.neg = 0)
    (hs1 : e.src1 = 256 + R) (hvd : e.vdst = D)
    (g : Nat → Nat → Nat) (hf : ∀ x : LaneIn, (e.op.f x).d = g x.a x.b)
    (hex : ∀ st, exec false st (((P.code.drop k).take 8).take 4) = some (name, execVALU st e))
    (st : St) (V : View) (h : Sees st V) (hpc : V.pc = base + k) (val0 : Nat → Nat)
    (hval0 : ∀ l, l < 64 → lo32 (({ st with pc := base + k + 4 } : St).src e.src0 l 32 e.lit false) = val0 l) :
    ∃ st', step P base st = .ok (st', .next) ∧ Sees st'
      { V with pc := base + k + 4,
               rv := fun r l => if V.exec.testBit l = true ∧ r = D then g (val0 l) (V.rv R l % 2 ^ 32) % 2 ^ 32 else V.rv r l } := by
  obtain ⟨st', hst, hv⟩ := step_valu32 P hP base k 4 6 op hd (by omega) name e hs hsd (fun _ => hwd) st V h hpc (hex _)
    (fun l => g (val0 l) (V.rv R l % 2 ^ 32))
    (fun l => (laneO { st with pc := base + k + 4 } e l).co)
    (by
      intro l hl
      have ha : laneRd { st with pc := base + k + 4 } e l e.src0 e.op.w0 0 = val0 l := by
        rw [hw0, laneRd_f32 _ _ l _ 0 hs.sdwa hty habs hneg]
        exact hval0 l hl
      have hb : laneRd { st with pc := base + k + 4 } e l e.src1 e.op.w1 1 = V.rv R l % 2 ^ 32 := by
        rw [hs1, hw1, laneRd_f32 _ _ l _ 1 hs.sdwa hty habs hneg, src_vgpr]
        show lo32 (st.rv R l) = _
        rw [h.rv R l hR hl]; rfl
      have hdd : (laneO { st with pc := base + k + 4 } e l).d = g (val0 l) (V.rv R l % 2 ^ 32) := by
        unfold laneO
        rw [hf, ha, hn]
        simp only [ge_iff_le, Nat.le_refl, if_true, hb]
      cases hlo : laneO { st with pc := base + k + 4 } e l with
      | mk dd cc =>
        rw [hlo] at hdd
        simp only at hdd ⊢
        rw [hdd])
  have hkc : (e.op.kind == Kind.cmp) = false := by rw [hk]; rfl
  have hkp : (e.op.kind == Kind.plain) = true := by rw [hk]; rfl
  refine ⟨st', hst, hv.congr rfl rfl ?_ (fun _ _ => rfl) ?_ (fun _ => rfl)⟩
  · show (if (e.op.kind == Kind.plain) = true then _ else _) = _
    rw [hkp]; rfl
  · intro r l hr hl
    show (if V.exec.testBit l = true ∧ (e.op.kind == Kind.cmp) = false ∧ r = e.vdst then _ else _) = _
    rw [hkc, hvd]
    simp

/-! ### the three encodings of the kernels -/

/-- V_MUL_F32 v2, 1.0, v2 -/
def eMul1 : VEnc := { op := (vop2Table false 5).getD (un32 "" id), src0 := 242, src1 := 256 + 2, vdst := 2, lit := 0 }
/-- V_MAX_F32 v2, 0, v2 -/
def eMax0 : VEnc := { op := (vop2Table false 11).getD (un32 "" id), src0 := 128, src1 := 256 + 2, vdst := 2, lit := 0 }
/-- V_MUL_F32 v2, v4, v2 -/
def eMulVV : VEnc := { op := (vop2Table false 5).getD (un32 "" id), src0 := 256 + 4, src1 := 256 + 2, vdst := 2, lit := 0 }

theorem src_inline_f1 (st : St) (l lit : Nat) : lo32 (st.src 242 l 32 lit false) = 1065353216 := by
  simp [St.src, inlineF32, lo32]

theorem src_inline_0 (st : St) (l lit : Nat) : lo32 (st.src 128 l 32 lit false) = 0 := by
  rw [src_inline st 128 l 32 lit false (by decide) (by decide)]; rfl

/-! ## signed `≥` -/

theorem cmpI_ge_meaning (a b : I.W) : I.cmpI 6 a b = decide (a.toInt ≥ b.toInt) := by
  simp only [I.cmpI, I.cmpOp, BitVec.slt, ge_iff_le]
  by_cases hl : a.toInt < b.toInt
  · have : ¬ b.toInt ≤ a.toInt := by omega
    simp [hl, this]
  · have : b.toInt ≤ a.toInt := by omega
    simp [hl, this]

/-- for values below 2^31 the signed compare is the compare of the numbers -/
theorem cmp_ge_small (a b : Nat) (ha : a < 2 ^ 31) (hb : b < 2 ^ 31) :
    I.cmpI 6 (w32 a) (w32 b) = decide (b ≤ a) := by
  rw [cmpI_ge_meaning]
  have e1 : (w32 a).toInt = a := by
    unfold w32
    have hm : a % 2 ^ 32 = a := Nat.mod_eq_of_lt (by omega)
    rw [BitVec.toInt_eq_toNat_of_lt (by simp only [BitVec.toNat_ofNat, hm]; omega)]
    simp only [BitVec.toNat_ofNat, hm]
  have e2 : (w32 b).toInt = b := by
    unfold w32
    have hm : b % 2 ^ 32 = b := Nat.mod_eq_of_lt (by omega)
    rw [BitVec.toInt_eq_toNat_of_lt (by simp only [BitVec.toNat_ofNat, hm]; omega)]
    simp only [BitVec.toNat_ofNat, hm]
  rw [e1, e2]
  simp only [ge_iff_le, Int.ofNat_le]

end Emu
end C01
