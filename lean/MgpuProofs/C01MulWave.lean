import MgpuProofs.C01Mul
import MgpuProofs.C01MapAux
import MgpuProofs.C01CopyWave
/-! # C01 — one wavefront of `mul` (operator.hsaco), symbolically executed

`wave_run`: the statement `Map.WaveRun` for the 32 instructions of the kernel (listing in `C01MulDefs.lean`);
every lane `l` with global id `e = lo + 64n + l ≤ n_arg` (the kernel's test is `tid > n`) stores
`mulBits (in1[e]) (in2[e])` at `out + 4e`. -/
set_option linter.unusedSimpArgs false
set_option linter.unusedVariables false
set_option maxRecDepth 100000
namespace C01.Emu.Mul
open C03V Copy

theorem agree_ka (c : Map.Cfg) (in1 in2 : Nat) (hv : Valid c in1 in2) (f0 m : Nat → Nat) (h : Map.Agree c f0 m) (off : Nat)
    (hoff : off + 4 ≤ 40) : rd32 m (c.ka + off) = rd32 f0 (c.ka + off) := by
  apply Map.rd32_agree c f0 m h
  intro j hj hin
  exact hv.dKa _ hin ⟨by omega, by omega⟩

theorem agree_pa (c : Map.Cfg) (in1 in2 : Nat) (hv : Valid c in1 in2) (f0 m : Nat → Nat) (h : Map.Agree c f0 m) :
    rd32 m (c.pa + 4) = rd32 f0 (c.pa + 4) := by
  apply Map.rd32_agree c f0 m h
  intro j hj hin
  exact hv.dPa _ hin ⟨by omega, by omega⟩

theorem Valid.pa4' {c : Map.Cfg} {a b : Nat} (hv : Valid c a b) : (c.pa + 4) % 4 = 0 := by have := hv.pa4; omega
theorem Valid.ka0' {c : Map.Cfg} {a b : Nat} (hv : Valid c a b) : (c.ka + 0) % 4 = 0 := by have := hv.ka4; omega
theorem Valid.ka16' {c : Map.Cfg} {a b : Nat} (hv : Valid c a b) : (c.ka + 16) % 4 = 0 := by have := hv.ka4; omega
theorem Valid.ka24' {c : Map.Cfg} {a b : Nat} (hv : Valid c a b) : (c.ka + 24) % 4 = 0 := by have := hv.ka4; omega
theorem Valid.ka32' {c : Map.Cfg} {a b : Nat} (hv : Valid c a b) : (c.ka + 32) % 4 = 0 := by have := hv.ka4; omega
theorem Valid.pa8 {c : Map.Cfg} {a b : Nat} (hv : Valid c a b) : c.pa + 4 + 4 ≤ 2 ^ 64 := by have := hv.paEnd; omega
theorem Valid.ka16e {c : Map.Cfg} {a b : Nat} (hv : Valid c a b) : c.ka + 0 + 16 ≤ 2 ^ 64 := by have := hv.kaEnd; omega
theorem Valid.ka32e {c : Map.Cfg} {a b : Nat} (hv : Valid c a b) : c.ka + 16 + 16 ≤ 2 ^ 64 := by have := hv.kaEnd; omega
theorem Valid.ka28e {c : Map.Cfg} {a b : Nat} (hv : Valid c a b) : c.ka + 24 + 4 ≤ 2 ^ 64 := by have := hv.kaEnd; omega
theorem Valid.ka40e {c : Map.Cfg} {a b : Nat} (hv : Valid c a b) : c.ka + 32 + 8 ≤ 2 ^ 64 := by have := hv.kaEnd; omega
theorem Valid.co164 {c : Map.Cfg} {a b : Nat} (hv : Valid c a b) : c.co + 60 + 104 < 18446744073709551616 := by
  have := hv.coEnd; omega

theorem le_iff_lt_succ (e nn lim : Nat) (h : nn + 1 = lim) : decide (e ≤ nn) = decide (e < lim) := by
  subst h
  simp [Nat.lt_succ_iff]

theorem blockA (c : Map.Cfg) (in1 in2 : Nat) (hv : Valid c in1 in2) (f0 : Nat → Nat) (himg : Img c in1 in2 f0) (n msk : Nat)
    (hn : c.lo + 64 * n + 64 ≤ 2 ^ 31) (hmsk : msk < 18446744073709551616)
    (st : St) (t : T5) (h : Tracks5 st t) (hpc : t.pc = c.co) (hexec : t.exec = msk)
    (hs4 : t.s4 = c.pa % 2 ^ 32) (hs5 : t.s5 = c.pa / 2 ^ 32) (hs6 : t.s6 = c.ka % 2 ^ 32)
    (hs7 : t.s7 = c.ka / 2 ^ 32) (hs8 : t.s8 = n) (hv0 : ∀ l, l < 64 → t.v0 l = l) (hag : Map.Agree c f0 t.mem) :
    ∃ st', stepsTo P c.co 12 st st' ∧ Tracks5 st'
      { pc := if Map.execMask c n msk = 0 then c.co + 164 else c.co + 64,
        exec := Map.execMask c n msk,
        vcc := maskUpTo (fun l => msk.testBit l && decide (c.lo + 64 * n + l < c.lim)) 64,
        s0 := msk % 4294967296, s1 := msk / 4294967296 % 4294967296, s2 := 64, s3 := rd32 t.mem (c.ka + 24) % 2 ^ 32,
        s4 := t.s4, s5 := t.s5, s6 := t.s6, s7 := t.s7, s8 := 64 * n,
        v0 := fun l => if msk.testBit l = true then 64 * n + l else l,
        v1 := fun l => if msk.testBit l = true then c.lo + 64 * n + l else t.v1 l,
        v2 := t.v2, v3 := t.v3, v4 := t.v4, mem := t.mem } := by
  have hn64 := Map.n64 c.lo n hn
  have hpa : c.pa % 2 ^ 32 + c.pa / 2 ^ 32 * 2 ^ 32 + 4 = c.pa + 4 := by rw [split32]
  have hka24 : c.ka % 2 ^ 32 + c.ka / 2 ^ 32 * 2 ^ 32 + 24 = c.ka + 24 := by rw [split32]
  have hka32 : c.ka % 2 ^ 32 + c.ka / 2 ^ 32 * 2 ^ 32 + 32 = c.ka + 32 := by rw [split32]
  have hR1 : rd32 t.mem (c.pa + 4) % 2 ^ 32 % 65536 = 64 := by
    rw [mod_mod_16, agree_pa c in1 in2 hv f0 t.mem hag, himg.wg]
  have hR2 : rd32 t.mem (c.ka + 24) % 2 ^ 32 + 1 = c.lim := by
    rw [agree_ka c in1 in2 hv f0 t.mem hag 24 (by decide), himg.n]
  have hR3 : rd32 t.mem (c.ka + 32) % 2 ^ 32 = c.lo := by
    rw [agree_ka c in1 in2 hv f0 t.mem hag 32 (by decide), himg.goff]
  have hnn31 : rd32 t.mem (c.ka + 24) % 2 ^ 32 < 2 ^ 31 := by have := hv.lim31; omega
  obtain ⟨s1, e1, h1⟩ := lift5_smem1 P rfl c.co 0 0 0 4 4 (by decide) (by decide) dec0 _
    (fun st => by rw [wn0]; exact ex0 st) st t h (by rw [hpc]; rfl) (c.pa + 4) _ _ hs4 hs5 hpa hv.pa4' hv.pa8
  flat5 at h1
  obtain ⟨s2, e2, h2⟩ := lift5_wait P rfl c.co 8 _ dec8 s1 _ h1 (pcadd c.co 0 8 8 rfl)
  flat5 at h2
  obtain ⟨s3, e3, h3⟩ := lift5_sand_lit16 P rfl c.co 12 2 0 (by decide) (by decide) dec12 s2 _ h2 (pcadd c.co 8 4 12 rfl)
  flat5 at h3
  rw [hR1] at h3
  obtain ⟨s4, e4, h4⟩ := lift5_smem1 P rfl c.co 20 0 3 6 24 (by decide) (by decide) dec20 _
    (fun st => by rw [wn20]; exact ex20 st) s3 _ h3 (pcadd c.co 12 8 20 rfl) (c.ka + 24) _ _ hs6 hs7 hka24 hv.ka24' hv.ka28e
  flat5 at h4
  obtain ⟨s5, e5, h5⟩ := lift5_smem2 P rfl c.co 28 1 0 6 32 (by decide) (by decide) dec28 _
    (fun st => by rw [wn28]; exact ex28 st) s4 _ h4 (pcadd c.co 20 8 28 rfl) (c.ka + 32) _ _ hs6 hs7 hka32 hv.ka32' hv.ka40e
  flat5 at h5
  rw [hR3] at h5
  obtain ⟨s6, e6, h6⟩ := lift5_mul P rfl c.co 36 8 8 2 (by decide) (by decide) (by decide) dec36 s5 _ h5 (pcadd c.co 28 8 36 rfl)
  flat5 at h6
  rw [hs8, mul64 n hn64] at h6
  obtain ⟨s7, e7, h7⟩ := lift5_vadd P rfl c.co 40 8 0 0 (by decide) (by decide) (by decide) dec40
    (fun st => by rw [wn40]; exact ex40 st) s6 _ h6 (pcadd c.co 36 4 40 rfl)
  flat5 at h7
  rw [hexec] at h7
  replace h7 := h7.upd (c.co + 44) (fun l => if msk.testBit l = true then 64 * n + l else l) t.v1 t.v2 t.v3 t.v4
    (pcadd c.co 40 4 44 rfl)
    (by
      intro l hl
      show (if msk.testBit l = true then (64 * n % 2 ^ 32 + t.v0 l % 2 ^ 32) % 2 ^ 32 else t.v0 l) = _
      rw [hv0 l hl, add_lane n l hn64 hl])
    (fun _ _ => rfl) (fun _ _ => rfl) (fun _ _ => rfl) (fun _ _ => rfl)
  flat5 at h7
  obtain ⟨s8, e8, h8⟩ := lift5_wait P rfl c.co 44 _ dec44 s7 _ h7 rfl
  flat5 at h8
  obtain ⟨s9, e9, h9⟩ := lift5_vadd P rfl c.co 48 0 0 1 (by decide) (by decide) (by decide) dec48
    (fun st => by rw [wn48]; exact ex48 st) s8 _ h8 (pcadd c.co 44 4 48 rfl)
  flat5 at h9
  replace h9 := h9.upd (c.co + 52) (fun l => if msk.testBit l = true then 64 * n + l else l)
    (fun l => if msk.testBit l = true then c.lo + 64 * n + l else t.v1 l) t.v2 t.v3 t.v4
    (pcadd c.co 48 4 52 rfl) (fun _ _ => rfl)
    (by
      intro l hl
      show (if msk.testBit l = true then (c.lo % 2 ^ 32 + (if msk.testBit l = true then 64 * n + l else l) % 2 ^ 32) % 2 ^ 32
        else t.v1 l) = (if msk.testBit l = true then c.lo + 64 * n + l else t.v1 l)
      by_cases hx : msk.testBit l = true
      · rw [if_pos hx, if_pos hx, if_pos hx, Map.add_lo_lane c.lo n l hn hl]
      · rw [if_neg hx, if_neg hx])
    (fun _ _ => rfl) (fun _ _ => rfl) (fun _ _ => rfl)
  flat5 at h9
  obtain ⟨s10, e10, h10⟩ := lift5_vcmp32 P rfl c.co 52 198 3 1 (by decide) (by decide) dec52 _ eCmp
    ⟨rfl, Or.inr (Or.inr (Or.inr rfl)), rfl⟩ rfl rfl rfl rfl rfl rfl rfl rfl
    (fun a b => I.cmpI 6 (w32 a) (w32 b)) (fun x => rfl)
    (fun st => by rw [wn52]; exact ex52 st) s9 _ h9 rfl
  flat5 at h10
  replace h10 := h10.withVcc (maskUpTo (fun l => msk.testBit l && decide (c.lo + 64 * n + l < c.lim)) 64)
    (by
      show maskUpTo _ 64 = maskUpTo _ 64
      apply maskUpTo_congr
      intro l hl
      by_cases hx : msk.testBit l = true
      · rw [hx, Bool.true_and, Bool.true_and, if_pos rfl, Nat.mod_mod,
          Nat.mod_eq_of_lt (Map.elem_lt32 c.lo n l hn hl), cmp_ge_small _ _ hnn31 (Map.elem_lt31 c.lo n l hn hl)]
        exact le_iff_lt_succ _ _ _ hR2
      · have hx' : msk.testBit l = false := by simpa using hx
        rw [hx', Bool.false_and, Bool.false_and])
  flat5 at h10
  obtain ⟨s11, e11, h11⟩ := lift5_saveexec P rfl c.co 56 dec56 s10 _ h10 (pcadd c.co 52 4 56 rfl) (maskUpTo_lt _ 64) hmsk
  flat5 at h11
  obtain ⟨s12, e12, h12⟩ := lift5_execz25 P rfl c.co 60 dec60 s11 _ h11 (pcadd c.co 56 4 60 rfl)
    (Nat.lt_of_le_of_lt (Nat.and_le_right) hmsk) hv.co164
  flat5 at h12
  refine ⟨s12, ?_, ?_⟩
  · exact stepsTo_trans (stepsTo_one e1) (stepsTo_trans (stepsTo_one e2) (stepsTo_trans (stepsTo_one e3)
      (stepsTo_trans (stepsTo_one e4) (stepsTo_trans (stepsTo_one e5) (stepsTo_trans (stepsTo_one e6)
      (stepsTo_trans (stepsTo_one e7) (stepsTo_trans (stepsTo_one e8) (stepsTo_trans (stepsTo_one e9)
      (stepsTo_trans (stepsTo_one e10) (stepsTo_trans (stepsTo_one e11) (stepsTo_one e12)))))))))))
  · exact h12


theorem in1_ok (c : Map.Cfg) (in1 in2 : Nat) (hv : Valid c in1 in2) (e : Nat) (he : e < c.lo + c.K) : in1 + 4 * e + 4 ≤ 2 ^ 64 := by
  have := hv.in1End; omega
theorem in2_ok (c : Map.Cfg) (in1 in2 : Nat) (hv : Valid c in1 in2) (e : Nat) (he : e < c.lo + c.K) : in2 + 4 * e + 4 ≤ 2 ^ 64 := by
  have := hv.in2End; omega
theorem dst_ok (c : Map.Cfg) (in1 in2 : Nat) (hv : Valid c in1 in2) (e : Nat) (he : e < c.lo + c.K) : c.dst + 4 * e + 4 ≤ 2 ^ 64 := by
  have := hv.dstEnd; omega

theorem mul_fold (x y : Nat) :
    F.mul F.f32 (x % 2 ^ 32 % 2 ^ 32) (y % 2 ^ 32 % 2 ^ 32) % 2 ^ 32 = mulBits (x % 2 ^ 32) (y % 2 ^ 32) := by
  unfold mulBits
  rw [Nat.mod_mod, Nat.mod_mod]

theorem blockB (c : Map.Cfg) (in1 in2 : Nat) (hv : Valid c in1 in2) (f0 : Nat → Nat) (himg : Img c in1 in2 f0) (n E : Nat)
    (hn : c.lo + 64 * n + 64 ≤ 2 ^ 31)
    (st : St) (t : T5) (h : Tracks5 st t) (hpc : t.pc = c.co + 64) (hexec : t.exec = E)
    (hs6 : t.s6 = c.ka % 2 ^ 32) (hs7 : t.s7 = c.ka / 2 ^ 32)
    (hact : ∀ l, l < 64 → E.testBit l = true → t.v1 l = c.lo + 64 * n + l ∧ c.lo + 64 * n + l < c.lo + c.K)
    (hag : Map.Agree c f0 t.mem) :
    ∃ st' t', stepsTo P c.co 19 st st' ∧ Tracks5 st' t' ∧ t'.pc = c.co + 164 ∧
      t'.mem = applyWrites ((lanesOf E).flatMap fun l =>
        storePairs (c.dst + 4 * (c.lo + 64 * n + l)) (mulVal in1 in2 t.mem (c.lo + 64 * n + l))) t.mem := by
  have hka0 : c.ka % 2 ^ 32 + c.ka / 2 ^ 32 * 2 ^ 32 + 0 = c.ka + 0 := by rw [split32]
  have hka16 : c.ka % 2 ^ 32 + c.ka / 2 ^ 32 * 2 ^ 32 + 16 = c.ka + 16 := by rw [split32]
  have hR4 : rd32 t.mem (c.ka + 0) % 2 ^ 32 = c.dst % 2 ^ 32 := by
    rw [agree_ka c in1 in2 hv f0 t.mem hag 0 (by decide)]; exact himg.dstLo
  have hR5 : rd32 t.mem (c.ka + 0 + 4) % 2 ^ 32 = c.dst / 2 ^ 32 := by
    rw [Nat.add_assoc, agree_ka c in1 in2 hv f0 t.mem hag (0 + 4) (by decide)]; exact himg.dstHi
  have hR6 : rd32 t.mem (c.ka + 0 + 8) % 2 ^ 32 = in1 % 2 ^ 32 := by
    rw [Nat.add_assoc, agree_ka c in1 in2 hv f0 t.mem hag (0 + 8) (by decide)]; exact himg.in1Lo
  have hR7 : rd32 t.mem (c.ka + 0 + 12) % 2 ^ 32 = in1 / 2 ^ 32 := by
    rw [Nat.add_assoc, agree_ka c in1 in2 hv f0 t.mem hag (0 + 12) (by decide)]; exact himg.in1Hi
  have hR8 : rd32 t.mem (c.ka + 16) % 2 ^ 32 = in2 % 2 ^ 32 := by
    rw [agree_ka c in1 in2 hv f0 t.mem hag 16 (by decide)]; exact himg.in2Lo
  have hR9 : rd32 t.mem (c.ka + 16 + 4) % 2 ^ 32 = in2 / 2 ^ 32 := by
    rw [Nat.add_assoc, agree_ka c in1 in2 hv f0 t.mem hag (16 + 4) (by decide)]; exact himg.in2Hi
  have he31 : ∀ l, l < 64 → c.lo + 64 * n + l < 2 ^ 31 := fun l hl => Map.elem_lt31 c.lo n l hn hl
  obtain ⟨s1, e1, h1⟩ := lift5_smem4 P rfl c.co 64 2 0 6 0 (by decide) (by decide) dec64 _
    (fun st => by rw [wn64]; exact ex64 st) st t h hpc (c.ka + 0) _ _ hs6 hs7 hka0 hv.ka0' hv.ka16e
  flat5 at h1
  rw [hR4, hR5, hR6, hR7, hexec] at h1
  obtain ⟨s2, e2, h2⟩ := lift5_smem4 P rfl c.co 72 2 4 6 16 (by decide) (by decide) dec72 _
    (fun st => by rw [wn72]; exact ex72 st) s1 _ h1 (pcadd c.co 64 8 72 rfl) (c.ka + 16) _ _ hs6 hs7 hka16 hv.ka16' hv.ka32e
  flat5 at h2
  rw [hR8, hR9] at h2
  obtain ⟨s3, e3, h3⟩ := lift5_vmov P rfl c.co 80 128 0 (by decide) dec80
    (fun st => by rw [wn80]; exact ex80 st) s2 _ h2 (pcadd c.co 72 8 80 rfl) (fun _ => 0)
    (fun st' V hV _ _ l hl => by rw [src_inline st' 128 l 32 0 false (by decide) (by decide)])
  flat5 at h3
  obtain ⟨s4, e4, h4⟩ := lift5_vashr64 P rfl c.co 84 30 0 0 (by decide) (by decide) (by decide) dec84 _ eAshr
    ⟨rfl, Or.inl rfl, rfl⟩ rfl rfl rfl rfl rfl rfl rfl rfl rfl rfl (fun x => rfl)
    (fun st => by rw [wn84]; exact ex84 st) s3 _ h3 (pcadd c.co 80 4 84 rfl)
    (by
      intro l hl hx
      flat5g
      rw [if_pos hx, (hact l hl hx).1]
      exact ashr_pos _ (he31 l hl))
  flat5 at h4
  replace h4 := h4.upd (c.co + 92)
    (fun l => if E.testBit l = true then 4 * (c.lo + 64 * n + l) % 2 ^ 32 else t.v0 l)
    (fun l => if E.testBit l = true then 4 * (c.lo + 64 * n + l) / 2 ^ 32 % 2 ^ 32 else t.v1 l)
    t.v2 t.v3 t.v4 (pcadd c.co 84 8 92 rfl)
    (by
      intro l hl
      by_cases hx : E.testBit l = true
      · simp only [if_pos hx]
        rw [(hact l hl hx).1, ashr_val _ (he31 l hl)]
      · simp only [if_neg hx])
    (by
      intro l hl
      by_cases hx : E.testBit l = true
      · simp only [if_pos hx]
        rw [(hact l hl hx).1, ashr_val _ (he31 l hl)]
      · simp only [if_neg hx])
    (fun _ _ => rfl) (fun _ _ => rfl) (fun _ _ => rfl)
  flat5 at h4
  obtain ⟨s5, e5, h5⟩ := lift5_wait P rfl c.co 92 _ dec92 s4 _ h4 rfl
  flat5 at h5
  obtain ⟨s6, e6, h6⟩ := lift5_vmov P rfl c.co 96 3 3 (by decide) dec96
    (fun st => by rw [wn96]; exact ex96 st) s5 _ h5 (pcadd c.co 92 4 96 rfl) (fun _ => in1 / 2 ^ 32 % 2 ^ 32)
    (fun st' V hV hrs _ l hl => by
      rw [src_sgpr st' 3 l 32 0 false (by decide) rfl, hV.rs 3 (by decide), hrs 3 (by decide)]
      simp only [T5.s_3])
  flat5 at h6
  obtain ⟨s7, e7, h7⟩ := lift5_vadd P rfl c.co 100 2 0 2 (by decide) (by decide) (by decide) dec100
    (fun st => by rw [wn100]; exact ex100 st) s6 _ h6 (pcadd c.co 96 4 100 rfl)
  flat5 at h7
  obtain ⟨s8, e8, h8⟩ := lift5_vaddc P rfl c.co 104 3 1 3 (by decide) (by decide) (by decide) dec104
    (fun st => by rw [wn104]; exact ex104 st) s7 _ h7 (pcadd c.co 100 4 104 rfl)
  flat5 at h8
  replace h8 := h8.upd (c.co + 108)
    (fun l => if E.testBit l = true then 4 * (c.lo + 64 * n + l) % 2 ^ 32 else t.v0 l)
    (fun l => if E.testBit l = true then 4 * (c.lo + 64 * n + l) / 2 ^ 32 % 2 ^ 32 else t.v1 l)
    (fun l => if E.testBit l = true then (in1 + 4 * (c.lo + 64 * n + l)) % 2 ^ 32 else t.v2 l)
    (fun l => if E.testBit l = true then (in1 + 4 * (c.lo + 64 * n + l)) / 2 ^ 32 else t.v3 l)
    t.v4
    (pcadd c.co 104 4 108 rfl) (fun _ _ => rfl) (fun _ _ => rfl)
    (by
      intro l hl
      by_cases hx : E.testBit l = true
      · simp only [if_pos hx]
        rw [add_lo]
      · simp only [if_neg hx])
    (by
      intro l hl
      by_cases hx : E.testBit l = true
      · have hk := (hact l hl hx).2
        have hcb := carry_bit E (in1 % 2 ^ 32 % 2 ^ 32)
          (fun l => if E.testBit l = true then 4 * (c.lo + 64 * n + l) % 2 ^ 32 else t.v0 l) l hl hx
        simp only [if_pos hx] at hcb ⊢
        rw [hcb]
        exact add_hi in1 (4 * (c.lo + 64 * n + l)) (lt_of_ok _ _ (in1_ok c in1 in2 hv _ hk)) _ rfl
      · simp only [if_neg hx])
    (fun _ _ => rfl)
  flat5 at h8
  obtain ⟨s9, e9, h9⟩ := lift5_flat_load P rfl c.co 108 2 4 (by decide) (by decide) dec108 _
    (fun st => by rw [wn108]; exact ex108 st) s8 _ h8 rfl (fun l => in1 + 4 * (c.lo + 64 * n + l))
    (by
      intro l hl hx
      have hk := (hact l hl hx).2
      flat5g
      simp only [if_pos hx]
      exact ⟨join32 _ (lt_of_ok _ _ (in1_ok c in1 in2 hv _ hk)), in1_ok c in1 in2 hv _ hk⟩)
  flat5 at h9
  obtain ⟨s10, e10, h10⟩ := lift5_vmov P rfl c.co 116 5 3 (by decide) dec116
    (fun st => by rw [wn116]; exact ex116 st) s9 _ h9 (pcadd c.co 108 8 116 rfl) (fun _ => in2 / 2 ^ 32 % 2 ^ 32)
    (fun st' V hV hrs _ l hl => by
      rw [src_sgpr st' 5 l 32 0 false (by decide) rfl, hV.rs 5 (by decide), hrs 5 (by decide)]
      simp only [T5.s_5])
  flat5 at h10
  obtain ⟨s11, e11, h11⟩ := lift5_vadd P rfl c.co 120 4 0 2 (by decide) (by decide) (by decide) dec120
    (fun st => by rw [wn120]; exact ex120 st) s10 _ h10 (pcadd c.co 116 4 120 rfl)
  flat5 at h11
  obtain ⟨s12, e12, h12⟩ := lift5_vaddc P rfl c.co 124 3 1 3 (by decide) (by decide) (by decide) dec124
    (fun st => by rw [wn124]; exact ex104 st) s11 _ h11 (pcadd c.co 120 4 124 rfl)
  flat5 at h12
  replace h12 := h12.upd (c.co + 128)
    (fun l => if E.testBit l = true then 4 * (c.lo + 64 * n + l) % 2 ^ 32 else t.v0 l)
    (fun l => if E.testBit l = true then 4 * (c.lo + 64 * n + l) / 2 ^ 32 % 2 ^ 32 else t.v1 l)
    (fun l => if E.testBit l = true then (in2 + 4 * (c.lo + 64 * n + l)) % 2 ^ 32 else t.v2 l)
    (fun l => if E.testBit l = true then (in2 + 4 * (c.lo + 64 * n + l)) / 2 ^ 32 else t.v3 l)
    (fun l => if E.testBit l = true then rd32 t.mem (in1 + 4 * (c.lo + 64 * n + l)) % 2 ^ 32 else t.v4 l)
    (pcadd c.co 124 4 128 rfl) (fun _ _ => rfl) (fun _ _ => rfl)
    (by
      intro l hl
      by_cases hx : E.testBit l = true
      · simp only [if_pos hx]
        rw [add_lo]
      · simp only [if_neg hx])
    (by
      intro l hl
      by_cases hx : E.testBit l = true
      · have hk := (hact l hl hx).2
        have hcb := carry_bit E (in2 % 2 ^ 32 % 2 ^ 32)
          (fun l => if E.testBit l = true then 4 * (c.lo + 64 * n + l) % 2 ^ 32 else t.v0 l) l hl hx
        simp only [if_pos hx] at hcb ⊢
        rw [hcb]
        exact add_hi in2 (4 * (c.lo + 64 * n + l)) (lt_of_ok _ _ (in2_ok c in1 in2 hv _ hk)) _ rfl
      · simp only [if_neg hx])
    (fun _ _ => rfl)
  flat5 at h12
  obtain ⟨s13, e13, h13⟩ := lift5_flat_load P rfl c.co 128 2 2 (by decide) (by decide) dec128 _
    (fun st => by rw [wn128]; exact ex128 st) s12 _ h12 rfl (fun l => in2 + 4 * (c.lo + 64 * n + l))
    (by
      intro l hl hx
      have hk := (hact l hl hx).2
      flat5g
      simp only [if_pos hx]
      exact ⟨join32 _ (lt_of_ok _ _ (in2_ok c in1 in2 hv _ hk)), in2_ok c in1 in2 hv _ hk⟩)
  flat5 at h13
  replace h13 := h13.upd (c.co + 136)
    (fun l => if E.testBit l = true then 4 * (c.lo + 64 * n + l) % 2 ^ 32 else t.v0 l)
    (fun l => if E.testBit l = true then 4 * (c.lo + 64 * n + l) / 2 ^ 32 % 2 ^ 32 else t.v1 l)
    (fun l => if E.testBit l = true then rd32 t.mem (in2 + 4 * (c.lo + 64 * n + l)) % 2 ^ 32 else t.v2 l)
    (fun l => if E.testBit l = true then (in2 + 4 * (c.lo + 64 * n + l)) / 2 ^ 32 else t.v3 l)
    (fun l => if E.testBit l = true then rd32 t.mem (in1 + 4 * (c.lo + 64 * n + l)) % 2 ^ 32 else t.v4 l)
    (pcadd c.co 128 8 136 rfl) (fun _ _ => rfl) (fun _ _ => rfl)
    (by
      intro l hl
      by_cases hx : E.testBit l = true
      · simp only [if_pos hx]
      · simp only [if_neg hx])
    (fun _ _ => rfl) (fun _ _ => rfl)
  flat5 at h13
  obtain ⟨s14, e14, h14⟩ := lift5_vmov P rfl c.co 136 1 3 (by decide) dec136
    (fun st => by rw [wn136]; exact ex136 st) s13 _ h13 rfl (fun _ => c.dst / 2 ^ 32 % 2 ^ 32)
    (fun st' V hV hrs _ l hl => by
      rw [src_sgpr st' 1 l 32 0 false (by decide) rfl, hV.rs 1 (by decide), hrs 1 (by decide)]
      simp only [T5.s_1])
  flat5 at h14
  obtain ⟨s15, e15, h15⟩ := lift5_vadd P rfl c.co 140 0 0 0 (by decide) (by decide) (by decide) dec140
    (fun st => by rw [wn140]; exact ex140 st) s14 _ h14 (pcadd c.co 136 4 140 rfl)
  flat5 at h15
  obtain ⟨s16, e16, h16⟩ := lift5_vaddc P rfl c.co 144 3 1 1 (by decide) (by decide) (by decide) dec144
    (fun st => by rw [wn144]; exact ex144 st) s15 _ h15 (pcadd c.co 140 4 144 rfl)
  flat5 at h16
  replace h16 := h16.upd (c.co + 148)
    (fun l => if E.testBit l = true then (c.dst + 4 * (c.lo + 64 * n + l)) % 2 ^ 32 else t.v0 l)
    (fun l => if E.testBit l = true then (c.dst + 4 * (c.lo + 64 * n + l)) / 2 ^ 32 else t.v1 l)
    (fun l => if E.testBit l = true then rd32 t.mem (in2 + 4 * (c.lo + 64 * n + l)) % 2 ^ 32 else t.v2 l)
    (fun l => if E.testBit l = true then c.dst / 2 ^ 32 % 2 ^ 32 else t.v3 l)
    (fun l => if E.testBit l = true then rd32 t.mem (in1 + 4 * (c.lo + 64 * n + l)) % 2 ^ 32 else t.v4 l)
    (pcadd c.co 144 4 148 rfl)
    (by
      intro l hl
      by_cases hx : E.testBit l = true
      · simp only [if_pos hx]
        rw [add_lo]
      · simp only [if_neg hx])
    (by
      intro l hl
      by_cases hx : E.testBit l = true
      · have hk := (hact l hl hx).2
        have hcb := carry_bit E (c.dst % 2 ^ 32 % 2 ^ 32)
          (fun l => if E.testBit l = true then 4 * (c.lo + 64 * n + l) % 2 ^ 32 else t.v0 l) l hl hx
        simp only [if_pos hx] at hcb ⊢
        rw [hcb]
        exact add_hi c.dst (4 * (c.lo + 64 * n + l)) (lt_of_ok _ _ (dst_ok c in1 in2 hv _ hk)) _ rfl
      · simp only [if_neg hx])
    (fun _ _ => rfl)
    (by
      intro l hl
      by_cases hx : E.testBit l = true
      · simp only [if_pos hx]
      · simp only [if_neg hx])
    (fun _ _ => rfl)
  flat5 at h16
  obtain ⟨s17, e17, h17⟩ := lift5_wait P rfl c.co 148 _ dec148 s16 _ h16 rfl
  flat5 at h17
  obtain ⟨s18, e18, h18⟩ := lift5_vbinf32 P rfl c.co 152 5 2 2 (by decide) (by decide) dec152 _ eMulVV
    ⟨rfl, Or.inl rfl, rfl⟩ rfl rfl rfl rfl rfl rfl rfl rfl rfl rfl rfl (F.mul F.f32) (fun x => rfl)
    (fun st => by rw [wn152]; exact ex152 st) s17 _ h17 (pcadd c.co 148 4 152 rfl)
    (fun l => (if E.testBit l = true then rd32 t.mem (in1 + 4 * (c.lo + 64 * n + l)) % 2 ^ 32 else t.v4 l) % 2 ^ 32)
    (fun st' V hV _ hrv l hl => by
      show lo32 (st'.src (256 + 4) l 32 _ false) = _
      rw [src_vgpr, hV.rv 4 l (by decide) hl, hrv 4 l (by decide) hl]
      simp only [T5.v_4]
      rfl)
  flat5 at h18
  obtain ⟨s19, e19, h19⟩ := lift5_flat_store P rfl c.co 156 0 2 (by decide) (by decide) dec156 _
    (fun st => by rw [wn156]; exact ex156 st) s18 _ h18 (pcadd c.co 152 4 156 rfl)
    (fun l => c.dst + 4 * (c.lo + 64 * n + l))
    (by
      intro l hl hx
      have hk := (hact l hl hx).2
      flat5g
      simp only [if_pos hx]
      exact ⟨join32 _ (lt_of_ok _ _ (dst_ok c in1 in2 hv _ hk)), dst_ok c in1 in2 hv _ hk⟩)
  flat5 at h19
  refine ⟨s19, _, ?_, h19, pcadd c.co 156 8 164 rfl, ?_⟩
  · exact stepsTo_trans (stepsTo_one e1) (stepsTo_trans (stepsTo_one e2) (stepsTo_trans (stepsTo_one e3)
      (stepsTo_trans (stepsTo_one e4) (stepsTo_trans (stepsTo_one e5) (stepsTo_trans (stepsTo_one e6)
      (stepsTo_trans (stepsTo_one e7) (stepsTo_trans (stepsTo_one e8) (stepsTo_trans (stepsTo_one e9)
      (stepsTo_trans (stepsTo_one e10) (stepsTo_trans (stepsTo_one e11) (stepsTo_trans (stepsTo_one e12)
      (stepsTo_trans (stepsTo_one e13) (stepsTo_trans (stepsTo_one e14) (stepsTo_trans (stepsTo_one e15)
      (stepsTo_trans (stepsTo_one e16) (stepsTo_trans (stepsTo_one e17) (stepsTo_trans (stepsTo_one e18)
      (stepsTo_one e19))))))))))))))))))
  · show applyWrites _ t.mem = applyWrites _ t.mem
    congr 1
    apply flatMap_congr'
    intro l hl
    have hx := ((mem_lanesOf _ _).mp hl).2
    simp only [if_pos hx]
    unfold mulVal
    rw [mul_fold]

/-- **one wavefront of `mul`**: the statement `Map.WaveRun` -/
theorem wave_run (c : Map.Cfg) (in1 in2 : Nat) (hv : Valid c in1 in2) :
    Map.WaveRun P 32 (mulVal in1 in2) c (Img c in1 in2) := by
  intro f0 himg n msk hn hmsk hmskG st V hV hpc hexec hs4 hs5 hs6 hs7 hs8 hv0 hag fuel
  have ht := tracks5_of_sees hV
  obtain ⟨sA, hstA, hA⟩ := blockA c in1 in2 hv f0 himg n msk hn hmsk st _ ht hpc hexec hs4 hs5 hs6 hs7 hs8 hv0 hag
  by_cases hE : Map.execMask c n msk = 0
  · rw [if_pos hE] at hA
    obtain ⟨sE, eE, hEnd⟩ := lift5_endpgm P rfl c.co 164 dec164 sA _ hA rfl
    refine ⟨sE, ?_, ?_⟩
    · rw [show fuel + 32 = (fuel + 19 + 1) + 12 from by omega, runWf_steps hstA, runWf_end eE]
    · intro a
      rw [Tracks5.rmem hEnd a]
      show V.mem a = _
      unfold Map.wavePairs
      rw [hE, lanesOf_zero]
      rfl
  · rw [if_neg hE] at hA
    obtain ⟨sB, tB, hstB, hB, hpcB, hmemB⟩ := blockB c in1 in2 hv f0 himg n (Map.execMask c n msk) hn sA _ hA rfl rfl hs6 hs7
      (by
        intro l hl hx
        rw [Map.exec_bit c n msk l hl] at hx
        simp only [Bool.and_eq_true, decide_eq_true_eq] at hx
        refine ⟨?_, ?_⟩
        · show (if msk.testBit l = true then c.lo + 64 * n + l else V.rv 1 l) = _
          rw [if_pos hx.1]
        · have := hmskG l hl hx.1
          unfold Map.Cfg.K
          omega)
      hag
    obtain ⟨sE, eE, hEnd⟩ := lift5_endpgm P rfl c.co 164 dec164 sB tB hB hpcB
    refine ⟨sE, ?_, ?_⟩
    · rw [show fuel + 32 = (fuel + 1 + 19) + 12 from by omega, runWf_steps hstA, runWf_steps hstB, runWf_end eE]
    · intro a
      rw [Tracks5.rmem hEnd a]
      show tB.mem a = _
      rw [hmemB]
      rfl

end C01.Emu.Mul
