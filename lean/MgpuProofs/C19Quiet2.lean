import MgpuModel.C19_Cp
import MgpuModel.C19_Drv
/-! # C19 — the quiet-tick rule for the command processor and the driver

Akita puts a component to sleep when `Tick` returns `false` and wakes it only when a message enters an
EMPTY buffer. A tick that reports no progress must therefore leave a state in which another tick does
nothing. Here: every stage that reports `false` changed nothing (fault field included), hence a tick that
reports `false` is the identity, hence the next tick is the same quiet tick (`tick_sleeps`); and a tick is
quiet exactly when every stage is quiet on the state the tick starts from (`tick_quiet_iff`: both directions
hold literally for the command processor too — with a fault every stage reports `false`; with an empty
driver port the skipped first pass would have been quiet whenever the second one is). The driver of
before commit 43a1a06d (`processShootdownCompleteRsp` returned `false` unless the counter reached 0)
violates the rule (`DR.quietRuleOld_refuted`). -/
namespace C19

/-! ## command processor -/
namespace CP

/-- a stage that reports no progress changed nothing -/
def Quiet (f : Cp → Cp × Bool) : Prop := ∀ s, (f s).2 = false → (f s).1 = s

/-- a result that either reports progress or is the old state -/
theorem quiet_of_or {s : Cp} {r : Cp × Bool} (h : r.2 = true ∨ r.1 = s) : r.2 = false → r.1 = s := by
  intro h2
  rcases h with h | h
  · rw [h] at h2; cases h2
  · exact h

/-- case analysis of a stage function down to its `return`s: each one reports `true` or returns the state
    it was given -/
local macro "stage_quiet" : tactic =>
  `(tactic| (apply quiet_of_or; repeat' (first | split | (dsimp only; split) | exact Or.inl rfl | exact Or.inr rfl)))

/-- `processFlushReq` reporting no progress changed nothing -/
theorem hFlush_quiet (s : Cp) : (Cp.hFlush s).2 = false → (Cp.hFlush s).1 = s := by
  unfold Cp.hFlush
  stage_quiet

/-- `ctrlMiddleware.Handle` reporting no progress changed nothing -/
theorem hCtrl_quiet (s : Cp) : (Cp.hCtrl s).2 = false → (Cp.hCtrl s).1 = s := by
  unfold Cp.hCtrl
  stage_quiet

/-- `processRspFromRDMAs` reporting no progress changed nothing -/
theorem rRdma_quiet (s : Cp) : (Cp.rRdma s).2 = false → (Cp.rRdma s).1 = s := by
  unfold Cp.rRdma
  stage_quiet

/-- `processRspFromCUs` reporting no progress changed nothing -/
theorem rCU_quiet (s : Cp) : (Cp.rCU s).2 = false → (Cp.rCU s).1 = s := by
  unfold Cp.rCU
  stage_quiet

/-- `processRspFromATs` reporting no progress changed nothing -/
theorem rAT_quiet (s : Cp) : (Cp.rAT s).2 = false → (Cp.rAT s).1 = s := by
  unfold Cp.rAT
  stage_quiet

/-- `processRspFromCaches` reporting no progress changed nothing -/
theorem rCache_quiet (s : Cp) : (Cp.rCache s).2 = false → (Cp.rCache s).1 = s := by
  unfold Cp.rCache
  stage_quiet

/-- `processRspFromTLBs` reporting no progress changed nothing -/
theorem rTLB_quiet (s : Cp) : (Cp.rTLB s).2 = false → (Cp.rTLB s).1 = s := by
  unfold Cp.rTLB
  stage_quiet

/-- `processRspFromPMC` reporting no progress changed nothing -/
theorem rPMC_quiet (s : Cp) : (Cp.rPMC s).2 = false → (Cp.rPMC s).1 = s := by
  unfold Cp.rPMC
  stage_quiet

/-- every one of the eight stages is quiet -/
theorem stages_quiet : ∀ f ∈ stages, Quiet f := by
  intro f hf
  simp only [stages, List.mem_cons, List.not_mem_nil, or_false] at hf
  rcases hf with rfl | rfl | rfl | rfl | rfl | rfl | rfl | rfl
  · exact hFlush_quiet
  · exact hCtrl_quiet
  · exact rRdma_quiet
  · exact rCU_quiet
  · exact rAT_quiet
  · exact rCache_quiet
  · exact rTLB_quiet
  · exact rPMC_quiet

/-- a run of quiet stages whose accumulated flag ends `false`: the flag was `false` at the start, the state
    never changed, and every stage reported `false` on that state -/
theorem runStages_false (l : List (Cp → Cp × Bool)) (hl : ∀ f ∈ l, Quiet f) (x : Cp × Bool) :
    (runStages l x).2 = false →
      (runStages l x).1 = x.1 ∧ x.2 = false ∧ ∀ f ∈ l, (f x.1).2 = false := by
  induction l generalizing x with
  | nil => intro h; simpa [runStages] using h
  | cons f l ih =>
    intro h
    have hstep : runStages (f :: l) x = runStages l ((f x.1).1, x.2 || (f x.1).2) := by
      simp [runStages]
    rw [hstep] at h ⊢
    have ⟨h1, h2, h3⟩ := ih (fun g hg => hl g (List.mem_cons_of_mem _ hg)) _ h
    simp only [Bool.or_eq_false_iff] at h2
    have hf : (f x.1).1 = x.1 := hl f List.mem_cons_self x.1 h2.2
    have h1' : (runStages l ((f x.1).1, x.2 || (f x.1).2)).1 = (f x.1).1 := h1
    have h3' : ∀ g ∈ l, (g (f x.1).1).2 = false := h3
    rw [hf] at h3'
    refine ⟨h1'.trans hf, h2.1, ?_⟩
    intro g hg
    rcases List.mem_cons.1 hg with rfl | hg
    · exact h2.2
    · exact h3' g hg

/-- a run of stages that all report `false` on `s` (and are quiet) is the identity on `(s, b)` -/
theorem runStages_id (l : List (Cp → Cp × Bool)) (hl : ∀ f ∈ l, Quiet f) (s : Cp) (b : Bool)
    (h : ∀ f ∈ l, (f s).2 = false) : runStages l (s, b) = (s, b) := by
  induction l with
  | nil => simp [runStages]
  | cons f l ih =>
    have hstep : runStages (f :: l) (s, b) = runStages l ((f s).1, b || (f s).2) := by
      simp [runStages]
    have h2 := h f List.mem_cons_self
    rw [hstep, hl f List.mem_cons_self s h2, h2, Bool.or_false]
    exact ih (fun g hg => hl g (List.mem_cons_of_mem _ hg)) (fun g hg => h g (List.mem_cons_of_mem _ hg))

/-- a run of quiet stages from a `false` flag that ends with a `false` flag changed nothing -/
theorem runStages_quiet (l : List (Cp → Cp × Bool)) (hl : ∀ f ∈ l, ∀ s, (f s).2 = false → (f s).1 = s)
    (s : Cp) : (runStages l (s, false)).2 = false → (runStages l (s, false)).1 = s :=
  fun h => (runStages_false l hl (s, false) h).1

/-- one pass that reports no progress changed nothing -/
theorem pass_quiet (s : Cp) : s.pass.2 = false → s.pass.1 = s :=
  runStages_quiet stages stages_quiet s

/-- one pass is quiet exactly when every stage is quiet on the state it starts from -/
theorem pass_quiet_iff (s : Cp) : s.pass.2 = false ↔ ∀ f ∈ stages, (f s).2 = false := by
  constructor
  · intro h; exact (runStages_false stages stages_quiet (s, false) h).2.2
  · intro h; unfold Cp.pass; rw [runStages_id stages stages_quiet s false h]

/-- with a fault recorded every stage reports `false` -/
theorem stages_fault (s : Cp) (hs : s.fault.isSome = true) : ∀ f ∈ stages, (f s).2 = false := by
  intro f hf
  simp only [stages, List.mem_cons, List.not_mem_nil, or_false] at hf
  rcases hf with rfl | rfl | rfl | rfl | rfl | rfl | rfl | rfl
  · simp [Cp.hFlush, hs]
  · simp [Cp.hCtrl, hs]
  · simp [Cp.rRdma, hs]
  · simp [Cp.rCU, hs]
  · simp [Cp.rAT, hs]
  · simp [Cp.rCache, hs]
  · simp [Cp.rTLB, hs]
  · simp [Cp.rPMC, hs]

/-- a tick of the command processor is quiet exactly when every stage is quiet on the state it starts from
    (both passes start from the same state when nothing changes) -/
theorem tick_quiet_iff (s : Cp) : s.tick.2 = false ↔ ∀ f ∈ stages, (f s).2 = false := by
  unfold Cp.tick
  by_cases hs : s.fault.isSome = true
  · simp only [hs, if_true, true_iff]
    exact stages_fault s hs
  · simp only [hs, Bool.false_eq_true, if_false]
    by_cases he : s.drvIn.isEmpty = true
    · simp only [he, if_true, Bool.false_or]
      exact pass_quiet_iff s
    · simp only [he, Bool.false_eq_true, if_false, Bool.or_eq_false_iff]
      constructor
      · intro h; exact (pass_quiet_iff s).1 h.1
      · intro h
        have hp := (pass_quiet_iff s).2 h
        refine ⟨hp, ?_⟩
        rw [pass_quiet s hp]; exact hp

/-- a tick of the command processor that reports no progress changed nothing -/
theorem tick_quiet (s : Cp) : s.tick.2 = false → s.tick.1 = s := by
  intro h
  have hp := (pass_quiet_iff s).2 ((tick_quiet_iff s).1 h)
  have h1 := pass_quiet s hp
  unfold Cp.tick
  by_cases hs : s.fault.isSome = true
  · simp [hs]
  · simp only [hs, Bool.false_eq_true, if_false]
    by_cases he : s.drvIn.isEmpty = true
    · simp only [he, if_true]; exact h1
    · simp only [he, Bool.false_eq_true, if_false]; rw [h1]; exact h1

/-- THE QUIET-TICK RULE for the command processor: after a tick that reports no progress the next tick
    does nothing and reports no progress again -/
theorem tick_sleeps (s : Cp) : s.tick.2 = false → s.tick.1.tick = (s.tick.1, false) := by
  intro h
  have h1 := tick_quiet s h
  rw [h1]
  exact Prod.ext h1 h

end CP

/-! ## driver -/
namespace DR

/-- a stage that reports no progress changed nothing -/
def Quiet (f : Drv → Drv × Bool) : Prop := ∀ d, (f d).2 = false → (f d).1 = d

/-- a result that either reports progress or is the old state -/
theorem quiet_of_or {d : Drv} {r : Drv × Bool} (h : r.2 = true ∨ r.1 = d) : r.2 = false → r.1 = d := by
  intro h2
  rcases h with h | h
  · rw [h] at h2; cases h2
  · exact h

/-- case analysis of a stage function down to its `return`s: each one reports `true` or returns the state
    it was given -/
local macro "stage_quiet" : tactic =>
  `(tactic| (apply quiet_of_or; repeat' (first | split | (dsimp only; split) | exact Or.inl rfl | exact Or.inr rfl)))

/-- `sendToGPUs` reporting no progress changed nothing -/
theorem sGpu_quiet (d : Drv) : (Drv.sGpu d).2 = false → (Drv.sGpu d).1 = d := by
  unfold Drv.sGpu
  stage_quiet

/-- `sendToMMU` reporting no progress changed nothing -/
theorem sMmu_quiet (d : Drv) : (Drv.sMmu d).2 = false → (Drv.sMmu d).1 = d := by
  unfold Drv.sMmu
  stage_quiet

/-- `sendMigrationReqToCP` reporting no progress changed nothing -/
theorem sMig_quiet (d : Drv) : (Drv.sMig d).2 = false → (Drv.sMig d).1 = d := by
  unfold Drv.sMig
  stage_quiet

/-- `processReturnReq` (after commit 43a1a06d) reporting no progress changed nothing -/
theorem ret_quiet (d : Drv) : (Drv.ret d).2 = false → (Drv.ret d).1 = d := by
  unfold Drv.ret
  stage_quiet

/-- `parseFromMMU` reporting no progress changed nothing -/
theorem parse_quiet (d : Drv) : (Drv.parse d).2 = false → (Drv.parse d).1 = d := by
  unfold Drv.parse
  stage_quiet

/-- every one of the five stages is quiet -/
theorem stages_quiet : ∀ f ∈ stages, Quiet f := by
  intro f hf
  simp only [stages, List.mem_cons, List.not_mem_nil, or_false] at hf
  rcases hf with rfl | rfl | rfl | rfl | rfl
  · exact sGpu_quiet
  · exact sMmu_quiet
  · exact sMig_quiet
  · exact ret_quiet
  · exact parse_quiet

/-- a run of quiet stages whose accumulated flag ends `false`: the flag was `false` at the start, the state
    never changed, and every stage reported `false` on that state -/
theorem runStages_false (l : List (Drv → Drv × Bool)) (hl : ∀ f ∈ l, Quiet f) (x : Drv × Bool) :
    (runStages l x).2 = false →
      (runStages l x).1 = x.1 ∧ x.2 = false ∧ ∀ f ∈ l, (f x.1).2 = false := by
  induction l generalizing x with
  | nil => intro h; simpa [runStages] using h
  | cons f l ih =>
    intro h
    have hstep : runStages (f :: l) x = runStages l ((f x.1).1, x.2 || (f x.1).2) := by
      simp [runStages]
    rw [hstep] at h ⊢
    have ⟨h1, h2, h3⟩ := ih (fun g hg => hl g (List.mem_cons_of_mem _ hg)) _ h
    simp only [Bool.or_eq_false_iff] at h2
    have hf : (f x.1).1 = x.1 := hl f List.mem_cons_self x.1 h2.2
    have h1' : (runStages l ((f x.1).1, x.2 || (f x.1).2)).1 = (f x.1).1 := h1
    have h3' : ∀ g ∈ l, (g (f x.1).1).2 = false := h3
    rw [hf] at h3'
    refine ⟨h1'.trans hf, h2.1, ?_⟩
    intro g hg
    rcases List.mem_cons.1 hg with rfl | hg
    · exact h2.2
    · exact h3' g hg

/-- a run of stages that all report `false` on `d` (and are quiet) is the identity on `(d, b)` -/
theorem runStages_id (l : List (Drv → Drv × Bool)) (hl : ∀ f ∈ l, Quiet f) (d : Drv) (b : Bool)
    (h : ∀ f ∈ l, (f d).2 = false) : runStages l (d, b) = (d, b) := by
  induction l with
  | nil => simp [runStages]
  | cons f l ih =>
    have hstep : runStages (f :: l) (d, b) = runStages l ((f d).1, b || (f d).2) := by
      simp [runStages]
    have h2 := h f List.mem_cons_self
    rw [hstep, hl f List.mem_cons_self d h2, h2, Bool.or_false]
    exact ih (fun g hg => hl g (List.mem_cons_of_mem _ hg)) (fun g hg => h g (List.mem_cons_of_mem _ hg))

/-- a run of quiet stages from a `false` flag that ends with a `false` flag changed nothing -/
theorem runStages_quiet (l : List (Drv → Drv × Bool)) (hl : ∀ f ∈ l, ∀ d, (f d).2 = false → (f d).1 = d)
    (d : Drv) : (runStages l (d, false)).2 = false → (runStages l (d, false)).1 = d :=
  fun h => (runStages_false l hl (d, false) h).1

/-- a tick of the driver that reports no progress changed nothing -/
theorem tick_quiet (d : Drv) : d.tick.2 = false → d.tick.1 = d :=
  runStages_quiet stages stages_quiet d

/-- THE QUIET-TICK RULE for the driver: after a tick that reports no progress the next tick does nothing
    and reports no progress again -/
theorem tick_sleeps (d : Drv) : d.tick.2 = false → d.tick.1.tick = (d.tick.1, false) := by
  intro h
  have h1 := tick_quiet d h
  rw [h1]
  exact Prod.ext h1 h

/-- a tick of the driver is quiet exactly when every stage is quiet on the state it starts from -/
theorem tick_quiet_iff (d : Drv) : d.tick.2 = false ↔ ∀ f ∈ stages, (f d).2 = false := by
  constructor
  · intro h; exact (runStages_false stages stages_quiet (d, false) h).2.2
  · intro h; unfold Drv.tick; rw [runStages_id stages stages_quiet d false h]

/-! ### the driver before commit 43a1a06d -/

/-- `processReturnReq` before commit 43a1a06d: `processShootdownCompleteRsp` consumed the acknowledgement,
    decremented the counter and returned `false` unless the counter reached 0 -/
def retOld (d : Drv) : Drv × Bool :=
  if d.fault.isSome then (d, false) else
  match d.gpuIn with
  | [] => (d, false)
  | a :: rest =>
    match a with
    | .shoot =>
      let n := CP.dec d.shoot
      let d := { d with shoot := n, gpuIn := rest }
      if n = 0 then
        match d.cur with
        | none => ({ d with fault := some "nilderef" }, true)
        | some r =>
          if r.host = 0 ∨ r.host - 1 ≥ d.nPmc then ({ d with fault := some "index" }, true) else
          let ctx := if d.pids.contains r.pid then r.pid else 0
          (d.mkMigs ctx r.pageSize (r.host - 1) (migOrder d.ngpu r.map), true)
      else (d, false)
    | _ => Drv.ret d

/-- the old and the repaired `processReturnReq` compute the same state: only the reported flag differs -/
theorem retOld_state (d : Drv) : (retOld d).1 = (Drv.ret d).1 := by
  unfold retOld
  split
  · simp [Drv.ret, *]
  · split
    · simp [Drv.ret, *]
    · split
      · unfold Drv.ret
        simp only [*]
        repeat' (first | rfl | split | (dsimp only; split))
      · rfl

/-- `Driver.Tick` before commit 43a1a06d -/
def tickOld (d : Drv) : Drv × Bool :=
  runStages [Drv.sGpu, Drv.sMmu, Drv.sMig, retOld, Drv.parse] (d, false)

/-- the quiet-tick rule for the driver before commit 43a1a06d -/
def quietRuleOld : Prop := ∀ d : Drv, (tickOld d).2 = false → (tickOld d).1 = d

/-- two shootdown acknowledgements waiting, two expected, nothing else to do -/
def witnessOld : Drv := { shoot := 2, gpuIn := [.shoot, .shoot] }

/-- the driver before commit 43a1a06d violates the quiet-tick rule: the tick consumes one of two
    acknowledgements, reports no progress, and the next tick would consume the other -/
theorem quietRuleOld_refuted : ¬ quietRuleOld := by
  intro h
  have h1 : (tickOld witnessOld).1.shoot = witnessOld.shoot := by rw [h witnessOld (by decide)]
  revert h1
  decide

/-- the sleeping old driver is not at rest: a second tick consumes the second acknowledgement -/
theorem tickOld_not_asleep :
    (tickOld witnessOld).2 = false ∧ (tickOld witnessOld).1.gpuIn.length = 1 ∧
      (tickOld (tickOld witnessOld).1).1.gpuIn.length = 0 := by decide

end DR

/-! ## non-vacuity -/

/-- a command processor with nothing to do: the tick reports `false` -/
example : (({} : CP.Cp).tick).2 = false := by decide

/-- a command processor with a drain command waiting: the tick reports `true` and consumes the command -/
example : (({ drvIn := [.drain] } : CP.Cp).tick).2 = true ∧
    (({ drvIn := [.drain] } : CP.Cp).tick).1.drvIn.length = 0 ∧
    (({ drvIn := [.drain] } : CP.Cp).tick).1.rdmaOut.length = 1 := by decide

/-- a command processor that waits for a second CU acknowledgement which has not arrived: quiet -/
example : (({ numCU := 1, shoot := true, drvIn := [.shoot 7] } : CP.Cp).tick).2 = false := by decide

/-- a driver with nothing to do: the tick reports `false` -/
example : (({} : DR.Drv).tick).2 = false := by decide

/-- the repaired driver on the witness of the old defect: the tick reports `true` and the state changed -/
example : (DR.witnessOld.tick).2 = true ∧ (DR.witnessOld.tick).1.shoot = 1 ∧
    (DR.witnessOld.tick).1.gpuIn.length = 1 := by decide

end C19
