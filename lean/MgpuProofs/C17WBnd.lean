import MgpuProofs.C17Live
import MgpuProofs.C17WDefs
/-! C17, every pipeline width: the repair buffers only a bounded number of requests per bank.

The repaired `finalizeSingle` pops a younger request found at the head of the post-pipeline buffer and *sets it aside*
(`WBank.early`). Nothing in the Go code caps `numSetAside`; the bound comes from the protocol: while something is set aside
the bank accepts nothing, so everything that can still be set aside is already in the pipeline (`width × depth` stages) or
in the post-pipeline buffer (capacity `c.post`). No hypothesis on the configuration. -/
namespace C17

/-- number of occupied pipeline stages of a bank -/
def laneCount (lanes : List Lane) : Nat := (lanes.flatMap laneItems).length

structure BndW (c : Cfg) (b : WBank) : Prop where
  nl : b.lanes.length = c.width
  ll : ∀ l ∈ b.lanes, l.length = c.depth
  post : b.post.length ≤ c.post
  tot : b.early.length + b.post.length + laneCount b.lanes ≤ c.width * c.depth + c.post

namespace WBnd

/-! ### counting -/

theorem laneCount_nil : laneCount [] = 0 := rfl

theorem laneCount_cons (l : Lane) (ls : List Lane) : laneCount (l :: ls) = (laneItems l).length + laneCount ls := by
  simp [laneCount]

theorem laneItems_length_le (l : Lane) : (laneItems l).length ≤ l.length := List.length_filterMap_le _ _

theorem laneCount_le (d : Nat) : ∀ lanes : List Lane, (∀ l ∈ lanes, l.length = d) → laneCount lanes ≤ lanes.length * d
  | [], _ => by simp [laneCount]
  | l :: ls, h => by
    have h1 := laneItems_length_le l
    have h2 := h l (by simp)
    have h3 := laneCount_le d ls (fun x hx => h x (by simp [hx]))
    rw [laneCount_cons, List.length_cons, Nat.succ_mul]
    omega

theorem laneItems_replicate_none : ∀ d : Nat, laneItems (List.replicate d none) = []
  | 0 => rfl
  | d + 1 => by rw [List.replicate_succ, laneItems_none]; exact laneItems_replicate_none d

theorem laneCount_replicate (l : Lane) (hl : laneItems l = []) : ∀ w : Nat, laneCount (List.replicate w l) = 0
  | 0 => rfl
  | w + 1 => by rw [List.replicate_succ, laneCount_cons, hl, laneCount_replicate l hl w]; rfl

/-- the bound together with one half of `order_length` (the other half needs that requests are distinct) -/
structure Good (c : Cfg) (b : WBank) : Prop where
  bnd : BndW c b
  ord : b.early.length + b.post.length + laneCount b.lanes ≤ b.order.length

def AllGood (c : Cfg) (bs : List WBank) : Prop := ∀ b ∈ bs, Good c b

/-- with nothing set aside the bound is a matter of shapes -/
theorem bnd_of_nil (c : Cfg) (b : WBank) (nl : b.lanes.length = c.width) (ll : ∀ l ∈ b.lanes, l.length = c.depth)
    (post : b.post.length ≤ c.post) (he : b.early = []) : BndW c b := by
  refine ⟨nl, ll, post, ?_⟩
  have := laneCount_le c.depth b.lanes ll
  rw [nl] at this
  rw [he, List.length_nil]
  omega

/-- the lanes untouched, neither the buffer nor buffer + set-aside longer, `order` shortened by no more than the rest -/
theorem good_of_le (c : Cfg) (b b' : WBank) (h : Good c b) (hl : b'.lanes = b.lanes)
    (hp : b'.post.length ≤ b.post.length)
    (ht : b'.early.length + b'.post.length ≤ b.early.length + b.post.length)
    (ho : b'.early.length + b'.post.length + b.order.length ≤ b.early.length + b.post.length + b'.order.length) :
    Good c b' := by
  obtain ⟨⟨nl, ll, post, tot⟩, ord⟩ := h
  refine ⟨⟨?_, ?_, ?_, ?_⟩, ?_⟩
  · rw [hl]; exact nl
  · rw [hl]; exact ll
  · omega
  · rw [hl]; omega
  · rw [hl]; omega

theorem good_congr (c : Cfg) (b b' : WBank) (h : Good c b) (hl : b'.lanes = b.lanes) (hp : b'.post = b.post)
    (he : b'.early = b.early) (ho : b'.order = b.order) : Good c b' :=
  good_of_le c b b' h hl (by rw [hp]; exact Nat.le_refl _) (by rw [hp, he]; exact Nat.le_refl _)
    (by rw [hp, he, ho]; exact Nat.le_refl _)

theorem allGood_set (c : Cfg) (bs : List WBank) (k : Nat) (b : WBank) (h : AllGood c bs) (hb : Good c b) :
    AllGood c (bs.set k b) := by
  intro x hx
  rcases List.mem_or_eq_of_mem_set hx with hx | rfl
  · exact h x hx
  · exact hb

theorem allGood_map (c : Cfg) (bs : List WBank) (f : WBank → WBank) (h : AllGood c bs)
    (hf : ∀ b, Good c b → Good c (f b)) : AllGood c (bs.map f) := by
  intro x hx
  obtain ⟨y, hy, rfl⟩ := List.mem_map.1 hx
  exact hf y (h y hy)

/-! ### the pipeline tick -/

theorem tickLane_post_le (c : Cfg) (post : List Item) (l : Lane) (hp : post.length ≤ c.post) :
    (tickLane c post l).1.length ≤ c.post := by
  cases l with
  | nil => exact hp
  | cons e rest =>
    cases e with
    | none => exact hp
    | some p =>
      obtain ⟨it, left⟩ := p
      simp only [tickLane]
      split
      · exact hp
      · split
        · rw [List.length_append, List.length_singleton]; omega
        · exact hp

theorem tickLane_count (c : Cfg) (post : List Item) (l : Lane) :
    (tickLane c post l).1.length + (laneItems (tickLane c post l).2).length = post.length + (laneItems l).length := by
  have := congrArg List.length (tickLane_items c post l)
  rwa [List.length_append, List.length_append] at this

theorem tickLanes_bnd (c : Cfg) (d : Nat) : ∀ (ls : List Lane) (post : List Item), post.length ≤ c.post →
    (∀ l ∈ ls, l.length = d) →
    (tickLanes c post ls).1.length ≤ c.post ∧ (tickLanes c post ls).2.length = ls.length ∧
    (∀ l ∈ (tickLanes c post ls).2, l.length = d) ∧
    (tickLanes c post ls).1.length + laneCount (tickLanes c post ls).2 = post.length + laneCount ls
  | [], post, hp, _ => ⟨hp, rfl, fun _ h => absurd h List.not_mem_nil, rfl⟩
  | l :: ls, post, hp, hl => by
    have h1 := tickLane_post_le c post l hp
    have h2 := tickLane_length c post l
    have h3 := tickLane_count c post l
    obtain ⟨a, b, cc, dd⟩ := tickLanes_bnd c d ls (tickLane c post l).1 h1 (fun x hx => hl x (by simp [hx]))
    simp only [tickLanes, laneCount_cons, List.length_cons]
    refine ⟨a, by omega, ?_, by omega⟩
    intro x hx
    rcases List.mem_cons.1 hx with rfl | hx
    · rw [h2]; exact hl l (by simp)
    · exact cc x hx

theorem tickBankPipeW_good (c : Cfg) (b : WBank) (h : Good c b) : Good c (tickBankPipeW c b) := by
  obtain ⟨⟨nl, ll, post, tot⟩, ord⟩ := h
  obtain ⟨a, b1, cc, dd⟩ := tickLanes_bnd c c.depth b.lanes b.post post ll
  refine ⟨⟨?_, cc, a, ?_⟩, ?_⟩
  · show (tickLanes c b.post b.lanes).2.length = c.width
    omega
  · show b.early.length + (tickLanes c b.post b.lanes).1.length + laneCount (tickLanes c b.post b.lanes).2 ≤ _
    omega
  · show b.early.length + (tickLanes c b.post b.lanes).1.length + laneCount (tickLanes c b.post b.lanes).2 ≤ b.order.length
    omega

/-! ### accepting -/

theorem acceptLane_length (x : Item × Nat) (l : Lane) : ∀ l', acceptLane x l = some l' → l'.length = l.length := by
  induction l with
  | nil => intro l' h; simp [acceptLane] at h
  | cons s rest ih =>
    intro l' h
    cases rest with
    | nil =>
      simp only [acceptLane] at h
      split at h
      · cases h; rfl
      · cases h
    | cons s2 rest2 =>
      simp only [acceptLane, Option.map_eq_some_iff] at h
      obtain ⟨l2, h2, rfl⟩ := h
      have := ih l2 (by simpa [acceptLane] using h2)
      simp [this]

theorem acceptLanes_bnd (x : Item × Nat) (d : Nat) : ∀ (ls ls' : List Lane), acceptLanes x ls = some ls' →
    (∀ l ∈ ls, l.length = d) →
    ls'.length = ls.length ∧ (∀ l ∈ ls', l.length = d) ∧ laneCount ls' = laneCount ls + 1 := by
  intro ls
  induction ls with
  | nil => intro ls' h; simp [acceptLanes] at h
  | cons l ls ih =>
    intro ls' h hl
    simp only [acceptLanes] at h
    cases ha : acceptLane x l with
    | some l1 =>
      rw [ha] at h
      cases h
      have h1 := acceptLane_length x l l1 ha
      have h2 := congrArg List.length (acceptLane_items x l l1 ha)
      rw [List.length_append, List.length_singleton] at h2
      refine ⟨rfl, ?_, ?_⟩
      · intro y hy
        rcases List.mem_cons.1 hy with rfl | hy
        · rw [h1]; exact hl l (by simp)
        · exact hl y (by simp [hy])
      · rw [laneCount_cons, laneCount_cons, h2]; omega
    | none =>
      rw [ha] at h
      simp only [Option.map_eq_some_iff] at h
      obtain ⟨ls1, h1, rfl⟩ := h
      obtain ⟨a, b, cc⟩ := ih ls1 h1 (fun y hy => hl y (by simp [hy]))
      refine ⟨by simp [a], ?_, ?_⟩
      · intro y hy
        rcases List.mem_cons.1 hy with rfl | hy
        · exact hl y (by simp)
        · exact b y hy
      · rw [laneCount_cons, laneCount_cons, cc]; omega

theorem accW_good (c : Cfg) (it : Item) (b b' : WBank) (h : Good c b) (ha : accW c it b = some b') : Good c b' := by
  unfold accW at ha
  by_cases he : b.early.isEmpty = true
  · rw [if_pos he] at ha
    have he' : b.early = [] := by simpa using he
    cases hl : acceptLanes (it, c.lat - 1) b.lanes with
    | none => rw [hl] at ha; cases ha
    | some lanes' =>
      rw [hl] at ha
      cases ha
      obtain ⟨⟨nl, ll, post, tot⟩, ord⟩ := h
      obtain ⟨a, b1, cc⟩ := acceptLanes_bnd _ c.depth _ _ hl ll
      refine ⟨bnd_of_nil c _ (by show lanes'.length = c.width; omega) b1 post he', ?_⟩
      show b.early.length + b.post.length + laneCount lanes' ≤ (b.order ++ [it.req]).length
      rw [List.length_append, List.length_singleton]
      omega
  · rw [if_neg he] at ha; cases ha

/-! ### delay queue and dispatch -/

theorem delayGoW_good (c : Cfg) : ∀ (dq : List (Item × Nat)) (b : WBank) (rem : List (Item × Nat)), Good c b →
    Good c (delayGoW c dq b rem).1
  | [], _, _, h => h
  | (it, n) :: rest, b, rem, h => by
    simp only [delayGoW]
    split
    · cases ha : accW c it b with
      | some b' => exact delayGoW_good c rest b' rem (accW_good c it b b' h ha)
      | none => exact delayGoW_good c rest b _ h
    · exact delayGoW_good c rest b _ h

theorem tickBankDelayW_good (c : Cfg) (b : WBank) (h : Good c b) : Good c (tickBankDelayW c b) :=
  good_congr c _ _ (delayGoW_good c b.dq b [] h) rfl rfl rfl rfl

theorem dispatchBankW_good (c : Cfg) (r : Req) (b b' : WBank) (h : Good c b) (hd : dispatchBankW c r b = some b') :
    Good c b' := by
  unfold dispatchBankW at hd
  by_cases hrm : c.row > 0 ∧ c.miss > 0
  · rw [if_pos hrm] at hd
    dsimp only at hd
    by_cases hrow : b.lastRow = some (rowOf c r.addr)
    · rw [if_pos hrow] at hd
      by_cases hdq : b.dq.isEmpty = true
      · rw [if_pos hdq] at hd
        cases ha : accW c (fresh r) b with
        | none =>
          rw [ha] at hd
          cases hd
          exact good_congr c b _ h rfl rfl rfl rfl
        | some b1 =>
          rw [ha] at hd
          cases hd
          exact good_congr c b1 _ (accW_good c _ b b1 h ha) rfl rfl rfl rfl
      · rw [if_neg hdq] at hd
        cases hd
        exact good_congr c b _ h rfl rfl rfl rfl
    · rw [if_neg hrow] at hd
      cases hd
      exact good_congr c b _ h rfl rfl rfl rfl
  · rw [if_neg hrm] at hd
    exact accW_good c _ b b' h hd

theorem dispatchOneW_good (c : Cfg) (st : List WBank × List Req) (r : Req) (h : AllGood c st.1) :
    AllGood c (dispatchOneW c st r).1 := by
  unfold dispatchOneW
  cases hb : st.1[bankOf c r.addr]? with
  | none => exact h
  | some b =>
    dsimp only
    cases hd : dispatchBankW c r b with
    | none => exact h
    | some b' =>
      exact allGood_set c _ _ _ h (dispatchBankW_good c r b b' (h b (List.mem_of_getElem? hb)) hd)

theorem foldl_dispatchW_good (c : Cfg) : ∀ (todo : List Req) (st : List WBank × List Req), AllGood c st.1 →
    AllGood c (todo.foldl (dispatchOneW c) st).1
  | [], _, h => h
  | r :: rest, st, h => foldl_dispatchW_good c rest _ (dispatchOneW_good c st r h)

theorem dispatchW_good (c : Cfg) (s : WState) (h : AllGood c s.banks) : AllGood c (dispatchW c s).banks :=
  foldl_dispatchW_good c s.pending (s.banks, []) h

/-! ### finalizeBanks -/

theorem finalizeBankW_good (c : Cfg) : ∀ (fuel : Nat) (b : WBank) (log : List Req) (out resp : List Rsp) (pg : Bool),
    Good c b → Good c (finalizeBankW c fuel b log out resp pg).bank := by
  intro fuel
  induction fuel with
  | zero => intro b log out resp pg h; exact h
  | succ fuel ih =>
    intro b log out resp pg h
    cases ho : b.order with
    | nil => simp only [finalizeBankW, ho]; exact h
    | cons o os =>
      simp only [finalizeBankW, ho]
      cases hf : b.early.find? (fun it => decide (it.req = o)) with
      | some it =>
        dsimp only
        split
        · exact h
        · cases hc : commit it log with
          | none => exact h
          | some p =>
            obtain ⟨it', log'⟩ := p
            dsimp only
            split
            · apply ih
              have hlt : (b.early.filter (fun e => !decide (e.req = o))).length < b.early.length :=
                List.length_filter_lt_length_iff_exists.2
                  ⟨it, List.mem_of_find?_eq_some hf, by have := List.find?_some hf; simp at this; simp [this]⟩
              refine good_of_le c b _ h rfl (Nat.le_refl _) ?_ ?_
              · show (b.early.filter _).length + b.post.length ≤ _
                omega
              · show (b.early.filter _).length + b.post.length + b.order.length ≤ b.early.length + b.post.length + os.length
                rw [ho, List.length_cons]
                omega
            · refine good_of_le c b _ h rfl (Nat.le_refl _) ?_ ?_
              · show (b.early.map _).length + b.post.length ≤ _
                rw [List.length_map]; exact Nat.le_refl _
              · show (b.early.map _).length + b.post.length + b.order.length ≤ b.early.length + b.post.length + (o :: os).length
                rw [List.length_map, ho]; exact Nat.le_refl _
      | none =>
        dsimp only
        cases hp : b.post with
        | nil => exact h
        | cons hd t =>
          dsimp only
          split
          · split
            · exact h
            · cases hc : commit hd log with
              | none => exact h
              | some p =>
                obtain ⟨h', log'⟩ := p
                dsimp only
                split
                · apply ih
                  refine good_of_le c b _ h rfl ?_ ?_ ?_
                  · show t.length ≤ b.post.length
                    rw [hp, List.length_cons]; omega
                  · show b.early.length + t.length ≤ b.early.length + b.post.length
                    rw [hp, List.length_cons]; omega
                  · show b.early.length + t.length + b.order.length ≤ b.early.length + b.post.length + os.length
                    simp only [hp, ho, List.length_cons]; omega
                · refine good_of_le c b _ h rfl ?_ ?_ ?_
                  · show (h' :: t).length ≤ b.post.length
                    rw [hp, List.length_cons, List.length_cons]; omega
                  · show b.early.length + (h' :: t).length ≤ b.early.length + b.post.length
                    rw [hp, List.length_cons, List.length_cons]; omega
                  · show b.early.length + (h' :: t).length + b.order.length ≤ b.early.length + b.post.length + (o :: os).length
                    simp only [hp, ho, List.length_cons]; omega
          · apply ih
            refine good_of_le c b _ h rfl ?_ ?_ ?_
            · show t.length ≤ b.post.length
              rw [hp, List.length_cons]; omega
            · show (b.early ++ [hd]).length + t.length ≤ b.early.length + b.post.length
              rw [hp, List.length_cons, List.length_append, List.length_singleton]; omega
            · show (b.early ++ [hd]).length + t.length + b.order.length ≤ b.early.length + b.post.length + (o :: os).length
              simp only [hp, ho, List.length_cons, List.length_append, List.length_nil]; omega

theorem finalizeAtW_good (c : Cfg) (s : WState) (k : Nat) (pg : Bool) (h : AllGood c s.banks) :
    AllGood c (finalizeAtW c s k pg).st.banks := by
  unfold finalizeAtW
  cases hb : s.banks[k]? with
  | none => exact h
  | some b =>
    exact allGood_set c _ _ _ h (finalizeBankW_good c _ b _ _ _ _ (h b (List.mem_of_getElem? hb)))

theorem finalizeFromW_good (c : Cfg) : ∀ (ks : List Nat) (s : WState) (pg : Bool), AllGood c s.banks →
    AllGood c (finalizeFromW c ks s pg).st.banks
  | [], _, _, h => h
  | k :: ks, s, pg, h => by
    have h1 := finalizeAtW_good c s k pg h
    simp only [finalizeFromW]
    split
    · exact h1
    · exact finalizeFromW_good c ks _ _ h1

theorem finalizeW_good (c : Cfg) (s : WState) (h : AllGood c s.banks) : AllGood c (finalizeW c s).st.banks :=
  finalizeFromW_good c _ s false h

/-! ### tick, step, run -/

theorem tickW_good (c : Cfg) (s : WState) (h : AllGood c s.banks) : AllGood c (tickW c s).banks := by
  have hf := finalizeW_good c s h
  have h3 : AllGood c (tickDelaysW c (tickPipesW c (finalizeW c s).st)).banks :=
    allGood_map c _ _ (allGood_map c _ _ hf (tickBankPipeW_good c)) (tickBankDelayW_good c)
  simp only [tickW]
  split
  · exact hf
  · split
    · exact h3
    · exact dispatchW_good c _ h3

theorem deliverW_banks (c : Cfg) (s : WState) (kind : Kind) (addr len : Nat) (data : List Nat) (mask : Option (List Bool)) :
    (deliverW c s kind addr len data mask).banks = s.banks := by
  unfold deliverW
  split <;> rfl

theorem stepW_good (c : Cfg) (s : WState) (op : Op) (h : AllGood c s.banks) : AllGood c (stepW c s op).banks := by
  cases op with
  | deliver k a l d m => simp only [stepW, deliverW_banks]; exact h
  | tick => exact tickW_good c s h
  | out k => exact h

theorem emptyBankW_good (c : Cfg) : Good c (emptyBankW c) := by
  have hc : laneCount (emptyBankW c).lanes = 0 := laneCount_replicate _ (laneItems_replicate_none c.depth) c.width
  refine ⟨bnd_of_nil c _ ?_ ?_ (Nat.zero_le _) rfl, ?_⟩
  · show (List.replicate c.width (List.replicate c.depth none)).length = c.width
    exact List.length_replicate
  · intro l hl
    have : l = List.replicate c.depth none := (List.mem_replicate.1 hl).2
    rw [this]; exact List.length_replicate
  · rw [hc]; exact Nat.le_refl _

theorem initW_good (c : Cfg) : AllGood c (initW c).banks := by
  intro b hb
  have : b = emptyBankW c := (List.mem_replicate.1 hb).2
  rw [this]; exact emptyBankW_good c

theorem foldl_stepW_good (c : Cfg) : ∀ (ops : List Op) (s : WState), AllGood c s.banks →
    AllGood c (ops.foldl (stepW c) s).banks
  | [], _, h => h
  | op :: ops, s, h => foldl_stepW_good c ops _ (stepW_good c s op h)

theorem run_good (c : Cfg) (ops : List Op) : AllGood c (runW c ops).banks :=
  foldl_stepW_good c ops _ (initW_good c)

end WBnd

/-- every bank of every reachable state: lane shapes, post-pipeline buffer within its capacity, and set aside + buffer +
pipeline within `width × depth + post` -/
theorem run_bndW (c : Cfg) (ops : List Op) : ∀ b ∈ (runW c ops).banks, BndW c b :=
  fun b hb => (WBnd.run_good c ops b hb).bnd

/-- the number of requests set aside by a bank never exceeds what its pipeline and post-pipeline buffer can hold -/
theorem set_aside_bounded (c : Cfg) (ops : List Op) :
    ∀ b ∈ (runW c ops).banks, b.early.length ≤ c.width * c.depth + c.post := by
  intro b hb
  have := (run_bndW c ops b hb).tot
  omega

/-- `order` lists at least as many requests as there are items in pipeline, post buffer and set aside (no invariant
needed). Equality needs that the requests of a bank are distinct — retiring a set-aside request filters `early` by
request — which is part of `BankOk` (`order_length_of_bankOk` below). -/
theorem order_length_ge (c : Cfg) (ops : List Op) : ∀ b ∈ (runW c ops).banks,
    b.early.length + b.post.length + laneCount b.lanes ≤ b.order.length :=
  fun b hb => (WBnd.run_good c ops b hb).ord

/-- `order` lists exactly as many requests as there are items in pipeline, post buffer and set aside — for a bank that
satisfies the per-bank invariant of `C17WDefs` -/
theorem order_length_of_bankOk (c : Cfg) (b : WBank) (h : BankOk c b) :
    b.order.length = b.early.length + b.post.length + laneCount b.lanes := by
  have := h.perm.length_eq
  rw [← this, List.length_map]
  simp only [wItems, List.length_append, laneCount]
  omega

end C17
