import MgpuProofs.C20_Tail
import MgpuProofs.C20_Terminates
import MgpuProofs.C20_Cons3
import MgpuProofs.C20_ConsW
/-! # C20 — at quiescence everything was executed exactly once

`finished` (a statement about the indices of the shape) + `Tail` (nothing outside the shape) ⇒ nothing
is pending in any list or buffer; with the two conservation laws: received = trace totals. -/
namespace C20

variable {α : Type}

theorem sum_map_zero {β} [Inhabited β] (f : β → Nat) (l : List β) (h : ∀ k, f (get l k) = 0) :
    sum (l.map f) = 0 := by
  induction l with
  | nil => rfl
  | cons x xs ih =>
    have h0 : f x = 0 := h 0
    have := ih (fun k => h (k + 1))
    simp only [List.map_cons, sum_cons, h0, this]

theorem sum_map_congr_get {β} [Inhabited β] (f g : β → Nat) (l : List β) (h : ∀ k, f (get l k) = g (get l k)) :
    sum (l.map f) = sum (l.map g) := by
  induction l with
  | nil => rfl
  | cons x xs ih =>
    have h0 : f x = g x := h 0
    have := ih (fun k => h (k + 1))
    simp only [List.map_cons, sum_cons, h0, this]

/-- an idle layer with nothing outside its shape holds no work -/
theorem weight_zero (w : α → Nat) (l : Level α) (hi : levelIdle l = true) (ht : TailL l.n l) :
    l.weight w = 0 := by
  unfold levelIdle at hi
  simp only [Bool.and_eq_true, List.isEmpty_iff, beq_iff_eq, List.all_eq_true, List.mem_range] at hi
  obtain ⟨⟨⟨⟨⟨hu, _⟩, _⟩, ho⟩, _⟩, hc⟩ := hi
  unfold Level.weight
  rw [hu, ho]
  have : sum (l.cIn.map (fun b => sum (b.map w))) = 0 := by
    apply sum_map_zero (fun b : List α => sum (b.map w))
    intro k
    by_cases hk : k < l.n
    · rw [(hc k hk).1]; rfl
    · rw [ht k (by omega)]; rfl
  simp [this]

theorem weight_default (w : α → Nat) : (default : Level α).weight w = 0 := rfl

theorem finished_parts (s : Sys) (hf : finished s = true) :
    levelIdle s.l0 = true ∧
    (∀ g, g < s.G → levelIdle (get s.l1 g) = true ∧ (get s.gpus g).fin = 0) ∧
    (∀ m, m < s.G * s.S → levelIdle (get s.l2 m) = true ∧ (get s.sms m).fin = 0) ∧
    (∀ u, u < s.G * s.S * s.C → (get s.subs u).rem = 0 ∧ (get s.subs u).fin = 0) := by
  unfold finished at hf
  simp only [Bool.and_eq_true, List.all_eq_true, List.mem_range, beq_iff_eq] at hf
  obtain ⟨⟨⟨h0, h1⟩, h2⟩, h3⟩ := hf
  exact ⟨h0, h1, h2, h3⟩

/-- finished ⇒ no instruction and no warp is pending anywhere -/
theorem finished_pending (s : Sys) (i : Inv1 s) (t : Tail s) (hf : finished s = true) :
    pendingInsts s = 0 ∧ pendingWarps s = 0 := by
  obtain ⟨h0, h1, h2, _⟩ := finished_parts s hf
  have t0 : TailL s.l0.n s.l0 := by rw [i.lv0.hn]; exact t.c0
  have w1 : ∀ (w : Block → Nat) g, (get s.l1 g).weight w = 0 := by
    intro w g
    by_cases hg : g < s.G
    · refine weight_zero w _ (h1 g hg).1 ?_
      rw [(i.lv1 g hg).hn]; exact t.c1 g
    · rw [t.t1 g (by omega)]; rfl
  have w2 : ∀ (w : Warp → Nat) m, (get s.l2 m).weight w = 0 := by
    intro w m
    by_cases hm : m < s.G * s.S
    · refine weight_zero w _ (h2 m hm).1 ?_
      rw [(i.lv2 m hm).hn]; exact t.c2 m
    · rw [t.t2 m (by omega)]; rfl
  constructor
  · unfold pendingInsts
    rw [weight_zero _ _ h0 t0, sum_map_zero _ _ (w1 instsOfBlock), sum_map_zero _ _ (w2 id)]
  · unfold pendingWarps
    rw [weight_zero _ _ h0 t0, sum_map_zero _ _ (w1 List.length)]

/-- finished ⇒ every received instruction was executed -/
theorem finished_executed (s : Sys) (t : Tail s) (hf : finished s = true) :
    executedInsts s = receivedInsts s := by
  obtain ⟨_, _, _, h3⟩ := finished_parts s hf
  unfold executedInsts receivedInsts
  apply sum_map_congr_get
  intro u
  by_cases hu : u < s.G * s.S * s.C
  · rw [(h3 u hu).1]; rfl
  · have := t.t3 u (by omega)
    simp only [Sub.core, Prod.mk.injEq] at this
    rw [this.1]; rfl

/-- **Exactly once at quiescence.**  Along every in-range run of the repaired code on a shape ≥ 1×1×1:
    when no tick is pending, the run is finished and the sub-cores have received and executed exactly
    the instructions of the trace, the SMs exactly its warps. -/
theorem quiescent_totals (G S C : Nat) (trace : List Kernel) (evs : List Ev)
    (hG : 1 ≤ G) (hS : 1 ≤ S) (hC : 1 ≤ C) (hr : ∀ e ∈ evs, e.InRange G S C)
    (ha : allAsleep (run (init false G S C trace) evs) = true) :
    finished (run (init false G S C trace) evs) = true ∧
    receivedInsts (run (init false G S C trace) evs) = instsOfTrace trace ∧
    executedInsts (run (init false G S C trace) evs) = instsOfTrace trace ∧
    receivedWarps (run (init false G S C trace) evs) = warpsOfTrace trace := by
  have hf := asleep_finished G S C trace evs hG hS hC hr ha
  have t := tail_run G S C trace evs hr
  have hp := finished_pending _ (inv1_run' G S C trace evs) t hf
  have c1 := Q_run (init false G S C trace) evs
  rw [Q_init] at c1
  have c2 := QW_run (init false G S C trace) evs
  rw [QW_init] at c2
  unfold Q at c1
  unfold QW at c2
  refine ⟨hf, by omega, ?_, by omega⟩
  rw [finished_executed _ t hf]; omega

end C20
