import MgpuProofs.C09Stuck
/-! # C09 — liveness under a fair environment

A finite prefix `ops0` (any interleaving, containing all the launches) is followed by an infinite
launch-free schedule. If no fault occurs and, again and again, a tick happens at a moment when the
environment owes nothing (`EnvReady`), then at some point every launch has been answered — or a tick
is reached in which nothing is in flight anywhere and every CU refuses the next work-group of a
dispatcher (before the repair 91eb1bb3: the group does not fit the hardware and the dispatcher waited
for ever; now such a launch is rejected with the fault "oversize" when it is taken, and this
alternative needs an initial pool that is not empty — `Props/C09Fit.lean`, `Props/C09Held.lean`). -/
namespace C09

/-! ## every launched kernel is queued, being dispatched, or answered -/

def WL (A : List Kern) (p : List Nat) (v : V) : Prop :=
  ∀ k ∈ A, k.id ∈ p ∨ k ∈ v.drvIn ∨ (∃ i, (v.ds i).kern = some k) ∨ 1 ≤ rspCount v.log k.id

theorem WL_step {A : List Kern} {p : List Nat} {v v' : V} (h : WL A p v) (s : VStep v v') : WL A p v' := by
  intro k hk
  cases s with
  | cyc i c hi hc =>
    rcases h k hk with q | q | ⟨j, q⟩ | q
    · exact Or.inl q
    · exact Or.inr (Or.inl q)
    · refine Or.inr (Or.inr (Or.inl ⟨j, ?_⟩))
      by_cases hj : j = i
      · subst hj; rw [V.upd_same]; exact q
      · rw [V.upd_other _ _ _ _ hj]; exact q
    · exact Or.inr (Or.inr (Or.inr q))
  | map i k0 c locs hi hk0 hlt hr =>
    rcases h k hk with q | q | ⟨j, q⟩ | q
    · exact Or.inl q
    · exact Or.inr (Or.inl q)
    · refine Or.inr (Or.inr (Or.inl ⟨j, ?_⟩))
      by_cases hj : j = i
      · subst hj; rw [V.upd_same]; exact q
      · rw [V.upd_other _ _ _ _ hj]; exact q
    · refine Or.inr (Or.inr (Or.inr ?_))
      show 1 ≤ rspCount (Ev.map v.nextReq c k0.id (v.ds i).nd locs :: v.log) k.id
      rw [rspCount_cons_map]; exact q
  | done i r cyc' hi hr =>
    rcases h k hk with q | q | ⟨j, q⟩ | q
    · exact Or.inl q
    · exact Or.inr (Or.inl q)
    · refine Or.inr (Or.inr (Or.inl ⟨j, ?_⟩))
      by_cases hj : j = i
      · subst hj; rw [V.upd_same]; exact q
      · rw [V.upd_other _ _ _ _ hj]; exact q
    · exact Or.inr (Or.inr (Or.inr q))
  | rsp i k0 hi hk0 hnd hnc hfl hr =>
    rcases h k hk with q | q | ⟨j, q⟩ | q
    · exact Or.inl q
    · exact Or.inr (Or.inl q)
    · by_cases hj : j = i
      · subst hj
        rw [hk0] at q; injection q with q; subst q
        refine Or.inr (Or.inr (Or.inr ?_))
        show 1 ≤ rspCount (Ev.rsp k0.id :: v.log) k0.id
        rw [rspCount_cons_rsp, if_pos rfl]; omega
      · refine Or.inr (Or.inr (Or.inl ⟨j, ?_⟩))
        rw [V.upd_other _ _ _ _ hj]; exact q
    · refine Or.inr (Or.inr (Or.inr ?_))
      show 1 ≤ rspCount (Ev.rsp k0.id :: v.log) k.id
      rw [rspCount_cons_rsp]; omega
  | start i k0 rest cyc' hi hd hk0 =>
    rcases h k hk with q | q | ⟨j, q⟩ | q
    · exact Or.inl q
    · rw [hd] at q
      rcases List.mem_cons.1 q with e | e
      · subst e
        refine Or.inr (Or.inr (Or.inl ⟨i, ?_⟩))
        rw [V.upd_same]
      · exact Or.inr (Or.inl e)
    · have hj : j ≠ i := by intro e; subst e; rw [hk0] at q; cases q
      refine Or.inr (Or.inr (Or.inl ⟨j, ?_⟩))
      rw [V.upd_other _ _ _ _ hj]; exact q
    · exact Or.inr (Or.inr (Or.inr q))

theorem WL_steps {A : List Kern} {p : List Nat} {b : Bool} {v v' : V} (s : Steps b v v') :
    WL A p v → WL A p v' := by
  induction s with
  | refl v => exact id
  | cons s _ ih => exact fun h => ih (WL_step h s)

theorem run_WL {A : List Kern} (hA : (A.map (·.id)).Nodup) : ∀ (ops : List Op) (cp : CP), DCI cp →
    (∀ k, Op.launch k ∈ ops → k ∈ A) → WL A (launchIds ops) cp.view → WL A [] (run cp ops).view := by
  intro ops
  induction ops with
  | nil => intro cp _ _ h; exact h
  | cons op ops ih =>
    intro cp hdc hin h
    have hin' : ∀ k, Op.launch k ∈ ops → k ∈ A := fun k hk => hin k (List.mem_cons_of_mem _ hk)
    show WL A [] (run (step cp op) ops).view
    cases op with
    | tick => exact ih _ (step_DCI cp .tick hdc) hin' (WL_steps (cpTick_steps cp hdc) h)
    | launch k0 =>
      refine ih _ (step_DCI cp _ hdc) hin' ?_
      intro k hk
      rcases h k hk with q | q | q | q
      · have q : k.id ∈ k0.id :: launchIds ops := q
        rcases List.mem_cons.1 q with e | e
        · have : k = k0 := inj_of_nodup_map (·.id) A hA k hk k0 (hin k0 List.mem_cons_self) e
          subst this
          exact Or.inr (Or.inl (List.mem_append_right _ List.mem_cons_self))
        · exact Or.inl e
      · exact Or.inr (Or.inl (List.mem_append_left _ q))
      · exact Or.inr (Or.inr (Or.inl q))
      · exact Or.inr (Or.inr (Or.inr q))
    | complete ids => exact ih _ (step_DCI cp _ hdc) hin' h
    | cuRoom n => exact ih _ (step_DCI cp _ hdc) hin' h
    | drvRoom n => exact ih _ (step_DCI cp _ hdc) hin' h

theorem mkCP_WL (A : List Kern) (ops : List Op) (cfg : Cfg) (nd : Nat) (pool : List CU)
    (h : ∀ k ∈ A, Op.launch k ∈ ops) : WL A (launchIds ops) (mkCP cfg nd pool).view := by
  intro k hk
  left
  simp only [launchIds, List.mem_filterMap]
  exact ⟨_, h k hk, rfl⟩

/-- when everything delivered has been answered, every launch of the run has its response -/
theorem all_answered_rsp (cfg : Cfg) (nd : Nat) (pool : List CU) (ops : List Op)
    (hids : (launchIds ops).Nodup) (hall : AllAnswered (run (mkCP cfg nd pool) ops))
    (k : Kern) (hk : Op.launch k ∈ ops) : rspCount (run (mkCP cfg nd pool) ops).log k.id = 1 := by
  have hA : ((launchKerns ops).map (·.id)).Nodup := by rw [← launchIds_eq]; exact hids
  have hw := run_WL hA ops _ (mkCP_DCI cfg nd pool) (fun k' hk' => (mem_launchKerns ops k').2 hk')
    (mkCP_WL _ ops cfg nd pool (fun k' hk' => (mem_launchKerns ops k').1 hk'))
  have h1 := rsp_at_most_once cfg nd pool ops hids k.id
  rcases hw k ((mem_launchKerns ops k).2 hk) with q | q | ⟨i, q⟩ | q
  · cases q
  · have q : k ∈ (run (mkCP cfg nd pool) ops).drvIn := q
    rw [hall.1] at q; cases q
  · have q : ((run (mkCP cfg nd pool) ops).disp i).kern = some k := q
    rw [hall.2 i] at q; cases q
  · have q : 1 ≤ rspCount (run (mkCP cfg nd pool) ops).log k.id := q
    omega

/-! ## streams -/

/-- the first `n` moves of an infinite schedule -/
def prefixOf (sched : Nat → Op) (n : Nat) : List Op := (List.range n).map sched

theorem run_append (cp : CP) (a b : List Op) : run cp (a ++ b) = run (run cp a) b := by
  simp [run, List.foldl_append]

theorem prefixOf_succ (sched : Nat → Op) (n : Nat) : prefixOf sched (n + 1) = prefixOf sched n ++ [sched n] := by
  simp [prefixOf, List.range_succ]

theorem run_prefix_succ (cp : CP) (ops0 : List Op) (sched : Nat → Op) (n : Nat) :
    run cp (ops0 ++ prefixOf sched (n + 1)) = step (run cp (ops0 ++ prefixOf sched n)) (sched n) := by
  rw [prefixOf_succ, ← List.append_assoc, run_append _ (ops0 ++ prefixOf sched n)]
  rfl

theorem launchIds_prefix (ops0 : List Op) (sched : Nat → Op) (hnl : ∀ n k, sched n ≠ .launch k) (n : Nat) :
    launchIds (ops0 ++ prefixOf sched n) = launchIds ops0 := by
  have : launchIds (prefixOf sched n) = [] := by
    simp only [launchIds, List.filterMap_eq_nil_iff, prefixOf, List.mem_map]
    rintro o ⟨m, _, rfl⟩
    cases hs : sched m with
    | launch k => exact absurd hs (hnl m k)
    | _ => rfl
  simp only [launchIds, List.filterMap_append] at this ⊢
  rw [this, List.append_nil]

theorem Steps_n {b : Bool} {v v' : V} (s : Steps b v v') : v'.n = v.n := by
  induction s with
  | refl v => rfl
  | cons st _ ih => rw [ih]; cases st <;> rfl

theorem step_len (cp : CP) (hdc : DCI cp) (op : Op) : (step cp op).disps.length = cp.disps.length := by
  cases op with
  | tick => exact Steps_n (cpTick_steps cp hdc)
  | _ => rfl

/-- a property of the default dispatcher and of every listed dispatcher holds at every index -/
theorem disp_forall (cp : CP) (P : Disp → Prop) (hd : P default) (h : ∀ d ∈ cp.disps, P d) (j : Nat) :
    P (cp.disp j) := by
  by_cases hj : j < cp.disps.length
  · have : cp.disp j = cp.disps[j] := by simp [CP.disp, List.getD_eq_getElem?_getD, hj]
    rw [this]; exact h _ (List.getElem_mem hj)
  · rw [disp_oob cp j hj]; exact hd

theorem run_len : ∀ (ops : List Op) (cp : CP), DCI cp → (run cp ops).disps.length = cp.disps.length := by
  intro ops
  induction ops with
  | nil => intro cp _; rfl
  | cons op ops ih =>
    intro cp hd
    show (run (step cp op) ops).disps.length = _
    rw [ih _ (step_DCI cp op hd), step_len cp hd]

theorem fair_len (cfg : Cfg) (nd : Nat) (pool : List CU) (ops : List Op) :
    (run (mkCP cfg nd pool) ops).disps.length = nd := by
  rw [run_len _ _ (mkCP_DCI cfg nd pool)]
  simp [mkCP]

/-- a sequence that never increases in a well-founded order is eventually constant in that order -/
theorem eventually_stable (μ : Nat → Nat × Nat × Nat)
    (hle : ∀ n, μ (n + 1) = μ n ∨ lt3 (μ (n + 1)) (μ n)) :
    ∃ N, ∀ n, N ≤ n → ¬ lt3 (μ (n + 1)) (μ n) := by
  have mono : ∀ n1 d, μ (n1 + d) = μ n1 ∨ lt3 (μ (n1 + d)) (μ n1) := by
    intro n1 d
    induction d with
    | zero => exact Or.inl rfl
    | succ d ih =>
      rcases hle (n1 + d) with e | e <;> rcases ih with f | f
      · left; rw [← Nat.add_assoc, e, f]
      · right; rw [← Nat.add_assoc, e]; exact f
      · right; rw [← Nat.add_assoc]; rw [f] at e; exact e
      · right; rw [← Nat.add_assoc]; exact lt3_trans e f
  suffices hs : ∀ m : Nat × Nat × Nat, ∀ n1, μ n1 = m → ∃ N, ∀ n, N ≤ n → ¬ lt3 (μ (n + 1)) (μ n) from
    hs (μ 0) 0 rfl
  intro m
  induction m using lt3_wf.induction with
  | _ m ih =>
    intro n1 hm
    by_cases hex : ∃ n, n1 ≤ n ∧ lt3 (μ (n + 1)) (μ n)
    · obtain ⟨n, hn, hlt⟩ := hex
      have hmn : μ n = m ∨ lt3 (μ n) m := by
        have := mono n1 (n - n1)
        rw [show n1 + (n - n1) = n by omega, hm] at this
        exact this
      have hlt' : lt3 (μ (n + 1)) m := by
        rcases hmn with e | e
        · rw [← e]; exact hlt
        · exact lt3_trans hlt e
      exact ih _ hlt' (n + 1) rfl
    · refine ⟨n1, fun n hn hlt => hex ⟨n, hn, hlt⟩⟩

/-- **liveness under a fair environment** (see the module header) -/
theorem fair_run_answers (cfg : Cfg) (nd : Nat) (pool : List CU) (ops0 : List Op) (sched : Nat → Op)
    (hnd : 0 < nd) (hnl : ∀ n k, sched n ≠ .launch k)
    (hfault : ∀ n, (run (mkCP cfg nd pool) (ops0 ++ prefixOf sched n)).fault = none)
    (hfair : ∀ n, ∃ m, n ≤ m ∧ sched m = .tick ∧ EnvReady (run (mkCP cfg nd pool) (ops0 ++ prefixOf sched m))) :
    ∃ N, AllAnswered (run (mkCP cfg nd pool) (ops0 ++ prefixOf sched N)) ∨
         RefusedIdle (run (mkCP cfg nd pool) (ops0 ++ prefixOf sched N)) := by
  let st : Nat → CP := fun n => run (mkCP cfg nd pool) (ops0 ++ prefixOf sched n)
  have hst : ∀ n, st (n + 1) = step (st n) (sched n) := fun n => run_prefix_succ _ ops0 sched n
  have hdc : ∀ n, DCI (st n) := fun n => dci_run cfg nd pool _
  have hlen : ∀ n, (st n).disps.length = nd := by
    have h0 : ∀ (ops : List Op) (cp : CP), DCI cp → (run cp ops).disps.length = cp.disps.length := by
      intro ops
      induction ops with
      | nil => intro cp _; rfl
      | cons op ops ih =>
        intro cp hd
        show (run (step cp op) ops).disps.length = _
        rw [ih _ (step_DCI cp op hd), step_len cp hd]
    intro n
    show (run (mkCP cfg nd pool) _).disps.length = nd
    rw [h0 _ _ (mkCP_DCI cfg nd pool)]
    simp [mkCP]
  have hle : ∀ n, (st (n + 1)).view.mu = (st n).view.mu ∨ lt3 (st (n + 1)).view.mu (st n).view.mu := by
    intro n
    rw [hst n]
    cases hs : sched n with
    | tick =>
      show (cpTick (st n)).1.view.mu = _ ∨ lt3 (cpTick (st n)).1.view.mu _
      obtain ⟨m1, m2⟩ := cpTick_mu (st n) (hdc n)
      cases hb : (cpTick (st n)).2 with
      | true => exact Or.inr (m1 hb)
      | false => left; rw [m2 hb]
    | launch k => exact absurd hs (hnl n k)
    | complete ids => exact Or.inl rfl
    | cuRoom x => exact Or.inl rfl
    | drvRoom x => exact Or.inl rfl
  obtain ⟨N, hN⟩ := eventually_stable (fun n => (st n).view.mu) hle
  obtain ⟨m, hm, htick, henv⟩ := hfair N
  refine ⟨m, ?_⟩
  have hnp : (cpTick (st m)).2 = false := by
    cases hb : (cpTick (st m)).2 with
    | false => rfl
    | true =>
      exfalso
      have := (cpTick_mu (st m) (hdc m)).1 hb
      apply hN m hm
      show lt3 (st (m + 1)).view.mu (st m).view.mu
      rw [hst m, htick]; exact this
  have hf : (cpTick (st m)).1.fault = none := by
    have := hfault (m + 1)
    have e : st (m + 1) = (cpTick (st m)).1 := by rw [hst m, htick]; rfl
    rw [← e]; exact this
  exact no_stuck_core (st m) (hdc m) (by rw [hlen m]; exact hnd) hnp hf henv

end C09
