import MgpuProofs.C05Sched
/-! Helper lemmas for the quiescent-call discipline of C05 (`T.runQ`): under the discipline the
    timed hand-off model is deterministic in simulated time.

    `Side` collects the control facts that hold of every state reachable by discipline-respecting
    steps (exactly one signal per round, sent only at rest, so `enginePending` is never set and
    `runAsync` always starts a fresh engine). `pred s` is the completion log PREDICTED from `s`:
    what is logged already, the queued commands stamped with consecutive cycles from `btime s`
    (the cycle at which the head of the queue will be dequeued), and the sequential specification
    of the remaining script started at `etime s` (the engine time at the next rest). Every
    discipline-respecting step preserves `pred` and `fin` (the predicted final engine time). -/
namespace C05
open C12 (APc RPc EPc Th)

namespace Quiet

/-- control-state facts of the discipline-respecting runs -/
structure Side (s : T.St) : Prop where
  pend : s.p.pend = false
  run : s.p.running = true ↔ s.p.e ≠ .none
  eidle : s.p.e ≠ .none → s.p.r = .idle
  nsend : s.p.a ≠ .sending
  sig : s.p.a = .sig → s.p.r = .idle ∧ s.p.e = .none
  tick : s.p.r = .tick → s.p.evt = false
  chk : s.p.r = .chkFlag → s.p.evt = true
  live : s.p.e = .start ∨ s.p.e = .deq ∨ s.p.e = .notify → s.p.evt = true
  dead : s.p.e = .afterRun ∨ s.p.e = .clear → s.p.evt = false
  rest : s.p.r = .idle → s.p.e = .none → s.p.evt = false
  tF : s.p.evt = false → s.next = s.now
  tT : s.p.evt = true → (if s.p.e = .deq ∨ s.p.e = .notify then s.next = s.now else s.next = s.now + 1)
  emp : s.p.evt = false → s.p.r = .idle → s.p.a ≠ .sig → (s.p.a = .idle ∧ s.p.e = .none) ∨ s.p.cmds = []
  done : s.p.a = .idle → s.p.rounds = [] → s.p.cmds = []

theorem side_init (rounds : List Nat) : Side (T.init rounds) := by
  constructor <;> simp [T.init, C12.init]

theorem side_step_app (s s' : T.St) (h : Side s) (hq : T.qAllowed s .app) (hs : T.step s .app = some s') :
    Side s' := by
  obtain ⟨h1, h2, h3, h4, h5, h6, h7, h8, h9, h10, h11, h12, h13, h14⟩ := h
  unfold T.step at hs
  cases hp : C12.step s.p .app with
  | none => simp [hp] at hs
  | some p' =>
    simp only [hp] at hs
    injection hs with hs
    subst hs
    simp only [T.qAllowed, T.quiescent] at hq
    simp only [C12.step] at hp
    split at hp
    · split at hp
      · simp at hp
      · injection hp with hp; subst hp
        constructor <;> simp_all [T.advance]
      · injection hp with hp; subst hp
        constructor <;> simp_all [T.advance]
    · split at hp <;> (injection hp with hp; subst hp; constructor <;> simp_all [T.advance])
    · simp at hp
    · split at hp <;> (injection hp with hp; subst hp; constructor <;> simp_all [T.advance])
    · split at hp <;> (injection hp with hp; subst hp; constructor <;> simp_all [T.advance])
    · simp at hp

theorem side_step_async (s s' : T.St) (h : Side s) (hs : T.step s .async = some s') : Side s' := by
  obtain ⟨h1, h2, h3, h4, h5, h6, h7, h8, h9, h10, h11, h12, h13, h14⟩ := h
  unfold T.step at hs
  cases hp : C12.step s.p .async with
  | none => simp [hp] at hs
  | some p' =>
    simp only [hp] at hs
    injection hs with hs
    subst hs
    simp only [C12.step] at hp
    split at hp
    · simp at hp
    · split at hp
      · simp at hp
      · injection hp with hp; subst hp
        constructor <;> simp_all [T.advance, T.tickLater]
    · by_cases hrun : s.p.running = true <;> by_cases hsend : s.p.a = .sending <;>
        simp only [hrun, hsend, if_true, if_false] at hp <;>
        (injection hp with hp; subst hp; constructor <;> simp_all [T.advance])

theorem side_step_eng (s s' : T.St) (h : Side s) (hs : T.step s .eng = some s') : Side s' := by
  obtain ⟨h1, h2, h3, h4, h5, h6, h7, h8, h9, h10, h11, h12, h13, h14⟩ := h
  unfold T.step at hs
  cases hp : C12.step s.p .eng with
  | none => simp [hp] at hs
  | some p' =>
    simp only [hp] at hs
    injection hs with hs
    subst hs
    simp only [C12.step] at hp
    split at hp
    · simp at hp
    · injection hp with hp; subst hp; constructor <;> simp_all [T.advance]
    · split at hp <;> (injection hp with hp; subst hp; constructor <;> simp_all [T.advance])
    · split at hp <;> (injection hp with hp; subst hp; constructor <;> simp_all [T.advance])
    · split at hp
      · split at hp <;> (injection hp with hp; subst hp; constructor <;> simp_all [T.advance, T.tickLater])
      · injection hp with hp; subst hp; constructor <;> simp_all [T.advance, T.tickLater]
    · injection hp with hp; subst hp; constructor <;> simp_all [T.advance]
    · split at hp <;> (injection hp with hp; subst hp; constructor <;> simp_all [T.advance])

theorem side_step (s s' : T.St) (t : Th) (h : Side s) (hq : T.qAllowed s t) (hs : T.step s t = some s') :
    Side s' := by
  cases t
  · exact side_step_app s s' h hq hs
  · exact side_step_async s s' h hs
  · exact side_step_eng s s' h hs

/-! ## the predicted completion log -/

/-- the queued ids stamped with consecutive cycles starting at `b` -/
def stamp : List Nat → Nat → List (Nat × Nat)
  | [], _ => []
  | c :: cs, b => (c, b) :: stamp cs (b + 1)

theorem stamp_snoc (q : List Nat) (x b : Nat) : stamp (q ++ [x]) b = stamp q b ++ [(x, b + q.length)] := by
  induction q generalizing b with
  | nil => simp [stamp]
  | cons c cs ih => simp [stamp, ih]; omega

theorem specTimes_zero (n id : Nat) (ks : List Nat) : T.specTimes n id (0 :: ks) = T.specTimes (n + 1) id ks := by
  simp [T.specTimes]

theorem specTimes_succ (n id k : Nat) (ks : List Nat) :
    T.specTimes n id ((k + 1) :: ks) = (id, n + 1) :: T.specTimes (n + 1) (id + 1) (k :: ks) := by
  simp only [T.specTimes, List.range_succ_eq_map, List.map_cons, List.map_map, List.cons_append]
  congr 1
  · congr 1
    · apply List.map_congr_left
      intro i _
      simp only [Function.comp]
      congr 1 <;> omega
    · congr 1 <;> omega

/-- the cycle at which the head of the queue will be dequeued -/
def btime (s : T.St) : Nat :=
  match s.p.r with
  | .tick => s.now + 1
  | .chkFlag => s.next
  | .idle => match s.p.e with
    | .none => s.now + 1
    | .start => s.next
    | .loop => s.next
    | .deq => s.now
    | .notify => s.now + 1
    | .afterRun => s.now
    | .clear => s.now

/-- the engine time at the next rest, minus the commands the current round still enqueues -/
def etime (s : T.St) : Nat :=
  if s.p.r = .idle ∧ s.p.e = .none ∧ s.p.a ≠ .sig then s.now + s.p.cmds.length
  else btime s + s.p.cmds.length

/-- the predicted complete log -/
def pred (s : T.St) : List (Nat × Nat) :=
  s.ctimes ++ stamp s.p.cmds (btime s) ++ T.specTimes (etime s) s.p.nextId s.p.rounds

/-- the predicted engine time at the final rest -/
def fin (s : T.St) : Nat := etime s + s.p.rounds.sum + s.p.rounds.length

theorem pred_init (rounds : List Nat) : pred (T.init rounds) = T.specTimes 0 1 rounds := by
  simp [pred, T.init, C12.init, stamp, etime]

theorem fin_init (rounds : List Nat) : fin (T.init rounds) = rounds.sum + rounds.length := by
  simp [fin, T.init, C12.init, etime]

/-- closes `pred s' = pred s ∧ fin s' = fin s` once the step is substituted -/
local macro "qfin" : tactic => `(tactic|
  (constructor <;>
    simp_all [pred, fin, etime, btime, stamp, T.advance, T.tickLater, specTimes_zero, specTimes_succ, stamp_snoc,
      Nat.not_succ_le_self] <;>
    first
      | omega
      | (congr 1 <;> omega)
      | (refine ⟨by omega, ?_⟩; congr 1 <;> omega)))

set_option linter.unusedSimpArgs false in
theorem pred_step_app (s s' : T.St) (h : Side s) (hq : T.qAllowed s .app) (hs : T.step s .app = some s') :
    pred s' = pred s ∧ fin s' = fin s := by
  obtain ⟨h1, h2, h3, h4, h5, h6, h7, h8, h9, h10, h11, h12, h13, h14⟩ := h
  unfold T.step at hs
  cases hp : C12.step s.p .app with
  | none => simp [hp] at hs
  | some p' =>
    simp only [hp] at hs
    injection hs with hs
    subst hs
    simp only [T.qAllowed, T.quiescent] at hq
    simp only [C12.step] at hp
    split at hp
    · split at hp
      · simp at hp
      · injection hp with hp; subst hp
        qfin
      · injection hp with hp; subst hp
        qfin
    · split at hp <;> (injection hp with hp; subst hp; qfin)
    · simp at hp
    · split at hp <;> (injection hp with hp; subst hp; qfin)
    · split at hp <;> (injection hp with hp; subst hp; qfin)
    · simp at hp

set_option linter.unusedSimpArgs false in
theorem pred_step_async (s s' : T.St) (h : Side s) (hs : T.step s .async = some s') :
    pred s' = pred s ∧ fin s' = fin s := by
  obtain ⟨h1, h2, h3, h4, h5, h6, h7, h8, h9, h10, h11, h12, h13, h14⟩ := h
  unfold T.step at hs
  cases hp : C12.step s.p .async with
  | none => simp [hp] at hs
  | some p' =>
    simp only [hp] at hs
    injection hs with hs
    subst hs
    simp only [C12.step] at hp
    split at hp
    · simp at hp
    · split at hp
      · simp at hp
      · injection hp with hp; subst hp
        qfin
    · by_cases hrun : s.p.running = true <;> by_cases hsend : s.p.a = .sending <;>
        simp only [hrun, hsend, if_true, if_false] at hp <;>
        (injection hp with hp; subst hp; qfin)

set_option linter.unusedSimpArgs false in
theorem pred_step_eng (s s' : T.St) (h : Side s) (hs : T.step s .eng = some s') :
    pred s' = pred s ∧ fin s' = fin s := by
  obtain ⟨h1, h2, h3, h4, h5, h6, h7, h8, h9, h10, h11, h12, h13, h14⟩ := h
  unfold T.step at hs
  cases hp : C12.step s.p .eng with
  | none => simp [hp] at hs
  | some p' =>
    simp only [hp] at hs
    injection hs with hs
    subst hs
    simp only [C12.step] at hp
    split at hp
    · simp at hp
    · injection hp with hp; subst hp; qfin
    · split at hp <;> (injection hp with hp; subst hp; qfin)
    · split at hp <;> (injection hp with hp; subst hp; qfin)
    · split at hp
      · split at hp <;> (injection hp with hp; subst hp; qfin)
      · injection hp with hp; subst hp; qfin
    · injection hp with hp; subst hp; qfin
    · split at hp <;> (injection hp with hp; subst hp; qfin)

theorem pred_step (s s' : T.St) (t : Th) (h : Side s) (hq : T.qAllowed s t) (hs : T.step s t = some s') :
    pred s' = pred s ∧ fin s' = fin s := by
  cases t
  · exact pred_step_app s s' h hq hs
  · exact pred_step_async s s' h hs
  · exact pred_step_eng s s' h hs

/-! ## runs under the discipline -/

/-- everything the induction over a discipline-respecting run carries -/
structure QInv (rounds : List Nat) (s : T.St) : Prop where
  side : Side s
  pred : pred s = T.specTimes 0 1 rounds
  fin : fin s = rounds.sum + rounds.length

theorem qinv_init (rounds : List Nat) : QInv rounds (T.init rounds) :=
  ⟨side_init rounds, pred_init rounds, fin_init rounds⟩

theorem qinv_step (rounds : List Nat) (s s' : T.St) (t : Th) (h : QInv rounds s) (hq : T.qAllowed s t)
    (hs : T.step s t = some s') : QInv rounds s' := by
  obtain ⟨h1, h2, h3⟩ := h
  have hp := pred_step s s' t h1 hq hs
  exact ⟨side_step s s' t h1 hq hs, hp.1.trans h2, hp.2.trans h3⟩

theorem qinv_runQ (rounds : List Nat) (ts : List Th) : ∀ {s s' : T.St}, QInv rounds s →
    T.runQ s ts = some s' → QInv rounds s' := by
  induction ts with
  | nil => intro s s' hi h; simp [T.runQ] at h; subst h; exact hi
  | cons t ts ih =>
    intro s s' hi h
    simp only [T.runQ] at h
    by_cases hq : T.qAllowed s t
    · simp only [hq, if_true] at h
      cases hs : T.step s t with
      | none => simp [hs] at h
      | some s1 =>
        simp only [hs] at h
        exact ih (qinv_step rounds s s1 t hi hq hs) h
    · simp [hq] at h

/-- at the end of the script the prediction is the log -/
theorem pred_finished (s : T.St) (h : Side s) (hf : C12.finished s.p) : pred s = s.ctimes := by
  obtain ⟨ha, hr⟩ := hf
  have hc := h.done ha hr
  simp [pred, hc, hr, stamp, T.specTimes]

theorem fin_rest (s : T.St) (h : Side s) (hf : C12.finished s.p) (hq : T.quiescent s) : fin s = s.now := by
  obtain ⟨ha, hr⟩ := hf
  obtain ⟨hq1, hq2⟩ := hq
  have hc := h.done ha hr
  simp [fin, etime, hc, hr, ha, hq1, hq2]

end Quiet
end C05
