import MgpuProofs.Props.C07Deep
set_option linter.unusedVariables false
/-! # C07, second deepening: definitions shared by the proofs about the register writes that bypass
the operand methods (`MgpuModel/C07_Disp.lean`): wavefront dispatch in both modes, the compute unit's
life cycle (dispatch / access / retire), the clean-window invariant.

Nothing here is executable model: these are the proof-side vocabulary (`initOps`, `AbiFits`,
`freshMap`, `Clean`, `retire`, `CUOp`, `cuRun`). -/
namespace C07
open Gen

/-- the register writes of `initRegisters` / `initWfRegs`, as operand accesses in code order -/
def initOps (d : DispInfo) : List Op :=
  (sgprInits d).map (fun x => Op.wb ⟨.s x.1, x.2.1, 0⟩ (toLE (4 * x.2.1) x.2.2)) ++
  (List.range 64).flatMap fun lane => (laneInits d lane).map fun x => Op.wb ⟨.v x.1, 1, lane⟩ (toLE 4 x.2)

/-- the ABI registers a dispatch initialises lie inside the register counts the code object declares -/
def AbiFits (d : DispInfo) (ns nv : Nat) : Prop :=
  (∀ x ∈ sgprInits d, x.1 + x.2.1 ≤ ns) ∧ (∀ lane, lane < 64 → ∀ x ∈ laneInits d lane, x.1 + 1 ≤ nv)

/-- **the state of a new wavefront as a function of its dispatch alone**: a cell holds what the last
    initialising write put there, EXEC holds `InitExecMask`, everything else is 0 -/
def freshMap (d : DispInfo) : CMap := fun id =>
  (lastWrite 0 id ((initOps d).map fun o => (0, o))).getD
    (match id with
     | .execLo => lo32 d.exec
     | .execHi => hi32 d.exec
     | _ => 0)

/-- every byte of the register files that no resident wavefront owns is zero -/
def Clean (t : TimingRF) : Prop :=
  (∀ p, (∀ i, i < t.wfs.size → ¬ ownS (t.wf i) p) → get t.sfile p = 0) ∧
  (∀ k p, (∀ i, i < t.wfs.size → ¬ ((t.wf i).simd = k ∧ ownV (t.wf i) p)) → get (t.vfiles.getD k #[]) p = 0)

/-- a wavefront ends: `resetRegisterValue`, after which it owns nothing (ghost: its record stays in the
    list with empty windows, so that indices of the others do not move) -/
def TimingRF.retire (t : TimingRF) (wi : Nat) : TimingRF :=
  (t.release wi).1.setWf wi { (t.release wi).1.wf wi with ns := 0, nv := 0 }

/-- what happens to the register files of one compute unit over time -/
inductive CUOp where
  | map (ns nv simd soff voff : Nat) (d : DispInfo)  -- `wrapWG`'s new record + `DispatchWf` at the given location
  | acc (wi : Nat) (o : Op)                          -- an operand access of a resident wavefront
  | retire (wi : Nat)                                -- the wavefront ends

def TimingRF.cuStep (t : TimingRF) : CUOp → TimingRF
  | .map ns nv simd soff voff d => ((t.newWf ns nv).dispatchWf t.wfs.size simd soff voff d).1
  | .acc wi o => (t.step wi o).1
  | .retire wi => t.retire wi

/-- side conditions of a step: the location of a new wavefront lies inside the files and shares no
    byte with a resident wavefront (what the allocator guarantees: `allocator_windows_disjoint`), its
    ABI registers fit its register counts; accesses are supported accesses of existing wavefronts -/
def CUOp.Ok (t : TimingRF) : CUOp → Prop
  | .map ns nv simd soff voff d =>
    soff + 4 * ns ≤ t.sfile.size ∧ ns ≤ 102 ∧ simd < t.vfiles.size ∧ 65536 ≤ (t.vfiles.getD simd #[]).size ∧
    voff + 4 * nv ≤ 1024 ∧
    (∀ i, i < t.wfs.size → WindowsDisjoint (t.wf i) { simd := simd, soff := soff, voff := voff, ns := ns, nv := nv }) ∧
    AbiFits d ns nv
  | .acc wi o => wi < t.wfs.size ∧ o.Ok (t.wf wi).ns (t.wf wi).nv
  | .retire wi => wi < t.wfs.size

def TimingRF.cuRun (t : TimingRF) : List CUOp → TimingRF
  | [] => t
  | o :: ops => TimingRF.cuRun (t.cuStep o) ops

/-- every step's side condition holds in the state in which the step runs -/
def CUOkAll (t : TimingRF) : List CUOp → Prop
  | [] => True
  | o :: ops => o.Ok t ∧ CUOkAll (t.cuStep o) ops

/-- a compute unit nothing was dispatched to yet: zeroed register files of the shipped sizes -/
def blankCU : TimingRF :=
  { sfile := Array.replicate 12800 0, vfiles := Array.replicate 4 (Array.replicate 65536 0), wfs := #[] }

end C07
