import MgpuModel.C01_Kernels
import MgpuProofs.C01Emu
import MgpuProofs.C01Step
import MgpuProofs.C01Insts
import MgpuProofs.C01Insts2
import MgpuProofs.C01ReluDefs
/-! # C01 — `ReLUForward`, instruction by instruction: decoding and execution facts

(listing in `C01ReluDefs.lean`) -/
set_option linter.unusedSimpArgs false
set_option maxRecDepth 100000
namespace C01
namespace Emu
namespace Relu
open C03V

/-- the instruction window at byte offset `k` -/
abbrev win (k : Nat) : List Nat := (P.code.drop k).take 8

/-! ## decoding (the C04 decoder evaluated by the kernel) -/
theorem dec0 : DecV (win 0) 5 0 8 := DecV_of_ok (by decide +kernel)
theorem dec8 : DecV (win 8) 5 0 8 := DecV_of_ok (by decide +kernel)
theorem dec16 : DecV (win 16) 5 1 8 := DecV_of_ok (by decide +kernel)
theorem dec24 : DecS (win 24) 4 12 4 ⟨4, 12, 0, 0, 0, 0x7f, 0⟩ := DecS_of_ok (by decide +kernel)
theorem dec28 : DecS (win 28) 0 12 8 ⟨0, 12, 1, 2, 255, 0, 0xffff⟩ := by
  have h := DecS_sop2 (win 28) ⟨0, "sop2", 0x80000000, 0xC0000000, 4, 23, 29⟩
    ⟨"s_and_b32", 12, 0, 1, 32, 32, 32, 0, 0⟩ (.reg 2 (Gen.R_S0 + 2) 0) (.lit 255 0) (.reg 1 (Gen.R_S0 + 1) 0)
    (by decide) (by decide +kernel) rfl rfl (by decide +kernel) (by decide +kernel) (by decide +kernel) (by decide +kernel)
  exact h
theorem dec36 : DecS (win 36) 0 36 4 ⟨0, 36, 8, 8, 1, 0, 0⟩ := by
  have h := DecS_sop2 (win 36) ⟨0, "sop2", 0x80000000, 0xC0000000, 4, 23, 29⟩
    ⟨"s_mul_i32", 36, 0, 1, 32, 32, 32, 0, 0⟩ (.reg 8 (Gen.R_S0 + 8) 0) (.reg 1 (Gen.R_S0 + 1) 0) (.reg 8 (Gen.R_S0 + 8) 0)
    (by decide) (by decide +kernel) rfl rfl (by decide +kernel) (by decide +kernel) (by decide +kernel) (by decide +kernel)
  exact h
theorem dec40 : DecV (win 40) 6 25 4 := DecV_of_ok (by decide +kernel)
theorem dec44 : DecV (win 44) 6 25 4 := DecV_of_ok (by decide +kernel)
theorem dec48 : DecV (win 48) 10 196 4 := DecV_of_ok (by decide +kernel)
theorem dec52 : DecS (win 52) 2 32 4 ⟨2, 32, 0, 106, 0, 0, 0⟩ := DecS_of_ok (by decide +kernel)
theorem dec56 : DecS (win 56) 4 8 4 ⟨4, 8, 0, 0, 0, 19, 0⟩ := DecS_of_ok (by decide +kernel)
theorem dec60 : DecV (win 60) 5 2 8 := DecV_of_ok (by decide +kernel)
theorem dec68 : DecV (win 68) 7 1 4 := DecV_of_ok (by decide +kernel)
theorem dec72 : DecV (win 72) 8 657 8 := DecV_of_ok (by decide +kernel)
theorem dec80 : DecS (win 80) 4 12 4 ⟨4, 12, 0, 0, 0, 0x7f, 0⟩ := DecS_of_ok (by decide +kernel)
theorem dec84 : DecV (win 84) 7 1 4 := DecV_of_ok (by decide +kernel)
theorem dec88 : DecV (win 88) 6 25 4 := DecV_of_ok (by decide +kernel)
theorem dec92 : DecV (win 92) 6 28 4 := DecV_of_ok (by decide +kernel)
theorem dec96 : DecV (win 96) 17 20 8 := DecV_of_ok (by decide +kernel)
theorem dec104 : DecV (win 104) 7 1 4 := DecV_of_ok (by decide +kernel)
theorem dec108 : DecV (win 108) 6 25 4 := DecV_of_ok (by decide +kernel)
theorem dec112 : DecV (win 112) 6 28 4 := DecV_of_ok (by decide +kernel)
theorem dec116 : DecS (win 116) 4 12 4 ⟨4, 12, 0, 0, 0, 0x70, 0⟩ := DecS_of_ok (by decide +kernel)
theorem dec120 : DecV (win 120) 6 5 4 := DecV_of_ok (by decide +kernel)
theorem dec124 : DecV (win 124) 6 11 4 := DecV_of_ok (by decide +kernel)
theorem dec128 : DecV (win 128) 17 28 8 := DecV_of_ok (by decide +kernel)
theorem dec136 : DecV (win 136) 4 1 4 := DecV_of_ok (by decide +kernel)

/-! ## execution (the C03V specification applied to the instruction bytes) -/
theorem ex0 (st : St) : exec false st [0x82, 0x0, 0x2, 0xc0, 0x4, 0x0, 0x0, 0x0] =
    some ("s_load_dword", (List.range 1).flatMap fun i => wrS32 st (2 + i) (st.memRead (sAddr st 4 4 + 4 * i) 4)) := rfl
theorem ex8 (st : St) : exec false st [0xc3, 0x0, 0x2, 0xc0, 0x0, 0x0, 0x0, 0x0] =
    some ("s_load_dword", (List.range 1).flatMap fun i => wrS32 st (3 + i) (st.memRead (sAddr st 6 0 + 4 * i) 4)) := rfl
theorem ex16 (st : St) : exec false st [0x3, 0x0, 0x6, 0xc0, 0x18, 0x0, 0x0, 0x0] =
    some ("s_load_dwordx2", (List.range 2).flatMap fun i => wrS32 st (0 + i) (st.memRead (sAddr st 6 24 + 4 * i) 4)) := rfl
theorem ex60 (st : St) : exec false st [0x3, 0x0, 0xa, 0xc0, 0x8, 0x0, 0x0, 0x0] =
    some ("s_load_dwordx4", (List.range 4).flatMap fun i => wrS32 st (0 + i) (st.memRead (sAddr st 6 8 + 4 * i) 4)) := rfl
theorem ex40 (st : St) : exec false st [0x8, 0x0, 0x0, 0x32] = some ("v_add_co_u32", execVALU st (eAdd 8 0 0)) := rfl
theorem ex44 (st : St) : exec false st [0x0, 0x0, 0x2, 0x32] = some ("v_add_co_u32", execVALU st (eAdd 0 0 1)) := rfl
theorem ex88 (st : St) : exec false st [0x0, 0x0, 0x4, 0x32] = some ("v_add_co_u32", execVALU st (eAdd 0 0 2)) := rfl
theorem ex108 (st : St) : exec false st [0x2, 0x0, 0x0, 0x32] = some ("v_add_co_u32", execVALU st (eAdd 2 0 0)) := rfl
theorem ex92 (st : St) : exec false st [0x3, 0x3, 0x6, 0x38] = some ("v_addc_co_u32", execVALU st (eAddc 3 1 3)) := rfl
theorem ex112 (st : St) : exec false st [0x4, 0x3, 0x2, 0x38] = some ("v_addc_co_u32", execVALU st (eAddc 4 1 1)) := rfl
theorem ex68 (st : St) : exec false st [0x80, 0x2, 0x0, 0x7e] = some ("v_mov_b32", execVALU st (eMov 128 0)) := rfl
theorem ex84 (st : St) : exec false st [0x1, 0x2, 0x6, 0x7e] = some ("v_mov_b32", execVALU st (eMov 1 3)) := rfl
theorem ex104 (st : St) : exec false st [0x3, 0x2, 0x8, 0x7e] = some ("v_mov_b32", execVALU st (eMov 3 4)) := rfl

def eCmp : VEnc := { op := (vopcTable 196).getD (un32 "" id), src0 := 3, src1 := 256 + 1, vdst := 0, lit := 0 }
theorem ex48 (st : St) : exec false st [0x3, 0x2, 0x88, 0x7d] = some ("v_cmp_gt_i32", execVALU st eCmp) := rfl

def eAshr : VEnc := { op := (vop3Table false 657).getD (un32 "" id), src0 := 128 + 30, src1 := 256 + 0, src2 := 0, vdst := 0 }
theorem ex72 (st : St) : exec false st [0x0, 0x0, 0x91, 0xd2, 0x9e, 0x0, 0x2, 0x0] = some ("v_ashrrev_i64", execVALU st eAshr) := rfl

theorem ex120 (st : St) : exec false st [0xf2, 0x4, 0x4, 0xa] = some ("v_mul_f32", execVALU st eMul1) := rfl
theorem ex124 (st : St) : exec false st [0x80, 0x4, 0x4, 0x16] = some ("v_max_f32", execVALU st eMax0) := rfl

theorem ex96 (st : St) : exec false st [0x0, 0x0, 0x50, 0xdc, 0x2, 0x0, 0x0, 0x2] =
    some ("load_dword", (activeLanes st).flatMap fun l => wrVN 2 l 1 (st.memRead (gAddr st 2 l) 4)) := rfl
theorem ex128 (st : St) : exec false st [0x0, 0x0, 0x70, 0xdc, 0x0, 0x2, 0x0, 0x0] =
    some ("store_dword", (activeLanes st).flatMap fun l => wrMemBytes (gAddr st 0 l) 4 (st.rvN 2 l 1)) := rfl

theorem wn0 : (win 0).take 8 = [0x82, 0x0, 0x2, 0xc0, 0x4, 0x0, 0x0, 0x0] := by decide
theorem wn8 : (win 8).take 8 = [0xc3, 0x0, 0x2, 0xc0, 0x0, 0x0, 0x0, 0x0] := by decide
theorem wn16 : (win 16).take 8 = [0x3, 0x0, 0x6, 0xc0, 0x18, 0x0, 0x0, 0x0] := by decide
theorem wn60 : (win 60).take 8 = [0x3, 0x0, 0xa, 0xc0, 0x8, 0x0, 0x0, 0x0] := by decide
theorem wn40 : (win 40).take 4 = [0x8, 0x0, 0x0, 0x32] := by decide
theorem wn44 : (win 44).take 4 = [0x0, 0x0, 0x2, 0x32] := by decide
theorem wn88 : (win 88).take 4 = [0x0, 0x0, 0x4, 0x32] := by decide
theorem wn108 : (win 108).take 4 = [0x2, 0x0, 0x0, 0x32] := by decide
theorem wn92 : (win 92).take 4 = [0x3, 0x3, 0x6, 0x38] := by decide
theorem wn112 : (win 112).take 4 = [0x4, 0x3, 0x2, 0x38] := by decide
theorem wn68 : (win 68).take 4 = [0x80, 0x2, 0x0, 0x7e] := by decide
theorem wn84 : (win 84).take 4 = [0x1, 0x2, 0x6, 0x7e] := by decide
theorem wn104 : (win 104).take 4 = [0x3, 0x2, 0x8, 0x7e] := by decide
theorem wn48 : (win 48).take 4 = [0x3, 0x2, 0x88, 0x7d] := by decide
theorem wn72 : (win 72).take 8 = [0x0, 0x0, 0x91, 0xd2, 0x9e, 0x0, 0x2, 0x0] := by decide
theorem wn120 : (win 120).take 4 = [0xf2, 0x4, 0x4, 0xa] := by decide
theorem wn124 : (win 124).take 4 = [0x80, 0x4, 0x4, 0x16] := by decide
theorem wn96 : (win 96).take 8 = [0x0, 0x0, 0x50, 0xdc, 0x2, 0x0, 0x0, 0x2] := by decide
theorem wn128 : (win 128).take 8 = [0x0, 0x0, 0x70, 0xdc, 0x0, 0x2, 0x0, 0x0] := by decide

end Relu
end Emu
end C01
