import MgpuModel.C11
/-! Helper lemmas: dirty flags are monotone along any driver history. -/
namespace C11

/-- `b` is recorded (same range) and dirty in the list -/
def DirtyIn (bufs : List Buf) (s z : Nat) : Prop := ∃ b ∈ bufs, b.start = s ∧ b.size = z ∧ b.dirty = true

theorem fstep_keeps_dirty (bufs : List Buf) (op : FOp) (s z : Nat) (h : DirtyIn bufs s z) :
    DirtyIn (fstep bufs op).1 s z := by
  obtain ⟨b, hb, h1, h2, h3⟩ := h
  cases op with
  | alloc s' z' => exact ⟨b, by simp [fstep, hb], h1, h2, h3⟩
  | launch =>
    refine ⟨{ b with dirty := true }, ?_, h1, h2, rfl⟩
    simp only [fstep, List.mem_map]
    exact ⟨b, hb, rfl⟩
  | complete => exact ⟨b, hb, h1, h2, h3⟩
  | copy a l => exact ⟨b, hb, h1, h2, h3⟩

theorem launch_makes_dirty (bufs : List Buf) (s z : Nat) (h : ∃ b ∈ bufs, b.start = s ∧ b.size = z) :
    DirtyIn (fstep bufs .launch).1 s z := by
  obtain ⟨b, hb, h1, h2⟩ := h
  refine ⟨{ b with dirty := true }, ?_, h1, h2, rfl⟩
  simp only [fstep, List.mem_map]
  exact ⟨b, hb, rfl⟩

theorem frun_bufs (bufs : List Buf) (ops : List FOp) :
    (frun bufs ops).1 = ops.foldl (fun b op => (fstep b op).1) bufs := by
  induction ops generalizing bufs with
  | nil => rfl
  | cons op rest ih => simp only [frun, List.foldl]; exact ih _

theorem foldl_keeps_dirty (bufs : List Buf) (ops : List FOp) (s z : Nat) (h : DirtyIn bufs s z) :
    DirtyIn (ops.foldl (fun b op => (fstep b op).1) bufs) s z := by
  induction ops generalizing bufs with
  | nil => exact h
  | cons op rest ih => exact ih _ (fstep_keeps_dirty bufs op s z h)

theorem needFlushing_of_dirty_contained (bufs : List Buf) (s z a l : Nat) (h : DirtyIn bufs s z)
    (hl : 0 < l) (hs : s ≤ a) (he : a + l ≤ s + z) : needFlushing bufs a l = true := by
  obtain ⟨b, hb, h1, h2, h3⟩ := h
  simp only [needFlushing, List.any_eq_true, Bool.and_eq_true]
  refine ⟨b, hb, ?_, h3⟩
  rw [h1, h2]
  simp only [memRangeOverlap, Bool.or_eq_true, Bool.and_eq_true, decide_eq_true_eq]
  left; omega

end C11
