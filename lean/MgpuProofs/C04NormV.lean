import MgpuProofs.C04Norm
/-! `norm_X` / `desc_X` for vop1, vopc, vop2 -/
namespace C04
open Gen
set_option linter.unusedSimpArgs false
set_option linter.unusedVariables false

theorem norm_vop1 (c : Bool) (f : Format) (row : Row) (w0 : Nat) (w1? : Option Nat)
    (hf : f.ft = FT_VOP1) (hsz : f.size = 4) (hw0 : w0 < 2 ^ 32) (hw1 : ∀ w1, w1? = some w1 → w1 < 2 ^ 32) :
    decodeRow c f row (normRow c f.ft row w0 w1?).1 (normRow c f.ft row w0 w1?).2 = decodeRow c f row w0 w1? := by
  sorry

theorem desc_vop1 (c : Bool) (f : Format) (row : Row) (w0 : Nat) (w1? : Option Nat) (i : Inst)
    (hf : f.ft = FT_VOP1) (hsz : f.size = 4) (hw0 : w0 < 2 ^ 32) (hw1 : ∀ w1, w1? = some w1 → w1 < 2 ^ 32)
    (henc : w0 / 2 ^ 25 = 63) (hop : extractBits w0 9 16 = row.opcode)
    (h : decodeRow c f row w0 w1? = .ok i) :
    encWord (descOf c i) = (normRow c f.ft row w0 w1?).1 ∧ encSecond (descOf c i) = (normRow c f.ft row w0 w1?).2 := by
  sorry

theorem norm_vopc (c : Bool) (f : Format) (row : Row) (w0 : Nat) (w1? : Option Nat)
    (hf : f.ft = FT_VOPC) (hsz : f.size = 4) (hw0 : w0 < 2 ^ 32) (hw1 : ∀ w1, w1? = some w1 → w1 < 2 ^ 32) :
    decodeRow c f row (normRow c f.ft row w0 w1?).1 (normRow c f.ft row w0 w1?).2 = decodeRow c f row w0 w1? := by
  sorry

theorem desc_vopc (c : Bool) (f : Format) (row : Row) (w0 : Nat) (w1? : Option Nat) (i : Inst)
    (hf : f.ft = FT_VOPC) (hsz : f.size = 4) (hw0 : w0 < 2 ^ 32) (hw1 : ∀ w1, w1? = some w1 → w1 < 2 ^ 32)
    (henc : w0 / 2 ^ 25 = 62) (hop : extractBits w0 17 24 = row.opcode)
    (h : decodeRow c f row w0 w1? = .ok i) :
    encWord (descOf c i) = (normRow c f.ft row w0 w1?).1 ∧ encSecond (descOf c i) = (normRow c f.ft row w0 w1?).2 := by
  sorry

theorem norm_vop2 (c : Bool) (f : Format) (row : Row) (w0 : Nat) (w1? : Option Nat)
    (hf : f.ft = FT_VOP2) (hsz : f.size = 4) (hw0 : w0 < 2 ^ 32) (hw1 : ∀ w1, w1? = some w1 → w1 < 2 ^ 32) :
    decodeRow c f row (normRow c f.ft row w0 w1?).1 (normRow c f.ft row w0 w1?).2 = decodeRow c f row w0 w1? := by
  sorry

theorem desc_vop2 (c : Bool) (f : Format) (row : Row) (w0 : Nat) (w1? : Option Nat) (i : Inst)
    (hf : f.ft = FT_VOP2) (hsz : f.size = 4) (hw0 : w0 < 2 ^ 32) (hw1 : ∀ w1, w1? = some w1 → w1 < 2 ^ 32)
    (henc : w0 / 2 ^ 31 = 0) (hop : extractBits w0 25 30 = row.opcode)
    (h30 : extractBits w0 0 8 = 249 → ∀ w1, w1? = some w1 → extractBits w1 30 30 = 0)
    (h : decodeRow c f row w0 w1? = .ok i) :
    encWord (descOf c i) = (normRow c f.ft row w0 w1?).1 ∧ encSecond (descOf c i) = (normRow c f.ft row w0 w1?).2 := by
  sorry

end C04
