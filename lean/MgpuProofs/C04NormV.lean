import MgpuProofs.C04Norm
/-! `norm_X` / `desc_X` for vop1, vopc, vop2 -/
namespace C04
open Gen
set_option linter.unusedSimpArgs false
set_option linter.unusedVariables false

theorem nv_normRow_vop1 (c : Bool) (row : Row) (w0 : Nat) (w1? : Option Nat) :
    normRow c FT_VOP1 row w0 w1? = (w0, if extractBits w0 0 8 == 255 then w1? else none) := by
  simp [normRow, usesSecond4, FT_SOP2, FT_SOPK, FT_SOP1, FT_SOPC, FT_SOPP, FT_SMEM, FT_VOP2, FT_VOP1, FT_VOPC, FT_VOP3a, FT_VOP3b, FT_FLAT, FT_DS]

theorem nv_normRow_vopc (c : Bool) (row : Row) (w0 : Nat) (w1? : Option Nat) :
    normRow c FT_VOPC row w0 w1? = (w0, if extractBits w0 0 8 == 255 then w1? else none) := by
  simp [normRow, usesSecond4, FT_SOP2, FT_SOPK, FT_SOP1, FT_SOPC, FT_SOPP, FT_SMEM, FT_VOP2, FT_VOP1, FT_VOPC, FT_VOP3a, FT_VOP3b, FT_FLAT, FT_DS]

theorem nv_normRow_vop2 (c : Bool) (row : Row) (w0 : Nat) (w1? : Option Nat) :
    normRow c FT_VOP2 row w0 w1? =
      if extractBits w0 0 8 == 249 then (w0, w1?.map normSdwa)
      else (w0, if extractBits w0 0 8 == 255 || isKOpcode row.opcode then w1? else none) := by
  by_cases h : extractBits w0 0 8 = 249 <;>
  simp [normRow, usesSecond4, h, FT_SOP2, FT_SOPK, FT_SOP1, FT_SOPC, FT_SOPP, FT_SMEM, FT_VOP2, FT_VOP1, FT_VOPC, FT_VOP3a, FT_VOP3b, FT_FLAT, FT_DS]

theorem nv_olit_setLit (s : Opnd) (l : Nat) (h : s.isLit = false) : olit (some (setLit s l)) = none := by
  cases s <;> simp_all [Opnd.isLit, setLit, olit]
theorem nv_olit_with64 (s : Opnd) (w : Nat) (h : s.isLit = false) : olit (some (with64 w s)) = none := by
  unfold with64; split <;> cases s <;> simp_all [Opnd.isLit, olit, Opnd.setCount]
theorem nv_olit_setCount (s : Opnd) (n : Nat) (h : s.isLit = false) : olit (some (s.setCount n)) = none := by
  cases s <;> simp_all [Opnd.isLit, olit, Opnd.setCount]
theorem nv_olit_nonlit (s : Opnd) (h : s.isLit = false) : olit (some s) = none := by
  cases s <;> simp_all [Opnd.isLit, olit]
theorem nv_setCount_isLit (s : Opnd) (n : Nat) : (s.setCount n).isLit = s.isLit := by cases s <;> rfl
theorem nv_getOperand_255 : getOperand 255 = some (.lit 255 0) := by decide

/-! ### bits of `clr` (generated: one lemma per cleared range and field of the SDWA dword) -/
theorem nv_c14_0_7 (w : Nat) : extractBits (clr w 14 15) 0 7 = extractBits w 0 7 := by ebclr
theorem nv_c14_8_10 (w : Nat) : extractBits (clr w 14 15) 8 10 = extractBits w 8 10 := by ebclr
theorem nv_c14_11_12 (w : Nat) : extractBits (clr w 14 15) 11 12 = extractBits w 11 12 := by ebclr
theorem nv_c14_13_13 (w : Nat) : extractBits (clr w 14 15) 13 13 = extractBits w 13 13 := by ebclr
theorem nv_c14_self (w : Nat) : extractBits (clr w 14 15) 14 15 = 0 := by ebclr
theorem nv_c14_16_18 (w : Nat) : extractBits (clr w 14 15) 16 18 = extractBits w 16 18 := by ebclr
theorem nv_c14_19_19 (w : Nat) : extractBits (clr w 14 15) 19 19 = extractBits w 19 19 := by ebclr
theorem nv_c14_20_20 (w : Nat) : extractBits (clr w 14 15) 20 20 = extractBits w 20 20 := by ebclr
theorem nv_c14_21_21 (w : Nat) : extractBits (clr w 14 15) 21 21 = extractBits w 21 21 := by ebclr
theorem nv_c14_22_22 (w : Nat) : extractBits (clr w 14 15) 22 22 = extractBits w 22 22 := by ebclr
theorem nv_c14_23_23 (w : Nat) : extractBits (clr w 14 15) 23 23 = extractBits w 23 23 := by ebclr
theorem nv_c14_24_26 (w : Nat) : extractBits (clr w 14 15) 24 26 = extractBits w 24 26 := by ebclr
theorem nv_c14_27_27 (w : Nat) : extractBits (clr w 14 15) 27 27 = extractBits w 27 27 := by ebclr
theorem nv_c14_28_28 (w : Nat) : extractBits (clr w 14 15) 28 28 = extractBits w 28 28 := by ebclr
theorem nv_c14_29_29 (w : Nat) : extractBits (clr w 14 15) 29 29 = extractBits w 29 29 := by ebclr
theorem nv_c14_30_30 (w : Nat) : extractBits (clr w 14 15) 30 30 = extractBits w 30 30 := by ebclr
theorem nv_c14_31_31 (w : Nat) : extractBits (clr w 14 15) 31 31 = extractBits w 31 31 := by ebclr
theorem nv_c22_0_7 (w : Nat) : extractBits (clr w 22 22) 0 7 = extractBits w 0 7 := by ebclr
theorem nv_c22_8_10 (w : Nat) : extractBits (clr w 22 22) 8 10 = extractBits w 8 10 := by ebclr
theorem nv_c22_11_12 (w : Nat) : extractBits (clr w 22 22) 11 12 = extractBits w 11 12 := by ebclr
theorem nv_c22_13_13 (w : Nat) : extractBits (clr w 22 22) 13 13 = extractBits w 13 13 := by ebclr
theorem nv_c22_14_15 (w : Nat) : extractBits (clr w 22 22) 14 15 = extractBits w 14 15 := by ebclr
theorem nv_c22_16_18 (w : Nat) : extractBits (clr w 22 22) 16 18 = extractBits w 16 18 := by ebclr
theorem nv_c22_19_19 (w : Nat) : extractBits (clr w 22 22) 19 19 = extractBits w 19 19 := by ebclr
theorem nv_c22_20_20 (w : Nat) : extractBits (clr w 22 22) 20 20 = extractBits w 20 20 := by ebclr
theorem nv_c22_21_21 (w : Nat) : extractBits (clr w 22 22) 21 21 = extractBits w 21 21 := by ebclr
theorem nv_c22_self (w : Nat) : extractBits (clr w 22 22) 22 22 = 0 := by ebclr
theorem nv_c22_23_23 (w : Nat) : extractBits (clr w 22 22) 23 23 = extractBits w 23 23 := by ebclr
theorem nv_c22_24_26 (w : Nat) : extractBits (clr w 22 22) 24 26 = extractBits w 24 26 := by ebclr
theorem nv_c22_27_27 (w : Nat) : extractBits (clr w 22 22) 27 27 = extractBits w 27 27 := by ebclr
theorem nv_c22_28_28 (w : Nat) : extractBits (clr w 22 22) 28 28 = extractBits w 28 28 := by ebclr
theorem nv_c22_29_29 (w : Nat) : extractBits (clr w 22 22) 29 29 = extractBits w 29 29 := by ebclr
theorem nv_c22_30_30 (w : Nat) : extractBits (clr w 22 22) 30 30 = extractBits w 30 30 := by ebclr
theorem nv_c22_31_31 (w : Nat) : extractBits (clr w 22 22) 31 31 = extractBits w 31 31 := by ebclr
theorem nv_c30_0_7 (w : Nat) : extractBits (clr w 30 30) 0 7 = extractBits w 0 7 := by ebclr
theorem nv_c30_8_10 (w : Nat) : extractBits (clr w 30 30) 8 10 = extractBits w 8 10 := by ebclr
theorem nv_c30_11_12 (w : Nat) : extractBits (clr w 30 30) 11 12 = extractBits w 11 12 := by ebclr
theorem nv_c30_13_13 (w : Nat) : extractBits (clr w 30 30) 13 13 = extractBits w 13 13 := by ebclr
theorem nv_c30_14_15 (w : Nat) : extractBits (clr w 30 30) 14 15 = extractBits w 14 15 := by ebclr
theorem nv_c30_16_18 (w : Nat) : extractBits (clr w 30 30) 16 18 = extractBits w 16 18 := by ebclr
theorem nv_c30_19_19 (w : Nat) : extractBits (clr w 30 30) 19 19 = extractBits w 19 19 := by ebclr
theorem nv_c30_20_20 (w : Nat) : extractBits (clr w 30 30) 20 20 = extractBits w 20 20 := by ebclr
theorem nv_c30_21_21 (w : Nat) : extractBits (clr w 30 30) 21 21 = extractBits w 21 21 := by ebclr
theorem nv_c30_22_22 (w : Nat) : extractBits (clr w 30 30) 22 22 = extractBits w 22 22 := by ebclr
theorem nv_c30_23_23 (w : Nat) : extractBits (clr w 30 30) 23 23 = extractBits w 23 23 := by ebclr
theorem nv_c30_24_26 (w : Nat) : extractBits (clr w 30 30) 24 26 = extractBits w 24 26 := by ebclr
theorem nv_c30_27_27 (w : Nat) : extractBits (clr w 30 30) 27 27 = extractBits w 27 27 := by ebclr
theorem nv_c30_28_28 (w : Nat) : extractBits (clr w 30 30) 28 28 = extractBits w 28 28 := by ebclr
theorem nv_c30_29_29 (w : Nat) : extractBits (clr w 30 30) 29 29 = extractBits w 29 29 := by ebclr
theorem nv_c30_self (w : Nat) : extractBits (clr w 30 30) 30 30 = 0 := by ebclr
theorem nv_c30_31_31 (w : Nat) : extractBits (clr w 30 30) 31 31 = extractBits w 31 31 := by ebclr
theorem nv_c11_0_7 (w : Nat) : extractBits (clr w 11 12) 0 7 = extractBits w 0 7 := by ebclr
theorem nv_c11_8_10 (w : Nat) : extractBits (clr w 11 12) 8 10 = extractBits w 8 10 := by ebclr
theorem nv_c11_self (w : Nat) : extractBits (clr w 11 12) 11 12 = 0 := by ebclr
theorem nv_c11_13_13 (w : Nat) : extractBits (clr w 11 12) 13 13 = extractBits w 13 13 := by ebclr
theorem nv_c11_14_15 (w : Nat) : extractBits (clr w 11 12) 14 15 = extractBits w 14 15 := by ebclr
theorem nv_c11_16_18 (w : Nat) : extractBits (clr w 11 12) 16 18 = extractBits w 16 18 := by ebclr
theorem nv_c11_19_19 (w : Nat) : extractBits (clr w 11 12) 19 19 = extractBits w 19 19 := by ebclr
theorem nv_c11_20_20 (w : Nat) : extractBits (clr w 11 12) 20 20 = extractBits w 20 20 := by ebclr
theorem nv_c11_21_21 (w : Nat) : extractBits (clr w 11 12) 21 21 = extractBits w 21 21 := by ebclr
theorem nv_c11_22_22 (w : Nat) : extractBits (clr w 11 12) 22 22 = extractBits w 22 22 := by ebclr
theorem nv_c11_23_23 (w : Nat) : extractBits (clr w 11 12) 23 23 = extractBits w 23 23 := by ebclr
theorem nv_c11_24_26 (w : Nat) : extractBits (clr w 11 12) 24 26 = extractBits w 24 26 := by ebclr
theorem nv_c11_27_27 (w : Nat) : extractBits (clr w 11 12) 27 27 = extractBits w 27 27 := by ebclr
theorem nv_c11_28_28 (w : Nat) : extractBits (clr w 11 12) 28 28 = extractBits w 28 28 := by ebclr
theorem nv_c11_29_29 (w : Nat) : extractBits (clr w 11 12) 29 29 = extractBits w 29 29 := by ebclr
theorem nv_c11_30_30 (w : Nat) : extractBits (clr w 11 12) 30 30 = extractBits w 30 30 := by ebclr
theorem nv_c11_31_31 (w : Nat) : extractBits (clr w 11 12) 31 31 = extractBits w 31 31 := by ebclr

theorem nv_decomp (x : Nat) (hx : x < 2 ^ 32) :
    x = extractBits x 0 7 +
      extractBits x 8 10 * 2 ^ 8 +
      extractBits x 11 12 * 2 ^ 11 +
      extractBits x 13 13 * 2 ^ 13 +
      extractBits x 14 15 * 2 ^ 14 +
      extractBits x 16 18 * 2 ^ 16 +
      extractBits x 19 19 * 2 ^ 19 +
      extractBits x 20 20 * 2 ^ 20 +
      extractBits x 21 21 * 2 ^ 21 +
      extractBits x 22 22 * 2 ^ 22 +
      extractBits x 23 23 * 2 ^ 23 +
      extractBits x 24 26 * 2 ^ 24 +
      extractBits x 27 27 * 2 ^ 27 +
      extractBits x 28 28 * 2 ^ 28 +
      extractBits x 29 29 * 2 ^ 29 +
      extractBits x 30 30 * 2 ^ 30 +
      extractBits x 31 31 * 2 ^ 31 := by
  unfold extractBits; omega

theorem nv_clr_le (w lo hi : Nat) : clr w lo hi ≤ w := Nat.sub_le _ _
theorem nv_normSdwa_le (w : Nat) : normSdwa w ≤ w := by
  simp only [normSdwa]; split
  · exact Nat.le_trans (nv_clr_le _ _ _) (Nat.le_trans (nv_clr_le _ _ _) (Nat.le_trans (nv_clr_le _ _ _) (nv_clr_le _ _ _)))
  · exact Nat.le_trans (nv_clr_le _ _ _) (Nat.le_trans (nv_clr_le _ _ _) (nv_clr_le _ _ _))

theorem nv_sd_0_7 (w : Nat) : extractBits (normSdwa w) 0 7 = extractBits w 0 7 := by
  simp only [normSdwa]; split <;> simp_all only [nv_c14_0_7, nv_c14_8_10, nv_c14_11_12, nv_c14_13_13, nv_c14_self, nv_c14_16_18, nv_c14_19_19, nv_c14_20_20, nv_c14_21_21, nv_c14_22_22, nv_c14_23_23, nv_c14_24_26, nv_c14_27_27, nv_c14_28_28, nv_c14_29_29, nv_c14_30_30, nv_c14_31_31, nv_c22_0_7, nv_c22_8_10, nv_c22_11_12, nv_c22_13_13, nv_c22_14_15, nv_c22_16_18, nv_c22_19_19, nv_c22_20_20, nv_c22_21_21, nv_c22_self, nv_c22_23_23, nv_c22_24_26, nv_c22_27_27, nv_c22_28_28, nv_c22_29_29, nv_c22_30_30, nv_c22_31_31, nv_c30_0_7, nv_c30_8_10, nv_c30_11_12, nv_c30_13_13, nv_c30_14_15, nv_c30_16_18, nv_c30_19_19, nv_c30_20_20, nv_c30_21_21, nv_c30_22_22, nv_c30_23_23, nv_c30_24_26, nv_c30_27_27, nv_c30_28_28, nv_c30_29_29, nv_c30_self, nv_c30_31_31, nv_c11_0_7, nv_c11_8_10, nv_c11_self, nv_c11_13_13, nv_c11_14_15, nv_c11_16_18, nv_c11_19_19, nv_c11_20_20, nv_c11_21_21, nv_c11_22_22, nv_c11_23_23, nv_c11_24_26, nv_c11_27_27, nv_c11_28_28, nv_c11_29_29, nv_c11_30_30, nv_c11_31_31, beq_iff_eq, if_true, if_false]
theorem nv_sd_8_10 (w : Nat) : extractBits (normSdwa w) 8 10 = extractBits w 8 10 := by
  simp only [normSdwa]; split <;> simp_all only [nv_c14_0_7, nv_c14_8_10, nv_c14_11_12, nv_c14_13_13, nv_c14_self, nv_c14_16_18, nv_c14_19_19, nv_c14_20_20, nv_c14_21_21, nv_c14_22_22, nv_c14_23_23, nv_c14_24_26, nv_c14_27_27, nv_c14_28_28, nv_c14_29_29, nv_c14_30_30, nv_c14_31_31, nv_c22_0_7, nv_c22_8_10, nv_c22_11_12, nv_c22_13_13, nv_c22_14_15, nv_c22_16_18, nv_c22_19_19, nv_c22_20_20, nv_c22_21_21, nv_c22_self, nv_c22_23_23, nv_c22_24_26, nv_c22_27_27, nv_c22_28_28, nv_c22_29_29, nv_c22_30_30, nv_c22_31_31, nv_c30_0_7, nv_c30_8_10, nv_c30_11_12, nv_c30_13_13, nv_c30_14_15, nv_c30_16_18, nv_c30_19_19, nv_c30_20_20, nv_c30_21_21, nv_c30_22_22, nv_c30_23_23, nv_c30_24_26, nv_c30_27_27, nv_c30_28_28, nv_c30_29_29, nv_c30_self, nv_c30_31_31, nv_c11_0_7, nv_c11_8_10, nv_c11_self, nv_c11_13_13, nv_c11_14_15, nv_c11_16_18, nv_c11_19_19, nv_c11_20_20, nv_c11_21_21, nv_c11_22_22, nv_c11_23_23, nv_c11_24_26, nv_c11_27_27, nv_c11_28_28, nv_c11_29_29, nv_c11_30_30, nv_c11_31_31, beq_iff_eq, if_true, if_false]
theorem nv_sd_11_12 (w : Nat) : extractBits (normSdwa w) 11 12 = if extractBits w 11 12 == 3 then 0 else extractBits w 11 12 := by
  simp only [normSdwa]; split <;> simp_all only [nv_c14_0_7, nv_c14_8_10, nv_c14_11_12, nv_c14_13_13, nv_c14_self, nv_c14_16_18, nv_c14_19_19, nv_c14_20_20, nv_c14_21_21, nv_c14_22_22, nv_c14_23_23, nv_c14_24_26, nv_c14_27_27, nv_c14_28_28, nv_c14_29_29, nv_c14_30_30, nv_c14_31_31, nv_c22_0_7, nv_c22_8_10, nv_c22_11_12, nv_c22_13_13, nv_c22_14_15, nv_c22_16_18, nv_c22_19_19, nv_c22_20_20, nv_c22_21_21, nv_c22_self, nv_c22_23_23, nv_c22_24_26, nv_c22_27_27, nv_c22_28_28, nv_c22_29_29, nv_c22_30_30, nv_c22_31_31, nv_c30_0_7, nv_c30_8_10, nv_c30_11_12, nv_c30_13_13, nv_c30_14_15, nv_c30_16_18, nv_c30_19_19, nv_c30_20_20, nv_c30_21_21, nv_c30_22_22, nv_c30_23_23, nv_c30_24_26, nv_c30_27_27, nv_c30_28_28, nv_c30_29_29, nv_c30_self, nv_c30_31_31, nv_c11_0_7, nv_c11_8_10, nv_c11_self, nv_c11_13_13, nv_c11_14_15, nv_c11_16_18, nv_c11_19_19, nv_c11_20_20, nv_c11_21_21, nv_c11_22_22, nv_c11_23_23, nv_c11_24_26, nv_c11_27_27, nv_c11_28_28, nv_c11_29_29, nv_c11_30_30, nv_c11_31_31, beq_iff_eq, if_true, if_false]
theorem nv_sd_13_13 (w : Nat) : extractBits (normSdwa w) 13 13 = extractBits w 13 13 := by
  simp only [normSdwa]; split <;> simp_all only [nv_c14_0_7, nv_c14_8_10, nv_c14_11_12, nv_c14_13_13, nv_c14_self, nv_c14_16_18, nv_c14_19_19, nv_c14_20_20, nv_c14_21_21, nv_c14_22_22, nv_c14_23_23, nv_c14_24_26, nv_c14_27_27, nv_c14_28_28, nv_c14_29_29, nv_c14_30_30, nv_c14_31_31, nv_c22_0_7, nv_c22_8_10, nv_c22_11_12, nv_c22_13_13, nv_c22_14_15, nv_c22_16_18, nv_c22_19_19, nv_c22_20_20, nv_c22_21_21, nv_c22_self, nv_c22_23_23, nv_c22_24_26, nv_c22_27_27, nv_c22_28_28, nv_c22_29_29, nv_c22_30_30, nv_c22_31_31, nv_c30_0_7, nv_c30_8_10, nv_c30_11_12, nv_c30_13_13, nv_c30_14_15, nv_c30_16_18, nv_c30_19_19, nv_c30_20_20, nv_c30_21_21, nv_c30_22_22, nv_c30_23_23, nv_c30_24_26, nv_c30_27_27, nv_c30_28_28, nv_c30_29_29, nv_c30_self, nv_c30_31_31, nv_c11_0_7, nv_c11_8_10, nv_c11_self, nv_c11_13_13, nv_c11_14_15, nv_c11_16_18, nv_c11_19_19, nv_c11_20_20, nv_c11_21_21, nv_c11_22_22, nv_c11_23_23, nv_c11_24_26, nv_c11_27_27, nv_c11_28_28, nv_c11_29_29, nv_c11_30_30, nv_c11_31_31, beq_iff_eq, if_true, if_false]
theorem nv_sd_14_15 (w : Nat) : extractBits (normSdwa w) 14 15 = 0 := by
  simp only [normSdwa]; split <;> simp_all only [nv_c14_0_7, nv_c14_8_10, nv_c14_11_12, nv_c14_13_13, nv_c14_self, nv_c14_16_18, nv_c14_19_19, nv_c14_20_20, nv_c14_21_21, nv_c14_22_22, nv_c14_23_23, nv_c14_24_26, nv_c14_27_27, nv_c14_28_28, nv_c14_29_29, nv_c14_30_30, nv_c14_31_31, nv_c22_0_7, nv_c22_8_10, nv_c22_11_12, nv_c22_13_13, nv_c22_14_15, nv_c22_16_18, nv_c22_19_19, nv_c22_20_20, nv_c22_21_21, nv_c22_self, nv_c22_23_23, nv_c22_24_26, nv_c22_27_27, nv_c22_28_28, nv_c22_29_29, nv_c22_30_30, nv_c22_31_31, nv_c30_0_7, nv_c30_8_10, nv_c30_11_12, nv_c30_13_13, nv_c30_14_15, nv_c30_16_18, nv_c30_19_19, nv_c30_20_20, nv_c30_21_21, nv_c30_22_22, nv_c30_23_23, nv_c30_24_26, nv_c30_27_27, nv_c30_28_28, nv_c30_29_29, nv_c30_self, nv_c30_31_31, nv_c11_0_7, nv_c11_8_10, nv_c11_self, nv_c11_13_13, nv_c11_14_15, nv_c11_16_18, nv_c11_19_19, nv_c11_20_20, nv_c11_21_21, nv_c11_22_22, nv_c11_23_23, nv_c11_24_26, nv_c11_27_27, nv_c11_28_28, nv_c11_29_29, nv_c11_30_30, nv_c11_31_31, beq_iff_eq, if_true, if_false]
theorem nv_sd_16_18 (w : Nat) : extractBits (normSdwa w) 16 18 = extractBits w 16 18 := by
  simp only [normSdwa]; split <;> simp_all only [nv_c14_0_7, nv_c14_8_10, nv_c14_11_12, nv_c14_13_13, nv_c14_self, nv_c14_16_18, nv_c14_19_19, nv_c14_20_20, nv_c14_21_21, nv_c14_22_22, nv_c14_23_23, nv_c14_24_26, nv_c14_27_27, nv_c14_28_28, nv_c14_29_29, nv_c14_30_30, nv_c14_31_31, nv_c22_0_7, nv_c22_8_10, nv_c22_11_12, nv_c22_13_13, nv_c22_14_15, nv_c22_16_18, nv_c22_19_19, nv_c22_20_20, nv_c22_21_21, nv_c22_self, nv_c22_23_23, nv_c22_24_26, nv_c22_27_27, nv_c22_28_28, nv_c22_29_29, nv_c22_30_30, nv_c22_31_31, nv_c30_0_7, nv_c30_8_10, nv_c30_11_12, nv_c30_13_13, nv_c30_14_15, nv_c30_16_18, nv_c30_19_19, nv_c30_20_20, nv_c30_21_21, nv_c30_22_22, nv_c30_23_23, nv_c30_24_26, nv_c30_27_27, nv_c30_28_28, nv_c30_29_29, nv_c30_self, nv_c30_31_31, nv_c11_0_7, nv_c11_8_10, nv_c11_self, nv_c11_13_13, nv_c11_14_15, nv_c11_16_18, nv_c11_19_19, nv_c11_20_20, nv_c11_21_21, nv_c11_22_22, nv_c11_23_23, nv_c11_24_26, nv_c11_27_27, nv_c11_28_28, nv_c11_29_29, nv_c11_30_30, nv_c11_31_31, beq_iff_eq, if_true, if_false]
theorem nv_sd_19_19 (w : Nat) : extractBits (normSdwa w) 19 19 = extractBits w 19 19 := by
  simp only [normSdwa]; split <;> simp_all only [nv_c14_0_7, nv_c14_8_10, nv_c14_11_12, nv_c14_13_13, nv_c14_self, nv_c14_16_18, nv_c14_19_19, nv_c14_20_20, nv_c14_21_21, nv_c14_22_22, nv_c14_23_23, nv_c14_24_26, nv_c14_27_27, nv_c14_28_28, nv_c14_29_29, nv_c14_30_30, nv_c14_31_31, nv_c22_0_7, nv_c22_8_10, nv_c22_11_12, nv_c22_13_13, nv_c22_14_15, nv_c22_16_18, nv_c22_19_19, nv_c22_20_20, nv_c22_21_21, nv_c22_self, nv_c22_23_23, nv_c22_24_26, nv_c22_27_27, nv_c22_28_28, nv_c22_29_29, nv_c22_30_30, nv_c22_31_31, nv_c30_0_7, nv_c30_8_10, nv_c30_11_12, nv_c30_13_13, nv_c30_14_15, nv_c30_16_18, nv_c30_19_19, nv_c30_20_20, nv_c30_21_21, nv_c30_22_22, nv_c30_23_23, nv_c30_24_26, nv_c30_27_27, nv_c30_28_28, nv_c30_29_29, nv_c30_self, nv_c30_31_31, nv_c11_0_7, nv_c11_8_10, nv_c11_self, nv_c11_13_13, nv_c11_14_15, nv_c11_16_18, nv_c11_19_19, nv_c11_20_20, nv_c11_21_21, nv_c11_22_22, nv_c11_23_23, nv_c11_24_26, nv_c11_27_27, nv_c11_28_28, nv_c11_29_29, nv_c11_30_30, nv_c11_31_31, beq_iff_eq, if_true, if_false]
theorem nv_sd_20_20 (w : Nat) : extractBits (normSdwa w) 20 20 = extractBits w 20 20 := by
  simp only [normSdwa]; split <;> simp_all only [nv_c14_0_7, nv_c14_8_10, nv_c14_11_12, nv_c14_13_13, nv_c14_self, nv_c14_16_18, nv_c14_19_19, nv_c14_20_20, nv_c14_21_21, nv_c14_22_22, nv_c14_23_23, nv_c14_24_26, nv_c14_27_27, nv_c14_28_28, nv_c14_29_29, nv_c14_30_30, nv_c14_31_31, nv_c22_0_7, nv_c22_8_10, nv_c22_11_12, nv_c22_13_13, nv_c22_14_15, nv_c22_16_18, nv_c22_19_19, nv_c22_20_20, nv_c22_21_21, nv_c22_self, nv_c22_23_23, nv_c22_24_26, nv_c22_27_27, nv_c22_28_28, nv_c22_29_29, nv_c22_30_30, nv_c22_31_31, nv_c30_0_7, nv_c30_8_10, nv_c30_11_12, nv_c30_13_13, nv_c30_14_15, nv_c30_16_18, nv_c30_19_19, nv_c30_20_20, nv_c30_21_21, nv_c30_22_22, nv_c30_23_23, nv_c30_24_26, nv_c30_27_27, nv_c30_28_28, nv_c30_29_29, nv_c30_self, nv_c30_31_31, nv_c11_0_7, nv_c11_8_10, nv_c11_self, nv_c11_13_13, nv_c11_14_15, nv_c11_16_18, nv_c11_19_19, nv_c11_20_20, nv_c11_21_21, nv_c11_22_22, nv_c11_23_23, nv_c11_24_26, nv_c11_27_27, nv_c11_28_28, nv_c11_29_29, nv_c11_30_30, nv_c11_31_31, beq_iff_eq, if_true, if_false]
theorem nv_sd_21_21 (w : Nat) : extractBits (normSdwa w) 21 21 = extractBits w 21 21 := by
  simp only [normSdwa]; split <;> simp_all only [nv_c14_0_7, nv_c14_8_10, nv_c14_11_12, nv_c14_13_13, nv_c14_self, nv_c14_16_18, nv_c14_19_19, nv_c14_20_20, nv_c14_21_21, nv_c14_22_22, nv_c14_23_23, nv_c14_24_26, nv_c14_27_27, nv_c14_28_28, nv_c14_29_29, nv_c14_30_30, nv_c14_31_31, nv_c22_0_7, nv_c22_8_10, nv_c22_11_12, nv_c22_13_13, nv_c22_14_15, nv_c22_16_18, nv_c22_19_19, nv_c22_20_20, nv_c22_21_21, nv_c22_self, nv_c22_23_23, nv_c22_24_26, nv_c22_27_27, nv_c22_28_28, nv_c22_29_29, nv_c22_30_30, nv_c22_31_31, nv_c30_0_7, nv_c30_8_10, nv_c30_11_12, nv_c30_13_13, nv_c30_14_15, nv_c30_16_18, nv_c30_19_19, nv_c30_20_20, nv_c30_21_21, nv_c30_22_22, nv_c30_23_23, nv_c30_24_26, nv_c30_27_27, nv_c30_28_28, nv_c30_29_29, nv_c30_self, nv_c30_31_31, nv_c11_0_7, nv_c11_8_10, nv_c11_self, nv_c11_13_13, nv_c11_14_15, nv_c11_16_18, nv_c11_19_19, nv_c11_20_20, nv_c11_21_21, nv_c11_22_22, nv_c11_23_23, nv_c11_24_26, nv_c11_27_27, nv_c11_28_28, nv_c11_29_29, nv_c11_30_30, nv_c11_31_31, beq_iff_eq, if_true, if_false]
theorem nv_sd_22_22 (w : Nat) : extractBits (normSdwa w) 22 22 = 0 := by
  simp only [normSdwa]; split <;> simp_all only [nv_c14_0_7, nv_c14_8_10, nv_c14_11_12, nv_c14_13_13, nv_c14_self, nv_c14_16_18, nv_c14_19_19, nv_c14_20_20, nv_c14_21_21, nv_c14_22_22, nv_c14_23_23, nv_c14_24_26, nv_c14_27_27, nv_c14_28_28, nv_c14_29_29, nv_c14_30_30, nv_c14_31_31, nv_c22_0_7, nv_c22_8_10, nv_c22_11_12, nv_c22_13_13, nv_c22_14_15, nv_c22_16_18, nv_c22_19_19, nv_c22_20_20, nv_c22_21_21, nv_c22_self, nv_c22_23_23, nv_c22_24_26, nv_c22_27_27, nv_c22_28_28, nv_c22_29_29, nv_c22_30_30, nv_c22_31_31, nv_c30_0_7, nv_c30_8_10, nv_c30_11_12, nv_c30_13_13, nv_c30_14_15, nv_c30_16_18, nv_c30_19_19, nv_c30_20_20, nv_c30_21_21, nv_c30_22_22, nv_c30_23_23, nv_c30_24_26, nv_c30_27_27, nv_c30_28_28, nv_c30_29_29, nv_c30_self, nv_c30_31_31, nv_c11_0_7, nv_c11_8_10, nv_c11_self, nv_c11_13_13, nv_c11_14_15, nv_c11_16_18, nv_c11_19_19, nv_c11_20_20, nv_c11_21_21, nv_c11_22_22, nv_c11_23_23, nv_c11_24_26, nv_c11_27_27, nv_c11_28_28, nv_c11_29_29, nv_c11_30_30, nv_c11_31_31, beq_iff_eq, if_true, if_false]
theorem nv_sd_23_23 (w : Nat) : extractBits (normSdwa w) 23 23 = extractBits w 23 23 := by
  simp only [normSdwa]; split <;> simp_all only [nv_c14_0_7, nv_c14_8_10, nv_c14_11_12, nv_c14_13_13, nv_c14_self, nv_c14_16_18, nv_c14_19_19, nv_c14_20_20, nv_c14_21_21, nv_c14_22_22, nv_c14_23_23, nv_c14_24_26, nv_c14_27_27, nv_c14_28_28, nv_c14_29_29, nv_c14_30_30, nv_c14_31_31, nv_c22_0_7, nv_c22_8_10, nv_c22_11_12, nv_c22_13_13, nv_c22_14_15, nv_c22_16_18, nv_c22_19_19, nv_c22_20_20, nv_c22_21_21, nv_c22_self, nv_c22_23_23, nv_c22_24_26, nv_c22_27_27, nv_c22_28_28, nv_c22_29_29, nv_c22_30_30, nv_c22_31_31, nv_c30_0_7, nv_c30_8_10, nv_c30_11_12, nv_c30_13_13, nv_c30_14_15, nv_c30_16_18, nv_c30_19_19, nv_c30_20_20, nv_c30_21_21, nv_c30_22_22, nv_c30_23_23, nv_c30_24_26, nv_c30_27_27, nv_c30_28_28, nv_c30_29_29, nv_c30_self, nv_c30_31_31, nv_c11_0_7, nv_c11_8_10, nv_c11_self, nv_c11_13_13, nv_c11_14_15, nv_c11_16_18, nv_c11_19_19, nv_c11_20_20, nv_c11_21_21, nv_c11_22_22, nv_c11_23_23, nv_c11_24_26, nv_c11_27_27, nv_c11_28_28, nv_c11_29_29, nv_c11_30_30, nv_c11_31_31, beq_iff_eq, if_true, if_false]
theorem nv_sd_24_26 (w : Nat) : extractBits (normSdwa w) 24 26 = extractBits w 24 26 := by
  simp only [normSdwa]; split <;> simp_all only [nv_c14_0_7, nv_c14_8_10, nv_c14_11_12, nv_c14_13_13, nv_c14_self, nv_c14_16_18, nv_c14_19_19, nv_c14_20_20, nv_c14_21_21, nv_c14_22_22, nv_c14_23_23, nv_c14_24_26, nv_c14_27_27, nv_c14_28_28, nv_c14_29_29, nv_c14_30_30, nv_c14_31_31, nv_c22_0_7, nv_c22_8_10, nv_c22_11_12, nv_c22_13_13, nv_c22_14_15, nv_c22_16_18, nv_c22_19_19, nv_c22_20_20, nv_c22_21_21, nv_c22_self, nv_c22_23_23, nv_c22_24_26, nv_c22_27_27, nv_c22_28_28, nv_c22_29_29, nv_c22_30_30, nv_c22_31_31, nv_c30_0_7, nv_c30_8_10, nv_c30_11_12, nv_c30_13_13, nv_c30_14_15, nv_c30_16_18, nv_c30_19_19, nv_c30_20_20, nv_c30_21_21, nv_c30_22_22, nv_c30_23_23, nv_c30_24_26, nv_c30_27_27, nv_c30_28_28, nv_c30_29_29, nv_c30_self, nv_c30_31_31, nv_c11_0_7, nv_c11_8_10, nv_c11_self, nv_c11_13_13, nv_c11_14_15, nv_c11_16_18, nv_c11_19_19, nv_c11_20_20, nv_c11_21_21, nv_c11_22_22, nv_c11_23_23, nv_c11_24_26, nv_c11_27_27, nv_c11_28_28, nv_c11_29_29, nv_c11_30_30, nv_c11_31_31, beq_iff_eq, if_true, if_false]
theorem nv_sd_27_27 (w : Nat) : extractBits (normSdwa w) 27 27 = extractBits w 27 27 := by
  simp only [normSdwa]; split <;> simp_all only [nv_c14_0_7, nv_c14_8_10, nv_c14_11_12, nv_c14_13_13, nv_c14_self, nv_c14_16_18, nv_c14_19_19, nv_c14_20_20, nv_c14_21_21, nv_c14_22_22, nv_c14_23_23, nv_c14_24_26, nv_c14_27_27, nv_c14_28_28, nv_c14_29_29, nv_c14_30_30, nv_c14_31_31, nv_c22_0_7, nv_c22_8_10, nv_c22_11_12, nv_c22_13_13, nv_c22_14_15, nv_c22_16_18, nv_c22_19_19, nv_c22_20_20, nv_c22_21_21, nv_c22_self, nv_c22_23_23, nv_c22_24_26, nv_c22_27_27, nv_c22_28_28, nv_c22_29_29, nv_c22_30_30, nv_c22_31_31, nv_c30_0_7, nv_c30_8_10, nv_c30_11_12, nv_c30_13_13, nv_c30_14_15, nv_c30_16_18, nv_c30_19_19, nv_c30_20_20, nv_c30_21_21, nv_c30_22_22, nv_c30_23_23, nv_c30_24_26, nv_c30_27_27, nv_c30_28_28, nv_c30_29_29, nv_c30_self, nv_c30_31_31, nv_c11_0_7, nv_c11_8_10, nv_c11_self, nv_c11_13_13, nv_c11_14_15, nv_c11_16_18, nv_c11_19_19, nv_c11_20_20, nv_c11_21_21, nv_c11_22_22, nv_c11_23_23, nv_c11_24_26, nv_c11_27_27, nv_c11_28_28, nv_c11_29_29, nv_c11_30_30, nv_c11_31_31, beq_iff_eq, if_true, if_false]
theorem nv_sd_28_28 (w : Nat) : extractBits (normSdwa w) 28 28 = extractBits w 28 28 := by
  simp only [normSdwa]; split <;> simp_all only [nv_c14_0_7, nv_c14_8_10, nv_c14_11_12, nv_c14_13_13, nv_c14_self, nv_c14_16_18, nv_c14_19_19, nv_c14_20_20, nv_c14_21_21, nv_c14_22_22, nv_c14_23_23, nv_c14_24_26, nv_c14_27_27, nv_c14_28_28, nv_c14_29_29, nv_c14_30_30, nv_c14_31_31, nv_c22_0_7, nv_c22_8_10, nv_c22_11_12, nv_c22_13_13, nv_c22_14_15, nv_c22_16_18, nv_c22_19_19, nv_c22_20_20, nv_c22_21_21, nv_c22_self, nv_c22_23_23, nv_c22_24_26, nv_c22_27_27, nv_c22_28_28, nv_c22_29_29, nv_c22_30_30, nv_c22_31_31, nv_c30_0_7, nv_c30_8_10, nv_c30_11_12, nv_c30_13_13, nv_c30_14_15, nv_c30_16_18, nv_c30_19_19, nv_c30_20_20, nv_c30_21_21, nv_c30_22_22, nv_c30_23_23, nv_c30_24_26, nv_c30_27_27, nv_c30_28_28, nv_c30_29_29, nv_c30_self, nv_c30_31_31, nv_c11_0_7, nv_c11_8_10, nv_c11_self, nv_c11_13_13, nv_c11_14_15, nv_c11_16_18, nv_c11_19_19, nv_c11_20_20, nv_c11_21_21, nv_c11_22_22, nv_c11_23_23, nv_c11_24_26, nv_c11_27_27, nv_c11_28_28, nv_c11_29_29, nv_c11_30_30, nv_c11_31_31, beq_iff_eq, if_true, if_false]
theorem nv_sd_29_29 (w : Nat) : extractBits (normSdwa w) 29 29 = extractBits w 29 29 := by
  simp only [normSdwa]; split <;> simp_all only [nv_c14_0_7, nv_c14_8_10, nv_c14_11_12, nv_c14_13_13, nv_c14_self, nv_c14_16_18, nv_c14_19_19, nv_c14_20_20, nv_c14_21_21, nv_c14_22_22, nv_c14_23_23, nv_c14_24_26, nv_c14_27_27, nv_c14_28_28, nv_c14_29_29, nv_c14_30_30, nv_c14_31_31, nv_c22_0_7, nv_c22_8_10, nv_c22_11_12, nv_c22_13_13, nv_c22_14_15, nv_c22_16_18, nv_c22_19_19, nv_c22_20_20, nv_c22_21_21, nv_c22_self, nv_c22_23_23, nv_c22_24_26, nv_c22_27_27, nv_c22_28_28, nv_c22_29_29, nv_c22_30_30, nv_c22_31_31, nv_c30_0_7, nv_c30_8_10, nv_c30_11_12, nv_c30_13_13, nv_c30_14_15, nv_c30_16_18, nv_c30_19_19, nv_c30_20_20, nv_c30_21_21, nv_c30_22_22, nv_c30_23_23, nv_c30_24_26, nv_c30_27_27, nv_c30_28_28, nv_c30_29_29, nv_c30_self, nv_c30_31_31, nv_c11_0_7, nv_c11_8_10, nv_c11_self, nv_c11_13_13, nv_c11_14_15, nv_c11_16_18, nv_c11_19_19, nv_c11_20_20, nv_c11_21_21, nv_c11_22_22, nv_c11_23_23, nv_c11_24_26, nv_c11_27_27, nv_c11_28_28, nv_c11_29_29, nv_c11_30_30, nv_c11_31_31, beq_iff_eq, if_true, if_false]
theorem nv_sd_30_30 (w : Nat) : extractBits (normSdwa w) 30 30 = 0 := by
  simp only [normSdwa]; split <;> simp_all only [nv_c14_0_7, nv_c14_8_10, nv_c14_11_12, nv_c14_13_13, nv_c14_self, nv_c14_16_18, nv_c14_19_19, nv_c14_20_20, nv_c14_21_21, nv_c14_22_22, nv_c14_23_23, nv_c14_24_26, nv_c14_27_27, nv_c14_28_28, nv_c14_29_29, nv_c14_30_30, nv_c14_31_31, nv_c22_0_7, nv_c22_8_10, nv_c22_11_12, nv_c22_13_13, nv_c22_14_15, nv_c22_16_18, nv_c22_19_19, nv_c22_20_20, nv_c22_21_21, nv_c22_self, nv_c22_23_23, nv_c22_24_26, nv_c22_27_27, nv_c22_28_28, nv_c22_29_29, nv_c22_30_30, nv_c22_31_31, nv_c30_0_7, nv_c30_8_10, nv_c30_11_12, nv_c30_13_13, nv_c30_14_15, nv_c30_16_18, nv_c30_19_19, nv_c30_20_20, nv_c30_21_21, nv_c30_22_22, nv_c30_23_23, nv_c30_24_26, nv_c30_27_27, nv_c30_28_28, nv_c30_29_29, nv_c30_self, nv_c30_31_31, nv_c11_0_7, nv_c11_8_10, nv_c11_self, nv_c11_13_13, nv_c11_14_15, nv_c11_16_18, nv_c11_19_19, nv_c11_20_20, nv_c11_21_21, nv_c11_22_22, nv_c11_23_23, nv_c11_24_26, nv_c11_27_27, nv_c11_28_28, nv_c11_29_29, nv_c11_30_30, nv_c11_31_31, beq_iff_eq, if_true, if_false]
theorem nv_sd_31_31 (w : Nat) : extractBits (normSdwa w) 31 31 = extractBits w 31 31 := by
  simp only [normSdwa]; split <;> simp_all only [nv_c14_0_7, nv_c14_8_10, nv_c14_11_12, nv_c14_13_13, nv_c14_self, nv_c14_16_18, nv_c14_19_19, nv_c14_20_20, nv_c14_21_21, nv_c14_22_22, nv_c14_23_23, nv_c14_24_26, nv_c14_27_27, nv_c14_28_28, nv_c14_29_29, nv_c14_30_30, nv_c14_31_31, nv_c22_0_7, nv_c22_8_10, nv_c22_11_12, nv_c22_13_13, nv_c22_14_15, nv_c22_16_18, nv_c22_19_19, nv_c22_20_20, nv_c22_21_21, nv_c22_self, nv_c22_23_23, nv_c22_24_26, nv_c22_27_27, nv_c22_28_28, nv_c22_29_29, nv_c22_30_30, nv_c22_31_31, nv_c30_0_7, nv_c30_8_10, nv_c30_11_12, nv_c30_13_13, nv_c30_14_15, nv_c30_16_18, nv_c30_19_19, nv_c30_20_20, nv_c30_21_21, nv_c30_22_22, nv_c30_23_23, nv_c30_24_26, nv_c30_27_27, nv_c30_28_28, nv_c30_29_29, nv_c30_self, nv_c30_31_31, nv_c11_0_7, nv_c11_8_10, nv_c11_self, nv_c11_13_13, nv_c11_14_15, nv_c11_16_18, nv_c11_19_19, nv_c11_20_20, nv_c11_21_21, nv_c11_22_22, nv_c11_23_23, nv_c11_24_26, nv_c11_27_27, nv_c11_28_28, nv_c11_29_29, nv_c11_30_30, nv_c11_31_31, beq_iff_eq, if_true, if_false]
theorem nv_sd_du (w : Nat) : (if extractBits (normSdwa w) 11 12 == 3 then 0 else extractBits (normSdwa w) 11 12) =
    (if extractBits w 11 12 == 3 then 0 else extractBits w 11 12) := by
  rw [nv_sd_11_12]
  by_cases h : extractBits w 11 12 = 3
  · simp [h]
  · have hb : (extractBits w 11 12 == 3) = false := by simpa using h
    simp only [hb, Bool.false_eq_true, if_false]

theorem nv_sdwa_arith (w : Nat) (hw : w < 2 ^ 32)
    (e13 : extractBits w 13 13 = 0) (e19 : extractBits w 19 19 = 0) (e20 : extractBits w 20 20 = 0)
    (e21 : extractBits w 21 21 = 0) (e27 : extractBits w 27 27 = 0) (e28 : extractBits w 28 28 = 0)
    (e29 : extractBits w 29 29 = 0) :
    extractBits w 31 31 * 2 ^ 31 + extractBits w 24 26 * 2 ^ 24 + extractBits w 23 23 * 2 ^ 23 + extractBits w 16 18 * 2 ^ 16 +
      (if extractBits w 11 12 == 3 then 0 else extractBits w 11 12) * 2 ^ 11 + extractBits w 8 10 * 2 ^ 8 + extractBits w 0 7
    = normSdwa w := by
  have hd := nv_decomp (normSdwa w) (Nat.lt_of_le_of_lt (nv_normSdwa_le w) hw)
  simp only [nv_sd_0_7, nv_sd_8_10, nv_sd_11_12, nv_sd_13_13, nv_sd_14_15, nv_sd_16_18, nv_sd_19_19, nv_sd_20_20, nv_sd_21_21,
    nv_sd_22_22, nv_sd_23_23, nv_sd_24_26, nv_sd_27_27, nv_sd_28_28, nv_sd_29_29, nv_sd_30_30, nv_sd_31_31, e13, e19, e20, e21, e27, e28, e29] at hd
  generalize normSdwa w = n at hd ⊢
  generalize (if extractBits w 11 12 == 3 then 0 else extractBits w 11 12) = du at hd ⊢
  omega

/-! ### VOPC -/
theorem norm_vopc (c : Bool) (f : Format) (row : Row) (w0 : Nat) (w1? : Option Nat)
    (hf : f.ft = FT_VOPC) (hsz : f.size = 4) (hw0 : w0 < 2 ^ 32) (hw1 : ∀ w1, w1? = some w1 → w1 < 2 ^ 32) :
    decodeRow c f row (normRow c f.ft row w0 w1?).1 (normRow c f.ft row w0 w1?).2 = decodeRow c f row w0 w1? := by
  rw [hf, nv_normRow_vopc]
  by_cases h255 : extractBits w0 0 8 = 255
  · simp [h255]
  · have hb : (extractBits w0 0 8 == 255) = false := by simpa using h255
    simp only [hb, Bool.false_eq_true, if_false]
    unfold decodeRow
    simp only [hsz, hf, FT_SOP2, FT_SOPK, FT_SOP1, FT_SOPC, FT_SOPP, FT_SMEM, FT_VOP2, FT_VOP1, FT_VOPC, FT_VOP3a, FT_VOP3b, FT_FLAT, FT_DS,
      Nat.reduceBEq, Bool.false_eq_true, if_false, BEq.rfl, if_true, dec4, decodeVOPC]
    cases hg0 : getOperand (extractBits w0 0 8) with
    | none => simp only []
    | some s0 =>
      have hl := getOperand_isLit (by have := extractBits_lt w0 0 8; omega) hg0
      simp only [hl, hb, Bool.false_eq_true, if_false]

theorem desc_vopc (c : Bool) (f : Format) (row : Row) (w0 : Nat) (w1? : Option Nat) (i : Inst)
    (hf : f.ft = FT_VOPC) (hsz : f.size = 4) (hw0 : w0 < 2 ^ 32) (hw1 : ∀ w1, w1? = some w1 → w1 < 2 ^ 32)
    (henc : w0 / 2 ^ 25 = 62) (hop : extractBits w0 17 24 = row.opcode)
    (h : decodeRow c f row w0 w1? = .ok i) :
    encWord (descOf c i) = (normRow c f.ft row w0 w1?).1 ∧ encSecond (descOf c i) = (normRow c f.ft row w0 w1?).2 := by
  rw [hf, nv_normRow_vopc]
  unfold decodeRow at h
  simp only [hsz, hf, FT_SOP2, FT_SOPK, FT_SOP1, FT_SOPC, FT_SOPP, FT_SMEM, FT_VOP2, FT_VOP1, FT_VOPC, FT_VOP3a, FT_VOP3b, FT_FLAT, FT_DS,
      Nat.reduceBEq, Bool.false_eq_true, if_false, BEq.rfl, if_true, dec4, decodeVOPC] at h
  cases hg0 : getOperand (extractBits w0 0 8) with
  | none => simp [hg0] at h
  | some s0 =>
    have hl := getOperand_isLit (by have := extractBits_lt w0 0 8; omega) hg0
    have hc := getOperand_code (by have := extractBits_lt w0 0 8; omega) hg0
    simp only [hg0, hl] at h
    by_cases h255 : extractBits w0 0 8 = 255
    · rw [h255, nv_getOperand_255] at hg0
      cases hg0
      simp only [h255, BEq.rfl, if_true] at h ⊢
      cases w1? with
      | none => simp at h
      | some w1 =>
        simp only [Outcome.setSize, Outcome.ok.injEq] at h
        subst h
        simp only [descOf, encWord, encSecond, FT_SOP2, FT_SOPK, FT_SOP1, FT_SOPC, FT_SOPP, FT_SMEM, FT_VOP2, FT_VOP1, FT_VOPC, FT_VOP3a, FT_VOP3b, FT_FLAT, FT_DS,
          Nat.reduceBEq, Bool.false_eq_true, if_false, BEq.rfl, if_true, Bool.or_false, Bool.false_and, ocode, with64_code, setLit_code, vreg_code]
        constructor
        · simp only [Opnd.code]; rw [← hop]; unfold extractBits at *; omega
        · simp [setLit, with64, Opnd.setCount, olit]
    · have hb : (extractBits w0 0 8 == 255) = false := by simpa using h255
      simp only [hb, Bool.false_eq_true, if_false, Outcome.ok.injEq] at h ⊢
      subst h
      simp only [descOf, encWord, encSecond, FT_SOP2, FT_SOPK, FT_SOP1, FT_SOPC, FT_SOPP, FT_SMEM, FT_VOP2, FT_VOP1, FT_VOPC, FT_VOP3a, FT_VOP3b, FT_FLAT, FT_DS,
          Nat.reduceBEq, Bool.false_eq_true, if_false, BEq.rfl, if_true, Bool.or_false, Bool.false_and, ocode, with64_code, setLit_code, vreg_code, hc]
      constructor
      · rw [← hop]; unfold extractBits at *; omega
      · exact nv_olit_with64 _ _ (by rw [hl, hb])

/-! ### VOP1 -/
theorem nv_with64_lit (w a b : Nat) : with64 w (.lit a b) = .lit a b := by unfold with64; split <;> rfl
theorem nv_code_ite (b : Bool) (o : Opnd) (n : Nat) : (if b then o.setCount n else o).code = o.code := by
  split <;> simp [setCount_code]
theorem nv_olit_ite (b : Bool) (o : Opnd) (n : Nat) : olit (some (if b then o.setCount n else o)) = olit (some o) := by
  split <;> cases o <;> simp [Opnd.setCount, olit]

theorem norm_vop1 (c : Bool) (f : Format) (row : Row) (w0 : Nat) (w1? : Option Nat)
    (hf : f.ft = FT_VOP1) (hsz : f.size = 4) (hw0 : w0 < 2 ^ 32) (hw1 : ∀ w1, w1? = some w1 → w1 < 2 ^ 32) :
    decodeRow c f row (normRow c f.ft row w0 w1?).1 (normRow c f.ft row w0 w1?).2 = decodeRow c f row w0 w1? := by
  rw [hf, nv_normRow_vop1]
  by_cases h255 : extractBits w0 0 8 = 255
  · simp [h255]
  · have hb : (extractBits w0 0 8 == 255) = false := by simpa using h255
    simp only [hb, Bool.false_eq_true, if_false]
    unfold decodeRow
    simp only [hsz, hf, FT_SOP2, FT_SOPK, FT_SOP1, FT_SOPC, FT_SOPP, FT_SMEM, FT_VOP2, FT_VOP1, FT_VOPC, FT_VOP3a, FT_VOP3b, FT_FLAT, FT_DS,
      Nat.reduceBEq, Bool.false_eq_true, if_false, BEq.rfl, if_true, dec4, decodeVOP1]
    cases hg0 : getOperand (extractBits w0 0 8) with
    | none => simp only []
    | some s0 =>
      have hl := getOperand_isLit (by have := extractBits_lt w0 0 8; omega) hg0
      generalize (if row.opcode == 2 then getOperand (extractBits w0 17 24) else getOperand (extractBits w0 17 24 + 256)) = gd
      cases gd with
      | none => simp only []
      | some d => simp only [with64_isLit, hl, hb, Bool.false_eq_true, if_false]

theorem desc_vop1 (c : Bool) (f : Format) (row : Row) (w0 : Nat) (w1? : Option Nat) (i : Inst)
    (hf : f.ft = FT_VOP1) (hsz : f.size = 4) (hw0 : w0 < 2 ^ 32) (hw1 : ∀ w1, w1? = some w1 → w1 < 2 ^ 32)
    (henc : w0 / 2 ^ 25 = 63) (hop : extractBits w0 9 16 = row.opcode)
    (h : decodeRow c f row w0 w1? = .ok i) :
    encWord (descOf c i) = (normRow c f.ft row w0 w1?).1 ∧ encSecond (descOf c i) = (normRow c f.ft row w0 w1?).2 := by
  rw [hf, nv_normRow_vop1]
  unfold decodeRow at h
  simp only [hsz, hf, FT_SOP2, FT_SOPK, FT_SOP1, FT_SOPC, FT_SOPP, FT_SMEM, FT_VOP2, FT_VOP1, FT_VOPC, FT_VOP3a, FT_VOP3b, FT_FLAT, FT_DS,
      Nat.reduceBEq, Bool.false_eq_true, if_false, BEq.rfl, if_true, dec4, decodeVOP1] at h
  cases hg0 : getOperand (extractBits w0 0 8) with
  | none => simp [hg0] at h
  | some s0 =>
    have hl := getOperand_isLit (by have := extractBits_lt w0 0 8; omega) hg0
    have hc := getOperand_code (by have := extractBits_lt w0 0 8; omega) hg0
    have hdv := extractBits_lt w0 17 24
    -- the destination operand and its code
    have hd : ∃ d, (if row.opcode == 2 then getOperand (extractBits w0 17 24) else getOperand (extractBits w0 17 24 + 256)) = some d ∧
        (if row.opcode == 2 then d.code else d.code - 256) = extractBits w0 17 24 := by
      by_cases h2 : row.opcode = 2
      · simp only [h2, BEq.rfl, if_true]
        cases hgd : getOperand (extractBits w0 17 24) with
        | none => simp [hg0, hgd, h2] at h
        | some d => exact ⟨d, rfl, getOperand_code (by omega) hgd⟩
      · have hb2 : (row.opcode == 2) = false := by simpa using h2
        simp only [hb2, Bool.false_eq_true, if_false]
        exact ⟨_, getOperand_vgpr (by omega), by simp [vreg_code]⟩
    obtain ⟨d, hd1, hd2⟩ := hd
    simp only [hg0, hd1, with64_isLit, hl] at h
    by_cases h255 : extractBits w0 0 8 = 255
    · rw [h255, nv_getOperand_255] at hg0
      cases hg0
      simp only [h255, BEq.rfl, if_true] at h ⊢
      cases w1? with
      | none => simp at h
      | some w1 =>
        simp only [Outcome.setSize, Outcome.ok.injEq] at h
        subst h
        simp only [descOf, encWord, encSecond, FT_SOP2, FT_SOPK, FT_SOP1, FT_SOPC, FT_SOPP, FT_SMEM, FT_VOP2, FT_VOP1, FT_VOPC, FT_VOP3a, FT_VOP3b, FT_FLAT, FT_DS,
          Nat.reduceBEq, Bool.false_eq_true, if_false, BEq.rfl, if_true, Bool.or_false, Bool.false_and, ocode, nv_code_ite, nv_olit_ite, with64_code, setLit_code, hd2,
          nv_with64_lit]
        constructor
        · simp only [Opnd.code]; rw [← hop]; unfold extractBits at *; omega
        · simp [setLit, olit]
    · have hb : (extractBits w0 0 8 == 255) = false := by simpa using h255
      simp only [hb, Bool.false_eq_true, if_false, Outcome.ok.injEq] at h ⊢
      subst h
      simp only [descOf, encWord, encSecond, FT_SOP2, FT_SOPK, FT_SOP1, FT_SOPC, FT_SOPP, FT_SMEM, FT_VOP2, FT_VOP1, FT_VOPC, FT_VOP3a, FT_VOP3b, FT_FLAT, FT_DS,
          Nat.reduceBEq, Bool.false_eq_true, if_false, BEq.rfl, if_true, Bool.or_false, Bool.false_and, ocode, nv_code_ite, nv_olit_ite, with64_code, setLit_code, hd2, hc]
      constructor
      · rw [← hop]; unfold extractBits at *; omega
      · exact nv_olit_with64 _ _ (by rw [hl, hb])

/-! ### VOP2 -/
theorem nv_oIsSreg_sreg (b : Nat) : oIsSreg (some (sreg b b 0)) = 1 := by
  simp [oIsSreg, sreg]
theorem nv_oIsSreg_vreg (b : Nat) (h : b < 256) : oIsSreg (some (vreg b b 0)) = 0 := by
  have hn : ¬ (R_V0 + b ≥ R_S0) := by simp only [R_S0, R_V0]; omega
  simp only [oIsSreg, vreg]
  rw [if_neg hn]
theorem nv_bit_false {x : Nat} (h : (x == 1) = false) (hx : x < 2) : x = 0 := by
  have : ¬ x = 1 := by simpa using h
  omega

theorem norm_vop2 (c : Bool) (f : Format) (row : Row) (w0 : Nat) (w1? : Option Nat)
    (hf : f.ft = FT_VOP2) (hsz : f.size = 4) (hw0 : w0 < 2 ^ 32) (hw1 : ∀ w1, w1? = some w1 → w1 < 2 ^ 32) :
    decodeRow c f row (normRow c f.ft row w0 w1?).1 (normRow c f.ft row w0 w1?).2 = decodeRow c f row w0 w1? := by
  rw [hf, nv_normRow_vop2]
  by_cases h249 : extractBits w0 0 8 = 249
  · simp only [h249, BEq.rfl, if_true]
    unfold decodeRow
    simp only [hsz, hf, FT_SOP2, FT_SOPK, FT_SOP1, FT_SOPC, FT_SOPP, FT_SMEM, FT_VOP2, FT_VOP1, FT_VOPC, FT_VOP3a, FT_VOP3b, FT_FLAT, FT_DS,
      Nat.reduceBEq, Bool.false_eq_true, if_false, BEq.rfl, if_true, dec4]
    simp only [decodeVOP2, h249, BEq.rfl, if_true]
    cases w1? with
    | none => simp only [Option.map_none]
    | some w1 =>
      simp only [Option.map_some, nv_sd_0_7, nv_sd_8_10, nv_sd_13_13, nv_sd_16_18, nv_sd_19_19, nv_sd_20_20, nv_sd_21_21,
        nv_sd_23_23, nv_sd_24_26, nv_sd_27_27, nv_sd_28_28, nv_sd_29_29, nv_sd_31_31, nv_sd_du]
  · have hb9 : (extractBits w0 0 8 == 249) = false := by simpa using h249
    simp only [hb9, Bool.false_eq_true, if_false]
    by_cases hu : (extractBits w0 0 8 == 255 || isKOpcode row.opcode) = true
    · simp only [hu, if_true]
    · have hu' : (extractBits w0 0 8 == 255 || isKOpcode row.opcode) = false := by simpa using hu
      rw [Bool.or_eq_false_iff] at hu'
      simp only [hu', Bool.or_self, Bool.false_eq_true, if_false]
      unfold decodeRow
      simp only [hsz, hf, FT_SOP2, FT_SOPK, FT_SOP1, FT_SOPC, FT_SOPP, FT_SMEM, FT_VOP2, FT_VOP1, FT_VOPC, FT_VOP3a, FT_VOP3b, FT_FLAT, FT_DS,
        Nat.reduceBEq, Bool.false_eq_true, if_false, BEq.rfl, if_true, dec4]
      simp only [decodeVOP2, hb9, Bool.false_eq_true, if_false]
      cases hg0 : getOperand (extractBits w0 0 8) with
      | none => simp only []
      | some s0 =>
        have hl := getOperand_isLit (by have := extractBits_lt w0 0 8; omega) hg0
        simp only [hl, hu', Bool.false_eq_true, if_false]

theorem nv_desc_vop2_sdwa (c : Bool) (f : Format) (row : Row) (w0 w1 : Nat) (i : Inst)
    (hf : f.ft = FT_VOP2) (hsz : f.size = 4) (hw0 : w0 < 2 ^ 32) (hw1 : w1 < 2 ^ 32)
    (henc : w0 / 2 ^ 31 = 0) (hop : extractBits w0 25 30 = row.opcode)
    (h249 : extractBits w0 0 8 = 249)
    (h : decodeRow c f row w0 (some w1) = .ok i) :
    encWord (descOf c i) = w0 ∧ encSecond (descOf c i) = some (normSdwa w1) := by
  unfold decodeRow at h
  simp only [hsz, hf, FT_SOP2, FT_SOPK, FT_SOP1, FT_SOPC, FT_SOPP, FT_SMEM, FT_VOP2, FT_VOP1, FT_VOPC, FT_VOP3a, FT_VOP3b, FT_FLAT, FT_DS,
    Nat.reduceBEq, Bool.false_eq_true, if_false, BEq.rfl, if_true, dec4] at h
  simp only [decodeVOP2, h249, BEq.rfl, if_true] at h
  have b13 : (extractBits w1 13 13 == 1) = false := by
    cases hb : extractBits w1 13 13 == 1 with
    | false => rfl
    | true => simp [hb, Outcome.setSize] at h
  simp only [b13, Bool.false_eq_true, if_false] at h
  have b19 : (extractBits w1 19 19 == 1) = false := by
    cases hb : extractBits w1 19 19 == 1 with
    | false => rfl
    | true => simp [hb, Outcome.setSize] at h
  simp only [b19, Bool.false_eq_true, if_false] at h
  have b20 : (extractBits w1 20 20 == 1) = false := by
    cases hb : extractBits w1 20 20 == 1 with
    | false => rfl
    | true => simp [hb, Outcome.setSize] at h
  simp only [b20, Bool.false_eq_true, if_false] at h
  have b21 : (extractBits w1 21 21 == 1) = false := by
    cases hb : extractBits w1 21 21 == 1 with
    | false => rfl
    | true => simp [hb, Outcome.setSize] at h
  simp only [b21, Bool.false_eq_true, if_false] at h
  have b27 : (extractBits w1 27 27 == 1) = false := by
    cases hb : extractBits w1 27 27 == 1 with
    | false => rfl
    | true => simp [hb, Outcome.setSize] at h
  simp only [b27, Bool.false_eq_true, if_false] at h
  have b28 : (extractBits w1 28 28 == 1) = false := by
    cases hb : extractBits w1 28 28 == 1 with
    | false => rfl
    | true => simp [hb, Outcome.setSize] at h
  simp only [b28, Bool.false_eq_true, if_false] at h
  have b29 : (extractBits w1 29 29 == 1) = false := by
    cases hb : extractBits w1 29 29 == 1 with
    | false => rfl
    | true => simp [hb, Outcome.setSize] at h
  simp only [b29, Bool.false_eq_true, if_false] at h
  have hk : isKOpcode row.opcode = false := by
    cases hb : isKOpcode row.opcode with
    | false => rfl
    | true => simp [hb, Outcome.setSize] at h
  simp only [hk, Bool.false_eq_true, if_false, Outcome.setSize, Outcome.ok.injEq] at h
  have e13 := nv_bit_false b13 (extractBits_lt w1 13 13)
  have e19 := nv_bit_false b19 (extractBits_lt w1 19 19)
  have e20 := nv_bit_false b20 (extractBits_lt w1 20 20)
  have e21 := nv_bit_false b21 (extractBits_lt w1 21 21)
  have e27 := nv_bit_false b27 (extractBits_lt w1 27 27)
  have e28 := nv_bit_false b28 (extractBits_lt w1 28 28)
  have e29 := nv_bit_false b29 (extractBits_lt w1 29 29)
  have harith := nv_sdwa_arith w1 hw1 e13 e19 e20 e21 e27 e28 e29
  have l1 := extractBits_lt w0 9 16
  have l7 := extractBits_lt w1 0 7
  have hs1 : oIsSreg (some (if extractBits w1 31 31 != 0 then sreg (extractBits w0 9 16) (extractBits w0 9 16) 0
        else vreg (extractBits w0 9 16) (extractBits w0 9 16) 0)) = extractBits w1 31 31 := by
    by_cases h31 : extractBits w1 31 31 = 0
    · simp only [h31, bne_self_eq_false, Bool.false_eq_true, if_false]
      exact nv_oIsSreg_vreg _ (by omega)
    · have : extractBits w1 31 31 = 1 := by have := extractBits_lt w1 31 31; omega
      simp only [this, Nat.reduceBneDiff, if_true]
      exact nv_oIsSreg_sreg _
  have hs0 : oIsSreg (some (if extractBits w1 23 23 != 0 then sreg (extractBits w1 0 7) (extractBits w1 0 7) 0
        else vreg (extractBits w1 0 7) (extractBits w1 0 7) 0)) = extractBits w1 23 23 := by
    by_cases h23 : extractBits w1 23 23 = 0
    · simp only [h23, bne_self_eq_false, Bool.false_eq_true, if_false]
      exact nv_oIsSreg_vreg _ (by omega)
    · have : extractBits w1 23 23 = 1 := by have := extractBits_lt w1 23 23; omega
      simp only [this, Nat.reduceBneDiff, if_true]
      exact nv_oIsSreg_sreg _
  have hc0 : (if extractBits w1 23 23 != 0 then sreg (extractBits w1 0 7) (extractBits w1 0 7) 0
        else vreg (extractBits w1 0 7) (extractBits w1 0 7) 0).code = extractBits w1 0 7 := by
    split <;> rfl
  have hc1 : (if extractBits w1 31 31 != 0 then sreg (extractBits w0 9 16) (extractBits w0 9 16) 0
        else vreg (extractBits w0 9 16) (extractBits w0 9 16) 0).code = extractBits w0 9 16 := by
    split <;> rfl
  subst h
  simp only [descOf, FT_SOP2, FT_SOPK, FT_SOP1, FT_SOPC, FT_SOPP, FT_SMEM, FT_VOP2, FT_VOP1, FT_VOPC, FT_VOP3a, FT_VOP3b, FT_FLAT, FT_DS,
    Nat.reduceBEq, Bool.false_eq_true, if_false, BEq.rfl, if_true]
  simp only [encWord, encSecond, sdwaWord, FT_SOP2, FT_SOPK, FT_SOP1, FT_SOPC, FT_SOPP, FT_SMEM, FT_VOP2, FT_VOP1, FT_VOPC, FT_VOP3a, FT_VOP3b, FT_FLAT, FT_DS,
    Nat.reduceBEq, Bool.false_eq_true, if_false, BEq.rfl, if_true, Bool.or_false, Bool.and_self]
  simp only [hs0, hs1, ocode, hc0, hc1, vreg_code,
    selInv_sdwaSel _ (by have := extractBits_lt w1 8 10; omega : extractBits w1 8 10 < 8),
    selInv_sdwaSel _ (by have := extractBits_lt w1 16 18; omega : extractBits w1 16 18 < 8),
    selInv_sdwaSel _ (by have := extractBits_lt w1 24 26; omega : extractBits w1 24 26 < 8)]
  constructor
  · clear harith hs0 hs1 hc0 hc1
    rw [← hop]; unfold extractBits at *; omega
  · exact congrArg some harith

theorem nv_desc_vop2_rest (c : Bool) (f : Format) (row : Row) (w0 : Nat) (w1? : Option Nat) (i : Inst)
    (hf : f.ft = FT_VOP2) (hsz : f.size = 4) (hw0 : w0 < 2 ^ 32)
    (henc : w0 / 2 ^ 31 = 0) (hop : extractBits w0 25 30 = row.opcode)
    (h249 : (extractBits w0 0 8 == 249) = false)
    (h : decodeRow c f row w0 w1? = .ok i) :
    encWord (descOf c i) = w0 ∧
      encSecond (descOf c i) = (if extractBits w0 0 8 == 255 || isKOpcode row.opcode then w1? else none) := by
  unfold decodeRow at h
  simp only [hsz, hf, FT_SOP2, FT_SOPK, FT_SOP1, FT_SOPC, FT_SOPP, FT_SMEM, FT_VOP2, FT_VOP1, FT_VOPC, FT_VOP3a, FT_VOP3b, FT_FLAT, FT_DS,
    Nat.reduceBEq, Bool.false_eq_true, if_false, BEq.rfl, if_true, dec4] at h
  simp only [decodeVOP2, h249, Bool.false_eq_true, if_false] at h
  cases hg0 : getOperand (extractBits w0 0 8) with
  | none => simp [hg0] at h
  | some s0 =>
    have hl := getOperand_isLit (by have := extractBits_lt w0 0 8; omega) hg0
    have hc := getOperand_code (by have := extractBits_lt w0 0 8; omega) hg0
    simp only [hg0, hl] at h
    by_cases hk : isKOpcode row.opcode = true
    · simp only [hk, if_true, Bool.or_true] at h ⊢
      cases w1? with
      | none => simp at h
      | some w1 =>
        simp only [Outcome.setSize, Outcome.ok.injEq] at h
        subst h
        simp only [descOf, FT_SOP2, FT_SOPK, FT_SOP1, FT_SOPC, FT_SOPP, FT_SMEM, FT_VOP2, FT_VOP1, FT_VOPC, FT_VOP3a, FT_VOP3b, FT_FLAT, FT_DS,
          Nat.reduceBEq, Bool.false_eq_true, if_false, BEq.rfl, if_true]
        simp only [encWord, FT_SOP2, FT_SOPK, FT_SOP1, FT_SOPC, FT_SOPP, FT_SMEM, FT_VOP2, FT_VOP1, FT_VOPC, FT_VOP3a, FT_VOP3b, FT_FLAT, FT_DS,
          Nat.reduceBEq, Bool.false_eq_true, if_false, BEq.rfl, if_true]
        simp only [encSecond, FT_SOP2, FT_SOPK, FT_SOP1, FT_SOPC, FT_SOPP, FT_SMEM, FT_VOP2, FT_VOP1, FT_VOPC, FT_VOP3a, FT_VOP3b, FT_FLAT, FT_DS,
          Nat.reduceBEq, Bool.false_eq_true, if_false, BEq.rfl, if_true, Bool.or_false, Bool.and_false, Bool.false_and]
        simp only [ocode, setLit_code, vreg_code, hc]
        constructor
        · rw [← hop]; unfold extractBits at *; omega
        · cases s0 <;> simp [setLit, olit, orr]
    · have hk' : isKOpcode row.opcode = false := by simpa using hk
      simp only [hk', Bool.false_eq_true, if_false, Bool.or_false] at h ⊢
      by_cases h255 : extractBits w0 0 8 = 255
      · simp only [h255, BEq.rfl, if_true] at h ⊢
        cases w1? with
        | none => simp at h
        | some w1 =>
          simp only [Outcome.setSize, Outcome.ok.injEq] at h
          subst h
          rw [h255, nv_getOperand_255] at hg0
          cases hg0
          simp only [descOf, FT_SOP2, FT_SOPK, FT_SOP1, FT_SOPC, FT_SOPP, FT_SMEM, FT_VOP2, FT_VOP1, FT_VOPC, FT_VOP3a, FT_VOP3b, FT_FLAT, FT_DS,
            Nat.reduceBEq, Bool.false_eq_true, if_false, BEq.rfl, if_true]
          simp only [encWord, FT_SOP2, FT_SOPK, FT_SOP1, FT_SOPC, FT_SOPP, FT_SMEM, FT_VOP2, FT_VOP1, FT_VOPC, FT_VOP3a, FT_VOP3b, FT_FLAT, FT_DS,
            Nat.reduceBEq, Bool.false_eq_true, if_false, BEq.rfl, if_true]
          simp only [encSecond, FT_SOP2, FT_SOPK, FT_SOP1, FT_SOPC, FT_SOPP, FT_SMEM, FT_VOP2, FT_VOP1, FT_VOPC, FT_VOP3a, FT_VOP3b, FT_FLAT, FT_DS,
            Nat.reduceBEq, Bool.false_eq_true, if_false, BEq.rfl, if_true, Bool.or_false, Bool.and_false, Bool.false_and]
          simp only [ocode, setLit_code, vreg_code]
          constructor
          · simp only [Opnd.code]; rw [← hop]; unfold extractBits at *; omega
          · simp [setLit, olit, orr]
      · have hb : (extractBits w0 0 8 == 255) = false := by simpa using h255
        simp only [hb, Bool.false_eq_true, if_false, Outcome.ok.injEq] at h ⊢
        subst h
        simp only [descOf, FT_SOP2, FT_SOPK, FT_SOP1, FT_SOPC, FT_SOPP, FT_SMEM, FT_VOP2, FT_VOP1, FT_VOPC, FT_VOP3a, FT_VOP3b, FT_FLAT, FT_DS,
          Nat.reduceBEq, Bool.false_eq_true, if_false, BEq.rfl, if_true]
        simp only [encWord, FT_SOP2, FT_SOPK, FT_SOP1, FT_SOPC, FT_SOPP, FT_SMEM, FT_VOP2, FT_VOP1, FT_VOPC, FT_VOP3a, FT_VOP3b, FT_FLAT, FT_DS,
          Nat.reduceBEq, Bool.false_eq_true, if_false, BEq.rfl, if_true]
        simp only [encSecond, FT_SOP2, FT_SOPK, FT_SOP1, FT_SOPC, FT_SOPP, FT_SMEM, FT_VOP2, FT_VOP1, FT_VOPC, FT_VOP3a, FT_VOP3b, FT_FLAT, FT_DS,
          Nat.reduceBEq, Bool.false_eq_true, if_false, BEq.rfl, if_true, Bool.or_false, Bool.and_false, Bool.false_and]
        simp only [ocode, setLit_code, vreg_code, hc]
        constructor
        · rw [← hop]; unfold extractBits at *; omega
        · rw [nv_olit_nonlit _ (by rw [hl, hb])]; rfl

theorem desc_vop2 (c : Bool) (f : Format) (row : Row) (w0 : Nat) (w1? : Option Nat) (i : Inst)
    (hf : f.ft = FT_VOP2) (hsz : f.size = 4) (hw0 : w0 < 2 ^ 32) (hw1 : ∀ w1, w1? = some w1 → w1 < 2 ^ 32)
    (henc : w0 / 2 ^ 31 = 0) (hop : extractBits w0 25 30 = row.opcode)
    (h : decodeRow c f row w0 w1? = .ok i) :
    encWord (descOf c i) = (normRow c f.ft row w0 w1?).1 ∧ encSecond (descOf c i) = (normRow c f.ft row w0 w1?).2 := by
  rw [hf, nv_normRow_vop2]
  by_cases h249 : extractBits w0 0 8 = 249
  · simp only [h249, BEq.rfl, if_true]
    cases w1? with
    | none =>
      unfold decodeRow at h
      simp only [hsz, hf, FT_SOP2, FT_SOPK, FT_SOP1, FT_SOPC, FT_SOPP, FT_SMEM, FT_VOP2, FT_VOP1, FT_VOPC, FT_VOP3a, FT_VOP3b, FT_FLAT, FT_DS,
        Nat.reduceBEq, Bool.false_eq_true, if_false, BEq.rfl, if_true, dec4] at h
      simp [decodeVOP2, h249] at h
    | some w1 =>
      exact nv_desc_vop2_sdwa c f row w0 w1 i hf hsz hw0 (hw1 w1 rfl) henc hop h249 h
  · have hb9 : (extractBits w0 0 8 == 249) = false := by simpa using h249
    simp only [hb9, Bool.false_eq_true, if_false]
    exact nv_desc_vop2_rest c f row w0 w1? i hf hsz hw0 henc hop hb9 h

end C04
