import MgpuProofs.C02WfDefs
/-! The concrete instruction set of C02 (`CInst`, `compile`, `cprog`) meets the hypotheses
    `Inst.WF`, `Inst.PcIndep`, `Prog.WF` the simulation theorems are stated under. -/
namespace C02.Wf

/-! ## basic facts about the cells -/

theorem setR_same (r : RF) (x v : Nat) : setR r x v x = v := by simp [setR]
theorem setR_ne (r : RF) (x v y : Nat) (h : y ≠ x) : setR r x v y = r y := by simp [setR, h]

theorem setR_at (r r' : RF) (x v y : Nat) (h : y = x) : setR r x v y = setR r' x v y := by
  simp [setR, h]

theorem mem_vregsOf (d x : Nat) : x ∈ vregsOf d ↔ ∃ l, l < 64 ∧ x = vreg d l := by
  simp only [vregsOf, List.mem_map, List.mem_range]
  constructor
  · rintro ⟨l, hl, rfl⟩; exact ⟨l, hl, rfl⟩
  · rintro ⟨l, hl, rfl⟩; exact ⟨l, hl, rfl⟩

theorem vreg_mem_vregsOf (d l : Nat) (h : l < 64) : vreg d l ∈ vregsOf d :=
  (mem_vregsOf d _).2 ⟨l, h, rfl⟩

theorem mem_lanes (e l : Nat) : l ∈ lanes e ↔ l < 64 ∧ e.testBit l = true := by
  simp [lanes]

theorem vlane_some (r : RF) (v x l : Nat) (h : vlane r v x = some l) :
    l < 64 ∧ (execOf r).testBit l = true ∧ x = vreg v l := by
  unfold vlane at h
  split at h
  · rename_i hc
    split at h
    · rename_i hb
      injection h with h
      subst h
      simp only [vreg] at hc ⊢
      exact ⟨by omega, hb, by omega⟩
    · cases h
  · cases h

theorem vlane_vreg (r : RF) (v l : Nat) (hl : l < 64) (hb : (execOf r).testBit l = true) :
    vlane r v (vreg v l) = some l := by
  unfold vlane
  have h1 : vreg v l - vreg v 0 = l := by simp only [vreg]; omega
  rw [h1, if_pos, if_pos hb]
  refine ⟨?_, ?_⟩ <;> simp only [vreg] <;> omega

theorem vlane_none_of_not_mem (r : RF) (v x : Nat) (h : x ∉ vregsOf v) : vlane r v x = none := by
  cases hv : vlane r v x with
  | none => rfl
  | some l =>
    obtain ⟨h1, _, h3⟩ := vlane_some r v x l hv
    exact absurd ((mem_vregsOf v x).2 ⟨l, h1, h3⟩) h

theorem vlane_congr (r r' : RF) (v x : Nat) (he : r EXEC = r' EXEC) : vlane r v x = vlane r' v x := by
  unfold vlane execOf; rw [he]

/-! ## `PcIndep` -/

theorem compile_pcIndep (c : CInst) (h : ∀ d, c ≠ .getpc d) : (compile c).PcIndep := by
  intro p p' r
  cases c <;> first | rfl | exact absurd rfl (h _)

theorem getpc_not_pcIndep (d : Nat) : ¬ (compile (.getpc d)).PcIndep := by
  intro h
  have h1 := congrFun (h 0 1 (fun _ => 0)) (sreg d)
  have e : ∀ p : Nat, (compile (.getpc d)).f p (fun _ => 0) (sreg d) = p % M32 := by
    intro p
    show setR (setR _ (sreg d) (p % M32)) (sreg (d + 1)) _ (sreg d) = _
    rw [setR_ne _ _ _ _ (by simp only [sreg]; omega), setR_same]
  rw [e, e] at h1
  revert h1
  decide

/-! ## more helper lemmas -/

theorem mem_ldsCells (x : Nat) : x ∈ ldsCells ↔ ldsCell 0 ≤ x ∧ x < ldsCell 1024 := by
  simp only [ldsCells, List.mem_map, List.mem_range, ldsCell]
  constructor
  · rintro ⟨b, hb, rfl⟩; omega
  · intro h; exact ⟨x - 100000, by omega, by omega⟩

theorem find?_congr' {α : Type} (p q : α → Bool) (l : List α) (h : ∀ x ∈ l, p x = q x) :
    l.find? p = l.find? q := by
  induction l with
  | nil => rfl
  | cons a t ih =>
    simp only [List.find?_cons]
    rw [h a (List.mem_cons_self ..), ih (fun x hx => h x (List.mem_cons_of_mem _ hx))]

theorem coverLane_congr (e : Nat) (f g : Nat → Nat) (a : Nat) (h : ∀ l, l < 64 → f l = g l) :
    coverLane e f a = coverLane e g a := by
  unfold coverLane
  apply find?_congr'
  intro l hl
  rw [List.mem_reverse, mem_lanes] at hl
  rw [h l hl.1]

theorem coverLane_some (e : Nat) (f : Nat → Nat) (a l : Nat) (h : coverLane e f a = some l) :
    l < 64 ∧ e.testBit l = true ∧ f l ≤ a ∧ a < f l + 4 := by
  unfold coverLane at h
  have h1 := List.mem_of_find?_eq_some h
  have h2 := List.find?_some h
  rw [List.mem_reverse, mem_lanes] at h1
  exact ⟨h1.1, h1.2, of_decide_eq_true h2⟩

theorem coverLane_none (e : Nat) (f : Nat → Nat) (a : Nat) :
    coverLane e f a = none ↔ ∀ l ∈ lanes e, ¬ (f l ≤ a ∧ a < f l + 4) := by
  unfold coverLane
  rw [List.find?_eq_none]
  constructor
  · intro h l hl
    have := h l (List.mem_reverse.2 hl)
    simpa using this
  · intro h l hl
    have := h l (List.mem_reverse.1 hl)
    simpa using this

theorem inRanges_true (rs : List (Nat × Nat)) (b : Nat) :
    inRanges rs b = true ↔ ∃ p ∈ rs, p.1 ≤ b ∧ b < p.1 + p.2 := by
  simp [inRanges, List.any_eq_true]

theorem inRanges_false (rs : List (Nat × Nat)) (b : Nat) :
    inRanges rs b = false ↔ ∀ p ∈ rs, ¬ (p.1 ≤ b ∧ b < p.1 + p.2) := by
  simp [inRanges, List.any_eq_false]

theorem flatFp_true (r : RF) (a b : Nat) :
    inRanges (flatFp r a) b = true ↔
      ∃ l ∈ lanes (execOf r), addr64 r a l ≤ b ∧ b < addr64 r a l + 4 := by
  rw [inRanges_true]
  simp only [flatFp, List.mem_map]
  constructor
  · rintro ⟨p, ⟨l, hl, rfl⟩, h⟩; exact ⟨l, hl, h⟩
  · rintro ⟨l, hl, h⟩; exact ⟨_, ⟨l, hl, rfl⟩, h⟩

theorem flatFp_false (r : RF) (a b : Nat) :
    inRanges (flatFp r a) b = false ↔
      ∀ l ∈ lanes (execOf r), ¬ (addr64 r a l ≤ b ∧ b < addr64 r a l + 4) := by
  rw [inRanges_false]
  simp only [flatFp, List.mem_map]
  constructor
  · intro h l hl; exact h _ ⟨l, hl, rfl⟩
  · rintro h p ⟨l, hl, rfl⟩; exact h l hl

theorem execOf_congr (r r' : RF) (h : r EXEC = r' EXEC) : execOf r = execOf r' := by
  unfold execOf; rw [h]

theorem addr64_congr (r r' : RF) (a l : Nat) (hl : l < 64)
    (h1 : ∀ x ∈ vregsOf a, r x = r' x) (h2 : ∀ x ∈ vregsOf (a + 1), r x = r' x) :
    addr64 r a l = addr64 r' a l := by
  unfold addr64
  rw [h1 _ (vreg_mem_vregsOf a l hl), h2 _ (vreg_mem_vregsOf (a + 1) l hl)]

theorem flatFp_congr (r r' : RF) (a : Nat) (he : r EXEC = r' EXEC)
    (h1 : ∀ x ∈ vregsOf a, r x = r' x) (h2 : ∀ x ∈ vregsOf (a + 1), r x = r' x) :
    flatFp r a = flatFp r' a := by
  unfold flatFp
  rw [execOf_congr r r' he]
  apply List.map_congr_left
  intro l hl
  rw [addr64_congr r r' a l ((mem_lanes _ _).1 hl).1 h1 h2]

theorem le32_congr (m m' : Nat → Nat) (a : Nat) (h0 : m a = m' a) (h1 : m (a + 1) = m' (a + 1))
    (h2 : m (a + 2) = m' (a + 2)) (h3 : m (a + 3) = m' (a + 3)) : le32 m a = le32 m' a := by
  unfold le32; rw [h0, h1, h2, h3]

theorem mod_add_comm (M p k s : Nat) : ((p + k) % M + s) % M = ((p + s) % M + k) % M := by
  rw [Nat.mod_add_mod, Nat.mod_add_mod, Nat.add_right_comm]

theorem brTarget_pcAdd (off p k : Nat) : brTarget off (pcAdd p k) = pcAdd (brTarget off p) k := by
  unfold brTarget pcAdd
  exact mod_add_comm PCM p k (sext16x4 off)

/-! ## `Inst.WF`, field by field -/

theorem compile_f_frame (c : CInst) :
    ∀ p r x, x ∉ (compile c).wr → (compile c).f p r x = r x := by
  intro p r x hx
  cases c with
  | smov d imm =>
    simp only [compile, List.mem_cons, List.not_mem_nil, or_false] at hx
    exact setR_ne _ _ _ _ hx
  | sadd d a b =>
    simp only [compile, List.mem_cons, List.not_mem_nil, or_false, not_or] at hx
    show setR (setR _ _ _) _ _ x = r x
    rw [setR_ne _ _ _ _ hx.2, setR_ne _ _ _ _ hx.1]
  | scmp a b =>
    simp only [compile, List.mem_cons, List.not_mem_nil, or_false] at hx
    exact setR_ne _ _ _ _ hx
  | sexec v =>
    simp only [compile, List.mem_cons, List.not_mem_nil, or_false] at hx
    exact setR_ne _ _ _ _ hx
  | vmov d s =>
    simp only [compile] at hx ⊢
    rw [vlane_none_of_not_mem _ _ _ hx]
  | vxor d s a =>
    simp only [compile] at hx ⊢
    rw [vlane_none_of_not_mem _ _ _ hx]
  | dsw a d =>
    simp only [compile] at hx ⊢
    rw [mem_ldsCells] at hx
    rw [if_neg hx]
  | dsr d a =>
    simp only [compile] at hx ⊢
    rw [vlane_none_of_not_mem _ _ _ hx]
  | getpc d =>
    simp only [compile, List.mem_cons, List.not_mem_nil, or_false, not_or] at hx
    show setR (setR _ _ _) _ _ x = r x
    rw [setR_ne _ _ _ _ hx.2, setR_ne _ _ _ _ hx.1]
  | svcc v =>
    simp only [compile, List.mem_cons, List.not_mem_nil, or_false] at hx
    exact setR_ne _ _ _ _ hx
  | vcmp s a =>
    simp only [compile, List.mem_cons, List.not_mem_nil, or_false] at hx
    exact setR_ne _ _ _ _ hx
  | vrfl d a =>
    simp only [compile, List.mem_cons, List.not_mem_nil, or_false] at hx
    exact setR_ne _ _ _ _ hx
  | _ => rfl

theorem lanes_headD_lt (e : Nat) : (lanes e).headD 0 < 64 := by
  cases hl : lanes e with
  | nil => simp only [List.headD_nil]; omega
  | cons x t =>
    simp only [List.headD_cons]
    exact ((mem_lanes e x).1 (hl ▸ List.mem_cons_self ..)).1

theorem vcmp_filter_congr (r r' : RF) (s a : Nat) (he : r EXEC = r' EXEC)
    (hs : r (sreg s) = r' (sreg s)) (ha : ∀ l, l < 64 → r (vreg a l) = r' (vreg a l)) :
    (lanes (execOf r)).filter (fun l => decide (r (sreg s) % M32 < r (vreg a l) % M32)) =
    (lanes (execOf r')).filter (fun l => decide (r' (sreg s) % M32 < r' (vreg a l) % M32)) := by
  rw [← execOf_congr r r' he]
  apply List.filter_congr
  intro l hl
  rw [hs, ha l ((mem_lanes _ _).1 hl).1]

/-- the vector ALU pattern: the value of an active lane's cell depends on `rd` only -/
theorem vec_f_dep (d : Nat) (r r' : RF) (g g' : Nat → Nat) (x : Nat) (he : r EXEC = r' EXEC)
    (hx : r x = r' x) (hg : ∀ l, l < 64 → (execOf r).testBit l = true → g l = g' l) :
    (match vlane r d x with | some l => g l | none => r x) =
    (match vlane r' d x with | some l => g' l | none => r' x) := by
  rw [← vlane_congr r r' d x he]
  cases hv : vlane r d x with
  | none => exact hx
  | some l => exact hg l (vlane_some _ _ _ _ hv).1 (vlane_some _ _ _ _ hv).2.1

theorem compile_f_dep (c : CInst) :
    ∀ p r r', (∀ x ∈ (compile c).rd ++ (compile c).wr, r x = r' x) →
      ∀ x ∈ (compile c).wr, (compile c).f p r x = (compile c).f p r' x := by
  intro p r r' h x hx
  cases c with
  | smov d imm =>
    simp only [compile, List.mem_cons, List.not_mem_nil, or_false] at hx
    exact setR_at _ _ _ _ _ hx
  | sadd d a b =>
    have ha : r (sreg a) = r' (sreg a) := h _ (by simp [compile])
    have hb : r (sreg b) = r' (sreg b) := h _ (by simp [compile])
    simp only [compile, List.mem_cons, List.not_mem_nil, or_false] at hx
    simp only [compile, ha, hb]
    by_cases h1 : x = SCC
    · subst h1; rw [setR_same, setR_same]
    · have h2 : x = sreg d := by cases hx with | inl h => exact h | inr h => exact absurd h h1
      rw [setR_ne _ _ _ _ h1, setR_ne _ _ _ _ h1]
      exact setR_at _ _ _ _ _ h2
  | scmp a b =>
    have ha : r (sreg a) = r' (sreg a) := h _ (by simp [compile])
    have hb : r (sreg b) = r' (sreg b) := h _ (by simp [compile])
    simp only [compile, List.mem_cons, List.not_mem_nil, or_false] at hx
    simp only [compile, ha, hb]
    exact setR_at _ _ _ _ _ hx
  | sexec v =>
    simp only [compile, List.mem_cons, List.not_mem_nil, or_false] at hx
    simp only [compile]
    exact setR_at _ _ _ _ _ hx
  | vmov d s =>
    have he : r EXEC = r' EXEC := h _ (by simp [compile])
    have hs : r (sreg s) = r' (sreg s) := h _ (by simp [compile])
    have hxx : r x = r' x := h _ (List.mem_append_right _ hx)
    exact vec_f_dep d r r' (fun _ => r (sreg s) % M32) (fun _ => r' (sreg s) % M32) x he hxx
      (fun l _ _ => by simp only [hs])
  | vxor d s a =>
    have he : r EXEC = r' EXEC := h _ (by simp [compile])
    have hs : r (sreg s) = r' (sreg s) := h _ (by simp [compile])
    have hxx : r x = r' x := h _ (List.mem_append_right _ hx)
    have hv : ∀ l, l < 64 → r (vreg a l) = r' (vreg a l) := fun l hl =>
      h _ (by simp [compile, vreg_mem_vregsOf a l hl])
    exact vec_f_dep d r r' (fun l => (r (sreg s) % M32) ^^^ (r (vreg a l) % M32))
      (fun l => (r' (sreg s) % M32) ^^^ (r' (vreg a l) % M32)) x he hxx
      (fun l hl _ => by simp only [hs, hv l hl])
  | dsw a d =>
    have he : r EXEC = r' EXEC := h _ (by simp [compile])
    have hxx : r x = r' x := h _ (List.mem_append_right _ hx)
    have ha : ∀ l, l < 64 → r (vreg a l) = r' (vreg a l) := fun l hl =>
      h _ (by simp [compile, vreg_mem_vregsOf a l hl])
    have hd : ∀ l, l < 64 → r (vreg d l) = r' (vreg d l) := fun l hl =>
      h _ (by simp [compile, vreg_mem_vregsOf d l hl])
    simp only [compile] at hx ⊢
    rw [mem_ldsCells] at hx
    rw [if_pos hx, if_pos hx, ← execOf_congr r r' he,
      ← coverLane_congr (execOf r) (fun l => r (vreg a l) % M32) (fun l => r' (vreg a l) % M32) _
        (fun l hl => by simp only [ha l hl])]
    cases hc : coverLane (execOf r) (fun l => r (vreg a l) % M32) (x - ldsCell 0) with
    | none => exact hxx
    | some l =>
      have hl := (coverLane_some _ _ _ _ hc).1
      simp only [ha l hl, hd l hl]
  | dsr d a =>
    have he : r EXEC = r' EXEC := h _ (by simp [compile])
    have hxx : r x = r' x := h _ (List.mem_append_right _ hx)
    have ha : ∀ l, l < 64 → r (vreg a l) = r' (vreg a l) := fun l hl =>
      h _ (by simp [compile, vreg_mem_vregsOf a l hl])
    have hc : ∀ b, b < 1024 → r (ldsCell b) = r' (ldsCell b) := fun b hb =>
      h _ (by
        have : ldsCell b ∈ ldsCells := (mem_ldsCells _).2 (by simp only [ldsCell]; omega)
        simp [compile, this])
    have hm : (fun b => if b < 1024 then r (ldsCell b) else 0) =
        (fun b => if b < 1024 then r' (ldsCell b) else 0) := by
      funext b
      by_cases hb : b < 1024
      · rw [if_pos hb, if_pos hb, hc b hb]
      · rw [if_neg hb, if_neg hb]
    exact vec_f_dep d r r'
      (fun l => le32 (fun b => if b < 1024 then r (ldsCell b) else 0) (r (vreg a l) % M32))
      (fun l => le32 (fun b => if b < 1024 then r' (ldsCell b) else 0) (r' (vreg a l) % M32))
      x he hxx (fun l hl _ => by simp only [hm, ha l hl])
  | getpc d =>
    simp only [compile, List.mem_cons, List.not_mem_nil, or_false] at hx
    simp only [compile]
    by_cases h1 : x = sreg (d + 1)
    · subst h1; rw [setR_same, setR_same]
    · have h2 : x = sreg d := by cases hx with | inl h => exact h | inr h => exact absurd h h1
      rw [setR_ne _ _ _ _ h1, setR_ne _ _ _ _ h1]
      exact setR_at _ _ _ _ _ h2
  | svcc v =>
    simp only [compile, List.mem_cons, List.not_mem_nil, or_false] at hx
    simp only [compile]
    exact setR_at _ _ _ _ _ hx
  | vcmp s a =>
    have he : r EXEC = r' EXEC := h _ (by simp [compile])
    have hs : r (sreg s) = r' (sreg s) := h _ (by simp [compile])
    have ha : ∀ l, l < 64 → r (vreg a l) = r' (vreg a l) := fun l hl =>
      h _ (by simp [compile, vreg_mem_vregsOf a l hl])
    simp only [compile, List.mem_cons, List.not_mem_nil, or_false] at hx
    simp only [compile, vcmp_filter_congr r r' s a he hs ha]
    exact setR_at _ _ _ _ _ hx
  | vrfl d a =>
    have he : r EXEC = r' EXEC := h _ (by simp [compile])
    have ha : ∀ l, l < 64 → r (vreg a l) = r' (vreg a l) := fun l hl =>
      h _ (by simp [compile, vreg_mem_vregsOf a l hl])
    simp only [compile, List.mem_cons, List.not_mem_nil, or_false] at hx
    simp only [compile, ← execOf_congr r r' he, ha _ (lanes_headD_lt (execOf r))]
    exact setR_at _ _ _ _ _ hx
  | _ => exact h x (List.mem_append_right _ hx)

theorem compile_tgt_dep (c : CInst) :
    ∀ r r' p, (∀ x ∈ (compile c).rd, r x = r' x) → (compile c).tgt r p = (compile c).tgt r' p := by
  intro r r' p h
  cases c with
  | cbr on off =>
    have hs : r SCC = r' SCC := h _ (by simp [compile])
    simp only [compile, hs]
  | cbrv on off =>
    have hs : r VCC = r' VCC := h _ (by simp [compile])
    simp only [compile, hs]
  | _ => rfl

theorem compile_tgt_rel (c : CInst) :
    ∀ r p, (compile c).tgt r (pcAdd p (compile c).size) = pcAdd ((compile c).tgt r p) (compile c).size := by
  intro r p
  cases c with
  | br off => exact brTarget_pcAdd off p 4
  | cbr on off =>
    simp only [compile]
    split
    · exact brTarget_pcAdd off p 4
    · rfl
  | cbrv on off =>
    simp only [compile]
    split
    · exact brTarget_pcAdd off p 4
    · rfl
  | _ => rfl

theorem compile_wrD_sub (c : CInst) : ∀ r x, x ∈ (compile c).wrD r → x ∈ (compile c).wr := by
  intro r x hx
  cases c with
  | fld d a =>
    simp only [compile, List.mem_map] at hx ⊢
    obtain ⟨l, hl, rfl⟩ := hx
    exact vreg_mem_vregsOf d l ((mem_lanes _ _).1 hl).1
  | sld d b off => exact hx
  | _ => cases hx

theorem compile_ld_frame (c : CInst) :
    ∀ r m x, x ∉ (compile c).wrD r → (compile c).ld r m x = r x := by
  intro r m x hx
  cases c with
  | fld d a =>
    simp only [compile, List.mem_map] at hx ⊢
    cases hv : vlane r d x with
    | none => rfl
    | some l =>
      obtain ⟨h1, h2, h3⟩ := vlane_some _ _ _ _ hv
      exact absurd ⟨l, (mem_lanes _ _).2 ⟨h1, h2⟩, h3.symm⟩ hx
  | sld d b off =>
    simp only [compile, List.mem_cons, List.not_mem_nil, or_false] at hx ⊢
    exact setR_ne _ _ _ _ hx
  | _ => rfl

theorem compile_dep_static (c : CInst) :
    ∀ r r', (∀ x ∈ (compile c).rd, r x = r' x) →
      (compile c).wrD r = (compile c).wrD r' ∧ (compile c).fpl r = (compile c).fpl r' ∧
      (compile c).noTxn r = (compile c).noTxn r' := by
  intro r r' h
  cases c with
  | fld d a =>
    have he : r EXEC = r' EXEC := h _ (by simp [compile])
    have h1 : ∀ x ∈ vregsOf a, r x = r' x := fun x hx => h _ (by simp [compile, hx])
    have h2 : ∀ x ∈ vregsOf (a + 1), r x = r' x := fun x hx => h _ (by simp [compile, hx])
    simp only [compile, execOf_congr r r' he, flatFp_congr r r' a he h1 h2, and_self]
  | fst a d =>
    have he : r EXEC = r' EXEC := h _ (by simp [compile])
    have h1 : ∀ x ∈ vregsOf a, r x = r' x := fun x hx => h _ (by simp [compile, hx])
    have h2 : ∀ x ∈ vregsOf (a + 1), r x = r' x := fun x hx => h _ (by simp [compile, hx])
    simp only [compile, execOf_congr r r' he, flatFp_congr r r' a he h1 h2, and_self]
  | sld d b off =>
    have h1 : r (sreg b) = r' (sreg b) := h _ (by simp [compile])
    have h2 : r (sreg (b + 1)) = r' (sreg (b + 1)) := h _ (by simp [compile])
    simp only [compile, saddr, h1, h2, and_self]
  | _ => exact ⟨rfl, rfl, rfl⟩

theorem compile_ld_depR (c : CInst) :
    ∀ r r' m, (∀ x ∈ (compile c).rd, r x = r' x) →
      ∀ x ∈ (compile c).wrD r, (compile c).ld r m x = (compile c).ld r' m x := by
  intro r r' m h x hx
  cases c with
  | fld d a =>
    have he : r EXEC = r' EXEC := h _ (by simp [compile])
    have h1 : ∀ x ∈ vregsOf a, r x = r' x := fun x hx => h _ (by simp [compile, hx])
    have h2 : ∀ x ∈ vregsOf (a + 1), r x = r' x := fun x hx => h _ (by simp [compile, hx])
    simp only [compile, List.mem_map] at hx ⊢
    obtain ⟨l, hl, rfl⟩ := hx
    rw [mem_lanes] at hl
    rw [← vlane_congr r r' d _ he, vlane_vreg _ _ _ hl.1 hl.2]
    simp only [addr64_congr r r' a l hl.1 h1 h2]
  | sld d b off =>
    have h1 : r (sreg b) = r' (sreg b) := h _ (by simp [compile])
    have h2 : r (sreg (b + 1)) = r' (sreg (b + 1)) := h _ (by simp [compile])
    simp only [compile, List.mem_cons, List.not_mem_nil, or_false] at hx ⊢
    simp only [saddr, h1, h2]
    exact setR_at _ _ _ _ _ hx
  | _ => cases hx

theorem compile_ld_depM (c : CInst) :
    ∀ r m m', (∀ a, (compile c).fp r a = true → m a = m' a) →
      ∀ x ∈ (compile c).wrD r, (compile c).ld r m x = (compile c).ld r m' x := by
  intro r m m' h x hx
  cases c with
  | fld d a =>
    simp only [Inst.fp, compile, List.mem_map] at hx h ⊢
    obtain ⟨l, hl, rfl⟩ := hx
    have hl' := (mem_lanes _ _).1 hl
    rw [vlane_vreg _ _ _ hl'.1 hl'.2]
    have hk : ∀ k, k < 4 → m (addr64 r a l + k) = m' (addr64 r a l + k) := fun k hk =>
      h _ ((flatFp_true r a _).2 ⟨l, hl, by omega, by omega⟩)
    exact le32_congr m m' _ (hk 0 (by omega)) (hk 1 (by omega)) (hk 2 (by omega)) (hk 3 (by omega))
  | sld d b off =>
    simp only [Inst.fp, compile, List.mem_cons, List.not_mem_nil, or_false] at hx h ⊢
    have hk : ∀ k, k < 4 → m (saddr r b off + k) = m' (saddr r b off + k) := fun k hk =>
      h _ ((inRanges_true _ _).2 ⟨_, List.mem_singleton.2 rfl, by simp only; omega, by simp only; omega⟩)
    rw [le32_congr m m' (saddr r b off) (hk 0 (by omega)) (hk 1 (by omega)) (hk 2 (by omega)) (hk 3 (by omega))]
  | _ => cases hx

theorem compile_st_frame (c : CInst) : (compile c).isStore = true →
    ∀ r m a, (compile c).fp r a = false → (compile c).stf r m a = m a := by
  intro hs r m b h
  cases c with
  | fst a d =>
    simp only [Inst.fp, compile] at h ⊢
    rw [flatFp_false] at h
    rw [(coverLane_none _ _ _).2 h]
  | _ => rfl

theorem compile_st_dep (c : CInst) : (compile c).isStore = true →
    ∀ r r' m m' a, (∀ x ∈ (compile c).rd, r x = r' x) → (compile c).fp r a = true →
      (compile c).stf r m a = (compile c).stf r' m' a := by
  intro hs r r' m m' b h hf
  cases c with
  | fst a d =>
    have he : r EXEC = r' EXEC := h _ (by simp [compile])
    have h1 : ∀ x ∈ vregsOf a, r x = r' x := fun x hx => h _ (by simp [compile, hx])
    have h2 : ∀ x ∈ vregsOf (a + 1), r x = r' x := fun x hx => h _ (by simp [compile, hx])
    have h3 : ∀ l, l < 64 → r (vreg d l) = r' (vreg d l) := fun l hl =>
      h _ (by simp [compile, vreg_mem_vregsOf d l hl])
    simp only [Inst.fp, compile] at hf ⊢
    rw [← execOf_congr r r' he, ← coverLane_congr (execOf r) (addr64 r a) (addr64 r' a) b
      (fun l hl => addr64_congr r r' a l hl h1 h2)]
    cases hc : coverLane (execOf r) (addr64 r a) b with
    | none =>
      rw [flatFp_true] at hf
      obtain ⟨l, hl, hcov⟩ := hf
      exact absurd hcov ((coverLane_none _ _ _).1 hc l hl)
    | some l =>
      have hl := (coverLane_some _ _ _ _ hc).1
      simp only [h3 l hl, addr64_congr r r' a l hl h1 h2]
  | _ => cases hs

theorem lanes_isEmpty (e : Nat) (h : (lanes e).isEmpty = true) : lanes e = [] :=
  List.isEmpty_iff.1 h

theorem compile_noTxn_ld (c : CInst) : ∀ r, (compile c).noTxn r = true → (compile c).wrD r = [] := by
  intro r h
  cases c with
  | fld d a =>
    simp only [compile] at h ⊢
    rw [lanes_isEmpty _ h]; rfl
  | sld d b off => cases h
  | _ => rfl

theorem compile_noTxn_st (c : CInst) : ∀ r a, (compile c).noTxn r = true → (compile c).fp r a = false := by
  intro r b h
  cases c with
  | fld d a =>
    simp only [Inst.fp, compile, flatFp] at h ⊢
    rw [lanes_isEmpty _ h]; rfl
  | fst a d =>
    simp only [Inst.fp, compile, flatFp] at h ⊢
    rw [lanes_isEmpty _ h]; rfl
  | _ => cases h

theorem compile_size_le (c : CInst) : (compile c).size ≤ 8 := by
  cases c <;> simp only [compile] <;> first | omega | (split <;> omega)

theorem compile_size_ge (c : CInst) : 4 ≤ (compile c).size := by
  cases c <;> simp only [compile] <;> first | omega | (split <;> omega)

theorem compile_wf (c : CInst) : (compile c).WF where
  f_frame := compile_f_frame c
  f_dep := compile_f_dep c
  tgt_dep := compile_tgt_dep c
  tgt_rel := compile_tgt_rel c
  wrD_sub := compile_wrD_sub c
  ld_frame := compile_ld_frame c
  dep_static := compile_dep_static c
  ld_depR := compile_ld_depR c
  ld_depM := compile_ld_depM c
  st_frame := compile_st_frame c
  st_dep := compile_st_dep c
  noTxn_ld := compile_noTxn_ld c
  noTxn_st := compile_noTxn_st c
  size_le := compile_size_le c

/-! ## the program `cprog` -/

theorem cprog_dec_eq (base : Nat) (cs : List CInst) (foreign : Nat → Bool) (l : List Nat) (i : Inst) :
    (cprog base cs foreign).dec l = some i ↔
      ∃ b0 b1 t c, l = b0 :: b1 :: 238 :: t ∧ cs[b0 + 256 * b1]? = some c ∧
        (compile c).size ≤ l.length ∧ i = compile c := by
  simp only [cprog]
  constructor
  · intro h
    split at h
    · rename_i b0 b1 t
      split at h
      · rename_i c hc
        split at h
        · rename_i hsz
          injection h with h
          exact ⟨b0, b1, t, c, rfl, hc, hsz, h.symm⟩
        · cases h
      · cases h
    · cases h
  · rintro ⟨b0, b1, t, c, rfl, hc, hsz, rfl⟩
    simp only [hc, if_pos hsz]

theorem cprog_dec_some (base : Nat) (cs : List CInst) (foreign : Nat → Bool) (l : List Nat) (i : Inst)
    (h : (cprog base cs foreign).dec l = some i) : ∃ c ∈ cs, i = compile c := by
  obtain ⟨b0, b1, t, c, _, hc, _, hi⟩ := (cprog_dec_eq base cs foreign l i).1 h
  exact ⟨c, List.mem_of_getElem? hc, hi⟩

theorem cprog_pfx (base : Nat) (cs : List CInst) (foreign : Nat → Bool) :
    ∀ l i, (cprog base cs foreign).dec l = some i → i.size ≤ l.length ∧
      ∀ l', l'.take i.size = l.take i.size → (cprog base cs foreign).dec l' = some i := by
  intro l i h
  obtain ⟨b0, b1, t, c, rfl, hc, hsz, rfl⟩ := (cprog_dec_eq base cs foreign l i).1 h
  refine ⟨hsz, ?_⟩
  intro l' hl'
  have hge := compile_size_ge c
  obtain ⟨n, hn⟩ : ∃ n, (compile c).size = n + 3 := ⟨(compile c).size - 3, by omega⟩
  have hlen : (compile c).size ≤ l'.length := by
    have := congrArg List.length hl'
    rw [List.length_take, List.length_take] at this
    omega
  rw [hn] at hl'
  rw [cprog_dec_eq]
  match l', hl', hlen with
  | x0 :: x1 :: x2 :: t', hl', hlen =>
    simp only [List.take_succ_cons, List.cons.injEq] at hl'
    obtain ⟨rfl, rfl, rfl, _⟩ := hl'
    exact ⟨x0, x1, t', c, rfl, hc, hlen, rfl⟩
  | [], _, hlen => simp only [List.length_nil] at hlen; omega
  | [_], _, hlen => simp only [List.length_cons, List.length_nil] at hlen; omega
  | [_, _], _, hlen => simp only [List.length_cons, List.length_nil] at hlen; omega

/-- only the scalar unit's `s_getpc_b64` looks at the PC -/
theorem compile_pcOK (c : CInst) : (compile c).PcOK := by
  intro u hk hu
  by_cases h : ∃ d, c = .getpc d
  · obtain ⟨d, rfl⟩ := h
    simp only [compile, Kind.alu.injEq] at hk
    exact absurd hk.symm hu
  · exact compile_pcIndep c (fun d e => h ⟨d, e⟩)

/-- `Prog.WF` of every compiled program -/
theorem cprog_wf (base : Nat) (cs : List CInst) (foreign : Nat → Bool) :
    (cprog base cs foreign).WF where
  fixed := rfl
  inst := by
    intro l i h
    obtain ⟨c, _, rfl⟩ := cprog_dec_some base cs foreign l i h
    exact ⟨compile_wf c, compile_pcOK c⟩
  pfx := cprog_pfx base cs foreign

/-! ## layout: the window at the start of instruction `k` decodes to instruction `k` -/

theorem offsets_getD_ge (cs : List CInst) (o k : Nat) (hk : k < cs.length) :
    o ≤ (offsets cs o).getD k 0 := by
  induction cs generalizing o k with
  | nil => simp only [List.length_nil] at hk; omega
  | cons c t ih =>
    cases k with
    | zero => simp only [offsets, List.getD_cons_zero]; omega
    | succ k =>
      simp only [offsets, List.getD_cons_succ]
      have := ih (o + (compile c).size) k (by simp only [List.length_cons] at hk; omega)
      omega

/-- `offsets` increase by the sizes -/
theorem offsets_getD_succ (cs : List CInst) (o k : Nat) (c : CInst) (hk : cs[k]? = some c)
    (hk1 : k + 1 < cs.length) :
    (offsets cs o).getD (k + 1) 0 = (offsets cs o).getD k 0 + (compile c).size := by
  induction cs generalizing o k with
  | nil => simp only [List.length_nil] at hk1; omega
  | cons c0 t ih =>
    cases k with
    | zero =>
      simp only [List.getElem?_cons_zero, Option.some.injEq] at hk
      subst hk
      match t, hk1 with
      | c1 :: t', _ => simp only [offsets, List.getD_cons_succ, List.getD_cons_zero]
    | succ k =>
      simp only [List.getElem?_cons_succ] at hk
      simp only [offsets, List.getD_cons_succ]
      exact ih _ k hk (by simp only [List.length_cons] at hk1; omega)

theorem findAt_go (cs : List CInst) (o n k j : Nat) (c : CInst) (hk : cs[k]? = some c)
    (hj : j < (compile c).size) :
    findAt.go ((offsets cs o).getD k 0 + j) (offsets cs o) (cs.map fun c => (compile c).size) n
      = some (n + k, j) := by
  induction cs generalizing o n k with
  | nil => simp at hk
  | cons c0 t ih =>
    cases k with
    | zero =>
      simp only [List.getElem?_cons_zero, Option.some.injEq] at hk
      subst hk
      simp only [offsets, List.getD_cons_zero, List.map_cons, findAt.go]
      rw [if_pos ⟨by omega, by omega⟩]
      simp only [Nat.add_zero, Nat.add_sub_cancel_left]
    | succ k =>
      simp only [List.getElem?_cons_succ] at hk
      have hlt : k < t.length := by
        rcases Nat.lt_or_ge k t.length with h | h
        · exact h
        · rw [List.getElem?_eq_none h] at hk; cases hk
      have hge := offsets_getD_ge t (o + (compile c0).size) k hlt
      simp only [offsets, List.getD_cons_succ, List.map_cons, findAt.go]
      rw [if_neg (by omega), ih (o + (compile c0).size) (n + 1) k hk]
      simp only [Nat.add_assoc, Nat.add_comm 1 k]

theorem cprog_imem (base : Nat) (cs : List CInst) (foreign : Nat → Bool) (k j : Nat) (c : CInst)
    (hk : cs[k]? = some c) (hj : j < (compile c).size) :
    (cprog base cs foreign).imem (base + (offsets cs 0).getD k 0 + j) = encByte k j := by
  simp only [cprog]
  rw [if_neg (by omega)]
  have e : base + (offsets cs 0).getD k 0 + j - base = (offsets cs 0).getD k 0 + j := by omega
  rw [e, findAt, findAt_go cs 0 0 k j c hk hj, Nat.zero_add]

theorem window8 (P : Prog) (a : Nat) :
    P.window a 8 = [P.imem (a + 0), P.imem (a + 1), P.imem (a + 2), P.imem (a + 3),
      P.imem (a + 4), P.imem (a + 5), P.imem (a + 6), P.imem (a + 7)] := by
  have : List.range 8 = [0, 1, 2, 3, 4, 5, 6, 7] := by decide
  simp only [Prog.window, this, List.map_cons, List.map_nil]

theorem cprog_instAt (base : Nat) (cs : List CInst) (foreign : Nat → Bool) (k : Nat) (c : CInst)
    (hk : cs[k]? = some c) (hlen : cs.length ≤ 65536) :
    (cprog base cs foreign).instAt (base + (offsets cs 0).getD k 0) = some (compile c) := by
  have hge := compile_size_ge c
  have hle := compile_size_le c
  have hlt : k < cs.length := by
    rcases Nat.lt_or_ge k cs.length with h | h
    · exact h
    · rw [List.getElem?_eq_none h] at hk; cases hk
  have hidx : k % 256 + 256 * (k / 256 % 256) = k := by omega
  rw [Prog.instAt, window8, cprog_imem base cs foreign k 0 c hk (by omega),
    cprog_imem base cs foreign k 1 c hk (by omega), cprog_imem base cs foreign k 2 c hk (by omega),
    cprog_dec_eq]
  refine ⟨k % 256, k / 256 % 256, _, c, rfl, ?_, ?_, rfl⟩
  · rw [hidx]; exact hk
  · simp only [List.length_cons, List.length_nil]; omega

theorem cprog_own (base : Nat) (cs : List CInst) (foreign : Nat → Bool) (a : Nat) :
    (cprog base cs foreign).own a = !foreign a := rfl

theorem compile_fp_nil (c : CInst) (h : (compile c).isMem = false) (r : RF) (a : Nat) :
    (compile c).fp r a = false := by
  cases c with
  | fld d a => cases h
  | fst a d => cases h
  | sld d b off => cases h
  | _ => rfl

/-! ## a branch-free list ending in `s_endpgm` is a `StraightLine` -/

theorem offsets_getD_le (cs : List CInst) (o k : Nat) (hk : k < cs.length) :
    (offsets cs o).getD k 0 ≤ o + 8 * k := by
  induction cs generalizing o k with
  | nil => simp only [List.length_nil] at hk; omega
  | cons c t ih =>
    cases k with
    | zero => simp only [offsets, List.getD_cons_zero]; omega
    | succ k =>
      simp only [offsets, List.getD_cons_succ]
      have := ih (o + (compile c).size) k (by simp only [List.length_cons] at hk; omega)
      have := compile_size_le c
      omega

theorem cprog_straightLine_from (base : Nat) (cs : List CInst) (foreign : Nat → Bool)
    (hlen : cs.length ≤ 65536) (hsz : base + 8 * cs.length < PCM)
    (hnb : ∀ c ∈ cs, (compile c).kind ≠ .branch)
    (hend : ∃ c, cs.getLast? = some c ∧ (compile c).kind = .endpgm) :
    ∀ n k, cs.length - k = n → k < cs.length →
      StraightLine (cprog base cs foreign) (base + (offsets cs 0).getD k 0) ((cs.drop k).map compile) := by
  intro n
  induction n with
  | zero => intro k h1 h2; omega
  | succ n ih =>
    intro k h1 hk
    have hget : cs[k]? = some cs[k] := List.getElem?_eq_getElem hk
    rw [List.drop_eq_getElem_cons hk, List.map_cons]
    refine ⟨cprog_instAt base cs foreign k cs[k] hget hlen, hnb _ (List.getElem_mem hk), ?_⟩
    by_cases hlast : k + 1 = cs.length
    · left
      obtain ⟨c, hc, he⟩ := hend
      rw [List.getLast?_eq_getElem?] at hc
      have : cs.length - 1 = k := by omega
      rw [this, hget] at hc
      injection hc with hc
      rw [hc]; exact he
    · right
      have hk1 : k + 1 < cs.length := by omega
      have hs := offsets_getD_succ cs 0 k cs[k] hget hk1
      have hle := offsets_getD_le cs 0 (k + 1) hk1
      have hpc : pcAdd (base + (offsets cs 0).getD k 0) (compile cs[k]).size
          = base + (offsets cs 0).getD (k + 1) 0 := by
        unfold pcAdd
        rw [hs, Nat.add_assoc]
        exact Nat.mod_eq_of_lt (by omega)
      rw [hpc]
      exact ih (k + 1) (by omega) hk1

theorem cprog_straightLine (base : Nat) (cs : List CInst) (foreign : Nat → Bool)
    (hlen : cs.length ≤ 65536) (hsz : base + 8 * cs.length < PCM)
    (hnb : ∀ c ∈ cs, (compile c).kind ≠ .branch)
    (hend : ∃ c, cs.getLast? = some c ∧ (compile c).kind = .endpgm) :
    StraightLine (cprog base cs foreign) base (cs.map compile) := by
  have hpos : 0 < cs.length := by
    obtain ⟨c, hc, _⟩ := hend
    cases cs with
    | nil => cases hc
    | cons _ _ => simp only [List.length_cons]; omega
  have h := cprog_straightLine_from base cs foreign hlen hsz hnb hend cs.length 0 rfl hpos
  have h0 : (offsets cs 0).getD 0 0 = 0 := by
    cases cs with
    | nil => rfl
    | cons _ _ => rfl
  rw [h0, Nat.add_zero, List.drop_zero] at h
  exact h

end C02.Wf
