import MgpuProofs.C15CuFree
/-! # C15 ∘ C14 — after the round: the compute unit's re-send of its shadow lists ends, under arbitrary
interleaving with the rest of the composition (helpers for `Props/C15Resend.lean`)

C14's `drain_completes` is about consecutive ticks of the compute unit with room for everything on
all ports. In the composition the ticks are interleaved with everything else and room on the scalar
port appears only when the connection moves a request into the ROB. `resendMu` = 1 + number of saved
records while the unit is re-sending (0 otherwise) never grows while no new flush request waits, and
every tick during which some port with a waiting record has room (or nothing is left: the unit
resumes) pays. Uses only `Lite` (no hypothesis on response IDs). -/
namespace C15.Cu
open C14.Flush

def resendMu (s : C14.Flush.St) : Nat := if s.isSending then 1 + shTotal s else 0

theorem drain_sh_le (ch : Chan) (cap : Nat) :
    (ch.drain cap).sh.length ≤ ch.sh.length ∧
    (ch.sh ≠ [] → ch.out.length < cap → (ch.drain cap).sh.length < ch.sh.length) := by
  unfold Chan.drain
  rcases hsh : ch.sh with _ | ⟨e, rest⟩
  · simp only; rw [hsh]; exact ⟨Nat.le_refl _, fun h => absurd rfl h⟩
  · simp only
    split
    · rename_i hr; exact ⟨by simp, fun _ _ => by simp⟩
    · rename_i hr; exact ⟨by simp, fun _ h => absurd h hr⟩

/-- a re-sending unit with no request from the command processor waiting owes no acknowledgement -/
theorem sending_no_ack {s : C14.Flush.St} (h : Lite s) (hs : s.isSending = true) (hin : s.cpIn = []) :
    s.ackPending = false := by
  obtain ⟨_, _, _, _, p5⟩ := h.1.1
  rcases p5 with h5 | h5 | h5 | h5 | h5 | h5 | h5 | h5 <;> simp_all

theorem tick_resend (c : C14.Flush.Cfg) {s : C14.Flush.St} (h : Lite s) (hs : s.isSending = true) (hin : s.cpIn = []) :
    resendMu (C14.Flush.tick c s) ≤ resendMu s ∧
    ((shTotal s = 0 ∨ (s.s.sh ≠ [] ∧ s.s.out.length < c.capS) ∨ (s.f.sh ≠ [] ∧ s.f.out.length < c.capF) ∨
        (s.v.sh ≠ [] ∧ s.v.out.length < c.capV)) → resendMu (C14.Flush.tick c s) < resendMu s) := by
  obtain ⟨t0, t1⟩ := tick_sending c s hs h.2 (sending_no_ack h hs hin) hin
  have hmu : resendMu s = 1 + shTotal s := by simp [resendMu, hs]
  by_cases hz : shTotal s = 0
  · obtain ⟨_, hs', _, _⟩ := t0 hz
    have : resendMu (C14.Flush.tick c s) = 0 := by simp [resendMu, hs']
    rw [this, hmu]; exact ⟨Nat.zero_le _, fun _ => by omega⟩
  · obtain ⟨hs', _, _, _, e1, e2, e3, _⟩ := t1 hz
    have : resendMu (C14.Flush.tick c s) = 1 + shTotal (C14.Flush.tick c s) := by simp [resendMu, hs']
    rw [this, hmu]
    unfold shTotal
    rw [e1, e2, e3]
    have d1 := drain_sh_le s.f c.capF
    have d2 := drain_sh_le s.s c.capS
    have d3 := drain_sh_le s.v c.capV
    refine ⟨by omega, ?_⟩
    intro hw
    rcases hw with hw | ⟨a, b⟩ | ⟨a, b⟩ | ⟨a, b⟩
    · exact absurd hw hz
    · have := d2.2 a b; omega
    · have := d1.2 a b; omega
    · have := d3.2 a b; omega

/-- only a tick touches the shadow lists and the re-sending flag -/
theorem step_sh_other (c : C14.Flush.Cfg) (s : C14.Flush.St) (o : C14.Flush.Op) (hf : s.fault = false)
    (h1 : o ≠ .tick) :
    (C14.Flush.step c s o).f.sh = s.f.sh ∧ (C14.Flush.step c s o).s.sh = s.s.sh ∧
    (C14.Flush.step c s o).v.sh = s.v.sh ∧ (C14.Flush.step c s o).isSending = s.isSending := by
  unfold C14.Flush.step
  rw [if_neg (by rw [hf]; decide)]
  cases o with
  | issS w n => simp only [C14.Flush.issS]; split <;> exact ⟨rfl, rfl, rfl, rfl⟩
  | issV w n => simp only [C14.Flush.issV]; split <;> exact ⟨rfl, rfl, rfl, rfl⟩
  | fetch w => simp only [C14.Flush.fetch]; split <;> exact ⟨rfl, rfl, rfl, rfl⟩
  | usendS => exact ⟨rfl, rfl, rfl, rfl⟩
  | usendV n => exact ⟨rfl, rfl, rfl, rfl⟩
  | deliver k i g =>
    cases k
    · exact ⟨deliver_sh _ _ _, rfl, rfl, rfl⟩
    · exact ⟨rfl, deliver_sh _ _ _, rfl, rfl⟩
    · exact ⟨rfl, rfl, deliver_sh _ _ _, rfl⟩
    · exact ⟨rfl, rfl, rfl, rfl⟩
  | cpFlush => simp only; split <;> exact ⟨rfl, rfl, rfl, rfl⟩
  | cpRestart => simp only; split <;> exact ⟨rfl, rfl, rfl, rfl⟩
  | take k n => cases k <;> exact ⟨rfl, rfl, rfl, rfl⟩
  | foreign k n => cases k <;> exact ⟨rfl, rfl, rfl, rfl⟩
  | tick => exact absurd rfl h1

theorem resendMu_congr {s s' : C14.Flush.St} (h : s'.f.sh = s.f.sh ∧ s'.s.sh = s.s.sh ∧ s'.v.sh = s.v.sh ∧
    s'.isSending = s.isSending) : resendMu s' = resendMu s := by
  unfold resendMu shTotal
  rw [h.1, h.2.1, h.2.2.1, h.2.2.2]

theorem robEvs_append (c : Cfg) (a b : List CEv) (σ : Comp) :
    robEvs c σ (a ++ b) = robEvs c σ a ++ robEvs c (a.foldl (cstep c) σ) b := by
  induction a generalizing σ with
  | nil => rfl
  | cons e es ih => simp [robEvs, ih, List.append_assoc]

end C15.Cu
