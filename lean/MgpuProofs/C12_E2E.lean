import MgpuModel.C12_E2E
import MgpuProofs.C12_K2
import MgpuProofs.C12_Wake
/-! Helper lemmas for C12.E (composed model): every step is a run of `K` on the protocol part and a
    run of `W.step` on the component read off it; the ghost flag `owed` implies `willSignal ∨ r = tick`. -/
namespace C12
namespace E

instance (a : K.App) : Decidable (K.willSignal a) := by unfold K.willSignal; exact inferInstance

/-- what `W.step` sees, as a comparable tuple -/
def obsW (y : W.Sys W.Drv.D W.Drv.Rsp W.Drv.Req) : W.Drv.D × List W.Drv.Rsp × List W.Drv.Req × Bool × Bool :=
  (y.core.d, y.core.inb, y.core.outb, y.awake, y.owed)

/-! ### projection to `K` -/

theorem passK_isRun (n : Nat) : ∀ k, K.IsRun k (passK n k) := by
  induction n with
  | zero => intro k; exact K.IsRun.refl k
  | succ n ih =>
    intro k
    simp only [passK]
    split
    · cases h : K.step k .eng with
      | none => exact K.IsRun.refl k
      | some k' => exact (K.IsRun.of_step .eng h).trans (ih k')
    · exact K.IsRun.refl k

theorem passK_not_tick (n : Nat) (k : K.St) (h : K.isTickPc k.e = false) : passK n k = k := by
  cases n <;> simp [passK, h]

/-- a step of the composed model is a step of `K` followed by a (possibly empty) run of `K` -/
theorem step_k {s s' : St} {t : K.Th} (h : step s t = some s') :
    ∃ k1, K.step s.k t = some k1 ∧ K.IsRun k1 s'.k := by
  cases t with
  | app j =>
    simp only [step] at h
    cases ha : s.k.apps[j]? with
    | none => simp [ha] at h
    | some a =>
      simp only [ha] at h
      cases hk : K.step s.k (.app j) with
      | none => simp [hk] at h
      | some k1 => simp [hk] at h; subst h; exact ⟨k1, rfl, K.IsRun.refl _⟩
  | async =>
    simp only [step] at h
    cases hk : K.step s.k .async with
    | none => simp [hk] at h
    | some k1 => simp [hk] at h; subst h; exact ⟨k1, rfl, K.IsRun.refl _⟩
  | eng =>
    simp only [step] at h
    cases hk : K.step s.k .eng with
    | none => simp [hk] at h
    | some k1 => simp [hk] at h; subst h; exact ⟨k1, rfl, passK_isRun _ _⟩

/-- the composed model can move exactly when `K` can -/
theorem step_none_iff (s : St) (t : K.Th) : step s t = none ↔ K.step s.k t = none := by
  cases t with
  | app j =>
    simp only [step]
    cases ha : s.k.apps[j]? with
    | none => simp [K.step, ha]
    | some a => simp
  | async => simp [step]
  | eng => simp [step]

theorem reach_k {s : St} (h : Reach s) : K.Reach s.k := by
  induction h with
  | init scripts nq h => exact K.Reach.init scripts nq h
  | step t _ hs ih =>
    obtain ⟨k1, h1, h2⟩ := step_k hs
    exact K.reach_of_isRun (K.Reach.step t ih h1) h2

theorem isRun_measure_le {k k' : K.St} (h : K.IsRun k k') : K.measure k' ≤ K.measure k := by
  obtain ⟨ts, hts⟩ := h
  induction ts generalizing k with
  | nil => simp [K.runSched] at hts; subst hts; exact Nat.le_refl _
  | cons t ts ih =>
    simp only [K.runSched] at hts
    cases hstep : K.step k t with
    | none => simp [hstep] at hts
    | some k1 =>
      simp only [hstep] at hts
      have h1 := ih hts
      have h2 := K.measure_step k k1 t hstep
      omega

theorem step_measure {s s' : St} {t : K.Th} (h : step s t = some s') : K.measure s'.k < K.measure s.k := by
  obtain ⟨k1, h1, h2⟩ := step_k h
  have := K.measure_step s.k k1 t h1
  have := isRun_measure_le h2
  omega

/-! ### the tick event as one action: what `passK` computes -/

theorem deqQu_empty (q : K.Qu) (h : q.cmds = []) : K.deqQu q = q := by
  unfold K.deqQu; simp [h]

/-- from `deq i` the engine leaves `Driver.Tick` with every queue from `i` on dequeued once, and
    the tick event re-scheduled iff progress was made -/
theorem pass_deq (d : Nat) : ∀ (n i : Nat) (k : K.St), k.e = .deq i → i + d = k.qs.length → 2 * d + 1 ≤ n →
    (passK n k).e = .loop ∧ (passK n k).r = k.r ∧
    (∀ j, (passK n k).qs[j]? = if i ≤ j then (k.qs[j]?).map K.deqQu else k.qs[j]?) ∧
    ((passK n k).evt = true ↔ (k.evt = true ∨ k.prog = true ∨ ∃ j, i ≤ j ∧ K.cmdsAt k.qs j ≠ [])) := by
  induction d with
  | zero =>
    intro n i k he hi hn
    obtain ⟨n, rfl⟩ : ∃ m, n = m + 1 := ⟨n - 1, by omega⟩
    have hlt : ¬ i < k.qs.length := by omega
    have hstep : K.step k .eng = some { k with e := .loop, evt := k.evt || k.prog, prog := false } := by
      simp [K.step, he, hlt]
    simp only [passK, he, K.isTickPc, if_true, hstep]
    rw [passK_not_tick _ _ (by simp [K.isTickPc])]
    refine ⟨rfl, rfl, ?_, ?_⟩
    · intro j
      by_cases hj : i ≤ j
      · have : k.qs[j]? = none := by simp; omega
        simp [hj, this]
      · simp [hj]
    · simp only [Bool.or_eq_true]
      constructor
      · rintro (h | h)
        · exact Or.inl h
        · exact Or.inr (Or.inl h)
      · rintro (h | h | ⟨j, hj, hne⟩)
        · exact Or.inl h
        · exact Or.inr h
        · exact absurd (K.cmdsAt_ne_nil_lt _ _ hne) (by omega)
  | succ d ih =>
    intro n i k he hi hn
    obtain ⟨n, rfl⟩ : ∃ m, n = m + 1 := ⟨n - 1, by omega⟩
    have hlt : i < k.qs.length := by omega
    by_cases hc : K.cmdsOf k i = []
    · -- empty queue: on to the next one
      have hstep : K.step k .eng = some { k with e := .deq (i + 1) } := by
        simp [K.step, he, hlt, hc]
      simp only [passK, he, K.isTickPc, if_true, hstep]
      obtain ⟨h1, h2, h3, h4⟩ := ih n (i + 1) { k with e := .deq (i + 1) } rfl (by simp; omega) (by omega)
      refine ⟨h1, h2, ?_, ?_⟩
      · intro j
        rw [h3 j]
        by_cases hj : i + 1 ≤ j
        · have : i ≤ j := by omega
          simp [hj, this]
        · by_cases hij : j = i
          · subst hij
            simp only [hj, if_false, Nat.le_refl, if_true]
            cases hx : k.qs[j]? with
            | none => rfl
            | some x =>
              have hxc : x.cmds = [] := by simpa [K.cmdsOf, K.cmdsAt, hx] using hc
              simp [deqQu_empty x hxc]
          · have : ¬ i ≤ j := by omega
            simp [hj, this]
      · rw [h4]
        simp only
        constructor
        · rintro (h | h | ⟨j, hj, hne⟩)
          · exact Or.inl h
          · exact Or.inr (Or.inl h)
          · exact Or.inr (Or.inr ⟨j, by omega, hne⟩)
        · rintro (h | h | ⟨j, hj, hne⟩)
          · exact Or.inl h
          · exact Or.inr (Or.inl h)
          · by_cases hij : j = i
            · subst hij; exact absurd hc hne
            · exact Or.inr (Or.inr ⟨j, by omega, hne⟩)
    · -- `Dequeue` (removal), then `NotifyAllSubscribers`
      have hstep : K.step k .eng = some { k with e := .notify i, qs := K.updQ K.deqQu i k.qs, prog := true } := by
        simp [K.step, he, hlt, hc]
      obtain ⟨n, rfl⟩ : ∃ m, n = m + 1 := ⟨n - 1, by omega⟩
      have hstep2 : K.step { k with e := .notify i, qs := K.updQ K.deqQu i k.qs, prog := true } .eng =
          some { k with e := .deq (i + 1), qs := K.updQ K.deqQu i k.qs, prog := true, apps := K.notifyAll i k.apps } := by
        simp [K.step]
      simp only [passK, he, K.isTickPc, if_true, hstep, hstep2]
      obtain ⟨h1, h2, h3, h4⟩ := ih n (i + 1)
        { k with e := .deq (i + 1), qs := K.updQ K.deqQu i k.qs, prog := true, apps := K.notifyAll i k.apps } rfl
        (by simp [K.updQ_length]; omega) (by omega)
      refine ⟨h1, h2, ?_, ?_⟩
      · intro j
        rw [h3 j]
        simp only
        by_cases hj : i + 1 ≤ j
        · have h' : i ≤ j := by omega
          simp only [hj, h', if_true]
          rw [K.updQ_get_ne _ _ _ _ (by omega)]
        · by_cases hij : j = i
          · subst hij
            simp only [hj, if_false, Nat.le_refl, if_true]
            exact K.updQ_get_eq _ _ _
          · have h' : ¬ i ≤ j := by omega
            simp only [hj, h', if_false]
            exact K.updQ_get_ne _ _ _ _ hij
      · rw [h4]
        simp only [true_or, or_true, true_iff]
        exact Or.inr (Or.inr ⟨i, Nat.le_refl _, hc⟩)

/-- the whole tick event (engine at `loop`, event scheduled): every queue dequeued once, the event
    re-scheduled iff some queue was non-empty -/
theorem tick_event (k k1 : K.St) (he : k.e = .loop) (hev : k.evt = true) (h : K.step k .eng = some k1) :
    (passK (fuel k1) k1).e = .loop ∧ (passK (fuel k1) k1).r = k.r ∧ (passK (fuel k1) k1).qs = k.qs.map K.deqQu ∧
    ((passK (fuel k1) k1).evt = true ↔ ∃ q ∈ k.qs, q.cmds ≠ []) := by
  have hk1 : k1 = { k with e := .deq 0, evt := false, prog := false } := by
    simp [K.step, he, hev] at h; exact h.symm
  subst hk1
  obtain ⟨h1, h2, h3, h4⟩ := pass_deq k.qs.length (fuel { k with e := .deq 0, evt := false, prog := false }) 0
    { k with e := .deq 0, evt := false, prog := false } rfl (by simp) (by simp [fuel])
  refine ⟨h1, h2, ?_, ?_⟩
  · apply List.ext_getElem?
    intro j
    rw [h3 j]; simp
  · rw [h4]
    simp only [Bool.false_eq_true, false_or, Nat.zero_le, true_and]
    constructor
    · rintro ⟨j, hne⟩
      cases hx : k.qs[j]? with
      | none => simp [K.cmdsAt, hx] at hne
      | some x => exact ⟨x, K.mem_of_get _ _ _ hx, by simpa [K.cmdsAt, hx] using hne⟩
    · rintro ⟨q, hq, hne⟩
      obtain ⟨j, hj⟩ := List.mem_iff_getElem?.mp hq
      exact ⟨j, by simpa [K.cmdsAt, hj] using hne⟩

/-! ### projection to `W`: `Driver.Tick` on the component read off the protocol state -/

theorem qOf_deq (q : K.Qu) : qOf (K.deqQu q) = { cmds := (qOf q).cmds.tail } := by
  unfold K.deqQu qOf
  cases h : q.cmds <;> simp [h]

theorem procAll_noop (i : Nat) (qs : List K.Qu) :
    (W.Drv.procAll i (qs.map qOf)).1 = (qs.map K.deqQu).map qOf ∧ (W.Drv.procAll i (qs.map qOf)).2.1 = [] ∧
    ((W.Drv.procAll i (qs.map qOf)).2.2 = true ↔ ∃ q ∈ qs, q.cmds ≠ []) := by
  induction qs generalizing i with
  | nil => simp [W.Drv.procAll]
  | cons q rest ih =>
    obtain ⟨h1, h2, h3⟩ := ih (i + 1)
    simp only [List.map_cons, W.Drv.procAll, h1, h2, Bool.or_eq_true, h3, List.mem_cons, exists_eq_or_imp]
    cases hc : q.cmds with
    | nil =>
      have hp : W.Drv.procQ i (qOf q) = (qOf q, [], false) := by simp [W.Drv.procQ, qOf, hc]
      rw [hp, deqQu_empty q hc]
      simp
    | cons c cs =>
      have hp : W.Drv.procQ i (qOf q) = (qOf (K.deqQu q), [], true) := by
        rw [qOf_deq]; simp [W.Drv.procQ, qOf, hc]
      rw [hp]
      simp

/-- `Driver.Tick` (all stages) on the component read off `k` is `K`'s pass over the queues -/
theorem tick_w (outCap : Nat) (k : K.St) :
    (W.runStages (W.Drv.stages outCap) (coreOf k)).1 = coreOf { k with qs := k.qs.map K.deqQu } ∧
    ((W.runStages (W.Drv.stages outCap) (coreOf k)).2 = true ↔ ∃ q ∈ k.qs, q.cmds ≠ []) := by
  obtain ⟨h1, h2, h3⟩ := procAll_noop 0 k.qs
  simp [W.runStages, W.Drv.stages, W.Drv.sendToGPUs, W.Drv.mwTick, W.Drv.processReturnReq,
    W.Drv.processNewCommand, coreOf, h1, h2, h3]

theorem updQ_enq_qOf (id i : Nat) (qs : List K.Qu) :
    (K.updQ (K.enqQu id) i qs).map qOf =
      W.Drv.updAt (fun q => { q with cmds := q.cmds ++ [W.Drv.Cmd.noop] }) i (qs.map qOf) := by
  induction qs generalizing i with
  | nil => simp [K.updQ, W.Drv.updAt]
  | cons q rest ih =>
    cases i with
    | zero => simp [K.updQ, W.Drv.updAt, qOf, K.enqQu]
    | succ i => simp [K.updQ, W.Drv.updAt, ih]

/-- an application step touches neither the event flag nor the engine; it changes the queues only
    by the append of `Enqueue` -/
theorem stepApp_shape (k k1 : K.St) (j : Nat) (a : K.App) (h : K.stepApp k j a = some k1) :
    k1.evt = k.evt ∧ k1.e = k.e ∧
    ((isEnq a = true ∧ ∃ q, k1.qs = K.updQ (K.enqQu k.nextId) q k.qs) ∨ (isEnq a = false ∧ k1.qs = k.qs)) := by
  obtain ⟨pc, script, q, sub, tok, ret⟩ := a
  cases pc
  case idle =>
    cases script with
    | nil => simp [K.stepApp] at h
    | cons op rest =>
      cases op with
      | enq q' =>
        simp only [K.stepApp] at h
        injection h with h; subst h
        exact ⟨rfl, rfl, Or.inl ⟨rfl, _, rfl⟩⟩
      | drain q' =>
        simp only [K.stepApp] at h
        injection h with h; subst h
        exact ⟨rfl, rfl, Or.inr ⟨rfl, rfl⟩⟩
  all_goals
    simp only [K.stepApp] at h
    repeat (split at h)
    all_goals first
      | (injection h with h; subst h; exact ⟨rfl, rfl, Or.inr ⟨rfl, rfl⟩⟩)
      | cases h

theorem sysOf_eq (s s' : St) (hq : s'.k.qs = s.k.qs) (he : s'.k.evt = s.k.evt) (ho : s'.owed = s.owed) :
    sysOf s' = sysOf s := by
  simp [sysOf, coreOf, hq, he, ho]

/-- **every step of the composed model is a (possibly empty) run of `W.step`** over the stages of
    `Driver.Tick` on the component read off the protocol state, and the engine is never left inside
    the tick event -/
theorem step_w (inCap outCap : Nat) {s s' : St} {t : K.Th} (hn : NoMid s) (h : step s t = some s') :
    NoMid s' ∧ ∃ evs, sysOf s' = W.run inCap outCap (W.Drv.stages outCap) (sysOf s) evs := by
  cases t with
  | app j =>
    simp only [step] at h
    cases ha : s.k.apps[j]? with
    | none => simp [ha] at h
    | some a =>
      simp only [ha] at h
      cases hk : K.step s.k (.app j) with
      | none => simp [hk] at h
      | some k1 =>
        simp [hk] at h; subst h
        have hk' : K.stepApp s.k j a = some k1 := by simpa [K.step, ha] using hk
        obtain ⟨hev, he, hq⟩ := stepApp_shape _ _ _ _ hk'
        refine ⟨by simpa [NoMid, he] using hn, ?_⟩
        rcases hq with ⟨hen, q, hq⟩ | ⟨hen, hq⟩
        · refine ⟨[.enq (W.Drv.enqCmd q .noop)], ?_⟩
          simp [sysOf, coreOf, W.run, W.step, W.Drv.enqCmd, hq, hev, hen, updQ_enq_qOf]
        · exact ⟨[], sysOf_eq _ _ hq hev (by simp [hen])⟩
  | async =>
    simp only [step] at h
    cases hk : K.step s.k .async with
    | none => simp [hk] at h
    | some k1 =>
      simp [hk] at h; subst h
      cases hr : s.k.r with
      | idle => simp [K.step, hr] at hk
      | tick =>
        simp only [K.step, hr] at hk
        split at hk
        · cases hk
        · injection hk with hk; subst hk
          refine ⟨by simpa [NoMid] using hn, [.kick], ?_⟩
          simp [sysOf, coreOf, W.run, W.step]
      | chkFlag =>
        simp only [K.step, hr] at hk
        split at hk <;>
        · injection hk with hk; subst hk
          refine ⟨?_, [], ?_⟩
          · first | (simp [NoMid, K.isTickPc]; done) | simpa [NoMid, K.isTickPc] using hn
          · simp [sysOf, coreOf, W.run]
  | eng =>
    simp only [step] at h
    cases hk : K.step s.k .eng with
    | none => simp [hk] at h
    | some k1 =>
      simp [hk] at h; subst h
      cases he : s.k.e with
      | none => simp [K.step, he] at hk
      | start =>
        simp only [K.step, he] at hk
        injection hk with hk; subst hk
        rw [passK_not_tick _ _ (by simp [K.isTickPc])]
        exact ⟨by simp [NoMid, K.isTickPc], [], by simp [sysOf, coreOf, W.run]⟩
      | loop =>
        by_cases hev : s.k.evt = true
        · obtain ⟨h1, _, h3, h4⟩ := tick_event s.k k1 he hev hk
          obtain ⟨w1, w2⟩ := tick_w outCap s.k
          refine ⟨by simp [NoMid, h1, K.isTickPc], [.tick], ?_⟩
          have hb : (passK (fuel k1) k1).evt = (W.runStages (W.Drv.stages outCap) (coreOf s.k)).2 :=
            Bool.eq_iff_iff.mpr (h4.trans w2.symm)
          simp only [W.run, List.foldl_cons, List.foldl_nil, W.step, sysOf, hev, if_true, w1, hb]
          simp [coreOf, h3]
        · have hev' : s.k.evt = false := by simpa using hev
          simp only [K.step, he, hev'] at hk
          injection hk with hk; subst hk
          rw [passK_not_tick _ _ (by simp [K.isTickPc])]
          exact ⟨by simp [NoMid, K.isTickPc], [], by simp [sysOf, coreOf, W.run, hev']⟩
      | deq i => simp [NoMid, he, K.isTickPc] at hn
      | notify i => simp [NoMid, he, K.isTickPc] at hn
      | afterRun =>
        simp only [K.step, he] at hk
        injection hk with hk; subst hk
        rw [passK_not_tick _ _ (by simp [K.isTickPc])]
        exact ⟨by simp [NoMid, K.isTickPc], [], by simp [sysOf, coreOf, W.run]⟩
      | clear =>
        simp only [K.step, he] at hk
        split at hk <;>
        · injection hk with hk; subst hk
          rw [passK_not_tick _ _ (by simp [K.isTickPc])]
          exact ⟨by simp [NoMid, K.isTickPc], [], by simp [sysOf, coreOf, W.run]⟩

/-! ### the ghost flag `owed` of `W` is implied by the protocol state of `K` -/

/-- `owed` ⇒ some thread still owes its `enqueueSignal`, or `runAsync` is about to call `TickLater` -/
def Link (s : St) : Prop := s.owed = true → (∃ a ∈ s.k.apps, K.willSignal a) ∨ s.k.r = .tick

theorem notifyAll_will (q : Nat) (l : List K.App) (h : ∃ b ∈ l, K.willSignal b) :
    ∃ b ∈ K.notifyAll q l, K.willSignal b := by
  obtain ⟨b, hb, hw⟩ := h
  exact ⟨K.notify1 q b, List.mem_map.mpr ⟨b, hb, rfl⟩, K.notify1_will q b hw⟩

theorem eng_link (k k1 : K.St) (h : K.step k .eng = some k1) :
    k1.r = k.r ∧ ((∃ b ∈ k.apps, K.willSignal b) → ∃ b ∈ k1.apps, K.willSignal b) := by
  cases he : k.e <;> simp only [K.step, he] at h
  all_goals (repeat (split at h))
  all_goals first
    | (injection h with h; subst h; exact ⟨rfl, fun x => x⟩)
    | (injection h with h; subst h; exact ⟨rfl, notifyAll_will _ _⟩)
    | cases h

theorem passK_link (n : Nat) : ∀ k : K.St,
    (passK n k).r = k.r ∧ ((∃ b ∈ k.apps, K.willSignal b) → ∃ b ∈ (passK n k).apps, K.willSignal b) := by
  induction n with
  | zero => intro k; exact ⟨rfl, fun x => x⟩
  | succ n ih =>
    intro k
    simp only [passK]
    split
    · cases h : K.step k .eng with
      | none => exact ⟨rfl, fun x => x⟩
      | some k' =>
        obtain ⟨h1, h2⟩ := eng_link k k' h
        obtain ⟨h3, h4⟩ := ih k'
        exact ⟨h3.trans h1, fun x => h4 (h2 x)⟩
    · exact ⟨rfl, fun x => x⟩

/-- an application step: after the append of `Enqueue` the thread owes a signal, and a signal owed
    before is still owed (or has just been delivered: `r = tick`) -/
theorem stepApp_link (k k1 : K.St) (j : Nat) (a : K.App) (hj : k.apps[j]? = some a) (hok : K.AppOk a)
    (h : K.stepApp k j a = some k1)
    (hp : isEnq a = true ∨ (∃ b ∈ k.apps, K.willSignal b) ∨ k.r = .tick) :
    (∃ b ∈ k1.apps, K.willSignal b) ∨ k1.r = .tick := by
  have hlt := K.lt_of_get _ _ _ hj
  have keep : ∀ (a' : K.App) (r' : K.RPc), ¬ K.willSignal a → isEnq a = false → r' = k.r →
      (∃ b ∈ k.apps.set j a', K.willSignal b) ∨ r' = .tick := by
    intro a' r' hnw hne hr'
    rcases hp with hp | hp | hp
    · rw [hne] at hp; cases hp
    · rcases K.exists_set K.willSignal k.apps j a a' hj hp with h1 | h1
      · exact Or.inl h1
      · exact absurd h1 hnw
    · exact Or.inr (hr'.trans hp)
  obtain ⟨pc, script, q, sub, tok, ret⟩ := a
  cases pc
  case idle =>
    cases script with
    | nil => simp [K.stepApp] at h
    | cons op rest =>
      cases op <;>
      · simp only [K.stepApp] at h
        injection h with h; subst h
        exact Or.inl ⟨_, K.mem_set_self _ _ _ hlt, by simp [K.willSignal]⟩
  case enqN =>
    simp only [K.stepApp] at h
    injection h with h; subst h
    have hne : script ≠ [] := hok.enqN_ne rfl
    exact Or.inl (notifyAll_will _ _ ⟨_, K.mem_set_self _ _ _ hlt, by simp [K.willSignal, hne]⟩)
  case sig =>
    simp only [K.stepApp] at h
    split at h
    · injection h with h; subst h; exact Or.inr rfl
    · injection h with h; subst h
      exact Or.inl ⟨_, K.mem_set_self _ _ _ hlt, by simp [K.willSignal]⟩
  case sending =>
    simp only [K.stepApp] at h
    split at h
    · injection h with h; subst h; exact Or.inr rfl
    · cases h
  case chk =>
    simp only [K.stepApp] at h
    split at h <;>
    · injection h with h; subst h
      exact keep _ _ (by simp [K.willSignal]) (by simp [isEnq]) rfl
  case toWait =>
    simp only [K.stepApp] at h
    split at h <;>
    · injection h with h; subst h
      exact keep _ _ (by simp [K.willSignal]) (by simp [isEnq]) rfl
  case waiting => simp [K.stepApp] at h

theorem link_step {s s' : St} {t : K.Th} (hr : K.Reach s.k) (hl : Link s) (h : step s t = some s') : Link s' := by
  cases t with
  | app j =>
    simp only [step] at h
    cases ha : s.k.apps[j]? with
    | none => simp [ha] at h
    | some a =>
      simp only [ha] at h
      cases hk : K.step s.k (.app j) with
      | none => simp [hk] at h
      | some k1 =>
        simp [hk] at h; subst h
        have hk' : K.stepApp s.k j a = some k1 := by simpa [K.step, ha] using hk
        intro ho
        simp only [Bool.or_eq_true] at ho
        refine stepApp_link s.k k1 j a ha ((K.inv_reach hr).aok a (K.mem_of_get _ _ _ ha)) hk' ?_
        rcases ho with ho | ho
        · exact Or.inr (hl ho)
        · exact Or.inl ho
  | async =>
    simp only [step] at h
    cases hk : K.step s.k .async with
    | none => simp [hk] at h
    | some k1 =>
      simp [hk] at h; subst h
      intro ho
      simp only [Bool.and_eq_true, Bool.not_eq_true', beq_eq_false_iff_ne, ne_eq] at ho
      cases hr' : s.k.r with
      | idle => simp [K.step, hr'] at hk
      | tick => exact absurd hr' ho.2
      | chkFlag =>
        have hw : ∃ a ∈ s.k.apps, K.willSignal a := by
          rcases hl ho.1 with h1 | h1
          · exact h1
          · rw [hr'] at h1; cases h1
        simp only [K.step, hr'] at hk
        split at hk <;>
        · injection hk with hk; subst hk
          exact Or.inl hw
  | eng =>
    simp only [step] at h
    cases hk : K.step s.k .eng with
    | none => simp [hk] at h
    | some k1 =>
      simp [hk] at h; subst h
      intro ho
      obtain ⟨h1, h2⟩ := eng_link s.k k1 hk
      obtain ⟨h3, h4⟩ := passK_link (fuel k1) k1
      rcases hl ho with hw | hw
      · exact Or.inl (h4 (h2 hw))
      · exact Or.inr (by simp only [h3, h1]; exact hw)

theorem link_reach {s : St} (h : Reach s) : Link s := by
  induction h with
  | init scripts nq h => intro ho; simp [init] at ho
  | step t hr hs ih => exact link_step (reach_k hr) ih hs

theorem noMid_reach {s : St} (h : Reach s) : NoMid s := by
  induction h with
  | init scripts nq h => simp [NoMid, init, K.init, K.isTickPc]
  | step t _ hs ih => exact (step_w 0 0 ih hs).1

/-- the wake invariant of `W` holds along every run of the composed model -/
theorem winv_reach (outCap : Nat) {s : St} (h : Reach s) : W.WInv (W.Drv.work outCap) (sysOf s) := by
  induction h with
  | init scripts nq h =>
    intro hw
    exfalso
    rcases hw with hw | ⟨q, hq, hs⟩ | ⟨hw, _⟩
    · simp [sysOf, coreOf] at hw
    · simp only [sysOf, coreOf, init, K.init, List.mem_map, List.mem_replicate] at hq
      obtain ⟨x, ⟨_, rfl⟩, rfl⟩ := hq
      simp [W.Drv.startable, qOf] at hs
    · simp [sysOf, coreOf] at hw
  | step t hr hs ih =>
    obtain ⟨_, evs, he⟩ := step_w outCap outCap (noMid_reach hr) hs
    rw [he]
    exact W.winv_run outCap outCap (W.Drv.stages outCap) (W.Drv.work outCap) (W.Drv.tickHyps outCap) evs _ ih

theorem reach_of_runSched (ts : List K.Th) : ∀ (s s' : St), Reach s → runSched s ts = some s' → Reach s' := by
  induction ts with
  | nil => intro s s' hr h; simp [runSched] at h; subst h; exact hr
  | cons t ts ih =>
    intro s s' hr h
    simp only [runSched] at h
    cases hs : step s t with
    | none => simp [hs] at h
    | some s1 => simp only [hs] at h; exact ih s1 s' (Reach.step t hr hs) h

/-! ### the part of `K.Inv` that does not depend on what a tick does
the engine-ownership flags agree with the engine goroutine, and a scheduled tick event is one the
engine goroutine will handle (`K.willLook`) — the statement the engine-exit race violated -/

structure PInv (k : K.St) : Prop where
  run_iff : k.running = true ↔ k.e ≠ .none
  pend_run : k.pend = true → k.running = true
  look : k.evt = true → K.willLook k

theorem stepApp_proto (k k1 : K.St) (j : Nat) (a : K.App) (h : K.stepApp k j a = some k1) :
    k1.running = k.running ∧ k1.pend = k.pend ∧ k1.e = k.e ∧ k1.evt = k.evt ∧ (k.r = .chkFlag → k1.r = .chkFlag) := by
  obtain ⟨pc, script, q, sub, tok, ret⟩ := a
  cases pc
  case idle =>
    cases script with
    | nil => simp [K.stepApp] at h
    | cons op rest =>
      cases op <;>
      · simp only [K.stepApp] at h
        injection h with h; subst h
        exact ⟨rfl, rfl, rfl, rfl, fun hc => hc⟩
  all_goals
    simp only [K.stepApp] at h
    repeat (split at h)
    all_goals first
      | (injection h with h; subst h; exact ⟨rfl, rfl, rfl, rfl, fun hc => hc⟩)
      | (injection h with h; subst h; rename_i hr; exact ⟨rfl, rfl, rfl, rfl, fun hc => by rw [hr] at hc; cases hc⟩)
      | cases h

theorem pinv_app (k k1 : K.St) (j : Nat) (a : K.App) (h : K.stepApp k j a = some k1) (hi : PInv k) : PInv k1 := by
  obtain ⟨h1, h2, h3, h4, h5⟩ := stepApp_proto k k1 j a h
  refine ⟨by rw [h1, h3]; exact hi.run_iff, by rw [h1, h2]; exact hi.pend_run, fun hev => ?_⟩
  have := hi.look (h4 ▸ hev)
  unfold K.willLook at this ⊢
  rw [h3, h2]
  rcases this with hr | hr
  · exact Or.inl (h5 hr)
  · exact Or.inr hr

theorem pinv_async (k k1 : K.St) (h : K.step k .async = some k1) (hi : PInv k) : PInv k1 := by
  cases hr : k.r <;> simp only [K.step, hr] at h
  · cases h
  · split at h
    · cases h
    · injection h with h; subst h
      exact ⟨hi.run_iff, hi.pend_run, fun _ => Or.inl rfl⟩
  · split at h
    · rename_i hrun
      injection h with h; subst h
      refine ⟨hi.run_iff, fun _ => hrun, fun _ => ?_⟩
      have hne := hi.run_iff.mp hrun
      unfold K.willLook
      simp only
      cases he : k.e with
      | none => exact absurd he hne
      | start => simp
      | loop => simp
      | deq i => simp [K.isTickPc]
      | notify i => simp [K.isTickPc]
      | afterRun => simp
      | clear => simp
    · injection h with h; subst h
      exact ⟨by simp, fun _ => rfl, fun _ => by unfold K.willLook; simp⟩

theorem pinv_eng_other (k k1 : K.St) (hn : ¬ (k.e = .loop ∧ k.evt = true)) (ht : K.isTickPc k.e = false)
    (h : K.step k .eng = some k1) (hi : PInv k) : PInv k1 := by
  have hrun := hi.run_iff
  have hpend := hi.pend_run
  have hlook := hi.look
  unfold K.willLook at hlook
  cases he : k.e <;> simp only [K.step, he] at h
  case none => cases h
  case deq i => simp [he, K.isTickPc] at ht
  case notify i => simp [he, K.isTickPc] at ht
  case start =>
    injection h with h; subst h
    exact ⟨by simpa [he] using hrun, hpend, fun _ => by unfold K.willLook; simp⟩
  case loop =>
    have hev : k.evt = false := by
      cases hv : k.evt with
      | false => rfl
      | true => exact absurd ⟨he, hv⟩ hn
    simp only [hev] at h
    injection h with h; subst h
    exact ⟨by simpa [he] using hrun, hpend, fun hc => by simp at hc⟩
  case afterRun =>
    injection h with h; subst h
    refine ⟨by simpa [he] using hrun, hpend, fun hc => ?_⟩
    have := hlook hc
    unfold K.willLook
    simp [he, K.isTickPc] at this ⊢
    exact this
  case clear =>
    split at h
    · injection h with h; subst h
      exact ⟨by simpa [he] using hrun, by simp, fun _ => by unfold K.willLook; simp⟩
    · rename_i hp
      injection h with h; subst h
      refine ⟨by simp, fun hc => absurd hc hp, fun hc => ?_⟩
      have := hlook hc
      unfold K.willLook
      simp [he, K.isTickPc, hp] at this ⊢
      exact this

theorem pinv_at_loop (k : K.St) (he : k.e = .loop) (hi : PInv k) (b : Bool) (qs : List K.Qu) (apps : List K.App) :
    PInv { k with evt := b, qs := qs, apps := apps } :=
  ⟨hi.run_iff, hi.pend_run, fun _ => by unfold K.willLook; simp [he]⟩

theorem pinv_evt_same (k : K.St) (hi : PInv k) (b : Bool) (hb : b = k.evt) : PInv { k with evt := b } := by
  subst hb; exact hi

theorem pinv_init (scripts : List (List K.Op)) (nq : Nat) : PInv (K.init scripts nq) :=
  ⟨by simp [K.init], by simp [K.init], by simp [K.init]⟩

/-! ### `E` is the Noop instance of `G` -/

theorem drop_updQ (f : K.Qu → K.Qu) (i : Nat) (qs : List K.Qu) : (K.updQ f i qs).drop (i + 1) = qs.drop (i + 1) := by
  induction qs generalizing i with
  | nil => cases i <;> simp [K.updQ]
  | cons q qs ih =>
    cases i with
    | zero => simp [K.updQ]
    | succ i => simp [K.updQ, ih]

/-- the fields `pass_deq` does not mention: the pass notifies the subscribers of every non-empty
    queue in order, clears `prog`, and leaves ids and engine-ownership flags alone -/
theorem pass_deq2 (d : Nat) : ∀ (n i : Nat) (k : K.St), k.e = .deq i → i + d = k.qs.length → 2 * d + 1 ≤ n →
    (passK n k).apps = G.notifyNE i (k.qs.drop i) k.apps ∧ (passK n k).prog = false ∧
    (passK n k).running = k.running ∧ (passK n k).pend = k.pend ∧ (passK n k).nextId = k.nextId := by
  induction d with
  | zero =>
    intro n i k he hi hn
    obtain ⟨n, rfl⟩ : ∃ m, n = m + 1 := ⟨n - 1, by omega⟩
    have hlt : ¬ i < k.qs.length := by omega
    have hstep : K.step k .eng = some { k with e := .loop, evt := k.evt || k.prog, prog := false } := by
      simp [K.step, he, hlt]
    simp only [passK, he, K.isTickPc, if_true, hstep]
    rw [passK_not_tick _ _ (by simp [K.isTickPc])]
    have : k.qs.drop i = [] := by simp; omega
    simp [this, G.notifyNE]
  | succ d ih =>
    intro n i k he hi hn
    obtain ⟨n, rfl⟩ : ∃ m, n = m + 1 := ⟨n - 1, by omega⟩
    have hlt : i < k.qs.length := by omega
    have hdrop : k.qs.drop i = k.qs[i] :: k.qs.drop (i + 1) := List.drop_eq_getElem_cons hlt
    have hcm : K.cmdsOf k i = k.qs[i].cmds := by simp [K.cmdsOf, K.cmdsAt, hlt]
    by_cases hc : K.cmdsOf k i = []
    · have hstep : K.step k .eng = some { k with e := .deq (i + 1) } := by
        simp [K.step, he, hlt, hc]
      simp only [passK, he, K.isTickPc, if_true, hstep]
      obtain ⟨h1, h2, h3, h4, h5⟩ := ih n (i + 1) { k with e := .deq (i + 1) } rfl (by simp; omega) (by omega)
      refine ⟨?_, h2, h3, h4, h5⟩
      rw [h1, hdrop]
      simp only [G.notifyNE]
      rw [if_pos (hcm ▸ hc)]
    · have hstep : K.step k .eng = some { k with e := .notify i, qs := K.updQ K.deqQu i k.qs, prog := true } := by
        simp [K.step, he, hlt, hc]
      obtain ⟨n, rfl⟩ : ∃ m, n = m + 1 := ⟨n - 1, by omega⟩
      have hstep2 : K.step { k with e := .notify i, qs := K.updQ K.deqQu i k.qs, prog := true } .eng =
          some { k with e := .deq (i + 1), qs := K.updQ K.deqQu i k.qs, prog := true, apps := K.notifyAll i k.apps } := by
        simp [K.step]
      simp only [passK, he, K.isTickPc, if_true, hstep, hstep2]
      obtain ⟨h1, h2, h3, h4, h5⟩ := ih n (i + 1)
        { k with e := .deq (i + 1), qs := K.updQ K.deqQu i k.qs, prog := true, apps := K.notifyAll i k.apps } rfl
        (by simp [K.updQ_length]; omega) (by omega)
      refine ⟨?_, h2, h3, h4, h5⟩
      rw [h1, hdrop]
      simp only [G.notifyNE, drop_updQ]
      rw [if_neg (hcm ▸ hc)]

theorem syncQs_noop (qs : List K.Qu) : G.syncQs qs ((qs.map K.deqQu).map qOf) = qs.map K.deqQu := by
  induction qs with
  | nil => rfl
  | cons q qs ih =>
    simp only [G.syncQs, List.map_cons, List.zipWith_cons_cons, List.cons.injEq]
    refine ⟨?_, ih⟩
    unfold G.syncQ
    cases hc : q.cmds with
    | nil => simp [qOf, deqQu_empty q hc, hc, Nat.repeat]
    | cons c cs =>
      have : (qOf (K.deqQu q)).cmds.length = cs.length := by simp [qOf, K.deqQu, hc]
      rw [this]
      simp [Nat.repeat]

theorem notifyChanged_noop (i : Nat) (qs : List K.Qu) (apps : List K.App) :
    G.notifyChanged i qs ((qs.map K.deqQu).map qOf) apps = G.notifyNE i qs apps := by
  induction qs generalizing i apps with
  | nil => rfl
  | cons q qs ih =>
    simp only [List.map_cons, G.notifyChanged, G.notifyNE]
    rw [ih]
    congr 1
    cases hc : q.cmds with
    | nil => simp [qOf, deqQu_empty q hc, hc]
    | cons c cs => simp [qOf, K.deqQu, hc]

/-! ## C12.E.N — the ghost flag on `K`'s own steps -/
namespace N

theorem reach_k {s : St} (h : Reach s) : K.Reach s.k := by
  induction h with
  | init scripts nq h => exact K.Reach.init scripts nq h
  | @step s1 s2 t _ hs ih =>
    cases t with
    | eng =>
      simp only [step] at hs
      cases hk : K.step s1.k .eng with
      | none => simp [hk] at hs
      | some k1 => simp [hk] at hs; subst hs; exact K.Reach.step .eng ih hk
    | app j =>
      obtain ⟨k1, h1, h2⟩ := E.step_k (show E.step _ (.app j) = some _ from hs)
      exact K.reach_of_isRun (K.Reach.step _ ih h1) h2
    | async =>
      obtain ⟨k1, h1, h2⟩ := E.step_k (show E.step _ .async = some _ from hs)
      exact K.reach_of_isRun (K.Reach.step _ ih h1) h2

theorem link_step {s s' : St} {t : K.Th} (hr : K.Reach s.k) (hl : Link s) (h : step s t = some s') : Link s' := by
  cases t with
  | eng =>
    simp only [step] at h
    cases hk : K.step s.k .eng with
    | none => simp [hk] at h
    | some k1 =>
      simp [hk] at h; subst h
      intro ho
      obtain ⟨h1, h2⟩ := eng_link s.k k1 hk
      rcases hl ho with hw | hw
      · exact Or.inl (h2 hw)
      · exact Or.inr (h1.trans hw)
  | app j => exact E.link_step hr hl (show E.step _ (.app j) = some _ from h)
  | async => exact E.link_step hr hl (show E.step _ .async = some _ from h)

theorem link_reach {s : St} (h : Reach s) : Link s := by
  induction h with
  | init scripts nq h => intro ho; simp [E.init] at ho
  | step t hr hs ih => exact link_step (reach_k hr) ih hs

def IsRun (s s' : St) : Prop := ∃ ts, runSched s ts = some s'

theorem isRun_trans {a b c : St} (h1 : IsRun a b) (h2 : IsRun b c) : IsRun a c := by
  obtain ⟨t1, h1⟩ := h1
  obtain ⟨t2, h2⟩ := h2
  refine ⟨t1 ++ t2, ?_⟩
  induction t1 generalizing a with
  | nil => simp [runSched] at h1; subst h1; simpa using h2
  | cons t ts ih =>
    simp only [runSched, List.cons_append] at h1 ⊢
    cases hs : step a t with
    | none => simp [hs] at h1
    | some a1 => simp only [hs] at h1 ⊢; exact ih h1

theorem passK_isRun (n : Nat) : ∀ s : St, IsRun s { s with k := passK n s.k } := by
  induction n with
  | zero => intro s; exact ⟨[], rfl⟩
  | succ n ih =>
    intro s
    simp only [passK]
    split
    · cases hk : K.step s.k .eng with
      | none => exact ⟨[], rfl⟩
      | some k' =>
        have h1 : IsRun s { s with k := k' } := ⟨[.eng], by simp [runSched, step, hk]⟩
        exact isRun_trans h1 (ih { s with k := k' })
    · exact ⟨[], rfl⟩

/-- every step of `E` (tick event atomic) is a run of `N` (tick event split as in `K`) -/
theorem step_isRun {s s' : St} {t : K.Th} (h : E.step s t = some s') : IsRun s s' := by
  cases t with
  | app j => exact ⟨[.app j], by simp [runSched, step, h]⟩
  | async => exact ⟨[.async], by simp [runSched, step, h]⟩
  | eng =>
    simp only [E.step] at h
    cases hk : K.step s.k .eng with
    | none => simp [hk] at h
    | some k1 =>
      simp [hk] at h; subst h
      have h1 : IsRun s { s with k := k1 } := ⟨[.eng], by simp [runSched, step, hk]⟩
      exact isRun_trans h1 (passK_isRun _ { s with k := k1 })

end N

/-! ## C12.E.G — any commands, GPU port -/
namespace G

theorem set_all {α} (P : α → Prop) (l : List α) (j : Nat) (a' : α) (hall : ∀ x ∈ l, P x) (ha : P a') :
    ∀ x ∈ l.set j a', P x := by
  intro x hx
  rcases List.mem_or_eq_of_mem_set hx with h | h
  · exact hall x h
  · exact h ▸ ha

theorem notifyAll_aok (q : Nat) (l : List K.App) (hall : ∀ x ∈ l, K.AppOk x) : ∀ x ∈ K.notifyAll q l, K.AppOk x := by
  intro x hx
  obtain ⟨y, hy, rfl⟩ := List.mem_map.mp hx
  exact K.notify1_ok q y (hall y hy)

/-- the per-thread part of `K.Inv` is preserved by an application step whatever the queues hold -/
theorem stepApp_aok (k k1 : K.St) (j : Nat) (a : K.App) (hj : k.apps[j]? = some a)
    (hall : ∀ x ∈ k.apps, K.AppOk x) (h : K.stepApp k j a = some k1) : ∀ x ∈ k1.apps, K.AppOk x := by
  have hok := hall a (K.mem_of_get _ _ _ hj)
  obtain ⟨pc, script, q, sub, tok, ret⟩ := a
  cases pc
  case idle =>
    cases script with
    | nil => simp [K.stepApp] at h
    | cons op rest =>
      cases op with
      | enq q' =>
        simp only [K.stepApp] at h
        injection h with h; subst h
        exact set_all _ _ _ _ hall ⟨by simp [K.inDrain], K.okScript_tail _ _ hok.ok, fun _ => K.okScript_enq_ne _ _ hok.ok⟩
      | drain q' =>
        simp only [K.stepApp] at h
        injection h with h; subst h
        exact set_all _ _ _ _ hall ⟨fun _ => rfl, K.okScript_tail _ _ hok.ok, by simp⟩
  case enqN =>
    simp only [K.stepApp] at h
    injection h with h; subst h
    exact notifyAll_aok _ _ (set_all _ _ _ _ hall ⟨by simp [K.inDrain], hok.ok, by simp⟩)
  case waiting => simp [K.stepApp] at h
  all_goals
    have hsub : sub = true := hok.subd (by simp [K.inDrain])
    simp only [K.stepApp] at h
    repeat (split at h)
    all_goals first
      | (injection h with h; subst h
         exact set_all _ _ _ _ hall ⟨by simp [K.inDrain, hsub], hok.ok, by simp⟩)
      | cases h

theorem notifyChanged_will (i : Nat) (qs : List K.Qu) (ws : List W.Drv.Q) (apps : List K.App)
    (h : ∃ b ∈ apps, K.willSignal b) : ∃ b ∈ notifyChanged i qs ws apps, K.willSignal b := by
  induction qs generalizing i ws apps with
  | nil => simpa [notifyChanged] using h
  | cons q qs ih =>
    cases ws with
    | nil => simpa [notifyChanged] using h
    | cons w ws =>
      simp only [notifyChanged]
      apply ih
      split
      · exact notifyAll_will _ _ h
      · exact h

theorem notifyChanged_aok (i : Nat) (qs : List K.Qu) (ws : List W.Drv.Q) (apps : List K.App)
    (h : ∀ x ∈ apps, K.AppOk x) : ∀ x ∈ notifyChanged i qs ws apps, K.AppOk x := by
  induction qs generalizing i ws apps with
  | nil => simpa [notifyChanged] using h
  | cons q qs ih =>
    cases ws with
    | nil => simpa [notifyChanged] using h
    | cons w ws =>
      simp only [notifyChanged]
      apply ih
      split
      · exact notifyAll_aok _ _ h
      · exact h

/-- the engine outside the tick event: event flag and queues untouched -/
theorem eng_other (k k1 : K.St) (hn : ¬ (k.e = .loop ∧ k.evt = true)) (ht : K.isTickPc k.e = false)
    (h : K.step k .eng = some k1) : k1.evt = k.evt ∧ k1.qs = k.qs ∧ k1.apps = k.apps := by
  cases he : k.e <;> simp only [K.step, he] at h
  case deq i => simp [he, K.isTickPc] at ht
  case notify i => simp [he, K.isTickPc] at ht
  case loop =>
    have hev : k.evt = false := by
      cases hv : k.evt with
      | false => rfl
      | true => exact absurd ⟨he, hv⟩ hn
    simp only [hev] at h
    injection h with h; subst h; exact ⟨hev.symm ▸ rfl, rfl, rfl⟩
  all_goals (repeat (split at h))
  all_goals first
    | (injection h with h; subst h; exact ⟨rfl, rfl, rfl⟩)
    | cases h

structure GInv (s : St) : Prop where
  aok : ∀ a ∈ s.k.apps, K.AppOk a
  link : s.owed = true → (∃ a ∈ s.k.apps, K.willSignal a) ∨ s.k.r = .tick

theorem ginv_step (kind : Nat → W.Drv.Cmd) (inCap outCap : Nat) {s s' : St} {t : Th} (hi : GInv s)
    (h : step kind inCap outCap s t = some s') : GInv s' := by
  cases t with
  | app j =>
    simp only [step] at h
    cases ha : s.k.apps[j]? with
    | none => simp [ha] at h
    | some a =>
      simp only [ha] at h
      cases hk : K.step s.k (.app j) with
      | none => simp [hk] at h
      | some k1 =>
        simp [hk] at h
        have hk' : K.stepApp s.k j a = some k1 := by simpa [K.step, ha] using hk
        have haok := stepApp_aok s.k k1 j a ha hi.aok hk'
        have hok := hi.aok a (K.mem_of_get _ _ _ ha)
        by_cases hen : isEnq a = true
        · simp only [hen, if_true] at h; subst h
          exact ⟨haok, fun _ => stepApp_link s.k k1 j a ha hok hk' (Or.inl hen)⟩
        · simp only [hen] at h; subst h
          exact ⟨haok, fun ho => stepApp_link s.k k1 j a ha hok hk' (Or.inr (hi.link ho))⟩
  | async =>
    simp only [step] at h
    cases hk : K.step s.k .async with
    | none => simp [hk] at h
    | some k1 =>
      simp [hk] at h; subst h
      cases hr' : s.k.r with
      | idle => simp [K.step, hr'] at hk
      | tick =>
        simp only [K.step, hr'] at hk
        split at hk
        · cases hk
        · injection hk with hk; subst hk
          exact ⟨hi.aok, fun ho => by simp at ho⟩
      | chkFlag =>
        simp only [K.step, hr'] at hk
        split at hk <;>
        · injection hk with hk; subst hk
          refine ⟨hi.aok, fun ho => ?_⟩
          have ho' : s.owed = true := by simpa [hr'] using ho
          rcases hi.link ho' with h1 | h1
          · exact Or.inl h1
          · rw [hr'] at h1; cases h1
  | eng =>
    simp only [step] at h
    split at h
    · injection h with h; subst h
      refine ⟨notifyChanged_aok _ _ _ _ hi.aok, fun ho => ?_⟩
      rcases hi.link ho with h1 | h1
      · exact Or.inl (notifyChanged_will _ _ _ _ h1)
      · exact Or.inr h1
    · split at h
      · cases h
      · cases hk : K.step s.k .eng with
        | none => simp [hk] at h
        | some k1 =>
          simp [hk] at h; subst h
          obtain ⟨h1, h2⟩ := eng_link s.k k1 hk
          rename_i hn ht
          obtain ⟨_, _, h5⟩ := eng_other s.k k1 hn (by simpa using ht) hk
          refine ⟨by simpa [h5] using hi.aok, fun ho => ?_⟩
          rcases hi.link ho with hw | hw
          · exact Or.inl (h2 hw)
          · exact Or.inr (h1.trans hw)
  | deliver m =>
    simp only [step] at h
    split at h
    · injection h with h; subst h; exact ⟨hi.aok, hi.link⟩
    · cases h
  | retrieve =>
    simp only [step] at h
    split at h
    · split at h
      · cases h
      · injection h with h; subst h; exact ⟨hi.aok, hi.link⟩
    · cases h

theorem ginv_reach {kind : Nat → W.Drv.Cmd} {inCap outCap : Nat} {s : St} (h : Reach kind inCap outCap s) : GInv s := by
  induction h with
  | init scripts nq h =>
    exact ⟨(K.inv_init scripts nq h).aok, fun ho => by simp [init] at ho⟩
  | step t _ hs ih => exact ginv_step _ _ _ ih hs

/-- **every step is at most one event of `W.step`** over the stages of `Driver.Tick` (any commands) -/
theorem step_w (kind : Nat → W.Drv.Cmd) (inCap outCap : Nat) {s s' : St} {t : Th}
    (h : step kind inCap outCap s t = some s') :
    sysOf s' = sysOf s ∨ ∃ ev, sysOf s' = W.step inCap outCap (W.Drv.stages outCap) (sysOf s) ev := by
  cases t with
  | app j =>
    simp only [step] at h
    cases ha : s.k.apps[j]? with
    | none => simp [ha] at h
    | some a =>
      simp only [ha] at h
      cases hk : K.step s.k (.app j) with
      | none => simp [hk] at h
      | some k1 =>
        simp [hk] at h
        have hk' : K.stepApp s.k j a = some k1 := by simpa [K.step, ha] using hk
        obtain ⟨hev, _, _⟩ := stepApp_shape _ _ _ _ hk'
        by_cases hen : isEnq a = true
        · simp only [hen, if_true] at h; subst h
          exact Or.inr ⟨.enq (W.Drv.enqCmd (enqTarget a) (kind s.k.nextId)), by simp [sysOf, W.step, hev]⟩
        · simp only [hen] at h; subst h
          exact Or.inl (by simp [sysOf, hev])
  | async =>
    simp only [step] at h
    cases hk : K.step s.k .async with
    | none => simp [hk] at h
    | some k1 =>
      simp [hk] at h; subst h
      cases hr' : s.k.r with
      | idle => simp [K.step, hr'] at hk
      | tick =>
        simp only [K.step, hr'] at hk
        split at hk
        · cases hk
        · injection hk with hk; subst hk
          exact Or.inr ⟨.kick, by simp [sysOf, W.step]⟩
      | chkFlag =>
        simp only [K.step, hr'] at hk
        split at hk <;>
        · injection hk with hk; subst hk
          exact Or.inl (by simp [sysOf])
  | eng =>
    simp only [step] at h
    split at h
    · rename_i hc
      injection h with h; subst h
      exact Or.inr ⟨.tick, by simp [sysOf, W.step, hc.2]⟩
    · split at h
      · cases h
      · cases hk : K.step s.k .eng with
        | none => simp [hk] at h
        | some k1 =>
          simp [hk] at h; subst h
          rename_i hn ht
          obtain ⟨h3, _, _⟩ := eng_other s.k k1 hn (by simpa using ht) hk
          exact Or.inl (by simp [sysOf, h3])
  | deliver m =>
    simp only [step] at h
    split at h
    · rename_i hc
      injection h with h; subst h
      exact Or.inr ⟨.deliver m, by simp [sysOf, W.step, hc]⟩
    · cases h
  | retrieve =>
    simp only [step] at h
    split at h
    · split at h
      · cases h
      · rename_i x rest hout
        injection h with h; subst h
        exact Or.inr ⟨.retrieve, by simp [sysOf, W.step, hout]⟩
    · cases h

theorem winv_reach {kind : Nat → W.Drv.Cmd} {inCap outCap : Nat} {s : St} (h : Reach kind inCap outCap s) :
    W.WInv (W.Drv.work outCap) (sysOf s) := by
  induction h with
  | init scripts nq h =>
    intro hw
    exfalso
    rcases hw with hw | ⟨q, hq, hs⟩ | ⟨hw, _⟩
    · simp [sysOf, init] at hw
    · simp only [sysOf, init, List.mem_replicate] at hq
      obtain ⟨_, rfl⟩ := hq
      simp [W.Drv.startable] at hs
    · simp [sysOf, init] at hw
  | step t _ hs ih =>
    rcases step_w _ _ _ hs with he | ⟨ev, he⟩
    · rw [he]; exact ih
    · rw [he]; exact W.winv_step inCap outCap _ _ (W.Drv.tickHyps outCap) _ ev ih

/-! ### the id queues of the protocol part mirror the component's queues -/

/-- a stage of `Tick` never adds a command to a queue -/
abbrev Shr (a b : W.Drv.Q) : Prop := b.cmds.length ≤ a.cmds.length

inductive ShrL : List W.Drv.Q → List W.Drv.Q → Prop
  | nil : ShrL [] []
  | cons {a b : W.Drv.Q} {l1 l2 : List W.Drv.Q} : Shr a b → ShrL l1 l2 → ShrL (a :: l1) (b :: l2)

theorem shr_refl (ws : List W.Drv.Q) : ShrL ws ws := by
  induction ws with
  | nil => exact .nil
  | cons w ws ih => exact .cons (Nat.le_refl _) ih

theorem shr_trans {a b c : List W.Drv.Q} (h1 : ShrL a b) (h2 : ShrL b c) : ShrL a c := by
  induction h1 generalizing c with
  | nil => cases h2; exact .nil
  | cons hab _ ih =>
    cases h2 with
    | cons hbc h2 => exact .cons (Nat.le_trans hbc hab) (ih h2)

theorem shr_updAt (f : W.Drv.Q → W.Drv.Q) (hf : ∀ q, Shr q (f q)) (i : Nat) (ws : List W.Drv.Q) :
    ShrL ws (W.Drv.updAt f i ws) := by
  induction ws generalizing i with
  | nil => rw [show W.Drv.updAt f i [] = [] by cases i <;> rfl]; exact .nil
  | cons w ws ih =>
    cases i with
    | zero => exact .cons (hf w) (shr_refl ws)
    | succ i => exact .cons (Nat.le_refl _) (ih i)

theorem shr_retQ (q : W.Drv.Q) : Shr q (W.Drv.retQ q) := by
  unfold W.Drv.retQ Shr
  split
  · split
    · simp
    · exact Nat.le_refl _
  · exact Nat.le_refl _

theorem shr_procQ (i : Nat) (q : W.Drv.Q) : Shr q (W.Drv.procQ i q).1 := by
  unfold W.Drv.procQ Shr
  cases hc : q.cmds with
  | nil => simp [hc]
  | cons c cs =>
    cases hr : q.running with
    | true => simp [hc]
    | false =>
      cases c with
      | noop => simp
      | kern n => cases n <;> simp [hc]

theorem shr_procAll (i : Nat) (ws : List W.Drv.Q) : ShrL ws (W.Drv.procAll i ws).1 := by
  induction ws generalizing i with
  | nil => exact .nil
  | cons w ws ih => exact .cons (shr_procQ i w) (ih (i + 1))

theorem tick_shr (outCap : Nat) (c : W.Drv.C) :
    ShrL c.d.qs (W.runStages (W.Drv.stages outCap) c).1.d.qs := by
  have h1 : ∀ c : W.Drv.C, (W.Drv.sendToGPUs outCap c).1.d.qs = c.d.qs := by
    intro c; unfold W.Drv.sendToGPUs; split
    · rfl
    · split <;> rfl
  have h2 : ∀ c : W.Drv.C, (W.Drv.mwTick c).1.d.qs = c.d.qs := by
    intro c; unfold W.Drv.mwTick; split <;> rfl
  have h3 : ∀ c : W.Drv.C, ShrL c.d.qs (W.Drv.processReturnReq c).1.d.qs := by
    intro c; unfold W.Drv.processReturnReq; split
    · exact shr_refl _
    · exact shr_updAt _ shr_retQ _ _
  have h4 : ∀ c : W.Drv.C, ShrL c.d.qs (W.Drv.processNewCommand c).1.d.qs := by
    intro c; exact shr_procAll 0 _
  simp only [W.runStages, W.Drv.stages]
  have a := h3 (W.Drv.mwTick (W.Drv.sendToGPUs outCap c).1).1
  have b := h4 (W.Drv.processReturnReq (W.Drv.mwTick (W.Drv.sendToGPUs outCap c).1).1).1
  rw [h2, h1] at a
  exact shr_trans a b

theorem deqQu_len (q : K.Qu) : (K.deqQu q).cmds.length = q.cmds.length - 1 := by
  unfold K.deqQu; cases h : q.cmds <;> simp [h]

theorem repeat_deq_len (n : Nat) (q : K.Qu) : (Nat.repeat K.deqQu n q).cmds.length = q.cmds.length - n := by
  induction n with
  | zero => simp [Nat.repeat]
  | succ n ih => simp only [Nat.repeat, deqQu_len, ih]; omega

theorem sync_tick {ws ws' : List W.Drv.Q} (hs : ShrL ws ws') : ∀ (qs : List K.Qu),
    qs.map (fun q => q.cmds.length) = ws.map (fun q => q.cmds.length) →
    (syncQs qs ws').map (fun q => q.cmds.length) = ws'.map (fun q => q.cmds.length) := by
  induction hs with
  | nil => intro qs h; cases qs <;> simp [syncQs] at h ⊢
  | cons hab _ ih =>
    intro qs h
    cases qs with
    | nil => simp at h
    | cons q qs =>
      simp only [List.map_cons, List.cons.injEq] at h
      simp only [syncQs, List.zipWith_cons_cons, List.map_cons, List.cons.injEq]
      refine ⟨?_, ih qs h.2⟩
      simp only [syncQ, repeat_deq_len]
      have := h.1
      simp only [Shr] at hab
      omega

theorem sync_enq (id i : Nat) (c : W.Drv.Cmd) (qs : List K.Qu) (ws : List W.Drv.Q)
    (h : qs.map (fun q => q.cmds.length) = ws.map (fun q => q.cmds.length)) :
    (K.updQ (K.enqQu id) i qs).map (fun q => q.cmds.length) =
      (W.Drv.updAt (fun q => { q with cmds := q.cmds ++ [c] }) i ws).map (fun q => q.cmds.length) := by
  induction qs generalizing ws i with
  | nil => cases ws <;> simp [K.updQ, W.Drv.updAt] at h ⊢
  | cons q qs ih =>
    cases ws with
    | nil => simp at h
    | cons w ws =>
      simp only [List.map_cons, List.cons.injEq] at h
      cases i with
      | zero => simp [K.updQ, W.Drv.updAt, K.enqQu, h.1, h.2]
      | succ i => simp [K.updQ, W.Drv.updAt, h.1, ih i ws h.2]

theorem stepApp_enq_target (k k1 : K.St) (j : Nat) (a : K.App) (hen : isEnq a = true)
    (h : K.stepApp k j a = some k1) : k1.qs = K.updQ (K.enqQu k.nextId) (enqTarget a) k.qs := by
  obtain ⟨pc, script, q, sub, tok, ret⟩ := a
  cases pc <;> first | cases hen | skip
  cases script with
  | nil => cases hen
  | cons op rest =>
    cases op with
    | drain q' => cases hen
    | enq q' =>
      simp only [K.stepApp] at h
      injection h with h; subst h
      rfl

theorem sync_step (kind : Nat → W.Drv.Cmd) (inCap outCap : Nat) {s s' : St} {t : Th} (hi : Sync s)
    (h : step kind inCap outCap s t = some s') : Sync s' := by
  unfold Sync at hi ⊢
  cases t with
  | app j =>
    simp only [step] at h
    cases ha : s.k.apps[j]? with
    | none => simp [ha] at h
    | some a =>
      simp only [ha] at h
      cases hk : K.step s.k (.app j) with
      | none => simp [hk] at h
      | some k1 =>
        simp [hk] at h
        have hk' : K.stepApp s.k j a = some k1 := by simpa [K.step, ha] using hk
        by_cases hen : isEnq a = true
        · simp only [hen, if_true] at h; subst h
          simp only [stepApp_enq_target _ _ _ _ hen hk', W.Drv.enqCmd]
          exact sync_enq _ _ _ _ _ hi
        · simp only [hen] at h; subst h
          obtain ⟨_, _, hq⟩ := stepApp_shape _ _ _ _ hk'
          rcases hq with ⟨h1, _⟩ | ⟨_, hq⟩
          · exact absurd h1 hen
          · simpa [hq] using hi
  | async =>
    simp only [step] at h
    cases hk : K.step s.k .async with
    | none => simp [hk] at h
    | some k1 =>
      simp [hk] at h; subst h
      have : k1.qs = s.k.qs := by
        cases hr' : s.k.r <;> simp only [K.step, hr'] at hk
        · cases hk
        · split at hk
          · cases hk
          · injection hk with hk; subst hk; rfl
        · split at hk <;> (injection hk with hk; subst hk; rfl)
      simpa [this] using hi
  | eng =>
    simp only [step] at h
    split at h
    · injection h with h; subst h
      exact sync_tick (tick_shr outCap s.core) _ hi
    · split at h
      · cases h
      · cases hk : K.step s.k .eng with
        | none => simp [hk] at h
        | some k1 =>
          simp [hk] at h; subst h
          rename_i hn ht
          obtain ⟨_, h4, _⟩ := eng_other s.k k1 hn (by simpa using ht) hk
          simpa [h4] using hi
  | deliver m =>
    simp only [step] at h
    split at h
    · injection h with h; subst h; exact hi
    · cases h
  | retrieve =>
    simp only [step] at h
    split at h
    · split at h
      · cases h
      · injection h with h; subst h; exact hi
    · cases h

theorem sync_reach {kind : Nat → W.Drv.Cmd} {inCap outCap : Nat} {s : St} (h : Reach kind inCap outCap s) : Sync s := by
  induction h with
  | init scripts nq h => simp [Sync, init, K.init]
  | step t _ hs ih => exact sync_step _ _ _ ih hs

theorem notify1_returned (q : Nat) (y : K.App) : (K.notify1 q y).returned = y.returned := by
  unfold K.notify1; split
  · split <;> rfl
  · rfl

/-- the step that increments `returned` is the emptiness test of `DrainCommandQueue` finding the id
    queue empty -/
theorem stepApp_returned (k k1 : K.St) (j : Nat) (a a' : K.App) (hj : k.apps[j]? = some a)
    (h : K.stepApp k j a = some k1) (ha' : k1.apps[j]? = some a') (hret : a'.returned = a.returned + 1) :
    K.cmdsOf k a.q = [] := by
  have hlt := K.lt_of_get _ _ _ hj
  have hself : ∀ (b : K.App), (k.apps.set j b)[j]? = some a' → b.returned = a.returned → False := by
    intro b hb hr
    rw [List.getElem?_set_self hlt] at hb; injection hb with hb; subst hb; omega
  obtain ⟨pc, script, q, sub, tok, ret⟩ := a
  cases pc
  case idle =>
    cases script with
    | nil => simp [K.stepApp] at h
    | cons op rest =>
      cases op <;>
      · simp only [K.stepApp] at h
        injection h with h; subst h
        exact (hself _ ha' rfl).elim
  case enqN =>
    simp only [K.stepApp] at h
    injection h with h; subst h
    simp only [K.notifyAll, List.getElem?_map, List.getElem?_set_self hlt, Option.map_some] at ha'
    injection ha' with ha'; subst ha'
    rw [notify1_returned] at hret
    simp at hret
  case chk =>
    simp only [K.stepApp] at h
    split at h
    · rename_i hc; exact hc
    · injection h with h; subst h
      exact (hself _ ha' rfl).elim
  case waiting => simp [K.stepApp] at h
  all_goals
    simp only [K.stepApp] at h
    repeat (split at h)
    all_goals first
      | (injection h with h; subst h; exact (hself _ ha' rfl).elim)
      | cases h

theorem sync_empty (s : St) (hs : Sync s) (q : Nat) (hc : K.cmdsOf s.k q = []) (w : W.Drv.Q)
    (hw : s.core.d.qs[q]? = some w) : w.cmds = [] := by
  unfold Sync at hs
  have h1 : (s.k.qs.map (fun q => q.cmds.length))[q]? = (s.core.d.qs.map (fun q => q.cmds.length))[q]? := by rw [hs]
  simp only [List.getElem?_map, hw, Option.map_some] at h1
  cases hx : s.k.qs[q]? with
  | none => simp [hx] at h1
  | some x =>
    simp only [hx, Option.map_some, Option.some.injEq] at h1
    have : x.cmds = [] := by simpa [K.cmdsOf, K.cmdsAt, hx] using hc
    rw [this] at h1
    exact List.eq_nil_of_length_eq_zero h1.symm

/-! ### a scheduled tick event is handled -/

theorem pinv_step (kind : Nat → W.Drv.Cmd) (inCap outCap : Nat) {s s' : St} {t : Th} (hi : PInv s.k)
    (h : step kind inCap outCap s t = some s') : PInv s'.k := by
  cases t with
  | app j =>
    simp only [step] at h
    cases ha : s.k.apps[j]? with
    | none => simp [ha] at h
    | some a =>
      simp only [ha] at h
      cases hk : K.step s.k (.app j) with
      | none => simp [hk] at h
      | some k1 =>
        simp [hk] at h
        have hk' : K.stepApp s.k j a = some k1 := by simpa [K.step, ha] using hk
        have := pinv_app s.k k1 j a hk' hi
        by_cases hen : isEnq a = true
        · simp only [hen, if_true] at h; subst h; exact this
        · simp only [hen] at h; subst h; exact this
  | async =>
    simp only [step] at h
    cases hk : K.step s.k .async with
    | none => simp [hk] at h
    | some k1 => simp [hk] at h; subst h; exact pinv_async s.k k1 hk hi
  | eng =>
    simp only [step] at h
    split at h
    · rename_i hc
      injection h with h; subst h
      exact pinv_at_loop s.k hc.1 hi _ _ _
    · split at h
      · cases h
      · cases hk : K.step s.k .eng with
        | none => simp [hk] at h
        | some k1 =>
          simp [hk] at h; subst h
          rename_i hn ht
          exact pinv_eng_other s.k k1 hn (by simpa using ht) hk hi
  | deliver m =>
    simp only [step] at h
    split at h
    · rename_i hc
      injection h with h; subst h
      exact pinv_at_loop s.k hc.1 hi _ s.k.qs s.k.apps
    · cases h
  | retrieve =>
    simp only [step] at h
    split at h
    · rename_i hc
      split at h
      · cases h
      · injection h with h; subst h
        exact pinv_at_loop s.k hc hi _ s.k.qs s.k.apps
    · cases h

theorem pinv_reach {kind : Nat → W.Drv.Cmd} {inCap outCap : Nat} {s : St} (h : Reach kind inCap outCap s) : PInv s.k := by
  induction h with
  | init scripts nq h => exact pinv_init scripts nq
  | step t _ hs ih => exact pinv_step _ _ _ ih hs

theorem stepApp_prog (k k1 : K.St) (j : Nat) (a : K.App) (h : K.stepApp k j a = some k1) : k1.prog = k.prog := by
  obtain ⟨pc, script, q, sub, tok, ret⟩ := a
  cases pc
  case idle =>
    cases script with
    | nil => simp [K.stepApp] at h
    | cons op rest =>
      cases op <;>
      · simp only [K.stepApp] at h
        injection h with h; subst h; rfl
  all_goals
    simp only [K.stepApp] at h
    repeat (split at h)
    all_goals first
      | (injection h with h; subst h; rfl)
      | cases h

/-- `E` is the Noop instance of `G`: with every command a Noop and the connections silent, a step of
    `E` is the same step of `G` on the embedded state -/
theorem noop_step (inCap outCap : Nat) {s s' : E.St} {t : K.Th} (hn : NoMid s) (hp : s.k.prog = false)
    (h : E.step s t = some s') :
    step (fun _ => .noop) inCap outCap (emb s) (ofTh t) = some (emb s') ∧ s'.k.prog = false := by
  cases t with
  | app j =>
    simp only [E.step] at h
    cases ha : s.k.apps[j]? with
    | none => simp [ha] at h
    | some a =>
      simp only [ha] at h
      cases hk : K.step s.k (.app j) with
      | none => simp [hk] at h
      | some k1 =>
        simp [hk] at h; subst h
        have hk' : K.stepApp s.k j a = some k1 := by simpa [K.step, ha] using hk
        refine ⟨?_, (stepApp_prog _ _ _ _ hk').trans hp⟩
        by_cases hen : isEnq a = true
        · have hq := stepApp_enq_target _ _ _ _ hen hk'
          simp [step, ofTh, emb, ha, hk, hen, coreOf, hq, updQ_enq_qOf, W.Drv.enqCmd]
        · obtain ⟨_, _, hq⟩ := stepApp_shape _ _ _ _ hk'
          rcases hq with ⟨h1, _⟩ | ⟨_, hq⟩
          · exact absurd h1 hen
          · simp [step, ofTh, emb, ha, hk, hen, coreOf, hq]
  | async =>
    simp only [E.step] at h
    cases hk : K.step s.k .async with
    | none => simp [hk] at h
    | some k1 =>
      simp [hk] at h; subst h
      have hq : k1.qs = s.k.qs ∧ k1.prog = s.k.prog := by
        cases hr' : s.k.r <;> simp only [K.step, hr'] at hk
        · cases hk
        · split at hk
          · cases hk
          · injection hk with hk; subst hk; exact ⟨rfl, rfl⟩
        · split at hk <;> (injection hk with hk; subst hk; exact ⟨rfl, rfl⟩)
      exact ⟨by simp [step, ofTh, emb, hk, coreOf, hq.1], hq.2.trans hp⟩
  | eng =>
    simp only [E.step] at h
    cases hk : K.step s.k .eng with
    | none => simp [hk] at h
    | some k1 =>
      simp [hk] at h; subst h
      by_cases hc : s.k.e = .loop ∧ s.k.evt = true
      · obtain ⟨t1, t2, t3, t4⟩ := tick_event s.k k1 hc.1 hc.2 hk
        have hk1 : k1 = { s.k with e := .deq 0, evt := false, prog := false } := by
          simp [K.step, hc.1, hc.2] at hk; exact hk.symm
        obtain ⟨p1, p2, p3, p4, p5⟩ := pass_deq2 s.k.qs.length (fuel k1) 0 k1 (by rw [hk1]) (by rw [hk1]; simp)
          (by rw [hk1]; simp [fuel])
        obtain ⟨w1, w2⟩ := tick_w outCap s.k
        have hb : (passK (fuel k1) k1).evt = (W.runStages (W.Drv.stages outCap) (coreOf s.k)).2 :=
          Bool.eq_iff_iff.mpr (t4.trans w2.symm)
        refine ⟨?_, p2⟩
        have hcq : (W.runStages (W.Drv.stages outCap) (coreOf s.k)).1.d.qs = (s.k.qs.map K.deqQu).map qOf := by
          rw [w1]; rfl
        have hkeq : passK (fuel k1) k1 =
            { s.k with evt := (W.runStages (W.Drv.stages outCap) (coreOf s.k)).2,
                       qs := syncQs s.k.qs (W.runStages (W.Drv.stages outCap) (coreOf s.k)).1.d.qs,
                       apps := notifyChanged 0 s.k.qs (W.runStages (W.Drv.stages outCap) (coreOf s.k)).1.d.qs s.k.apps } := by
          rw [hcq, syncQs_noop, notifyChanged_noop]
          have e1 : (passK (fuel k1) k1).apps = notifyNE 0 s.k.qs s.k.apps := by rw [p1, hk1]; simp
          have e2 : (passK (fuel k1) k1).running = s.k.running := by rw [p3, hk1]
          have e3 : (passK (fuel k1) k1).pend = s.k.pend := by rw [p4, hk1]
          have e4 : (passK (fuel k1) k1).nextId = s.k.nextId := by rw [p5, hk1]
          cases hpk : passK (fuel k1) k1 with
          | mk apps qs nextId r e evt prog running pend =>
            simp only [hpk] at t1 t2 t3 hb p2 e1 e2 e3 e4
            subst t1 t2 t3 hb p2 e1 e2 e3 e4
            simp [hp, hc.1]
        simp only [step, ofTh, emb, hc, and_self, if_true, hkeq, w1, Option.some.injEq]
        have hs := syncQs_noop s.k.qs
        simp only [List.map_map] at hs
        simp [coreOf, hs]
      · have hnt : K.isTickPc s.k.e = false := hn
        obtain ⟨_, h4, _⟩ := eng_other s.k k1 hc hnt hk
        have hk1t : K.isTickPc k1.e = false := by
          cases he : s.k.e <;> simp only [K.step, he] at hk
          · cases hk
          · injection hk with hk; subst hk; rfl
          · split at hk
            · rename_i hv; exact absurd ⟨he, hv⟩ hc
            · injection hk with hk; subst hk; rfl
          · simp [he, K.isTickPc] at hnt
          · simp [he, K.isTickPc] at hnt
          · injection hk with hk; subst hk; rfl
          · split at hk <;> (injection hk with hk; subst hk; rfl)
        have hpr : k1.prog = s.k.prog := by
          cases he : s.k.e <;> simp only [K.step, he] at hk
          · cases hk
          · injection hk with hk; subst hk; rfl
          · split at hk
            · rename_i hv; exact absurd ⟨he, hv⟩ hc
            · injection hk with hk; subst hk; rfl
          · simp [he, K.isTickPc] at hnt
          · simp [he, K.isTickPc] at hnt
          · injection hk with hk; subst hk; rfl
          · split at hk <;> (injection hk with hk; subst hk; rfl)
        rw [passK_not_tick _ _ hk1t]
        refine ⟨?_, hpr.trans hp⟩
        simp [step, ofTh, emb, hc, hnt, hk, coreOf, h4]

end G

end E
end C12
