import MgpuProofs.C10Init
/-!
Conservation of physical pages (C10): what one driver operation does to the two places a physical page
can be — a device free list (`s.pool.frees`) or a page-table entry (`livePages s`).

`Cons k s s'` = no page enters circulation from nowhere, and `k` pages left it: Alloc moves pages
free → mapped, Free/RemovePage move the page of the entry they unmap mapped → free, but
Remap / Distribute / AllocatePageWithGivenVAddr / preparePageForMigration take a fresh page for a virtual
page whose entry is overwritten in place, so the page it was mapped to is on no list any more.
-/
namespace C10

/-- `s'` results from `s` by moving pages between the free lists and the page table and dropping `k` of them -/
structure Cons (k : Nat) (s s' : State) : Prop where
  sub : ∀ p, p ∈ s'.pool.frees.flatten ∨ p ∈ livePages s' → p ∈ s.pool.frees.flatten ∨ p ∈ livePages s
  count : s'.pool.frees.flatten.length + s'.pt.length + k = s.pool.frees.flatten.length + s.pt.length

theorem Cons.refl (s : State) : Cons 0 s s := ⟨fun _ h => h, rfl⟩

theorem Cons.trans {k1 k2 : Nat} {a b c : State} (h1 : Cons k1 a b) (h2 : Cons k2 b c) : Cons (k1 + k2) a c := by
  refine ⟨fun p hp => h1.sub p (h2.sub p hp), ?_⟩
  have := h1.count
  have := h2.count
  omega

theorem Cons.cast {k k' : Nat} {s s' : State} (h : Cons k s s') (e : k = k') : Cons k' s s' := e ▸ h

/-- only fields other than the free lists and the page table change -/
theorem Cons.of_eq {s s' : State} (hf : s'.pool.frees = s.pool.frees) (hp : s'.pt = s.pt) : Cons 0 s s' := by
  refine ⟨?_, by rw [hf, hp]; omega⟩
  intro p h
  unfold livePages at h ⊢
  rw [hf, hp] at h
  exact h

theorem Cons.setCtx {k : Nat} {s s' : State} (h : Cons k s s') (c : Nat) (x : Ctx) : Cons k s (setCtx s' c x) :=
  ⟨h.sub, h.count⟩

/-- pages `t` leave the free lists; every mapped page was mapped before or is one of them -/
theorem Cons.of_took {k : Nat} {s s' : State} {t : List Nat}
    (ht : Took s.pool.frees s'.pool.frees t)
    (hl : ∀ p ∈ livePages s', p ∈ livePages s ∨ p ∈ t)
    (hc : s'.pt.length + k = s.pt.length + t.length) : Cons k s s' := by
  refine ⟨?_, ?_⟩
  · intro p hp
    rcases hp with hp | hp
    · exact Or.inl (ht.perm.mem_iff.mpr (List.mem_append_right _ hp))
    · rcases hl p hp with h | h
      · exact Or.inr h
      · exact Or.inl (ht.perm.mem_iff.mpr (List.mem_append_left _ h))
  · have := ht.perm.length_eq
    rw [List.length_append] at this
    omega

/-! ### allocatePages -/

theorem allocLoop_cons (π d : Nat) (u : Bool) : ∀ (k v : Nat) (s s' : State),
    allocLoop π d u k v s = .ok s' → Cons 0 s s' := by
  intro k
  induction k with
  | zero => intro v s s' h; simp [allocLoop] at h; subst h; exact Cons.refl _
  | succ k ih =>
    intro v s s' h
    simp only [allocLoop] at h
    split at h
    · simp at h
    · rename_i p pool' hp
      split at h
      · simp at h
      · rename_i dev hd
        split at h
        · simp at h
        · rename_i pt' hi
          obtain ⟨_, rfl⟩ := ptInsert_ok hi
          have h1 : Cons 0 s { s with pool := pool', pt := s.pt ++ [mkPg π v p dev u],
                                      mirror := (v, mkPg π v p dev u) :: s.mirror } := by
            refine Cons.of_took (t := [p]) (allocPage_took hp) ?_ (by simp)
            intro q hq
            simp only [livePages, List.map_append, List.mem_append, List.map_cons, List.map_nil] at hq ⊢
            exact hq
          exact h1.trans (ih _ _ s' h)

theorem allocatePages_cons {s s' : State} {n π d v : Nat} {u : Bool}
    (h : allocatePages s n π d u = .ok (v, s')) : Cons 0 s s' := by
  unfold allocatePages at h
  dsimp only at h
  split at h
  · simp at h
  · rename_i s1 hl
    injection h with h
    obtain ⟨_, rfl⟩ := Prod.mk.inj h
    have := allocLoop_cons π d u _ _ _ _ hl
    exact ⟨this.sub, this.count⟩

/-! ### RemovePage / Free -/

/-- removing the entry with the key of `e` from a table with unique keys removes exactly one entry -/
theorem filter_key_length {pt : List Page} {e : Page} (hk : (pt.map key).Nodup) (he : e ∈ pt) :
    (pt.filter fun p => !(p.pid == e.pid && p.vaddr == e.vaddr)).length + 1 = pt.length := by
  induction pt with
  | nil => simp at he
  | cons q qs ih =>
    simp only [List.map_cons, List.nodup_cons] at hk
    rcases List.mem_cons.mp he with rfl | he'
    · have hall : qs.filter (fun p => !(p.pid == e.pid && p.vaddr == e.vaddr)) = qs := by
        apply List.filter_eq_self.mpr
        intro x hx
        have hne : ¬ (x.pid = e.pid ∧ x.vaddr = e.vaddr) := by
          intro hh
          apply hk.1
          have : key x = key e := by simp [key, hh.1, hh.2]
          rw [← this]; exact List.mem_map_of_mem hx
        simp only [Bool.not_eq_true', Bool.and_eq_false_iff, beq_eq_false_iff_ne]
        by_cases h1 : x.pid = e.pid
        · exact Or.inr (fun h2 => hne ⟨h1, h2⟩)
        · exact Or.inl h1
      rw [List.filter_cons, hall]
      simp
    · have hne : ¬ (q.pid = e.pid ∧ q.vaddr = e.vaddr) := by
        intro hh
        apply hk.1
        have : key q = key e := by simp [key, hh.1, hh.2]
        rw [this]; exact List.mem_map_of_mem he'
      have hkeep : (!(q.pid == e.pid && q.vaddr == e.vaddr)) = true := by
        simp only [Bool.not_eq_true', Bool.and_eq_false_iff, beq_eq_false_iff_ne]
        by_cases h1 : q.pid = e.pid
        · exact Or.inr (fun h2 => hne ⟨h1, h2⟩)
        · exact Or.inl h1
      rw [List.filter_cons, if_pos hkeep, List.length_cons, List.length_cons]
      have := ih hk.2 he'
      omega

theorem removePage_cons {s s' : State} {v : Nat}
    (hP : PInv s.ps s.devs s.pool.frees s.pt) (hM : MirrorWeak s.mirror s.pt) (h : removePage s v = .ok s') :
    Cons 0 s s' := by
  unfold removePage at h
  split at h
  · simp at h
  · rename_i pg hl
    split at h
    · simp at h
    · rename_i d hd
      split at h
      · simp at h
      · rename_i pt' hr
        injection h with h; subst h
        obtain ⟨⟨e, he⟩, rfl⟩ := ptRemove_ok hr
        obtain ⟨he1, he2, he3⟩ := ptFind_some he
        have hvk : pg.vaddr = v := hM.1 _ (lookup_mem hl)
        have hpa : e.paddr = pg.paddr := hM.2 v pg hl e he1 he2 (he3.trans hvk)
        have hdlt : d < s.pool.frees.length := by
          obtain ⟨dv, hdv, _, _⟩ := devOf_spec hd
          rw [hP.len]
          rcases Nat.lt_or_ge d s.devs.length with hl' | hl'
          · exact hl'
          · simp [List.getElem?_eq_none hl'] at hdv
        have hperm := flatten_modify_perm s.pool.frees d pg.paddr hdlt
        have hlen := filter_key_length hP.keyNodup he1
        rw [he2, he3] at hlen
        refine ⟨?_, ?_⟩
        · intro p hp
          rcases hp with hp | hp
          · rcases List.mem_cons.mp (hperm.mem_iff.mp hp) with rfl | hp'
            · exact Or.inr (hpa ▸ List.mem_map_of_mem he1)
            · exact Or.inl hp'
          · refine Or.inr ?_
            obtain ⟨x, hx, rfl⟩ := List.mem_map.mp hp
            exact List.mem_map_of_mem (List.mem_filter.mp hx).1
        · have h1 := hperm.length_eq
          rw [List.length_cons] at h1
          show (s.pool.frees.modify d (· ++ [pg.paddr])).flatten.length +
            (s.pt.filter fun p => !(p.pid == pg.pid && p.vaddr == pg.vaddr)).length + 0 = _
          omega

theorem removePages_cons : ∀ (vs : List Nat) (s s' : State),
    PInv s.ps s.devs s.pool.frees s.pt → MirrorWeak s.mirror s.pt → removePages vs s = .ok s' → Cons 0 s s' := by
  intro vs
  induction vs with
  | nil => intro s s' _ _ h; simp [removePages] at h; subst h; exact Cons.refl _
  | cons v vs ih =>
    intro s s' hP hM h
    simp only [removePages] at h
    split at h
    · simp at h
    · rename_i s1 h1
      obtain ⟨a, b, _⟩ := removePage_w hP hM h1
      exact (removePage_cons hP hM h1).trans (ih s1 s' a b h)

theorem free_cons {s s' : State} {ptr : Nat}
    (hP : PInv s.ps s.devs s.pool.frees s.pt) (hM : MirrorWeak s.mirror s.pt) (h : free s ptr = .ok s') :
    Cons 0 s s' := by
  unfold free at h
  have := removePages_cons _ { s with npages := (ptr, 0) :: s.npages } s' hP hM h
  exact ⟨this.sub, this.count⟩

/-! ### Remap / Distribute / AllocatePageWithGivenVAddr / preparePageForMigration -/

theorem remapLoop_cons (π : Nat) (u : Bool) : ∀ (vs ps : List Nat) (s s' : State),
    remapLoop π u vs ps s = .ok s' →
    s'.pool = s.pool ∧ s'.ps = s.ps ∧ s'.pt.length = s.pt.length ∧
    ∀ p ∈ livePages s', p ∈ livePages s ∨ p ∈ ps := by
  intro vs
  induction vs with
  | nil => intro ps s s' h; simp [remapLoop] at h; subst h; exact ⟨rfl, rfl, rfl, fun _ hp => Or.inl hp⟩
  | cons v vs ih =>
    intro ps s s' h
    cases ps with
    | nil => simp [remapLoop] at h; subst h; exact ⟨rfl, rfl, rfl, fun _ hp => Or.inl hp⟩
    | cons p ps =>
      simp only [remapLoop] at h
      split at h
      · simp at h
      · rename_i dev hd
        split at h
        · simp at h
        · rename_i pt' hu
          obtain ⟨_, rfl⟩ := ptUpdate_ok hu
          obtain ⟨a, b, c, e⟩ := ih ps _ s' h
          refine ⟨a, b, by rw [c]; simp, ?_⟩
          intro q hq
          rcases e q hq with hq' | hq'
          · obtain ⟨x, hx, rfl⟩ := List.mem_map.mp hq'
            rcases mem_map_upd hx with rfl | hx'
            · exact Or.inr (List.mem_cons_self ..)
            · exact Or.inl (List.mem_map_of_mem hx')
          · exact Or.inr (List.mem_cons_of_mem _ hq')

theorem remap_cons {s s' : State} {π addr bytes d : Nat} (h : remap s π addr bytes d = .ok s') :
    Cons (remapVAddrs s.ps addr bytes).length s s' ∧ s'.ps = s.ps := by
  unfold remap at h
  dsimp only at h
  split at h
  · simp at h
  · rename_i ps pool' hm
    obtain ⟨ht, hlen⟩ := allocMulti_took hm
    obtain ⟨a, b, c, e⟩ := remapLoop_cons π false _ ps { s with pool := pool' } s' h
    have a' : s'.pool = pool' := a
    refine ⟨Cons.of_took (t := ps) (by rw [a']; exact ht) e ?_, b⟩
    have c' : s'.pt.length = s.pt.length := c
    omega

theorem remapAll_cons (π : Nat) (ids : List Nat) : ∀ (plan : List (Nat × Nat × Nat)) (s s' : State),
    remapAll π ids plan s = .ok s' →
    Cons ((plan.map fun r => (remapVAddrs s.ps r.1 r.2.1).length).sum) s s' ∧ s'.ps = s.ps := by
  intro plan
  induction plan with
  | nil => intro s s' h; simp [remapAll] at h; subst h; exact ⟨Cons.refl _, rfl⟩
  | cons r rest ih =>
    intro s s' h
    obtain ⟨a, b, i⟩ := r
    simp only [remapAll] at h
    split at h
    · simp at h
    · rename_i s1 h1
      obtain ⟨c1, e1⟩ := remap_cons h1
      obtain ⟨c2, e2⟩ := ih s1 s' h
      rw [e1] at c2
      refine ⟨?_, e2.trans e1⟩
      rw [List.map_cons, List.sum_cons]
      exact c1.trans c2

theorem distribute_cons {s s' : State} {π addr bytes : Nat} {ids bs : List Nat}
    (h : distribute s π addr bytes ids = .ok (bs, s')) :
    Cons (if ids.length = 1 then 0
          else ((distPlan s.ps addr bytes ids.length).map fun r => (remapVAddrs s.ps r.1 r.2.1).length).sum) s s' := by
  unfold distribute at h
  split at h
  · rename_i h1
    injection h with h; obtain ⟨_, rfl⟩ := Prod.mk.inj h
    rw [if_pos h1]; exact Cons.refl _
  · rename_i h1
    split at h
    · simp at h
    · split at h
      · simp at h
      · split at h
        · simp at h
        · rename_i s1 hr
          injection h with h; obtain ⟨_, rfl⟩ := Prod.mk.inj h
          rw [if_neg h1]
          exact (remapAll_cons π ids _ s _ hr).1

theorem allocGiven_cons {s s' : State} {π d v : Nat} {u : Bool} {pg : Page}
    (h : allocGiven s π d v u = .ok (pg, s')) :
    Cons 1 s s' ∧ pg.paddr ∈ livePages s' ∧ s'.pt.length = s.pt.length := by
  unfold allocGiven at h
  split at h
  · simp at h
  · rename_i p pool' hp
    split at h
    · simp at h
    · rename_i dev hd
      dsimp only at h
      split at h
      · simp at h
      · rename_i pt' hu
        injection h with h
        obtain ⟨rfl, rfl⟩ := Prod.mk.inj h
        obtain ⟨⟨e, he⟩, rfl⟩ := ptUpdate_ok hu
        obtain ⟨he1, he2, he3⟩ := ptFind_some he
        refine ⟨Cons.of_took (t := [p]) (allocPage_took hp) ?_ (by simp), ?_, by simp⟩
        · intro q hq
          obtain ⟨x, hx, rfl⟩ := List.mem_map.mp hq
          rcases mem_map_upd hx with rfl | hx'
          · exact Or.inr (List.mem_cons_self ..)
          · exact Or.inl (List.mem_map_of_mem hx')
        · apply List.mem_map.mpr
          refine ⟨mkPg π v p dev u, ?_, rfl⟩
          apply List.mem_map.mpr
          refine ⟨e, he1, ?_⟩
          simp [upd, he2, he3]

theorem prepareMigration_cons {s s' : State} {π v g : Nat} {r : Nat × Nat}
    (h : prepareMigration s π v g = .ok (r, s')) : Cons 1 s s' := by
  unfold prepareMigration at h
  split at h
  · simp at h
  · rename_i old hold
    split at h
    · simp at h
    · rename_i pg s1 h1
      dsimp only at h
      split at h
      · simp at h
      · rename_i pt' hu
        injection h with h
        obtain ⟨_, rfl⟩ := Prod.mk.inj h
        obtain ⟨c1, hin, _⟩ := allocGiven_cons h1
        obtain ⟨_, rfl⟩ := ptUpdate_ok hu
        have c2 : Cons 0 s1 { s1 with pt := s1.pt.map (upd { pg with dev := g + 1, migrating := true }) } := by
          refine ⟨?_, by simp⟩
          intro q hq
          rcases hq with hq | hq
          · exact Or.inl hq
          · refine Or.inr ?_
            obtain ⟨x, hx, rfl⟩ := List.mem_map.mp hq
            rcases mem_map_upd hx with rfl | hx'
            · exact hin
            · exact List.mem_map_of_mem hx'
        exact c1.trans c2

/-! ### CreateUnifiedGPU registers a device without pages -/

theorem registerDevice_zero_flatten {s : State} (hps : 0 < s.ps) (kind : Kind) (actual : List Nat) :
    (registerDevice s kind 0 actual).pool.frees.flatten = s.pool.frees.flatten := by
  show (s.pool.frees ++ [(List.range ((0 + s.ps - 1) / s.ps)).map fun i => s.total + i * s.ps]).flatten = _
  have : (0 + s.ps - 1) / s.ps = 0 := Nat.div_eq_of_lt (by omega)
  rw [this]
  simp

theorem registerDevice_zero_cons {s : State} (hps : 0 < s.ps) (kind : Kind) (actual : List Nat) :
    Cons 0 s (registerDevice s kind 0 actual) := by
  have e := registerDevice_zero_flatten hps kind actual
  refine ⟨?_, ?_⟩
  · intro p hp
    rw [e] at hp
    exact hp
  · rw [e]; rfl

/-! ### one driver step -/

/-- every successful driver operation moves pages between the free lists and the page table, creates none,
and drops exactly `rehomed s op` of them -/
theorem step_cons {s s' : State} {op : Op} {r : Res} (hW : WInv s) (h : step s op = .ok (r, s')) :
    Cons (rehomed s op) s s' := by
  cases op with
  | init => rw [step_init h]; exact Cons.of_eq rfl rfl
  | initpid c =>
    obtain ⟨cx, _, rfl⟩ := step_initpid h
    exact Cons.of_eq rfl rfl
  | sel c g =>
    obtain ⟨cx, _, rfl⟩ := step_sel h
    exact Cons.of_eq rfl rfl
  | unify c ids =>
    rw [step_unify h]
    exact registerDevice_zero_cons hW.phys.pspos _ _
  | alloc c bytes =>
    obtain ⟨cx, v, s1, _, h1, rfl, _⟩ := step_alloc h
    obtain ⟨_, h1⟩ := allocate_ok h1
    exact (allocatePages_cons h1).setCtx _ _
  | allocu c bytes =>
    obtain ⟨cx, v, s1, _, h1, rfl, _⟩ := step_allocu h
    obtain ⟨_, h1⟩ := allocateUnified_ok h1
    exact (allocatePages_cons h1).setCtx _ _
  | free c ptr =>
    obtain ⟨cx, s1, _, h1, rfl⟩ := step_free h
    exact (free_cons hW.phys hW.mw h1).setCtx _ _
  | remap c addr bytes d =>
    obtain ⟨cx, _, h1⟩ := step_remap h
    exact (remap_cons h1).1
  | dist c addr bytes ids =>
    obtain ⟨cx, bs, _, h1⟩ := step_dist h
    exact distribute_cons h1
  | mig c v g =>
    obtain ⟨cx, no, _, h1⟩ := step_mig h
    exact prepareMigration_cons h1
  | rmpage v => exact removePage_cons hW.phys hW.mw (step_rmpage h)
  | apg c d v u =>
    obtain ⟨cx, pg, _, h1⟩ := step_apg h
    exact (allocGiven_cons h1).1
  | rfb c =>
    obtain ⟨cx, _, rfl⟩ := step_rfb h
    exact Cons.of_eq rfl rfl

/-- (a) no page enters circulation from nowhere -/
theorem step_sub {s s' : State} {op : Op} {r : Res} (hW : WInv s) (h : step s op = .ok (r, s')) :
    ∀ p, p ∈ s'.pool.frees.flatten ∨ p ∈ livePages s' → p ∈ s.pool.frees.flatten ∨ p ∈ livePages s :=
  (step_cons hW h).sub

/-- (b) free pages + mapped pages + pages re-homed by this step = free pages + mapped pages before -/
theorem step_count {s s' : State} {op : Op} {r : Res} (hW : WInv s) (h : step s op = .ok (r, s')) :
    s'.pool.frees.flatten.length + s'.pt.length + rehomed s op = s.pool.frees.flatten.length + s.pt.length :=
  (step_cons hW h).count

/-! ### histories -/

theorem runR_run : ∀ (ops : List Op) (s : State) (k : Nat) (s' : State) (k' : Nat),
    runR s k ops = .ok (s', k') → run s ops = .ok s' := by
  intro ops
  induction ops with
  | nil =>
    intro s k s' k' h
    simp only [runR] at h
    injection h with h
    rw [(Prod.mk.inj h).1]; rfl
  | cons op ops ih =>
    intro s k s' k' h
    simp only [runR] at h
    simp only [run]
    split at h
    · simp at h
    · exact ih _ _ _ _ h

theorem run_runR : ∀ (ops : List Op) (s : State) (k : Nat) (s' : State),
    run s ops = .ok s' → ∃ k', runR s k ops = .ok (s', k') := by
  intro ops
  induction ops with
  | nil =>
    intro s k s' h
    simp only [run] at h
    injection h with h
    exact ⟨k, by rw [h]; rfl⟩
  | cons op ops ih =>
    intro s k s' h
    simp only [run] at h
    simp only [runR]
    split at h
    · simp at h
    · exact ih _ _ _ h

/-- the ghost counter of a history = the pages dropped; all invariants are kept -/
theorem runR_cons {n : Nat} : ∀ (ops : List Op) (s : State) (k : Nat) (s' : State) (k' : Nat),
    WInv s → GpuOK n s → (∀ op ∈ ops, MigOK n op) → runR s k ops = .ok (s', k') →
    ∃ j, k' = k + j ∧ Cons j s s' ∧ WInv s' ∧ GpuOK n s' := by
  intro ops
  induction ops with
  | nil =>
    intro s k s' k' hW hG _ h
    simp only [runR] at h
    injection h with h
    obtain ⟨rfl, rfl⟩ := Prod.mk.inj h
    exact ⟨0, rfl, Cons.refl _, hW, hG⟩
  | cons op ops ih =>
    intro s k s' k' hW hG hm h
    simp only [runR] at h
    split at h
    · simp at h
    · rename_i r s1 h1
      obtain ⟨a, b⟩ := step_w hW hG (hm op (List.mem_cons_self ..)) h1
      obtain ⟨j, e, c, w, g⟩ := ih s1 _ s' k' a b (fun o ho => hm o (List.mem_cons_of_mem _ ho)) h
      exact ⟨rehomed s op + j, by omega, (step_cons hW h1).trans c, w, g⟩

theorem rehomed_noRehome {s : State} {op : Op} (h : op.noRehome = true) : rehomed s op = 0 := by
  cases op <;> simp [Op.noRehome] at h <;> rfl

theorem migOK_of_noRehome {n : Nat} {op : Op} (h : op.noRehome = true) : MigOK n op := by
  cases op <;> simp [Op.noRehome] at h <;> trivial

/-- a history without re-homing operations leaves the ghost counter alone -/
theorem runR_noRehome : ∀ (ops : List Op) (s : State) (k : Nat) (s' : State) (k' : Nat),
    ops.all Op.noRehome = true → runR s k ops = .ok (s', k') → k' = k := by
  intro ops
  induction ops with
  | nil =>
    intro s k s' k' _ h
    simp only [runR] at h
    injection h with h
    exact (Prod.mk.inj h).2.symm
  | cons op ops ih =>
    intro s k s' k' ha h
    simp only [List.all_cons, Bool.and_eq_true] at ha
    simp only [runR] at h
    split at h
    · simp at h
    · rename_i r s1 h1
      have := ih _ _ _ _ ha.2 h
      rw [rehomed_noRehome ha.1] at this
      exact this

/-! ### list facts -/

/-- the elements of a duplicate-free `all` outside a duplicate-free sublist-as-a-set `X` -/
theorem filter_not_mem_length {all X : List Nat} (ha : all.Nodup) (hx : X.Nodup) (hs : ∀ p ∈ X, p ∈ all) :
    (all.filter fun p => !(X.contains p)).length + X.length = all.length := by
  have h1 : ((all.filter fun p => X.contains p) ++ (all.filter fun p => !(X.contains p))).length = all.length :=
    (List.filter_append_perm (fun p => X.contains p) all).length_eq
  rw [List.length_append] at h1
  have h2 : (all.filter fun p => X.contains p).Perm X := by
    rw [List.perm_ext_iff_of_nodup (ha.sublist List.filter_sublist) hx]
    intro a
    simp only [List.mem_filter, List.contains_iff_mem]
    exact ⟨fun h => h.2, fun h => ⟨hs a h, h⟩⟩
  have h3 := h2.length_eq
  omega

/-- a duplicate-free list inside a duplicate-free list of the same length is a permutation of it -/
theorem perm_of_nodup_subset_length {all X : List Nat} (ha : all.Nodup) (hx : X.Nodup) (hs : ∀ p ∈ X, p ∈ all)
    (hl : X.length = all.length) : X.Perm all ∧ (all.filter fun p => !(X.contains p)) = [] := by
  have h := filter_not_mem_length ha hx hs
  have h0 : (all.filter fun p => !(X.contains p)) = [] := List.eq_nil_of_length_eq_zero (by omega)
  refine ⟨?_, h0⟩
  rw [List.perm_ext_iff_of_nodup hx ha]
  intro a
  refine ⟨hs a, fun hin => ?_⟩
  have := List.filter_eq_nil_iff.mp h0 a hin
  simpa using this

theorem lostPages_eq (all : List Nat) (s : State) :
    lostPages all s = all.filter fun p => !((s.pool.frees.flatten ++ livePages s).contains p) := by
  unfold lostPages
  apply List.filter_congr
  intro p _
  simp

theorem mem_lostPages {all : List Nat} {s : State} {p : Nat} :
    p ∈ lostPages all s ↔ p ∈ all ∧ p ∉ s.pool.frees.flatten ∧ p ∉ livePages s := by
  unfold lostPages
  simp [List.mem_filter]

/-! ### the initial state: every page is free, nothing is mapped -/

theorem regGPUs_pt : ∀ (gpus : List Nat) (s : State), (regGPUs gpus s).pt = s.pt := by
  intro gpus
  induction gpus with
  | nil => intro s; rfl
  | cons g gs ih => intro s; exact ih (registerDevice s .gpu g [])

theorem initState_pt (ps cpu : Nat) (gpus : List Nat) : (initState ps cpu gpus).pt = [] := by
  rw [initState_eq, regGPUs_pt]; rfl

/-- what `Cons j (initState …) s'` and the physical invariant of `s'` say in terms of `allPages` -/
theorem cons_from_init {ps cpu : Nat} {gpus : List Nat} {s' : State} {j : Nat} (h : Cfg ps cpu gpus)
    (c : Cons j (initState ps cpu gpus) s') (hP : PInv s'.ps s'.devs s'.pool.frees s'.pt) :
    (s'.pool.frees.flatten ++ livePages s').Nodup ∧
    (∀ p ∈ s'.pool.frees.flatten ++ livePages s', p ∈ allPages ps cpu gpus) ∧
    s'.pool.frees.flatten.length + s'.pt.length + j = (allPages ps cpu gpus).length ∧
    (lostPages (allPages ps cpu gpus) s').length = j := by
  have hall : (allPages ps cpu gpus).Nodup := (init_all h).1.phys.freeNodup
  have hnd : (s'.pool.frees.flatten ++ livePages s').Nodup :=
    List.nodup_append.mpr ⟨hP.freeNodup, hP.liveNodup, fun a ha b hb hab => hP.disj a ha (hab ▸ hb)⟩
  have hsub : ∀ p ∈ s'.pool.frees.flatten ++ livePages s', p ∈ allPages ps cpu gpus := by
    intro p hp
    rcases c.sub p (List.mem_append.mp hp) with h1 | h1
    · exact h1
    · unfold livePages at h1
      rw [initState_pt] at h1
      simp at h1
  have hcount : s'.pool.frees.flatten.length + s'.pt.length + j = (allPages ps cpu gpus).length := by
    have := c.count
    rw [initState_pt] at this
    exact this
  refine ⟨hnd, hsub, hcount, ?_⟩
  have hf := filter_not_mem_length hall hnd hsub
  rw [← lostPages_eq] at hf
  have hl : (s'.pool.frees.flatten ++ livePages s').length = s'.pool.frees.flatten.length + s'.pt.length := by
    simp [livePages]
  omega

end C10
