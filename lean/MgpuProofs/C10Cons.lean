import MgpuProofs.C10Init
/-!
Conservation of physical pages (C10): what one driver operation does to the two places a physical page
can be — a device free list (`s.pool.frees`) or a page-table entry (`livePages s`).

`Cons k s s'` = no page enters circulation from nowhere, and `k` pages left it: Alloc moves pages
free → mapped, Free/RemovePage move the page of the entry they unmap mapped → free; Remap / Distribute (repaired)
take a fresh page for a virtual page whose entry is overwritten in place and give the page it was mapped to
back to the free list of its device — unless the allocator's record of the virtual address belongs to another
process. AllocatePageWithGivenVAddr / preparePageForMigration deliberately keep the replaced page (the page
migration controller still reads it). Every page that is replaced and not given back is counted by the ghost
field `State.leaked`: `LCons s s'` = `Cons (s'.leaked - s.leaked) s s'`.
-/
namespace C10

/-- `s'` results from `s` by moving pages between the free lists and the page table and dropping `k` of them -/
structure Cons (k : Nat) (s s' : State) : Prop where
  sub : ∀ p, p ∈ s'.pool.frees.flatten ∨ p ∈ livePages s' → p ∈ s.pool.frees.flatten ∨ p ∈ livePages s
  count : s'.pool.frees.flatten.length + s'.pt.length + k = s.pool.frees.flatten.length + s.pt.length

theorem Cons.refl (s : State) : Cons 0 s s := ⟨fun _ h => h, rfl⟩

theorem Cons.trans {k1 k2 : Nat} {a b c : State} (h1 : Cons k1 a b) (h2 : Cons k2 b c) : Cons (k1 + k2) a c := by
  refine ⟨fun p hp => h1.sub p (h2.sub p hp), ?_⟩
  have := h1.count
  have := h2.count
  omega

theorem Cons.cast {k k' : Nat} {s s' : State} (h : Cons k s s') (e : k = k') : Cons k' s s' := e ▸ h

/-- only fields other than the free lists and the page table change -/
theorem Cons.of_eq {s s' : State} (hf : s'.pool.frees = s.pool.frees) (hp : s'.pt = s.pt) : Cons 0 s s' := by
  refine ⟨?_, by rw [hf, hp]; omega⟩
  intro p h
  unfold livePages at h ⊢
  rw [hf, hp] at h
  exact h

theorem Cons.setCtx {k : Nat} {s s' : State} (h : Cons k s s') (c : Nat) (x : Ctx) : Cons k s (setCtx s' c x) :=
  ⟨h.sub, h.count⟩

/-- pages `t` leave the free lists; every mapped page was mapped before or is one of them -/
theorem Cons.of_took {k : Nat} {s s' : State} {t : List Nat}
    (ht : Took s.pool.frees s'.pool.frees t)
    (hl : ∀ p ∈ livePages s', p ∈ livePages s ∨ p ∈ t)
    (hc : s'.pt.length + k = s.pt.length + t.length) : Cons k s s' := by
  refine ⟨?_, ?_⟩
  · intro p hp
    rcases hp with hp | hp
    · exact Or.inl (ht.perm.mem_iff.mpr (List.mem_append_right _ hp))
    · rcases hl p hp with h | h
      · exact Or.inr h
      · exact Or.inl (ht.perm.mem_iff.mpr (List.mem_append_left _ h))
  · have := ht.perm.length_eq
    rw [List.length_append] at this
    omega

/-! ### allocatePages -/

theorem allocLoop_cons (π d : Nat) (u : Bool) : ∀ (k v : Nat) (s s' : State),
    allocLoop π d u k v s = .ok s' → Cons 0 s s' := by
  intro k
  induction k with
  | zero => intro v s s' h; simp [allocLoop] at h; subst h; exact Cons.refl _
  | succ k ih =>
    intro v s s' h
    simp only [allocLoop] at h
    split at h
    · simp at h
    · rename_i p pool' hp
      split at h
      · simp at h
      · rename_i dev hd
        split at h
        · simp at h
        · rename_i pt' hi
          obtain ⟨_, rfl⟩ := ptInsert_ok hi
          have h1 : Cons 0 s { s with pool := pool', pt := s.pt ++ [mkPg π v p dev u],
                                      mirror := (v, mkPg π v p dev u) :: s.mirror } := by
            refine Cons.of_took (t := [p]) (allocPage_took hp) ?_ (by simp)
            intro q hq
            simp only [livePages, List.map_append, List.mem_append, List.map_cons, List.map_nil] at hq ⊢
            exact hq
          exact h1.trans (ih _ _ s' h)

theorem allocatePages_cons {s s' : State} {n π d v : Nat} {u : Bool}
    (h : allocatePages s n π d u = .ok (v, s')) : Cons 0 s s' := by
  unfold allocatePages at h
  dsimp only at h
  split at h
  · simp at h
  · rename_i s1 hl
    injection h with h
    obtain ⟨_, rfl⟩ := Prod.mk.inj h
    have := allocLoop_cons π d u _ _ _ _ hl
    exact ⟨this.sub, this.count⟩

/-! ### RemovePage / Free -/

/-- removing the entry with the key of `e` from a table with unique keys removes exactly one entry -/
theorem filter_key_length {pt : List Page} {e : Page} (hk : (pt.map key).Nodup) (he : e ∈ pt) :
    (pt.filter fun p => !(p.pid == e.pid && p.vaddr == e.vaddr)).length + 1 = pt.length := by
  induction pt with
  | nil => simp at he
  | cons q qs ih =>
    simp only [List.map_cons, List.nodup_cons] at hk
    rcases List.mem_cons.mp he with rfl | he'
    · have hall : qs.filter (fun p => !(p.pid == e.pid && p.vaddr == e.vaddr)) = qs := by
        apply List.filter_eq_self.mpr
        intro x hx
        have hne : ¬ (x.pid = e.pid ∧ x.vaddr = e.vaddr) := by
          intro hh
          apply hk.1
          have : key x = key e := by simp [key, hh.1, hh.2]
          rw [← this]; exact List.mem_map_of_mem hx
        simp only [Bool.not_eq_true', Bool.and_eq_false_iff, beq_eq_false_iff_ne]
        by_cases h1 : x.pid = e.pid
        · exact Or.inr (fun h2 => hne ⟨h1, h2⟩)
        · exact Or.inl h1
      rw [List.filter_cons, hall]
      simp
    · have hne : ¬ (q.pid = e.pid ∧ q.vaddr = e.vaddr) := by
        intro hh
        apply hk.1
        have : key q = key e := by simp [key, hh.1, hh.2]
        rw [this]; exact List.mem_map_of_mem he'
      have hkeep : (!(q.pid == e.pid && q.vaddr == e.vaddr)) = true := by
        simp only [Bool.not_eq_true', Bool.and_eq_false_iff, beq_eq_false_iff_ne]
        by_cases h1 : q.pid = e.pid
        · exact Or.inr (fun h2 => hne ⟨h1, h2⟩)
        · exact Or.inl h1
      rw [List.filter_cons, if_pos hkeep, List.length_cons, List.length_cons]
      have := ih hk.2 he'
      omega

theorem removePage_cons {s s' : State} {v : Nat}
    (hP : PInv s.ps s.devs s.pool.frees s.pt) (hM : MirrorWeak s.mirror s.pt) (h : removePage s v = .ok s') :
    Cons 0 s s' := by
  unfold removePage at h
  split at h
  · simp at h
  · rename_i pg hl
    split at h
    · simp at h
    · rename_i d hd
      split at h
      · simp at h
      · rename_i pt' hr
        injection h with h; subst h
        obtain ⟨⟨e, he⟩, rfl⟩ := ptRemove_ok hr
        obtain ⟨he1, he2, he3⟩ := ptFind_some he
        have hvk : pg.vaddr = v := hM.1 _ (lookup_mem hl)
        have hpa : e.paddr = pg.paddr := hM.2 v pg hl e he1 he2 (he3.trans hvk)
        have hdlt : d < s.pool.frees.length := by
          obtain ⟨dv, hdv, _, _⟩ := devOf_spec hd
          rw [hP.len]
          rcases Nat.lt_or_ge d s.devs.length with hl' | hl'
          · exact hl'
          · simp [List.getElem?_eq_none hl'] at hdv
        have hperm := flatten_modify_perm s.pool.frees d pg.paddr hdlt
        have hlen := filter_key_length hP.keyNodup he1
        rw [he2, he3] at hlen
        refine ⟨?_, ?_⟩
        · intro p hp
          rcases hp with hp | hp
          · rcases List.mem_cons.mp (hperm.mem_iff.mp hp) with rfl | hp'
            · exact Or.inr (hpa ▸ List.mem_map_of_mem he1)
            · exact Or.inl hp'
          · refine Or.inr ?_
            obtain ⟨x, hx, rfl⟩ := List.mem_map.mp hp
            exact List.mem_map_of_mem (List.mem_filter.mp hx).1
        · have h1 := hperm.length_eq
          rw [List.length_cons] at h1
          show (s.pool.frees.modify d (· ++ [pg.paddr])).flatten.length +
            (s.pt.filter fun p => !(p.pid == pg.pid && p.vaddr == pg.vaddr)).length + 0 = _
          omega

theorem removePages_cons : ∀ (vs : List Nat) (s s' : State),
    PInv s.ps s.devs s.pool.frees s.pt → MirrorWeak s.mirror s.pt → removePages vs s = .ok s' → Cons 0 s s' := by
  intro vs
  induction vs with
  | nil => intro s s' _ _ h; simp [removePages] at h; subst h; exact Cons.refl _
  | cons v vs ih =>
    intro s s' hP hM h
    simp only [removePages] at h
    split at h
    · simp at h
    · rename_i s1 h1
      obtain ⟨a, b, _⟩ := removePage_w hP hM h1
      exact (removePage_cons hP hM h1).trans (ih s1 s' a b h)

theorem free_cons {s s' : State} {ptr : Nat}
    (hP : PInv s.ps s.devs s.pool.frees s.pt) (hM : MirrorWeak s.mirror s.pt) (h : free s ptr = .ok s') :
    Cons 0 s s' := by
  unfold free at h
  have := removePages_cons _ { s with npages := (ptr, 0) :: s.npages } s' hP hM h
  exact ⟨this.sub, this.count⟩

/-! ### the ghost field `leaked`: pages replaced in a page-table entry and not given back -/

/-- `Cons` with the growth of the ghost field as the number of pages that left circulation -/
structure LCons (s s' : State) : Prop where
  le : s.leaked ≤ s'.leaked
  cons : Cons (s'.leaked - s.leaked) s s'

theorem LCons.refl (s : State) : LCons s s := ⟨Nat.le_refl _, (Cons.refl s).cast (by omega)⟩

theorem LCons.trans {a b c : State} (h1 : LCons a b) (h2 : LCons b c) : LCons a c :=
  ⟨Nat.le_trans h1.le h2.le, (h1.cons.trans h2.cons).cast (by have := h1.le; have := h2.le; omega)⟩

/-- an operation that drops no page and leaves the ghost field alone -/
theorem LCons.of_cons {s s' : State} (h : Cons 0 s s') (e : s'.leaked = s.leaked) : LCons s s' :=
  ⟨by omega, h.cast (by omega)⟩

theorem LCons.setCtx {s s' : State} (h : LCons s s') (c : Nat) (x : Ctx) : LCons s (setCtx s' c x) :=
  ⟨h.le, h.cons.setCtx c x⟩

theorem allocLoop_leaked (π d : Nat) (u : Bool) : ∀ (k v : Nat) (s s' : State),
    allocLoop π d u k v s = .ok s' → s'.leaked = s.leaked := by
  intro k
  induction k with
  | zero => intro v s s' h; simp [allocLoop] at h; subst h; rfl
  | succ k ih =>
    intro v s s' h
    simp only [allocLoop] at h
    split at h
    · simp at h
    · split at h
      · simp at h
      · split at h
        · simp at h
        · have := ih _ _ s' h
          exact this

theorem allocatePages_leaked {s s' : State} {n π d v : Nat} {u : Bool}
    (h : allocatePages s n π d u = .ok (v, s')) : s'.leaked = s.leaked := by
  unfold allocatePages at h
  dsimp only at h
  split at h
  · simp at h
  · rename_i s1 hl
    injection h with h
    obtain ⟨_, rfl⟩ := Prod.mk.inj h
    have := allocLoop_leaked π d u _ _ _ _ hl
    exact this

theorem removePage_leaked {s s' : State} {v : Nat} (h : removePage s v = .ok s') : s'.leaked = s.leaked := by
  unfold removePage at h
  split at h
  · simp at h
  · split at h
    · simp at h
    · split at h
      · simp at h
      · injection h with h; subst h; rfl

theorem removePages_leaked : ∀ (vs : List Nat) (s s' : State), removePages vs s = .ok s' → s'.leaked = s.leaked := by
  intro vs
  induction vs with
  | nil => intro s s' h; simp [removePages] at h; subst h; rfl
  | cons v vs ih =>
    intro s s' h
    simp only [removePages] at h
    split at h
    · simp at h
    · rename_i s1 h1
      exact (ih s1 s' h).trans (removePage_leaked h1)

theorem free_leaked {s s' : State} {ptr : Nat} (h : free s ptr = .ok s') : s'.leaked = s.leaked := by
  unfold free at h
  exact removePages_leaked _ { s with npages := (ptr, 0) :: s.npages } s' h

/-! ### Remap / Distribute (repaired: the replaced page goes back to its device) -/

/-- the loop of allocateMultiplePagesWithGivenVAddrs: every iteration re-points one entry to a fresh page and either
appends the page the entry named before to a free list or counts it in `leaked`; no other page appears. -/
theorem remapLoop_cons (π : Nat) (u : Bool) : ∀ (vs ps : List Nat) (s s' : State),
    s.pool.frees.length = s.devs.length → MirrorWeak s.mirror s.pt →
    remapLoop π u vs ps s = .ok s' →
    s'.devs = s.devs ∧ s'.pt.length = s.pt.length ∧ s.leaked ≤ s'.leaked ∧
    s'.pool.frees.flatten.length + s'.leaked =
      s.pool.frees.flatten.length + s.leaked + min vs.length ps.length ∧
    ∀ q, q ∈ s'.pool.frees.flatten ∨ q ∈ livePages s' →
      q ∈ s.pool.frees.flatten ∨ q ∈ livePages s ∨ q ∈ ps := by
  intro vs
  induction vs with
  | nil =>
    intro ps s s' _ _ h
    simp [remapLoop] at h; subst h
    exact ⟨rfl, rfl, Nat.le_refl _, by simp, fun q hq => hq.elim Or.inl (fun x => Or.inr (Or.inl x))⟩
  | cons v vs ih =>
    intro ps s s' hlen hM h
    cases ps with
    | nil =>
      simp [remapLoop] at h; subst h
      exact ⟨rfl, rfl, Nat.le_refl _, by simp, fun q hq => hq.elim Or.inl (fun x => Or.inr (Or.inl x))⟩
    | cons p ps =>
      simp only [remapLoop] at h
      split at h
      · simp at h
      · rename_i dev hd
        split at h
        · simp at h
        · rename_i pt' hu
          split at h
          · simp at h
          · rename_i s1 hr
            obtain ⟨⟨e, hfind⟩, hpt⟩ := ptUpdate_ok hu
            obtain ⟨he1, he2, he3⟩ := ptFind_some hfind
            subst hpt
            have hM0 : MirrorWeak ((v, mkPg π v p dev u) :: s.mirror) (s.pt.map (upd (mkPg π v p dev u))) :=
              hM.push_update rfl
            have hlive : ∀ q ∈ (s.pt.map (upd (mkPg π v p dev u))).map (·.paddr), q = p ∨ q ∈ livePages s := by
              intro q hq
              obtain ⟨x, hx, rfl⟩ := List.mem_map.mp hq
              rcases mem_map_upd hx with rfl | hx'
              · exact Or.inl rfl
              · exact Or.inr (List.mem_map_of_mem hx')
            have hmin : min (v :: vs).length (p :: ps).length = min vs.length ps.length + 1 := by
              simp only [List.length_cons]; omega
            rw [hmin]
            rcases releaseReplaced_ok hr with ⟨old, d, hl, hp, hdo, rfl⟩ | ⟨_, rfl⟩
            · -- the record belongs to the caller: the page of the overwritten entry goes to its device
              have hpa : e.paddr = old.paddr := hM.2 v old hl e he1 (he2.trans hp.symm) he3
              have hdlt : d < s.pool.frees.length := by
                obtain ⟨dv, hdv, _, _⟩ := devOf_spec hdo
                rw [hlen]
                rcases Nat.lt_or_ge d s.devs.length with hl' | hl'
                · exact hl'
                · have hdv' : s.devs[d]? = some dv := hdv
                  simp [List.getElem?_eq_none hl'] at hdv'
              have hperm := flatten_modify_perm s.pool.frees d old.paddr hdlt
              have hpl := hperm.length_eq
              rw [List.length_cons] at hpl
              obtain ⟨a, b, c, f, g⟩ := ih ps _ s'
                (by show (s.pool.frees.modify d _).length = s.devs.length
                    rw [List.length_modify]; exact hlen) hM0 h
              have a' : s'.devs = s.devs := a
              have b' : s'.pt.length = (s.pt.map (upd (mkPg π v p dev u))).length := b
              have c' : s.leaked ≤ s'.leaked := c
              have f' : s'.pool.frees.flatten.length + s'.leaked =
                  (s.pool.frees.modify d (· ++ [old.paddr])).flatten.length + s.leaked + min vs.length ps.length := f
              refine ⟨a', by rw [b', List.length_map], c', by omega, ?_⟩
              intro q hq
              rcases g q hq with h1 | h1 | h1
              · have h1' : q ∈ (s.pool.frees.modify d (· ++ [old.paddr])).flatten := h1
                rcases List.mem_cons.mp (hperm.mem_iff.mp h1') with rfl | h2
                · exact Or.inr (Or.inl (hpa ▸ List.mem_map_of_mem he1))
                · exact Or.inl h2
              · rcases hlive q h1 with rfl | h2
                · exact Or.inr (Or.inr (List.mem_cons_self ..))
                · exact Or.inr (Or.inl h2)
              · exact Or.inr (Or.inr (List.mem_cons_of_mem _ h1))
            · -- no record of the caller: the replaced page is not given back
              obtain ⟨a, b, c, f, g⟩ := ih ps _ s' (by exact hlen) (by exact hM0) h
              have a' : s'.devs = s.devs := a
              have b' : s'.pt.length = (s.pt.map (upd (mkPg π v p dev u))).length := b
              have c' : s.leaked + 1 ≤ s'.leaked := c
              have f' : s'.pool.frees.flatten.length + s'.leaked =
                  s.pool.frees.flatten.length + (s.leaked + 1) + min vs.length ps.length := f
              refine ⟨a', by rw [b', List.length_map], by omega, by omega, ?_⟩
              intro q hq
              rcases g q hq with h1 | h1 | h1
              · exact Or.inl h1
              · rcases hlive q h1 with rfl | h2
                · exact Or.inr (Or.inr (List.mem_cons_self ..))
                · exact Or.inr (Or.inl h2)
              · exact Or.inr (Or.inr (List.mem_cons_of_mem _ h1))

/-- MemoryAllocator.Remap: the fresh pages leave the free lists, the replaced pages come back or are counted -/
theorem remap_cons {s s' : State} {π addr bytes d : Nat}
    (hP : PInv s.ps s.devs s.pool.frees s.pt) (hM : MirrorWeak s.mirror s.pt)
    (h : remap s π addr bytes d = .ok s') : LCons s s' := by
  unfold remap at h
  dsimp only at h
  split at h
  · simp at h
  · rename_i ps pool' hm
    obtain ⟨ht, hlen⟩ := allocMulti_took hm
    obtain ⟨_, c, le, cnt, sub⟩ := remapLoop_cons π false _ ps { s with pool := pool' } s'
      (ht.len.trans hP.len) hM h
    have c' : s'.pt.length = s.pt.length := c
    have le' : s.leaked ≤ s'.leaked := le
    have cnt' : s'.pool.frees.flatten.length + s'.leaked =
        pool'.frees.flatten.length + s.leaked + min (remapVAddrs s.ps addr bytes).length ps.length := cnt
    have hpl := ht.perm.length_eq
    rw [List.length_append] at hpl
    refine ⟨le', ?_, ?_⟩
    · intro q hq
      rcases sub q hq with h1 | h1 | h1
      · exact Or.inl (ht.perm.mem_iff.mpr (List.mem_append_right _ h1))
      · exact Or.inr h1
      · exact Or.inl (ht.perm.mem_iff.mpr (List.mem_append_left _ h1))
    · omega

theorem remapAll_cons (π : Nat) (ids : List Nat) : ∀ (plan : List (Nat × Nat × Nat)) (s s' : State),
    PInv s.ps s.devs s.pool.frees s.pt → MirrorWeak s.mirror s.pt →
    remapAll π ids plan s = .ok s' → LCons s s' := by
  intro plan
  induction plan with
  | nil => intro s s' _ _ h; simp [remapAll] at h; subst h; exact LCons.refl _
  | cons r rest ih =>
    intro s s' hP hM h
    obtain ⟨a, b, i⟩ := r
    simp only [remapAll] at h
    split at h
    · simp at h
    · rename_i s1 h1
      exact (remap_cons hP hM h1).trans (ih s1 s' (remap_pres hP hM h1).1 (remap_ext hM h1).1 h)

theorem distribute_cons {s s' : State} {π addr bytes : Nat} {ids bs : List Nat}
    (hP : PInv s.ps s.devs s.pool.frees s.pt) (hM : MirrorWeak s.mirror s.pt)
    (h : distribute s π addr bytes ids = .ok (bs, s')) : LCons s s' := by
  unfold distribute at h
  split at h
  · injection h with h; obtain ⟨_, rfl⟩ := Prod.mk.inj h
    exact LCons.refl _
  · split at h
    · simp at h
    · split at h
      · simp at h
      · split at h
        · simp at h
        · rename_i s1 hr
          injection h with h; obtain ⟨_, rfl⟩ := Prod.mk.inj h
          exact remapAll_cons π ids _ s _ hP hM hr

/-! ### AllocatePageWithGivenVAddr / preparePageForMigration (the replaced page is deliberately kept) -/

theorem allocGiven_cons {s s' : State} {π d v : Nat} {u : Bool} {pg : Page}
    (h : allocGiven s π d v u = .ok (pg, s')) :
    LCons s s' ∧ s'.leaked = s.leaked + 1 ∧ pg.paddr ∈ livePages s' ∧ s'.pt.length = s.pt.length := by
  unfold allocGiven at h
  split at h
  · simp at h
  · rename_i p pool' hp
    split at h
    · simp at h
    · rename_i dev hd
      dsimp only at h
      split at h
      · simp at h
      · rename_i pt' hu
        injection h with h
        obtain ⟨rfl, rfl⟩ := Prod.mk.inj h
        obtain ⟨⟨e, he⟩, rfl⟩ := ptUpdate_ok hu
        obtain ⟨he1, he2, he3⟩ := ptFind_some he
        have hc : Cons 1 s { s with pool := pool', pt := s.pt.map (upd (mkPg π v p dev u)),
                                    mirror := (v, mkPg π v p dev u) :: s.mirror, leaked := s.leaked + 1 } := by
          refine Cons.of_took (t := [p]) (allocPage_took hp) ?_ (by simp)
          intro q hq
          obtain ⟨x, hx, rfl⟩ := List.mem_map.mp hq
          rcases mem_map_upd hx with rfl | hx'
          · exact Or.inr (List.mem_cons_self ..)
          · exact Or.inl (List.mem_map_of_mem hx')
        refine ⟨⟨Nat.le_succ _, hc.cast (by show 1 = s.leaked + 1 - s.leaked; omega)⟩, rfl, ?_, by simp⟩
        apply List.mem_map.mpr
        refine ⟨mkPg π v p dev u, ?_, rfl⟩
        apply List.mem_map.mpr
        refine ⟨e, he1, ?_⟩
        simp [upd, he2, he3]

theorem prepareMigration_cons {s s' : State} {π v g : Nat} {r : Nat × Nat}
    (h : prepareMigration s π v g = .ok (r, s')) : LCons s s' ∧ s'.leaked = s.leaked + 1 := by
  unfold prepareMigration at h
  split at h
  · simp at h
  · rename_i old hold
    split at h
    · simp at h
    · rename_i pg s1 h1
      dsimp only at h
      split at h
      · simp at h
      · rename_i pt' hu
        injection h with h
        obtain ⟨_, rfl⟩ := Prod.mk.inj h
        obtain ⟨c1, hk, hin, _⟩ := allocGiven_cons h1
        obtain ⟨_, rfl⟩ := ptUpdate_ok hu
        have c2 : Cons 0 s1 { s1 with pt := s1.pt.map (upd { pg with dev := g + 1, migrating := true }) } := by
          refine ⟨?_, by simp⟩
          intro q hq
          rcases hq with hq | hq
          · exact Or.inl hq
          · refine Or.inr ?_
            obtain ⟨x, hx, rfl⟩ := List.mem_map.mp hq
            rcases mem_map_upd hx with rfl | hx'
            · exact hin
            · exact List.mem_map_of_mem hx'
        exact ⟨c1.trans (LCons.of_cons c2 rfl), hk⟩

/-! ### CreateUnifiedGPU registers a device without pages -/

theorem registerDevice_zero_flatten {s : State} (hps : 0 < s.ps) (kind : Kind) (actual : List Nat) :
    (registerDevice s kind 0 actual).pool.frees.flatten = s.pool.frees.flatten := by
  show (s.pool.frees ++ [(List.range ((0 + s.ps - 1) / s.ps)).map fun i => s.total + i * s.ps]).flatten = _
  have : (0 + s.ps - 1) / s.ps = 0 := Nat.div_eq_of_lt (by omega)
  rw [this]
  simp

theorem registerDevice_zero_cons {s : State} (hps : 0 < s.ps) (kind : Kind) (actual : List Nat) :
    Cons 0 s (registerDevice s kind 0 actual) := by
  have e := registerDevice_zero_flatten hps kind actual
  refine ⟨?_, ?_⟩
  · intro p hp
    rw [e] at hp
    exact hp
  · rw [e]; rfl

/-! ### one driver step -/

/-- an operation that overwrites no page-table entry in place leaves the ghost field alone -/
theorem step_leaked_noRehome {s s' : State} {op : Op} {r : Res} (hn : op.noRehome = true)
    (h : step s op = .ok (r, s')) : s'.leaked = s.leaked := by
  cases op with
  | init => rw [step_init h]
  | initpid c => obtain ⟨cx, _, rfl⟩ := step_initpid h; rfl
  | sel c g => obtain ⟨cx, _, rfl⟩ := step_sel h; rfl
  | unify c ids => rw [step_unify h]; rfl
  | alloc c bytes =>
    obtain ⟨cx, v, s1, _, h1, rfl, _⟩ := step_alloc h
    obtain ⟨_, h1⟩ := allocate_ok h1
    have := allocatePages_leaked h1
    exact this
  | allocu c bytes =>
    obtain ⟨cx, v, s1, _, h1, rfl, _⟩ := step_allocu h
    obtain ⟨_, h1⟩ := allocateUnified_ok h1
    have := allocatePages_leaked h1
    exact this
  | free c ptr =>
    obtain ⟨cx, s1, _, h1, rfl⟩ := step_free h
    have := free_leaked h1
    exact this
  | remap c addr bytes d => simp [Op.noRehome] at hn
  | dist c addr bytes ids => simp [Op.noRehome] at hn
  | mig c v g => simp [Op.noRehome] at hn
  | rmpage v => exact removePage_leaked (step_rmpage h)
  | apg c d v u => simp [Op.noRehome] at hn
  | rfb c => obtain ⟨cx, _, rfl⟩ := step_rfb h; rfl

/-- every successful driver operation moves pages between the free lists and the page table, creates none,
and drops exactly as many as it adds to the ghost field `leaked` -/
theorem step_cons {s s' : State} {op : Op} {r : Res} (hW : WInv s) (h : step s op = .ok (r, s')) :
    LCons s s' := by
  cases op with
  | init => rw [step_init h]; exact LCons.of_cons (Cons.of_eq rfl rfl) rfl
  | initpid c =>
    obtain ⟨cx, _, rfl⟩ := step_initpid h
    exact LCons.of_cons (Cons.of_eq rfl rfl) rfl
  | sel c g =>
    obtain ⟨cx, _, rfl⟩ := step_sel h
    exact LCons.of_cons (Cons.of_eq rfl rfl) rfl
  | unify c ids =>
    rw [step_unify h]
    exact LCons.of_cons (registerDevice_zero_cons hW.phys.pspos _ _) rfl
  | alloc c bytes =>
    obtain ⟨cx, v, s1, _, h1, rfl, _⟩ := step_alloc h
    obtain ⟨_, h1⟩ := allocate_ok h1
    exact (LCons.of_cons (allocatePages_cons h1) (allocatePages_leaked h1)).setCtx _ _
  | allocu c bytes =>
    obtain ⟨cx, v, s1, _, h1, rfl, _⟩ := step_allocu h
    obtain ⟨_, h1⟩ := allocateUnified_ok h1
    exact (LCons.of_cons (allocatePages_cons h1) (allocatePages_leaked h1)).setCtx _ _
  | free c ptr =>
    obtain ⟨cx, s1, _, h1, rfl⟩ := step_free h
    exact (LCons.of_cons (free_cons hW.phys hW.mw h1) (free_leaked h1)).setCtx _ _
  | remap c addr bytes d =>
    obtain ⟨cx, _, h1⟩ := step_remap h
    exact remap_cons hW.phys hW.mw h1
  | dist c addr bytes ids =>
    obtain ⟨cx, bs, _, h1⟩ := step_dist h
    exact distribute_cons hW.phys hW.mw h1
  | mig c v g =>
    obtain ⟨cx, no, _, h1⟩ := step_mig h
    exact (prepareMigration_cons h1).1
  | rmpage v =>
    have h1 := step_rmpage h
    exact LCons.of_cons (removePage_cons hW.phys hW.mw h1) (removePage_leaked h1)
  | apg c d v u =>
    obtain ⟨cx, pg, _, h1⟩ := step_apg h
    exact (allocGiven_cons h1).1
  | rfb c =>
    obtain ⟨cx, _, rfl⟩ := step_rfb h
    exact LCons.of_cons (Cons.of_eq rfl rfl) rfl

/-- (a) no page enters circulation from nowhere -/
theorem step_sub {s s' : State} {op : Op} {r : Res} (hW : WInv s) (h : step s op = .ok (r, s')) :
    ∀ p, p ∈ s'.pool.frees.flatten ∨ p ∈ livePages s' → p ∈ s.pool.frees.flatten ∨ p ∈ livePages s :=
  (step_cons hW h).cons.sub

/-- (b) free pages + mapped pages + pages this step replaced and did not give back = free pages + mapped
pages before -/
theorem step_count {s s' : State} {op : Op} {r : Res} (hW : WInv s) (h : step s op = .ok (r, s')) :
    s'.pool.frees.flatten.length + s'.pt.length + (s'.leaked - s.leaked) =
      s.pool.frees.flatten.length + s.pt.length :=
  (step_cons hW h).cons.count

/-- the ghost field never decreases -/
theorem step_leaked_le {s s' : State} {op : Op} {r : Res} (hW : WInv s) (h : step s op = .ok (r, s')) :
    s.leaked ≤ s'.leaked :=
  (step_cons hW h).le

/-- migration and AllocatePageWithGivenVAddr keep exactly the one page they replace -/
theorem step_leaked_mig_apg {s s' : State} {op : Op} {r : Res} (hk : op.keepsPages = false)
    (h : step s op = .ok (r, s')) : s'.leaked = s.leaked + 1 := by
  cases op with
  | mig c v g =>
    obtain ⟨cx, no, _, h1⟩ := step_mig h
    exact (prepareMigration_cons h1).2
  | apg c d v u =>
    obtain ⟨cx, pg, _, h1⟩ := step_apg h
    exact (allocGiven_cons h1).2.1
  | _ => simp [Op.keepsPages] at hk

/-! ### histories -/

/-- the growth of the ghost field over a history = the pages dropped; all invariants are kept -/
theorem run_cons {n : Nat} : ∀ (ops : List Op) (s s' : State),
    WInv s → GpuOK n s → (∀ op ∈ ops, MigOK n op) → run s ops = .ok s' →
    LCons s s' ∧ WInv s' ∧ GpuOK n s' := by
  intro ops
  induction ops with
  | nil =>
    intro s s' hW hG _ h
    simp only [run] at h
    injection h with h
    subst h
    exact ⟨LCons.refl _, hW, hG⟩
  | cons op ops ih =>
    intro s s' hW hG hm h
    simp only [run] at h
    split at h
    · simp at h
    · rename_i r s1 h1
      obtain ⟨a, b⟩ := step_w hW hG (hm op (List.mem_cons_self ..)) h1
      obtain ⟨c, w, g⟩ := ih s1 s' a b (fun o ho => hm o (List.mem_cons_of_mem _ ho)) h
      exact ⟨(step_cons hW h1).trans c, w, g⟩

theorem migOK_of_noRehome {n : Nat} {op : Op} (h : op.noRehome = true) : MigOK n op := by
  cases op <;> simp [Op.noRehome] at h <;> trivial

theorem migOK_of_keepsPages {n : Nat} {op : Op} (h : op.keepsPages = true) : MigOK n op := by
  cases op <;> simp [Op.keepsPages] at h <;> trivial

/-- a history without operations that overwrite an entry in place leaves the ghost field alone -/
theorem run_leaked_noRehome : ∀ (ops : List Op) (s s' : State),
    ops.all Op.noRehome = true → run s ops = .ok s' → s'.leaked = s.leaked := by
  intro ops
  induction ops with
  | nil =>
    intro s s' _ h
    simp only [run] at h
    injection h with h
    subst h; rfl
  | cons op ops ih =>
    intro s s' ha h
    simp only [List.all_cons, Bool.and_eq_true] at ha
    simp only [run] at h
    split at h
    · simp at h
    · rename_i r s1 h1
      exact (ih s1 s' ha.2 h).trans (step_leaked_noRehome ha.1 h1)

/-! ### a single process: Remap and Distribute never leak -/

/-- the allocator's record (head of the mirror) of every virtual address mapped by process `π` belongs to `π` -/
def HeadOK (π : Nat) (mirror : List (Nat × Page)) (pt : List Page) : Prop :=
  ∀ e ∈ pt, e.pid = π → ∃ m, lookup mirror e.vaddr = some m ∧ m.pid = π

/-- mirror agreement (kept by single-process histories) gives it for every process -/
theorem HeadOK.of_ok {s : State} (h : MirrorOK s) (π : Nat) : HeadOK π s.mirror s.pt := by
  intro e he hp
  have hag := h.1 e he
  cases hl : lookup s.mirror e.vaddr with
  | none => rw [hl] at hag; simp [agreesB] at hag
  | some m =>
    rw [hl] at hag
    simp [agreesB] at hag
    exact ⟨m, rfl, hag.1.1.trans hp⟩

/-- under `HeadOK` every iteration of the loop takes the release branch (the pushes of the loop itself carry `π`) -/
theorem remapLoop_noleak (π : Nat) (u : Bool) : ∀ (vs ps : List Nat) (s s' : State),
    HeadOK π s.mirror s.pt → remapLoop π u vs ps s = .ok s' →
    s'.leaked = s.leaked ∧ HeadOK π s'.mirror s'.pt := by
  intro vs
  induction vs with
  | nil => intro ps s s' hH h; simp [remapLoop] at h; subst h; exact ⟨rfl, hH⟩
  | cons v vs ih =>
    intro ps s s' hH h
    cases ps with
    | nil => simp [remapLoop] at h; subst h; exact ⟨rfl, hH⟩
    | cons p ps =>
      simp only [remapLoop] at h
      split at h
      · simp at h
      · rename_i dev hd
        split at h
        · simp at h
        · rename_i pt' hu
          split at h
          · simp at h
          · rename_i s1 hr
            obtain ⟨⟨e, hfind⟩, hpt⟩ := ptUpdate_ok hu
            obtain ⟨he1, he2, he3⟩ := ptFind_some hfind
            subst hpt
            obtain ⟨m, hm, hmp⟩ := hH e he1 he2
            have he3' : e.vaddr = v := he3
            rw [he3'] at hm
            have hH0 : HeadOK π ((v, mkPg π v p dev u) :: s.mirror) (s.pt.map (upd (mkPg π v p dev u))) := by
              intro x hx hxp
              by_cases hv : v = x.vaddr
              · refine ⟨mkPg π v p dev u, ?_, rfl⟩
                rw [← hv]; exact lookup_cons_eq _ _ _
              · rw [lookup_cons_ne _ _ _ _ hv]
                rcases mem_map_upd hx with rfl | hx'
                · exact absurd rfl hv
                · exact hH x hx' hxp
            rcases releaseReplaced_ok hr with ⟨_, _, _, _, _, rfl⟩ | ⟨hno, _⟩
            · have := ih ps _ s' (by exact hH0) h
              exact this
            · exact absurd hmp (hno m hm)

theorem remap_noleak {s s' : State} {π addr bytes d : Nat} (hH : HeadOK π s.mirror s.pt)
    (h : remap s π addr bytes d = .ok s') : s'.leaked = s.leaked ∧ HeadOK π s'.mirror s'.pt := by
  unfold remap at h
  dsimp only at h
  split at h
  · simp at h
  · rename_i ps pool' hm
    exact remapLoop_noleak π false _ ps { s with pool := pool' } s' hH h

theorem remapAll_noleak (π : Nat) (ids : List Nat) : ∀ (plan : List (Nat × Nat × Nat)) (s s' : State),
    HeadOK π s.mirror s.pt → remapAll π ids plan s = .ok s' →
    s'.leaked = s.leaked ∧ HeadOK π s'.mirror s'.pt := by
  intro plan
  induction plan with
  | nil => intro s s' hH h; simp [remapAll] at h; subst h; exact ⟨rfl, hH⟩
  | cons r rest ih =>
    intro s s' hH h
    obtain ⟨a, b, i⟩ := r
    simp only [remapAll] at h
    split at h
    · simp at h
    · rename_i s1 h1
      obtain ⟨e1, hH1⟩ := remap_noleak hH h1
      obtain ⟨e2, hH2⟩ := ih s1 s' hH1 h
      exact ⟨e2.trans e1, hH2⟩

theorem distribute_noleak {s s' : State} {π addr bytes : Nat} {ids bs : List Nat}
    (hH : HeadOK π s.mirror s.pt) (h : distribute s π addr bytes ids = .ok (bs, s')) : s'.leaked = s.leaked := by
  unfold distribute at h
  split at h
  · injection h with h; obtain ⟨_, rfl⟩ := Prod.mk.inj h; rfl
  · split at h
    · simp at h
    · split at h
      · simp at h
      · split at h
        · simp at h
        · rename_i s1 hr
          injection h with h; obtain ⟨_, rfl⟩ := Prod.mk.inj h
          exact (remapAll_noleak π ids _ s _ hH hr).1

/-- when the allocator's records agree with the page table (single process), every operation except migration and
AllocatePageWithGivenVAddr gives back or keeps every page it handles -/
theorem step_noleak {s s' : State} {op : Op} {r : Res} (hM : MirrorOK s) (hk : op.keepsPages = true)
    (h : step s op = .ok (r, s')) : s'.leaked = s.leaked := by
  cases op with
  | remap c addr bytes d =>
    obtain ⟨cx, _, h1⟩ := step_remap h
    exact (remap_noleak (HeadOK.of_ok hM _) h1).1
  | dist c addr bytes ids =>
    obtain ⟨cx, bs, _, h1⟩ := step_dist h
    exact distribute_noleak (HeadOK.of_ok hM _) h1
  | mig c v g => simp [Op.keepsPages] at hk
  | apg c d v u => simp [Op.keepsPages] at hk
  | _ => exact step_leaked_noRehome rfl h

/-- a history of a single process without migration / AllocatePageWithGivenVAddr never leaks -/
theorem run_noleak {n : Nat} : ∀ (ops : List Op) (s s' : State), WInv s → GpuOK n s →
    OneProc s → MirrorOK s → s.npid + inits ops ≤ 1 → ops.all Op.keepsPages = true →
    run s ops = .ok s' → s'.leaked = s.leaked := by
  intro ops
  induction ops with
  | nil => intro s s' _ _ _ _ _ _ h; simp [run] at h; subst h; rfl
  | cons op ops ih =>
    intro s s' hW hG hO hM hb ha h
    simp only [List.all_cons, Bool.and_eq_true] at ha
    simp only [run] at h
    split at h
    · simp at h
    · rename_i r s1 h1
      have hmo : MigOK n op := migOK_of_keepsPages ha.1
      obtain ⟨a, b⟩ := step_w hW hG hmo h1
      have hb' : s.npid + ((if op.isInit then 1 else 0) + inits ops) ≤ 1 := by
        unfold inits at hb ⊢
        rw [List.filter_cons] at hb
        split at hb
        · rename_i hi; simp only [hi, if_true]; simp only [List.length_cons] at hb; omega
        · rename_i hi; simp only [hi]; simpa using hb
      have hi : op.isInit = true → s.npid = 0 := by
        intro hi; simp only [hi, if_true] at hb'; omega
      obtain ⟨c, d, e⟩ := step_one hW hG hmo hO hM hi h1
      exact (ih s1 s' a b c d (by rw [e]; omega) ha.2 h).trans (step_noleak hM ha.1 h1)

/-! ### list facts -/

/-- the elements of a duplicate-free `all` outside a duplicate-free sublist-as-a-set `X` -/
theorem filter_not_mem_length {all X : List Nat} (ha : all.Nodup) (hx : X.Nodup) (hs : ∀ p ∈ X, p ∈ all) :
    (all.filter fun p => !(X.contains p)).length + X.length = all.length := by
  have h1 : ((all.filter fun p => X.contains p) ++ (all.filter fun p => !(X.contains p))).length = all.length :=
    (List.filter_append_perm (fun p => X.contains p) all).length_eq
  rw [List.length_append] at h1
  have h2 : (all.filter fun p => X.contains p).Perm X := by
    rw [List.perm_ext_iff_of_nodup (ha.sublist List.filter_sublist) hx]
    intro a
    simp only [List.mem_filter, List.contains_iff_mem]
    exact ⟨fun h => h.2, fun h => ⟨hs a h, h⟩⟩
  have h3 := h2.length_eq
  omega

/-- a duplicate-free list inside a duplicate-free list of the same length is a permutation of it -/
theorem perm_of_nodup_subset_length {all X : List Nat} (ha : all.Nodup) (hx : X.Nodup) (hs : ∀ p ∈ X, p ∈ all)
    (hl : X.length = all.length) : X.Perm all ∧ (all.filter fun p => !(X.contains p)) = [] := by
  have h := filter_not_mem_length ha hx hs
  have h0 : (all.filter fun p => !(X.contains p)) = [] := List.eq_nil_of_length_eq_zero (by omega)
  refine ⟨?_, h0⟩
  rw [List.perm_ext_iff_of_nodup hx ha]
  intro a
  refine ⟨hs a, fun hin => ?_⟩
  have := List.filter_eq_nil_iff.mp h0 a hin
  simpa using this

theorem lostPages_eq (all : List Nat) (s : State) :
    lostPages all s = all.filter fun p => !((s.pool.frees.flatten ++ livePages s).contains p) := by
  unfold lostPages
  apply List.filter_congr
  intro p _
  simp

theorem mem_lostPages {all : List Nat} {s : State} {p : Nat} :
    p ∈ lostPages all s ↔ p ∈ all ∧ p ∉ s.pool.frees.flatten ∧ p ∉ livePages s := by
  unfold lostPages
  simp [List.mem_filter]

/-! ### the initial state: every page is free, nothing is mapped -/

theorem regGPUs_pt : ∀ (gpus : List Nat) (s : State), (regGPUs gpus s).pt = s.pt := by
  intro gpus
  induction gpus with
  | nil => intro s; rfl
  | cons g gs ih => intro s; exact ih (registerDevice s .gpu g [])

theorem initState_pt (ps cpu : Nat) (gpus : List Nat) : (initState ps cpu gpus).pt = [] := by
  rw [initState_eq, regGPUs_pt]; rfl

/-- what `Cons j (initState …) s'` and the physical invariant of `s'` say in terms of `allPages` -/
theorem cons_from_init {ps cpu : Nat} {gpus : List Nat} {s' : State} {j : Nat} (h : Cfg ps cpu gpus)
    (c : Cons j (initState ps cpu gpus) s') (hP : PInv s'.ps s'.devs s'.pool.frees s'.pt) :
    (s'.pool.frees.flatten ++ livePages s').Nodup ∧
    (∀ p ∈ s'.pool.frees.flatten ++ livePages s', p ∈ allPages ps cpu gpus) ∧
    s'.pool.frees.flatten.length + s'.pt.length + j = (allPages ps cpu gpus).length ∧
    (lostPages (allPages ps cpu gpus) s').length = j := by
  have hall : (allPages ps cpu gpus).Nodup := (init_all h).1.phys.freeNodup
  have hnd : (s'.pool.frees.flatten ++ livePages s').Nodup :=
    List.nodup_append.mpr ⟨hP.freeNodup, hP.liveNodup, fun a ha b hb hab => hP.disj a ha (hab ▸ hb)⟩
  have hsub : ∀ p ∈ s'.pool.frees.flatten ++ livePages s', p ∈ allPages ps cpu gpus := by
    intro p hp
    rcases c.sub p (List.mem_append.mp hp) with h1 | h1
    · exact h1
    · unfold livePages at h1
      rw [initState_pt] at h1
      simp at h1
  have hcount : s'.pool.frees.flatten.length + s'.pt.length + j = (allPages ps cpu gpus).length := by
    have := c.count
    rw [initState_pt] at this
    exact this
  refine ⟨hnd, hsub, hcount, ?_⟩
  have hf := filter_not_mem_length hall hnd hsub
  rw [← lostPages_eq] at hf
  have hl : (s'.pool.frees.flatten ++ livePages s').length = s'.pool.frees.flatten.length + s'.pt.length := by
    simp [livePages]
  omega

theorem regGPUs_leaked : ∀ (gpus : List Nat) (s : State), (regGPUs gpus s).leaked = s.leaked := by
  intro gpus
  induction gpus with
  | nil => intro s; rfl
  | cons g gs ih => intro s; exact ih (registerDevice s .gpu g [])

/-- nothing has leaked before the first operation -/
theorem initState_leaked (ps cpu : Nat) (gpus : List Nat) : (initState ps cpu gpus).leaked = 0 := by
  rw [initState_eq, regGPUs_leaked]; rfl

/-- a whole history from `Build` + `RegisterGPU`: exactly `leaked` pages left circulation -/
theorem run_from_init {ps cpu : Nat} {gpus : List Nat} {ops : List Op} {s' : State} (h : Cfg ps cpu gpus)
    (hm : ∀ op ∈ ops, MigOK gpus.length op) (hr : run (initState ps cpu gpus) ops = .ok s') :
    Cons s'.leaked (initState ps cpu gpus) s' ∧ WInv s' := by
  obtain ⟨hW, hG, _⟩ := init_all h
  obtain ⟨c, hW', _⟩ := run_cons ops _ s' hW hG hm hr
  exact ⟨c.cons.cast (by rw [initState_leaked]; omega), hW'⟩

/-- the configuration of the small witnesses: 4 KiB pages, a one-page CPU, one two-page GPU -/
theorem cfg_small : Cfg 4096 4096 [8192] :=
  ⟨by decide, ⟨1, rfl⟩, by intro g hg; simp at hg; subst hg; exact ⟨2, rfl⟩⟩

end C10
