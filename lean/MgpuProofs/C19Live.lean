import MgpuProofs.C19Env
/-! Helper lemmas for C19 (closed system): submissions and collections change the list of requests
    in flight. -/
namespace C19

variable {v : DirV} {live : List Live}

/-- a request of the other direction is submitted -/
theorem Dir.submit_other (h : Dir v live) (ℓ : Live) (hp : ℓ.p ≠ v.p) : Dir v (live ++ [ℓ]) := by
  have hf : (live ++ [ℓ]).filter (fun x => x.p == v.p) = live.filter (fun x => x.p == v.p) := by
    simp [List.filter_append, hp]
  have hmem : ∀ x ∈ live ++ [ℓ], x.p = v.p → x ∈ live := by
    intro x hx hxp
    rcases List.mem_append.mp hx with hx | hx
    · exact hx
    · rw [List.mem_singleton.mp hx] at hxp; exact absurd hxp hp
  exact {
    sf := h.sf
    co := h.co
    ph := h.ph
    idn := by rw [hf]; exact h.idn
    lk := by rw [hf]; exact h.lk
    lm := by
      intro r hr
      obtain ⟨x, hx, h1, h2⟩ := h.lm r hr
      exact ⟨x, List.mem_append_left _ hx, h1, h2⟩
    cj := h.cj
    wd := h.wd
    mi := h.mi
    wf := fun x hx hxp => h.wf x (hmem x hx hxp) hxp
    dn := fun x hx hxp => h.dn x (hmem x hx hxp) hxp
    sr := fun x hx hxp => h.sr x (hmem x hx hxp) hxp
    rt1 := h.rt1
    rt2 := h.rt2
    rt3 := h.rt3
    rp := h.rp
    rd1 := h.rd1
    rd2 := h.rd2
    mv := by
      intro r hr hh
      obtain ⟨x, hx, h1, h2, h3⟩ := h.mv r hr hh
      exact ⟨x, List.mem_append_left _ hx, h1, h2, h3⟩
    nm := h.nm }

/-- ids of the emitted and of the active request are ids of requests in flight -/
theorem Dir.id_live (h : Dir v live) (c : Nat) (hc : c ∈ v.rq.ctlOut ∨ activeId v.rq = some c) :
    ∃ x ∈ live, x.p = v.p ∧ x.r.id = c := by
  have : c ∈ (live.filter (fun x => x.p == v.p)).map (·.r.id) := by
    rw [h.lk]
    rcases hc with hc | hc
    · exact List.mem_append_left _ (List.mem_append_left _ hc)
    · exact List.mem_append_left _ (List.mem_append_right _ (by simp [hc]))
  obtain ⟨x, hx, rfl⟩ := List.mem_map.mp this
  obtain ⟨hx1, hx2⟩ := List.mem_filter.mp hx
  exact ⟨x, hx1, by simpa using hx2, rfl⟩

theorem Dir.toCtrl_active (h : Dir v live) (c : Nat) (hc : v.rq.toCtrl = some c) : activeId v.rq = some c := by
  unfold activeId
  rcases h.ph with ph | ph
  · cases ph with
    | idle _ _ g3 => simp only [key] at g3; rw [hc] at g3; cases g3
    | moving S r _ _ _ _ g5 => simp only [key] at g5; rw [hc] at g5; cases g5
    | done S r _ g2 => simp only [key] at g2; rw [g2]; exact hc
  · cases ph with
    | mk S r _ _ _ _ g5 _ => simp only [key] at g5; rw [hc] at g5; cases g5

/-- a request of this direction is submitted -/
theorem Dir.submit_same (h : Dir v live) (ℓ : Live) (hp : ℓ.p = v.p) (hid : ∀ x ∈ live, x.r.id < ℓ.r.id)
    (hwf : ℓ.r.peer = 1 - v.p ∧ 0 < ℓ.r.size ∧ ℓ.r.size % unit = 0 ∧ ℓ.r.rd + ℓ.r.size ≤ v.memO.size ∧
      ℓ.r.wr + ℓ.r.size ≤ v.memR.size ∧ ℓ.snap.length = ℓ.r.size)
    (hsr : Img v.memO ℓ.r.rd ℓ.snap 0 ℓ.r.size) :
    Dir { v with cq := v.cq ++ [.mig ℓ.r] } (live ++ [ℓ]) := by
  have hf : (live ++ [ℓ]).filter (fun x => x.p == v.p) = live.filter (fun x => x.p == v.p) ++ [ℓ] := by
    simp [List.filter_append, hp]
  obtain ⟨m1, m2⟩ := h.mv_nm (v' := { v with cq := v.cq ++ [.mig ℓ.r] }) (List.Perm.refl _) rfl rfl rfl rfl rfl rfl
  have hnew : ¬ (ℓ.r.id ∈ v.rq.ctlOut ∨ v.rq.toCtrl = some ℓ.r.id) := by
    intro hc
    have : ℓ.r.id ∈ v.rq.ctlOut ∨ activeId v.rq = some ℓ.r.id := by
      rcases hc with hc | hc
      · exact Or.inl hc
      · exact Or.inr (h.toCtrl_active _ hc)
    obtain ⟨x, hx, _, hxi⟩ := h.id_live _ this
    have := hid x hx
    omega
  exact {
    sf := h.sf
    co := h.co
    ph := h.ph
    idn := by
      rw [hf, List.map_append, List.nodup_append]
      refine ⟨h.idn, by simp, ?_⟩
      intro a ha b hb
      obtain ⟨x, hx, rfl⟩ := List.mem_map.mp ha
      have := hid x (List.mem_filter.mp hx).1
      simp only [List.map_cons, List.map_nil, List.mem_singleton] at hb
      omega
    lk := by
      rw [hf, List.map_append, h.lk]
      simp [migsOf_append, migsOf]
    lm := by
      intro r hr
      rcases hr with hr | hr | hr
      · obtain ⟨x, hx, h1, h2⟩ := h.lm r (Or.inl hr)
        exact ⟨x, List.mem_append_left _ hx, h1, h2⟩
      · obtain ⟨x, hx, h1, h2⟩ := h.lm r (Or.inr (Or.inl hr))
        exact ⟨x, List.mem_append_left _ hx, h1, h2⟩
      · simp only [migsOf_append, migsOf, List.mem_append, List.mem_singleton] at hr
        rcases hr with hr | hr
        · obtain ⟨x, hx, h1, h2⟩ := h.lm r (Or.inr (Or.inr hr))
          exact ⟨x, List.mem_append_left _ hx, h1, h2⟩
        · exact ⟨ℓ, by simp, hp, hr.symm⟩
    cj := by
      refine ⟨h.cj.1, ?_⟩
      simp only [List.mem_append, List.mem_singleton, not_or]
      exact ⟨h.cj.2, by simp⟩
    wd := h.wd
    mi := h.mi
    wf := by
      intro x hx hxp
      rcases List.mem_append.mp hx with hx | hx
      · exact h.wf x hx hxp
      · rw [List.mem_singleton.mp hx]; exact hwf
    dn := by
      intro x hx hxp hc
      rcases List.mem_append.mp hx with hx | hx
      · exact h.dn x hx hxp hc
      · rw [List.mem_singleton.mp hx] at hc; exact absurd hc hnew
    sr := by
      intro x hx hxp
      rcases List.mem_append.mp hx with hx | hx
      · exact h.sr x hx hxp
      · rw [List.mem_singleton.mp hx]; exact hsr
    rt1 := h.rt1
    rt2 := h.rt2
    rt3 := h.rt3
    rp := h.rp
    rd1 := h.rd1
    rd2 := h.rd2
    mv := by
      intro r hr hh
      obtain ⟨x, hx, h1, h2, h3⟩ := m1 r hr hh
      exact ⟨x, List.mem_append_left _ hx, h1, h2, h3⟩
    nm := m2 }

/-- the completion of a request of the other direction is collected -/
theorem Dir.coll_other (h : Dir v live) (c : Nat) (hc : ∀ x ∈ live, x.p = v.p → x.r.id ≠ c) :
    Dir v (live.filter fun x => x.r.id != c) := by
  have hf : (live.filter fun x => x.r.id != c).filter (fun x => x.p == v.p) = live.filter (fun x => x.p == v.p) := by
    rw [List.filter_filter]
    apply List.filter_congr
    intro x hx
    by_cases hxp : x.p = v.p
    · simp [hxp, hc x hx hxp]
    · simp [hxp]
  have hkeep : ∀ x ∈ live, x.p = v.p → x ∈ live.filter fun x => x.r.id != c := by
    intro x hx hxp
    exact List.mem_filter.mpr ⟨hx, by simp [hc x hx hxp]⟩
  have hsub : ∀ x ∈ live.filter (fun x => x.r.id != c), x ∈ live := fun x hx => (List.mem_filter.mp hx).1
  exact {
    sf := h.sf
    co := h.co
    ph := h.ph
    idn := by rw [hf]; exact h.idn
    lk := by rw [hf]; exact h.lk
    lm := by
      intro r hr
      obtain ⟨x, hx, h1, h2⟩ := h.lm r hr
      exact ⟨x, hkeep x hx h1, h1, h2⟩
    cj := h.cj
    wd := h.wd
    mi := h.mi
    wf := fun x hx hxp => h.wf x (hsub x hx) hxp
    dn := fun x hx hxp => h.dn x (hsub x hx) hxp
    sr := fun x hx hxp => h.sr x (hsub x hx) hxp
    rt1 := h.rt1
    rt2 := h.rt2
    rt3 := h.rt3
    rp := h.rp
    rd1 := h.rd1
    rd2 := h.rd2
    mv := by
      intro r hr hh
      obtain ⟨x, hx, h1, h2, h3⟩ := h.mv r hr hh
      exact ⟨x, hkeep x hx h1, h1, h2, h3⟩
    nm := h.nm }

/-- the control side collects the oldest completion of this direction -/
theorem Dir.coll_same (h : Dir v live) (c : Nat) (rest : List Nat) (hco : v.rq.ctlOut = c :: rest) :
    Dir { v with rq := { v.rq with ctlOut := rest } } (live.filter fun x => x.r.id != c) := by
  have hf : (live.filter fun x => x.r.id != c).filter (fun x => x.p == v.p) =
      (live.filter (fun x => x.p == v.p)).filter (fun x => x.r.id != c) := by
    rw [List.filter_filter, List.filter_filter]
    apply List.filter_congr
    intro x _; exact Bool.and_comm _ _
  have hmapf : ((live.filter (fun x => x.p == v.p)).filter (fun x => x.r.id != c)).map (·.r.id) =
      ((live.filter (fun x => x.p == v.p)).map (·.r.id)).filter (· != c) := by
    rw [List.filter_map]; rfl
  have hn := h.idn
  rw [h.lk, hco] at hn
  simp only [List.cons_append, List.nodup_cons] at hn
  have hR : ((live.filter fun x => x.r.id != c).filter (fun x => x.p == v.p)).map (·.r.id) =
      rest ++ (activeId v.rq).toList ++ (migsOf v.rq.ctlIn ++ migsOf v.cq).map (·.id) := by
    rw [hf, hmapf, h.lk, hco]
    simp only [List.cons_append, List.filter_cons, bne_self_eq_false, Bool.false_eq_true, if_false]
    apply List.filter_eq_self.mpr
    intro a ha
    have : a ≠ c := fun e => hn.1 (e ▸ ha)
    simpa using this
  have hkeep : ∀ x ∈ live, x.p = v.p → x.r.id ∈ rest ++ (activeId v.rq).toList ++
      (migsOf v.rq.ctlIn ++ migsOf v.cq).map (·.id) → x ∈ live.filter fun x => x.r.id != c := by
    intro x hx _ hin
    refine List.mem_filter.mpr ⟨hx, ?_⟩
    have : x.r.id ≠ c := fun e => hn.1 (e ▸ hin)
    simpa using this
  have hsub : ∀ x ∈ live.filter (fun x => x.r.id != c), x ∈ live := fun x hx => (List.mem_filter.mp hx).1
  obtain ⟨m1, m2⟩ := h.mv_nm (v' := { v with rq := { v.rq with ctlOut := rest } }) (List.Perm.refl _)
    rfl rfl rfl rfl rfl rfl
  exact {
    sf := h.sf
    co := fun c' hc' => h.co c' (by rw [hco]; exact List.mem_cons_of_mem _ hc')
    ph := h.ph
    idn := by rw [hR]; exact hn.2
    lk := hR
    lm := by
      intro r hr
      obtain ⟨x, hx, h1, h2⟩ := h.lm r hr
      refine ⟨x, hkeep x hx h1 ?_, h1, h2⟩
      rw [h2]
      rcases hr with hr | hr | hr
      · have hr' : v.rq.cur = some r := hr
        exact List.mem_append_left _ (List.mem_append_right _ (by simp [activeId, hr']))
      · exact List.mem_append_right _ (List.mem_map.mpr ⟨r, List.mem_append_left _ hr, rfl⟩)
      · exact List.mem_append_right _ (List.mem_map.mpr ⟨r, List.mem_append_right _ hr, rfl⟩)
    cj := h.cj
    wd := h.wd
    mi := h.mi
    wf := fun x hx hxp => h.wf x (hsub x hx) hxp
    dn := by
      intro x hx hxp hid
      refine h.dn x (hsub x hx) hxp ?_
      rcases hid with hid | hid
      · exact Or.inl (by rw [hco]; exact List.mem_cons_of_mem _ hid)
      · exact Or.inr hid
    sr := fun x hx hxp => h.sr x (hsub x hx) hxp
    rt1 := h.rt1
    rt2 := h.rt2
    rt3 := h.rt3
    rp := h.rp
    rd1 := h.rd1
    rd2 := h.rd2
    mv := by
      intro r hr hh
      obtain ⟨x, hx, h1, h2, h3⟩ := m1 r hr hh
      refine ⟨x, hkeep x hx h1 ?_, h1, h2, h3⟩
      rw [h2]
      exact List.mem_append_left _ (List.mem_append_right _ (by
        have : v.rq.cur = some r := hr
        simp [activeId, this]))
    nm := m2 }

end C19
