import MgpuModel.C06_Lanes
/-! Helper lemmas for C06: the sequential lane loop equals the parallel per-lane map; stores to pairwise
    distinct addresses commute (ported from the compiled sketches in DESIGN-sketches.md). -/
namespace C06

theorem VState.ext' {a b : VState} (h1 : a.vgpr = b.vgpr) (h2 : a.cin = b.cin) (h3 : a.mout = b.mout)
    (h4 : a.mem = b.mem) (h5 : a.log = b.log) : a = b := by
  cases a; cases b; simp_all

theorem applyStores_append (m : Nat → Nat) (a b : List (Nat × Nat)) :
    applyStores m (a ++ b) = applyStores (applyStores m a) b := by
  simp [applyStores, List.foldl_append]

theorem activeStores_succ {υ} (h : Handler υ) (u : υ) (exec : Nat → Bool) (n : Nat) (s : VState) :
    activeStores h u exec (n + 1) s
      = activeStores h u exec n s ++ (if exec n then (laneOut h u s n).stores else []) := by
  simp [activeStores, List.range_succ, List.flatMap_append]

theorem activeAccesses_succ {υ} (h : Handler υ) (u : υ) (exec : Nat → Bool) (n : Nat) (s : VState) :
    activeAccesses h u exec (n + 1) s
      = activeAccesses h u exec n s ++ (if exec n then accesses n (laneOut h u s n) else []) := by
  simp [activeAccesses, List.range_succ, List.flatMap_append]

theorem activeStores_nil_of_load {υ} (h : Handler υ) (u : υ) (exec : Nat → Bool) (n : Nat) (s : VState)
    (hl : ∀ u a, (h.f u a).stores = []) : activeStores h u exec n s = [] := by
  simp only [activeStores, List.flatMap_eq_nil_iff]
  intro l _
  split
  · exact hl _ _
  · rfl

/-- the body of lane `n` sees, after lanes `0..n-1` ran, what it would have seen on the original state -/
theorem laneOut_parMap {υ} (h : Handler υ) (u : υ) (exec : Nat → Bool) (n : Nat) (s : VState)
    (hls : LoadOrStore h) : laneOut h u (parMap h u exec n s) n = laneOut h u s n := by
  have hregs : (parMap h u exec n s).vgpr n = s.vgpr n := by simp [parMap]
  have hcin : (parMap h u exec n s).cin n = s.cin n := rfl
  have hmout : (parMap h u exec n s).mout n = s.mout n := by
    simp only [parMap]; cases h.mask <;> simp
  rcases hls with hl | hs
  · have hmem : (parMap h u exec n s).mem = s.mem := by
      simp [parMap, activeStores_nil_of_load h u exec n s hl, applyStores]
    simp only [laneOut, laneIn, hregs, hcin, hmout, hmem]
  · have := hs u (laneIn h s n) (parMap h u exec n s).mem
    simp only [laneOut]
    rw [← this]
    simp only [laneIn, hregs, hcin, hmout]

/-- **The sequential loop over one mutable state equals the parallel per-lane map**, provided each active
    lane's body sees, after the earlier lanes ran, what it would have seen on the original state. -/
theorem seqLoop_eq_parMap_of {υ} (h : Handler υ) (u : υ) (exec : Nat → Bool) (n : Nat) (s : VState)
    (hview : ∀ k, k < n → exec k = true → laneOut h u (parMap h u exec k s) k = laneOut h u s k) :
    seqLoop h u exec n s = parMap h u exec n s := by
  induction n with
  | zero =>
    apply VState.ext' <;> simp [seqLoop, parMap, activeStores, activeAccesses, applyStores]
    cases h.mask <;> simp
  | succ n ih =>
    have ih := ih (fun k hk he => hview k (by omega) he)
    simp only [seqLoop, ih]
    by_cases he : exec n = true
    · simp only [he, if_true]
      have hlo := hview n (by omega) he
      apply VState.ext'
      · funext l
        simp only [stepLane, hlo]
        simp only [parMap]
        by_cases hl : l = n
        · subst hl; simp [he]
        · have : (l < n + 1) ↔ (l < n) := by omega
          simp [hl, this]
      · rfl
      · simp only [stepLane, hlo]
        simp only [parMap]
        cases h.mask with
        | none => rfl
        | fresh =>
          funext l
          by_cases hl : l = n
          · subst hl; simp [he]
          · have : (l < n + 1) ↔ (l < n) := by omega
            simp [hl, this]
        | inplace =>
          funext l
          by_cases hl : l = n
          · subst hl; simp [he]
          · have : (l < n + 1) ↔ (l < n) := by omega
            simp [hl, this]
      · simp only [stepLane, hlo]
        simp only [parMap, activeStores_succ, he, if_true, applyStores_append]
      · simp only [stepLane, hlo]
        simp only [parMap, activeAccesses_succ, he, if_true, List.append_assoc]
    · have he' : exec n = false := by simpa using he
      simp only [he', Bool.false_eq_true, if_false]
      apply VState.ext'
      · funext l
        simp only [parMap]
        by_cases hl : l = n
        · subst hl; simp [he']
        · have : (l < n + 1) ↔ (l < n) := by omega
          simp [this]
      · rfl
      · simp only [parMap]
        cases h.mask with
        | none => rfl
        | fresh =>
          funext l
          by_cases hl : l = n
          · subst hl; simp [he']
          · have : (l < n + 1) ↔ (l < n) := by omega
            simp [this]
        | inplace =>
          funext l
          by_cases hl : l = n
          · subst hl; simp [he']
          · have : (l < n + 1) ↔ (l < n) := by omega
            simp [this]
      · simp [parMap, activeStores_succ, he']
      · simp [parMap, activeAccesses_succ, he']

theorem seqLoop_eq_parMap {υ} (h : Handler υ) (u : υ) (exec : Nat → Bool) (n : Nat) (s : VState)
    (hls : LoadOrStore h) : seqLoop h u exec n s = parMap h u exec n s :=
  seqLoop_eq_parMap_of h u exec n s (fun k _ _ => laneOut_parMap h u exec k s hls)

@[simp] theorem prologue_vgpr {υ} (h : Handler υ) (s : VState) : (prologue h s).vgpr = s.vgpr := by
  simp only [prologue]; cases h.mask <;> rfl
@[simp] theorem prologue_cin {υ} (h : Handler υ) (s : VState) : (prologue h s).cin = s.cin := by
  simp only [prologue]; cases h.mask <;> rfl
@[simp] theorem prologue_mem {υ} (h : Handler υ) (s : VState) : (prologue h s).mem = s.mem := by
  simp only [prologue]; cases h.mask <;> rfl
@[simp] theorem prologue_log {υ} (h : Handler υ) (s : VState) : (prologue h s).log = s.log := by
  simp only [prologue]; cases h.mask <;> rfl
theorem prologue_mout {υ} (h : Handler υ) (s : VState) :
    (prologue h s).mout = (match h.mask with | .fresh => fun _ => false | _ => s.mout) := by
  simp only [prologue]; cases h.mask <;> rfl

/-! ## Stores to pairwise distinct addresses commute -/

theorem applyStores_lookup (ws : List (Nat × Nat)) (m : Nat → Nat) (hnd : (ws.map (·.1)).Nodup) (c : Nat) :
    applyStores m ws c = match ws.find? (fun w => w.1 = c) with | some w => w.2 | none => m c := by
  induction ws generalizing m with
  | nil => rfl
  | cons w ws ih =>
    simp only [List.map_cons, List.nodup_cons] at hnd
    simp only [applyStores, List.foldl_cons]
    have := ih (fun c => if c = w.1 then w.2 else m c) hnd.2
    simp only [applyStores] at this
    rw [this]
    simp only [List.find?_cons]
    by_cases hc : w.1 = c
    · subst hc
      have hnf : ws.find? (fun x => x.1 = w.1) = none := by
        rw [List.find?_eq_none]
        intro x hx hxe
        simp only [decide_eq_true_eq] at hxe
        exact hnd.1 (List.mem_map.mpr ⟨x, hx, hxe⟩)
      simp [hnf]
    · have : (decide (w.1 = c)) = false := by simp [hc]
      simp only [this]
      cases hf : ws.find? (fun x => decide (x.1 = c)) with
      | none => simp [Ne.symm hc]
      | some x => simp

theorem mem_same_key_eq (l : List (Nat × Nat)) (hn : (l.map (·.1)).Nodup) (a b : Nat × Nat)
    (ha : a ∈ l) (hb : b ∈ l) (hk : a.1 = b.1) : a = b := by
  induction l with
  | nil => cases ha
  | cons x xs ih =>
    simp only [List.map_cons, List.nodup_cons] at hn
    rcases List.mem_cons.mp ha with rfl | h1 <;> rcases List.mem_cons.mp hb with rfl | h2
    · rfl
    · exact absurd (List.mem_map.mpr ⟨b, h2, hk.symm⟩) hn.1
    · exact absurd (List.mem_map.mpr ⟨a, h1, hk⟩) hn.1
    · exact ih hn.2 h1 h2

/-- with pairwise distinct target addresses the result does not depend on the order of the stores -/
theorem applyStores_perm (ws ws' : List (Nat × Nat)) (m : Nat → Nat) (hp : ws.Perm ws')
    (hnd : (ws.map (·.1)).Nodup) : applyStores m ws = applyStores m ws' := by
  funext c
  have hnd' : (ws'.map (·.1)).Nodup := (hp.map _).nodup_iff.mp hnd
  rw [applyStores_lookup ws m hnd c, applyStores_lookup ws' m hnd' c]
  have key : ∀ (l l' : List (Nat × Nat)), l.Perm l' → (l.map (·.1)).Nodup →
      ∀ w, l.find? (fun x => x.1 = c) = some w → l'.find? (fun x => x.1 = c) = some w := by
    intro l l' hpp hn w hw
    have hmem : w ∈ l' := hpp.subset (List.mem_of_find?_eq_some hw)
    have hwc : w.1 = c := by simpa using List.find?_some hw
    have hn' : (l'.map (·.1)).Nodup := (hpp.map _).nodup_iff.mp hn
    cases hf : l'.find? (fun x => x.1 = c) with
    | none =>
      rw [List.find?_eq_none] at hf
      exact absurd (by simpa using hwc) (hf w hmem)
    | some w' =>
      have hm' : w' ∈ l' := List.mem_of_find?_eq_some hf
      have hw'c : w'.1 = c := by simpa using List.find?_some hf
      have : w' = w := mem_same_key_eq l' hn' w' w hm' hmem (by rw [hw'c, hwc])
      rw [this]
  cases h1 : ws.find? (fun x => x.1 = c) with
  | some w => rw [key ws ws' hp hnd w h1]
  | none =>
    cases h2 : ws'.find? (fun x => x.1 = c) with
    | none => rfl
    | some w' =>
      have := key ws' ws hp.symm hnd' w' h2
      rw [h1] at this; cases this

theorem flatMap_congr' {α β : Type} (l : List α) (f g : α → List β) (h : ∀ x ∈ l, f x = g x) :
    l.flatMap f = l.flatMap g := by
  induction l with
  | nil => rfl
  | cons x xs ih =>
    simp only [List.flatMap_cons]
    rw [h x (List.mem_cons_self ..), ih (fun y hy => h y (List.mem_cons_of_mem _ hy))]

end C06
