import MgpuProofs.C09Res3
/-! # C09 — resource bookkeeping, part 4: `ReserveResourceForWG`. -/
namespace C09

/-! ## the recorded regions depend on the resident list only -/

theorem sRegions_congr (c cu : CU) (h : c.resident = cu.resident) : sRegions c = sRegions cu := by
  simp only [sRegions, h]
theorem lRegions_congr (c cu : CU) (h : c.resident = cu.resident) : lRegions c = lRegions cu := by
  simp only [lRegions, h]
theorem vRegions_congr (c cu : CU) (k : Nat) (h : c.resident = cu.resident) : vRegions c k = vRegions cu k := by
  simp only [vRegions, h]
theorem residentOn_congr (c cu : CU) (k : Nat) (h : c.resident = cu.resident) :
    residentOn c k = residentOn cu k := by
  simp only [residentOn, h]

/-! ## the failure paths: `clearTempReservation` -/

/-- whatever is pending, `clearTempReservation` re-establishes the invariant -/
theorem clearTemp_inv (cap : List Nat) (cu c : CU) (hinv : Inv cap cu)
    (hres : c.resident = cu.resident) (hwf : c.wfFree = cu.wfFree) (hnext : c.nextSIMD < cap.length)
    (hs : ∃ sh ps, MaskOK2 sh c.smask (sRegions cu) ps)
    (hl : ∃ sh ps, MaskOK2 sh c.lmask (lRegions cu) ps)
    (hvl : c.vmasks.length = cu.vmasks.length)
    (hv : ∀ k M, c.vmasks[k]? = some M → ∃ sh ps, MaskOK2 sh M (vRegions cu k) ps) :
    Inv cap (clearTemp c) ∧ (clearTemp c).resident = cu.resident ∧ (clearTemp c).wfFree = cu.wfFree := by
  have hr : (clearTemp c).resident = cu.resident := hres
  refine ⟨?_, hr, hwf⟩
  exact {
    sOK := by
      rw [sRegions_congr _ cu hr]
      obtain ⟨sh, ps, h⟩ := hs
      exact (MaskOK_of_OK2 _ _ _ (MaskOK2_abort sh _ _ ps h)).1
    lOK := by
      rw [lRegions_congr _ cu hr]
      obtain ⟨sh, ps, h⟩ := hl
      exact (MaskOK_of_OK2 _ _ _ (MaskOK2_abort sh _ _ ps h)).1
    vLen := by simp [clearTemp, hvl, hinv.vLen]
    vOK := by
      intro k hk
      rw [vRegions_congr _ cu k hr]
      have hk' : k < c.vmasks.length := by simpa [clearTemp] using hk
      obtain ⟨sh, ps, h⟩ := hv k _ (List.getElem?_eq_getElem hk')
      have : (clearTemp c).vmasks[k] = (c.vmasks[k]).convert stToRes stFree := by simp [clearTemp]
      rw [this]
      exact (MaskOK_of_OK2 _ _ _ (MaskOK2_abort sh _ _ ps h)).1
    wfLen := by show c.wfFree.length = _; rw [hwf]; exact hinv.wfLen
    wfOK := by
      intro k hk
      rw [residentOn_congr _ cu k hr]
      show c.wfFree.getD k 0 + _ = _
      rw [hwf]; exact hinv.wfOK k hk
    keys := by rw [hr]; exact hinv.keys
    simdOK := by rw [hr]; exact hinv.simdOK
    nextOK := hnext
    locLen := by rw [hr]; exact hinv.locLen
    nwfPos := by rw [hr]; exact hinv.nwfPos
    sameL := by rw [hr]; exact hinv.sameL
    aligned := by rw [hr]; exact hinv.aligned }

/-- the matching loop starts in a good state -/
theorem MInv_init (cap : List Nat) (cu : CU) (req : Nat) (hinv : Inv cap cu) :
    MInv cu req { vmasks := cu.vmasks, next := cu.nextSIMD, used := cu.wfFree.map (fun _ => 0) } [] := by
  have hz : ∀ k, (cu.wfFree.map (fun _ => 0)).getD k 0 = 0 := by
    intro k
    simp only [List.getD_eq_getElem?_getD, List.getElem?_map]
    cases cu.wfFree[k]? <;> simp
  exact {
    len := rfl
    ok := by
      intro k M M0 hM hM0
      simp only at hM
      rw [hM] at hM0; injection hM0 with hM0; subst hM0
      obtain ⟨hk, hMk⟩ := List.getElem?_eq_some_iff.1 hM
      subst hMk
      simpa [pend] using MaskOK2_of_OK _ _ (hinv.vOK k hk)
    next := by rw [hinv.wfLen]; exact hinv.nextOK
    usedLen := by simp
    used := by intro k; simp only [hz]; simp
    usedLe := by intro k; simp only [hz]; omega
    simd := by simp }

/-- the location list built by `ReserveResourceForWG` from the unit offsets -/
def mkLocs (loff : Nat) (soffs : List Nat) (ps : List (Nat × Nat)) : List Loc :=
  (List.zip soffs ps).map fun x =>
    { simd := x.2.1, voff := x.2.2 * vGran * 4, soff := x.1 * 16 * 4, loff := loff * lGran }

theorem mkLocs_facts (loff : Nat) : ∀ (soffs : List Nat) (ps : List (Nat × Nat)), soffs.length = ps.length →
    (mkLocs loff soffs ps).length = ps.length ∧
    (mkLocs loff soffs ps).map (fun l => l.soff / 64) = soffs ∧
    (mkLocs loff soffs ps).map (fun l => (l.simd, l.voff / 16)) = ps ∧
    ∀ l ∈ mkLocs loff soffs ps, l.loff = loff * 256 ∧ l.soff % 64 = 0 ∧ l.voff % 16 = 0 := by
  intro soffs
  induction soffs with
  | nil => intro ps h; cases ps <;> simp_all [mkLocs]
  | cons so soffs ih =>
    intro ps h
    cases ps with
    | nil => simp at h
    | cons p ps =>
      simp only [List.length_cons, Nat.add_right_cancel_iff] at h
      obtain ⟨h1, h2, h3, h4⟩ := ih ps h
      simp only [mkLocs] at h1 h2 h3 h4 ⊢
      refine ⟨by simp [h1], ?_, ?_, ?_⟩
      · simp only [List.zip_cons_cons, List.map_cons, h2, List.cons.injEq, and_true]; omega
      · simp only [List.zip_cons_cons, List.map_cons, List.cons.injEq]
        refine ⟨?_, h3⟩
        apply Prod.ext
        · rfl
        · simp only [vGran]; omega
      · intro l hl
        simp only [List.zip_cons_cons, List.map_cons, List.mem_cons] at hl
        rcases hl with hl | hl
        · subst hl; simp only [vGran, lGran, true_and]; omega
        · exact h4 l hl

theorem foldl_decAt_length (locs : List Loc) : ∀ w : List Nat,
    (locs.foldl (fun w l => decAt w l.simd) w).length = w.length := by
  induction locs with
  | nil => intro w; rfl
  | cons l locs ih => intro w; simp only [List.foldl_cons]; rw [ih]; simp [decAt]

theorem foldl_decAt_getD (locs : List Loc) (k : Nat) : ∀ w : List Nat,
    (locs.foldl (fun w l => decAt w l.simd) w).getD k 0 = w.getD k 0 - (locs.filter (·.simd = k)).length := by
  induction locs with
  | nil => intro w; simp
  | cons l locs ih =>
    intro w
    simp only [List.foldl_cons]
    rw [ih]
    simp only [decAt, List.getD_eq_getElem?_getD, List.getElem?_set, List.filter_cons]
    by_cases hk : l.simd = k
    · subst hk
      by_cases hlt : l.simd < w.length
      · simp [hlt]; omega
      · simp [hlt]
    · simp [hk]

/-- what a successful `ReserveResourceForWG` guarantees, in terms of the state before the call -/
structure OkFacts (cap : List Nat) (cu : CU) (key : Nat) (d : Dem) (locs : List Loc) (cu' : CU) : Prop where
  /-- one location per wavefront -/
  len : locs.length = d.nwf
  /-- the work-group is appended to the resident list -/
  res : cu'.resident = cu.resident ++ [(key, d, locs)]
  /-- it was not resident -/
  fresh : ∀ e ∈ cu.resident, e.1 ≠ key
  /-- SGPR mask: old regions plus one per location -/
  sOK : MaskOK cu'.smask (sRegions cu ++ locs.map fun l => (l.soff / 64, units d.s sGran))
  /-- SGPR mask keeps its shape -/
  sSh : cu'.smask.shape = cu.smask.shape
  /-- LDS mask: old regions plus the one shared by all locations -/
  lOK : ∃ lo, (∀ l ∈ locs, l.loff = lo * 256) ∧ MaskOK cu'.lmask (lRegions cu ++ [(lo, units d.l lGran)])
  /-- LDS mask keeps its shape -/
  lSh : cu'.lmask.shape = cu.lmask.shape
  /-- still one VGPR mask per SIMD -/
  vLen : cu'.vmasks.length = cu.vmasks.length
  /-- VGPR masks: old regions plus one per location on that SIMD; shapes kept -/
  vOK : ∀ k M' M, cu'.vmasks[k]? = some M' → cu.vmasks[k]? = some M →
    MaskOK M' (vRegions cu k ++ (locs.filter (·.simd = k)).map fun l => (l.voff / 16, units d.v vGran))
    ∧ M'.shape = M.shape
  /-- still one counter per SIMD -/
  wfLen : cu'.wfFree.length = cu.wfFree.length
  /-- the free slots went down by exactly the locations per SIMD -/
  wf : ∀ k, cu'.wfFree.getD k 0 + (locs.filter (·.simd = k)).length = cu.wfFree.getD k 0
  /-- SIMD ids in range -/
  simd : ∀ l ∈ locs, l.simd < cap.length
  /-- round-robin pointer in range -/
  next : cu'.nextSIMD < cap.length
  /-- byte offsets are exact multiples of the unit sizes -/
  aligned : ∀ l ∈ locs, l.soff % 64 = 0 ∧ l.voff % 16 = 0 ∧ l.loff % 256 = 0

/-- the three phases of `ReserveResourceForWG`, on the state before the call -/
theorem reserve_phases (cap : List Nat) (cu : CU) (d : Dem) (hinv : Inv cap cu) :
    (∀ r M1, sgprLoop (units d.s sGran) d.nwf cu.smask = (r, M1) →
      ∃ ps', MaskOK2 cu.smask.shape M1 (sRegions cu) ps' ∧
        ∀ offs, r = some offs → offs.length = d.nwf ∧ ps' = offs.map (fun o => (o, units d.s sGran))) ∧
    (∀ r M2, cu.lmask.nextRegion (units d.l lGran) stFree = (r, M2) →
      MaskOK2 cu.lmask.shape M2 (lRegions cu) [] ∧
      ∀ loff, r = some loff → MaskOK2 cu.lmask.shape (M2.setStatus loff (units d.l lGran) stToRes)
        (lRegions cu) [(loff, units d.l lGran)]) ∧
    (∀ r st', matchLoop (units d.v vGran) cu.wfFree d.nwf
        { vmasks := cu.vmasks, next := cu.nextSIMD, used := cu.wfFree.map (fun _ => 0) } = (r, st') →
      ∃ acc', MInv cu (units d.v vGran) st' acc' ∧ ∀ ps, r = some ps → ps.length = d.nwf ∧ acc' = ps) := by
  refine ⟨?_, ?_, ?_⟩
  · intro r M1 hs
    obtain ⟨ps', h1, h2⟩ := sgprLoop_ok _ _ _ _ _ _ _ _ (MaskOK2_of_OK _ _ hinv.sOK) hs
    exact ⟨ps', h1, by simpa using h2⟩
  · intro r M2 hl
    have h0 := MaskOK2_of_OK _ _ hinv.lOK
    refine ⟨MaskOK2_next _ _ _ _ _ _ _ h0 hl, ?_⟩
    intro loff hr; subst hr
    simpa using MaskOK2_find _ _ _ _ _ _ _ h0 hl
  · intro r st' hm
    obtain ⟨acc', h1, h2⟩ := matchLoop_ok cu _ _ _ _ _ _ (MInv_init cap cu _ hinv) hm
    exact ⟨acc', h1, by simpa using h2⟩

/-- `ReserveResourceForWG` failed: the invariant holds, nothing became resident, no slot was taken -/
theorem reserve_no (cap : List Nat) (cu : CU) (key : Nat) (d : Dem) (cu' : CU) (hinv : Inv cap cu)
    (h : reserve cu key d = (.no, cu')) :
    Inv cap cu' ∧ cu'.resident = cu.resident ∧ cu'.wfFree = cu.wfFree := by
  obtain ⟨hS, hL, hV⟩ := reserve_phases cap cu d hinv
  have hv0 : ∀ k M, cu.vmasks[k]? = some M → ∃ sh ps, MaskOK2 sh M (vRegions cu k) ps := by
    intro k M hM
    obtain ⟨hk, hMk⟩ := List.getElem?_eq_some_iff.1 hM
    subst hMk
    exact ⟨_, [], MaskOK2_of_OK _ _ (hinv.vOK k hk)⟩
  unfold reserve at h
  rcases hs : sgprLoop (units d.s sGran) d.nwf cu.smask with ⟨_ | soffs, M1⟩
  · simp only [hs, Prod.mk.injEq, true_and] at h
    subst h
    obtain ⟨ps', h1, _⟩ := hS _ _ hs
    exact clearTemp_inv cap cu _ hinv rfl rfl hinv.nextOK ⟨_, ps', h1⟩
      ⟨_, [], MaskOK2_of_OK _ _ hinv.lOK⟩ rfl hv0
  · simp only [hs] at h
    obtain ⟨ps', h1, _⟩ := hS _ _ hs
    rcases hl : cu.lmask.nextRegion (units d.l lGran) stFree with ⟨_ | loff, M2⟩
    · simp only [hl, Prod.mk.injEq, true_and] at h
      subst h
      exact clearTemp_inv cap cu _ hinv rfl rfl hinv.nextOK ⟨_, ps', h1⟩
        ⟨_, [], (hL _ _ hl).1⟩ rfl hv0
    · simp only [hl] at h
      have h2 := (hL _ _ hl).2 loff rfl
      rcases hm : matchLoop (units d.v vGran) cu.wfFree d.nwf
          { vmasks := cu.vmasks, next := cu.nextSIMD, used := cu.wfFree.map (fun _ => 0) } with ⟨_ | ps, st'⟩
      · simp only [hm, Prod.mk.injEq, true_and] at h
        subst h
        obtain ⟨acc', h3, _⟩ := hV _ _ hm
        refine clearTemp_inv cap cu _ hinv rfl rfl ?_ ⟨_, ps', h1⟩ ⟨_, _, h2⟩ h3.len ?_
        · have := h3.next; rw [hinv.wfLen] at this; exact this
        · intro k M hM
          have hk : k < cu.vmasks.length := by
            have := (List.getElem?_eq_some_iff.1 hM).1
            simpa [h3.len] using this
          exact ⟨_, _, h3.ok k M _ hM (List.getElem?_eq_getElem hk)⟩
      · simp only [hm] at h
        split at h <;> simp at h

/-- `ReserveResourceForWG` succeeded -/
theorem reserve_ok_facts (cap : List Nat) (cu : CU) (key : Nat) (d : Dem) (locs : List Loc) (cu' : CU)
    (hinv : Inv cap cu) (h : reserve cu key d = (.ok locs, cu')) : OkFacts cap cu key d locs cu' := by
  obtain ⟨hS, hL, hV⟩ := reserve_phases cap cu d hinv
  unfold reserve at h
  rcases hs : sgprLoop (units d.s sGran) d.nwf cu.smask with ⟨_ | soffs, M1⟩
  · simp [hs] at h
  · simp only [hs] at h
    obtain ⟨ps', h1, h1'⟩ := hS _ _ hs
    obtain ⟨hsl, rfl⟩ := h1' soffs rfl
    rcases hl : cu.lmask.nextRegion (units d.l lGran) stFree with ⟨_ | loff, M2⟩
    · simp [hl] at h
    · simp only [hl] at h
      have h2 := (hL _ _ hl).2 loff rfl
      rcases hm : matchLoop (units d.v vGran) cu.wfFree d.nwf
          { vmasks := cu.vmasks, next := cu.nextSIMD, used := cu.wfFree.map (fun _ => 0) } with ⟨_ | ps, st'⟩
      · simp [hm] at h
      · simp only [hm] at h
        obtain ⟨acc', h3, h3'⟩ := hV _ _ hm
        obtain ⟨hpl, rfl⟩ := h3' ps rfl
        split at h
        · simp at h
        · rename_i hany
          simp only [List.any_eq_true, decide_eq_true_eq, not_exists, not_and] at hany
          change (RRes.ok (mkLocs loff soffs acc'), _) = _ at h
          simp only [Prod.mk.injEq, RRes.ok.injEq] at h
          obtain ⟨hlocs, hcu⟩ := h
          obtain ⟨f1, f2, f3, f4⟩ := mkLocs_facts loff soffs acc' (by omega)
          rw [hlocs] at f1 f2 f3 f4
          have hcnt : ∀ k, (acc'.filter (·.1 = k)).length = (locs.filter (·.simd = k)).length := by
            intro k
            rw [← f3, List.filter_map, List.length_map]
            rfl
          have hcu' : cu' =
            { wfFree := List.foldl (fun w l => decAt w l.simd) cu.wfFree locs,
              smask := M1.convert stToRes stRes,
              vmasks := List.map (fun x => x.convert stToRes stRes) st'.vmasks,
              lmask := (M2.setStatus loff (units d.l lGran) stToRes).convert stToRes stRes,
              nextSIMD := st'.next,
              resident := cu.resident ++ [(key, d, locs)] } := by
            rw [← hcu, ← hlocs]; rfl
          clear hcu
          subst hcu'
          have hsc := MaskOK_of_OK2 _ _ _ (MaskOK2_commit _ _ _ _ h1)
          have hlc := MaskOK_of_OK2 _ _ _ (MaskOK2_commit _ _ _ _ h2)
          exact {
            len := by omega
            res := rfl
            fresh := hany
            sOK := by
              have e : (locs.map fun l => (l.soff / 64, units d.s sGran))
                  = soffs.map (fun o => (o, units d.s sGran)) := by
                rw [← f2, List.map_map]; rfl
              rw [e]; exact hsc.1
            sSh := hsc.2
            lOK := ⟨loff, fun l hl => (f4 l hl).1, hlc.1⟩
            lSh := hlc.2
            vLen := by simp [h3.len]
            vOK := by
              intro k M' M hM' hM
              simp only [List.getElem?_map, Option.map_eq_some_iff] at hM'
              obtain ⟨Mk, hMk, rfl⟩ := hM'
              have hc := MaskOK_of_OK2 _ _ _ (MaskOK2_commit _ _ _ _ (h3.ok k Mk M hMk hM))
              refine ⟨?_, hc.2⟩
              have e : pend (units d.v vGran) k acc'
                  = (locs.filter (·.simd = k)).map fun l => (l.voff / 16, units d.v vGran) := by
                unfold pend
                rw [← f3, List.filter_map, List.map_map]; rfl
              rw [← e]; exact hc.1
            wfLen := foldl_decAt_length _ _
            wf := by
              intro k
              show (List.foldl (fun w l => decAt w l.simd) cu.wfFree locs).getD k 0 + _ = _
              rw [foldl_decAt_getD]
              have := h3.usedLe k
              rw [h3.used k, hcnt k] at this
              omega
            simd := by
              intro l hl
              have : (l.simd, l.voff / 16) ∈ acc' := by
                rw [← f3]; exact List.mem_map.2 ⟨l, hl, rfl⟩
              have := h3.simd _ this
              rw [hinv.wfLen] at this; exact this
            next := by have := h3.next; rw [hinv.wfLen] at this; exact this
            aligned := by
              intro l hl
              obtain ⟨a, b, c⟩ := f4 l hl
              exact ⟨b, c, by omega⟩ }

end C09
