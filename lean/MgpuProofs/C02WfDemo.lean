import MgpuProofs.C02WfConcrete
/-! Concrete programs and schedules used as witnesses / non-vacuity examples of the C02 wavefront theorems. -/
namespace C02.Wf

def demoRegs : RF := fun x =>
  if x = EXEC then 3 else if vreg 0 0 ≤ x ∧ x < vreg 0 64 then 4 * (x - vreg 0 0) else 0
def demoMem : Mem := fun a => (a * 7 + 1) % 256
def noForeign : Nat → Bool := fun _ => false

/-- v[2:3] = 0x200000 + 4·lane; load; wait; xor; store back; end -/
def csGood : List CInst :=
  [.smov 4 0x200000, .smov 5 0, .vxor 2 4 0, .vmov 3 5, .fld 6 2, .wait 0 0, .vxor 7 4 6, .fst 2 7, .endp]
def PGood : Prog := cprog 0x1000 csGood noForeign

theorem PGood_wf : PGood.WF := cprog_wf _ _ _


/-- a schedule the rules accept: one fetch, the load performed and returned while the wavefront sits
    in `s_waitcnt`, the store performed while it sits in `s_endpgm` -/
def evsGood : List Ev :=
  [.fetch, .fetchRet, .decode, .issue, .exec, .complete, .decode, .issue, .exec, .complete,
   .decode, .issue, .exec, .complete, .decode, .issue, .exec, .complete, .decode, .issue, .exec,
   .decode, .issue, .serveV 0, .retV, .complete, .decode, .issue, .exec, .complete,
   .decode, .issue, .exec, .decode, .issue, .serveV 0, .retV, .complete]


/-- the same program without the `s_waitcnt` between the load and its use -/
def csBad : List CInst :=
  [.smov 4 0x200000, .smov 5 0, .vxor 2 4 0, .vmov 3 5, .fld 6 2, .vxor 7 4 6, .endp]
def PBad : Prog := cprog 0x1000 csBad noForeign

theorem PBad_wf : PBad.WF := cprog_wf _ _ _

/-- the `v_xor` executes while the load is in flight; the load is performed and returns afterwards -/
def evsBad : List Ev :=
  [.fetch, .fetchRet, .decode, .issue, .exec, .complete, .decode, .issue, .exec, .complete,
   .decode, .issue, .exec, .complete, .decode, .issue, .exec, .complete, .decode, .issue, .exec,
   .decode, .issue, .exec, .complete, .serveV 0, .retV, .decode, .issue, .complete]


def csPc : List CInst := [.getpc 4, .endp]
def PPc : Prog := cprog 0x1000 csPc noForeign
theorem PPc_wf : PPc.WF := cprog_wf _ _ _
/-- the same program on the compute unit before the repairs -/
def PPcOld : Prog := { PPc with oldCU := true }
def evsPc : List Ev := [.fetch, .fetchRet, .decode, .issue, .exec, .complete, .decode, .issue, .complete]


/-- load A (v6) with two lanes active; EXEC := 0; load B (v8) — no transaction; EXEC := 3;
    `s_waitcnt vmcnt(1)` ("everything but the youngest access has returned"); use v6 -/
def csEmpty : List CInst :=
  [.smov 4 0x200000, .smov 5 0, .vxor 2 4 0, .vmov 3 5, .fld 6 2, .sexec 0, .fld 8 2, .sexec 3,
   .wait 1 15, .vxor 7 4 6, .wait 0 0, .endp]
def PEmpty : Prog := cprog 0x1000 csEmpty noForeign

/-- the same program on the compute unit before the repairs -/
def PEmptyOld : Prog := { PEmpty with oldCU := true }

theorem PEmpty_wf : PEmpty.WF := cprog_wf _ _ _

def evsEmpty : List Ev :=
  [.fetch, .fetchRet, .decode, .issue, .exec, .complete, .decode, .issue, .exec, .complete,
   .decode, .issue, .exec, .complete, .decode, .issue, .exec, .complete,
   .decode, .issue, .exec,                       -- load A: one access in flight, vmcnt = 1
   .decode, .issue, .exec, .complete,            -- EXEC := 0
   .decode, .issue, .exec,                       -- load B: no transaction, vmcnt stays 1
   .decode, .issue, .exec, .complete,            -- EXEC := 3
   .decode, .issue, .complete,                   -- s_waitcnt vmcnt(1): 1 ≤ 1, released at once
   .decode, .issue, .exec, .complete,            -- v_xor reads the old v6
   .decode, .issue, .serveV 0, .retV, .complete, -- s_waitcnt 0: load A returns now
   .fetch, .fetchRet, .decode, .issue, .complete]


/-- the repaired compute unit: load B (no transaction) executes only after load A has returned -/
def evsEmptyFixed : List Ev :=
  [.fetch, .fetchRet, .decode, .issue, .exec, .complete, .decode, .issue, .exec, .complete,
   .decode, .issue, .exec, .complete, .decode, .issue, .exec, .complete,
   .decode, .issue, .exec,                       -- load A
   .decode, .issue, .exec, .complete,            -- EXEC := 0
   .decode, .issue, .serveV 0, .retV, .exec,     -- load B: waits for A, then completes
   .decode, .issue, .exec, .complete,            -- EXEC := 3
   .decode, .issue, .complete,                   -- s_waitcnt vmcnt(1)
   .decode, .issue, .exec, .complete,            -- v_xor reads the loaded v6
   .decode, .issue, .complete,
   .decode, .issue, .complete]

/-! two wavefronts: each loads a dword per lane from its own window and one scalar from a window both
    read, xors them and stores the result back into its own window -/

def inWin (lo n a : Nat) : Bool := decide (lo ≤ a ∧ a < lo + n)

def csTwo (A : Nat) : List CInst :=
  [.smov 4 A, .smov 5 0, .vxor 2 4 0, .vmov 3 5, .smov 8 0x100040, .smov 9 0, .sld 10 8 0, .fld 6 2,
   .wait 0 0, .vxor 7 10 6, .fst 2 7, .endp]

/-- owns (reads) its window `A` and the shared read-only window at 0x100000; may write its window only -/
def PTwo (base A : Nat) : Prog :=
  { cprog base (csTwo A) (fun _ => false) with
    own := fun a => inWin A 0x100 a || inWin 0x100000 0x100 a
    wown := fun a => inWin A 0x100 a }

theorem PTwo_wf (base A : Nat) : (PTwo base A).WF :=
  let h := cprog_wf base (csTwo A) (fun _ => false)
  ⟨rfl, h.inst, h.pfx⟩

def evsTwo : List Ev :=
  [.fetch, .fetchRet, .fetch, .fetchRet,
   .decode, .issue, .exec, .complete, .decode, .issue, .exec, .complete,
   .decode, .issue, .exec, .complete, .decode, .issue, .exec, .complete,
   .decode, .issue, .exec, .complete, .decode, .issue, .exec, .complete,
   .decode, .issue, .exec,            -- s_load
   .decode, .issue, .exec,            -- flat_load
   .decode, .issue, .serveV 0, .serveS 0, .retS 0, .retV, .complete,
   .decode, .issue, .exec, .complete,
   .decode, .issue, .exec,            -- store
   .decode, .issue, .serveV 0, .retV, .complete]

def PsTwo : List Prog := [PTwo 0x1000 0x200000, PTwo 0x2000 0x300000]
def initsTwo : List (Nat × RF) := [(0x1000, demoRegs), (0x2000, demoRegs)]

/-- the two wavefronts' events alternating -/
def cuEvsTwo : List (Nat × Ev) := evsTwo.flatMap fun e => [(0, e), (1, e)]

end C02.Wf
