import MgpuModel.C10Buddy
/-!
Helper lemmas for the buddy allocator model (`MgpuModel/C10Buddy.lean`): level sizes of a power-of-two
device, the order loops, the free-list accessors, and the exact effect of `allocMultiPos` on the free lists.
-/
namespace C10.Buddy

/-! ## the zero-page guard of `allocateMultiplePages` -/

theorem allocMulti_zero (s : State) : allocMulti s 0 = .ok ([], s) := rfl

theorem allocMulti_pos (s : State) {n : Nat} (h : n ≠ 0) : allocMulti s n = allocMultiPos s n := by
  simp [allocMulti, h]

theorem amOp_zero (s : State) : amOp s 0 = if noAvail s then .error .oom else .ok ([], s) := by
  unfold amOp
  rw [allocMulti_zero]
  simp

/-- a successful request for no page: nothing returned, nothing changed -/
theorem amOp_zero_ok {s s' : State} {ps : List Nat} (h : amOp s 0 = .ok (ps, s')) : ps = [] ∧ s' = s := by
  rw [amOp_zero] at h
  split at h
  · cases h
  · injection h with h
    injection h with h1 h2
    exact ⟨h1.symm, h2.symm⟩

/-! ## level sizes of a device of `4096 * 2^F` bytes -/

theorem szl_eq {F l : Nat} (h : l ≤ F) : szl (4096 * 2 ^ F) l = 4096 * 2 ^ (F - l) := by
  unfold szl
  have e : 2 ^ F = 2 ^ (F - l) * 2 ^ l := by rw [← Nat.pow_add]; congr 1; omega
  rw [e, ← Nat.mul_assoc]
  exact Nat.mul_div_cancel _ (Nat.pow_pos (by decide))

theorem szl_mul {F i l : Nat} (hil : i ≤ l) (hl : l ≤ F) :
    szl (4096 * 2 ^ F) i = szl (4096 * 2 ^ F) l * 2 ^ (l - i) := by
  rw [szl_eq hl, szl_eq (Nat.le_trans hil hl), Nat.mul_assoc, ← Nat.pow_add]
  congr 2; omega

theorem szl_pos {F l : Nat} (h : l ≤ F) : 4096 ≤ szl (4096 * 2 ^ F) l := by
  rw [szl_eq h]
  have := Nat.pow_pos (n := F - l) (show 0 < 2 by decide)
  omega

theorem szl_le {F i l : Nat} (hil : i ≤ l) (hl : l ≤ F) : szl (4096 * 2 ^ F) l ≤ szl (4096 * 2 ^ F) i := by
  rw [szl_mul hil hl]
  exact Nat.le_mul_of_pos_right _ (Nat.pow_pos (by decide))

theorem szl_two_le {F i l : Nat} (hil : i < l) (hl : l ≤ F) :
    2 * szl (4096 * 2 ^ F) l ≤ szl (4096 * 2 ^ F) i := by
  rw [szl_mul (Nat.le_of_lt hil) hl]
  have e : 2 ^ (l - i) = 2 * 2 ^ (l - i - 1) := by
    rw [← Nat.pow_succ']; congr 1; omega
  have := Nat.pow_pos (n := l - i - 1) (show 0 < 2 by decide)
  rw [e, Nat.mul_comm 2 (szl _ _)]
  exact Nat.mul_le_mul_left _ (by omega)

theorem szl_dvd {F i l : Nat} (hil : i ≤ l) (hl : l ≤ F) : szl (4096 * 2 ^ F) l ∣ szl (4096 * 2 ^ F) i :=
  ⟨2 ^ (l - i), szl_mul hil hl⟩

theorem page_dvd_szl {F l : Nat} (h : l ≤ F) : 4096 ∣ szl (4096 * 2 ^ F) l := ⟨_, szl_eq h⟩

/-- a block of level `i` has an even index at every finer level -/
theorem idx_even {F i l d : Nat} (hil : i < l) (hl : l ≤ F) (hd : szl (4096 * 2 ^ F) i ∣ d) :
    (d / szl (4096 * 2 ^ F) l) % 2 = 0 := by
  obtain ⟨k, rfl⟩ := hd
  have e : 2 ^ (l - i) = 2 * 2 ^ (l - i - 1) := by
    rw [← Nat.pow_succ']; congr 1; omega
  rw [szl_mul (Nat.le_of_lt hil) hl, e, Nat.mul_assoc, Nat.mul_div_cancel_left _ (by have := szl_pos hl; omega),
    Nat.mul_assoc]
  exact Nat.mul_mod_right _ _

/-! ## the order loops -/

theorem ordGo_pow (F : Nat) : ∀ f k, k ≤ F → F ≤ k + f → ordGo (4096 * 2 ^ F) f k = F := by
  intro f
  induction f with
  | zero => intro k h1 h2; simp [ordGo]; omega
  | succ f ih =>
    intro k h1 h2
    unfold ordGo
    split
    · rename_i h
      have h' : 2 ^ F ≤ 2 ^ k := by omega
      have := (Nat.pow_le_pow_iff_right (by decide : 1 < 2)).mp h'
      omega
    · rename_i h
      have : k ≠ F := by intro e; subst e; exact h (Nat.le_refl _)
      exact ih (k + 1) (by omega) (by omega)

theorem ordOf_pow (F : Nat) : ordOf (4096 * 2 ^ F) = F := by
  unfold ordOf
  apply ordGo_pow F _ 0 (Nat.zero_le _)
  have := Nat.lt_two_pow_self (n := F)
  omega

theorem ordGo_ge (b : Nat) : ∀ f k, b ≤ 4096 * 2 ^ (k + f) → b ≤ 4096 * 2 ^ ordGo b f k := by
  intro f
  induction f with
  | zero => intro k h; simpa [ordGo] using h
  | succ f ih =>
    intro k h
    unfold ordGo
    split
    · assumption
    · exact ih (k + 1) (by rw [Nat.add_assoc, Nat.add_comm 1 f]; exact h)

theorem ordOf_ge (b : Nat) : b ≤ 4096 * 2 ^ ordOf b := by
  unfold ordOf
  apply ordGo_ge
  have := Nat.lt_two_pow_self (n := b)
  simp only [Nat.zero_add]
  omega

/-! ## free-list accessors -/

theorem lvl_setLvl (f : List (List Nat)) (i j : Nat) (x : List Nat) :
    lvl (setLvl f i x) j = if i = j ∧ i < f.length then x else lvl f j := by
  unfold lvl setLvl
  simp only [List.getD_eq_getElem?_getD, List.getElem?_set]
  by_cases h : i = j
  · subst h
    by_cases h2 : i < f.length
    · simp [h2]
    · simp [h2]
  · simp [h]

theorem length_setLvl (f : List (List Nat)) (i : Nat) (x : List Nat) : (setLvl f i x).length = f.length := by
  simp [setLvl]

theorem lvl_of_length_le {f : List (List Nat)} {j : Nat} (h : f.length ≤ j) : lvl f j = [] := by
  simp [lvl, List.getD_eq_getElem?_getD, List.getElem?_eq_none h]

theorem findLevel_some {f : List (List Nat)} : ∀ {lv i : Nat}, findLevel f lv = some i → i ≤ lv ∧ lvl f i ≠ [] := by
  intro lv
  induction lv with
  | zero =>
    intro i h
    simp only [findLevel] at h
    split at h
    · injection h with h; subst h; exact ⟨Nat.le_refl _, by assumption⟩
    · cases h
  | succ lv ih =>
    intro i h
    simp only [findLevel] at h
    split at h
    · injection h with h; subst h; exact ⟨Nat.le_refl _, by assumption⟩
    · have := ih h; exact ⟨by omega, this.2⟩

/-! ## the bit fields and `push` do not touch base/size; `push` appends to one level -/

theorem flipSplit_ok {s s' : State} {i : Nat} (h : flipSplit s i = .ok s') :
    s'.base = s.base ∧ s'.size = s.size ∧ s'.free = s.free ∧ s'.track = s.track ∧ s'.trk = s.trk ∧ s'.nbits = s.nbits := by
  unfold flipSplit at h
  split at h
  · injection h with h; subst h; simp
  · cases h

theorem flipMerge_ok {s s' : State} {i : Nat} (h : flipMerge s i = .ok s') :
    s'.base = s.base ∧ s'.size = s.size ∧ s'.free = s.free ∧ s'.track = s.track ∧ s'.trk = s.trk ∧ s'.nbits = s.nbits := by
  unfold flipMerge at h
  split at h
  · injection h with h; subst h; simp
  · cases h

/-- effect of the split loop on the free lists: one buddy appended to each of the levels `i+1 … i+k` -/
theorem splitLoop_ok (blk : Nat) : ∀ (k i : Nat) (s s' : State), splitLoop blk k i s = .ok s' → i + k < s.free.length →
    s'.base = s.base ∧ s'.size = s.size ∧ s'.free.length = s.free.length ∧
    ∀ j, lvl s'.free j = if i < j ∧ j ≤ i + k then lvl s.free j ++ [buddyOf s.base s.size blk j] else lvl s.free j := by
  intro k
  induction k with
  | zero =>
    intro i s s' h _
    simp only [splitLoop] at h
    injection h with h; subst h
    refine ⟨rfl, rfl, rfl, ?_⟩
    intro j
    simp
  | succ k ih =>
    intro i s s' h hlen
    simp only [splitLoop] at h
    split at h
    · cases h
    · rename_i s1 h1
      split at h
      · cases h
      · rename_i s2 h2
        obtain ⟨b1, z1, f1, -⟩ := flipSplit_ok h1
        obtain ⟨b2, z2, f2, -⟩ := flipMerge_ok h2
        have hb : s2.base = s.base := b2.trans b1
        have hz : s2.size = s.size := z2.trans z1
        have hf : s2.free = s.free := f2.trans f1
        have := ih (i + 1) _ s' h (by simp [push, length_setLvl, hf]; omega)
        obtain ⟨b3, z3, l3, j3⟩ := this
        simp only [push, hf, length_setLvl] at b3 z3 l3 j3
        refine ⟨b3.trans hb, z3.trans hz, l3, ?_⟩
        intro j
        rw [j3 j, lvl_setLvl, hb, hz]
        by_cases hj : j = i + 1
        · subst hj
          have c2 : (i < i + 1 ∧ i + 1 ≤ i + (k + 1)) := by omega
          have c3 : (i + 1 = i + 1 ∧ i + 1 < s.free.length) := by omega
          simp [c2, c3]
        · by_cases hr : i + 1 < j ∧ j ≤ i + 1 + k
          · have c2 : (i < j ∧ j ≤ i + (k + 1)) := by omega
            have c3 : ¬ (i + 1 = j ∧ i + 1 < s.free.length) := by omega
            simp [hr, c2, c3]
          · have c2 : ¬ (i < j ∧ j ≤ i + (k + 1)) := by omega
            have c3 : ¬ (i + 1 = j ∧ i + 1 < s.free.length) := by omega
            simp [hr, c2, c3]

theorem pagesFrom_mem : ∀ (n blk p : Nat), p ∈ pagesFrom blk n ↔ ∃ t, t < n ∧ p = blk + 4096 * t := by
  intro n
  induction n with
  | zero => intro blk p; simp [pagesFrom]
  | succ n ih =>
    intro blk p
    simp only [pagesFrom, List.mem_cons, ih]
    constructor
    · rintro (h | ⟨t, ht, h⟩)
      · exact ⟨0, by omega, by omega⟩
      · exact ⟨t + 1, by omega, by omega⟩
    · rintro ⟨t, ht, h⟩
      cases t with
      | zero => left; omega
      | succ t => right; exact ⟨t, by omega, by omega⟩

theorem pagesFrom_nodup : ∀ (n blk : Nat), (pagesFrom blk n).Nodup := by
  intro n
  induction n with
  | zero => intro blk; simp [pagesFrom]
  | succ n ih =>
    intro blk
    simp only [pagesFrom, List.nodup_cons]
    refine ⟨?_, ih _⟩
    intro h
    obtain ⟨t, _, h⟩ := (pagesFrom_mem _ _ _).mp h
    omega

/-- what a successful `allocateMultiplePages(n)` does to the free lists: it takes the front block of the first
non-empty level `i ≤ level` and appends one buddy to each of the levels `i+1 … level` -/
theorem allocMulti_ok {s s' : State} {n : Nat} {pages : List Nat} (h : allocMultiPos s n = .ok (pages, s')) (hpos : 0 < s.free.length) :
    ∃ i level blk rest, ordOf (n * 4096) ≤ s.free.length - 1 ∧ level = s.free.length - 1 - ordOf (n * 4096) ∧ i ≤ level ∧
      lvl s.free i = blk :: rest ∧ pages = pagesFrom blk n ∧
      s'.base = s.base ∧ s'.size = s.size ∧ s'.free.length = s.free.length ∧
      ∀ j, lvl s'.free j = if j = i then rest else
        if i < j ∧ j ≤ level then lvl s.free j ++ [buddyOf s.base s.size blk j] else lvl s.free j := by
  unfold allocMultiPos at h
  simp only at h
  split at h
  · cases h
  · rename_i hord
    split at h
    · cases h
    · rename_i i hfind
      obtain ⟨hile, hne⟩ := findLevel_some hfind
      split at h
      · cases h
      · rename_i s1 h1
        split at h
        · cases h
        · rename_i s2 h2
          injection h with h
          injection h with hp hs
          subst hs
          obtain ⟨blk, rest, hbr⟩ := List.exists_cons_of_ne_nil hne
          have hs1 : s1.base = s.base ∧ s1.size = s.size ∧ s1.free = setLvl s.free i (lvl s.free i).tail := by
            split at h1
            · obtain ⟨a, b, c, -⟩ := flipMerge_ok h1
              exact ⟨a, b, c⟩
            · injection h1 with h1; subst h1; exact ⟨rfl, rfl, rfl⟩
          obtain ⟨b1, z1, f1⟩ := hs1
          have hilen : i < s.free.length := by omega
          have := splitLoop_ok _ _ _ _ _ h2 (by rw [f1, length_setLvl]; omega)
          obtain ⟨b2, z2, l2, j2⟩ := this
          rw [f1, length_setLvl] at l2
          refine ⟨i, _, blk, rest, by omega, rfl, hile, hbr, ?_, by simp [b2, b1], by simp [z2, z1], by simp [l2], ?_⟩
          · rw [← hp, hbr]; rfl
          · intro j
            simp only []
            rw [j2 j, f1, lvl_setLvl, b1, z1, hbr]
            simp only [List.headD_cons, List.tail_cons]
            by_cases hji : j = i
            · subst hji
              simp [hilen]
            · have c3 : ¬ (i = j ∧ i < s.free.length) := by omega
              by_cases hr : i < j ∧ j ≤ s.free.length - 1 - ordOf (n * 4096)
              · have c1 : (i < j ∧ j ≤ i + (s.free.length - 1 - ordOf (n * 4096) - i)) := by omega
                simp [hji, c3, hr, c1]
              · have c1 : ¬ (i < j ∧ j ≤ i + (s.free.length - 1 - ordOf (n * 4096) - i)) := by omega
                simp [hji, c3, hr, c1]

/-! ## the invariant of allocation-only histories -/

/-- `out` = every page handed out so far. Free blocks are aligned, inside the device, listed once, pairwise
disjoint, and contain no page handed out. -/
structure Inv (F : Nat) (s : State) (out : List Nat) : Prop where
  hsize : s.size = 4096 * 2 ^ F
  hlen : s.free.length = F + 1
  blk : ∀ l a, a ∈ lvl s.free l → s.base ≤ a ∧ a + szl s.size l ≤ s.base + s.size ∧ szl s.size l ∣ (a - s.base)
  nodup : ∀ l, (lvl s.free l).Nodup
  disj : ∀ l a l' a', a ∈ lvl s.free l → a' ∈ lvl s.free l' → (l ≠ l' ∨ a ≠ a') →
    a + szl s.size l ≤ a' ∨ a' + szl s.size l' ≤ a
  outNodup : out.Nodup
  outIn : ∀ p ∈ out, ∃ k, p = s.base + 4096 * k ∧ k < 2 ^ F
  outFree : ∀ p ∈ out, ∀ l a, a ∈ lvl s.free l → ¬ (a ≤ p ∧ p < a + szl s.size l)

theorem Inv.level_le {F : Nat} {s : State} {out : List Nat} (h : Inv F s out) {l a : Nat} (ha : a ∈ lvl s.free l) : l ≤ F := by
  rcases Nat.lt_or_ge l (F + 1) with hl | hl
  · omega
  · rw [lvl_of_length_le (by rw [h.hlen]; exact hl)] at ha
    cases ha

theorem inv_init (F base : Nat) : Inv F (init base (4096 * 2 ^ F)) [] := by
  have hl : ∀ l a, a ∈ lvl (init base (4096 * 2 ^ F)).free l → l = 0 ∧ a = base := by
    intro l a ha
    simp only [init, lvl, List.getD_eq_getElem?_getD] at ha
    cases l with
    | zero => simp at ha; exact ⟨rfl, ha⟩
    | succ l =>
      simp only [List.getElem?_cons_succ, List.getElem?_replicate] at ha
      split at ha <;> simp at ha
  have hs0 : szl (4096 * 2 ^ F) 0 = 4096 * 2 ^ F := by simp [szl]
  refine ⟨rfl, by simp [init, ordOf_pow], ?_, ?_, ?_, List.nodup_nil, by simp, by simp⟩
  · intro l a ha
    obtain ⟨rfl, rfl⟩ := hl l a ha
    show a ≤ a ∧ a + szl (4096 * 2 ^ F) 0 ≤ a + 4096 * 2 ^ F ∧ szl (4096 * 2 ^ F) 0 ∣ (a - a)
    rw [hs0]; simp
  · intro l
    simp only [init, lvl, List.getD_eq_getElem?_getD]
    cases l with
    | zero => simp
    | succ l =>
      simp only [List.getElem?_cons_succ, List.getElem?_replicate]
      split <;> simp
  · intro l a l' a' ha ha' hne
    obtain ⟨rfl, rfl⟩ := hl l a ha
    obtain ⟨rfl, rfl⟩ := hl l' a' ha'
    simp at hne

/-- the step: a successful `allocateMultiplePages(n)` preserves the invariant, with the returned pages added -/
theorem inv_allocMulti {F : Nat} {s s' : State} {out pages : List Nat} {n : Nat} (hI : Inv F s out)
    (h : allocMultiPos s n = .ok (pages, s')) : Inv F s' (out ++ pages) ∧ s'.base = s.base := by
  obtain ⟨i, level, blk, rest, hord, hlevel, hile, hbr, hpages, hb, hz, hl, hj⟩ :=
    allocMulti_ok h (by rw [hI.hlen]; omega)
  have hlenF := hI.hlen
  have hlevF : level ≤ F := by omega
  have hiF : i ≤ F := by omega
  have hsz := hI.hsize
  have hblk_mem : blk ∈ lvl s.free i := by rw [hbr]; exact List.mem_cons_self
  obtain ⟨hb1, hb2, hb3⟩ := hI.blk i blk hblk_mem
  have hnd := hI.nodup i
  rw [hbr, List.nodup_cons] at hnd
  obtain ⟨hblk_notin, hrest_nd⟩ := hnd
  rw [hsz] at hb2 hb3
  -- sizes
  have pos_i := szl_pos hiF
  -- the buddies add
  have hbud : ∀ j, i < j → j ≤ level → buddyOf s.base s.size blk j = blk + szl (4096 * 2 ^ F) j := by
    intro j h1 h2
    unfold buddyOf idxIn usub
    rw [hsz, if_pos hb1, idx_even h1 (by omega) hb3]
    simp
  -- the pages lie inside the taken block
  have hn : n * 4096 ≤ szl (4096 * 2 ^ F) level := by
    rw [szl_eq hlevF]
    have : F - level = ordOf (n * 4096) := by omega
    rw [this]
    exact ordOf_ge _
  have hlev_le : szl (4096 * 2 ^ F) level ≤ szl (4096 * 2 ^ F) i := szl_le hile hlevF
  have hpg : ∀ p ∈ pages, blk ≤ p ∧ p < blk + szl (4096 * 2 ^ F) level ∧ ∃ t, p = blk + 4096 * t := by
    intro p hp
    rw [hpages] at hp
    obtain ⟨t, ht, rfl⟩ := (pagesFrom_mem _ _ _).mp hp
    exact ⟨by omega, by omega, t, rfl⟩
  -- classification of the new free blocks
  have hcls : ∀ l a, a ∈ lvl s'.free l →
      (a ∈ lvl s.free l ∧ (l ≠ i ∨ a ≠ blk)) ∨ (i < l ∧ l ≤ level ∧ a = blk + szl (4096 * 2 ^ F) l) := by
    intro l a ha
    rw [hj l] at ha
    split at ha
    · rename_i hli
      subst hli
      left
      refine ⟨by rw [hbr]; exact List.mem_cons_of_mem _ ha, Or.inr ?_⟩
      intro e; subst e; exact hblk_notin ha
    · rename_i hli
      split at ha
      · rename_i hr
        rcases List.mem_append.mp ha with h1 | h1
        · exact Or.inl ⟨h1, Or.inl hli⟩
        · right
          rw [List.mem_singleton] at h1
          rw [hbud l hr.1 hr.2] at h1
          exact ⟨hr.1, hr.2, h1⟩
      · exact Or.inl ⟨ha, Or.inl hli⟩
  -- an old block other than the taken one is disjoint from the taken one
  have hold : ∀ l a, a ∈ lvl s.free l → (l ≠ i ∨ a ≠ blk) →
      a + szl (4096 * 2 ^ F) l ≤ blk ∨ blk + szl (4096 * 2 ^ F) i ≤ a := by
    intro l a ha hne
    have := hI.disj l a i blk ha hblk_mem hne
    rw [hsz] at this
    exact this
  refine ⟨⟨hz.trans hsz, hl.trans hlenF, ?_, ?_, ?_, ?_, ?_, ?_⟩, hb⟩
  · -- blocks aligned and inside
    intro l a ha
    rw [hb, hz, hsz]
    rcases hcls l a ha with ⟨h1, -⟩ | ⟨h1, h2, rfl⟩
    · have := hI.blk l a h1
      rw [hsz] at this
      exact this
    · have t := szl_two_le h1 (Nat.le_trans h2 hlevF)
      have d : szl (4096 * 2 ^ F) l ∣ (blk - s.base) := Nat.dvd_trans (szl_dvd (Nat.le_of_lt h1) (Nat.le_trans h2 hlevF)) hb3
      refine ⟨by omega, by omega, ?_⟩
      have e : blk + szl (4096 * 2 ^ F) l - s.base = (blk - s.base) + szl (4096 * 2 ^ F) l := by omega
      rw [e]
      exact Nat.dvd_add d (Nat.dvd_refl _)
  · -- each level duplicate-free
    intro l
    rw [hj l]
    split
    · exact hrest_nd
    · rename_i hli
      split
      · rename_i hr
        rw [hbud l hr.1 hr.2]
        refine List.nodup_append.mpr ⟨hI.nodup l, by simp, ?_⟩
        intro a ha b hb' e
        rw [List.mem_singleton] at hb'
        subst hb'
        subst e
        have := hold l _ ha (Or.inl hli)
        have t := szl_two_le hr.1 (Nat.le_trans hr.2 hlevF)
        have q := szl_pos (Nat.le_trans hr.2 hlevF)
        omega
      · exact hI.nodup l
  · -- pairwise disjoint
    intro l a l' a' ha ha' hne
    rw [hz, hsz]
    rcases hcls l a ha with ⟨h1, n1⟩ | ⟨h1, h2, rfl⟩
    · rcases hcls l' a' ha' with ⟨h1', n1'⟩ | ⟨h1', h2', rfl⟩
      · have := hI.disj l a l' a' h1 h1' hne
        rw [hsz] at this
        exact this
      · have := hold l a h1 n1
        have t := szl_two_le h1' (Nat.le_trans h2' hlevF)
        omega
    · rcases hcls l' a' ha' with ⟨h1', n1'⟩ | ⟨h1', h2', rfl⟩
      · have := hold l' a' h1' n1'
        have t := szl_two_le h1 (Nat.le_trans h2 hlevF)
        omega
      · have hll : l ≠ l' := by
          rcases hne with hne | hne
          · exact hne
          · intro e; subst e; exact hne rfl
        rcases Nat.lt_or_gt_of_ne hll with hlt | hlt
        · have t := szl_two_le hlt (Nat.le_trans h2' hlevF)
          omega
        · have t := szl_two_le hlt (Nat.le_trans h2 hlevF)
          omega
  · -- handed-out pages distinct
    refine List.nodup_append.mpr ⟨hI.outNodup, by rw [hpages]; exact pagesFrom_nodup _ _, ?_⟩
    intro p hp q hq e
    subst e
    obtain ⟨g1, g2, -⟩ := hpg p hq
    have := hI.outFree p hp i blk hblk_mem
    rw [hsz] at this
    omega
  · -- handed-out pages are pages of the device
    intro p hp
    rw [hb]
    rcases List.mem_append.mp hp with hp | hp
    · exact hI.outIn p hp
    · obtain ⟨g1, g2, t, rfl⟩ := hpg p hp
      obtain ⟨m, hm⟩ := Nat.dvd_trans (page_dvd_szl hiF) hb3
      refine ⟨m + t, by omega, ?_⟩
      have : 4096 * (m + t) < 4096 * 2 ^ F := by omega
      exact Nat.lt_of_mul_lt_mul_left this
  · -- no handed-out page inside a free block
    intro p hp l a ha
    rw [hz, hsz]
    rcases List.mem_append.mp hp with hp | hp
    · rcases hcls l a ha with ⟨h1, -⟩ | ⟨h1, h2, rfl⟩
      · have := hI.outFree p hp l a h1
        rw [hsz] at this
        exact this
      · have := hI.outFree p hp i blk hblk_mem
        rw [hsz] at this
        have t := szl_two_le h1 (Nat.le_trans h2 hlevF)
        omega
    · obtain ⟨g1, g2, -⟩ := hpg p hp
      rcases hcls l a ha with ⟨h1, n1⟩ | ⟨h1, h2, rfl⟩
      · have := hold l a h1 n1
        omega
      · have t := szl_le h2 hlevF
        omega

/-! ## device-level operations and whole allocation-only histories -/

theorem inv_popOne {F : Nat} {s s' : State} {out : List Nat} {p : Nat} (hI : Inv F s out)
    (h : popOne s = .ok (p, s')) : Inv F s' (out ++ [p]) ∧ s'.base = s.base := by
  unfold popOne at h
  rw [allocMulti_pos s (by decide)] at h
  split at h
  · cases h
  · split at h
    · cases h
    · rename_i ps s1 ha
      simp only [] at h
      split at h
      · injection h with h
        injection h with h1 h2
        subst h2
        obtain ⟨hI', hb⟩ := inv_allocMulti hI ha
        obtain ⟨i, level, blk, rest, -, -, -, -, hpages, -⟩ := allocMulti_ok ha (by rw [hI.hlen]; omega)
        have : ps = [p] := by rw [hpages, ← h1, hpages]; rfl
        rw [this] at hI'
        exact ⟨hI', hb⟩
      · cases h

theorem inv_popN {F : Nat} : ∀ (k : Nat) (s s' : State) (out ps : List Nat), Inv F s out →
    popN k s = .ok (ps, s') → Inv F s' (out ++ ps) ∧ s'.base = s.base := by
  intro k
  induction k with
  | zero =>
    intro s s' out ps hI h
    simp only [popN] at h
    injection h with h
    injection h with h1 h2
    subst h1; subst h2
    simpa using hI
  | succ k ih =>
    intro s s' out ps hI h
    simp only [popN] at h
    split at h
    · cases h
    · rename_i p s1 h1
      split at h
      · cases h
      · rename_i ps' s2 h2
        injection h with h
        injection h with e1 e2
        subst e1; subst e2
        obtain ⟨hI1, hb1⟩ := inv_popOne hI h1
        obtain ⟨hI2, hb2⟩ := ih _ _ _ _ hI1 h2
        refine ⟨?_, hb2.trans hb1⟩
        simpa [List.append_assoc] using hI2

theorem inv_amOp {F : Nat} {s s' : State} {out ps : List Nat} {n : Nat} (hI : Inv F s out)
    (h : amOp s n = .ok (ps, s')) : Inv F s' (out ++ ps) ∧ s'.base = s.base := by
  by_cases hn0 : n = 0
  · subst hn0
    obtain ⟨rfl, rfl⟩ := amOp_zero_ok h
    exact ⟨by simpa using hI, rfl⟩
  unfold amOp at h
  rw [allocMulti_pos s hn0] at h
  split at h
  · cases h
  · split at h
    · cases h
    · rename_i ps1 s1 ha
      split at h
      · injection h with h
        injection h with h1 h2
        subst h1; subst h2
        exact inv_allocMulti hI ha
      · cases h

theorem inv_step {F : Nat} {s s' : State} {out ps : List Nat} {op : Op} (hI : Inv F s out) (hop : op.isAlloc = true)
    (h : step s op = .ok (ps, s')) : Inv F s' (out ++ ps) ∧ s'.base = s.base := by
  cases op with
  | pop k => exact inv_popN k _ _ _ _ hI h
  | am n => exact inv_amOp hI h
  | add l => simp [Op.isAlloc] at hop

theorem inv_runOut {F : Nat} : ∀ (ops : List Op) (s : State) (out : List Nat), ops.all Op.isAlloc = true → Inv F s out →
    Inv F (runOut s ops).2 (out ++ (runOut s ops).1) ∧ (runOut s ops).2.base = s.base := by
  intro ops
  induction ops with
  | nil => intro s out _ hI; simpa [runOut] using hI
  | cons op ops ih =>
    intro s out hall hI
    simp only [List.all_cons, Bool.and_eq_true] at hall
    simp only [runOut]
    split
    · simpa using hI
    · rename_i ps s1 h1
      obtain ⟨hI1, hb1⟩ := inv_step hI hall.1 h1
      obtain ⟨hI2, hb2⟩ := ih s1 _ hall.2 hI1
      refine ⟨?_, hb2.trans hb1⟩
      simpa [List.append_assoc] using hI2

/-- on allocation-only histories `runLive` is `runOut`: the live pages are all pages handed out -/
theorem runLive_allocOnly : ∀ (ops : List Op) (s : State) (live : List Nat), ops.all Op.isAlloc = true →
    runLive s live ops = ⟨true, live ++ (runOut s ops).1, (runOut s ops).2⟩ := by
  intro ops
  induction ops with
  | nil => intro s live _; simp [runLive, runOut]
  | cons op ops ih =>
    intro s live hall
    simp only [List.all_cons, Bool.and_eq_true] at hall
    cases op with
    | add l => simp [Op.isAlloc] at hall
    | pop k =>
      simp only [runLive, runOut]
      split
      · simp
      · rename_i ps s1 h1
        rw [ih s1 _ hall.2]
        simp [List.append_assoc]
    | am n =>
      simp only [runLive, runOut]
      split
      · simp
      · rename_i ps s1 h1
        rw [ih s1 _ hall.2]
        simp [List.append_assoc]

/-! ## allocation-only histories fault with `oom` only -/

theorem nbits_gt (F : Nat) : 2 ^ F < 64 * (2 ^ F / 64 + 1) := Nat.lt_mul_div_succ _ (by decide)

/-- the bit index of a block inside the device at a level above the finest is inside the bit fields -/
theorem index_lt {F i j blk base : Nat} (hj : j < F) (hi : i ≤ F) (hb1 : base ≤ blk)
    (hb2 : blk + szl (4096 * 2 ^ F) i ≤ base + 4096 * 2 ^ F) :
    indexOfBlock base (4096 * 2 ^ F) blk j < 64 * (2 ^ F / 64 + 1) := by
  unfold indexOfBlock idxIn usub
  rw [if_pos hb1]
  have hpos := szl_pos (F := F) (l := j) (Nat.le_of_lt hj)
  have hpi := szl_pos hi
  have h0 : szl (4096 * 2 ^ F) 0 = 4096 * 2 ^ F := by simp [szl]
  have hm := szl_mul (F := F) (i := 0) (l := j) (Nat.zero_le _) (Nat.le_of_lt hj)
  rw [h0, Nat.sub_zero] at hm
  have hd : (blk - base) / szl (4096 * 2 ^ F) j < 2 ^ j := by
    rw [Nat.div_lt_iff_lt_mul (by omega), Nat.mul_comm, ← hm]
    omega
  have hp : 2 ^ (j + 1) ≤ 2 ^ F := Nat.pow_le_pow_right (by decide) hj
  rw [Nat.pow_succ] at hp
  have := nbits_gt F
  omega

theorem splitLoop_total (blk : Nat) : ∀ (k i : Nat) (s : State),
    (∀ j, i ≤ j → j < i + k → indexOfBlock s.base s.size blk j < s.nbits) → ∃ s', splitLoop blk k i s = .ok s' := by
  intro k
  induction k with
  | zero => intro i s _; exact ⟨s, rfl⟩
  | succ k ih =>
    intro i s h
    have h0 := h i (Nat.le_refl _) (by omega)
    simp only [splitLoop, flipSplit, flipMerge, if_pos h0]
    apply ih
    intro j h1 h2
    exact h j (by omega) (by omega)

theorem splitLoop_nbits (blk : Nat) : ∀ (k i : Nat) (s s' : State), splitLoop blk k i s = .ok s' → s'.nbits = s.nbits := by
  intro k
  induction k with
  | zero => intro i s s' h; simp only [splitLoop] at h; injection h with h; subst h; rfl
  | succ k ih =>
    intro i s s' h
    simp only [splitLoop] at h
    split at h
    · cases h
    · rename_i s1 h1
      split at h
      · cases h
      · rename_i s2 h2
        have := ih _ _ _ h
        simp only [push] at this
        rw [this, (flipMerge_ok h2).2.2.2.2.2, (flipSplit_ok h1).2.2.2.2.2]

theorem allocMulti_nbits {s s' : State} {n : Nat} {pages : List Nat} (h : allocMultiPos s n = .ok (pages, s')) :
    s'.nbits = s.nbits := by
  unfold allocMultiPos at h
  simp only at h
  split at h
  · cases h
  · split at h
    · cases h
    · split at h
      · cases h
      · rename_i s1 h1
        split at h
        · cases h
        · rename_i s2 h2
          injection h with h
          injection h with hp hs
          subst hs
          have e1 : s1.nbits = s.nbits := by
            split at h1
            · exact (flipMerge_ok h1).2.2.2.2.2
            · injection h1 with h1; subst h1; rfl
          have := splitLoop_nbits _ _ _ _ _ h2
          simp [this, e1]

theorem findLevel_none_of_zero {f : List (List Nat)} (h : lvl f 0 ≠ []) : ∀ lv, findLevel f lv ≠ none := by
  intro lv
  induction lv with
  | zero => simp [findLevel, h]
  | succ lv ih =>
    simp only [findLevel]
    split
    · simp
    · exact ih

/-- under the invariant, `allocateMultiplePages(n)` either succeeds or panics with "not enough memory
available", the latter exactly when the request exceeds the device or no level `≤ level` has a free block -/
theorem allocMulti_total {F : Nat} {s : State} {out : List Nat} (n : Nat) (hI : Inv F s out)
    (hnb : s.nbits = 64 * (2 ^ F / 64 + 1)) :
    (∃ ps s', allocMultiPos s n = .ok (ps, s')) ∨
    (allocMultiPos s n = .error .oom ∧ (F < ordOf (n * 4096) ∨ findLevel s.free (F - ordOf (n * 4096)) = none)) := by
  have hlen : s.free.length - 1 = F := by rw [hI.hlen]; omega
  unfold allocMultiPos
  simp only [hlen]
  by_cases hord : F < ordOf (n * 4096)
  · right; simp [hord]
  · rw [if_neg hord]
    cases hfind : findLevel s.free (F - ordOf (n * 4096)) with
    | none => right; simp
    | some i =>
      left
      simp only []
      obtain ⟨hile, hne⟩ := findLevel_some hfind
      obtain ⟨blk, rest, hbr⟩ := List.exists_cons_of_ne_nil hne
      have hmem : blk ∈ lvl s.free i := by rw [hbr]; exact List.mem_cons_self
      obtain ⟨hb1, hb2, -⟩ := hI.blk i blk hmem
      have hsz := hI.hsize
      rw [hsz] at hb2
      have hiF : i ≤ F := by omega
      have hidx : ∀ j, j < F → indexOfBlock s.base s.size blk j < s.nbits := by
        intro j hj
        rw [hsz, hnb]
        exact index_lt hj hiF hb1 hb2
      rw [hbr]
      simp only [List.headD_cons, List.tail_cons]
      have hm : ∃ s1 : State, (if 0 < i then
            flipMerge { s with free := setLvl s.free i rest } (indexOfBlock s.base s.size blk (i - 1))
          else Except.ok { s with free := setLvl s.free i rest }) = .ok s1 ∧
          s1.base = s.base ∧ s1.size = s.size ∧ s1.nbits = s.nbits := by
        split
        · rename_i hc
          have hlt := hidx (i - 1) (by omega)
          refine ⟨{ s with free := setLvl s.free i rest,
                           merge := toggle s.merge (indexOfBlock s.base s.size blk (i - 1)) }, ?_, rfl, rfl, rfl⟩
          simp [flipMerge, hlt]
        · exact ⟨_, rfl, rfl, rfl, rfl⟩
      obtain ⟨s1, e1, b1, z1, n1⟩ := hm
      rw [e1]
      simp only []
      obtain ⟨s2, e2⟩ := splitLoop_total blk (F - ordOf (n * 4096) - i) i s1 (by
        intro j h1 h2
        rw [b1, z1, n1]
        exact hidx j (by omega))
      rw [e2]
      exact ⟨_, _, rfl⟩

/-- `Inv` plus the size of the bit fields -/
def Inv2 (F : Nat) (s : State) (out : List Nat) : Prop := Inv F s out ∧ s.nbits = 64 * (2 ^ F / 64 + 1)

theorem inv2_init (F base : Nat) : Inv2 F (init base (4096 * 2 ^ F)) [] :=
  ⟨inv_init F base, by simp [init, ordOf_pow]⟩

theorem Inv.inDev {F : Nat} {s : State} {out : List Nat} (hI : Inv F s out) {p : Nat} (hp : p ∈ out) : inDev s p = true := by
  obtain ⟨k, rfl, hk⟩ := hI.outIn p hp
  simp only [C10.Buddy.inDev, hI.hsize, Bool.and_eq_true, decide_eq_true_eq]
  omega

theorem popOne_cases {F : Nat} {s : State} {out : List Nat} (hI : Inv2 F s out) :
    (∃ p s', popOne s = .ok (p, s') ∧ Inv2 F s' (out ++ [p])) ∨ popOne s = .error .oom := by
  cases hp : popOne s with
  | ok r =>
    left
    obtain ⟨p, s'⟩ := r
    refine ⟨p, s', rfl, (inv_popOne hI.1 hp).1, ?_⟩
    unfold popOne at hp
    rw [allocMulti_pos s (by decide)] at hp
    split at hp
    · cases hp
    · split at hp
      · cases hp
      · rename_i ps s1 ha
        simp only [] at hp
        split at hp
        · injection hp with hp
          injection hp with h1 h2
          subst h2
          rw [allocMulti_nbits ha]; exact hI.2
        · cases hp
  | error e =>
    right
    unfold popOne at hp
    rw [allocMulti_pos s (by decide)] at hp
    split at hp
    · exact hp ▸ rfl
    · rcases allocMulti_total 1 hI.1 hI.2 with ⟨ps, s1, ha⟩ | ⟨ha, -⟩
      · rw [ha] at hp
        simp only [] at hp
        obtain ⟨hI', -⟩ := inv_allocMulti hI.1 ha
        obtain ⟨i, level, blk, rest, -, -, -, -, hpages, -⟩ := allocMulti_ok ha (by rw [hI.1.hlen]; omega)
        have hmem : ps.headD 0 ∈ out ++ ps := by
          rw [hpages]; simp [pagesFrom]
        rw [if_pos (hI'.inDev hmem)] at hp
        cases hp
      · rw [ha] at hp
        exact hp ▸ rfl

theorem popN_cases {F : Nat} : ∀ (k : Nat) (s : State) (out : List Nat), Inv2 F s out →
    (∃ ps s', popN k s = .ok (ps, s') ∧ Inv2 F s' (out ++ ps)) ∨ popN k s = .error .oom := by
  intro k
  induction k with
  | zero => intro s out hI; left; exact ⟨[], s, rfl, by simpa using hI⟩
  | succ k ih =>
    intro s out hI
    simp only [popN]
    rcases popOne_cases hI with ⟨p, s1, h1, hI1⟩ | h1
    · rw [h1]
      simp only []
      rcases ih s1 _ hI1 with ⟨ps, s2, h2, hI2⟩ | h2
      · left
        rw [h2]
        refine ⟨_, _, rfl, ?_⟩
        simpa [List.append_assoc] using hI2
      · right; rw [h2]
    · right; rw [h1]

theorem amOp_cases {F : Nat} {s : State} {out : List Nat} (n : Nat) (hI : Inv2 F s out) :
    (∃ ps s', amOp s n = .ok (ps, s') ∧ Inv2 F s' (out ++ ps)) ∨ amOp s n = .error .oom := by
  by_cases hn0 : n = 0
  · subst hn0
    rw [amOp_zero]
    split
    · right; rfl
    · left; exact ⟨[], s, rfl, by simpa using hI⟩
  unfold amOp
  rw [allocMulti_pos s hn0]
  split
  · right; rfl
  · rcases allocMulti_total n hI.1 hI.2 with ⟨ps, s1, ha⟩ | ⟨ha, -⟩
    · left
      rw [ha]
      simp only []
      obtain ⟨hI', -⟩ := inv_allocMulti hI.1 ha
      have hall : ps.all (inDev s1) = true := by
        rw [List.all_eq_true]
        intro p hp
        exact hI'.inDev (List.mem_append_right _ hp)
      rw [if_pos hall]
      exact ⟨_, _, rfl, hI', by rw [allocMulti_nbits ha]; exact hI.2⟩
    · right; rw [ha]

theorem runFault_allocOnly {F : Nat} : ∀ (ops : List Op) (s : State) (out : List Nat), ops.all Op.isAlloc = true →
    Inv2 F s out → ∀ e, runFault s ops = some e → e = .oom := by
  intro ops
  induction ops with
  | nil => intro s out _ _ e h; simp [runFault] at h
  | cons op ops ih =>
    intro s out hall hI e h
    simp only [List.all_cons, Bool.and_eq_true] at hall
    simp only [runFault] at h
    have hc : (∃ ps s', step s op = .ok (ps, s') ∧ Inv2 F s' (out ++ ps)) ∨ step s op = .error .oom := by
      cases op with
      | pop k => exact popN_cases k s out hI
      | am n => exact amOp_cases n hI
      | add l => simp [Op.isAlloc] at hall
    rcases hc with ⟨ps, s1, h1, hI1⟩ | h1
    · rw [h1] at h
      exact ih s1 _ hall.2 hI1 e h
    · rw [h1] at h
      injection h with h
      exact h.symm

theorem ordGo_le (b F : Nat) (hb : b ≤ 4096 * 2 ^ F) : ∀ f k, k ≤ F → ordGo b f k ≤ F := by
  intro f
  induction f with
  | zero => intro k h; simpa [ordGo] using h
  | succ f ih =>
    intro k h
    unfold ordGo
    split
    · exact h
    · rename_i hn
      have : k ≠ F := by intro e; subst e; exact hn hb
      exact ih (k + 1) (by omega)

theorem ordOf_le {b F : Nat} (hb : b ≤ 4096 * 2 ^ F) : ordOf b ≤ F := ordGo_le b F hb _ 0 (Nat.zero_le _)

theorem init_lvl_mem {base size l a : Nat} (ha : a ∈ lvl (init base size).free l) : l = 0 ∧ a = base := by
  simp only [init, lvl, List.getD_eq_getElem?_getD] at ha
  cases l with
  | zero => simp at ha; exact ⟨rfl, ha⟩
  | succ l =>
    simp only [List.getElem?_cons_succ, List.getElem?_replicate] at ha
    split at ha <;> simp at ha

/-- a fresh device serves any request that fits, from its first page on -/
theorem amOp_fresh (F base n : Nat) (hn : n * 4096 ≤ 4096 * 2 ^ F) :
    ∃ s', amOp (init base (4096 * 2 ^ F)) n = .ok (pagesFrom base n, s') := by
  have hI := inv2_init F base
  have hna : noAvail (init base (4096 * 2 ^ F)) = false := by simp [noAvail, init]
  by_cases hn0 : n = 0
  · subst hn0
    rw [amOp_zero, hna]
    exact ⟨_, rfl⟩
  unfold amOp
  rw [allocMulti_pos _ hn0]
  rw [hna]
  simp only [Bool.false_eq_true, if_false]
  rcases allocMulti_total n hI.1 hI.2 with ⟨ps, s1, ha⟩ | ⟨-, hc⟩
  · rw [ha]
    simp only []
    obtain ⟨hI', -⟩ := inv_allocMulti hI.1 ha
    obtain ⟨i, level, blk, rest, -, -, -, hbr, hpages, -⟩ := allocMulti_ok ha (by rw [hI.1.hlen]; omega)
    have hmem : blk ∈ lvl (init base (4096 * 2 ^ F)).free i := by rw [hbr]; exact List.mem_cons_self
    obtain ⟨-, rfl⟩ := init_lvl_mem hmem
    have hall : ps.all (inDev s1) = true := by
      rw [List.all_eq_true]
      intro p hp
      exact hI'.inDev (List.mem_append_right _ hp)
    rw [if_pos hall, hpages]
    exact ⟨_, rfl⟩
  · exfalso
    rcases hc with hc | hc
    · have := ordOf_le hn; omega
    · exact findLevel_none_of_zero (by simp [init, lvl]) _ hc

end C10.Buddy
