import MgpuProofs.C17WLive2
/-! C17, liveness for every width, part 3: the run-level statement for the oldest request of a bank. -/
namespace C17
open WLive WBnd

/-- the port takes every response bank `k` offers in the tick that starts in `s`: after `finalizeBanks` the bank holds no
committed-but-unanswered request (the only way the `finalizeSingle` loop is stopped by a full port) -/
def acceptsW (c : Cfg) (s : WState) (k : Nat) : Bool := match (finalizeW c s).st.banks[k]? with
  | some b => !hasC b
  | none => true

/-- ticks of `ops` (run from `s`) in which the port took every response bank `k` offered -/
def acceptingTicksW (c : Cfg) (k : Nat) : WState → List Op → Nat
  | _, [] => 0
  | s, .tick :: ops => (if acceptsW c s k = true then 1 else 0) + acceptingTicksW c k (tickW c s) ops
  | s, op :: ops => acceptingTicksW c k (stepW c s op) ops

/-- no tick of the continuation panics (short mask, storage capacity, address converter) -/
def noPanicW (c : Cfg) : WState → List Op → Bool
  | _, [] => true
  | s, .tick :: ops => (tickFlagsW c s).2.isNone && noPanicW c (tickW c s) ops
  | s, op :: ops => noPanicW c (stepW c s op) ops

/-- `inOrder[0]` of bank `k` -/
def oldestW (s : WState) (k : Nat) : Option Req := match s.banks[k]? with
  | some b => b.order.head?
  | none => none

/-- the measure of bank `k`'s oldest request -/
def headPotW (c : Cfg) (s : WState) (k : Nat) : Nat := match s.banks[k]? with
  | some b => headPot c b
  | none => 0

namespace WLive

theorem headPot_pos (c : Cfg) (b : WBank) (o : Req) (os : List Req) (ho : b.order = o :: os) : 1 ≤ headPot c b := by
  unfold headPot
  rw [ho]
  dsimp only
  split <;> omega

theorem tickW_resp (c : Cfg) (s : WState) : (tickW c s).resp = (finalizeW c s).st.resp := by
  unfold tickW
  simp only
  split
  · rfl
  · split <;> rfl

theorem stepW_resp_mono (c : Cfg) (s : WState) (op : Op) (h : InvW c s) :
    ∀ r ∈ s.resp.map (·.req), r ∈ (stepW c s op).resp.map (·.req) := by
  intro r hr
  cases op with
  | deliver kd a l d m =>
    simp only [stepW, deliverW]
    split <;> exact hr
  | tick =>
    simp only [stepW]
    rw [tickW_resp]
    exact finFromW_resp_mono c _ s false h r hr
  | out n => exact hr

/-- one tick, seen from the oldest request `o` of bank `k`: it is answered, or it is still the oldest and the measure
went down by one if the port accepted (in fact also if it did not, while `o` is in the pipeline) -/
theorem tick_oldest (c : Cfg) (hd0 : 0 < c.depth) (hp0 : 0 < c.post) (s : WState) (h : InvW c s)
    (hg : AllGood c s.banks) (k : Nat) (o : Req) (ho : oldestW s k = some o) (hnf : (tickFlagsW c s).2 = none) :
    o ∈ (tickW c s).resp.map (·.req) ∨
    (oldestW (tickW c s) k = some o ∧
      headPotW c (tickW c s) k + (if acceptsW c s k = true then 1 else 0) ≤ headPotW c s k) := by
  unfold oldestW at ho
  cases hb : s.banks[k]? with
  | none => rw [hb] at ho; cases ho
  | some b =>
    rw [hb] at ho
    dsimp only at ho
    cases hord : b.order with
    | nil => rw [hord] at ho; cases ho
    | cons o' os =>
      rw [hord] at ho
      simp only [List.head?_cons, Option.some.injEq] at ho
      subst ho
      have hmem := List.mem_of_getElem? hb
      have hgb : Good c b := hg b hmem
      have hcore := (h.ok b hmem).core
      have hnd : b.order.Nodup := (List.nodup_append.1 (orderW_nodup c s h k b hb)).1
      obtain ⟨F, b3, ⟨⟨log, out, resp, pg, hFeq⟩, hFf, hFr⟩, hget, hacc, hb3⟩ := tickW_bank c s h k b hb hnf
      have hpot0 : headPotW c s k = headPot c b := by unfold headPotW; rw [hb]
      have hpot3 : headPotW c (tickW c s) k = headPot c b3 := by unfold headPotW; rw [hb3]
      have hold3 : oldestW (tickW c s) k = b3.order.head? := by unfold oldestW; rw [hb3]
      have hacs : acceptsW c s k = !hasC F.bank := by unfold acceptsW; rw [hget]
      have hgF : Good c F.bank := by rw [hFeq]; exact finalizeBankW_good c _ b log out resp pg hgb
      by_cases hout : outOfPipe b o'
      · -- in the post buffer or set aside
        by_cases hsame : F.bank.order = o' :: os
        · right
          have hout1 : outOfPipe F.bank o' := by
            rw [hFeq] at hsame ⊢
            exact fin_stays_out c _ b log out resp pg o' os hord hout hsame
          obtain ⟨a1, _, a3⟩ := headPot_stays c hd0 F.bank b3 o' os hgF hsame hout1 hacc
          have hrefused : acceptsW c s k = false := by
            cases hx : acceptsW c s k with
            | false => rfl
            | true =>
              exfalso
              rw [hacs] at hx
              have hx' : hasC F.bank = false := by simpa using hx
              rw [hFeq] at hx' hFf hsame
              have := fin_out_of_pipe c _ b log out resp pg o' os hord hout (by omega) hFf hx'
              rw [hsame] at this
              simp only [List.length_cons] at this
              omega
          refine ⟨by rw [hold3, a1], ?_⟩
          rw [hpot3, hpot0, a3, hrefused]
          have := headPot_pos c b o' os hord
          simpa using this
        · left
          have hrel := finalizeBankW_rel c (b.order.length + b.post.length + 1) b log out resp pg hcore hnd
          rw [← hFeq] at hrel
          obtain ⟨cm, done, _, _, e3, e4⟩ := hrel.ex
          rw [tickW_resp]
          have : (tickW c s).resp = (finalizeW c s).st.resp := tickW_resp c s
          rw [this] at hFr
          apply hFr
          rw [e3]
          apply List.mem_append_right
          cases done with
          | nil => rw [hord] at e4; exact absurd (by simpa using e4) hsame
          | cons d ds =>
            rw [hord] at e4
            simp only [List.cons_append, List.cons.injEq] at e4
            rw [e4.1]
            exact List.mem_cons_self
      · -- still in the pipeline: every tick helps
        right
        have hin1 : o' ∉ b.early.map (·.req) := fun x => hout (Or.inr x)
        have hin2 : o' ∉ b.post.map (·.req) := fun x => hout (Or.inl x)
        have hwork : 0 < laneWork c b.lanes := by
          have h1 : o' ∈ (wItems b).map (·.req) := by
            apply hcore.perm.mem_iff.2; rw [hord]; exact List.mem_cons_self
          obtain ⟨it, hit, hreq⟩ := List.mem_map.1 h1
          unfold wItems at hit
          rcases List.mem_append.1 hit with hit | hit
          · rcases List.mem_append.1 hit with hit | hit
            · exact absurd (List.mem_map.2 ⟨it, hit, hreq⟩) hin2
            · exact laneWork_pos c b.lanes it hit
          · exact absurd (List.mem_map.2 ⟨it, hit, hreq⟩) hin1
        have hfu : b.post.length ≤ b.order.length + b.post.length + 1 := by omega
        have hstep : headPot c b3 < headPot c b := by
          rw [hFeq] at hacc
          exact headPot_step c hd0 hp0 b b3 log out resp pg _ o' os hgb hord hout hwork hfu hacc
        obtain ⟨e1, _, _, _, _⟩ := fin_in_pipe c _ b log out resp pg o' os hord hin1 hin2 hfu
        have hg2 := tickBankPipeW_good c _ hgF
        obtain ⟨_, _, _, ⟨t, o3⟩, _, _⟩ := accStar_spec c hd0 hacc hg2
        rw [hFeq, e1] at o3
        simp only [tickBankPipeW] at o3
        refine ⟨by rw [hold3, o3, hord]; rfl, ?_⟩
        rw [hpot3, hpot0]
        split <;> omega

theorem stepW_banks_of_not_tick (c : Cfg) (s : WState) (op : Op) (h : op ≠ .tick) : (stepW c s op).banks = s.banks := by
  cases op with
  | deliver kd a l d m => exact deliverW_banks c s kd a l d m
  | tick => exact absurd rfl h
  | out n => rfl

theorem oldest_fold (c : Cfg) (hd0 : 0 < c.depth) (hp0 : 0 < c.post) (k : Nat) (o : Req) :
    ∀ (ops : List Op) (s : WState), InvW c s → AllGood c s.banks → noPanicW c s ops = true →
    (o ∈ s.resp.map (·.req) ∨ (oldestW s k = some o ∧ headPotW c s k ≤ acceptingTicksW c k s ops)) →
    o ∈ (ops.foldl (stepW c) s).resp.map (·.req) := by
  intro ops
  induction ops with
  | nil =>
    intro s _ _ _ h
    rcases h with h | ⟨h1, h2⟩
    · exact h
    · exfalso
      unfold oldestW at h1
      unfold headPotW at h2
      cases hb : s.banks[k]? with
      | none => rw [hb] at h1; cases h1
      | some b =>
        rw [hb] at h1 h2
        dsimp only at h1 h2
        cases hord : b.order with
        | nil => rw [hord] at h1; cases h1
        | cons o' os =>
          have := headPot_pos c b o' os hord
          simp only [acceptingTicksW] at h2
          omega
  | cons op ops ih =>
    intro s hi hg hnp h
    simp only [List.foldl_cons]
    have hi' := step_invW c s op hi
    have hg' := stepW_good c s op hg
    cases op with
    | tick =>
      simp only [noPanicW, Bool.and_eq_true, Option.isNone_iff_eq_none] at hnp
      apply ih _ hi' hg' hnp.2
      rcases h with h | ⟨h1, h2⟩
      · left; exact stepW_resp_mono c s .tick hi o h
      · rcases tick_oldest c hd0 hp0 s hi hg k o h1 hnp.1 with ht | ⟨t1, t2⟩
        · left; exact ht
        · right
          refine ⟨t1, ?_⟩
          simp only [acceptingTicksW] at h2
          show headPotW c (tickW c s) k ≤ acceptingTicksW c k (tickW c s) ops
          omega
    | deliver kd a l d m =>
      simp only [noPanicW] at hnp
      apply ih _ hi' hg' hnp
      rcases h with h | ⟨h1, h2⟩
      · left; exact stepW_resp_mono c s _ hi o h
      · right
        have hbk := stepW_banks_of_not_tick c s (.deliver kd a l d m) (by simp)
        simp only [acceptingTicksW] at h2
        unfold oldestW headPotW at *
        rw [hbk]
        exact ⟨h1, h2⟩
    | out n =>
      simp only [noPanicW] at hnp
      apply ih _ hi' hg' hnp
      rcases h with h | ⟨h1, h2⟩
      · left; exact stepW_resp_mono c s _ hi o h
      · right
        have hbk := stepW_banks_of_not_tick c s (.out n) (by simp)
        simp only [acceptingTicksW] at h2
        unfold oldestW headPotW at *
        rw [hbk]
        exact ⟨h1, h2⟩

end WLive
end C17
