import MgpuProofs.C07Bytes
/-! # C07 helper lemmas: the flat-cells spec, and windows of a register file seen as cells -/
namespace C07
open Gen

theorem lo32_lt (v : UInt64) : lo32 v < 4294967296 := by unfold lo32; omega
theorem hi32_lt (v : UInt64) : hi32 v < 4294967296 := by unfold hi32; omega

/-! ## chunks -/

theorem flatMap_congr' {α β : Type} {l : List α} {f g : α → List β} (h : ∀ a ∈ l, f a = g a) :
    l.flatMap f = l.flatMap g := by
  induction l with
  | nil => rfl
  | cons x xs ih =>
    simp only [List.flatMap_cons]
    rw [h x (by simp), ih (fun a ha => h a (by simp [ha]))]

theorem chunks_flat (k : Nat) (d : List UInt8) (h : d.length = 4 * k) :
    (List.range k).flatMap (fun j => (d.drop (4 * j)).take 4) = d := by
  induction k generalizing d with
  | zero => simp at h; simp [h]
  | succ k ih =>
    rw [List.range_succ_eq_map, List.flatMap_cons, List.flatMap_map]
    have h2 : (d.drop 4).length = 4 * k := by simp; omega
    have := ih (d.drop 4) h2
    simp only [Nat.mul_zero, List.drop_zero]
    have e : (fun j => List.take 4 (List.drop (4 * (j + 1)) d)) = fun j => List.take 4 (List.drop (4 * j) (List.drop 4 d)) := by
      funext j; rw [List.drop_drop]; congr 2; omega
    show List.take 4 d ++ List.flatMap (fun j => List.take 4 (List.drop (4 * (j + 1)) d)) (List.range k) = d
    rw [e, this, List.take_append_drop]

theorem rd_chunks (f : File) (p k : Nat) :
    rd f p (4 * k) = (List.range k).flatMap (fun j => rd f (p + 4 * j) 4) := by
  induction k with
  | zero => rfl
  | succ k ih =>
    rw [show 4 * (k + 1) = 4 * k + 4 by omega, rd_add, ih, List.range_succ, List.flatMap_append]
    simp

/-! ## a window of a register file seen as registers -/

/-- `n` registers starting at byte `base` of a file -/
def winCells (f : File) (base n : Nat) : Nat → Nat :=
  fun i => if i < n then leNat (rd f (base + 4 * i) 4) else 0

theorem rd_window (f : File) (base n i k : Nat) (h : i + k ≤ n) :
    rd f (base + 4 * i) (4 * k) = regsBytes (winCells f base n) i k := by
  rw [rd_chunks, regsBytes]
  apply flatMap_congr'
  intro j hj
  have hj := List.mem_range.mp hj
  have : i + j < n := by omega
  simp only [winCells, this, if_true]
  rw [toLE_leNat' _ (rd_length _ _ _)]
  congr 1; omega

theorem win_wr (f : File) (base n i k : Nat) (d : List UInt8) (h : i + k ≤ n) (hd : d.length = 4 * k)
    (hs : base + 4 * n ≤ f.size) :
    winCells (wr f (base + 4 * i) d) base n = updRegs (winCells f base n) i k d := by
  funext j
  simp only [winCells, updRegs]
  by_cases hj : j < n
  · simp only [hj, if_true]
    by_cases hin : i ≤ j ∧ j < i + k
    · simp only [hin, and_self, if_true]
      rw [rd_wr_sub _ _ _ _ _ (by omega) (by omega) (by omega)]
      congr 3; omega
    · simp only [hin, if_false]
      rw [rd_wr_disjoint _ _ _ _ _ (by omega)]
  · have : ¬ (i ≤ j ∧ j < i + k) := by omega
    simp [hj, this]

theorem win_wr_disjoint (f : File) (base n off : Nat) (d : List UInt8)
    (h : base + 4 * n ≤ off ∨ off + d.length ≤ base) :
    winCells (wr f off d) base n = winCells f base n := by
  funext j
  simp only [winCells]
  by_cases hj : j < n
  · simp only [hj, if_true]
    rw [rd_wr_disjoint _ _ _ _ _ (by omega)]
  · simp [hj]

/-- the registers of all 64 lanes of a wavefront whose window starts at `voff` in every lane row -/
def laneCells (f : File) (voff nv : Nat) : Nat → Nat → Nat :=
  fun l => if l < 64 then winCells f (voff + 1024 * l) nv else fun _ => 0

theorem lane_wr (f : File) (voff nv l i k : Nat) (d : List UInt8) (hl : l < 64) (h : i + k ≤ nv)
    (hd : d.length = 4 * k) (hrow : voff + 4 * nv ≤ 1024) (hs : 65536 ≤ f.size) :
    laneCells (wr f (voff + 1024 * l + 4 * i) d) voff nv =
      fun l' => if l' = l then updRegs (laneCells f voff nv l') i k d else laneCells f voff nv l' := by
  funext l'
  simp only [laneCells]
  by_cases hl' : l' < 64
  · simp only [hl', if_true]
    by_cases e : l' = l
    · subst e
      simp only [if_true]
      exact win_wr f (voff + 1024 * l') nv i k d h hd (by omega)
    · simp only [e, if_false]
      exact win_wr_disjoint _ _ _ _ _ (by omega)
  · have : l' ≠ l := by omega
    simp [hl', this]

theorem lane_wr_disjoint (f : File) (voff nv voff' nv' l i : Nat) (d : List UInt8)
    (hin : 4 * i + d.length ≤ 4 * nv) (hrow : voff + 4 * nv ≤ 1024) (hrow' : voff' + 4 * nv' ≤ 1024)
    (hdis : voff + 4 * nv ≤ voff' ∨ voff' + 4 * nv' ≤ voff) :
    laneCells (wr f (voff + 1024 * l + 4 * i) d) voff' nv' = laneCells f voff' nv' := by
  funext l'
  simp only [laneCells]
  by_cases hl' : l' < 64
  · simp only [hl', if_true]
    exact win_wr_disjoint _ _ _ _ _ (by omega)
  · simp [hl']

/-! ## the spec itself -/

/-- bytes of one cell -/
def Cells.cellBytes (c : Cells) (id : CellId) : List UInt8 :=
  match id with
  | .scc => [c.scc]
  | id => toLE 4 (c.cell id)

theorem regsBytes_updRegs (g : Nat → Nat) (i k : Nat) (d : List UInt8) (hd : d.length = 4 * k) :
    regsBytes (updRegs g i k d) i k = d := by
  rw [regsBytes]
  have : ∀ j ∈ List.range k, toLE 4 (updRegs g i k d (i + j)) = (d.drop (4 * j)).take 4 := by
    intro j hj
    have hj := List.mem_range.mp hj
    have hin : i ≤ i + j ∧ i + j < i + k := by omega
    simp only [updRegs, hin, and_self, if_true, Nat.add_sub_cancel_left]
    apply toLE_leNat'
    simp; omega
  rw [flatMap_congr' this, chunks_flat k d hd]

end C07
