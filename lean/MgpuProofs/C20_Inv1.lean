import MgpuProofs.C20_InvDefs
/-! # C20 — the accounting invariant `Inv1` is inductive -/
namespace C20

variable {α : Type}

/-! ## counting a list of indices below `n` -/

/-- `Σ_{j<n} l.count j` -/
def csum (l : List Nat) : Nat → Nat
  | 0 => 0
  | n + 1 => csum l n + l.count n

theorem csum_nil (n : Nat) : csum [] n = 0 := by
  induction n with
  | zero => rfl
  | succ n ih => simp [csum, ih]

theorem csum_cons (x : Nat) (l : List Nat) (n : Nat) :
    csum (x :: l) n = csum l n + if x < n then 1 else 0 := by
  induction n with
  | zero => simp [csum]
  | succ n ih =>
    simp only [csum, ih, List.count_cons]
    by_cases h1 : x < n
    · have h2 : ¬ (x == n) = true := by simp; omega
      have h3 : x < n + 1 := by omega
      rw [if_pos h1, if_neg h2, if_pos h3]; omega
    · by_cases h2 : x = n
      · have h2' : (x == n) = true := by simp [h2]
        have h3 : x < n + 1 := by omega
        rw [if_neg h1, if_pos h2', if_pos h3]; omega
      · have h2' : ¬ (x == n) = true := by simp; omega
        have h3 : ¬ x < n + 1 := by omega
        rw [if_neg h1, if_neg h2', if_neg h3]; omega

theorem length_eq_csum (l : List Nat) (n : Nat) (h : ∀ x ∈ l, x < n) : l.length = csum l n := by
  induction l with
  | nil => rw [csum_nil]; rfl
  | cons x l ih =>
    rw [csum_cons, if_pos (h x (List.mem_cons_self ..)), List.length_cons,
      ih (fun y hy => h y (List.mem_cons_of_mem _ hy))]

theorem csum_le (l : List Nat) (n : Nat) (h : ∀ j, j < n → l.count j ≤ 1) : csum l n ≤ n := by
  induction n with
  | zero => simp [csum]
  | succ n ih =>
    have := ih (fun j hj => h j (by omega))
    have := h n (by omega)
    simp only [csum]; omega

theorem csum_eq (l : List Nat) (n : Nat) (h : ∀ j, j < n → l.count j = 1) : csum l n = n := by
  induction n with
  | zero => simp [csum]
  | succ n ih =>
    have := ih (fun j hj => h j (by omega))
    have := h n (by omega)
    simp only [csum]; omega

theorem csum_lt (l : List Nat) (n j0 : Nat) (hj0 : j0 < n) (h0 : l.count j0 = 0)
    (h : ∀ j, j < n → l.count j ≤ 1) : csum l n + 1 ≤ n := by
  induction n with
  | zero => omega
  | succ n ih =>
    simp only [csum]
    by_cases e : j0 = n
    · subst e
      have := csum_le l j0 (fun j hj => h j (by omega))
      omega
    · have := ih (by omega) (fun j hj => h j (by omega))
      have := h n (by omega)
      omega

/-- a free list that contains every child exactly once has full length -/
theorem free_full {α} (l : Level α) (n : Nat) (hlt : ∀ j ∈ l.free, j < n)
    (h : ∀ j, j < n → l.free.count j = 1) : l.free.length = n := by
  rw [length_eq_csum _ n hlt, csum_eq _ n h]

/-! ## `LInv1` is preserved by every level operation -/

theorem LInv1.congr {l : Level α} {n : Nat} {b b' : Nat → Nat} (hb : ∀ j, j < n → b' j = b j)
    (h : LInv1 l n b) : LInv1 l n b' :=
  ⟨h.hn, fun j hj => (occ_congr l (hb j hj)).trans (h.occ1 j hj), h.counted, h.freeLt, h.outLt, h.inLt⟩

/-- the parent-side fields agree -/
structure ParSame (l l' : Level α) : Prop where
  n : l'.n = l.n
  undisp : l'.undisp = l.undisp
  unfin : l'.unfin = l.unfin
  free : l'.free = l.free
  pOut : l'.pOut = l.pOut
  pIn : l'.pIn = l.pIn

theorem ParSame.refl (l : Level α) : ParSame l l := ⟨rfl, rfl, rfl, rfl, rfl, rfl⟩

theorem ParSame.trans {a b c : Level α} (h1 : ParSame a b) (h2 : ParSame b c) : ParSame a c :=
  ⟨h2.n.trans h1.n, h2.undisp.trans h1.undisp, h2.unfin.trans h1.unfin, h2.free.trans h1.free,
    h2.pOut.trans h1.pOut, h2.pIn.trans h1.pIn⟩

theorem parSame_childSend {l l' : Level α} {i : Nat} (h : l.childSend i = some l') : ParSame l l' := by
  unfold Level.childSend at h
  simp only at h
  split at h
  · cases h
  · cases h; exact ⟨rfl, rfl, rfl, rfl, rfl, rfl⟩

theorem parSame_childTake {l l' : Level α} {i : Nat} {u : α} {wf : Bool}
    (h : l.childTake i = some (u, l', wf)) : ParSame l l' := by
  unfold Level.childTake at h
  split at h
  · cases h
  · simp only [Option.some.injEq, Prod.mk.injEq] at h
    obtain ⟨_, h, _⟩ := h
    subst h
    exact ⟨rfl, rfl, rfl, rfl, rfl, rfl⟩

theorem LInv1.parSame {l l' : Level α} {n : Nat} {b b' : Nat → Nat} (hs : ParSame l l')
    (hocc : ∀ j, j < n → occ l' b' j = 1) (h : LInv1 l n b) : LInv1 l' n b' :=
  ⟨hs.n.trans h.hn, hocc, by rw [hs.unfin, hs.free, hs.undisp]; exact h.counted,
    by rw [hs.free]; exact h.freeLt, by rw [hs.pOut]; exact h.outLt, by rw [hs.pIn]; exact h.inLt⟩

theorem LInv1.free_count_le {l : Level α} {n : Nat} {b : Nat → Nat} (h : LInv1 l n b) (j : Nat)
    (hj : j < n) : l.free.count j ≤ 1 := by
  have := h.occ1 j hj
  simp only [occ] at this
  omega

theorem dispatch_cases (l : Level α) :
    l.dispatch.1 = l ∨ ∃ f fs u us, l.free = f :: fs ∧ l.undisp = u :: us ∧
      l.dispatch.1 = { l with pOut := l.pOut ++ [(f, u)], connAwake := l.connAwake || l.pOut.isEmpty,
                              free := fs, undisp := us } := by
  unfold Level.dispatch
  split
  · rename_i f fs u us hf hu
    split
    · rename_i l' hs
      unfold Level.send at hs
      split at hs
      · cases hs
      · cases hs
        right
        exact ⟨f, fs, u, us, hf, hu, rfl⟩
    · left; rfl
  · left; rfl

theorem dispatch_unfin (l : Level α) : l.dispatch.1.unfin = l.unfin := by
  rcases dispatch_cases l with e | ⟨f, fs, u, us, _, _, e⟩ <;> rw [e]

theorem LInv1.dispatch {l : Level α} {n : Nat} {b : Nat → Nat} (h : LInv1 l n b) :
    LInv1 l.dispatch.1 n b := by
  have hocc : ∀ j, j < n → occ l.dispatch.1 b j = 1 := fun j hj =>
    (occ_dispatch l b j).trans (h.occ1 j hj)
  rcases dispatch_cases l with e | ⟨f, fs, u, us, hf, hu, e⟩
  · rw [e]; exact h
  · rw [e] at hocc ⊢
    have hc := h.counted
    have hfl := h.freeLt
    rw [hf] at hc hfl
    rw [hu] at hc
    refine ⟨h.hn, hocc, ?_, ?_, ?_, h.inLt⟩
    · simp only [List.length_cons] at hc ⊢; omega
    · intro j hj; exact hfl j (List.mem_cons_of_mem _ hj)
    · intro p hp
      simp only [List.mem_append, List.mem_singleton] at hp
      rcases hp with hp | hp
      · exact h.outLt p hp
      · rw [hp]; exact hfl f (List.mem_cons_self ..)

theorem LInv1.addWork {l : Level α} {n : Nat} {b : Nat → Nat} (us : List α) (h : LInv1 l n b) :
    LInv1 { l with undisp := l.undisp ++ us, unfin := l.unfin + us.length } n b := by
  refine ⟨h.hn, h.occ1, ?_, h.freeLt, h.outLt, h.inLt⟩
  have := h.counted
  simp only [List.length_append]; omega

theorem LInv1.unfin_pos {l : Level α} {n : Nat} {b : Nat → Nat} (h : LInv1 l n b)
    (hp : l.pIn ≠ []) : 1 ≤ l.unfin := by
  cases hpi : l.pIn with
  | nil => exact absurd hpi hp
  | cons j rest =>
    have hj : j < n := h.inLt j (by rw [hpi]; exact List.mem_cons_self ..)
    have ho := h.occ1 j hj
    simp only [occ, hpi, List.count_cons_self] at ho
    have h0 : l.free.count j = 0 := by omega
    have hlen := length_eq_csum l.free n h.freeLt
    have := csum_lt l.free n j hj h0 (fun k hk => h.free_count_le k hk)
    have := h.counted
    omega

theorem procUp_nil {l : Level α} (h : l.pIn = []) : l.procUp = (l, false, false, false) := by
  simp only [Level.procUp, h]

theorem procUp_cons {l : Level α} {j : Nat} {rest : List Nat} (h : l.pIn = j :: rest) :
    l.procUp = ({ l with pIn := rest, free := l.free ++ [j], unfin := l.unfin - 1,
                         connAwake := l.connAwake || decide (cap ≤ rest.length + 1) }, true,
                  l.unfin - 1 == 0, decide (cap ≤ rest.length + 1)) := by
  simp only [Level.procUp, h]

theorem LInv1.procUp {l : Level α} {n : Nat} {b : Nat → Nat} (h : LInv1 l n b) :
    LInv1 l.procUp.1 n b := by
  have hocc : ∀ j, j < n → occ l.procUp.1 b j = 1 := fun j hj =>
    (occ_procUp l b j).trans (h.occ1 j hj)
  cases hpi : l.pIn with
  | nil => rw [procUp_nil hpi]; exact h
  | cons j rest =>
    have hpos := h.unfin_pos (by rw [hpi]; exact List.cons_ne_nil _ _)
    have hin := h.inLt
    rw [hpi] at hin
    rw [procUp_cons hpi] at hocc ⊢
    refine ⟨h.hn, hocc, ?_, ?_, h.outLt, ?_⟩
    · have := h.counted
      simp only [List.length_append, List.length_singleton]; omega
    · intro k hk
      simp only [List.mem_append, List.mem_singleton] at hk
      rcases hk with hk | hk
      · exact h.freeLt k hk
      · rw [hk]; exact hin j (List.mem_cons_self ..)
    · intro k hk; exact hin k (List.mem_cons_of_mem _ hk)

/-- at the zero crossing of `unfin` the completion counter takes over: `parBusy` is unchanged -/
theorem parBusy_procUp {l : Level α} (hpos : l.pIn ≠ [] → 1 ≤ l.unfin) (fin : Nat) :
    parBusy l.procUp.1.unfin (if (l.procUp.2.1 && l.procUp.2.2.1) = true then fin + 1 else fin)
      = parBusy l.unfin fin := by
  cases hpi : l.pIn with
  | nil => rw [procUp_nil hpi]; simp
  | cons j rest =>
    have := hpos (by rw [hpi]; exact List.cons_ne_nil _ _)
    rw [procUp_cons hpi]
    simp only [parBusy, Bool.true_and, beq_iff_eq]
    by_cases h0 : l.unfin - 1 = 0
    · have : ¬ l.unfin = 0 := by omega
      simp [h0, this]; omega
    · have : ¬ l.unfin = 0 := by omega
      simp [h0, this]

/-! ### connection tick -/

theorem connFold_induct' (l : Level α) (P : Level.ConnOut α → Prop) (h0 : P { l := l })
    (hs : ∀ o p, p ≤ l.n → P o → P (Level.fwdPort o p)) : P (connFold l) := by
  unfold connFold
  generalize List.range (l.n + 1) = ps
  generalize ({ l := l } : Level.ConnOut α) = o at h0
  induction ps generalizing o with
  | nil => exact h0
  | cons p ps ih =>
    refine ih _ (hs _ _ ?_ h0)
    exact Nat.le_of_lt_succ (Nat.mod_lt (p + l.rr) (Nat.succ_pos l.n))

theorem fwdDown_subset (pOut : List (Nat × α)) (cIn : List (List α)) :
    ∀ x ∈ (Level.fwdDown pOut cIn).1, x ∈ pOut := by
  induction pOut generalizing cIn with
  | nil => intro x hx; simp [Level.fwdDown] at hx
  | cons p rest ih =>
    obtain ⟨i, u⟩ := p
    unfold Level.fwdDown
    simp only
    split
    · intro x hx; exact hx
    · intro x hx; exact List.mem_cons_of_mem _ (ih _ x hx)

theorem LInv1.connTick {l : Level α} {n : Nat} {b : Nat → Nat} (h : LInv1 l n b) :
    LInv1 l.connTick.l n b := by
  have hpf := connTick_parent_fields l
  have hocc : ∀ j, j < n → occ l.connTick.l b j = 1 := fun j hj =>
    (occ_connTick l b j).trans (h.occ1 j hj)
  have hio : (∀ p ∈ l.connTick.l.pOut, p.1 < n) ∧ (∀ j ∈ l.connTick.l.pIn, j < n) := by
    rw [connTick_eq]
    refine connFold_induct' l (fun o => (∀ p ∈ o.l.pOut, p.1 < n) ∧ (∀ j ∈ o.l.pIn, j < n))
      ⟨h.outLt, h.inLt⟩ ?_
    intro o p hp ⟨h1, h2⟩
    cases p with
    | zero =>
      exact ⟨fun x hx => h1 x (fwdDown_subset _ _ x hx), h2⟩
    | succ k =>
      refine ⟨h1, ?_⟩
      intro j hj
      simp only [Level.fwdPort, List.mem_append, List.mem_replicate] at hj
      rcases hj with hj | ⟨_, hj⟩
      · exact h2 j hj
      · rw [hj, ← h.hn]; omega
  refine ⟨hpf.1.trans h.hn, hocc, ?_, ?_, hio.1, hio.2⟩
  · rw [hpf.2.2.1, hpf.2.2.2, hpf.2.1]; exact h.counted
  · rw [hpf.2.2.2]; exact h.freeLt

/-! ## one tick of a GPU / SM seen from the layer above it (generic) -/

theorem parBusy_succ (u f : Nat) : parBusy u f + 1 = parBusy u (f + 1) := by
  simp only [parBusy]; omega

theorem parBusy_eq_zero {u f : Nat} (h : parBusy u f = 0) : u = 0 ∧ f = 0 := by
  simp only [parBusy] at h
  by_cases h0 : u = 0
  · simp [h0] at h; exact ⟨h0, h⟩
  · simp [h0] at h

theorem parBusy_accept {β : Type} (k : List β) :
    parBusy (0 + k.length) (if k.isEmpty = true then 0 + 1 else 0) = 1 := by
  cases k <;> simp [parBusy]

/-- report a completion, (the own dispatch), accept a unit, process the children's completions:
    the layer above keeps its accounting -/
theorem child_acct {β : Type} {L L1 L' : Level (List β)} {M Md M2 : Level β}
    {i fin fin1 fin2 fin3 n : Nat} {b b' : Nat → Nat}
    (hr : (L1 = L ∧ fin1 = fin) ∨ (L.childSend i = some L1 ∧ fin1 + 1 = fin))
    (ht : (L' = L1 ∧ M2 = Md ∧ fin2 = fin1) ∨
          (∃ k wf, L1.childTake i = some (k, L', wf) ∧
             M2 = { Md with undisp := Md.undisp ++ k, unfin := Md.unfin + k.length } ∧
             fin2 = if k.isEmpty = true then fin1 + 1 else fin1))
    (hMd : Md.unfin = M.unfin)
    (hM2 : M2.pIn ≠ [] → 1 ≤ M2.unfin)
    (hfin3 : fin3 = if (M2.procUp.2.1 && M2.procUp.2.2.1) = true then fin2 + 1 else fin2)
    (hb : b i = parBusy M.unfin fin)
    (hb' : b' i = parBusy M2.procUp.1.unfin fin3)
    (hbo : ∀ j, j < n → j ≠ i → b' j = b j)
    (hL : LInv1 L n b) : LInv1 L' n b' := by
  have hb'2 : b' i = parBusy M2.unfin fin2 := by rw [hb', hfin3, parBusy_procUp hM2]
  have hs1 : ParSame L L1 := by
    rcases hr with ⟨e, _⟩ | ⟨e, _⟩
    · rw [e]; exact ParSame.refl _
    · exact parSame_childSend e
  have hs2 : ParSame L1 L' := by
    rcases ht with ⟨e, _, _⟩ | ⟨k, wf, e, _, _⟩
    · rw [e]; exact ParSame.refl _
    · exact parSame_childTake e
  refine hL.parSame (hs1.trans hs2) ?_
  intro j hj
  have h1 : occ L1 (fun j => if j = i then parBusy M.unfin fin1 else b j) j = 1 := by
    rw [← hL.occ1 j hj]
    rcases hr with ⟨e, e2⟩ | ⟨e, e2⟩
    · rw [e]
      apply occ_congr
      by_cases hji : j = i
      · simp only [hji, if_true, e2, hb]
      · simp only [hji, if_false]
    · apply occ_childSend e
      by_cases hji : j = i
      · simp only [hji, if_true, hb, ← e2, parBusy_succ]
      · simp only [hji, if_false, Nat.add_zero]
  rcases ht with ⟨e, eM, ef⟩ | ⟨k, wf, e, eM, ef⟩
  · rw [e, ← h1]
    apply occ_congr
    by_cases hji : j = i
    · simp only [hji, if_true, hb'2, eM, ef, hMd]
    · simp only [hji, if_false, hbo j hj hji]
  · rw [← h1]
    apply occ_childTake e
    by_cases hji : j = i
    · subst hji
      have hlen := childTake_some_len e
      have hge := occ_ge L1 (fun k => if k = j then parBusy M.unfin fin1 else b k) j
      simp only [if_true] at hge ⊢
      have hz := parBusy_eq_zero (u := M.unfin) (f := fin1) (by omega)
      rw [hb'2, eM, ef, hMd, hz.1, hz.2]
      simp only [parBusy_accept]
      simp [parBusy]
    · simp only [hji, if_false, hbo j hj hji, Nat.add_zero]

theorem child_parSame {β : Type} {L L1 L' : Level (List β)} {M2 Md : Level β} {i fin fin1 fin2 : Nat}
    (hr : (L1 = L ∧ fin1 = fin) ∨ (L.childSend i = some L1 ∧ fin1 + 1 = fin))
    (ht : (L' = L1 ∧ M2 = Md ∧ fin2 = fin1) ∨
          (∃ k wf, L1.childTake i = some (k, L', wf) ∧
             M2 = { Md with undisp := Md.undisp ++ k, unfin := Md.unfin + k.length } ∧
             fin2 = if k.isEmpty = true then fin1 + 1 else fin1)) : ParSame L L' := by
  have hs1 : ParSame L L1 := by
    rcases hr with ⟨e, _⟩ | ⟨e, _⟩
    · rw [e]; exact ParSame.refl _
    · exact parSame_childSend e
  have hs2 : ParSame L1 L' := by
    rcases ht with ⟨e, _, _⟩ | ⟨k, wf, e, _, _⟩
    · rw [e]; exact ParSame.refl _
    · exact parSame_childTake e
  exact hs1.trans hs2

/-! ## framing: waking components changes no accounting -/

structure Frame1 (a b : Sys) : Prop where
  l0 : b.l0 = a.l0
  l1 : b.l1 = a.l1
  l2 : b.l2 = a.l2
  G : b.G = a.G
  S : b.S = a.S
  C : b.C = a.C
  gfin : ∀ k, (get b.gpus k).fin = (get a.gpus k).fin
  sfin : ∀ k, (get b.sms k).fin = (get a.sms k).fin
  core : ∀ k, (get b.subs k).core = (get a.subs k).core

theorem Frame1.refl (a : Sys) : Frame1 a a := ⟨rfl, rfl, rfl, rfl, rfl, rfl, fun _ => rfl, fun _ => rfl, fun _ => rfl⟩

theorem wakeGpu_fin (s : Sys) (g k : Nat) : (get (wakeGpu s g).gpus k).fin = (get s.gpus k).fin := by
  simp only [wakeGpu, get_upd]
  split
  · rename_i h; subst h; rfl
  · rfl

theorem wakeSm_fin (s : Sys) (g k : Nat) : (get (wakeSm s g).sms k).fin = (get s.sms k).fin := by
  simp only [wakeSm, get_upd]
  split
  · rename_i h; subst h; rfl
  · rfl

theorem Frame1.wakeGpu {a b : Sys} (h : Frame1 a b) (g : Nat) : Frame1 a (wakeGpu b g) :=
  ⟨h.l0, h.l1, h.l2, h.G, h.S, h.C, fun k => (wakeGpu_fin b g k).trans (h.gfin k), h.sfin, h.core⟩

theorem Frame1.wakeSm {a b : Sys} (h : Frame1 a b) (g : Nat) : Frame1 a (wakeSm b g) :=
  ⟨h.l0, h.l1, h.l2, h.G, h.S, h.C, h.gfin, fun k => (wakeSm_fin b g k).trans (h.sfin k), h.core⟩

theorem Frame1.wakeSub {a b : Sys} (h : Frame1 a b) (g : Nat) : Frame1 a (wakeSub b g) :=
  ⟨h.l0, h.l1, h.l2, h.G, h.S, h.C, h.gfin, h.sfin, fun k => (wakeSub_core b g k).trans (h.core k)⟩

theorem Frame1.dAwake {a b : Sys} (h : Frame1 a b) (x : Bool) : Frame1 a { b with dAwake := x } :=
  ⟨h.l0, h.l1, h.l2, h.G, h.S, h.C, h.gfin, h.sfin, h.core⟩

theorem Frame1.wakeManyGpu {a b : Sys} (f : Nat → Nat) (h : Frame1 a b) (ks : List Nat) :
    Frame1 a (wakeMany C20.wakeGpu f b ks) := by
  induction ks generalizing b with
  | nil => exact h
  | cons k ks ih => exact ih (h.wakeGpu _)

theorem Frame1.wakeManySm {a b : Sys} (f : Nat → Nat) (h : Frame1 a b) (ks : List Nat) :
    Frame1 a (wakeMany C20.wakeSm f b ks) := by
  induction ks generalizing b with
  | nil => exact h
  | cons k ks ih => exact ih (h.wakeSm _)

theorem Frame1.wakeManySub {a b : Sys} (f : Nat → Nat) (h : Frame1 a b) (ks : List Nat) :
    Frame1 a (wakeMany C20.wakeSub f b ks) := by
  induction ks generalizing b with
  | nil => exact h
  | cons k ks ih => exact ih (h.wakeSub _)

theorem Frame1.ite {a b c : Sys} (p : Prop) [Decidable p] (hb : Frame1 a b) (hc : Frame1 a c) :
    Frame1 a (if p then b else c) := by
  split <;> assumption

theorem Inv1.frame {a b : Sys} (f : Frame1 a b) (h : Inv1 a) : Inv1 b := by
  refine ⟨?_, ?_, ?_⟩
  · rw [f.l0, f.G]
    refine h.lv0.congr ?_
    intro j _
    simp only [busy0, f.l1, f.gfin]
  · intro g hg
    rw [f.G] at hg
    rw [f.l1, f.S]
    refine (h.lv1 g hg).congr ?_
    intro j _
    simp only [busy1, f.l2, f.sfin, f.S]
  · intro m hm
    rw [f.G, f.S] at hm
    rw [f.l2, f.C]
    refine (h.lv2 m hm).congr ?_
    intro j _
    simp only [busy2, f.C]
    exact subBusy_core (f.core _)

theorem inv1_tickGpu (s : Sys) (g : Nat) (hl : s.legacy = false) (hg : g < s.G) (h : Inv1 s) :
    Inv1 (tickGpu s g) := by
  unfold tickGpu
  extract_lets gp r d p2 d1 t p fin s1 s2
  have hr : (r.1 = s.l0 ∧ r.2.1 = gp.fin) ∨ (s.l0.childSend g = some r.1 ∧ r.2.1 + 1 = gp.fin) := by
    simp only [r]
    split
    · left; exact ⟨rfl, rfl⟩
    · split
      · left; exact ⟨rfl, rfl⟩
      · rename_i hfin _ l' hs
        right; exact ⟨hs, by simp only; omega⟩
  have ht : (t.1 = r.1 ∧ t.2.1 = d.1 ∧ t.2.2.1 = r.2.1) ∨
      (∃ k wf, r.1.childTake g = some (k, t.1, wf) ∧
        t.2.1 = { d.1 with undisp := d.1.undisp ++ k, unfin := d.1.unfin + k.length } ∧
        t.2.2.1 = if k.isEmpty = true then r.2.1 + 1 else r.2.1) := by
    simp only [t]
    split
    · left; exact ⟨rfl, rfl, rfl⟩
    · rename_i k l0' wf hk
      right
      refine ⟨k, wf, hk, rfl, ?_⟩
      simp [hl]
  have hM : LInv1 t.2.1 s.S (busy1 s g) := by
    have hd := (h.lv1 g hg).dispatch
    rcases ht with ⟨_, e, _⟩ | ⟨k, wf, _, e, _⟩
    · rw [e]; exact hd
    · rw [e]; exact hd.addWork k
  have h1 : Inv1 s1 := by
    refine ⟨?_, ?_, h.lv2⟩
    · show LInv1 t.1 s.G (busy0 s1)
      refine child_acct (M := get s.l1 g) (fin3 := fin) hr ht (dispatch_unfin _) hM.unfin_pos rfl rfl
        ?_ ?_ h.lv0
      · simp only [busy0, s1, get_upd_self]
        rfl
      · intro j _ hj
        simp only [busy0, s1, get_upd_ne _ _ _ _ hj]
    · intro g' hg'
      show LInv1 (get (upd s.l1 g p.1) g') s.S (busy1 s g')
      rw [get_upd]
      split
      · rename_i e; subst e; exact hM.procUp
      · exact h.lv1 g' hg'
  refine Inv1.frame ?_ h1
  apply Frame1.ite
  · apply Frame1.wakeManySm
    apply Frame1.ite
    · apply Frame1.wakeManyGpu
      exact (Frame1.refl s1).dAwake true
    · exact Frame1.refl _
  · apply Frame1.ite
    · apply Frame1.wakeManyGpu
      exact (Frame1.refl s1).dAwake true
    · exact Frame1.refl _

theorem div_idx {S m : Nat} (hS : 0 < S) : m / S * S + m % S = m :=
  (sub_index (Nat.mod_lt m hS)).2 ⟨rfl, rfl⟩

theorem inv1_tickSm (s : Sys) (m : Nat) (hl : s.legacy = false) (hm : m < s.G * s.S) (h : Inv1 s) :
    Inv1 (tickSm s m) := by
  have hS : 0 < s.S := by
    rcases Nat.eq_zero_or_pos s.S with h0 | h0
    · rw [h0] at hm; omega
    · exact h0
  have hgG : m / s.S < s.G := (Nat.div_lt_iff_lt_mul hS).2 hm
  have hidx : m / s.S * s.S + m % s.S = m := div_idx hS
  unfold tickSm
  extract_lets g j sm lg r d p2 d1 t p fin s1 s2
  have hr : (r.1 = lg ∧ r.2.1 = sm.fin) ∨ (lg.childSend j = some r.1 ∧ r.2.1 + 1 = sm.fin) := by
    simp only [r]
    split
    · left; exact ⟨rfl, rfl⟩
    · split
      · left; exact ⟨rfl, rfl⟩
      · rename_i hfin _ l' hs
        right; exact ⟨hs, by simp only; omega⟩
  have ht : (t.1 = r.1 ∧ t.2.1 = d.1 ∧ t.2.2.1 = r.2.1) ∨
      (∃ k wf, r.1.childTake j = some (k, t.1, wf) ∧
        t.2.1 = { d.1 with undisp := d.1.undisp ++ k, unfin := d.1.unfin + k.length } ∧
        t.2.2.1 = if k.isEmpty = true then r.2.1 + 1 else r.2.1) := by
    simp only [t]
    split
    · left; exact ⟨rfl, rfl, rfl⟩
    · rename_i k l0' wf hk
      right
      refine ⟨k, wf, hk, rfl, ?_⟩
      simp [hl]
  have hM : LInv1 t.2.1 s.C (busy2 s m) := by
    have hd := (h.lv2 m hm).dispatch
    rcases ht with ⟨_, e, _⟩ | ⟨k, wf, _, e, _⟩
    · rw [e]; exact hd
    · rw [e]; exact hd.addWork k
  have hps : ParSame lg t.1 := child_parSame hr ht
  have h1 : Inv1 s1 := by
    refine ⟨?_, ?_, ?_⟩
    · show LInv1 s.l0 s.G (busy0 s1)
      refine h.lv0.congr ?_
      intro k _
      simp only [busy0, s1, get_upd]
      split
      · rename_i e; rw [hps.unfin, e]
      · rfl
    · intro g' hg'
      show LInv1 (get (upd s.l1 g t.1) g') s.S (busy1 s1 g')
      rw [get_upd]
      split
      · rename_i e
        subst e
        refine child_acct (M := get s.l2 m) (fin3 := fin) hr ht (dispatch_unfin _) hM.unfin_pos rfl ?_
          ?_ ?_ (h.lv1 g hgG)
        · show parBusy (get s.l2 (g * s.S + j)).unfin (get s.sms (g * s.S + j)).fin = _
          rw [show g * s.S + j = m from hidx]
        · show busy1 s1 g j = _
          simp only [busy1, s1]
          rw [show g * s.S + j = m from hidx, get_upd_self, get_upd_self]
        · intro k hk hkj
          have hne : g * s.S + k ≠ m := fun e => hkj ((sub_index hk).1 e).2
          simp only [busy1, s1, get_upd_ne _ _ _ _ hne]
      · rename_i hne
        refine (h.lv1 g' hg').congr ?_
        intro k hk
        have hne : g' * s.S + k ≠ m := fun e => hne ((sub_index hk).1 e).1
        simp only [busy1, s1, get_upd_ne _ _ _ _ hne]
    · intro m' hm'
      show LInv1 (get (upd s.l2 m p.1) m') s.C (busy2 s m')
      rw [get_upd]
      split
      · rename_i e; subst e; exact hM.procUp
      · exact h.lv2 m' hm'
  refine Inv1.frame ?_ h1
  apply Frame1.ite
  · apply Frame1.wakeManySub
    apply Frame1.ite
    · apply Frame1.wakeManySm
      exact (Frame1.refl s1).wakeGpu _
    · exact Frame1.refl _
  · apply Frame1.ite
    · apply Frame1.wakeManySm
      exact (Frame1.refl s1).wakeGpu _
    · exact Frame1.refl _

theorem inv1_tickDriver (s : Sys) (h : Inv1 s) : Inv1 (tickDriver s) := by
  unfold tickDriver
  extract_lets d p s1
  have h1 : Inv1 s1 := ⟨h.lv0.dispatch.procUp, h.lv1, h.lv2⟩
  refine Inv1.frame ?_ h1
  apply Frame1.ite
  · apply Frame1.wakeManyGpu
    exact Frame1.refl _
  · exact Frame1.refl _

theorem inv1_tickConn0 (s : Sys) (h : Inv1 s) : Inv1 (tickConn0 s) := by
  unfold tickConn0
  extract_lets o s1
  have h1 : Inv1 s1 := ⟨h.lv0.connTick, h.lv1, h.lv2⟩
  refine Inv1.frame ?_ h1
  apply Frame1.wakeManyGpu
  exact Frame1.refl _

theorem inv1_tickConn1 (s : Sys) (g : Nat) (h : Inv1 s) : Inv1 (tickConn1 s g) := by
  unfold tickConn1
  extract_lets o s1 s2
  have hpf := connTick_parent_fields (get s.l1 g)
  have h1 : Inv1 s1 := by
    refine ⟨?_, ?_, h.lv2⟩
    · show LInv1 s.l0 s.G (busy0 s1)
      refine h.lv0.congr ?_
      intro k _
      simp only [busy0, s1, get_upd]
      split
      · rename_i e; rw [e]; exact congrArg (fun x => parBusy x _) hpf.2.2.1
      · rfl
    · intro g' hg'
      show LInv1 (get (upd s.l1 g o.l) g') s.S (busy1 s g')
      rw [get_upd]
      split
      · rename_i e; subst e; exact (h.lv1 g' hg').connTick
      · exact h.lv1 g' hg'
  refine Inv1.frame ?_ h1
  apply Frame1.wakeManySm
  apply Frame1.ite
  · exact (Frame1.refl s1).wakeGpu _
  · exact Frame1.refl _

theorem inv1_tickConn2 (s : Sys) (m : Nat) (h : Inv1 s) :
    Inv1 (tickConn2 s m) := by
  unfold tickConn2
  extract_lets o s1 s2
  have hpf := connTick_parent_fields (get s.l2 m)
  have h1 : Inv1 s1 := by
    refine ⟨h.lv0, ?_, ?_⟩
    · intro g' hg'
      show LInv1 (get s.l1 g') s.S (busy1 s1 g')
      refine (h.lv1 g' hg').congr ?_
      intro k _
      simp only [busy1, s1, get_upd]
      split
      · rename_i e; rw [e]; exact congrArg (fun x => parBusy x _) hpf.2.2.1
      · rfl
    · intro m' hm'
      show LInv1 (get (upd s.l2 m o.l) m') s.C (busy2 s m')
      rw [get_upd]
      split
      · rename_i e; subst e; exact (h.lv2 m' hm').connTick
      · exact h.lv2 m' hm'
  refine Inv1.frame ?_ h1
  apply Frame1.wakeManySub
  apply Frame1.ite
  · exact (Frame1.refl s1).wakeSm _
  · exact Frame1.refl _

/-! ### sub-core tick: the SM layer keeps its parent-side fields, occupancy comes from `excl_tickSub` -/

structure SubFrame (a b : Sys) : Prop where
  l0 : b.l0 = a.l0
  l1 : b.l1 = a.l1
  G : b.G = a.G
  S : b.S = a.S
  C : b.C = a.C
  gfin : ∀ k, (get b.gpus k).fin = (get a.gpus k).fin
  sfin : ∀ k, (get b.sms k).fin = (get a.sms k).fin
  par : ∀ m, ParSame (get a.l2 m) (get b.l2 m)

theorem SubFrame.frame {a b c : Sys} (h : SubFrame a b) (f : Frame1 b c) : SubFrame a c :=
  ⟨f.l0.trans h.l0, f.l1.trans h.l1, f.G.trans h.G, f.S.trans h.S, f.C.trans h.C,
    fun k => (f.gfin k).trans (h.gfin k), fun k => (f.sfin k).trans (h.sfin k),
    fun m => by rw [f.l2]; exact h.par m⟩

theorem Inv1.excl {s : Sys} (h : Inv1 s) : Excl s := fun m j hm hj => (h.lv2 m hm).occ1 j hj

theorem Inv1.subFrame {a b : Sys} (f : SubFrame a b) (he : Excl b) (h : Inv1 a) : Inv1 b := by
  refine ⟨?_, ?_, ?_⟩
  · rw [f.l0, f.G]
    refine h.lv0.congr ?_
    intro j _
    simp only [busy0, f.l1, f.gfin]
  · intro g hg
    rw [f.G] at hg
    rw [f.l1, f.S]
    refine (h.lv1 g hg).congr ?_
    intro j _
    simp only [busy1, f.S, (f.par _).unfin, f.sfin]
  · intro m hm
    have hm' : m < a.G * a.S := by rw [← f.G, ← f.S]; exact hm
    have := (h.lv2 m hm').parSame (b' := busy2 b m) (f.par m)
      (fun j hj => he m j hm (by rw [f.C]; exact hj))
    rw [f.C]; exact this

theorem subFrame_upd (s : Sys) (m : Nat) (l' : Level Warp) (subs' : List Sub)
    (hp : ParSame (get s.l2 m) l') : SubFrame s { s with l2 := upd s.l2 m l', subs := subs' } := by
  refine ⟨rfl, rfl, rfl, rfl, rfl, fun _ => rfl, fun _ => rfl, ?_⟩
  intro m'
  show ParSame (get s.l2 m') (get (upd s.l2 m l') m')
  rw [get_upd]
  split
  · rename_i e; subst e; exact hp
  · exact ParSame.refl _

theorem inv1_tickSub (s : Sys) (u : Nat) (hl : s.legacy = false) (h : Inv1 s) :
    Inv1 (tickSub s u) := by
  refine Inv1.subFrame ?_ (excl_tickSub s u hl h.excl) h
  unfold tickSub
  extract_lets m j sc lm r q
  have hr : ParSame lm r.1 := by
    simp only [r]
    split
    · exact ParSame.refl _
    · split
      · exact ParSame.refl _
      · rename_i l' hs
        exact parSame_childSend hs
  split
  · exact subFrame_upd s m r.1 _ hr
  · rename_i n lm' wf ht
    dsimp only
    refine (subFrame_upd s m lm' ?SB (hr.trans (parSame_childTake ht))).frame ?FR1
    case FR1 =>
      apply Frame1.ite
      · apply Frame1.wakeManySub
        exact (Frame1.refl _).wakeSm _
      · exact Frame1.refl _

/-! ## the invariant holds initially and along every in-range run -/

theorem inv1_init (G S C : Nat) (trace : List Kernel) : Inv1 (init false G S C trace) := by
  have hdN : (default : Nat) = 0 := rfl
  refine ⟨?_, ?_, ?_⟩
  · refine ⟨rfl, ?_, ?_, ?_, ?_, ?_⟩
    · intro j hj
      have hj' : j < G := hj
      have hdK : (default : List Kernel) = [] := rfl
      simp only [init, occ, mkLevel, busy0]
      rw [get_replicate _ _ _ hj', get_replicate _ _ _ hj']
      simp [get_nil, parBusy, hj', hdK, hdN]
    · simp [init, mkLevel]
    · intro j hj; exact List.mem_range.1 hj
    · intro p hp; cases hp
    · intro j hj; cases hj
  · intro g hg
    have hg' : g < G := hg
    show LInv1 (get (List.replicate G (mkLevel S)) g) S (busy1 (init false G S C trace) g)
    rw [get_replicate _ _ _ hg']
    refine ⟨rfl, ?_, ?_, ?_, ?_, ?_⟩
    · intro j hj
      have hidx : g * S + j < G * S := by
        calc g * S + j < g * S + S := by omega
          _ = (g + 1) * S := by rw [Nat.add_mul, Nat.one_mul]
          _ ≤ G * S := Nat.mul_le_mul_right _ hg'
      have hdB : (default : List Block) = [] := rfl
      simp only [init, occ, mkLevel, busy1]
      rw [get_replicate _ _ _ hidx, get_replicate _ _ _ hidx]
      simp [get_nil, parBusy, hj, hdB, hdN]
    · simp [mkLevel]
    · intro j hj; exact List.mem_range.1 hj
    · intro p hp; cases hp
    · intro j hj; cases hj
  · intro m hm
    have hm' : m < G * S := hm
    have he := excl_init G S C trace
    refine ⟨?_, fun j hj => he m j hm hj, ?_, ?_, ?_, ?_⟩ <;>
      (show _; simp only [init]; rw [get_replicate _ _ _ hm'])
    · rfl
    · simp [mkLevel]
    · intro j hj; exact List.mem_range.1 hj
    · intro p hp; cases hp
    · intro j hj; cases hj

theorem inv1_step (s : Sys) (e : Ev) (hl : s.legacy = false) (he : e.InRange s.G s.S s.C)
    (h : Inv1 s) : Inv1 (step s e) := by
  cases e with
  | drv => exact inv1_tickDriver s h
  | gpu g => exact inv1_tickGpu s g hl he h
  | sm m => exact inv1_tickSm s m hl he h
  | sub u => exact inv1_tickSub s u hl h
  | c0 => exact inv1_tickConn0 s h
  | c1 g => exact inv1_tickConn1 s g h
  | c2 m => exact inv1_tickConn2 s m h

theorem inv1_run_gen (s : Sys) (evs : List Ev) (hl : s.legacy = false)
    (he : ∀ e ∈ evs, e.InRange s.G s.S s.C) (h : Inv1 s) : Inv1 (run s evs) := by
  induction evs generalizing s with
  | nil => exact h
  | cons e evs ih =>
    have hsh := shape_step s e
    refine ih (step s e) (hsh.legacy.trans hl) ?_
      (inv1_step s e hl (he e (List.mem_cons_self ..)) h)
    intro e' he'
    rw [hsh.G, hsh.S, hsh.C]
    exact he e' (List.mem_cons_of_mem _ he')

theorem inv1_run (G S C : Nat) (trace : List Kernel) (evs : List Ev)
    (he : ∀ e ∈ evs, e.InRange G S C) : Inv1 (run (init false G S C trace) evs) :=
  inv1_run_gen _ evs rfl he (inv1_init G S C trace)

/-! ## out-of-range events are harmless: the `InRange` hypothesis can be dropped -/

/-- a "child" whose index is not below `n` does not disturb the accounting of the real children -/
theorem child_acct_out {β : Type} {L L1 L' : Level (List β)} {M2 Md : Level β}
    {i fin fin1 fin2 n : Nat} {b b' : Nat → Nat}
    (hr : (L1 = L ∧ fin1 = fin) ∨ (L.childSend i = some L1 ∧ fin1 + 1 = fin))
    (ht : (L' = L1 ∧ M2 = Md ∧ fin2 = fin1) ∨
          (∃ k wf, L1.childTake i = some (k, L', wf) ∧
             M2 = { Md with undisp := Md.undisp ++ k, unfin := Md.unfin + k.length } ∧
             fin2 = if k.isEmpty = true then fin1 + 1 else fin1))
    (hi : n ≤ i) (hbo : ∀ j, j < n → b' j = b j) (hL : LInv1 L n b) : LInv1 L' n b' := by
  refine hL.parSame (child_parSame hr ht) ?_
  intro j hj
  have hji : j ≠ i := by omega
  have h1 : occ L1 b j = 1 := by
    rw [← hL.occ1 j hj]
    rcases hr with ⟨e, _⟩ | ⟨e, _⟩
    · rw [e]
    · exact occ_childSend e b b j (by simp [hji])
  rw [← h1]
  rcases ht with ⟨e, _, _⟩ | ⟨k, wf, e, _, _⟩
  · rw [e]; exact occ_congr _ (hbo j hj)
  · exact occ_childTake e b b' j (by simp [hji, hbo j hj])

theorem inv1_tickGpu_out (s : Sys) (g : Nat) (hl : s.legacy = false) (hg : ¬ g < s.G) (h : Inv1 s) :
    Inv1 (tickGpu s g) := by
  unfold tickGpu
  extract_lets gp r d p2 d1 t p fin s1 s2
  have hr : (r.1 = s.l0 ∧ r.2.1 = gp.fin) ∨ (s.l0.childSend g = some r.1 ∧ r.2.1 + 1 = gp.fin) := by
    simp only [r]
    split
    · left; exact ⟨rfl, rfl⟩
    · split
      · left; exact ⟨rfl, rfl⟩
      · rename_i hfin _ l' hs
        right; exact ⟨hs, by simp only; omega⟩
  have ht : (t.1 = r.1 ∧ t.2.1 = d.1 ∧ t.2.2.1 = r.2.1) ∨
      (∃ k wf, r.1.childTake g = some (k, t.1, wf) ∧
        t.2.1 = { d.1 with undisp := d.1.undisp ++ k, unfin := d.1.unfin + k.length } ∧
        t.2.2.1 = if k.isEmpty = true then r.2.1 + 1 else r.2.1) := by
    simp only [t]
    split
    · left; exact ⟨rfl, rfl, rfl⟩
    · rename_i k l0' wf hk
      right
      refine ⟨k, wf, hk, rfl, ?_⟩
      simp [hl]
  have h1 : Inv1 s1 := by
    refine ⟨?_, ?_, h.lv2⟩
    · show LInv1 t.1 s.G (busy0 s1)
      refine child_acct_out hr ht (by omega) ?_ h.lv0
      intro j hj
      have hne : j ≠ g := by omega
      simp only [busy0, s1, get_upd_ne _ _ _ _ hne]
    · intro g' hg'
      show LInv1 (get (upd s.l1 g p.1) g') s.S (busy1 s g')
      have hg'' : g' < s.G := hg'
      have hne : g' ≠ g := by omega
      rw [get_upd_ne _ _ _ _ hne]
      exact h.lv1 g' hg'
  refine Inv1.frame ?_ h1
  apply Frame1.ite
  · apply Frame1.wakeManySm
    apply Frame1.ite
    · apply Frame1.wakeManyGpu
      exact (Frame1.refl s1).dAwake true
    · exact Frame1.refl _
  · apply Frame1.ite
    · apply Frame1.wakeManyGpu
      exact (Frame1.refl s1).dAwake true
    · exact Frame1.refl _

theorem inv1_tickSm_out (s : Sys) (m : Nat) (hl : s.legacy = false) (hm : ¬ m < s.G * s.S)
    (h : Inv1 s) : Inv1 (tickSm s m) := by
  unfold tickSm
  extract_lets g j sm lg r d p2 d1 t p fin s1 s2
  have hr : (r.1 = lg ∧ r.2.1 = sm.fin) ∨ (lg.childSend j = some r.1 ∧ r.2.1 + 1 = sm.fin) := by
    simp only [r]
    split
    · left; exact ⟨rfl, rfl⟩
    · split
      · left; exact ⟨rfl, rfl⟩
      · rename_i hfin _ l' hs
        right; exact ⟨hs, by simp only; omega⟩
  have ht : (t.1 = r.1 ∧ t.2.1 = d.1 ∧ t.2.2.1 = r.2.1) ∨
      (∃ k wf, r.1.childTake j = some (k, t.1, wf) ∧
        t.2.1 = { d.1 with undisp := d.1.undisp ++ k, unfin := d.1.unfin + k.length } ∧
        t.2.2.1 = if k.isEmpty = true then r.2.1 + 1 else r.2.1) := by
    simp only [t]
    split
    · left; exact ⟨rfl, rfl, rfl⟩
    · rename_i k l0' wf hk
      right
      refine ⟨k, wf, hk, rfl, ?_⟩
      simp [hl]
  have hps : ParSame lg t.1 := child_parSame hr ht
  have h1 : Inv1 s1 := by
    refine ⟨?_, ?_, ?_⟩
    · show LInv1 s.l0 s.G (busy0 s1)
      refine h.lv0.congr ?_
      intro k _
      simp only [busy0, s1, get_upd]
      split
      · rename_i e; rw [hps.unfin, e]
      · rfl
    · intro g' hg'
      show LInv1 (get (upd s.l1 g t.1) g') s.S (busy1 s1 g')
      rw [get_upd]
      split
      · rename_i e
        subst e
        have hS : s.S = 0 := by
          rcases Nat.eq_zero_or_pos s.S with h0 | h0
          · exact h0
          · exfalso
            have : s.G ≤ m / s.S := (Nat.le_div_iff_mul_le h0).2 (by omega)
            exact absurd hg' (by show ¬ m / s.S < s.G; omega)
        refine child_acct_out hr ht (by omega) ?_ (h.lv1 g hg')
        intro k hk
        omega
      · rename_i hne
        refine (h.lv1 g' hg').congr ?_
        intro k hk
        have hne : g' * s.S + k ≠ m := fun e => hne ((sub_index hk).1 e).1
        simp only [busy1, s1, get_upd_ne _ _ _ _ hne]
    · intro m' hm'
      show LInv1 (get (upd s.l2 m p.1) m') s.C (busy2 s m')
      have hm'' : m' < s.G * s.S := hm'
      have hne : m' ≠ m := by omega
      rw [get_upd_ne _ _ _ _ hne]
      exact h.lv2 m' hm'
  refine Inv1.frame ?_ h1
  apply Frame1.ite
  · apply Frame1.wakeManySub
    apply Frame1.ite
    · apply Frame1.wakeManySm
      exact (Frame1.refl s1).wakeGpu _
    · exact Frame1.refl _
  · apply Frame1.ite
    · apply Frame1.wakeManySm
      exact (Frame1.refl s1).wakeGpu _
    · exact Frame1.refl _

/-- `Inv1` is preserved by every event, in range or not -/
theorem inv1_step' (s : Sys) (e : Ev) (hl : s.legacy = false) (h : Inv1 s) : Inv1 (step s e) := by
  cases e with
  | drv => exact inv1_tickDriver s h
  | gpu g =>
    by_cases hg : g < s.G
    · exact inv1_tickGpu s g hl hg h
    · exact inv1_tickGpu_out s g hl hg h
  | sm m =>
    by_cases hm : m < s.G * s.S
    · exact inv1_tickSm s m hl hm h
    · exact inv1_tickSm_out s m hl hm h
  | sub u => exact inv1_tickSub s u hl h
  | c0 => exact inv1_tickConn0 s h
  | c1 g => exact inv1_tickConn1 s g h
  | c2 m => exact inv1_tickConn2 s m h

theorem inv1_run_gen' (s : Sys) (evs : List Ev) (hl : s.legacy = false) (h : Inv1 s) :
    Inv1 (run s evs) := by
  induction evs generalizing s with
  | nil => exact h
  | cons e evs ih =>
    exact ih (step s e) ((shape_step s e).legacy.trans hl) (inv1_step' s e hl h)

/-- `Inv1` holds along every event sequence whatsoever of the repaired code -/
theorem inv1_run' (G S C : Nat) (trace : List Kernel) (evs : List Ev) :
    Inv1 (run (init false G S C trace) evs) :=
  inv1_run_gen' _ evs rfl (inv1_init G S C trace)

end C20
