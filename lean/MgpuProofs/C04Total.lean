import MgpuModel.C04
import MgpuProofs.C04
import MgpuProofs.C04Bits
import MgpuProofs.C04Enc
/-! Which inputs reach the decoder's explicit "not implemented" panics. -/
namespace C04
open Gen
set_option linter.unusedSimpArgs false

def Outcome.isNotImpl : Outcome → Bool
  | .notImpl => true
  | _ => false

theorem isNotImpl_iff {o : Outcome} : o.isNotImpl = true ↔ o = .notImpl := by
  cases o <;> simp [Outcome.isNotImpl]

theorem setSize_notImpl {o : Outcome} {n : Nat} (h : o.setSize n = .notImpl) : o = .notImpl := by
  cases o <;> simp [Outcome.setSize] at h ⊢

/-- a first-dword decoder whose continuation never panics -/
def Dec4.quiet : Dec4 → Prop
  | .more k => ∀ w1, (k w1).isNotImpl = false
  | _ => True

theorem sop2_quiet (i : Inst) (w : Nat) : (decodeSOP2 i w).quiet := by
  unfold decodeSOP2
  split
  · (try simp only [])
    split <;> simp [Dec4.quiet, Outcome.isNotImpl]
  · simp [Dec4.quiet]

theorem sopc_quiet (i : Inst) (w : Nat) : (decodeSOPC i w).quiet := by
  unfold decodeSOPC
  split
  · split <;> simp [Dec4.quiet, Outcome.isNotImpl]
  · simp [Dec4.quiet]

theorem sop1_quiet (i : Inst) (row : Row) (w : Nat) : (decodeSOP1 i row w).quiet := by
  unfold decodeSOP1
  split
  · (try simp only [])
    split <;> simp [Dec4.quiet, Outcome.isNotImpl]
  · simp [Dec4.quiet]

theorem sopk_quiet (i : Inst) (w : Nat) : (decodeSOPK i w).quiet := by
  unfold decodeSOPK
  split
  · split <;> simp [Dec4.quiet, Outcome.isNotImpl]
  · simp [Dec4.quiet]

theorem sopp_quiet (i : Inst) (w : Nat) : (decodeSOPP i w).quiet := by
  unfold decodeSOPP
  (try simp only [])
  split <;> simp [Dec4.quiet]

theorem vop1_quiet (i : Inst) (row : Row) (w : Nat) : (decodeVOP1 i row w).quiet := by
  unfold decodeVOP1
  (try simp only [])
  split
  · (try simp only [])
    split <;> simp [Dec4.quiet, Outcome.isNotImpl]
  · simp [Dec4.quiet]

theorem vopc_quiet (i : Inst) (row : Row) (w : Nat) : (decodeVOPC i row w).quiet := by
  unfold decodeVOPC
  split
  · (try simp only [])
    split <;> simp [Dec4.quiet, Outcome.isNotImpl]
  · simp [Dec4.quiet]

/-- the SDWA modifier bits of the second dword for which the decoder panics "not implemented"
    (dst clamp, src0 sext/neg/abs, src1 sext/neg/abs) -/
def sdwaUnsupported (sd : Nat) : Bool :=
  extractBits sd 13 13 == 1 || extractBits sd 19 19 == 1 || extractBits sd 20 20 == 1 ||
  extractBits sd 21 21 == 1 || extractBits sd 27 27 == 1 || extractBits sd 28 28 == 1 ||
  extractBits sd 29 29 == 1

def Dec4.sdwaOnly (w : Nat) : Dec4 → Prop
  | .more k => ∀ w1, (k w1).isNotImpl = true → extractBits w 0 8 = 249 ∧ sdwaUnsupported w1 = true
  | _ => True

theorem vop2_sdwaOnly (i : Inst) (w : Nat) : (decodeVOP2 i w).sdwaOnly w := by
  unfold decodeVOP2
  extract_lets ob b1 bd dd
  split
  · rename_i hc
    intro w1 h
    refine ⟨beq_iff_eq.mp hc, ?_⟩
    by_cases b13 : extractBits w1 13 13 = 1; · simp [sdwaUnsupported, b13]
    by_cases b19 : extractBits w1 19 19 = 1; · simp [sdwaUnsupported, b19]
    by_cases b20 : extractBits w1 20 20 = 1; · simp [sdwaUnsupported, b20]
    by_cases b21 : extractBits w1 21 21 = 1; · simp [sdwaUnsupported, b21]
    by_cases b27 : extractBits w1 27 27 = 1; · simp [sdwaUnsupported, b27]
    by_cases b28 : extractBits w1 28 28 = 1; · simp [sdwaUnsupported, b28]
    by_cases b29 : extractBits w1 29 29 = 1; · simp [sdwaUnsupported, b29]
    exfalso
    simp only [b13, b19, b20, b21, b27, b28, b29, beq_iff_eq, if_false] at h
    split at h <;> simp [Outcome.isNotImpl] at h
  · split
    · simp [Dec4.sdwaOnly]
    · split
      · simp [Dec4.sdwaOnly, Outcome.isNotImpl]
      · split <;> simp [Dec4.sdwaOnly, Outcome.isNotImpl]

theorem smem_quiet (c : Bool) (i : Inst) (lo hi : Nat) : (decodeSMEM c i lo hi).isNotImpl = false := by
  unfold decodeSMEM
  (try simp only [])
  split <;> rfl

theorem flat_quiet (c : Bool) (i : Inst) (lo hi : Nat) : (decodeFLAT c i lo hi).isNotImpl = false := by
  unfold decodeFLAT
  rfl

theorem ds_quiet (i : Inst) (row : Row) (lo hi : Nat) : (decodeDS i row lo hi).isNotImpl = false := by
  unfold decodeDS
  rfl

theorem vop3b_quiet (i : Inst) (row : Row) (lo hi : Nat) : (decodeVOP3b i row lo hi).isNotImpl = false := by
  unfold decodeVOP3b
  (try simp only [])
  split
  · (try simp only [])
    split
    · split <;> rfl
    · rfl
  · rfl

theorem vop3a_quiet (i : Inst) (row : Row) (lo hi : Nat) : (decodeVOP3a i row lo hi).isNotImpl = false := by
  unfold decodeVOP3a
  (try simp only [])
  split
  · (try simp only [])
    split
    · split <;> rfl
    · rfl
  · rfl

/-! ## `decodeRow` by size class -/

def row4 (o : Option Dec4) (w1? : Option Nat) : Outcome :=
  match o with
  | none => .notImpl
  | some (.done i) => .ok { i with size := 4 }
  | some .err => .err
  | some (.more k) =>
    match w1? with
    | none => .err
    | some w1 => (k w1).setSize 8

theorem decodeRow_4 (c : Bool) (f : Format) (row : Row) (w0 : Nat) (w1? : Option Nat) (h : f.size ≠ 8) :
    decodeRow c f row w0 w1? = row4 (dec4 { name := row.name, ft := f.ft, opcode := row.opcode } row w0) w1? := by
  unfold decodeRow row4
  have : (f.size == 8) = false := by simpa using h
  simp only [this]
  rfl

theorem decodeRow_8 (c : Bool) (f : Format) (row : Row) (w0 : Nat) (w1? : Option Nat) (h : f.size = 8) :
    decodeRow c f row w0 w1? =
      match w1? with
      | none => .err
      | some w1 => ((dec8 c { name := row.name, ft := f.ft, opcode := row.opcode } row w0 w1).getD .notImpl).setSize 8 := by
  unfold decodeRow
  simp only [h, BEq.rfl, if_true]
  rfl

theorem row4_notImpl {d4 : Dec4} {w1? : Option Nat} (h : row4 (some d4) w1? = .notImpl) :
    ∃ k w1, d4 = .more k ∧ w1? = some w1 ∧ k w1 = .notImpl := by
  cases d4 with
  | done i => simp [row4] at h
  | err => simp [row4] at h
  | more k =>
    cases w1? with
    | none => simp [row4] at h
    | some w1 => exact ⟨k, w1, rfl, rfl, setSize_notImpl (by simpa [row4] using h)⟩

theorem quiet_contra {d4 : Dec4} (hq : d4.quiet) {k : Nat → Outcome} {w1 : Nat} (h : d4 = .more k)
    (hk : k w1 = .notImpl) : False := by
  subst h
  have := hq w1
  rw [hk] at this
  simp [Outcome.isNotImpl] at this


/-- formats that have a decoder, with their sizes -/
def ftSizes : List (Nat × Nat) :=
  [(FT_SOP2, 4), (FT_SOPK, 4), (FT_SOP1, 4), (FT_SOPC, 4), (FT_SOPP, 4), (FT_SMEM, 8), (FT_VOP2, 4),
   (FT_VOP1, 4), (FT_VOP3a, 8), (FT_VOP3b, 8), (FT_VOPC, 4), (FT_DS, 8), (FT_FLAT, 8)]

theorem decodeRow_notImpl (c : Bool) (f : Format) (row : Row) (w0 : Nat) (w1? : Option Nat)
    (hfs : (f.ft, f.size) ∈ ftSizes) (h : decodeRow c f row w0 w1? = .notImpl) :
    f.ft = FT_VOP2 ∧ extractBits w0 0 8 = 249 ∧ ∃ w1, w1? = some w1 ∧ sdwaUnsupported w1 = true := by
  simp [ftSizes, FT_SOP2, FT_SOPK, FT_SOP1, FT_SOPC, FT_SOPP, FT_SMEM, FT_VOP2, FT_VOP1, FT_VOPC, FT_VOP3a, FT_VOP3b, FT_FLAT, FT_DS] at hfs
  rcases hfs with ⟨hft, hsz⟩ | ⟨hft, hsz⟩ | ⟨hft, hsz⟩ | ⟨hft, hsz⟩ | ⟨hft, hsz⟩ | ⟨hft, hsz⟩ | ⟨hft, hsz⟩ |
    ⟨hft, hsz⟩ | ⟨hft, hsz⟩ | ⟨hft, hsz⟩ | ⟨hft, hsz⟩ | ⟨hft, hsz⟩ | ⟨hft, hsz⟩
  · rw [decodeRow_4 _ _ _ _ _ (by omega)] at h
    simp [dec4, hft, FT_SOP2, FT_SOPK, FT_SOP1, FT_SOPC, FT_SOPP, FT_SMEM, FT_VOP2, FT_VOP1, FT_VOPC, FT_VOP3a, FT_VOP3b, FT_FLAT, FT_DS] at h
    obtain ⟨k, w1, hd, _, hk⟩ := row4_notImpl h
    exact (quiet_contra (sop2_quiet _ _) hd hk).elim
  · rw [decodeRow_4 _ _ _ _ _ (by omega)] at h
    simp [dec4, hft, FT_SOP2, FT_SOPK, FT_SOP1, FT_SOPC, FT_SOPP, FT_SMEM, FT_VOP2, FT_VOP1, FT_VOPC, FT_VOP3a, FT_VOP3b, FT_FLAT, FT_DS] at h
    obtain ⟨k, w1, hd, _, hk⟩ := row4_notImpl h
    exact (quiet_contra (sopk_quiet _ _) hd hk).elim
  · rw [decodeRow_4 _ _ _ _ _ (by omega)] at h
    simp [dec4, hft, FT_SOP2, FT_SOPK, FT_SOP1, FT_SOPC, FT_SOPP, FT_SMEM, FT_VOP2, FT_VOP1, FT_VOPC, FT_VOP3a, FT_VOP3b, FT_FLAT, FT_DS] at h
    obtain ⟨k, w1, hd, _, hk⟩ := row4_notImpl h
    exact (quiet_contra (sop1_quiet _ _ _) hd hk).elim
  · rw [decodeRow_4 _ _ _ _ _ (by omega)] at h
    simp [dec4, hft, FT_SOP2, FT_SOPK, FT_SOP1, FT_SOPC, FT_SOPP, FT_SMEM, FT_VOP2, FT_VOP1, FT_VOPC, FT_VOP3a, FT_VOP3b, FT_FLAT, FT_DS] at h
    obtain ⟨k, w1, hd, _, hk⟩ := row4_notImpl h
    exact (quiet_contra (sopc_quiet _ _) hd hk).elim
  · rw [decodeRow_4 _ _ _ _ _ (by omega)] at h
    simp [dec4, hft, FT_SOP2, FT_SOPK, FT_SOP1, FT_SOPC, FT_SOPP, FT_SMEM, FT_VOP2, FT_VOP1, FT_VOPC, FT_VOP3a, FT_VOP3b, FT_FLAT, FT_DS] at h
    obtain ⟨k, w1, hd, _, hk⟩ := row4_notImpl h
    exact (quiet_contra (sopp_quiet _ _) hd hk).elim
  · rw [decodeRow_8 _ _ _ _ _ hsz] at h
    cases w1? with
    | none => simp at h
    | some w1 =>
      have h' := setSize_notImpl h
      simp [dec8, hft, FT_SOP2, FT_SOPK, FT_SOP1, FT_SOPC, FT_SOPP, FT_SMEM, FT_VOP2, FT_VOP1, FT_VOPC, FT_VOP3a, FT_VOP3b, FT_FLAT, FT_DS] at h'
      have := congrArg Outcome.isNotImpl h'
      rw [smem_quiet] at this
      simp [Outcome.isNotImpl] at this
  · rw [decodeRow_4 _ _ _ _ _ (by omega)] at h
    simp [dec4, hft, FT_SOP2, FT_SOPK, FT_SOP1, FT_SOPC, FT_SOPP, FT_SMEM, FT_VOP2, FT_VOP1, FT_VOPC, FT_VOP3a, FT_VOP3b, FT_FLAT, FT_DS] at h
    obtain ⟨k, w1, hd, hw, hk⟩ := row4_notImpl h
    have := vop2_sdwaOnly { name := row.name, ft := f.ft, opcode := row.opcode } w0
    rw [hft] at this
    rw [hd] at this
    obtain ⟨a, b⟩ := this w1 (isNotImpl_iff.mpr hk)
    exact ⟨by simp [hft, FT_VOP2], a, w1, hw, b⟩
  · rw [decodeRow_4 _ _ _ _ _ (by omega)] at h
    simp [dec4, hft, FT_SOP2, FT_SOPK, FT_SOP1, FT_SOPC, FT_SOPP, FT_SMEM, FT_VOP2, FT_VOP1, FT_VOPC, FT_VOP3a, FT_VOP3b, FT_FLAT, FT_DS] at h
    obtain ⟨k, w1, hd, _, hk⟩ := row4_notImpl h
    exact (quiet_contra (vop1_quiet _ _ _) hd hk).elim
  · rw [decodeRow_8 _ _ _ _ _ hsz] at h
    cases w1? with
    | none => simp at h
    | some w1 =>
      have h' := setSize_notImpl h
      simp [dec8, hft, FT_SOP2, FT_SOPK, FT_SOP1, FT_SOPC, FT_SOPP, FT_SMEM, FT_VOP2, FT_VOP1, FT_VOPC, FT_VOP3a, FT_VOP3b, FT_FLAT, FT_DS] at h'
      have := congrArg Outcome.isNotImpl h'
      rw [vop3a_quiet] at this
      simp [Outcome.isNotImpl] at this
  · rw [decodeRow_8 _ _ _ _ _ hsz] at h
    cases w1? with
    | none => simp at h
    | some w1 =>
      have h' := setSize_notImpl h
      simp [dec8, hft, FT_SOP2, FT_SOPK, FT_SOP1, FT_SOPC, FT_SOPP, FT_SMEM, FT_VOP2, FT_VOP1, FT_VOPC, FT_VOP3a, FT_VOP3b, FT_FLAT, FT_DS] at h'
      have := congrArg Outcome.isNotImpl h'
      rw [vop3b_quiet] at this
      simp [Outcome.isNotImpl] at this
  · rw [decodeRow_4 _ _ _ _ _ (by omega)] at h
    simp [dec4, hft, FT_SOP2, FT_SOPK, FT_SOP1, FT_SOPC, FT_SOPP, FT_SMEM, FT_VOP2, FT_VOP1, FT_VOPC, FT_VOP3a, FT_VOP3b, FT_FLAT, FT_DS] at h
    obtain ⟨k, w1, hd, _, hk⟩ := row4_notImpl h
    exact (quiet_contra (vopc_quiet _ _ _) hd hk).elim
  · rw [decodeRow_8 _ _ _ _ _ hsz] at h
    cases w1? with
    | none => simp at h
    | some w1 =>
      have h' := setSize_notImpl h
      simp [dec8, hft, FT_SOP2, FT_SOPK, FT_SOP1, FT_SOPC, FT_SOPP, FT_SMEM, FT_VOP2, FT_VOP1, FT_VOPC, FT_VOP3a, FT_VOP3b, FT_FLAT, FT_DS] at h'
      have := congrArg Outcome.isNotImpl h'
      rw [ds_quiet] at this
      simp [Outcome.isNotImpl] at this
  · rw [decodeRow_8 _ _ _ _ _ hsz] at h
    cases w1? with
    | none => simp at h
    | some w1 =>
      have h' := setSize_notImpl h
      simp [dec8, hft, FT_SOP2, FT_SOPK, FT_SOP1, FT_SOPC, FT_SOPP, FT_SMEM, FT_VOP2, FT_VOP1, FT_VOPC, FT_VOP3a, FT_VOP3b, FT_FLAT, FT_DS] at h'
      have := congrArg Outcome.isNotImpl h'
      rw [flat_quiet] at this
      simp [Outcome.isNotImpl] at this

theorem matchFormat_mem {w : Nat} {f : Format} (h : matchFormat w = some f) : f ∈ formats := by
  rw [matchFormat, matchFormatIn_eq] at h
  cases hfc : firstCand formatList w with
  | none => simp [hfc] at h
  | some g =>
    simp only [hfc] at h
    split at h
    · exact (formatOf_mem h).1
    · injection h with h
      subst h
      exact firstCand_ft_mem hfc

theorem vop2_sdwa_notImpl (i : Inst) (w w1 : Nat) (h249 : extractBits w 0 8 = 249)
    (hu : sdwaUnsupported w1 = true) : ∃ k, decodeVOP2 i w = .more k ∧ k w1 = .notImpl := by
  unfold decodeVOP2
  simp only [h249, BEq.rfl, if_true]
  refine ⟨_, rfl, ?_⟩
  by_cases b13 : extractBits w1 13 13 = 1; · simp [b13]
  by_cases b19 : extractBits w1 19 19 = 1; · simp [b13, b19]
  by_cases b20 : extractBits w1 20 20 = 1; · simp [b13, b19, b20]
  by_cases b21 : extractBits w1 21 21 = 1; · simp [b13, b19, b20, b21]
  by_cases b27 : extractBits w1 27 27 = 1; · simp [b13, b19, b20, b21, b27]
  by_cases b28 : extractBits w1 28 28 = 1; · simp [b13, b19, b20, b21, b27, b28]
  by_cases b29 : extractBits w1 29 29 = 1; · simp [b13, b19, b20, b21, b27, b28, b29]
  simp [sdwaUnsupported, b13, b19, b20, b21, b27, b28, b29] at hu

theorem decodeCore_notImpl
    (hh : (allRows.all fun r => formats.all fun f => f.ft != r.ft || ftSizes.contains (f.ft, f.size)) = true)
    (hh3 : (cdna3Rows.all fun r => formats.all fun f => f.ft != r.ft || ftSizes.contains (f.ft, f.size)) = true)
    (c : Bool) (w0 : Nat) (w1? : Option Nat) (h : decodeCore (lookUpArch c) c w0 w1? = .notImpl) :
    (matchFormat w0).map (·.ft) = some FT_VOP2 ∧ extractBits w0 0 8 = 249 ∧
      ∃ w1, w1? = some w1 ∧ sdwaUnsupported w1 = true := by
  unfold decodeCore at h
  cases hm : matchFormat w0 with
  | none => simp [hm] at h
  | some f =>
    simp only [hm] at h
    cases hlk : lookUpArch c f.ft (extractBits w0 f.opLo f.opHi) with
    | none => simp [hlk] at h
    | some row =>
      simp only [hlk] at h
      obtain ⟨hr, hrf, _⟩ := lookUpArch_some hlk
      have hfs : (f.ft, f.size) ∈ ftSizes := by
        rcases hr with hr | hr
        · have := List.all_eq_true.mp (List.all_eq_true.mp hh row hr) f (matchFormat_mem hm)
          simpa [hrf] using this
        · have := List.all_eq_true.mp (List.all_eq_true.mp hh3 row hr) f (matchFormat_mem hm)
          simpa [hrf] using this
      obtain ⟨h2, h249, w1, hw1, hu⟩ := decodeRow_notImpl c f row _ _ hfs h
      exact ⟨by simp [h2], h249, w1, hw1, hu⟩

theorem decodeCore_sdwa (look : Nat → Nat → Option Row) (c : Bool) (w0 w1 : Nat) (f : Format) (hm : matchFormat w0 = some f)
    (h2 : f.ft = FT_VOP2) (hrow : (look f.ft (extractBits w0 f.opLo f.opHi)).isSome = true)
    (h249 : extractBits w0 0 8 = 249) (hu : sdwaUnsupported w1 = true) :
    decodeCore look c w0 (some w1) = .notImpl := by
  have hsz : f.size ≠ 8 := by
    obtain ⟨a1, _⟩ := fmt_vop2 f (matchFormat_mem hm) h2
    omega
  cases hlk : look f.ft (extractBits w0 f.opLo f.opHi) with
  | none => simp [hlk] at hrow
  | some row =>
    unfold decodeCore
    simp only [hm, hlk]
    rw [decodeRow_4 _ _ _ _ _ hsz]
    obtain ⟨k, hk, hkn⟩ := vop2_sdwa_notImpl { name := row.name, ft := f.ft, opcode := row.opcode } w0 w1 h249 hu
    have hd4 : dec4 { name := row.name, ft := f.ft, opcode := row.opcode } row w0 =
        some (decodeVOP2 { name := row.name, ft := f.ft, opcode := row.opcode } w0) := by
      simp [dec4, h2, FT_VOP2, FT_SOP2]
    rw [hd4, hk]
    simp [row4, hkn, Outcome.setSize]

end C04
