import MgpuProofs.C19SysInv
/-! # C19 — the closed system: the driver stages `sendToGPUs`, `sendToMMU`, `sendMigrationReqToCP`,
    `parseFromMMU` and the idle cases of `processReturnReq` keep the invariant -/
namespace C19
namespace SY
open CP (Cp Cls K Sub Cmd Ans)
open DR (Drv MmuReq MigCmd)

/-! ## every component of the invariant reads only a few fields of the state -/

theorem c1_reqOK {s s' : Sys} {r : MmuReq} (h : ReqOK s r)
    (hp : s'.drv.pids = s.drv.pids := by rfl) (hn : s'.drv.ngpu = s.drv.ngpu := by rfl)
    (ha : s'.drv.alloc = s.drv.alloc := by rfl) : ReqOK s' r := by
  obtain ⟨h1, h2, h3, h4, h5, h6, h7, h8, h9, h10, h11⟩ := h
  constructor <;> (try rw [hp]) <;> (try rw [hn]) <;> (try rw [ha]) <;> assumption

theorem c1_pagesOK {s s' : Sys} {r : MmuReq} (h : PagesOK s r)
    (hn : s'.drv.ngpu = s.drv.ngpu := by rfl) (ha : s'.drv.alloc = s.drv.alloc := by rfl) : PagesOK s' r := by
  obtain ⟨h1, h2⟩ := h
  constructor <;> (try rw [hn]) <;> (try rw [ha]) <;> assumption

theorem c1_rehomed {s s' : Sys} {r : MmuReq} (h : Rehomed s r)
    (hm : s'.drv.migLog = s.drv.migLog := by rfl) (hn : s'.drv.ngpu = s.drv.ngpu := by rfl)
    (ha : s'.drv.alloc = s.drv.alloc := by rfl) : Rehomed s' r := by
  obtain ⟨h1⟩ := h
  constructor; rw [hm, hn, ha]; exact h1

theorem c1_ctrs {d d' : Drv} {p : Option PK} {n : Nat} (h : Ctrs d p n)
    (h1 : d'.drain = d.drain := by rfl) (h2 : d'.shoot = d.shoot := by rfl) (h3 : d'.mig = d.mig := by rfl)
    (h4 : d'.restart = d.restart := by rfl) (h5 : d'.rdma = d.rdma := by rfl) : Ctrs d' p n := by
  unfold Ctrs at h ⊢; rw [h1, h2, h3, h4, h5]; exact h

theorem c1_worldInv {s : Sys} {d' : Drv} {ws : WSt} (h : WorldInv s ws) : WorldInv { s with drv := d' } ws := by
  exact ⟨h.reach, h.live, h.back⟩

theorem c1_migOK {s s' : Sys} {r : MmuReq} {m : MigCmd} (h : MigOK s r m)
    (hm : s'.drv.migLog = s.drv.migLog := by rfl) (hw : s'.w = s.w := by rfl) : MigOK s' r m := by
  obtain ⟨h1, h2, h3, h4, h5, h6⟩ := h
  constructor <;> (try rw [hm]) <;> (try rw [hw]) <;> assumption

theorem c1_mmuInv {s s' : Sys} {pc : List Nat} (h : MmuInv s pc)
    (h1 : s'.drv.lost = s.drv.lost := by rfl) (h2 : s'.drv.taken = s.drv.taken := by rfl)
    (h3 : s'.drv.mmuIn = s.drv.mmuIn := by rfl) (h4 : s'.drv.mmuOut = s.drv.mmuOut := by rfl)
    (h5 : s'.drv.answered = s.drv.answered := by rfl) (h6 : s'.drv.toMMU = s.drv.toMMU := by rfl)
    (h7 : s'.mmuSent = s.mmuSent := by rfl) (h8 : s'.mmuGot = s.mmuGot := by rfl) : MmuInv s' pc := by
  obtain ⟨a1, a2, a3, a4, a5, a6, a7, a8⟩ := h
  constructor <;> (try rw [h1]) <;> (try rw [h2]) <;> (try rw [h3]) <;> (try rw [h4]) <;> (try rw [h5]) <;>
    (try rw [h6]) <;> (try rw [h7]) <;> (try rw [h8]) <;> assumption

theorem c1_bcast {s s' : Sys} {p : PK} {r : MmuReq} {σ : Split} {loc : Nat → BLoc} (h : Bcast s p r σ loc)
    (h1 : s'.drv.ngpu = s.drv.ngpu := by rfl) (h2 : s'.drv.toSend = s.drv.toSend := by rfl)
    (h3 : s'.drv.gpuOut = s.drv.gpuOut := by rfl) (h4 : s'.drv.gpuIn = s.drv.gpuIn := by rfl)
    (h5 : s'.cp = s.cp := by rfl) (h6 : s'.cm = s.cm := by rfl) : Bcast s' p r σ loc := by
  obtain ⟨a1, a2, a3, a4, a5, a6, a7⟩ := h
  constructor <;> (try rw [h1]) <;> (try rw [h2]) <;> (try rw [h3]) <;> (try rw [h4]) <;> (try rw [h5]) <;>
    (try rw [h6]) <;> assumption

theorem c1_migPh {s s' : Sys} {r : MmuReq} {fl : Option (MigCmd × MigAt)} {ws : WSt} (h : MigPh s r fl ws)
    (h1 : s'.drv.ngpu = s.drv.ngpu := by rfl) (h2 : s'.drv.toSend = s.drv.toSend := by rfl)
    (h3 : s'.drv.gpuOut = s.drv.gpuOut := by rfl) (h4 : s'.drv.gpuIn = s.drv.gpuIn := by rfl)
    (h5 : s'.cp = s.cp := by rfl) (h6 : s'.cm = s.cm := by rfl)
    (h7 : s'.drv.toCP = s.drv.toCP := by rfl) (h8 : s'.drv.one = s.drv.one := by rfl)
    (h9 : s'.drv.mig = s.drv.mig := by rfl) (hm : s'.drv.migLog = s.drv.migLog := by rfl)
    (hw : s'.w = s.w := by rfl) : MigPh s' r fl ws := by
  have hq : ∀ m, MigOK s r m → MigOK s' r m := fun m x => c1_migOK x hm hw
  have e5 : s'.drv.mig = s'.drv.toCP.length + (if fl.isSome then 1 else 0) := by rw [h9, h7]; exact h.ctr
  have e6 : 0 < s'.drv.mig := by rw [h9]; exact h.pos
  have e9 := h.busy
  have e10 := h.idle
  rw [← h1, ← h5, ← h6] at e9 e10
  exact ⟨h2.trans h.toSend, fun m hm' => hq m (h.queue m (h7 ▸ hm')), fun m a e => hq m (h.fly m a e),
      h8.trans h.one, e5, e6, h3.trans h.gpuOut, h4.trans h.gpuIn, e9, e10, h.ws⟩

theorem c1_drvIdle {d d' : Drv} (h : DrvIdle d)
    (h1 : d'.handling = d.handling := by rfl) (h2 : d'.cur = d.cur := by rfl)
    (c1 : d'.drain = d.drain := by rfl) (c2 : d'.shoot = d.shoot := by rfl) (c3 : d'.mig = d.mig := by rfl)
    (c4 : d'.restart = d.restart := by rfl) (c5 : d'.rdma = d.rdma := by rfl)
    (h3 : d'.toSend = d.toSend := by rfl) (h4 : d'.toCP = d.toCP := by rfl) (h5 : d'.one = d.one := by rfl)
    (h6 : d'.gpuIn = d.gpuIn := by rfl) (h7 : d'.gpuOut = d.gpuOut := by rfl) : DrvIdle d' := by
  obtain ⟨a1, a2, a3, a4, a5, a6, a7, a8⟩ := h
  exact ⟨h1 ▸ a1, h2 ▸ a2, c1_ctrs a3 c1 c2 c3 c4 c5, h3 ▸ a4, h4 ▸ a5, h5 ▸ a6, h6 ▸ a7, h7 ▸ a8⟩

theorem c1_relOK {s s' : Sys} {f : Nat} (h : RelOK s f) (ha : s'.drv.alloc = s.drv.alloc := by rfl)
    (hw : s'.w = s.w := by rfl) : RelOK s' f := by
  unfold RelOK at h ⊢; rw [ha, hw]; exact h

theorem c1_relInv {s s' : Sys} (h : RelInv s) (ha : s'.drv.alloc = s.drv.alloc := by rfl)
    (htc : s'.drv.toCP = s.drv.toCP := by rfl) (ho : s'.drv.one = s.drv.one := by rfl)
    (hf : s'.drv.oldF = s.drv.oldF := by rfl) (hw : s'.w = s.w := by rfl) : RelInv s' := by
  obtain ⟨a1, a2, a3⟩ := h
  refine ⟨by rw [ha]; exact a1, ?_, ?_⟩
  · intro m hm; rw [htc] at hm; exact c1_relOK (a2 m hm) ha hw
  · intro h1; rw [ho] at h1; rw [hf]; exact c1_relOK (a3 h1) ha hw

/-- everything of `Inv` except the phase and the pending request -/
theorem c1_inv_mk {s s' : Sys} (h : Inv s)
    (hpend : ∀ r ∈ s'.drv.mmuIn, ReqOK s' r ∧ PagesOK s' r ∧ r.id = s'.drv.taken.length) (hph : Phase s')
    (h1 : s'.cp = s.cp := by rfl) (h2 : s'.drv.ngpu = s.drv.ngpu := by rfl)
    (h3 : s'.drv.nPmc = s.drv.nPmc := by rfl) (h4 : s'.drv.capGpuIn = s.drv.capGpuIn := by rfl)
    (h5 : s'.drv.capGpuOut = s.drv.capGpuOut := by rfl) (h6 : s'.drv.fault = s.drv.fault := by rfl)
    (h7 : s'.drv.alloc = s.drv.alloc := by rfl) (h8 : s'.w = s.w := by rfl)
    (h9 : s'.drv.migLog = s.drv.migLog := by rfl) (h10 : s'.drv.nMig = s.drv.nMig := by rfl)
    (hrel : RelInv s' := by exact c1_relInv h.rel) : Inv s' := by
  obtain ⟨a1, a2, a3, a4, a5, a6, a7, _, _, _⟩ := h
  refine ⟨?_, ?_, ?_, ?_, ?_, ?_, ?_, hpend, hph, hrel⟩
  · rw [h1]; exact a1
  · rw [h2, h3]; exact a2
  · rw [h2, h4, h5]; exact a3
  · rw [h6]; exact a4
  · rw [h7, h8]; exact a5
  · rw [h7]; exact a6
  · rw [h9, h10]; exact a7

/-- the pending request when neither it nor what it reads changed -/
theorem c1_pending {s s' : Sys} (h : Inv s)
    (h1 : s'.drv.mmuIn = s.drv.mmuIn := by rfl) (h2 : s'.drv.taken = s.drv.taken := by rfl)
    (hp : s'.drv.pids = s.drv.pids := by rfl) (hn : s'.drv.ngpu = s.drv.ngpu := by rfl)
    (ha : s'.drv.alloc = s.drv.alloc := by rfl) :
    ∀ r ∈ s'.drv.mmuIn, ReqOK s' r ∧ PagesOK s' r ∧ r.id = s'.drv.taken.length := by
  rw [h1, h2]
  exact fun r hr => ⟨c1_reqOK (h.pending r hr).1 hp hn ha, c1_pagesOK (h.pending r hr).2.1 hn ha, (h.pending r hr).2.2⟩

/-! ## `processReturnReq` with nothing to do -/

theorem inv_ret_nil {s : Sys} (h : Inv s) (hin : s.drv.gpuIn = []) : Inv { s with drv := s.drv.ret.1 } := by
  have e : s.drv.ret.1 = s.drv := by
    have hf : s.drv.fault.isSome = false := by rw [h.nf]; rfl
    unfold Drv.ret; rw [hf, hin]; rfl
  rw [e]; exact h

theorem inv_ret_flush {s : Sys} (h : Inv s) (f : Nat) (rest : List Ans) (hin : s.drv.gpuIn = .flush f :: rest) :
    Inv { s with drv := s.drv.ret.1 } := by
  have e : s.drv.ret.1 = s.drv := by
    have hf : s.drv.fault.isSome = false := by rw [h.nf]; rfl
    unfold Drv.ret; rw [hf, hin]; rfl
  rw [e]; exact h

/-! ## `sendToGPUs` -/

theorem c1_sGpu_eq (d : Drv) (hf : d.fault = none) : d.sGpu.1 = match d.toSend with
    | [] => d
    | m :: rest =>
      if d.gpuOut.length < d.capGpuOut then { d with gpuOut := d.gpuOut ++ [m], toSend := rest } else d := by
  have hf' : d.fault.isSome = false := by rw [hf]; rfl
  unfold Drv.sGpu; rw [hf']
  simp only [Bool.false_eq_true, ↓reduceIte]
  cases d.toSend with
  | nil => rfl
  | cons m rest => by_cases hl : d.gpuOut.length < d.capGpuOut <;> simp only [hl, ↓reduceIte]

theorem c1_sGpu {s : Sys} (h : Inv s) {m : Nat × Cmd} {rest : List (Nat × Cmd)} (hts : s.drv.toSend = m :: rest) :
    Inv { s with drv := { s.drv with gpuOut := s.drv.gpuOut ++ [m], toSend := rest } } := by
  refine c1_inv_mk h (c1_pending h) ?_
  rcases h.ph with ⟨di, _, _, _⟩ | ⟨p, r, σ, loc, hp, hh, hc, hr, hct, htc, ho, hb, hw, hm, hpg, hrh⟩ |
      ⟨r, fl, ws, _, _, _, _, mp, _, _, _⟩
  · rw [di.toSend] at hts; cases hts
  · have e := hb.toSend; rw [hts] at e
    obtain ⟨wt, snt, atG, bk, dn⟩ := σ
    cases wt with
    | nil => cases e
    | cons g0 w' =>
      simp only [List.map_cons, List.cons.injEq] at e
      obtain ⟨rfl, rfl⟩ := e
      have hop : (Split.mk w' (snt ++ [g0]) atG bk dn).open_ = (Split.mk (g0 :: w') snt atG bk dn).open_ := by
        simp only [Split.open_, List.length_append, List.length_cons, List.length_nil]; omega
      have hperm : (Split.mk w' (snt ++ [g0]) atG bk dn).all.Perm (Split.mk (g0 :: w') snt atG bk dn).all := by
        show (w' ++ (snt ++ [g0]) ++ atG ++ bk ++ dn).Perm (g0 :: (w' ++ snt) ++ atG ++ bk ++ dn)
        refine List.Perm.append_right dn (List.Perm.append_right bk (List.Perm.append_right atG ?_))
        rw [← List.append_assoc]; exact List.perm_append_singleton g0 (w' ++ snt)
      refine Phase.bcast p r ⟨w', snt ++ [g0], atG, bk, dn⟩ loc hp hh hc (c1_reqOK hr) (hop ▸ c1_ctrs hct) htc ho ?_
        (c1_worldInv hw) (c1_mmuInv hm) (fun x => c1_pagesOK (hpg x)) (fun x => c1_rehomed (hrh x))
      refine ⟨hperm.trans hb.perm, rfl, ?_, hb.gpuIn, hop ▸ hb.pos, hb.busy, hb.idle⟩
      show s.drv.gpuOut ++ [(g0, cmdOf p r)] = (snt ++ [g0]).map (fun g => (g, cmdOf p r))
      rw [hb.gpuOut, List.map_append]; rfl
  · rw [mp.toSend] at hts; cases hts

theorem inv_sGpu {s : Sys} (h : Inv s) : Inv { s with drv := s.drv.sGpu.1 } := by
  rw [c1_sGpu_eq _ h.nf]
  split
  · exact h
  · rename_i m rest hts
    split
    · exact c1_sGpu h hts
    · exact h

/-! ## `sendToMMU` -/

theorem c1_sMmu_eq (d : Drv) (hf : d.fault = none) : d.sMmu.1 = match d.toMMU with
    | none => d
    | some a =>
      if d.mmuOut.length < 1 then
        { d with mmuOut := d.mmuOut ++ [a], toMMU := none, answered := d.answered ++ [a.1] } else d := by
  have hf' : d.fault.isSome = false := by rw [hf]; rfl
  unfold Drv.sMmu; rw [hf']
  simp only [Bool.false_eq_true, ↓reduceIte]
  cases d.toMMU with
  | none => rfl
  | some a => by_cases hl : d.mmuOut.length < 1 <;> simp only [hl, ↓reduceIte]

theorem c1_mmuInv_sMmu {s : Sys} {pc : List Nat} {a : Nat × List Nat} (h : MmuInv s pc)
    (ht : s.drv.toMMU = some a) (hl : s.drv.mmuOut.length < 1) :
    MmuInv { s with drv := { s.drv with mmuOut := s.drv.mmuOut ++ [a], toMMU := none,
                                        answered := s.drv.answered ++ [a.1] } } pc := by
  have hans := h.ans; rw [ht] at hans
  refine ⟨h.lost, h.sent, h.ids, ?_, ?_, h.one, ?_, ⟨h.cap.1, ?_⟩⟩
  · show s.mmuGot ++ (s.drv.mmuOut ++ [a]).map (·.1) = s.drv.answered ++ [a.1]
    rw [List.map_append, ← List.append_assoc, h.got]; rfl
  · show s.drv.answered ++ [a.1] ++ [] ++ pc = s.drv.taken
    rw [List.append_nil]; exact hans
  · intro hpc; have := (h.fresh hpc).1; rw [ht] at this; cases this
  · show (s.drv.mmuOut ++ [a]).length ≤ 1
    rw [List.length_append]; show s.drv.mmuOut.length + 1 ≤ 1; omega

theorem c1_sMmu {s : Sys} (h : Inv s) {a : Nat × List Nat} (ht : s.drv.toMMU = some a)
    (hl : s.drv.mmuOut.length < 1) :
    Inv { s with drv := { s.drv with mmuOut := s.drv.mmuOut ++ [a], toMMU := none,
                                     answered := s.drv.answered ++ [a.1] } } := by
  refine c1_inv_mk h (c1_pending h) ?_
  rcases h.ph with ⟨di, gi, hw, hm⟩ | ⟨p, r, σ, loc, hp, hh, hc, hr, hct, htc, ho, hb, hw, hm, hpg, hrh⟩ |
      ⟨r, fl, ws, hh, hc, hr, hct, mp, hw, hm, hrh⟩
  · exact Phase.idle (c1_drvIdle di) gi (c1_worldInv hw) (c1_mmuInv_sMmu hm ht hl)
  · exact Phase.bcast p r σ loc hp hh hc (c1_reqOK hr) (c1_ctrs hct) htc ho (c1_bcast hb) (c1_worldInv hw)
      (c1_mmuInv_sMmu hm ht hl) (fun x => c1_pagesOK (hpg x)) (fun x => c1_rehomed (hrh x))
  · exact Phase.mig r fl ws hh hc (c1_reqOK hr) (c1_ctrs hct) (c1_migPh mp) (c1_worldInv hw)
      (c1_mmuInv_sMmu hm ht hl) (c1_rehomed hrh)

theorem inv_sMmu {s : Sys} (h : Inv s) : Inv { s with drv := s.drv.sMmu.1 } := by
  rw [c1_sMmu_eq _ h.nf]
  split
  · exact h
  · rename_i a ht
    split
    · rename_i hl; exact c1_sMmu h ht hl
    · exact h

/-! ## `sendMigrationReqToCP` -/

theorem c1_sMig_eq (d : Drv) (hf : d.fault = none) : d.sMig.1 = match d.toCP with
    | [] => d
    | m :: rest =>
      if d.one then d
      else if d.gpuOut.length < d.capGpuOut then
        { d with gpuOut := d.gpuOut ++ [(m.gpu, .mig m.id)], toCP := rest, one := true, oldF := m.rd } else d := by
  have hf' : d.fault.isSome = false := by rw [hf]; rfl
  unfold Drv.sMig; rw [hf']
  simp only [Bool.false_eq_true, ↓reduceIte]
  cases d.toCP with
  | nil => rfl
  | cons m rest =>
    by_cases ho : d.one = true <;> by_cases hl : d.gpuOut.length < d.capGpuOut <;>
      simp only [ho, hl, Bool.false_eq_true, ↓reduceIte]

theorem c1_sMig {s : Sys} (h : Inv s) {m : MigCmd} {rest : List MigCmd} (htc : s.drv.toCP = m :: rest)
    (ho : s.drv.one = false) :
    Inv { s with drv := { s.drv with gpuOut := s.drv.gpuOut ++ [(m.gpu, .mig m.id)], toCP := rest, one := true,
                                       oldF := m.rd } } := by
  have hrel : RelInv { s with drv := { s.drv with gpuOut := s.drv.gpuOut ++ [(m.gpu, .mig m.id)], toCP := rest,
                                                    one := true, oldF := m.rd } } := by
    obtain ⟨a1, a2, a3⟩ := h.rel
    refine ⟨a1, ?_, ?_⟩
    · intro m' hm'
      exact c1_relOK (a2 m' (by rw [htc]; exact List.mem_cons_of_mem _ hm'))
    · intro _
      exact c1_relOK (a2 m (by rw [htc]; exact List.mem_cons_self ..))
  refine c1_inv_mk h (c1_pending h) ?_ (hrel := hrel)
  rcases h.ph with ⟨di, _, _, _⟩ | ⟨p, r, σ, loc, hp, hh, hc, hr, hct, htc', ho', hb, hw, hm, hpg, hrh⟩ |
      ⟨r, fl, ws, hh, hc, hr, hct, mp, hw, hm, hrh⟩
  · rw [di.toCP] at htc; cases htc
  · rw [htc'] at htc; cases htc
  · have hfl : fl = none := by
      have := mp.one; rw [ho] at this
      cases fl with
      | none => rfl
      | some x => cases this
    subst hfl
    have hq := mp.queue; rw [htc] at hq
    have hctr := mp.ctr; rw [htc] at hctr
    refine Phase.mig r (some (m, .sent)) ws hh hc (c1_reqOK hr) (c1_ctrs hct) ?_ (c1_worldInv hw) (c1_mmuInv hm)
      (c1_rehomed hrh)
    refine ⟨mp.toSend, fun m' hm' => c1_migOK (hq m' (List.mem_cons_of_mem _ hm')), ?_, rfl, ?_, mp.pos, ?_,
      mp.gpuIn, ?_, ?_, mp.ws⟩
    · intro m' a e; cases e; exact c1_migOK (hq m List.mem_cons_self)
    · show s.drv.mig = rest.length + (if (some (m, MigAt.sent)).isSome then 1 else 0)
      rw [hctr]; simp
    · show s.drv.gpuOut ++ [(m.gpu, Cmd.mig m.id)] = flOut (some (m, .sent))
      rw [mp.gpuOut]; rfl
    · intro m' loc e; cases e
    · intro g _; exact mp.idle g (fun m' loc e => by cases e)

theorem inv_sMig {s : Sys} (h : Inv s) : Inv { s with drv := s.drv.sMig.1 } := by
  rw [c1_sMig_eq _ h.nf]
  split
  · exact h
  · rename_i m rest htc
    split
    · exact h
    · rename_i ho
      split
      · exact c1_sMig h htc (by simpa using ho)
      · exact h

/-! ## `parseFromMMU` -/

theorem c1_parse_eq (d : Drv) (hf : d.fault = none) : d.parse.1 =
    if d.handling then d else match d.mmuIn with
    | [] => d
    | r :: rest =>
      { d with mmuIn := rest, cur := some r, handling := true, taken := d.taken ++ [r.id],
               toSend := d.toSend ++ (List.range d.ngpu).map (fun g => (g, Cmd.drain)),
               drain := (d.drain + d.ngpu) % CP.w64 } := by
  have hf' : d.fault.isSome = false := by rw [hf]; rfl
  unfold Drv.parse; rw [hf']
  simp only [Bool.false_eq_true, ↓reduceIte]
  by_cases hh : d.handling = true
  · simp only [hh, ↓reduceIte]
  · simp only [hh]
    cases d.mmuIn with
    | nil => rfl
    | cons r rest => rfl

theorem c1_parse {s : Sys} (h : Inv s) {r : MmuReq} {rest : List MmuReq} (hh : s.drv.handling = false)
    (hmi : s.drv.mmuIn = r :: rest) :
    Inv { s with drv :=
            { s.drv with mmuIn := rest, cur := some r, handling := true, taken := s.drv.taken ++ [r.id],
                         toSend := s.drv.toSend ++ (List.range s.drv.ngpu).map (fun g => (g, Cmd.drain)),
                         drain := (s.drv.drain + s.drv.ngpu) % CP.w64 } } := by
  rcases h.ph with ⟨di, gi, hw, hm⟩ | ⟨_, _, _, _, _, hh', _, _, _, _, _, _, _, _, _, _⟩ |
      ⟨_, _, _, hh', _, _, _, _, _, _, _⟩
  rotate_left
  · rw [hh] at hh'; cases hh'
  · rw [hh] at hh'; cases hh'
  have hrest : rest = [] := by
    have := hm.cap.1; rw [hmi] at this
    cases rest with
    | nil => rfl
    | cons _ _ => simp only [List.length_cons] at this; omega
  subst hrest
  obtain ⟨hrq, hpg, hid⟩ := h.pending r (by rw [hmi]; exact List.mem_cons_self)
  -- the previous answer has left the driver
  have h1 := hm.one (by rw [hmi]; exact List.cons_ne_nil _ _)
  have h2 := congrArg List.length hm.got
  have hans := hm.ans
  rw [List.append_nil] at hans
  have h3 := congrArg List.length hans
  rw [h1] at h2
  simp only [List.length_append, List.length_map] at h2 h3
  have hout : s.drv.mmuOut = [] := List.eq_nil_of_length_eq_zero (by omega)
  have htm : s.drv.toMMU = none := by
    cases htm : s.drv.toMMU with
    | none => rfl
    | some a => rw [htm] at h3; simp only [List.length_cons, List.length_nil] at h3; omega
  have hsent := hm.sent
  rw [hmi] at hsent
  have hmmu : MmuInv { s with drv :=
            { s.drv with mmuIn := [], cur := some r, handling := true, taken := s.drv.taken ++ [r.id],
                         toSend := s.drv.toSend ++ (List.range s.drv.ngpu).map (fun g => (g, Cmd.drain)),
                         drain := (s.drv.drain + s.drv.ngpu) % CP.w64 } } [r.id] := by
    refine ⟨hm.lost, ?_, hm.ids, hm.got, ?_, fun hne => (hne rfl).elim, fun _ => ⟨htm, hout⟩, ⟨Nat.zero_le 1, hm.cap.2⟩⟩
    · show s.mmuSent = s.drv.taken ++ [r.id] ++ ([] : List MmuReq).map (·.id)
      rw [hsent]; simp
    · exact congrArg (· ++ [r.id]) hans
  have hc := di.ctrs
  simp only [Ctrs, reduceCtorEq, ↓reduceIte] at hc
  refine c1_inv_mk h (fun r' hr' => (List.not_mem_nil hr').elim) ?_
  refine Phase.bcast .drain r { wait := List.range s.drv.ngpu } (fun _ => .cmd) (by decide) rfl rfl (c1_reqOK hrq)
    ?_ di.toCP di.one ?_ (c1_worldInv hw) (by rw [if_pos (Or.inl rfl)]; exact hmmu) (fun _ => c1_pagesOK hpg)
    (fun x => by rcases x with x | x <;> cases x)
  · refine ⟨?_, ?_, ?_, ?_, ?_⟩
    · show (s.drv.drain + s.drv.ngpu) % CP.w64 = if some PK.drain = some PK.drain then _ else 0
      rw [if_pos rfl, hc.1, Nat.zero_add, Nat.mod_eq_of_lt h.ng.2.1]
      simp [Split.open_]
    · show s.drv.shoot = _
      rw [hc.2.1]; simp
    · show s.drv.mig = _
      rw [hc.2.2.1]; simp
    · show s.drv.restart = _
      rw [hc.2.2.2.1]; simp
    · show s.drv.rdma = _
      rw [hc.2.2.2.2]; simp
  · refine ⟨?_, ?_, ?_, ?_, ?_, ?_, ?_⟩
    · show (List.range s.drv.ngpu ++ [] ++ [] ++ [] ++ []).Perm (List.range s.drv.ngpu)
      simp
    · show s.drv.toSend ++ (List.range s.drv.ngpu).map (fun g => (g, Cmd.drain)) = _
      rw [di.toSend]; rfl
    · show s.drv.gpuOut = _
      rw [di.gpuOut]; rfl
    · show s.drv.gpuIn = _
      rw [di.gpuIn]; rfl
    · show 0 < (List.range s.drv.ngpu).length + 0 + 0 + 0
      have := h.ng.1
      simp only [List.length_range]; omega
    · intro g hg; cases hg
    · intro g _; exact gi g

theorem inv_parse {s : Sys} (h : Inv s) : Inv { s with drv := s.drv.parse.1 } := by
  rw [c1_parse_eq _ h.nf]
  split
  · exact h
  · rename_i hh
    split
    · exact h
    · rename_i r rest hmi
      exact c1_parse h (by simpa using hh) hmi

end SY
end C19
