import MgpuProofs.C16Fair
/-! # C16 — the control path (flush / restart acknowledgements) and lookup coalescing

* `KInv`: one acknowledgement per command taken; the epoch counts the flushes taken; the translator
  is flushing iff the last command taken was a flush. Holds after every op sequence.
* `CtlW`: in the closed world every command the controller delivered is still waiting at the control
  port or was taken, in order; every acknowledgement sent has reached the controller or waits in the
  control port's outgoing buffer; a restart is only ever taken directly after a flush.
* `pend`: the (PID, page) keys of the transactions still waiting for their translation are pairwise
  distinct (`PInv`): no lookup is sent while one for the same PID and page is outstanding; `translate`
  never touches a completed transaction (`translate_done_unchanged`). -/
namespace C16

/-! ## ghost fields no pipeline stage touches -/

def SameK (a : Nat) (t : List Ctl) (s : St) : Prop := s.acks = a ∧ s.taken = t

theorem translate_sameK (c : Cfg) (a : Nat) (t : List Ctl) (s : St) (h : SameK a t s) : SameK a t (translate c s).1 := by
  unfold translate; split
  · exact h
  · split
    · exact h
    · split
      · exact h
      · exact h

theorem parseTranslation_sameK (c : Cfg) (a : Nat) (t : List Ctl) (s : St) (h : SameK a t s) :
    SameK a t (parseTranslation c s).1 := by
  unfold parseTranslation; split
  · split
    · split
      · exact h
      · exact h
    · exact h
  · split
    · exact h
    · split
      · exact h
      · split
        · exact h
        · split
          · exact h
          · exact h

theorem respond_sameK (c : Cfg) (a : Nat) (t : List Ctl) (s : St) (h : SameK a t s) : SameK a t (respond c s).1 := by
  unfold respond; split
  · exact h
  · split
    · exact h
    · split
      · exact h
      · exact h

theorem pipe_sameK (c : Cfg) (s : St) : (pipe c s).1.acks = s.acks ∧ (pipe c s).1.taken = s.taken :=
  pipe_pres2 (P := SameK s.acks s.taken) c (fun s h _ => respond_sameK c _ _ s h)
    (parseTranslation_sameK c _ _) (fun s h _ => translate_sameK c _ _ s h) s ⟨rfl, rfl⟩

/-! ## `KInv` -/

structure KInv (s : St) : Prop where
  acks : s.acks = s.taken.length
  ep : s.epoch = s.taken.count .flush
  fl : s.flushing = (s.taken.head? == some Ctl.flush)

theorem handleCtrl_kinv (s : St) (h : KInv s) : KInv (handleCtrl s).1 := by
  unfold handleCtrl
  split
  · exact h
  · split
    · exact ⟨by simp [h.acks], by simp [h.ep], by simp⟩
    · exact h
  · split
    · exact ⟨by simp [h.acks], by simp [h.ep], by simp⟩
    · exact h
  · exact ⟨h.acks, h.ep, h.fl⟩

theorem tick_kinv (c : Cfg) (s : St) (h : KInv s) : KInv (tick c s).1 := by
  rw [tick_eq]
  apply handleCtrl_kinv
  have hs := pipe_same c s
  have hk := pipe_sameK c s
  exact ⟨by rw [hk.1, hk.2]; exact h.acks, by rw [hs.2.2.1, hk.2]; exact h.ep,
    by rw [hs.2.2.2.1, hk.2]; exact h.fl⟩

theorem step_kinv (c : Cfg) (s : St) (o : Op) (h : KInv s) : KInv (step c s o) := by
  cases o with
  | tick => exact tick_kinv c s h
  | access pid va pl => simp only [step]; split <;> exact ⟨h.acks, h.ep, h.fl⟩
  | trsp r => simp only [step]; split <;> exact ⟨h.acks, h.ep, h.fl⟩
  | brsp r => simp only [step]; split <;> exact ⟨h.acks, h.ep, h.fl⟩
  | drainTop => exact ⟨h.acks, h.ep, h.fl⟩
  | drainBot => exact ⟨h.acks, h.ep, h.fl⟩
  | drainTr => exact ⟨h.acks, h.ep, h.fl⟩
  | drainCtl => exact ⟨h.acks, h.ep, h.fl⟩
  | ctl k => simp only [step]; split <;> exact ⟨h.acks, h.ep, h.fl⟩

theorem run_kinv (c : Cfg) (ops : List Op) : KInv (run c ops) :=
  run_pres c (step_kinv c) ops {} ⟨rfl, rfl, rfl⟩

/-! ## `CtlW` -/

structure CtlW (w : CW) : Prop where
  sent : w.sentCtl = w.s.ctlIn.reverse ++ w.s.taken
  seen : w.ackSeen + w.s.ctlOut = w.s.acks
  rs : ∀ pre post, w.s.taken = pre ++ Ctl.restart :: post → post.head? = some Ctl.flush

theorem ctlw_of_same {w w' : CW} (h : CtlW w) (e1 : w'.sentCtl = w.sentCtl) (e2 : w'.s.ctlIn = w.s.ctlIn)
    (e3 : w'.s.taken = w.s.taken) (e4 : w'.ackSeen = w.ackSeen) (e5 : w'.s.ctlOut = w.s.ctlOut)
    (e6 : w'.s.acks = w.s.acks) : CtlW w' :=
  ⟨by rw [e1, e2, e3]; exact h.sent, by rw [e4, e5, e6]; exact h.seen, by rw [e3]; exact h.rs⟩

theorem ctlw_tick (c : Cfg) (e : Env) (w : CW) (hw : WInv c e w) (hk : KInv w.s) (h : CtlW w) :
    CtlW (hstep c e w .tick) := by
  simp only [hstep]
  split
  · have hs := pipe_same c w.s
    have hg := pipe_sameK c w.s
    have hfl : ∀ rest, (pipe c w.s).1.ctlIn = Ctl.restart :: rest → w.s.taken.head? = some Ctl.flush := by
      intro rest hc
      rw [hs.1] at hc
      rcases hw.ctl .restart (by rw [hc]; exact List.mem_cons_self ..) with h0 | ⟨_, h0⟩
      · simp at h0
      · have := hk.fl
        rw [h0] at this
        simpa using this.symm
    have key : CtlW { w with s := (handleCtrl (pipe c w.s).1).1 } := by
      unfold handleCtrl
      split
      · exact ctlw_of_same h rfl hs.1 hg.2 rfl hs.2.1 hg.1
      · rename_i rest hc
        split
        · refine ⟨?_, ?_, ?_⟩
          · show w.sentCtl = rest.reverse ++ Ctl.flush :: (pipe c w.s).1.taken
            rw [h.sent, ← hs.1, hc, hg.2]; simp
          · show w.ackSeen + ((pipe c w.s).1.ctlOut + 1) = (pipe c w.s).1.acks + 1
            rw [hs.2.1, hg.1]; have := h.seen; omega
          · intro pre post hp
            have hp' : Ctl.flush :: w.s.taken = pre ++ Ctl.restart :: post := by rw [← hg.2]; exact hp
            cases pre with
            | nil => simp at hp'
            | cons x pre' =>
              simp only [List.cons_append, List.cons.injEq] at hp'
              exact h.rs pre' post hp'.2
        · exact ctlw_of_same h rfl hs.1 hg.2 rfl hs.2.1 hg.1
      · rename_i rest hc
        split
        · refine ⟨?_, ?_, ?_⟩
          · show w.sentCtl = rest.reverse ++ Ctl.restart :: (pipe c w.s).1.taken
            rw [h.sent, ← hs.1, hc, hg.2]; simp
          · show w.ackSeen + ((pipe c w.s).1.ctlOut + 1) = (pipe c w.s).1.acks + 1
            rw [hs.2.1, hg.1]; have := h.seen; omega
          · intro pre post hp
            have hp' : Ctl.restart :: w.s.taken = pre ++ Ctl.restart :: post := by rw [← hg.2]; exact hp
            cases pre with
            | nil =>
              simp only [List.nil_append, List.cons.injEq, true_and] at hp'
              rw [← hp']; exact hfl rest hc
            | cons x pre' =>
              simp only [List.cons_append, List.cons.injEq] at hp'
              exact h.rs pre' post hp'.2
        · exact ctlw_of_same h rfl hs.1 hg.2 rfl hs.2.1 hg.1
      · exact ctlw_of_same h rfl hs.1 hg.2 rfl hs.2.1 hg.1
    exact ctlw_of_same key rfl rfl rfl rfl rfl rfl
  · exact h

theorem ctlw_step (c : Cfg) (e : Env) (w : CW) (o : HOp) (hw : WInv c e w) (hk : KInv w.s) (h : CtlW w) :
    CtlW (hstep c e w o) := by
  cases o with
  | tick => exact ctlw_tick c e w hw hk h
  | access pid va pl => simp only [hstep, step]; split <;> exact ctlw_of_same h rfl rfl rfl rfl rfl rfl
  | ansT j =>
    simp only [hstep]
    split
    · exact h
    · split
      · simp only [step]; split <;> exact ctlw_of_same h rfl rfl rfl rfl rfl rfl
      · exact h
  | ansM j =>
    simp only [hstep]
    split
    · exact h
    · split
      · simp only [step]; split <;> exact ctlw_of_same h rfl rfl rfl rfl rfl rfl
      · exact h
  | drainTop => simp only [hstep]; split <;> first | exact h | exact ctlw_of_same h rfl rfl rfl rfl rfl rfl
  | drainBot => simp only [hstep]; split <;> first | exact h | exact ctlw_of_same h rfl rfl rfl rfl rfl rfl
  | drainTr => simp only [hstep]; split <;> first | exact h | exact ctlw_of_same h rfl rfl rfl rfl rfl rfl
  | drainCtl =>
    simp only [hstep]
    split
    · rename_i hpos
      refine ⟨h.sent, ?_, h.rs⟩
      show w.ackSeen + 1 + (w.s.ctlOut - 1) = w.s.acks
      have := h.seen; omega
    · exact h
  | flush =>
    simp only [hstep, step]
    split
    · refine ⟨?_, h.seen, h.rs⟩
      show Ctl.flush :: w.sentCtl = (w.s.ctlIn ++ [Ctl.flush]).reverse ++ w.s.taken
      rw [h.sent]; simp
    · exact ctlw_of_same h rfl rfl rfl rfl rfl rfl
  | restart =>
    simp only [hstep]
    split
    · simp only [step]
      split
      · refine ⟨?_, h.seen, h.rs⟩
        show Ctl.restart :: w.sentCtl = (w.s.ctlIn ++ [Ctl.restart]).reverse ++ w.s.taken
        rw [h.sent]; simp
      · exact ctlw_of_same h rfl rfl rfl rfl rfl rfl
    · exact h

theorem reach_ctlw {c : Cfg} {e : Env} {w : CW} (h : Reach c e w) : CtlW w := by
  induction h with
  | init => exact ⟨rfl, rfl, by intro pre post hp; cases pre <;> simp at hp⟩
  | step w o hr ih =>
    obtain ⟨ops, hops⟩ := reach_run hr
    exact ctlw_step c e w o (reach_winv hr) (hops ▸ run_kinv c ops) ih

/-! ## coalescing: keys of the transactions that still wait for their translation -/

def txKey (t : Tx) : Nat × Nat := (t.treq.pid, t.treq.vpage)

/-- (PID, page) of every transaction whose translation has not arrived yet -/
def pend (txs : List Tx) : List (Nat × Nat) := (txs.filter fun t => !t.done).map txKey

theorem pend_cons (t : Tx) (ts : List Tx) :
    pend (t :: ts) = if t.done then pend ts else txKey t :: pend ts := by
  unfold pend
  cases h : t.done <;> simp [h]

theorem pend_append (a b : List Tx) : pend (a ++ b) = pend a ++ pend b := by
  simp [pend]

theorem coalesce_pend (lg : Nat) (a : Acc) : ∀ (txs txs' : List Tx), coalesce lg a txs = some txs' →
    pend txs' = pend txs := by
  intro txs
  induction txs with
  | nil => intro txs' h; simp [coalesce] at h
  | cons t ts ih =>
    intro txs' h
    simp only [coalesce] at h
    split at h
    · simp only [Option.some.injEq] at h
      subst h
      rw [pend_cons, pend_cons]
      rfl
    · cases hc : coalesce lg a ts with
      | none => rw [hc] at h; simp at h
      | some r =>
        rw [hc] at h
        simp only [Option.map_some, Option.some.injEq] at h
        subst h
        rw [pend_cons, pend_cons, ih r hc]

theorem coalesce_done (lg : Nat) (a : Acc) : ∀ (txs txs' : List Tx), coalesce lg a txs = some txs' →
    txs'.filter (·.done) = txs.filter (·.done) := by
  intro txs
  induction txs with
  | nil => intro txs' h; simp [coalesce] at h
  | cons t ts ih =>
    intro txs' h
    simp only [coalesce] at h
    split at h
    · rename_i hcond
      simp only [Option.some.injEq] at h
      subst h
      simp [hcond.1]
    · cases hc : coalesce lg a ts with
      | none => rw [hc] at h; simp at h
      | some r =>
        rw [hc] at h
        simp only [Option.map_some, Option.some.injEq] at h
        subst h
        simp [List.filter_cons, ih r hc]

/-- `translate` never touches a completed transaction: the completed transactions (with their
    waiting requests, in order) are exactly the same before and after -/
theorem translate_done_unchanged (c : Cfg) (s : St) :
    (translate c s).1.txs.filter (·.done) = s.txs.filter (·.done) := by
  unfold translate
  split
  · rfl
  · split
    · rename_i txs' hco
      exact coalesce_done _ _ _ _ hco
    · split
      · simp
      · rfl

theorem coalesce_none (lg : Nat) (a : Acc) : ∀ (txs : List Tx), coalesce lg a txs = none →
    ∀ t ∈ txs, ¬ (t.done = false ∧ pageId lg t.treq.vpage = pageId lg a.vaddr ∧
      t.reqs.head?.map (·.pid) = some a.pid) := by
  intro txs
  induction txs with
  | nil => intro _ t ht; simp at ht
  | cons t ts ih =>
    intro h t' ht'
    simp only [coalesce] at h
    split at h
    · simp at h
    · rename_i hcond
      cases hc : coalesce lg a ts with
      | some r => rw [hc] at h; simp at h
      | none =>
        simp only [List.mem_cons] at ht'
        rcases ht' with rfl | ht'
        · exact hcond
        · exact ih hc t' ht'

theorem markFirst_pend (p : Tx → Bool) (pa : Nat) : ∀ txs, (pend (markFirst p pa txs)).Sublist (pend txs) := by
  intro txs
  induction txs with
  | nil => exact List.Sublist.refl _
  | cons t ts ih =>
    simp only [markFirst]
    split
    · rw [pend_cons, pend_cons]
      simp only [if_true]
      split
      · exact List.Sublist.refl _
      · exact List.sublist_cons_self _ _
    · rw [pend_cons, pend_cons]
      split
      · exact ih
      · exact ih.cons_cons _

theorem popFirst_pend (p : Tx → Bool) : ∀ (txs : List Tx) (t : Tx) (txs' : List Tx),
    popFirst p txs = some (t, txs') → (pend txs').Sublist (pend txs) := by
  intro txs
  induction txs with
  | nil => intro t txs' h; simp [popFirst] at h
  | cons x xs ih =>
    intro t txs' h
    simp only [popFirst] at h
    split at h
    · simp only [Option.some.injEq, Prod.mk.injEq] at h
      obtain ⟨_, h2⟩ := h
      subst h2
      split
      · rw [pend_cons]
        split
        · exact List.Sublist.refl _
        · exact List.sublist_cons_self _ _
      · rw [pend_cons, pend_cons]
        exact List.Sublist.refl _
    · cases hc : popFirst p xs with
      | none => rw [hc] at h; simp at h
      | some r =>
        rw [hc] at h
        simp only [Option.map_some, Option.some.injEq, Prod.mk.injEq] at h
        obtain ⟨h1, h2⟩ := h
        subst h2
        rw [pend_cons, pend_cons]
        split
        · exact ih r.1 r.2 (by rw [hc])
        · exact (ih r.1 r.2 (by rw [hc])).cons_cons _

/-- at most one lookup is outstanding per (PID, page) -/
def PInv (s : St) : Prop := (pend s.txs).Nodup

theorem translate_pinv (c : Cfg) (s : St) (hm : MInv c s) (h : PInv s) : PInv (translate c s).1 := by
  unfold translate
  split
  · exact h
  · rename_i a rest ht
    split
    · rename_i txs' hco
      show (pend txs').Nodup
      rw [coalesce_pend _ _ _ _ hco]; exact h
    · rename_i hco
      split
      · show (pend (s.txs ++ [_])).Nodup
        rw [pend_append]
        simp only [pend, List.filter_cons, Bool.not_false, if_true, List.filter_nil, List.map_cons, List.map_nil]
        refine List.nodup_append.mpr ⟨h, by simp, ?_⟩
        intro k hk k' hk'
        simp only [List.mem_singleton] at hk'
        subst hk'
        intro hkk
        subst hkk
        obtain ⟨t, ht', hkey⟩ := List.mem_map.mp hk
        simp only [List.mem_filter, Bool.not_eq_true'] at ht'
        obtain ⟨htm, hnd⟩ := ht'
        obtain ⟨hne, _, hpg, hall, _⟩ := hm.tx t htm
        simp only [txKey, Prod.mk.injEq] at hkey
        apply coalesce_none _ _ _ hco t htm
        refine ⟨hnd, ?_, ?_⟩
        · rw [hkey.2]; exact pageId_idem _ _
        · cases hr : t.reqs with
          | nil => exact absurd hr hne
          | cons x xs =>
            have := (hall x (by rw [hr]; exact List.mem_cons_self ..)).1
            simp [this, hkey.1]
      · exact h

theorem parseTranslation_pinv (c : Cfg) (s : St) (h : PInv s) : PInv (parseTranslation c s).1 := by
  unfold parseTranslation
  split
  · rename_i t txs' hp
    split
    · split
      · exact (popFirst_pend _ _ _ _ hp).nodup h
      · exact h
    · exact h
  · split
    · exact h
    · rename_i r rest htr
      split
      · exact h
      · rename_i t txs' hp
        split
        · exact (markFirst_pend _ _ _).nodup h
        · split
          · exact ((popFirst_pend _ _ _ _ hp).trans (markFirst_pend _ _ _)).nodup h
          · exact (markFirst_pend _ _ _).nodup h

theorem respond_pinv (c : Cfg) (s : St) (h : PInv s) : PInv (respond c s).1 := by
  unfold respond; split
  · exact h
  · split
    · exact h
    · split
      · exact h
      · exact h

theorem handleCtrl_pinv (s : St) (h : PInv s) : PInv (handleCtrl s).1 := by
  unfold handleCtrl
  split
  · exact h
  · split
    · show (pend []).Nodup
      simp [pend]
    · exact h
  · split
    · exact h
    · exact h
  · exact h

theorem tick_mpinv (c : Cfg) (s : St) (h : MInv c s ∧ PInv s) : MInv c (tick c s).1 ∧ PInv (tick c s).1 :=
  tick_pres (P := fun s => MInv c s ∧ PInv s) c
    (fun s h => ⟨respond_minv c s h.1, respond_pinv c s h.2⟩)
    (fun s h => ⟨parseTranslation_minv c s h.1, parseTranslation_pinv c s h.2⟩)
    (fun s h => ⟨translate_minv c s h.1, translate_pinv c s h.1 h.2⟩)
    (fun s h => ⟨handleCtrl_minv c s h.1, handleCtrl_pinv s h.2⟩) s h

theorem step_pinv (c : Cfg) (s : St) (o : Op) (hm : MInv c s) (h : PInv s) : PInv (step c s o) := by
  cases o with
  | tick => exact (tick_mpinv c s ⟨hm, h⟩).2
  | access pid va pl => simp only [step]; split <;> exact h
  | trsp r => simp only [step]; split <;> exact h
  | brsp r => simp only [step]; split <;> exact h
  | drainTop => exact h
  | drainBot => exact h
  | drainTr => exact h
  | drainCtl => exact h
  | ctl k => simp only [step]; split <;> exact h

theorem run_pinv (c : Cfg) (ops : List Op) : PInv (run c ops) := by
  have : MInv c (run c ops) ∧ PInv (run c ops) :=
    run_pres (P := fun s => MInv c s ∧ PInv s) c
      (fun s o h => ⟨step_minv c s o h.1, step_pinv c s o h.1 h.2⟩) ops {} ⟨minv_init c, by simp [PInv, pend]⟩
  exact this.2

/-! ## while flushing nothing carries the current epoch -/

structure FInv (s : St) : Prop where
  ae : ∀ p ∈ s.askedAt, p.2 ≤ s.epoch
  fe : ∀ l ∈ s.forwarded, l.epoch ≤ s.epoch
  fl : s.flushing = true → (∀ p ∈ s.askedAt, p.2 < s.epoch) ∧ (∀ l ∈ s.forwarded, l.epoch < s.epoch) ∧
    (∀ p ∈ s.received, p.2 < s.epoch)

theorem translate_finv (c : Cfg) (s : St) (h : FInv s) (hf : s.flushing = false) : FInv (translate c s).1 := by
  have nofl : ∀ {P : Prop}, s.flushing = true → P := fun h1 => by rw [hf] at h1; simp at h1
  unfold translate
  split
  · exact h
  · split
    · exact ⟨h.ae, h.fe, fun h1 => nofl h1⟩
    · split
      · refine ⟨?_, h.fe, fun h1 => nofl h1⟩
        intro p hp
        simp only [List.mem_cons] at hp
        rcases hp with rfl | hp
        · exact Nat.le_refl _
        · exact h.ae p hp
      · exact h

theorem respond_finv (c : Cfg) (s : St) (h : FInv s) : FInv (respond c s).1 := by
  unfold respond; split
  · exact h
  · split
    · exact ⟨h.ae, h.fe, h.fl⟩
    · split
      · exact ⟨h.ae, h.fe, h.fl⟩
      · exact h

theorem emit_finv (c : Cfg) (s : St) (a : Acc) (p : Nat) (txs' : List Tx) (h : FInv s)
    (hnf : s.flushing = false) : FInv (emit c s a p txs') := by
  refine ⟨h.ae, ?_, fun h1 => ?_⟩
  · intro l hl
    simp only [emit, List.mem_cons] at hl
    rcases hl with rfl | hl
    · exact Nat.le_refl _
    · exact h.fe l hl
  · have : s.flushing = true := h1
    rw [hnf] at this; simp at this

theorem parseTranslation_finv (c : Cfg) (s : St) (hn : NInv s) (h : FInv s) : FInv (parseTranslation c s).1 := by
  have nofl : ∀ t txs' (p : Tx → Bool) (l : List Tx), (s.flushing = true → l = []) → popFirst p l = some (t, txs') →
      s.flushing = false := by
    intro t txs' p l hl hp
    cases hfl : s.flushing with
    | false => rfl
    | true => rw [hl hfl] at hp; simp [popFirst] at hp
  unfold parseTranslation
  split
  · rename_i t txs' hp
    have hnf := nofl t txs' _ _ (fun h1 => (hn.fl h1).1) hp
    split
    · split
      · exact emit_finv c s _ _ _ h hnf
      · exact h
    · exact h
  · split
    · exact h
    · rename_i r rest htr
      split
      · exact ⟨h.ae, h.fe, h.fl⟩
      · rename_i t txs' hp
        have hnf := nofl t txs' _ _ (fun h1 => by rw [(hn.fl h1).1]; rfl) hp
        split
        · exact ⟨h.ae, h.fe, h.fl⟩
        · split
          · have := emit_finv c s (by assumption) r.paddr txs' h hnf
            exact ⟨this.ae, this.fe, this.fl⟩
          · exact ⟨h.ae, h.fe, h.fl⟩

theorem handleCtrl_finv (s : St) (hn : NInv s) (h : FInv s) : FInv (handleCtrl s).1 := by
  unfold handleCtrl
  split
  · exact h
  · split
    · refine ⟨fun p hp => Nat.le_succ_of_le (h.ae p hp), fun l hl => Nat.le_succ_of_le (h.fe l hl), fun _ => ⟨?_, ?_, ?_⟩⟩
      · intro p hp; exact Nat.lt_succ_of_le (h.ae p hp)
      · intro l hl; exact Nat.lt_succ_of_le (h.fe l hl)
      · intro p hp; exact Nat.lt_succ_of_le (hn.ep p hp)
    · exact h
  · split
    · exact ⟨h.ae, h.fe, fun h1 => by simp at h1⟩
    · exact h
  · exact ⟨h.ae, h.fe, h.fl⟩

theorem tick_nfinv (c : Cfg) (s : St) (h : NInv s ∧ FInv s) : NInv (tick c s).1 ∧ FInv (tick c s).1 :=
  tick_pres2 (P := fun s => NInv s ∧ FInv s) c
    (fun s h _ => ⟨respond_ninv c s h.1, respond_finv c s h.2⟩)
    (fun s h => ⟨parseTranslation_ninv c s h.1, parseTranslation_finv c s h.1 h.2⟩)
    (fun s h hf => ⟨translate_ninv c s h.1 hf, translate_finv c s h.2 hf⟩)
    (fun s h => ⟨handleCtrl_ninv s h.1, handleCtrl_finv s h.1 h.2⟩) s h

theorem step_finv (c : Cfg) (s : St) (o : Op) (hn : NInv s) (h : FInv s) : FInv (step c s o) := by
  cases o with
  | tick => exact (tick_nfinv c s ⟨hn, h⟩).2
  | access pid va pl => simp only [step]; split <;> exact ⟨h.ae, h.fe, h.fl⟩
  | trsp r => simp only [step]; split <;> exact ⟨h.ae, h.fe, h.fl⟩
  | brsp r => simp only [step]; split <;> exact ⟨h.ae, h.fe, h.fl⟩
  | drainTop => exact ⟨h.ae, h.fe, h.fl⟩
  | drainBot => exact ⟨h.ae, h.fe, h.fl⟩
  | drainTr => exact ⟨h.ae, h.fe, h.fl⟩
  | drainCtl => exact ⟨h.ae, h.fe, h.fl⟩
  | ctl k => simp only [step]; split <;> exact ⟨h.ae, h.fe, h.fl⟩

theorem run_finv (c : Cfg) (ops : List Op) : FInv (run c ops) := by
  have : NInv (run c ops) ∧ FInv (run c ops) :=
    run_pres (P := fun s => NInv s ∧ FInv s) c
      (fun s o h => ⟨step_ninv c s o h.1, step_finv c s o h.1 h.2⟩) ops {}
      ⟨ninv_init, ⟨by simp, by simp, by simp⟩⟩
  exact this.2

/-! ## small helpers for the property theorems -/

theorem pre_const (o : HOp) : ∀ n, pre (fun _ => o) n = List.replicate n o := by
  intro n
  induction n with
  | zero => rfl
  | succ n ih => simp only [pre, List.replicate_succ]; rw [ih]

theorem page_of_byte (lg v i : Nat) (h : v % 2 ^ lg + i < 2 ^ lg) :
    pageId lg (v + i) = pageId lg v ∧ (v + i) % 2 ^ lg = v % 2 ^ lg + i := by
  have hP : 0 < 2 ^ lg := Nat.pow_pos (by decide)
  have hv : v + i = 2 ^ lg * (v / 2 ^ lg) + (v % 2 ^ lg + i) := by
    have := Nat.div_add_mod v (2 ^ lg)
    omega
  constructor
  · unfold pageId
    rw [Nat.shiftLeft_eq, Nat.shiftLeft_eq, Nat.shiftRight_eq_div_pow, Nat.shiftRight_eq_div_pow, hv,
      Nat.mul_add_div hP, Nat.div_eq_of_lt h]
    simp
  · rw [hv, Nat.mul_add_mod, Nat.mod_eq_of_lt h]

end C16
