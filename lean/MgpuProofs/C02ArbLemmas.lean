import MgpuModel.C02Arb
import MgpuProofs.C14ArbProofs
/-! # C02 — helpers: the issue events of `Arbitrate` + `DoIssue` are accepted by the wavefront machine -/
namespace C02.Arb
open C02.Wf C14.Arb

/-- no ALU instruction is `ExeUnitSpecial` -/
theorem unitOf_alu (u : Nat) : unitOf (.alu u) ≠ 6 := by
  match u with
  | 0 => decide
  | 1 => decide
  | 2 => decide
  | n + 3 => simp [unitOf]

/-! ## the pools of a compute-unit state -/

theorem arb2_filterMap_ids (c : List TState) (hz : Nat → Bool) (p : List Nat) :
    ((p.filterMap fun id => (c[id]?).map (view id (hz id))).map (·.id)).Sublist p := by
  induction p with
  | nil => simp
  | cons x r ih =>
    rw [List.filterMap_cons]
    cases h : c[x]? with
    | none => simp only [Option.map_none]; exact ih.cons _
    | some s =>
      simp only [Option.map_some, List.map_cons]
      exact ih.cons_cons _

theorem arb2_pools_ids (c : List TState) (hz : Nat → Bool) (layout : List (List Nat)) :
    ((poolsOf c hz layout).flatten.map (·.id)).Sublist layout.flatten := by
  induction layout with
  | nil => simp [poolsOf]
  | cons p r ih =>
    simp only [poolsOf, List.map_cons, List.flatten_cons, List.map_append] at ih ⊢
    exact (arb2_filterMap_ids c hz p).append ih

/-- a wavefront in a pool is the view of a wavefront of the state, named by the layout -/
theorem arb2_pool_mem (c : List TState) (hz : Nat → Bool) (layout : List (List Nat)) (p : List AWf)
    (hp : p ∈ poolsOf c hz layout) (a : AWf) (ha : a ∈ p) :
    ∃ s, c[a.id]? = some s ∧ a = view a.id (hz a.id) s ∧ a.id ∈ layout.flatten := by
  simp only [poolsOf, List.mem_map] at hp
  obtain ⟨q, hq, rfl⟩ := hp
  obtain ⟨id, hid, hv⟩ := List.mem_filterMap.mp ha
  cases h : c[id]? with
  | none => simp [h] at hv
  | some s =>
    simp only [h, Option.map_some, Option.some.injEq] at hv
    subst hv
    exact ⟨s, h, rfl, List.mem_flatten.mpr ⟨q, hq, hid⟩⟩

/-! ## what `DoIssue` moves -/

theorem actEvs_eq (acts : List Act) : actEvs acts = (movedIds acts).map fun id => (id, Ev.issue) := by
  induction acts with
  | nil => rfl
  | cons a r ih => cases a <;> simp [actEvs, movedIds, ih]

theorem movedIds_sublist (cap : Nat → Nat) (l : List AWf) (load : Nat → Nat) :
    (movedIds (doIssue cap l load)).Sublist (l.map (·.id)) := by
  induction l generalizing load with
  | nil => simp [doIssue, movedIds]
  | cons w r ih =>
    simp only [doIssue, List.map_cons]
    split
    · exact (ih load).cons_cons _
    · split
      · exact (ih _).cons_cons _
      · exact (ih load).cons _

/-- the act of a moved wavefront: internal iff its instruction is `ExeUnitSpecial`, otherwise a unit
    of its type with room -/
theorem doIssue_act (cap : Nat → Nat) (l : List AWf) (load : Nat → Nat) (x : Act) (hx : x ∈ doIssue cap l load) :
    ∃ w ∈ l, (x = .internal w.id ∧ w.unit = 6) ∨ (x = .unit w.id w.unit ∧ w.unit ≠ 6) ∨ (x = .refused w.id ∧ w.unit ≠ 6) := by
  induction l generalizing load with
  | nil => simp [doIssue] at hx
  | cons w r ih =>
    simp only [doIssue] at hx
    split at hx
    · rcases List.mem_cons.mp hx with rfl | h
      · exact ⟨w, List.mem_cons_self, Or.inl ⟨rfl, by assumption⟩⟩
      · obtain ⟨v, hv, hh⟩ := ih load h
        exact ⟨v, List.mem_cons_of_mem _ hv, hh⟩
    · split at hx
      · rcases List.mem_cons.mp hx with rfl | h
        · exact ⟨w, List.mem_cons_self, Or.inr (Or.inl ⟨rfl, by assumption⟩)⟩
        · obtain ⟨v, hv, hh⟩ := ih _ h
          exact ⟨v, List.mem_cons_of_mem _ hv, hh⟩
      · rcases List.mem_cons.mp hx with rfl | h
        · exact ⟨w, List.mem_cons_self, Or.inr (Or.inr ⟨rfl, by assumption⟩)⟩
        · obtain ⟨v, hv, hh⟩ := ih load h
          exact ⟨v, List.mem_cons_of_mem _ hv, hh⟩

/-! ## issuing a set of Ready wavefronts -/

theorem noMem_setMem (s : TState) (m : Mem) : noMem { s with mem := m } = noMem s := rfl

theorem issueNow_mem (s : TState) : (issueNow s).mem = s.mem := by
  unfold issueNow; split <;> rfl

theorem noMem_issueNow_setMem (s : TState) (m : Mem) :
    noMem (issueNow { s with mem := m }) = noMem (issueNow s) := by
  cases s with
  | mk pc regs mem ph toIssue cur ibStart ib fetching vq sq vm lgkm trace =>
    cases toIssue <;> rfl

/-- the machine's `issue` step under the permissive gate -/
theorem tstep_issue_any (P : Prog) (s : TState) (i : Inst) (hph : s.ph = .ready) (hi : s.toIssue = some i) :
    tstep P anyGate s .issue = some (issueNow s) := by
  simp only [tstep, hi, hph, anyGate, and_self, if_true, issueNow]

theorem setMemAll_getElem? (m : Mem) (l : List TState) (j : Nat) :
    (setMemAll m l)[j]? = (l[j]?).map fun s => { s with mem := m } := by
  simp [setMemAll]

/-- **key lemma**: distinct wavefronts, each `WfReady` with a decoded instruction and a program, issue
    one after the other; the result is `issueNow` on exactly those wavefronts -/
theorem curun_issue_ids (Ps : List Prog) (ids : List Nat) (hn : ids.Nodup) (c : List TState)
    (h : ∀ id ∈ ids, ∃ s P i, c[id]? = some s ∧ Ps[id]? = some P ∧ s.ph = .ready ∧ s.toIssue = some i) :
    ∃ c', curun Ps anyGate c (ids.map fun id => (id, Ev.issue)) = some c' ∧ c'.length = c.length ∧
      (∀ j, (c'[j]?).map noMem = (c[j]?).map fun s => noMem (if j ∈ ids then issueNow s else s)) ∧
      (∀ m, (∀ s ∈ c, s.mem = m) → ∀ s ∈ c', s.mem = m) := by
  induction ids generalizing c with
  | nil =>
    refine ⟨c, rfl, rfl, ?_, fun _ hm => hm⟩
    intro j; simp
  | cons id rest ih =>
    obtain ⟨hnid, hnr⟩ := List.nodup_cons.mp hn
    obtain ⟨s, P, i, hs, hP, hph, hi⟩ := h id List.mem_cons_self
    have hlt : id < c.length := by
      rcases Nat.lt_or_ge id c.length with h | h
      · exact h
      · rw [List.getElem?_eq_none h] at hs; cases hs
    let c1 := setMemAll (issueNow s).mem (c.set id (issueNow s))
    have hstep : custep Ps anyGate c (id, Ev.issue) = some c1 := by
      simp only [custep, isEnv, hs, hP, tstep_issue_any P s i hph hi, Bool.false_eq_true, if_false, c1]
    have hc1 : ∀ j : Nat, c1[j]? = ((c.set id (issueNow s))[j]?).map fun (t : TState) => { t with mem := s.mem } := by
      intro j
      simp only [c1, setMemAll_getElem?, issueNow_mem]
    have hrest : ∀ id' ∈ rest, ∃ s' P' i', c1[id']? = some s' ∧ Ps[id']? = some P' ∧ s'.ph = .ready ∧ s'.toIssue = some i' := by
      intro id' hid'
      obtain ⟨s', P', i', hs', hP', hph', hi'⟩ := h id' (List.mem_cons_of_mem _ hid')
      have hne : id ≠ id' := fun e => hnid (e ▸ hid')
      refine ⟨{ s' with mem := s.mem }, P', i', ?_, hP', hph', hi'⟩
      rw [hc1, List.getElem?_set_ne hne, hs']
      rfl
    obtain ⟨c', hrun, hlen, hdesc, hmem⟩ := ih hnr c1 hrest
    refine ⟨c', ?_, ?_, ?_, ?_⟩
    · simp only [List.map_cons, curun, hstep]
      exact hrun
    · rw [hlen]; simp [c1, setMemAll]
    · intro j
      rw [hdesc j, hc1 j]
      by_cases hj : j = id
      · subst hj
        rw [List.getElem?_set_self hlt, hs]
        simp only [Option.map_some, List.mem_cons, true_or, if_true, if_neg hnid, noMem_setMem]
      · rw [List.getElem?_set_ne (Ne.symm hj)]
        cases hcj : c[j]? with
        | none => rfl
        | some t =>
          simp only [Option.map_some, List.mem_cons, hj, false_or]
          split
          · rw [noMem_issueNow_setMem]
          · rw [noMem_setMem]
    · intro m hm s' hs'
      apply hmem m _ s' hs'
      intro t ht
      obtain ⟨j, hj, rfl⟩ := List.getElem_of_mem ht
      have := hc1 j
      rw [List.getElem?_eq_getElem hj] at this
      cases hx : (c.set id (issueNow s))[j]? with
      | none => rw [hx] at this; cases this
      | some u =>
        rw [hx] at this
        simp only [Option.map_some, Option.some.injEq] at this
        rw [this]
        exact hm s (List.mem_of_getElem? hs)

theorem curun_append (Ps : List Prog) (gate : TState → Inst → Bool) (c : List TState) (a b : List (Nat × Ev)) :
    curun Ps gate c (a ++ b) = (curun Ps gate c a).bind fun c' => curun Ps gate c' b := by
  induction a generalizing c with
  | nil => rfl
  | cons e r ih =>
    simp only [List.cons_append, curun]
    cases custep Ps gate c e with
    | none => rfl
    | some c' => exact ih c'

/-- a gate only restricts: what any gate accepts, the permissive gate accepts, with the same result -/
theorem tstep_gate_mono (P : Prog) (gate : TState → Inst → Bool) (s : TState) (e : Ev) (s' : TState)
    (h : tstep P gate s e = some s') : tstep P anyGate s e = some s' := by
  cases e <;> try exact h
  simp only [tstep] at h ⊢
  cases hi : s.toIssue with
  | none => rw [hi] at h; cases h
  | some i =>
    rw [hi] at h
    simp only at h ⊢
    split at h
    · rename_i hc
      rw [if_pos ⟨hc.1, rfl⟩]
      exact h
    · cases h

theorem trun_gate_mono (P : Prog) (gate : TState → Inst → Bool) (s : TState) (evs : List Ev) (T : TState)
    (h : trun P gate s evs = some T) : trun P anyGate s evs = some T := by
  induction evs generalizing s with
  | nil => exact h
  | cons e r ih =>
    simp only [trun] at h ⊢
    cases hs : tstep P gate s e with
    | none => rw [hs] at h; cases h
    | some s' =>
      rw [hs] at h
      rw [tstep_gate_mono P gate s e s' hs]
      exact ih s' h

end C02.Arb
