import MgpuModel.C03V
import MgpuProofs.C06Body
import MgpuModel.Gen.VectorHandlers
/-! # C03 (vector half) — conformance of the TRANSLATED lane bodies to the ISA specification: vocabulary and
generic lemmas

`translate/lanebody.go` regenerates, from the Go source of both ALUs, the body of every vector handler's lane loop as
a Lean function `raw : Uni → RawIn → RawOut` over `BitVec` (`Gen/LaneBodies.lean`, owned by property C06, which proves
the LOOP around the body correct: `handler_is_vexec`).  This file states what it means for such a body to compute
what the hand-written ISA specification `C03V.execVALU` computes for the same lane (`Conforms`), and proves one generic
lemma per operation shape (unary / binary / ternary 32-bit operation, binary operation with carry-out, with carry-in
and carry-out, compare writing one mask bit, select by a mask bit, 64-bit forms).  The per-opcode theorems of
`Props/C03VConf.lean` instantiate these lemmas.

The operand VALUES are universally quantified over all 64-bit patterns `state.ReadOperand` can return: a VGPR / SGPR /
literal (zero-extended 32 bits), a positive inline constant, a NEGATIVE inline constant (`uint64(int64)`: all upper bits
set), a 64-bit register pair.  The specification sees the operand truncated to the operand width of the opcode
(`tr`), exactly as `execVALU` does (`lo32` / `% 2^64`), so "the upper half of a negative inline constant leaks into a
32-bit result / carry / compare" is a failure of `Conforms`. -/
namespace C03V.Conf
open C03V C03V.I Gen.Lane
open C06 (Uni RawIn RawOut LaneHandler setBit)

/-! ## the lane semantics of `execVALU` -/

/-- `rd` of `execVALU` for an integer opcode without SDWA: the fetched operand at operand width -/
def tr (w : Nat) (x : BitVec 64) : Nat := if w == 64 then x.toNat else lo32 x.toNat

/-- what `execVALU` hands to `op.f` for one active lane of a non-SDWA integer instruction, given the raw operand values
    and the lane's bit of the mask source (`execVALU_lane` below) -/
def laneIn (op : VOp) (s0 s1 s2 : BitVec 64) (cin : Bool) : C03V.LaneIn :=
  { a := tr op.w0 s0
    b := if op.nsrc ≥ 2 then tr op.w1 s1 else 0
    c := if op.nsrc ≥ 3 then tr op.w2 s2 else 0
    cin := cin }

/-- the 64-bit value of which the Go handler reads bit `i` as carry-in / select (`state.VCC()` or the SGPR pair
    named by SRC2) -/
def maskOf (h : LaneHandler) (r : RawIn) : BitVec 64 :=
  match h.msrc with
  | .vcc => r.vcc
  | .src2 => r.src2
  | .acc => r.acc
  | .none => 0#64

/-- the specification's result for the lane the Go iteration `r` works on -/
def specLane (op : VOp) (h : LaneHandler) (r : RawIn) : C03V.LaneOut :=
  op.f (laneIn op r.src0 r.src1 r.src2 ((maskOf h r).getLsbD r.i))

def writesMask (k : Kind) : Bool := k == .cmp || k == .carryOut || k == .carryIO

/-- **Conformance of a translated lane body** on the operand domain `dom`: for every modifier / SDWA-free instruction
    record the handler accepts (`ok`), every lane index and all operand, mask and accumulator values,
    * the value handed to `WriteOperand(inst.Dst, i, ·)`, at the destination width, is the specification's `d`
      (compares write no VGPR),
    * the accumulator the handler later hands to `SetVCC` / `WriteOperand(inst.SDst, 0, ·)` gets the specification's
      carry / compare bit at position `i` and is unchanged elsewhere (the loop visits lanes in increasing order from an
      accumulator that starts at 0, so bit `i` is clear on entry); handlers without mask result leave it alone. -/
def ConformsOn (dom : RawIn → Prop) (h : LaneHandler) (op : VOp) : Prop :=
  ∀ (u : Uni) (r : RawIn), r.i < 64 → h.ok u = true → dom r →
    (if op.kind == .cmp then (h.raw u r).dst = none
     else (h.raw u r).dst.map (tr op.wd) = some (specLane op h r).d) ∧
    (if writesMask op.kind then
       (r.acc.getLsbD r.i = false → (h.raw u r).acc = setBit r.acc r.i (specLane op h r).co)
     else (h.raw u r).acc = r.acc)

/-- conformance for ALL operand values -/
def Conforms (h : LaneHandler) (op : VOp) : Prop := ConformsOn (fun _ => True) h op

/-- the VOP2 encoding: SRC1 is an 8-bit VGPR number, so `ReadOperand(inst.Src1, i)` is a zero-extended 32-bit value -/
def Src1IsVgpr (r : RawIn) : Prop := r.src1.toNat < 2 ^ 32

/-- `v_lshl_add_u64`: shift counts for which both ALUs agreed with the ISA before the repair of the shift mask
    (`S1[5:0] < 8`; compilers emit 0..4) -/
def ShiftBelow8 (r : RawIn) : Prop := (r.src1.setWidth 32 &&& 63#32).toNat < 8

instance (r : RawIn) : Decidable (ShiftBelow8 r) := by unfold ShiftBelow8; infer_instance
instance (r : RawIn) : Decidable (Src1IsVgpr r) := by unfold Src1IsVgpr; infer_instance

/-- the input on which `v_lshl_add_u64` of both ALUs differs from the ISA function: S0 = 1, S1 = 8, S2 = 0 -/
def lshlAddWitness : RawIn :=
  { i := 0, src0 := 1#64, src1 := 8#64, src2 := 0#64, dstOld := 0#64, vcc := 0#64, acc := 0#64 }

/-- lane bodies of `v_lshl_add_u64` as they were translated BEFORE the repair of the shift mask (`& 0x3F`), kept for
    the `…_before_fix_refuted` statements: `ALUImpl.runVLSHLADDU64` (aluvop3a.go) … -/
def raw_gcn3_runVLSHLADDU64Old (_u : Uni) (r : RawIn) : RawOut :=
  let src0_0 : BitVec 64 := r.src0
  let src1_0 : BitVec 32 := ((BitVec.setWidth 32 r.src1) &&& (63#32))
  let src2_0 : BitVec 64 := r.src2
  { dst := (some ((src0_0 <<< (src1_0).toNat) + src2_0)), acc := r.acc }

def lh_gcn3_runVLSHLADDU64Old : LaneHandler :=
  { arch := "gcn3", name := "runVLSHLADDU64", guard := .bitZero, accInit := .none, msrc := .none, sink := .none
    ok := fun _ => true
    raw := raw_gcn3_runVLSHLADDU64Old }

/-- … and the CDNA3 `ALU.runVLSHLADDU64` (cdna3/vop3a.go) -/
def raw_cdna3_runVLSHLADDU64Old (_u : Uni) (r : RawIn) : RawOut :=
  let src0_0 : BitVec 64 := r.src0
  let shift_0 : BitVec 64 := (r.src1 &&& (63#64))
  let src2_0 : BitVec 64 := r.src2
  let result_0 : BitVec 64 := ((src0_0 <<< (shift_0).toNat) + src2_0)
  { dst := (some result_0), acc := r.acc }

def lh_cdna3_runVLSHLADDU64Old : LaneHandler :=
  { arch := "cdna3", name := "runVLSHLADDU64", guard := .bitZero, accInit := .none, msrc := .none, sink := .none
    ok := fun _ => true
    raw := raw_cdna3_runVLSHLADDU64Old }

/-- the input on which GCN3 `v_lshrrev_b32` would differ if SRC1 could carry upper bits: S0 = 1, S1 = 2^32 -/
def lshrrevWitness : RawIn :=
  { i := 0, src0 := 1#64, src1 := 4294967296#64, src2 := 0#64, dstOld := 0#64, vcc := 0#64, acc := 0#64 }

theorem Conforms.on {h : LaneHandler} {op : VOp} (c : Conforms h op) (dom : RawIn → Prop) : ConformsOn dom h op :=
  fun u r hi hok _ => c u r hi hok trivial

/-! ## the specification's opcode tables by (architecture, format, opcode) of the Go dispatch switch -/

/-- the vector-ALU formats of the Go dispatch switches -/
inductive Fmt where
  | vop1 | vop2 | vopc | vop3a | vop3b
deriving DecidableEq, Repr

def Fmt.name : Fmt → String
  | .vop1 => "vop1" | .vop2 => "vop2" | .vopc => "vopc" | .vop3a => "vop3a" | .vop3b => "vop3b"

def archName (cdna3 : Bool) : String := if cdna3 then "cdna3" else "gcn3"

/-- the ISA table entry of a Go opcode-switch entry: VOP1/VOP2/VOPC by their own opcode, VOP3a/VOP3b by the VOP3
    opcode space (0..255 VOPC, 256..319 VOP2, 320..447 VOP1, 448.. VOP3-only), as `decodeVALU` selects it -/
def specOf (cdna3 : Bool) (fmt : Fmt) (op : Nat) : Option VOp :=
  match fmt with
  | .vop1 => vop1Table cdna3 op
  | .vop2 => vop2Table cdna3 op
  | .vopc => vopcTable op
  | .vop3a | .vop3b =>
    (if op < 256 then vopcTable op
     else if op < 320 then vop2Table cdna3 (op - 256)
     else if op < 448 then vop1Table cdna3 (op - 320)
     else vop3Table cdna3 op)

/-! ## the table entries that are written as record literals in `C03V.lean` (checked against the tables by `rfl`
in the coverage rows of `Props/C03VConf.lean`) -/

def cndmaskOp : VOp :=
  { name := "v_cndmask_b32", nsrc := 2, kind := .cndmask, f := fun x => ⟨if x.cin then x.b else x.a, false⟩ }
def madU64U32Op : VOp :=
  { name := "v_mad_u64_u32", nsrc := 3, w2 := 64, wd := 64, kind := .carryOut,
    f := fun x => let r := madU64U32 (w32 x.a) (w32 x.b) (w64 x.c); ⟨r.1.toNat, r.2⟩ }
def lshlAddU64Op : VOp :=
  { name := "v_lshl_add_u64", nsrc := 3, w0 := 64, w2 := 64, wd := 64,
    f := fun x => ⟨(lshlAdd64 (w64 x.a) (w32 x.b) (w64 x.c)).toNat, false⟩ }
def lshlrevB64Op : VOp :=
  { name := "v_lshlrev_b64", nsrc := 2, w1 := 64, wd := 64, f := fun x => ⟨(lshlrev64 (w32 x.a) (w64 x.b)).toNat, false⟩ }
def ashrrevI64Op : VOp :=
  { name := "v_ashrrev_i64", nsrc := 2, w1 := 64, wd := 64, f := fun x => ⟨(ashrrev64 (w32 x.a) (w64 x.b)).toNat, false⟩ }
def movB64Op : VOp := cvtOp "v_mov_b64" 64 64 .int false id

/-! ## coverage vocabulary -/

/-- one entry of a Go opcode switch: (architecture, format, opcode, handler method) -/
structure Row where
  arch : String
  fmt : String
  op : Nat
  handler : String
deriving DecidableEq, Repr

/-- operand domain of a conformance proof -/
inductive Dom where
  /-- every 64-bit operand pattern -/
  | all
  /-- SRC1 is a VGPR (the VOP2 encoding has no other SRC1) -/
  | src1Vgpr
  /-- `v_lshl_add_u64` shift count below 8 -/
  | shiftBelow8
deriving DecidableEq, Repr

def Dom.pred : Dom → RawIn → Prop
  | .all => fun _ => True
  | .src1Vgpr => Src1IsVgpr
  | .shiftBelow8 => ShiftBelow8

/-- fast structural comparison (opcode first) -/
def Row.same (a b : Row) : Bool := a.op == b.op && a.handler == b.handler && a.fmt == b.fmt && a.arch == b.arch

/-- `rows` is an order-preserving interleaving of `ps` and `ds`: every row is the next element of exactly one of the
    two lists and both lists are used up (so `ps`, `ds` partition `rows`; one pass, decidable in the kernel) -/
def interleaves : List Row → List Row → List Row → Bool
  | [], ps, ds => ps.isEmpty && ds.isEmpty
  | r :: rs, p :: ps, d :: ds =>
    if r.same p then interleaves rs ps (d :: ds) else r.same d && interleaves rs (p :: ps) ds
  | r :: rs, p :: ps, [] => r.same p && interleaves rs ps []
  | r :: rs, [], d :: ds => r.same d && interleaves rs [] ds
  | _ :: _, [], [] => false

/-- a switch entry together with the PROOF that the translated body of its handler conforms to the ISA table entry
    of that (architecture, format, opcode) -/
structure ProvedRow where
  cdna3 : Bool
  fmt : Fmt
  op : Nat
  dom : Dom
  lh : LaneHandler
  vop : VOp
  /-- `lh` is the translation of a method of this architecture's ALU -/
  harch : lh.arch = archName cdna3
  /-- `vop` is what the specification's table holds for this entry -/
  hspec : specOf cdna3 fmt op = some vop
  pf : ConformsOn dom.pred lh vop

/-- the switch entry a proved row is about: the method name is that of the translated handler -/
def ProvedRow.row (p : ProvedRow) : Row := ⟨archName p.cdna3, p.fmt.name, p.op, p.lh.name⟩

/-- why a switch entry is tied to the specification by the differential correspondence only -/
inductive Why where
  /-- IEEE arithmetic / conversions / float compares: the translated body computes with Lean `Float` (opaque), the
      specification with the exact rational reference; transcendentals have no exact reference at all -/
  | float
  /-- float handlers the translator classifies as integer (bit-level f32→f16 conversion, `v_log_legacy` stub) -/
  | floatBits
  /-- DS / FLAT / SMEM: addressing and memory effects, no lane body of the shape treated here -/
  | memory
  /-- no translated lane body: the cross-lane `v_readfirstlane_b32` (hand-transcribed by C06; its lane selection is
      proved equal to the specification's, `readfirstlane_lane_conforms`; the value path stays differential).  Until
      `translate/lanedeep.go` also the inner bit loops, `sort.Ints` and the constant-mask handler — now proved -/
  | untranslated
  /-- the Go switch accepts an opcode the ISA table of that architecture does not have (GCN3 VOP2 52–54) -/
  | noSpec
deriving DecidableEq, Repr

def vectorFormats : List String := ["vop1", "vop2", "vopc", "vop3a", "vop3b", "smem", "ds", "flat"]

def rowOf (d : C06Facts.Dispatch) : Row := ⟨d.arch, d.format, d.op, d.handler⟩

/-- the vector / memory entries of the regenerated opcode switches of both ALUs -/
def vectorRows : List Row := (Gen.dispatch.filter fun d => vectorFormats.contains d.format).map rowOf

/-! ## truncation lemmas -/

theorem w32_lo32 (x : BitVec 64) : w32 (lo32 x.toNat) = x.setWidth 32 := by
  apply BitVec.eq_of_toNat_eq; simp [w32, lo32]

theorem w64_toNat (x : BitVec 64) : w64 x.toNat = x := by
  apply BitVec.eq_of_toNat_eq; simp [w64]

theorem lo32_toNat (x : BitVec 64) : lo32 x.toNat = (x.setWidth 32).toNat := by simp [lo32]

theorem ofNat16_lo32 (x : BitVec 64) : BitVec.ofNat 16 (lo32 x.toNat) = x.setWidth 16 := by
  apply BitVec.eq_of_toNat_eq
  simp only [lo32, BitVec.toNat_ofNat, BitVec.toNat_setWidth]
  omega

theorem sw_of_eq {v : BitVec 64} {g : BitVec 32} (h : v.setWidth 32 = g) : lo32 v.toNat = g.toNat := by
  rw [lo32_toNat, h]

@[simp] theorem sw32_sw64 (x : BitVec 32) : (x.setWidth 64).setWidth 32 = x := by
  apply BitVec.eq_of_toNat_eq; simp
@[simp] theorem sw32_se64 (x : BitVec 32) : (x.signExtend 64).setWidth 32 = x := by
  apply BitVec.eq_of_getLsbD_eq
  intro i hi
  simp [BitVec.getLsbD_signExtend, hi]
  omega
@[simp] theorem sw32_sw16 (x : BitVec 16) : ((x.setWidth 64).setWidth 32) = x.setWidth 32 := by
  apply BitVec.eq_of_toNat_eq; simp

theorem sw32_add (x y : BitVec 64) : (x + y).setWidth 32 = x.setWidth 32 + y.setWidth 32 :=
  BitVec.setWidth_add x y (by omega)
theorem sw32_mul (x y : BitVec 64) : (x * y).setWidth 32 = x.setWidth 32 * y.setWidth 32 :=
  BitVec.setWidth_mul x y (by omega)
theorem sw32_sub (x y : BitVec 64) : (x - y).setWidth 32 = x.setWidth 32 - y.setWidth 32 := by
  apply BitVec.eq_of_toNat_eq
  simp only [BitVec.toNat_setWidth, BitVec.toNat_sub]
  have := x.isLt; have := y.isLt
  omega
theorem sw32_not (x : BitVec 64) : (~~~x).setWidth 32 = ~~~(x.setWidth 32) := BitVec.setWidth_not (by omega)
theorem sw32_and_mask (x : BitVec 64) : (x &&& 4294967295#64).setWidth 32 = x.setWidth 32 := by
  apply BitVec.eq_of_toNat_eq
  simp only [BitVec.toNat_setWidth, BitVec.toNat_and]
  have : (4294967295#64).toNat = 2 ^ 32 - 1 := by decide
  rw [this, Nat.and_two_pow_sub_one_eq_mod]; omega

/-! ## option / record plumbing -/

theorem map_tr32 (d : Option (BitVec 64)) (g : BitVec 32) (h : d.map (BitVec.setWidth 32) = some g) :
    d.map (tr 32) = some g.toNat := by
  cases d with
  | none => simp at h
  | some v =>
    simp only [Option.map_some, Option.some.injEq] at h ⊢
    simp [tr, lo32_toNat, h]

theorem map_tr64 (d : Option (BitVec 64)) (g : BitVec 64) (h : d = some g) : d.map (tr 64) = some g.toNat := by
  subst h; simp [tr]

@[simp] theorem tr_32 (x : BitVec 64) : tr 32 x = lo32 x.toNat := rfl
@[simp] theorem tr_64 (x : BitVec 64) : tr 64 x = x.toNat := rfl

/-! ## mask accumulator shapes -/

/-- `if c { acc |= 1 << i }` on an accumulator whose bit `i` is still clear -/
theorem acc_or_shape (a : BitVec 64) (i : Nat) (hi : i < 64) (c : Bool) (h0 : a.getLsbD i = false) :
    (if c then setBit a i true else a) = setBit a i c := by
  cases c
  · simp only [Bool.false_eq_true, if_false]
    rw [← h0, C06.setBit_self a i hi]
  · rfl

theorem acc_or_shape_p (a : BitVec 64) (i : Nat) (hi : i < 64) (p : Prop) [Decidable p] (h0 : a.getLsbD i = false) :
    (if p then setBit a i true else a) = setBit a i (decide p) := by
  by_cases h : p
  · simp [h]
  · simp only [h, if_false, decide_false]
    rw [← h0, C06.setBit_self a i hi]

theorem acc_keep (a : BitVec 64) (i : Nat) (hi : i < 64) (h0 : a.getLsbD i = false) : a = setBit a i false := by
  rw [← h0, C06.setBit_self a i hi]

/-! ## generic conformance lemmas, one per operation shape -/

/-- unary 32-bit operation (`v_mov_b32`, `v_not_b32`) -/
theorem conf_un32 {h : LaneHandler} (n : String) (g : W → W)
    (H : ∀ u r, r.i < 64 → h.ok u = true →
      (h.raw u r).acc = r.acc ∧
      (h.raw u r).dst.map (BitVec.setWidth 32) = some (g (r.src0.setWidth 32))) :
    Conforms h (un32 n g) := by
  intro u r hi hok _
  obtain ⟨ha, hd⟩ := H u r hi hok
  refine ⟨?_, ha⟩
  show (h.raw u r).dst.map (tr 32) = some _
  simp only [specLane, laneIn, un32, tr_32, w32_lo32]
  exact map_tr32 _ _ hd

/-- binary 32-bit operation without carry (logic, shifts with masked count, min/max, 24-bit and 32-bit multiplies) -/
theorem conf_bin32 {h : LaneHandler} (n : String) (g : W → W → W)
    (H : ∀ u r, r.i < 64 → h.ok u = true →
      (h.raw u r).acc = r.acc ∧
      (h.raw u r).dst.map (BitVec.setWidth 32) = some (g (r.src0.setWidth 32) (r.src1.setWidth 32))) :
    Conforms h (bin32 n g) := by
  intro u r hi hok _
  obtain ⟨ha, hd⟩ := H u r hi hok
  refine ⟨?_, ha⟩
  show (h.raw u r).dst.map (tr 32) = some _
  simp only [specLane, laneIn, bin32, tr_32, w32_lo32, ge_iff_le, Nat.le_refl, if_true]
  exact map_tr32 _ _ hd

/-- the same on a restricted operand domain -/
theorem conf_bin32_on {h : LaneHandler} (dom : RawIn → Prop) (n : String) (g : W → W → W)
    (H : ∀ u r, r.i < 64 → h.ok u = true → dom r →
      (h.raw u r).acc = r.acc ∧
      (h.raw u r).dst.map (BitVec.setWidth 32) = some (g (r.src0.setWidth 32) (r.src1.setWidth 32))) :
    ConformsOn dom h (bin32 n g) := by
  intro u r hi hok hdom
  obtain ⟨ha, hd⟩ := H u r hi hok hdom
  refine ⟨?_, ha⟩
  show (h.raw u r).dst.map (tr 32) = some _
  simp only [specLane, laneIn, bin32, tr_32, w32_lo32, ge_iff_le, Nat.le_refl, if_true]
  exact map_tr32 _ _ hd

/-- ternary 32-bit operation (mad24, bit-field extract / insert, add3, lshl_add, min3/max3/med3, …) -/
theorem conf_tri32 {h : LaneHandler} (n : String) (g : W → W → W → W)
    (H : ∀ u r, r.i < 64 → h.ok u = true →
      (h.raw u r).acc = r.acc ∧
      (h.raw u r).dst.map (BitVec.setWidth 32)
        = some (g (r.src0.setWidth 32) (r.src1.setWidth 32) (r.src2.setWidth 32))) :
    Conforms h (tri32 n g) := by
  intro u r hi hok _
  obtain ⟨ha, hd⟩ := H u r hi hok
  refine ⟨?_, ha⟩
  show (h.raw u r).dst.map (tr 32) = some _
  simp only [specLane, laneIn, tri32, tr_32, w32_lo32, ge_iff_le, Nat.le_refl, if_true,
    show (2 : Nat) ≤ 3 from by decide]
  exact map_tr32 _ _ hd

/-- binary 32-bit operation with carry-out (`v_add_co_u32`, `v_sub_co_u32`, `v_subrev_co_u32`, VOP2 and VOP3b) -/
theorem conf_co32 {h : LaneHandler} (n : String) (g : W → W → W × Bool)
    (H : ∀ u r, r.i < 64 → h.ok u = true →
      (h.raw u r).dst.map (BitVec.setWidth 32) = some (g (r.src0.setWidth 32) (r.src1.setWidth 32)).1 ∧
      (r.acc.getLsbD r.i = false →
        (h.raw u r).acc = setBit r.acc r.i (g (r.src0.setWidth 32) (r.src1.setWidth 32)).2)) :
    Conforms h (co32 n g) := by
  intro u r hi hok _
  obtain ⟨hd, ha⟩ := H u r hi hok
  refine ⟨?_, ?_⟩
  · show (h.raw u r).dst.map (tr 32) = some _
    simp only [specLane, laneIn, co32, tr_32, w32_lo32, ge_iff_le, Nat.le_refl, if_true]
    exact map_tr32 _ _ hd
  · show r.acc.getLsbD r.i = false → _
    simp only [specLane, laneIn, co32, tr_32, w32_lo32, ge_iff_le, Nat.le_refl, if_true]
    exact ha

/-- binary 32-bit operation with carry-in (bit `i` of VCC / of the SRC2 SGPR pair) and carry-out
    (`v_addc_co_u32`, `v_subb_co_u32`, `v_subbrev_co_u32`, VOP2 and VOP3b) -/
theorem conf_cio32 {h : LaneHandler} (n : String) (g : W → W → Bool → W × Bool)
    (H : ∀ u r, r.i < 64 → h.ok u = true →
      (h.raw u r).dst.map (BitVec.setWidth 32)
        = some (g (r.src0.setWidth 32) (r.src1.setWidth 32) ((maskOf h r).getLsbD r.i)).1 ∧
      (r.acc.getLsbD r.i = false →
        (h.raw u r).acc
          = setBit r.acc r.i (g (r.src0.setWidth 32) (r.src1.setWidth 32) ((maskOf h r).getLsbD r.i)).2)) :
    Conforms h (cio32 n g) := by
  intro u r hi hok _
  obtain ⟨hd, ha⟩ := H u r hi hok
  refine ⟨?_, ?_⟩
  · show (h.raw u r).dst.map (tr 32) = some _
    simp only [specLane, laneIn, cio32, tr_32, w32_lo32, ge_iff_le, Nat.le_refl, if_true]
    exact map_tr32 _ _ hd
  · show r.acc.getLsbD r.i = false → _
    simp only [specLane, laneIn, cio32, tr_32, w32_lo32, ge_iff_le, Nat.le_refl, if_true]
    exact ha

/-- compare of two 32-bit operands writing one bit of a lane mask (VOPC → VCC, VOP3a → SGPR pair) -/
theorem conf_cmp32 {h : LaneHandler} (n : String) (ty : Ty) (p : W → W → Bool)
    (H : ∀ u r, r.i < 64 → h.ok u = true →
      (h.raw u r).dst = none ∧
      (r.acc.getLsbD r.i = false →
        (h.raw u r).acc = setBit r.acc r.i (p (r.src0.setWidth 32) (r.src1.setWidth 32)))) :
    Conforms h (cmpOf n 32 ty (fun a b => p (w32 a) (w32 b))) := by
  intro u r hi hok _
  obtain ⟨hd, ha⟩ := H u r hi hok
  refine ⟨hd, ?_⟩
  show r.acc.getLsbD r.i = false → _
  simp only [specLane, laneIn, cmpOf, tr_32, w32_lo32, ge_iff_le, Nat.le_refl, if_true]
  exact ha

/-- compare of the low 16 bits of two 32-bit operands -/
theorem conf_cmp16 {h : LaneHandler} (n : String) (ty : Ty) (p : BitVec 16 → BitVec 16 → Bool)
    (H : ∀ u r, r.i < 64 → h.ok u = true →
      (h.raw u r).dst = none ∧
      (r.acc.getLsbD r.i = false →
        (h.raw u r).acc = setBit r.acc r.i (p (r.src0.setWidth 16) (r.src1.setWidth 16)))) :
    Conforms h (cmpOf n 32 ty (fun a b => p (BitVec.ofNat 16 a) (BitVec.ofNat 16 b))) := by
  intro u r hi hok _
  obtain ⟨hd, ha⟩ := H u r hi hok
  refine ⟨hd, ?_⟩
  show r.acc.getLsbD r.i = false → _
  simp only [specLane, laneIn, cmpOf, tr_32, ofNat16_lo32, ge_iff_le, Nat.le_refl, if_true]
  exact ha

/-- compare of two 64-bit operands -/
theorem conf_cmp64 {h : LaneHandler} (n : String) (ty : Ty) (p : D → D → Bool)
    (H : ∀ u r, r.i < 64 → h.ok u = true →
      (h.raw u r).dst = none ∧
      (r.acc.getLsbD r.i = false → (h.raw u r).acc = setBit r.acc r.i (p r.src0 r.src1))) :
    Conforms h (cmpOf n 64 ty (fun a b => p (w64 a) (w64 b))) := by
  intro u r hi hok _
  obtain ⟨hd, ha⟩ := H u r hi hok
  refine ⟨hd, ?_⟩
  show r.acc.getLsbD r.i = false → _
  simp only [specLane, laneIn, cmpOf, tr_64, w64_toNat, ge_iff_le, Nat.le_refl, if_true]
  exact ha

/-- any other operation without mask result (64-bit shifts, `v_lshl_add_u64`, `v_mov_b64`, `v_cndmask_b32`):
    the hypothesis is the conformance statement itself with the mask clause discharged -/
theorem conf_plain_on {h : LaneHandler} (dom : RawIn → Prop) (op : VOp) (hk : writesMask op.kind = false)
    (H : ∀ u r, r.i < 64 → h.ok u = true → dom r →
      (h.raw u r).acc = r.acc ∧ (h.raw u r).dst.map (tr op.wd) = some (specLane op h r).d) :
    ConformsOn dom h op := by
  intro u r hi hok hdom
  obtain ⟨ha, hd⟩ := H u r hi hok hdom
  have hc : (op.kind == .cmp) = false := by
    revert hk; cases op.kind <;> simp [writesMask] <;> decide
  simp only [hc, hk, Bool.false_eq_true, if_false]
  exact ⟨hd, ha⟩

theorem conf_plain {h : LaneHandler} (op : VOp) (hk : writesMask op.kind = false)
    (H : ∀ u r, r.i < 64 → h.ok u = true →
      (h.raw u r).acc = r.acc ∧ (h.raw u r).dst.map (tr op.wd) = some (specLane op h r).d) :
    Conforms h op :=
  conf_plain_on _ op hk (fun u r hi hok _ => H u r hi hok)

/-- any other operation with a carry-out mask (`v_mad_u64_u32`) -/
theorem conf_carry {h : LaneHandler} (op : VOp) (hk : op.kind = .carryOut)
    (H : ∀ u r, r.i < 64 → h.ok u = true →
      (h.raw u r).dst.map (tr op.wd) = some (specLane op h r).d ∧
      (r.acc.getLsbD r.i = false → (h.raw u r).acc = setBit r.acc r.i (specLane op h r).co)) :
    Conforms h op := by
  intro u r hi hok _
  obtain ⟨hd, ha⟩ := H u r hi hok
  have hc : (op.kind == .cmp) = false := by rw [hk]; decide
  have hm : writesMask op.kind = true := by rw [hk]; decide
  simp only [hc, hm, Bool.false_eq_true, if_false, if_true]
  exact ⟨hd, ha⟩

/-! ## the per-opcode proof script: unfold the generated body, normalise bit tests / accumulator updates at the loop
variable with the lemmas of `MgpuProofs/C06Body.lean`, push projections through the `if`s -/

theorem some_ite {α} (c : Prop) [Decidable c] (a b : α) :
    (if c then some a else some b) = some (if c then a else b) := by split <;> rfl
theorem map_ite {α β} (f : α → β) (c : Prop) [Decidable c] (a b : Option α) :
    Option.map f (if c then a else b) = if c then Option.map f a else Option.map f b := by split <;> rfl
theorem sw32_ite (c : Prop) [Decidable c] (a b : BitVec 64) :
    (if c then a else b).setWidth 32 = if c then a.setWidth 32 else b.setWidth 32 := by split <;> rfl
theorem none_ite {α} (c : Prop) [Decidable c] : (if c then (none : Option α) else none) = none := by split <;> rfl

set_option hygiene false in
/-- handlers that accept every instruction record (`ok := true`); introduces `u r hi hok` -/
macro "conf_start" "[" ds:Lean.Parser.Tactic.simpLemma,* "]" : tactic =>
  `(tactic| (
    intro u r hi hok
    simp only [$ds,*, C06.dst_ite, C06.acc_ite, C06.ofNat_toNat_lt hi, C06.ofNat32_toNat_lt hi,
      C06.or_one_shl, C06.and_not_one_shl, C06.or_zero_shl, C06.test_ne _ _ hi, C06.test_eq _ _ hi,
      C06.test_gt _ _ hi, C06.val_and_shr _ _ hi, C06.val_shr_and _ _ hi, ite_self, none_ite,
      map_ite, Option.map_some, some_ite, Option.some.injEq, sw32_ite, sw32_sw64, sw32_se64, sw32_sw16] at hok ⊢))

set_option hygiene false in
/-- handlers guarded by `if !inst.IsSdwa { … } else { log.Panicf }` (`ok u = !u.isSdwa`); introduces `u r hi hok hs` -/
macro "conf_start_s" "[" ds:Lean.Parser.Tactic.simpLemma,* "]" : tactic =>
  `(tactic| (
    intro u r hi hok
    have hs : u.isSdwa = false := by
      revert hok
      simp only [$ds,*]
      cases u.isSdwa <;> simp
    simp only [$ds,*, hs, Bool.not_false, Bool.false_eq_true, if_true, if_false,
      C06.dst_ite, C06.acc_ite, C06.ofNat_toNat_lt hi, C06.ofNat32_toNat_lt hi,
      C06.or_one_shl, C06.and_not_one_shl, C06.or_zero_shl, C06.test_ne _ _ hi, C06.test_eq _ _ hi,
      C06.test_gt _ _ hi, C06.val_and_shr _ _ hi, C06.val_shr_and _ _ hi, ite_self, none_ite,
      map_ite, Option.map_some, some_ite, Option.some.injEq, sw32_ite, sw32_sw64, sw32_se64, sw32_sw16] at ⊢))

/-- finish a handler without mask result: rewrite the Go idioms with the given lemmas, then `simp` -/
macro "conf_fin" "[" ds:Lean.Parser.Tactic.simpLemma,* "]" : tactic =>
  `(tactic| (
    first
      | (simp only [$ds,*, and_self, true_and]; done)
      | (simp only [$ds,*, and_self, true_and]; first | rfl | simp)
      | simp [$ds,*]))

set_option hygiene false in
/-- finish a handler with a mask result: the destination clause, then the accumulator clause by the
    `if c { acc |= 1 << i }` shape lemma, leaving `c = <the specification's bit>` -/
macro "conf_mask" "[" ds:Lean.Parser.Tactic.simpLemma,* "]" : tactic =>
  `(tactic| (
    refine ⟨by first | rfl | trivial | (simp only [$ds,*]; done) | simp [$ds,*], fun h0 => ?_⟩
    first
      | (rw [acc_or_shape _ _ hi _ h0] <;>
          (try (refine congrArg (setBit _ _) ?_; first | rfl | (simp only [$ds,*]; done) | simp [$ds,*])))
      | (rw [acc_or_shape_p _ _ hi _ h0] <;>
          (try (refine congrArg (setBit _ _) ?_; first | rfl | (simp only [$ds,*]; done) | simp [$ds,*])))
      | (first | rfl | (simp only [$ds,*]; done) | simp [$ds,*])))

end C03V.Conf
