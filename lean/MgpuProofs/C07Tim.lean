import MgpuProofs.C07Emu
set_option linter.unusedSimpArgs false
set_option linter.unusedVariables false
/-! # C07 helper lemmas: the timing store (shared register files + per-wavefront offsets) refines the
flat cells of every resident wavefront; accesses of one wavefront leave the others' cells alone -/
namespace C07
open Gen

/-- the flat cells of a wavefront `w` resident on the compute unit `t` -/
def absT (t : TimingRF) (w : TWf) : Cells :=
  { s := winCells t.sfile w.soff w.ns, v := laneCells (t.vfileOf w) w.voff w.nv,
    vcc := w.vcc, exec := w.exec, scc := w.scc, m0 := w.m0 }

def TimingRF.wf (t : TimingRF) (wi : Nat) : TWf := t.wfs.getD wi default

/-- the allocation of a wavefront lies inside the register files: its SGPR window inside the scalar
    file, its VGPR window inside one 1024-byte lane row of an existing vector file with 64 rows -/
structure Fits (t : TimingRF) (w : TWf) : Prop where
  hs : w.soff + 4 * w.ns ≤ t.sfile.size
  hns : w.ns ≤ 102
  hsimd : w.simd < t.vfiles.size
  hv : 65536 ≤ (t.vfileOf w).size
  hrow : w.voff + 4 * w.nv ≤ 1024

/-- the register regions of two wavefronts do not overlap (what the resource manager guarantees:
    property C09) -/
def RegionsDisjoint (w w' : TWf) : Prop :=
  (w.soff + 4 * w.ns ≤ w'.soff ∨ w'.soff + 4 * w'.ns ≤ w.soff) ∧
  (w.simd ≠ w'.simd ∨ w.voff + 4 * w.nv ≤ w'.voff ∨ w'.voff + 4 * w'.nv ≤ w.voff)

theorem cnt_beq (rc : Nat) : (if (rc == 0) = true then 1 else rc) = cnt rc := by
  unfold cnt; by_cases h : rc = 0 <;> simp [h]

theorem waveOffset_s (w : TWf) (i : Nat) : TimingRF.waveOffset w (R_S0 + i) = w.soff := by
  simp [TimingRF.waveOffset, isVReg_s]
theorem waveOffset_v (w : TWf) (i : Nat) (h : i < 256) : TimingRF.waveOffset w (R_V0 + i) = w.voff := by
  simp [TimingRF.waveOffset, isVReg_v i h]

/-- `CURegFileAccessor.ReadReg` returns exactly the bytes of the cells the access denotes -/
theorem tim_readReg (t : TimingRF) (w : TWf) (a : Acc) (hf : Fits t w) (ha : a.Supported w.ns w.nv) :
    t.readReg w a.k.reg a.rc a.lane (TimingRF.waveOffset w a.k.reg) = .ok ((absT t w).readBytes a) := by
  obtain ⟨k, rc, lane⟩ := a
  obtain ⟨hf1, hf2, hf3, hf4, hf5⟩ := hf
  cases k with
  | s i =>
    obtain ⟨h1, h2⟩ := ha
    have hc := cnt_pos rc
    simp only at h2
    have hi : i < 102 := by omega
    obtain ⟨n1, n2, n3, n4, n5, n6, n7, n8⟩ := s_not_special i hi
    have hnb := numBytes_of4 _ rc (byteSize_s i hi)
    unfold numBytes at hnb
    simp only [Kind.reg, TimingRF.readReg, n1, n2, n3, n4, n5, n6, n7, n8, isSReg_s i hi, regIndex_s i hi,
      waveOffset_s, TimingRF.getRegOffset, cnt_beq, hnb, Cells.readBytes, absT, Bool.true_or,
      Bool.false_eq_true, ↓reduceIte]
    rw [if_pos (by omega), show i * 4 + w.soff = w.soff + 4 * i by omega, show cnt rc * 4 = 4 * cnt rc by omega,
      copyInto_of_length _ (rd_length _ _ _), rd_window _ _ w.ns i _ h2]
  | v i =>
    obtain ⟨h1, h2, h3⟩ := ha
    have hc := cnt_pos rc
    simp only at h2 h3
    have hi : i < 256 := by omega
    obtain ⟨n1, n2, n3, n4, n5, n6, n7, n8⟩ := v_not_special i hi
    have hnb := numBytes_of4 _ rc (byteSize_v i hi)
    unfold numBytes at hnb
    simp only [Kind.reg, TimingRF.readReg, n1, n2, n3, n4, n5, n6, n7, n8, isSReg_v i hi, isVReg_v i hi,
      regIndex_v i hi, waveOffset_v w i hi, TimingRF.getRegOffset, LANE_STRIDE, cnt_beq, hnb, Cells.readBytes,
      absT, laneCells, h3, Bool.or_true, Bool.false_eq_true, ↓reduceIte]
    rw [if_pos (by omega), show i * 4 + lane * 1024 + w.voff = (w.voff + 1024 * lane) + 4 * i by omega,
      show cnt rc * 4 = 4 * cnt rc by omega, copyInto_of_length _ (rd_length _ _ _), rd_window _ _ w.nv i _ h2]
  | scc =>
    have hrc : rc ≤ 1 := ha
    have hrc2 : ¬ (2 ≤ rc) := by omega
    simp [hrc, hrc2, Kind.reg, TimingRF.readReg, R_SCC, R_VCC, R_VCCLO, R_VCCHI, R_EXEC, R_EXECLO, R_EXECHI, R_M0, Cells.readBytes, absT, toLE8_eq]
  | m0 =>
    have hrc : rc ≤ 1 := ha
    have hrc2 : ¬ (2 ≤ rc) := by omega
    simp [hrc, hrc2, Kind.reg, TimingRF.readReg, R_SCC, R_VCC, R_VCCLO, R_VCCHI, R_EXEC, R_EXECLO, R_EXECHI, R_M0, Cells.readBytes, absT, toLE8_eq]
  | vcc =>
    have hrc : rc ≤ 1 := ha
    have hrc2 : ¬ (2 ≤ rc) := by omega
    simp [hrc, hrc2, Kind.reg, TimingRF.readReg, R_SCC, R_VCC, R_VCCLO, R_VCCHI, R_EXEC, R_EXECLO, R_EXECHI, R_M0, Cells.readBytes, absT, toLE8_eq]
  | vcclo =>
    have hrc : rc = 0 ∨ rc = 1 ∨ rc = 2 := by have : rc ≤ 2 := ha; omega
    rcases hrc with rfl | rfl | rfl <;> simp [Kind.reg, TimingRF.readReg, R_SCC, R_VCC, R_VCCLO, R_VCCHI, R_EXEC, R_EXECLO, R_EXECHI, R_M0, Cells.readBytes, absT, toLE8_eq]
  | vcchi =>
    have hrc : rc ≤ 1 := ha
    have hrc2 : ¬ (2 ≤ rc) := by omega
    simp [hrc, hrc2, Kind.reg, TimingRF.readReg, R_SCC, R_VCC, R_VCCLO, R_VCCHI, R_EXEC, R_EXECLO, R_EXECHI, R_M0, Cells.readBytes, absT, toLE8_eq]
  | exec =>
    have hrc : rc ≤ 1 := ha
    have hrc2 : ¬ (2 ≤ rc) := by omega
    simp [hrc, hrc2, Kind.reg, TimingRF.readReg, R_SCC, R_VCC, R_VCCLO, R_VCCHI, R_EXEC, R_EXECLO, R_EXECHI, R_M0, Cells.readBytes, absT, toLE8_eq]
  | execlo =>
    have hrc : rc = 0 ∨ rc = 1 ∨ rc = 2 := by have : rc ≤ 2 := ha; omega
    rcases hrc with rfl | rfl | rfl <;> simp [Kind.reg, TimingRF.readReg, R_SCC, R_VCC, R_VCCLO, R_VCCHI, R_EXEC, R_EXECLO, R_EXECHI, R_M0, Cells.readBytes, absT, toLE8_eq]
  | exechi =>
    have hrc : rc ≤ 1 := ha
    have hrc2 : ¬ (2 ≤ rc) := by omega
    simp [hrc, hrc2, Kind.reg, TimingRF.readReg, R_SCC, R_VCC, R_VCCLO, R_VCCHI, R_EXEC, R_EXECLO, R_EXECHI, R_M0, Cells.readBytes, absT, toLE8_eq]

theorem leNat_pad8 (buf : List UInt8) :
    leNat ((if buf.length < 8 then copyInto 8 buf else buf).take 8) = leNat (buf.take 8) := by
  split
  · rename_i h
    rw [List.take_of_length_le (by simp), List.take_of_length_le (by omega), copyInto,
      List.take_of_length_le (by omega), leNat_append_zeros]
  · rfl

/-- `ReadOperandBytes` / `ReadOperand` of a timing wavefront -/
theorem tim_readOperandBytes (t : TimingRF) (wi : Nat) (a : Acc) (n : Nat) (hf : Fits t (t.wf wi))
    (ha : a.Supported (t.wf wi).ns (t.wf wi).nv) :
    t.readOperandBytes wi a.k.reg a.rc a.lane n = .ok (((absT t (t.wf wi)).readBytes a).take n) := by
  have := tim_readReg t (t.wf wi) a hf ha
  simp only [TimingRF.wf] at this
  simp only [TimingRF.readOperandBytes, TimingRF.wf, this, take_or]

theorem tim_readOperand (t : TimingRF) (wi : Nat) (a : Acc) (hf : Fits t (t.wf wi))
    (ha : a.Supported (t.wf wi).ns (t.wf wi).nv) :
    t.readOperand wi a.k.reg a.rc a.lane = .ok ((absT t (t.wf wi)).read a) := by
  have := tim_readReg t (t.wf wi) a hf ha
  simp only [TimingRF.wf] at this
  simp only [TimingRF.readOperand, TimingRF.wf, this, leNat_pad8, Cells.read]

/-! ## writes -/

theorem wf_setWf_same (t : TimingRF) (wi : Nat) (w' : TWf) (h : wi < t.wfs.size) :
    (t.setWf wi w').wf wi = w' := by
  simp [TimingRF.wf, TimingRF.setWf, Array.getD_eq_getD_getElem?, Array.getElem?_setIfInBounds, h]

theorem wf_setWf_other (t : TimingRF) (wi wj : Nat) (w' : TWf) (h : wj ≠ wi) :
    (t.setWf wi w').wf wj = t.wf wj := by
  simp [TimingRF.wf, TimingRF.setWf, Array.getD_eq_getD_getElem?, Array.getElem?_setIfInBounds, Ne.symm h]

theorem vfileOf_setWf (t : TimingRF) (wi : Nat) (w' x : TWf) : (t.setWf wi w').vfileOf x = t.vfileOf x := rfl

theorem vfileOf_set (t : TimingRF) (s : Nat) (f' : File) (x : TWf) (hs : s < t.vfiles.size) :
    ({ t with vfiles := t.vfiles.setIfInBounds s f' } : TimingRF).vfileOf x =
      if x.simd = s then f' else t.vfileOf x := by
  simp only [TimingRF.vfileOf, Array.getD_eq_getD_getElem?, Array.getElem?_setIfInBounds]
  by_cases h : s = x.simd
  · subst h; simp [hs]
  · have h' : ¬ x.simd = s := fun e => h e.symm
    simp [h, h']

/-- the layout (sizes of the files, positions and sizes of all allocations) is the same in both states -/
structure SameLayout (t t' : TimingRF) : Prop where
  nwf : t'.wfs.size = t.wfs.size
  ssz : t'.sfile.size = t.sfile.size
  nvf : t'.vfiles.size = t.vfiles.size
  vsz : ∀ x : TWf, (t'.vfileOf x).size = (t.vfileOf x).size
  lay : ∀ wj, (t'.wf wj).simd = (t.wf wj).simd ∧ (t'.wf wj).soff = (t.wf wj).soff ∧
    (t'.wf wj).voff = (t.wf wj).voff ∧ (t'.wf wj).ns = (t.wf wj).ns ∧ (t'.wf wj).nv = (t.wf wj).nv

theorem SameLayout.refl (t : TimingRF) : SameLayout t t :=
  ⟨rfl, rfl, rfl, fun _ => rfl, fun _ => ⟨rfl, rfl, rfl, rfl, rfl⟩⟩

theorem SameLayout.trans {a b c : TimingRF} (h1 : SameLayout a b) (h2 : SameLayout b c) : SameLayout a c :=
  ⟨h2.nwf.trans h1.nwf, h2.ssz.trans h1.ssz, h2.nvf.trans h1.nvf, fun x => (h2.vsz x).trans (h1.vsz x),
   fun wj => by
    obtain ⟨a1, a2, a3, a4, a5⟩ := h1.lay wj
    obtain ⟨b1, b2, b3, b4, b5⟩ := h2.lay wj
    exact ⟨b1.trans a1, b2.trans a2, b3.trans a3, b4.trans a4, b5.trans a5⟩⟩

theorem SameLayout.fits {t t' : TimingRF} (h : SameLayout t t') (wj : Nat) (hf : Fits t (t.wf wj)) :
    Fits t' (t'.wf wj) := by
  obtain ⟨a1, a2, a3, a4, a5⟩ := h.lay wj
  obtain ⟨f1, f2, f3, f4, f5⟩ := hf
  refine ⟨by rw [a2, a4, h.ssz]; exact f1, by rw [a4]; exact f2, by rw [a1, h.nvf]; exact f3, ?_,
    by rw [a3, a5]; exact f5⟩
  rw [h.vsz]
  have : t.vfileOf (t'.wf wj) = t.vfileOf (t.wf wj) := by simp only [TimingRF.vfileOf, a1]
  rw [this]; exact f4

theorem sameLayout_setWf (t : TimingRF) (wi : Nat) (w' : TWf) (hwi : wi < t.wfs.size)
    (h : w'.simd = (t.wf wi).simd ∧ w'.soff = (t.wf wi).soff ∧ w'.voff = (t.wf wi).voff ∧
      w'.ns = (t.wf wi).ns ∧ w'.nv = (t.wf wi).nv) : SameLayout t (t.setWf wi w') := by
  refine ⟨by simp [TimingRF.setWf], rfl, rfl, fun _ => rfl, fun wj => ?_⟩
  by_cases e : wj = wi
  · subst e; rw [wf_setWf_same t wj w' hwi]; exact h
  · rw [wf_setWf_other t wi wj w' e]; exact ⟨rfl, rfl, rfl, rfl, rfl⟩

/-- effect of a special-register write on the cells of every wavefront -/
theorem absT_setWf_other (t : TimingRF) (wi wj : Nat) (w' : TWf) (h : wj ≠ wi) :
    absT (t.setWf wi w') ((t.setWf wi w').wf wj) = absT t (t.wf wj) := by
  rw [wf_setWf_other t wi wj w' h]; rfl

theorem write64_lo (cur : UInt64) (rc : Nat) (d : List UInt8) (hrc : rc ≤ 1) (hd : d.length = 4) :
    TimingRF.write64 cur rc d false = .ok (mk64 (leNat d) (hi32 cur)) := by
  unfold TimingRF.write64
  rw [if_neg (by simp; omega)]
  simp only [u32, hd, take_len d 4 hd]
  rw [if_neg (by omega)]
  simp only [Bool.false_eq_true, if_false]
  exact congrArg _ (setLo_eq cur (leNat d) (leNat4_lt d hd))

theorem write64_hi (cur : UInt64) (rc : Nat) (d : List UInt8) (hrc : rc ≤ 1) (hd : d.length = 4) :
    TimingRF.write64 cur rc d true = .ok (mk64 (lo32 cur) (leNat d)) := by
  unfold TimingRF.write64
  rw [if_neg (by simp; omega)]
  simp only [u32, hd, take_len d 4 hd]
  rw [if_neg (by omega)]
  simp only [if_true]
  exact congrArg _ (or_hi_eq cur (leNat d) (leNat4_lt d hd))

theorem write64_full (cur : UInt64) (rc : Nat) (d : List UInt8) (high : Bool) (hd : d.length = 8) :
    TimingRF.write64 cur rc d high = .ok (mk64 (leNat (d.take 4)) (leNat (d.drop 4))) := by
  unfold TimingRF.write64
  have hp : TimingRF.padTo8 d = d := by unfold TimingRF.padTo8; rw [if_pos (by omega)]
  rw [if_pos (by simp [hd]), hp]
  simp only [u64, hd]
  rw [if_neg (by omega), take_len d 8 hd]
  exact congrArg _ (ofNat_leNat8 d hd)

/-- a write that only replaces the special registers of wavefront `wi` -/
theorem tim_special (t : TimingRF) (wi : Nat) (w' : TWf) (c : Cells) (P : Nat → Prop) (Q : Nat → Prop)
    (hwi : wi < t.wfs.size)
    (hl : w'.simd = (t.wf wi).simd ∧ w'.soff = (t.wf wi).soff ∧ w'.voff = (t.wf wi).voff ∧
      w'.ns = (t.wf wi).ns ∧ w'.nv = (t.wf wi).nv)
    (hc : absT t w' = c) :
    True ∧
    absT (t.setWf wi w') ((t.setWf wi w').wf wi) = c ∧ SameLayout t (t.setWf wi w') ∧
    ∀ wj, wj ≠ wi → P wj → Q wj →
      absT (t.setWf wi w') ((t.setWf wi w').wf wj) = absT t (t.wf wj) := by
  refine ⟨trivial, ?_, sameLayout_setWf t wi w' hwi hl, fun wj hne _ _ => absT_setWf_other t wi wj w' hne⟩
  rw [wf_setWf_same t wi w' hwi]; exact hc

/-- `CURegFileAccessor.WriteReg` with data of the operand's width: succeeds, replaces exactly the
    denoted cells of the writing wavefront, keeps the layout, and leaves the cells of every wavefront
    whose regions are disjoint from the writer's untouched -/
theorem tim_writeReg (t : TimingRF) (wi : Nat) (a : Acc) (d : List UInt8) (hwi : wi < t.wfs.size)
    (hf : Fits t (t.wf wi)) (ha : a.Supported (t.wf wi).ns (t.wf wi).nv) (hd : d.length = a.width) :
    (t.writeReg wi a.k.reg a.rc a.lane (TimingRF.waveOffset (t.wf wi) a.k.reg) d).2 = none ∧
    absT (t.writeReg wi a.k.reg a.rc a.lane (TimingRF.waveOffset (t.wf wi) a.k.reg) d).1
      ((t.writeReg wi a.k.reg a.rc a.lane (TimingRF.waveOffset (t.wf wi) a.k.reg) d).1.wf wi) =
        (absT t (t.wf wi)).writeBytes a d ∧
    SameLayout t (t.writeReg wi a.k.reg a.rc a.lane (TimingRF.waveOffset (t.wf wi) a.k.reg) d).1 ∧
    ∀ wj, wj ≠ wi → Fits t (t.wf wj) → RegionsDisjoint (t.wf wi) (t.wf wj) →
      absT (t.writeReg wi a.k.reg a.rc a.lane (TimingRF.waveOffset (t.wf wi) a.k.reg) d).1
        ((t.writeReg wi a.k.reg a.rc a.lane (TimingRF.waveOffset (t.wf wi) a.k.reg) d).1.wf wj) = absT t (t.wf wj) := by
  obtain ⟨k, rc, lane⟩ := a
  obtain ⟨hf1, hf2, hf3, hf4, hf5⟩ := hf
  generalize hw : t.wf wi = w at *
  have hw' : t.wfs.getD wi default = w := hw
  cases k with
  | s i =>
    obtain ⟨h1, h2⟩ := ha
    have hc := cnt_pos rc
    simp only at h2
    have hi : i < 102 := by omega
    obtain ⟨n1, n2, n3, n4, n5, n6, n7, n8⟩ := s_not_special i hi
    rw [width_s] at hd
    simp only [Kind.reg, TimingRF.writeReg, hw', n1, n2, n3, n4, n5, n6, n7, n8, isSReg_s i hi, regIndex_s i hi,
      waveOffset_s, TimingRF.getRegOffset, cnt_beq, Bool.true_or, Bool.or_self, Bool.false_eq_true, ↓reduceIte]
    rw [if_pos (by omega), if_neg (by omega), show cnt rc * 4 = 4 * cnt rc by omega, take_len d _ hd,
      show i * 4 + w.soff = w.soff + 4 * i by omega]
    refine ⟨rfl, ?_, ?_, ?_⟩
    · show absT _ (t.wf wi) = _
      rw [hw]
      simp only [absT, Cells.writeBytes]
      rw [win_wr _ _ w.ns i _ d h2 hd hf1]
      rfl
    · exact ⟨rfl, by simp, rfl, fun _ => rfl, fun _ => ⟨rfl, rfl, rfl, rfl, rfl⟩⟩
    · intro wj hne hfj hdis
      show absT _ (t.wf wj) = _
      simp only [absT]
      rw [win_wr_disjoint _ _ _ _ _ (by have := hdis.1; omega)]
      rfl
  | v i =>
    obtain ⟨h1, h2, h3⟩ := ha
    have hc := cnt_pos rc
    simp only at h2 h3
    have hi : i < 256 := by omega
    obtain ⟨n1, n2, n3, n4, n5, n6, n7, n8⟩ := v_not_special i hi
    rw [width_v] at hd
    simp only [Kind.reg, TimingRF.writeReg, hw', n1, n2, n3, n4, n5, n6, n7, n8, isSReg_v i hi, isVReg_v i hi,
      regIndex_v i hi, waveOffset_v w i hi, TimingRF.getRegOffset, LANE_STRIDE, cnt_beq, Bool.or_true,
      Bool.or_self, Bool.or_false, Bool.false_eq_true, ↓reduceIte]
    rw [if_pos (by omega), if_neg (by omega), show cnt rc * 4 = 4 * cnt rc by omega, take_len d _ hd,
      show i * 4 + lane * 1024 + w.voff = w.voff + 1024 * lane + 4 * i by omega]
    refine ⟨rfl, ?_, ?_, ?_⟩
    · show absT _ (t.wf wi) = _
      rw [hw]
      simp only [absT, Cells.writeBytes, vfileOf_set t w.simd _ w hf3, if_true]
      rw [lane_wr _ _ w.nv lane i _ d h3 h2 hd hf5 hf4]
    · refine ⟨rfl, rfl, by simp, fun x => ?_, fun _ => ⟨rfl, rfl, rfl, rfl, rfl⟩⟩
      rw [vfileOf_set t w.simd _ x hf3]
      by_cases e : x.simd = w.simd
      · simp only [e, if_true, size_wr]; simp only [TimingRF.vfileOf, e]
      · simp [e]
    · intro wj hne hfj hdis
      show absT _ (t.wf wj) = _
      simp only [absT, vfileOf_set t w.simd _ (t.wf wj) hf3]
      by_cases e : (t.wf wj).simd = w.simd
      · simp only [e, if_true]
        have hv : t.vfileOf (t.wf wj) = t.vfileOf w := by simp only [TimingRF.vfileOf, e]
        rw [hv, lane_wr_disjoint _ w.voff w.nv _ _ lane i d (by omega) hf5 hfj.hrow
          (by have := hdis.2; omega)]
      · simp only [e, if_false]
  | scc =>
    simp [Acc.width, Acc.cells, CellId.bytes] at hd
    obtain ⟨b, rfl⟩ : ∃ b, d = [b] := by
      match d, hd with
      | [b], _ => exact ⟨b, rfl⟩
    simp only [Kind.reg, TimingRF.writeReg, hw', beq_self_eq_true, if_true]
    refine tim_special t wi _ _ _ _ hwi ?_ ?_
    · rw [hw]; exact ⟨rfl, rfl, rfl, rfl, rfl⟩
    · simp [absT, Cells.writeBytes, TimingRF.vfileOf]
  | m0 =>
    simp [Acc.width, Acc.cells, CellId.bytes] at hd
    have e : TimingRF.writeReg t wi R_M0 rc lane (TimingRF.waveOffset w R_M0) d =
        (t.setWf wi { w with m0 := UInt32.ofNat (leNat d) }, none) := by
      simp [TimingRF.writeReg, hw', R_SCC, R_VCC, R_VCCLO, R_VCCHI, R_EXEC, R_EXECLO, R_EXECHI, R_M0, u32, hd,
        take_len d 4 hd]
    simp only [Kind.reg, e]
    refine tim_special t wi _ _ _ _ hwi ?_ ?_
    · rw [hw]; exact ⟨rfl, rfl, rfl, rfl, rfl⟩
    · simp [absT, Cells.writeBytes, TimingRF.vfileOf]
  | vcc =>
    simp [Acc.width, Acc.cells, CellId.bytes] at hd
    have e : TimingRF.writeReg t wi R_VCC rc lane (TimingRF.waveOffset w R_VCC) d =
        (t.setWf wi { w with vcc := mk64 (leNat (d.take 4)) (leNat (d.drop 4)) }, none) := by
      simp [TimingRF.writeReg, hw', R_SCC, R_VCC, R_VCCLO, R_VCCHI, R_EXEC, R_EXECLO, R_EXECHI, R_M0, write64_full _ rc d _ hd]
    simp only [Kind.reg, e]
    refine tim_special t wi _ _ _ _ hwi ?_ ?_
    · rw [hw]; exact ⟨rfl, rfl, rfl, rfl, rfl⟩
    · simp [absT, Cells.writeBytes, TimingRF.vfileOf]
  | vcclo =>
    have hrc : rc ≤ 1 ∨ rc = 2 := by have : rc ≤ 2 := ha; omega
    rcases hrc with hrc | rfl
    · have hd4 : d.length = 4 := by
        have : rc = 0 ∨ rc = 1 := by omega
        rcases this with rfl | rfl <;> simpa [Acc.width, Acc.cells, CellId.bytes] using hd
      have hne : rc ≠ 2 := by omega
      have e : TimingRF.writeReg t wi R_VCCLO rc lane (TimingRF.waveOffset w R_VCCLO) d =
          (t.setWf wi { w with vcc := mk64 (leNat d) (hi32 w.vcc) }, none) := by
        simp [TimingRF.writeReg, hw', R_SCC, R_VCC, R_VCCLO, R_VCCHI, R_EXEC, R_EXECLO, R_EXECHI, R_M0, write64_lo _ rc d hrc hd4]
      simp only [Kind.reg, e]
      refine tim_special t wi _ _ _ _ hwi ?_ ?_
      · rw [hw]; exact ⟨rfl, rfl, rfl, rfl, rfl⟩
      · simp [absT, Cells.writeBytes, TimingRF.vfileOf, hne]
    · simp [Acc.width, Acc.cells, CellId.bytes] at hd
      have e : TimingRF.writeReg t wi R_VCCLO 2 lane (TimingRF.waveOffset w R_VCCLO) d =
          (t.setWf wi { w with vcc := mk64 (leNat (d.take 4)) (leNat (d.drop 4)) }, none) := by
        simp [TimingRF.writeReg, hw', R_SCC, R_VCC, R_VCCLO, R_VCCHI, R_EXEC, R_EXECLO, R_EXECHI, R_M0, write64_full _ 2 d _ hd]
      simp only [Kind.reg, e]
      refine tim_special t wi _ _ _ _ hwi ?_ ?_
      · rw [hw]; exact ⟨rfl, rfl, rfl, rfl, rfl⟩
      · simp [absT, Cells.writeBytes, TimingRF.vfileOf]
  | vcchi =>
    have hrc : rc ≤ 1 := ha
    simp [Acc.width, Acc.cells, CellId.bytes] at hd
    have e : TimingRF.writeReg t wi R_VCCHI rc lane (TimingRF.waveOffset w R_VCCHI) d =
        (t.setWf wi { w with vcc := mk64 (lo32 w.vcc) (leNat d) }, none) := by
      simp [TimingRF.writeReg, hw', R_SCC, R_VCC, R_VCCLO, R_VCCHI, R_EXEC, R_EXECLO, R_EXECHI, R_M0, write64_hi _ rc d hrc hd]
    simp only [Kind.reg, e]
    refine tim_special t wi _ _ _ _ hwi ?_ ?_
    · rw [hw]; exact ⟨rfl, rfl, rfl, rfl, rfl⟩
    · simp [absT, Cells.writeBytes, TimingRF.vfileOf]
  | exec =>
    simp [Acc.width, Acc.cells, CellId.bytes] at hd
    have e : TimingRF.writeReg t wi R_EXEC rc lane (TimingRF.waveOffset w R_EXEC) d =
        (t.setWf wi { w with exec := mk64 (leNat (d.take 4)) (leNat (d.drop 4)) }, none) := by
      simp [TimingRF.writeReg, hw', R_SCC, R_VCC, R_VCCLO, R_VCCHI, R_EXEC, R_EXECLO, R_EXECHI, R_M0, write64_full _ rc d _ hd]
    simp only [Kind.reg, e]
    refine tim_special t wi _ _ _ _ hwi ?_ ?_
    · rw [hw]; exact ⟨rfl, rfl, rfl, rfl, rfl⟩
    · simp [absT, Cells.writeBytes, TimingRF.vfileOf]
  | execlo =>
    have hrc : rc ≤ 1 ∨ rc = 2 := by have : rc ≤ 2 := ha; omega
    rcases hrc with hrc | rfl
    · have hd4 : d.length = 4 := by
        have : rc = 0 ∨ rc = 1 := by omega
        rcases this with rfl | rfl <;> simpa [Acc.width, Acc.cells, CellId.bytes] using hd
      have hne : rc ≠ 2 := by omega
      have e : TimingRF.writeReg t wi R_EXECLO rc lane (TimingRF.waveOffset w R_EXECLO) d =
          (t.setWf wi { w with exec := mk64 (leNat d) (hi32 w.exec) }, none) := by
        simp [TimingRF.writeReg, hw', R_SCC, R_VCC, R_VCCLO, R_VCCHI, R_EXEC, R_EXECLO, R_EXECHI, R_M0, write64_lo _ rc d hrc hd4]
      simp only [Kind.reg, e]
      refine tim_special t wi _ _ _ _ hwi ?_ ?_
      · rw [hw]; exact ⟨rfl, rfl, rfl, rfl, rfl⟩
      · simp [absT, Cells.writeBytes, TimingRF.vfileOf, hne]
    · simp [Acc.width, Acc.cells, CellId.bytes] at hd
      have e : TimingRF.writeReg t wi R_EXECLO 2 lane (TimingRF.waveOffset w R_EXECLO) d =
          (t.setWf wi { w with exec := mk64 (leNat (d.take 4)) (leNat (d.drop 4)) }, none) := by
        simp [TimingRF.writeReg, hw', R_SCC, R_VCC, R_VCCLO, R_VCCHI, R_EXEC, R_EXECLO, R_EXECHI, R_M0, write64_full _ 2 d _ hd]
      simp only [Kind.reg, e]
      refine tim_special t wi _ _ _ _ hwi ?_ ?_
      · rw [hw]; exact ⟨rfl, rfl, rfl, rfl, rfl⟩
      · simp [absT, Cells.writeBytes, TimingRF.vfileOf]
  | exechi =>
    have hrc : rc ≤ 1 := ha
    simp [Acc.width, Acc.cells, CellId.bytes] at hd
    have e : TimingRF.writeReg t wi R_EXECHI rc lane (TimingRF.waveOffset w R_EXECHI) d =
        (t.setWf wi { w with exec := mk64 (lo32 w.exec) (leNat d) }, none) := by
      simp [TimingRF.writeReg, hw', R_SCC, R_VCC, R_VCCLO, R_VCCHI, R_EXEC, R_EXECLO, R_EXECHI, R_M0, write64_hi _ rc d hrc hd]
    simp only [Kind.reg, e]
    refine tim_special t wi _ _ _ _ hwi ?_ ?_
    · rw [hw]; exact ⟨rfl, rfl, rfl, rfl, rfl⟩
    · simp [absT, Cells.writeBytes, TimingRF.vfileOf]

end C07
