import MgpuModel.C20_Spec
/-! # C20 — conservation lemmas: no operation of a layer creates or loses work -/
namespace C20

@[simp] theorem sum_nil : sum [] = 0 := rfl
@[simp] theorem sum_cons (a : Nat) (l : List Nat) : sum (a :: l) = a + sum l := rfl
@[simp] theorem sum_append (a b : List Nat) : sum (a ++ b) = sum a + sum b := by
  induction a with
  | nil => simp
  | cons x xs ih => simp [ih]; omega

/-- writing slot `i` changes a sum over the list exactly by the change of that slot -/
theorem sum_upd {α} [Inhabited α] (f : α → Nat) (h0 : f default = 0) (l : List α) (i : Nat) (v : α) :
    sum ((upd l i v).map f) + f (get l i) = sum (l.map f) + f v := by
  induction l generalizing i with
  | nil =>
    induction i with
    | zero => simp [upd, get, h0]
    | succ i ih => simp [upd, get, h0] at ih ⊢; omega
  | cons x xs ih =>
    cases i with
    | zero => simp [upd, get]; omega
    | succ i => have := ih i; simp [upd, get] at this ⊢; omega

namespace Level
variable {α : Type} (w : α → Nat)

theorem weight_send (l l' : Level α) (j : Nat) (u : α) (h : l.send j u = some l') :
    l'.weight w = l.weight w + w u ∧ l'.undisp = l.undisp ∧ l'.cIn = l.cIn := by
  unfold send at h
  split at h
  · cases h
  · cases h; simp [weight]; omega

theorem weight_dispatch (l : Level α) : (l.dispatch).1.weight w = l.weight w := by
  unfold dispatch
  split
  · rename_i f fs u us hf hu
    split
    · rename_i l' hs
      obtain ⟨h1, h2, _⟩ := weight_send w l l' f u hs
      simp only [weight, h2, hu] at h1 ⊢
      simp at h1 ⊢
      omega
    · rfl
  · rfl

theorem weight_procUp (l : Level α) : (l.procUp).1.weight w = l.weight w := by
  unfold procUp; split <;> rfl

theorem weight_childSend (l l' : Level α) (j : Nat) (h : l.childSend j = some l') :
    l'.weight w = l.weight w := by
  unfold childSend at h
  simp only at h
  split at h
  · cases h
  · cases h; rfl

theorem weight_childTake (l l' : Level α) (j : Nat) (u : α) (wf : Bool)
    (h : l.childTake j = some (u, l', wf)) : l'.weight w + w u = l.weight w := by
  unfold childTake at h
  split at h
  · cases h
  · rename_i u' rest hg
    simp only [Option.some.injEq, Prod.mk.injEq] at h
    obtain ⟨rfl, rfl, _⟩ := h
    have := sum_upd (fun b : List α => sum (b.map w)) rfl l.cIn j rest
    simp only [weight]
    rw [hg] at this
    simp at this ⊢
    omega

theorem weight_fwdDown (pOut : List (Nat × α)) (cIn : List (List α)) :
    sum ((fwdDown pOut cIn).1.map (fun p => w p.2)) + sum ((fwdDown pOut cIn).2.1.map (fun b => sum (b.map w)))
      = sum (pOut.map (fun p => w p.2)) + sum (cIn.map (fun b => sum (b.map w))) := by
  induction pOut generalizing cIn with
  | nil => simp [fwdDown]
  | cons p rest ih =>
    obtain ⟨j, u⟩ := p
    unfold fwdDown
    simp only
    split
    · rfl
    · have h1 := ih (upd cIn j (get cIn j ++ [u]))
      have h2 := sum_upd (fun b : List α => sum (b.map w)) rfl cIn j (get cIn j ++ [u])
      simp at h1 h2 ⊢
      omega

theorem sum_replicate_zero (k : Nat) : sum (List.replicate k 0) = 0 := by
  induction k with
  | zero => rfl
  | succ k ih => simp [List.replicate, ih]

theorem weight_fwdPort (o : ConnOut α) (p : Nat) : (fwdPort o p).l.weight w = o.l.weight w := by
  unfold fwdPort
  cases p with
  | zero =>
    have := weight_fwdDown w o.l.pOut o.l.cIn
    simp only [weight] at this ⊢
    omega
  | succ j => rfl

theorem weight_connTick (l : Level α) : (l.connTick).l.weight w = l.weight w := by
  unfold connTick
  simp only
  have key : ∀ (ps : List Nat) (o : ConnOut α),
      (ps.foldl (fun o i => fwdPort o ((i + l.rr) % (l.n + 1))) o).l.weight w = o.l.weight w := by
    intro ps
    induction ps with
    | nil => intro o; rfl
    | cons p ps ih => intro o; simp only [List.foldl_cons]; rw [ih, weight_fwdPort]
  have := key (List.range (l.n + 1)) { l := l }
  simpa [weight] using this

end Level
end C20
