import MgpuProofs.C09Sys0
import MgpuProofs.C09Stuck
/-! # C09, closed loop — what the command processor's tick does to the trace, to `done` and to the
unread completion messages; projection of a closed run onto the open model of each component

* `step_log_mono`: the trace only grows (every tick is a sequence of atomic steps that cons events).
* `Src P`: every request id in an unread completion message and every id in the ghost list `done`
  satisfies `P`. A tick never invents an id: `done` is extended only by ids read from the head
  message (`consume`), a partially consumed message keeps a sublist of its ids (`cpTick_src`).
* `srun_cp` / `srun_reach`: the command processor of a closed run is the open run of `cpOps`; every
  compute unit of a closed run is `TReach`able. -/
namespace C09

/-! ## the trace only grows -/

theorem VStep_log {v v' : V} (s : VStep v v') : ∃ new, v'.log = new ++ v.log := by
  cases s <;> first | exact ⟨[], rfl⟩ | exact ⟨[_], rfl⟩

theorem Steps_log {b : Bool} {v v' : V} (s : Steps b v v') : ∃ new, v'.log = new ++ v.log := by
  induction s with
  | refl v => exact ⟨[], rfl⟩
  | cons s _ ih =>
    obtain ⟨n1, h1⟩ := VStep_log s
    obtain ⟨n2, h2⟩ := ih
    exact ⟨n2 ++ n1, by rw [h2, h1, List.append_assoc]⟩

theorem step_log_mono (cp : CP) (op : Op) (h : DCI cp) (e : Ev) (he : e ∈ cp.log) : e ∈ (step cp op).log := by
  cases op with
  | tick =>
    obtain ⟨new, hn⟩ := Steps_log (cpTick_steps cp h)
    have hn' : (cpTick cp).1.log = new ++ cp.log := hn
    show e ∈ (cpTick cp).1.log
    rw [hn']; exact List.mem_append_right _ he
  | launch k => exact he
  | complete ids => exact he
  | cuRoom n => exact he
  | drvRoom n => exact he

/-! ## no request id is invented -/

def Src (P : Nat → Prop) (cp : CP) : Prop :=
  (∀ m ∈ cp.cuIn, ∀ r ∈ m, P r) ∧ ∀ r ∈ cp.done, P r

theorem Src_of_eq {P : Nat → Prop} {cp cp' : CP} (h : Src P cp) (h1 : cp'.cuIn = cp.cuIn)
    (h2 : cp'.done = cp.done) : Src P cp' := by
  unfold Src; rw [h1, h2]; exact h

theorem Src_mono {P Q : Nat → Prop} {cp : CP} (h : Src P cp) (hpq : ∀ r, P r → Q r) : Src Q cp :=
  ⟨fun m hm r hr => hpq r (h.1 m hm r hr), fun r hr => hpq r (h.2 r hr)⟩

theorem completeKernel_done (cp : CP) (i : Nat) : (completeKernel cp i).1.done = cp.done := by
  unfold completeKernel
  cases hk : (cp.disp i).kern with
  | none => simp only [hk]
  | some k =>
    simp only [hk]
    by_cases hr : cp.drvRoom = 0
    · simp [hr]
    · simp only [hr, if_false]; rfl

theorem tail_done (cp1 : CP) (i : Nat) (cur : Option DLoc) : (tailF cp1 i cur).1.done = cp1.done := by
  unfold tailF
  cases cur with
  | none => rfl
  | some dl =>
    simp only []
    by_cases hf : cp1.fault.isSome = true
    · simp [hf]
    · by_cases hr : cp1.cuRoom = 0
      · simp [hf, hr]
      · by_cases hb : dl.locs.length > 16
        · simp only [hf, hr, hb, if_true, if_false]; rfl
        · simp only [hf, hr, hb, if_false]; rfl

theorem dispatchNextWG_dc (cp : CP) (i : Nat) :
    (dispatchNextWG cp i).1.done = cp.done ∧ (dispatchNextWG cp i).1.cuIn = cp.cuIn := by
  rw [dispatchNextWG_eq]
  refine ⟨?_, ?_⟩
  · rw [tail_done]; exact congrArg V.done (pre_view cp i).1
  · rw [tail_cuIn]; exact (pre_view cp i).2

theorem dispatchLoop_dc (i : Nat) : ∀ (n : Nat) (cp : CP),
    (dispatchLoop i n cp).1.done = cp.done ∧ (dispatchLoop i n cp).1.cuIn = cp.cuIn := by
  intro n
  induction n with
  | zero => intro cp; exact ⟨rfl, rfl⟩
  | succ n ih =>
    intro cp
    simp only [dispatchLoop]
    split
    · exact dispatchNextWG_dc cp i
    · show (dispatchLoop i n (dispatchNextWG cp i).1).1.done = cp.done ∧
        (dispatchLoop i n (dispatchNextWG cp i).1).1.cuIn = cp.cuIn
      rw [(ih _).1, (ih _).2]; exact dispatchNextWG_dc cp i

theorem completeOne_src {P : Nat → Prop} (cp : CP) (i id : Nat) (h : Src P cp) (hid : P id) :
    Src P (completeOne cp i id) ∧ (completeOne cp i id).cuIn = cp.cuIn := by
  unfold completeOne
  cases hf : (cp.disp i).inflight.find? (·.1 = id) with
  | none => simp only [hf]; exact ⟨h, trivial⟩
  | some e =>
    obtain ⟨r, dl⟩ := e
    simp only [hf]
    cases free (cp.pool.getD dl.cu default) dl.key <;>
    · refine ⟨⟨h.1, fun r' hr' => ?_⟩, rfl⟩
      have hr'' : r' ∈ id :: cp.done := hr'
      rcases List.mem_cons.1 hr'' with e | e
      · rw [e]; exact hid
      · exact h.2 _ e

theorem consume_src {P : Nat → Prop} (i : Nat) : ∀ (ids : List Nat) (cp : CP), Src P cp → (∀ r ∈ ids, P r) →
    Src P (consume i ids cp).1 ∧ (consume i ids cp).1.cuIn = cp.cuIn ∧
    ∀ r ∈ (consume i ids cp).2, r ∈ ids := by
  intro ids
  induction ids with
  | nil => intro cp h _; exact ⟨h, rfl, fun r hr => hr⟩
  | cons id ids ih =>
    intro cp h hP
    simp only [consume]
    split
    · obtain ⟨h1, h1c⟩ := completeOne_src cp i id h (hP id List.mem_cons_self)
      obtain ⟨a, b, c⟩ := ih (completeOne cp i id) h1 (fun r hr => hP r (List.mem_cons_of_mem _ hr))
      exact ⟨a, b.trans h1c, fun r hr => List.mem_cons_of_mem _ (c r hr)⟩
    · obtain ⟨a, b, c⟩ := ih cp h (fun r hr => hP r (List.mem_cons_of_mem _ hr))
      refine ⟨a, b, ?_⟩
      intro r hr
      have hr' : r ∈ id :: (consume i ids cp).2 := hr
      rcases List.mem_cons.1 hr' with e | e
      · rw [e]; exact List.mem_cons_self
      · exact List.mem_cons_of_mem _ (c r e)

theorem procMsgs_src {P : Nat → Prop} (i : Nat) : ∀ (n : Nat) (cp : CP), Src P cp → Src P (procMsgs i n cp).1 := by
  intro n
  induction n with
  | zero => intro cp h; exact h
  | succ n ih =>
    intro cp h
    simp only [procMsgs]
    cases hcu : cp.cuIn with
    | nil => exact h
    | cons ids rest =>
      simp only []
      have hids : ∀ r ∈ ids, P r := fun r hr => h.1 ids (by rw [hcu]; exact List.mem_cons_self) r hr
      obtain ⟨a, _, c⟩ := consume_src i ids cp h hids
      have hrest : ∀ m ∈ rest, ∀ r ∈ m, P r :=
        fun m hm => h.1 m (by rw [hcu]; exact List.mem_cons_of_mem _ hm)
      split
      · exact h
      · split
        · exact a
        · split
          · exact ih _ ⟨hrest, a.2⟩
          · refine ⟨fun m hm => ?_, a.2⟩
            have hm' : m ∈ (consume i ids cp).2 :: rest := hm
            rcases List.mem_cons.1 hm' with e | e
            · rw [e]; exact fun r hr => hids r (c r hr)
            · exact hrest m e

theorem dispTick_src {P : Nat → Prop} (cp : CP) (i : Nat) (h : Src P cp) : Src P (dispTick cp i).1 := by
  have key : ∀ r1 : CP × Bool, Src P r1.1 →
      Src P (if r1.1.fault.isSome then r1 else
        let r2 := procMsgs i 8 r1.1
        (r2.1, r1.2 || r2.2)).1 := by
    intro r1 h1
    split
    · exact h1
    · exact procMsgs_src i 8 r1.1 h1
  unfold dispTick
  by_cases hc : (cp.disp i).cycleLeft > 0
  · simp only [hc, if_true]; exact h
  · simp only [hc, if_false]
    by_cases hks : (cp.disp i).kern.isSome = true
    · simp only [hks, if_true]
      by_cases hkc : kernelCompleted (cp.disp i) = true
      · simp only [hkc, if_true]
        exact key _ (Src_of_eq h (completeKernel_cuIn cp i) (completeKernel_done cp i))
      · simp only [hkc]
        exact key _ (Src_of_eq h (dispatchLoop_dc i 8 cp).2 (dispatchLoop_dc i 8 cp).1)
    · simp only [hks]; exact key (cp, false) h

theorem tickDispatchers_src {P : Nat → Prop} : ∀ (is : List Nat) (cp : CP), Src P cp →
    Src P (tickDispatchers is cp).1 := by
  intro is
  induction is with
  | nil => intro cp h; exact h
  | cons i is ih =>
    intro cp h
    simp only [tickDispatchers]
    split
    · exact h
    · exact ih _ (dispTick_src cp i h)

theorem handleLaunch_src {P : Nat → Prop} (cp : CP) (h : Src P cp) : Src P (handleLaunch cp).1 := by
  unfold handleLaunch
  cases cp.drvIn with
  | nil => exact h
  | cons k rest =>
    simp only []
    cases findAvailable cp.disps with
    | none => exact h
    | some i => simp only []; split <;> exact h

theorem cpTick_src {P : Nat → Prop} (cp : CP) (h : Src P cp) : Src P (cpTick cp).1 := by
  have h1 := tickDispatchers_src (List.range cp.disps.length) cp h
  unfold cpTick
  simp only []
  split
  · exact h1
  · exact handleLaunch_src _ (handleLaunch_src _ h1)

theorem step_src {P : Nat → Prop} (cp : CP) (op : Op) (h : Src P cp)
    (hop : ∀ ids, op = .complete ids → ∀ r ∈ ids, P r) : Src P (step cp op) := by
  cases op with
  | tick => exact cpTick_src cp h
  | launch k => exact h
  | complete ids =>
    refine ⟨fun m hm => ?_, h.2⟩
    have hm' : m ∈ cp.cuIn ++ [ids] := hm
    rcases List.mem_append.1 hm' with a | a
    · exact h.1 m a
    · rw [List.mem_singleton.1 a]; exact hop ids rfl
  | cuRoom n => exact h
  | drvRoom n => exact h

namespace Sys

/-! ## projections -/

theorem step_idOp (cp : CP) : step cp (idOp cp) = cp := rfl

theorem srun_cons (s : Sys) (o : SOp) (os : List SOp) : srun s (o :: os) = srun (sstep s o) os := rfl

theorem srun_append (s : Sys) (a b : List SOp) : srun s (a ++ b) = srun (srun s a) b := by
  simp [srun, List.foldl_append]

/-- the command processor of a closed run is the open run of the projected moves -/
theorem srun_cp (s : Sys) (ops : List SOp) : (srun s ops).cp = run s.cp (cpOps s ops) := by
  induction ops generalizing s with
  | nil => rfl
  | cons o os ih => rw [srun_cons, ih]; rfl

/-- launch ids of a closed schedule -/
def sLaunchIds (ops : List SOp) : List Nat :=
  ops.filterMap (fun o => match o with | .launch k => some k.id | _ => none)

theorem cpOp_cases (s : Sys) (o : SOp) :
    (∃ k, o = .launch k ∧ cpOp s o = .launch k) ∨ ((∀ k, o ≠ .launch k) ∧ ∀ k, cpOp s o ≠ .launch k) := by
  cases o with
  | launch k => exact Or.inl ⟨k, rfl, rfl⟩
  | tick => exact Or.inr ⟨(fun k h => by cases h), (fun k h => by cases h)⟩
  | deliverMap r =>
    refine Or.inr ⟨(fun k h => by cases h), fun k => ?_⟩
    simp only [cpOp]; split <;> simp [idOp]
  | cu c t => exact Or.inr ⟨(fun k h => by cases h), (fun k h => by cases h)⟩
  | deliverCmp c r =>
    refine Or.inr ⟨(fun k h => by cases h), fun k => ?_⟩
    simp only [cpOp]; split <;> simp [idOp]
  | takeRsp =>
    refine Or.inr ⟨(fun k h => by cases h), fun k => ?_⟩
    simp only [cpOp]; split <;> simp [idOp]

theorem launchIds_cons_non (x : Op) (l : List Op) (h : ∀ k, x ≠ .launch k) :
    launchIds (x :: l) = launchIds l := by
  cases x with
  | launch k => exact absurd rfl (h k)
  | tick => rfl
  | complete ids => rfl
  | cuRoom n => rfl
  | drvRoom n => rfl

theorem sLaunchIds_cons_non (x : SOp) (l : List SOp) (h : ∀ k, x ≠ .launch k) :
    sLaunchIds (x :: l) = sLaunchIds l := by
  cases x with
  | launch k => exact absurd rfl (h k)
  | tick => rfl
  | deliverMap r => rfl
  | cu c t => rfl
  | deliverCmp c r => rfl
  | takeRsp => rfl

theorem launchIds_cpOps (s : Sys) (ops : List SOp) : launchIds (cpOps s ops) = sLaunchIds ops := by
  induction ops generalizing s with
  | nil => rfl
  | cons o os ih =>
    rcases cpOp_cases s o with ⟨k, rfl, hk⟩ | ⟨h1, h2⟩
    · simp only [cpOps, hk, launchIds, sLaunchIds, List.filterMap_cons]
      have := ih (sstep s (.launch k))
      simp only [launchIds, sLaunchIds] at this
      rw [this]
    · have e1 : launchIds (cpOps s (o :: os)) = launchIds (cpOps (sstep s o) os) :=
        launchIds_cons_non _ _ h2
      have e2 : sLaunchIds (o :: os) = sLaunchIds os := sLaunchIds_cons_non _ _ h1
      rw [e1, e2, ih]

theorem mem_cpOps_launch (s : Sys) (ops : List SOp) (k : Kern) :
    Op.launch k ∈ cpOps s ops ↔ SOp.launch k ∈ ops := by
  induction ops generalizing s with
  | nil => simp [cpOps]
  | cons o os ih =>
    simp only [cpOps, List.mem_cons, ih]
    rcases cpOp_cases s o with ⟨k', rfl, hk⟩ | ⟨h1, h2⟩
    · rw [hk]; constructor
      · rintro (h | h)
        · left; cases h; rfl
        · exact Or.inr h
      · rintro (h | h)
        · left; cases h; rfl
        · exact Or.inr h
    · constructor
      · rintro (h | h)
        · exact absurd h.symm (h2 k)
        · exact Or.inr h
      · rintro (h | h)
        · exact absurd h.symm (h1 k)
        · exact Or.inr h

/-! ## every compute unit of a closed run is reachable by legal moves of its open model -/

theorem sstep_len (s : Sys) (o : SOp) : (sstep s o).cus.length = s.cus.length := by
  simp [sstep]

theorem srun_len (s : Sys) (ops : List SOp) : (srun s ops).cus.length = s.cus.length := by
  induction ops generalizing s with
  | nil => rfl
  | cons o os ih => rw [srun_cons, ih, sstep_len]

theorem sstep_cu (s : Sys) (o : SOp) (c : Nat) (hc : c < s.cus.length) :
    (sstep s o).cu c = applyCU (s.cu c) (cuOp s c o) := by
  simp [Sys.cu, sstep, List.getD_eq_getElem?_getD, hc]

theorem mapMove_some {s : Sys} {r c : Nat} {t : CUSide.TOp} (h : mapMove s r = some (c, t)) :
    r ∉ s.delivered ∧ c < s.cus.length ∧
    ∃ simds, findMap s.cp.log r = some (c, simds) ∧ t = .map r 0 simds ∧ CUSide.TLegal (s.cu c) t := by
  unfold mapMove at h
  split at h
  · cases h
  · rename_i hnd
    split at h
    · cases h
    · rename_i c' simds hf
      split at h
      · rename_i hl
        cases h
        exact ⟨hnd, hl.1, simds, hf, rfl, hl.2⟩
      · cases h

theorem cuOp_legal (s : Sys) (c : Nat) (o : SOp) (t : CUSide.TOp) (h : cuOp s c o = some t) :
    CUSide.TLegal (s.cu c) t := by
  cases o with
  | launch k => cases h
  | tick => cases h
  | takeRsp => cases h
  | deliverMap r =>
    simp only [cuOp] at h
    cases hm : mapMove s r with
    | none => rw [hm] at h; cases h
    | some p =>
      obtain ⟨c', t'⟩ := p
      rw [hm] at h
      simp only at h
      split at h
      · rename_i hcc
        cases h
        obtain ⟨_, _, simds, _, _, hl⟩ := mapMove_some hm
        rw [← hcc]; exact hl
      · cases h
  | cu c' t' =>
    simp only [cuOp] at h
    split at h
    · rename_i hcc
      cases h
      obtain ⟨rfl, hmv⟩ := hcc
      simp only [cuMove, Bool.and_eq_true, decide_eq_true_eq] at hmv
      exact hmv.2
    · cases h
  | deliverCmp c' r =>
    simp only [cuOp] at h
    split at h
    · cases h; exact trivial
    · cases h

theorem sstep_reach (s : Sys) (o : SOp) (c : Nat) (hc : c < s.cus.length)
    (h : CUSide.TReach (s.cu c)) : CUSide.TReach ((sstep s o).cu c) := by
  rw [sstep_cu s o c hc]
  cases hco : cuOp s c o with
  | none => exact h
  | some t => exact CUSide.TReach.step t h (cuOp_legal s c o t hco)

theorem srun_reach (s : Sys) (ops : List SOp) (c : Nat) (hc : c < s.cus.length)
    (h : CUSide.TReach (s.cu c)) : CUSide.TReach ((srun s ops).cu c) := by
  induction ops generalizing s with
  | nil => exact h
  | cons o os ih =>
    rw [srun_cons]
    exact ih (sstep s o) (by rw [sstep_len]; exact hc) (sstep_reach s o c hc h)

theorem sinit_cu (cfg : Cfg) (nd : Nat) (pool : List CU) (caps : Nat → List Nat) (room capM capD c : Nat)
    (hc : c < pool.length) : (sinit cfg nd pool caps room capM capD).cu c = CUSide.tinit (caps c) room := by
  simp [Sys.cu, sinit, List.getD_eq_getElem?_getD, hc]

theorem sinit_len (cfg : Cfg) (nd : Nat) (pool : List CU) (caps : Nat → List Nat) (room capM capD : Nat) :
    (sinit cfg nd pool caps room capM capD).cus.length = pool.length := by
  simp [sinit]

theorem sinit_cp (cfg : Cfg) (nd : Nat) (pool : List CU) (caps : Nat → List Nat) (room capM capD : Nat) :
    (sinit cfg nd pool caps room capM capD).cp = run (mkCP cfg nd pool) [.cuRoom capM, .drvRoom capD] := rfl

end Sys
end C09
